
(** * single opcodes *)

Definition put_state (st : state) (idx : Z) (o : obj) : state :=
  mkState (stack st) (memo st ++ [(idx, o)])%list (next st) (ecache st) (trace st).

Lemma do_put_is : forall cs pend st o s idx,
  inv cs pend st -> stack st = o :: s -> is_mark o = false -> existsb (Z.eqb idx) (snd cs) = false ->
  do_put st idx = SNext (put_state st idx o) /\ memo_ext st (put_state st idx o) /\
  memo_get idx (memo (put_state st idx o)) = Some o.
Proof.
  intros cs pend st o s idx [[Hs Hmm] [Hk Ha]] Hst Hm Hfr.
  assert (Hp : pop1 (stack st) = Some (o, s)) by (rewrite Hst; cbn [pop1]; rewrite Hm; reflexivity).
  rewrite <- Hk in Hfr. split; [|split].
  - unfold do_put. rewrite Hp, (memo_put_fresh idx o (memo st) Hfr). reflexivity.
  - intros j x Hj. cbn. apply memo_get_app_old. exact Hj.
  - cbn. apply memo_get_app_new. exact Hfr.
Qed.

Lemma inv_put_pending : forall cs pend st o s idx,
  inv cs pend st -> stack st = o :: s -> existsb (Z.eqb idx) (snd cs) = false ->
  inv (fst cs, (snd cs ++ [idx])%list) pend (put_state st idx o).
Proof.
  intros cs pend st o s idx [[Hs Hmm] [Hk Ha]] Hst Hfr.
  assert (Ho : ids_below (next st) o = true).
  { rewrite Hst in Hs. cbn in Hs. apply andb_true_iff in Hs. apply Hs. }
  split; [|split]; cbn.
  - split; cbn; [exact Hs|]. rewrite forallb_app, Hmm. cbn. rewrite Ho. reflexivity.
  - rewrite map_app, Hk. reflexivity.
  - intros j w Hj. destruct (Ha j w Hj) as [x [Hg Hr]]. exists x. split; [apply memo_get_app_old; exact Hg | exact Hr].
Qed.

Lemma inv_put_recorded : forall cs pend st o s idx v,
  inv cs pend st -> stack st = o :: s -> existsb (Z.eqb idx) (snd cs) = false ->
  decode o = Some v -> (idfree v = true -> o = canon_obj v) -> noccur_all pend o = true ->
  inv ((idx, v) :: fst cs, (snd cs ++ [idx])%list) pend (put_state st idx o).
Proof.
  intros cs pend st o s idx v Hinv Hst Hfr Hd Hc Hn.
  pose proof (inv_put_pending cs pend st o s idx Hinv Hst Hfr) as [Hf [Hk Ha]].
  split; [exact Hf|]. split; [exact Hk|].
  intros j w Hj. cbn [fst lm_get] in Hj. destruct (Z.eqb j idx) eqn:E.
  - inversion Hj; subst w. apply Z.eqb_eq in E. subst j. exists o. split; [|auto].
    destruct Hinv as [_ [Hk0 _]]. rewrite <- Hk0 in Hfr. cbn. apply memo_get_app_new. exact Hfr.
  - apply Ha. exact Hj.
Qed.

Lemma put_op_step : forall w cs pend st p idx,
  inv cs pend st -> put_index (snd cs) p = Some idx -> step w st p = do_put st idx.
Proof.
  intros w cs pend st p idx Hinv Ep. destruct p; cbn in Ep; try discriminate; cbn [step].
  - inversion Ep; subst idx. rewrite (inv_keys_len cs pend st Hinv). reflexivity.
  - destruct (Z.ltb i 0); [discriminate|]. inversion Ep; subst. reflexivity.
  - inversion Ep; subst. reflexivity.
  - inversion Ep; subst. reflexivity.
Qed.

Lemma put_sound : forall w cs pend v prog cs' rest st o s,
  chk_put cs v prog = Some (cs', rest) -> inv cs pend st -> stack st = o :: s ->
  is_mark o = false -> decode o = Some v -> (idfree v = true -> o = canon_obj v) -> noccur_all pend o = true ->
  exists st', run w st prog = run w st' rest /\ stack st' = stack st /\ next st' = next st /\ inv cs' pend st' /\
              memo_ext st st'.
Proof.
  intros w cs pend v prog cs' rest st o s H Hinv Hst Hm Hd Hc Hn. unfold chk_put in H.
  assert (Hsame : exists st', run w st prog = run w st' prog /\ stack st' = stack st /\ next st' = next st /\ inv cs pend st' /\ memo_ext st st').
  { exists st. split; [reflexivity|]. split; [reflexivity|]. split; [reflexivity|]. split; [exact Hinv | apply memo_ext_refl]. }
  destruct prog as [|p r]; [inversion H; subst; exact Hsame|].
  destruct (put_index (snd cs) p) as [idx|] eqn:Ep; [|inversion H; subst; exact Hsame]. clear Hsame.
  destruct (existsb (Z.eqb idx) (snd cs)) eqn:Ef; [discriminate|]. inversion H; subst cs' rest. clear H.
  destruct (do_put_is cs pend st o s idx Hinv Hst Hm Ef) as [Hd' [He' _]].
  exists (put_state st idx o). split; [apply run_step_next; rewrite (put_op_step w cs pend st p idx Hinv Ep); exact Hd'|].
  split; [reflexivity|]. split; [reflexivity|]. split; [|exact He'].
  apply (inv_put_recorded cs pend st o s idx v); assumption.
Qed.

Lemma put_pending_sound : forall w cs pend prog cs' rest pidx st o s,
  chk_put_pending cs prog = Some (cs', rest, pidx) -> inv cs pend st -> stack st = o :: s -> is_mark o = false ->
  exists st', run w st prog = run w st' rest /\ stack st' = stack st /\ next st' = next st /\ inv cs' pend st' /\
              memo_ext st st' /\ (forall idx, pidx = Some idx -> memo_get idx (memo st') = Some o).
Proof.
  intros w cs pend prog cs' rest pidx st o s H Hinv Hst Hm. unfold chk_put_pending in H.
  assert (Hsame : exists st', run w st prog = run w st' prog /\ stack st' = stack st /\ next st' = next st /\ inv cs pend st' /\
                    memo_ext st st' /\ (forall idx, @None Z = Some idx -> memo_get idx (memo st') = Some o)).
  { exists st. split; [reflexivity|]. split; [reflexivity|]. split; [reflexivity|]. split; [exact Hinv|].
    split; [apply memo_ext_refl | intros; discriminate]. }
  destruct prog as [|p r]; [inversion H; subst; exact Hsame|].
  destruct (put_index (snd cs) p) as [idx|] eqn:Ep; [|inversion H; subst; exact Hsame]. clear Hsame.
  destruct (existsb (Z.eqb idx) (snd cs)) eqn:Ef; [discriminate|]. inversion H; subst cs' rest pidx. clear H.
  destruct (do_put_is cs pend st o s idx Hinv Hst Hm Ef) as [Hd' [He' Hg']].
  exists (put_state st idx o). split; [apply run_step_next; rewrite (put_op_step w cs pend st p idx Hinv Ep); exact Hd'|].
  split; [reflexivity|]. split; [reflexivity|]. split; [apply (inv_put_pending cs pend st o s idx); assumption|].
  split; [exact He'|]. intros j Hj. inversion Hj; subst j. exact Hg'.
Qed.

(* a fetch pushes the known object *)
Lemma get_sound : forall w cs pend v i st p,
  get_index p = Some i -> chk_get cs v i = true -> inv cs pend st ->
  exists o, step w st p = SNext (push o st) /\ decode o = Some v /\ (idfree v = true -> o = canon_obj v) /\
            noccur_all pend o = true /\ ids_below (next st) o = true.
Proof.
  intros w cs pend v i st p Hg Hc Hinv. unfold chk_get in Hc.
  destruct (lm_get i (fst cs)) as [v'|] eqn:El; [|discriminate]. apply pv_eqb_eq in Hc. subst v'.
  destruct Hinv as [[_ Hmm] [_ Ha]]. destruct (Ha i v El) as [o [Hm [Hd [Hcn Hn]]]]. exists o.
  split; [|split; [exact Hd | split; [exact Hcn | split; [exact Hn|]]]].
  - destruct p; cbn in Hg; try discriminate; inversion Hg; subst; cbn [step]; unfold do_get; rewrite Hm; reflexivity.
  - clear - Hmm Hm. induction (memo st) as [|[k x] r IH]; cbn in *; [discriminate|].
    apply andb_true_iff in Hmm. destruct Hmm as [H1 H2]. destruct (Z.eqb i k); [inversion Hm; subst; exact H1 | apply IH; assumption].
Qed.

Lemma atom_of_push_step : forall w st p a, atom_of_push p = Some a -> step w st p = SNext (push (obj_of_atom a) st).
Proof.
  intros w st p a H. destruct p; cbn in H; try discriminate; try (inversion H; subst; reflexivity).
  - destruct f; [inversion H; subst; reflexivity | discriminate].
  - destruct f; [inversion H; subst; reflexivity | discriminate].
Qed.

Lemma noccur_atom : forall pend a, noccur_all pend (obj_of_atom a) = true.
Proof. intros. apply noccur_all_noids. apply noids_atom. Qed.

Lemma atom_sound : forall w a cs pend prog cs' rest st,
  chk_atom a cs prog = Some (cs', rest) -> inv cs pend st ->
  exists st', run w st prog = run w st' rest /\ stack st' = obj_of_atom a :: stack st /\
              next st' = next st /\ inv cs' pend st' /\ memo_ext st st'.
Proof.
  intros w a cs pend prog cs' rest st H Hinv. unfold chk_atom in H. destruct prog as [|p r]; [discriminate|].
  destruct (get_index p) as [i|] eqn:Eg.
  - destruct (chk_get cs (PAtom a) i) eqn:Ec; [|discriminate]. inversion H; subst cs' rest.
    destruct (get_sound w cs pend (PAtom a) i st p Eg Ec Hinv) as [o [Hs [_ [Hc _]]]].
    rewrite (Hc eq_refl) in Hs. cbn [canon_obj] in Hs.
    exists (push (obj_of_atom a) st). split; [apply run_step_next; exact Hs|].
    split; [reflexivity | split; [reflexivity|]]. split; [apply inv_push; [exact Hinv | apply ids_below_atom] | apply memo_ext_same; reflexivity].
  - destruct (atom_of_push p) as [a'|] eqn:Ea; [|discriminate].
    destruct (atom_eqb a' a) eqn:Ee; [|discriminate]. apply atom_eqb_eq in Ee. subst a'.
    assert (Hinv1 : inv cs pend (push (obj_of_atom a) st)) by (apply inv_push; [exact Hinv | apply ids_below_atom]).
    destruct (put_sound w cs pend (PAtom a) r cs' rest (push (obj_of_atom a) st) (obj_of_atom a) (stack st) H Hinv1
                        eq_refl (is_mark_atom a) (decode_obj_of_atom a) (fun _ => eq_refl) (noccur_atom pend a))
      as [st' [Hr [Hs [Hn [Hi He]]]]].
    exists st'. split; [|split; [exact Hs | split; [exact Hn | split; [exact Hi | exact He]]]].
    rewrite (run_step_next w st p _ r (atom_of_push_step w st p a Ea)). exact Hr.
Qed.

Lemma atoms_sound : forall w xs cs pend prog cs' rest st,
  chk_atoms xs cs prog = Some (cs', rest) -> inv cs pend st ->
  exists st', run w st prog = run w st' rest /\ stack st' = (rev (map obj_of_atom xs) ++ stack st)%list /\
              next st' = next st /\ inv cs' pend st' /\ memo_ext st st'.
Proof.
  intros w. induction xs as [|a r IH]; intros cs pend prog cs' rest st H Hinv; cbn [chk_atoms] in H.
  - inversion H; subst. exists st. split; [reflexivity|]. split; [reflexivity|]. split; [reflexivity|].
    split; [exact Hinv | apply memo_ext_refl].
  - destruct (chk_atom a cs prog) as [[cs1 p1]|] eqn:Ea; [|discriminate].
    destruct (atom_sound w a cs pend prog cs1 p1 st Ea Hinv) as [st1 [Hr1 [Hs1 [Hn1 [Hi1 He1]]]]].
    destruct (IH cs1 pend p1 cs' rest st1 H Hi1) as [st2 [Hr2 [Hs2 [Hn2 [Hi2 He2]]]]].
    exists st2. split; [rewrite Hr1; exact Hr2|]. split; [|split; [lia | split; [exact Hi2 | exact (memo_ext_trans _ _ _ He1 He2)]]].
    rewrite Hs2, Hs1. cbn [map rev]. rewrite <- app_assoc. reflexivity.
Qed.

(* a class object *)
Lemma type_default_sound : forall w m n cs pend prog cs' rest st,
  match chk_atom (AStr m) cs prog with
  | Some (cs1, p1) =>
      match chk_atom (AStr n) cs1 p1 with
      | Some (cs2, STACK_GLOBAL :: p2) => chk_put cs2 (PType m n) p2
      | _ => None
      end
  | None => None
  end = Some (cs', rest) ->
  inv cs pend st -> find_class w m n = FCResolved GType ->
  exists st', run w st prog = run w st' rest /\ stack st' = OGlobal m n GType :: stack st /\
              next st' = next st /\ inv cs' pend st' /\ memo_ext st st'.
Proof.
  intros w m n cs pend prog cs' rest st H Hinv Hfc.
  destruct (chk_atom (AStr m) cs prog) as [[cs1 p1]|] eqn:E1; [|discriminate].
  destruct (chk_atom (AStr n) cs1 p1) as [[cs2 p2]|] eqn:E2; [|discriminate].
  destruct p2 as [|q p2]; [discriminate|]. destruct q; try discriminate.
  destruct (atom_sound w _ _ pend _ _ _ st E1 Hinv) as [st1 [Hr1 [Hs1 [Hn1 [Hi1 He1]]]]].
  destruct (atom_sound w _ _ pend _ _ _ st1 E2 Hi1) as [st2 [Hr2 [Hs2 [Hn2 [Hi2 He2]]]]].
  cbn [obj_of_atom] in Hs1, Hs2.
  set (st3 := mkState (OGlobal m n GType :: stack st) (memo st2) (next st2) (ecache st2) (EResolve m n :: trace st2)).
  assert (H3 : step w st2 STACK_GLOBAL = SNext st3).
  { cbn [step]. rewrite Hs2, Hs1. cbn [pop1 is_mark]. unfold do_global. rewrite Hfc. reflexivity. }
  assert (Hi3 : inv cs2 pend st3).
  { unfold st3. apply (inv_trace _ _ _ _ _ _ (trace st2)). apply inv_stack; [exact Hi2 | lia|].
    cbn. destruct Hi2 as [[Hs _] _]. rewrite Hs2, Hs1 in Hs. cbn in Hs. exact Hs. }
  destruct (put_sound w cs2 pend (PType m n) p2 cs' rest st3 (OGlobal m n GType) (stack st) H Hi3 eq_refl eq_refl eq_refl
                      (fun _ => eq_refl) (noccur_all_noids pend (OGlobal m n GType) eq_refl)) as [st4 [Hr4 [Hs4 [Hn4 [Hi4 He4]]]]].
  exists st4. split; [|split; [exact Hs4 | split; [cbn in Hn4; lia | split; [exact Hi4|]]]].
  - rewrite Hr1, Hr2, (run_step_next w st2 STACK_GLOBAL st3 p2 H3). exact Hr4.
  - apply (memo_ext_trans _ _ _ He1). apply (memo_ext_trans _ _ _ He2). exact He4.
Qed.

Lemma type_sound : forall w m n cs pend prog cs' rest st,
  chk_type m n cs prog = Some (cs', rest) -> inv cs pend st -> find_class w m n = FCResolved GType ->
  exists st', run w st prog = run w st' rest /\ stack st' = OGlobal m n GType :: stack st /\
              next st' = next st /\ inv cs' pend st' /\ memo_ext st st'.
Proof.
  intros w m n cs pend prog cs' rest st H Hinv Hfc. unfold chk_type in H. destruct prog as [|p r]; [discriminate|].
  destruct (match get_index p with Some i => chk_get cs (PType m n) i | None => false end) eqn:Eg.
  - inversion H; subst cs' rest. destruct (get_index p) as [i|] eqn:Ei; [|discriminate].
    destruct (get_sound w cs pend (PType m n) i st p Ei Eg Hinv) as [o [Hs [_ [Hc _]]]].
    rewrite (Hc eq_refl) in Hs. cbn [canon_obj] in Hs.
    exists (push (OGlobal m n GType) st). split; [apply run_step_next; exact Hs|].
    split; [reflexivity | split; [reflexivity|]]. split; [apply inv_push; [exact Hinv | reflexivity] | apply memo_ext_same; reflexivity].
  - destruct p;
      try (match type of H with
           | match chk_atom _ _ ?pp with _ => _ end = _ => exact (type_default_sound w m n cs pend pp cs' rest st H Hinv Hfc)
           end).
    (* GLOBAL *)
    match type of H with (if (pystr_eqb ?a m && pystr_eqb ?b n && _ && _)%bool then _ else _) = _ =>
      rename a into m0; rename b into n0 end.
    destruct (pystr_eqb m0 m && pystr_eqb n0 n && negb (empty_line m) && negb (empty_line n))%bool eqn:Ec; [|discriminate].
    apply andb_true_iff in Ec. destruct Ec as [Ec En]. apply andb_true_iff in Ec. destruct Ec as [Ec Em].
    apply andb_true_iff in Ec. destruct Ec as [E1 E2]. apply pystr_eqb_eq in E1. apply pystr_eqb_eq in E2. subst m0 n0.
    apply negb_true_iff in Em. apply negb_true_iff in En.
    set (st1 := mkState (OGlobal m n GType :: stack st) (memo st) (next st) (ecache st) (EResolve m n :: trace st)).
    assert (H1 : step w st (GLOBAL m n) = SNext st1).
    { cbn [step]. rewrite Em, En. cbn [orb]. unfold do_global. rewrite Hfc. reflexivity. }
    assert (Hi1 : inv cs pend st1).
    { unfold st1. apply (inv_trace _ _ _ _ _ _ (trace st)). apply inv_stack; [exact Hinv | lia|].
      cbn. destruct Hinv as [[Hs _] _]. exact Hs. }
    destruct (put_sound w cs pend (PType m n) r cs' rest st1 (OGlobal m n GType) (stack st) H Hi1 eq_refl eq_refl eq_refl
                        (fun _ => eq_refl) (noccur_all_noids pend (OGlobal m n GType) eq_refl)) as [st2 [Hr2 [Hs2 [Hn2 [Hi2 He2]]]]].
    exists st2. split; [|split; [exact Hs2 | split; [exact Hn2 | split; [exact Hi2 | exact He2]]]].
    rewrite (run_step_next w st _ st1 r H1). exact Hr2.
Qed.

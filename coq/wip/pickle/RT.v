(** C14 proofs (draft): canonical encoding round trip *)
From Coq Require Import List ZArith NArith Bool Arith Lia.
Import ListNotations.
From DD Require Import Base.Sx Base.PyStr Base.Value Pickle.Vm Pickle.Codec Pickle.PickleProofs.

(** * identities *)

Fixpoint ids_below (n : nat) (o : obj) {struct o} : bool :=
  match o with
  | OTuple xs | OFrozen xs => forallb (ids_below n) xs
  | OList i xs | OSet i xs => Nat.ltb i n && forallb (ids_below n) xs
  | ODict i kvs => Nat.ltb i n && forallb (fun kv => ids_below n (fst kv) && ids_below n (snd kv)) kvs
  | OInst i _ f a sts => Nat.ltb i n && ids_below n f && ids_below n a && forallb (ids_below n) sts
  | _ => true
  end.

Lemma map_id_forall : forall (A : Type) (f : A -> bool) (g : A -> A) xs,
  Forall (fun x => f x = true -> g x = x) xs -> forallb f xs = true -> map g xs = xs.
Proof.
  intros A f g xs H. induction H as [|x r Hx Hr IH]; cbn; [reflexivity|].
  intro E. apply andb_true_iff in E. destruct E as [E1 E2]. rewrite (Hx E1), (IH E2). reflexivity.
Qed.

Lemma ltb_neq : forall i j, Nat.ltb j i = true -> Nat.eqb i j = false.
Proof. intros i j H. apply Nat.ltb_lt in H. apply Nat.eqb_neq. lia. Qed.

Lemma subst_fresh : forall i c o, ids_below i o = true -> subst i c o = o.
Proof.
  intros i c. induction o using obj_ind'; cbn [ids_below subst]; intro Hb; try reflexivity.
  - f_equal. apply (map_id_forall _ (ids_below i)); assumption.
  - f_equal. apply (map_id_forall _ (ids_below i)); assumption.
  - apply andb_true_iff in Hb. destruct Hb as [Hl Hx]. rewrite (ltb_neq _ _ Hl).
    f_equal. apply (map_id_forall _ (ids_below i)); assumption.
  - apply andb_true_iff in Hb. destruct Hb as [Hl Hx]. rewrite (ltb_neq _ _ Hl). f_equal.
    revert Hx. induction H as [|kv r [Hk Hv] Hr IH]; cbn; [reflexivity|].
    intro E. apply andb_true_iff in E. destruct E as [E1 E2]. apply andb_true_iff in E1. destruct E1 as [Ek Ev].
    rewrite (Hk Ek), (Hv Ev), (IH E2). destruct kv; reflexivity.
  - apply andb_true_iff in Hb. destruct Hb as [Hl Hx]. rewrite (ltb_neq _ _ Hl).
    f_equal. apply (map_id_forall _ (ids_below i)); assumption.
  - apply andb_true_iff in Hb. destruct Hb as [Hb Hs]. apply andb_true_iff in Hb. destruct Hb as [Hb Ha].
    apply andb_true_iff in Hb. destruct Hb as [Hl Hf]. rewrite (ltb_neq _ _ Hl).
    rewrite (IHo1 Hf), (IHo2 Ha). f_equal. apply (map_id_forall _ (ids_below i)); assumption.
Qed.

Lemma forallb_imp : forall (A : Type) (f g : A -> bool) xs,
  Forall (fun x => f x = true -> g x = true) xs -> forallb f xs = true -> forallb g xs = true.
Proof.
  intros A f g xs H. induction H as [|x r Hx Hr IH]; cbn; [auto|].
  intro E. apply andb_true_iff in E. destruct E as [E1 E2]. rewrite (Hx E1), (IH E2). reflexivity.
Qed.

Lemma ltb_mono : forall i n m, n <= m -> Nat.ltb i n = true -> Nat.ltb i m = true.
Proof. intros i n m H E. apply Nat.ltb_lt in E. apply Nat.ltb_lt. lia. Qed.

Lemma ids_below_mono : forall n m, n <= m -> forall o, ids_below n o = true -> ids_below m o = true.
Proof.
  intros n m Hnm. induction o using obj_ind'; cbn [ids_below]; intro Hb; try reflexivity.
  - apply (forallb_imp _ (ids_below n)); assumption.
  - apply (forallb_imp _ (ids_below n)); assumption.
  - apply andb_true_iff in Hb. destruct Hb as [Hl Hx]. rewrite (ltb_mono _ _ _ Hnm Hl). cbn.
    apply (forallb_imp _ (ids_below n)); assumption.
  - apply andb_true_iff in Hb. destruct Hb as [Hl Hx]. rewrite (ltb_mono _ _ _ Hnm Hl). cbn.
    revert Hx. induction H as [|kv r [Hk Hv] Hr IH]; cbn; [auto|].
    intro E. apply andb_true_iff in E. destruct E as [E1 E2]. apply andb_true_iff in E1. destruct E1 as [Ek Ev].
    rewrite (Hk Ek), (Hv Ev), (IH E2). reflexivity.
  - apply andb_true_iff in Hb. destruct Hb as [Hl Hx]. rewrite (ltb_mono _ _ _ Hnm Hl). cbn.
    apply (forallb_imp _ (ids_below n)); assumption.
  - apply andb_true_iff in Hb. destruct Hb as [Hb Hs]. apply andb_true_iff in Hb. destruct Hb as [Hb Ha].
    apply andb_true_iff in Hb. destruct Hb as [Hl Hf].
    rewrite (ltb_mono _ _ _ Hnm Hl), (IHo1 Hf), (IHo2 Ha). cbn.
    apply (forallb_imp _ (ids_below n)); assumption.
Qed.

Lemma ids_below_all_mono : forall n m xs, n <= m ->
  forallb (ids_below n) xs = true -> forallb (ids_below m) xs = true.
Proof.
  intros n m xs H. apply forallb_imp. apply Forall_forall. intros x _. apply ids_below_mono. exact H.
Qed.

(** * decode on containers, in terms of list functions *)

Lemma decode_list_eq : forall i os, decode (OList i os) = option_map PList (all_some (map decode os)).
Proof.
  intros i os. cbn [decode]. f_equal. induction os as [|o r IH]; cbn; [reflexivity|].
  rewrite IH. destruct (decode o); [|reflexivity]. destruct (all_some (map decode r)); reflexivity.
Qed.
Lemma decode_tuple_eq : forall os, decode (OTuple os) = option_map PTuple (all_some (map decode os)).
Proof.
  intros os. cbn [decode]. f_equal. induction os as [|o r IH]; cbn; [reflexivity|].
  rewrite IH. destruct (decode o); [|reflexivity]. destruct (all_some (map decode r)); reflexivity.
Qed.
Definition dec_kv (kv : obj * obj) : option (atom * pv) :=
  match atom_of_obj (fst kv), decode (snd kv) with Some a, Some y => Some (a, y) | _, _ => None end.
Lemma decode_dict_eq : forall i kvs, decode (ODict i kvs) = option_map PDict (all_some (map dec_kv kvs)).
Proof.
  intros i kvs. cbn [decode]. f_equal. induction kvs as [|[k x] r IH]; cbn; [reflexivity|].
  rewrite IH. unfold dec_kv. cbn. destruct (atom_of_obj k); [|reflexivity].
  destruct (decode x); [|reflexivity]. destruct (all_some (map dec_kv r)); reflexivity.
Qed.

Lemma all_some_map_decode : forall os vs,
  Forall2 (fun o v => decode o = Some v) os vs -> all_some (map decode os) = Some vs.
Proof.
  intros os vs H. induction H as [|o v os vs Ho Hr IH]; cbn; [reflexivity|]. rewrite Ho, IH. reflexivity.
Qed.

Lemma atom_of_obj_of_atom : forall a, atom_of_obj (obj_of_atom a) = Some a.
Proof. destruct a; reflexivity. Qed.
Lemma decode_obj_of_atom : forall a, decode (obj_of_atom a) = Some (PAtom a).
Proof. destruct a; reflexivity. Qed.
Lemma all_some_atoms : forall xs, all_some (map atom_of_obj (map obj_of_atom xs)) = Some xs.
Proof. induction xs as [|a r IH]; cbn; [reflexivity|]. rewrite atom_of_obj_of_atom, IH. reflexivity. Qed.
Lemma hashable_atom : forall a, hashable (obj_of_atom a) = true.
Proof. destruct a; reflexivity. Qed.
Lemma is_mark_atom : forall a, is_mark (obj_of_atom a) = false.
Proof. destruct a; reflexivity. Qed.
Lemma ids_below_atom : forall n a, ids_below n (obj_of_atom a) = true.
Proof. destruct a; reflexivity. Qed.

Lemma obj_pyeq_atoms : forall a b, obj_pyeq (obj_of_atom a) (obj_of_atom b) = py_eq a b.
Proof. destruct a, b; try reflexivity; cbn; try (destruct b; reflexivity); try (destruct b0; reflexivity). Qed.

(** * keys and members: Python equality on atoms *)

Lemma pystr_eqb_sym : forall a b, pystr_eqb a b = pystr_eqb b a.
Proof.
  intros a b. destruct (pystr_eqb a b) eqn:E1, (pystr_eqb b a) eqn:E2; try reflexivity.
  - apply pystr_eqb_eq in E1. subst. rewrite pystr_eqb_refl in E2. discriminate.
  - apply pystr_eqb_eq in E2. subst. rewrite pystr_eqb_refl in E1. discriminate.
Qed.

Lemma py_eq_sym : forall a b, py_eq a b = py_eq b a.
Proof.
  intros a b. unfold py_eq. destruct (num2 a) as [x|] eqn:Ea, (num2 b) as [y|] eqn:Eb; try reflexivity.
  - apply Z.eqb_sym.
  - destruct a, b; try reflexivity; try discriminate; apply pystr_eqb_sym.
Qed.

Fixpoint nodup_keys (ks : list obj) : bool :=
  match ks with
  | [] => true
  | k :: r => negb (existsb (obj_pyeq k) r) && nodup_keys r
  end.

Lemma existsb_map : forall (A B : Type) (f : B -> bool) (g : A -> B) l,
  existsb f (map g l) = existsb (fun x => f (g x)) l.
Proof. intros. induction l as [|x r IH]; cbn; [reflexivity|]. rewrite IH. reflexivity. Qed.

Lemma existsb_ext_in : forall (A : Type) (f g : A -> bool) l, (forall x, f x = g x) -> existsb f l = existsb g l.
Proof. intros A f g l H. induction l as [|x r IH]; cbn; [reflexivity|]. rewrite H, IH. reflexivity. Qed.

Lemma nodup_keys_atoms : forall xs, nodup_keys (map obj_of_atom xs) = nodup_atoms xs.
Proof.
  induction xs as [|a r IH]; cbn; [reflexivity|]. rewrite IH. f_equal. f_equal.
  unfold mem_atom. rewrite existsb_map. apply existsb_ext_in. intro x. apply obj_pyeq_atoms.
Qed.

Lemma nodup_keys_app_mid : forall l1 k l2, nodup_keys (l1 ++ k :: l2) = true ->
  existsb (fun e => obj_pyeq e k) l1 = false /\ nodup_keys ((l1 ++ [k]) ++ l2) = true.
Proof.
  intros l1 k l2 H. split.
  - induction l1 as [|e r IH]; cbn in *; [reflexivity|].
    apply andb_true_iff in H. destruct H as [H1 H2]. rewrite (IH H2), orb_false_r.
    apply negb_true_iff in H1. rewrite existsb_app in H1. apply orb_false_iff in H1. destruct H1 as [_ H1].
    cbn in H1. apply orb_false_iff in H1. apply H1.
  - rewrite <- app_assoc. exact H.
Qed.

Lemma dict_set_fresh : forall k v acc,
  existsb (fun e => obj_pyeq e k) (map fst acc) = false -> dict_set k v acc = (acc ++ [(k, v)])%list.
Proof.
  intros k v. induction acc as [|[k' v'] r IH]; cbn; [reflexivity|].
  intro H. apply orb_false_iff in H. destruct H as [H1 H2]. rewrite H1, (IH H2). reflexivity.
Qed.

Lemma dict_set_all_fresh : forall ps acc,
  forallb hashable (map fst ps) = true ->
  nodup_keys (map fst acc ++ map fst ps) = true ->
  dict_set_all ps acc = Some (acc ++ ps)%list.
Proof.
  induction ps as [|[k v] r IH]; intros acc Hh Hn; cbn.
  - rewrite app_nil_r. reflexivity.
  - cbn in Hh. apply andb_true_iff in Hh. destruct Hh as [Hk Hr]. rewrite Hk.
    cbn [map fst] in Hn. destruct (nodup_keys_app_mid _ _ _ Hn) as [He Hn'].
    rewrite (dict_set_fresh k v acc He). rewrite IH.
    + rewrite <- app_assoc. reflexivity.
    + exact Hr.
    + rewrite map_app. cbn. exact Hn'.
Qed.

Lemma nodup_atoms_app_mid : forall l1 a l2, nodup_atoms (l1 ++ a :: l2) = true ->
  existsb (py_eq a) l1 = false /\ nodup_atoms ((l1 ++ [a]) ++ l2) = true.
Proof.
  intros l1 a l2 H. split.
  - induction l1 as [|e r IH]; cbn in *; [reflexivity|].
    apply andb_true_iff in H. destruct H as [H1 H2]. rewrite (IH H2), orb_false_r.
    apply negb_true_iff in H1. unfold mem_atom in H1. rewrite existsb_app in H1.
    apply orb_false_iff in H1. destruct H1 as [_ H1]. cbn in H1. apply orb_false_iff in H1.
    rewrite py_eq_sym. apply H1.
  - rewrite <- app_assoc. exact H.
Qed.

Lemma set_add_all_atoms : forall xs acc, nodup_atoms (acc ++ xs) = true ->
  set_add_all (map obj_of_atom xs) (map obj_of_atom acc) = Some (map obj_of_atom (acc ++ xs)).
Proof.
  induction xs as [|a r IH]; intros acc H; cbn.
  - rewrite app_nil_r. reflexivity.
  - rewrite hashable_atom. destruct (nodup_atoms_app_mid _ _ _ H) as [He Hn].
    unfold set_add. rewrite existsb_map.
    rewrite (existsb_ext_in _ _ (py_eq a)) by (intro x; apply obj_pyeq_atoms). rewrite He.
    replace (map obj_of_atom acc ++ [obj_of_atom a])%list with (map obj_of_atom (acc ++ [a])) by (rewrite map_app; reflexivity).
    rewrite (IH _ Hn). rewrite <- app_assoc. reflexivity.
Qed.

(** * marks *)

Lemma to_mark_rev_gen : forall os tail acc, existsb is_mark os = false ->
  to_mark (rev os ++ tail) acc = to_mark tail (os ++ acc).
Proof.
  induction os as [|x r IH]; intros tail acc H; cbn; [reflexivity|].
  cbn in H. apply orb_false_iff in H. destruct H as [Hx Hr].
  rewrite <- app_assoc. rewrite (IH _ _ Hr). cbn. rewrite Hx. reflexivity.
Qed.

Lemma to_mark_rev : forall os below, existsb is_mark os = false ->
  to_mark (rev os ++ OMark :: below) [] = Some (os, below).
Proof. intros os below H. rewrite (to_mark_rev_gen os _ [] H). cbn. rewrite app_nil_r. reflexivity. Qed.

(** * fresh states *)

Definition fresh_state (st : state) : Prop :=
  forallb (ids_below (next st)) (stack st) = true /\
  forallb (fun p => ids_below (next st) (snd p)) (memo st) = true.

Lemma memo_subst_fresh : forall i c (m : list (Z * obj)),
  forallb (fun p => ids_below i (snd p)) m = true ->
  map (fun p => (fst p, subst i c (snd p))) m = m.
Proof.
  intros i c. induction m as [|[j x] r IH]; cbn; [reflexivity|].
  intro E. apply andb_true_iff in E. destruct E as [E1 E2]. rewrite (subst_fresh i c x E1), (IH E2). reflexivity.
Qed.

Lemma stack_subst_fresh : forall i c s, forallb (ids_below i) s = true -> map (subst i c) s = s.
Proof.
  intros i c s. apply (map_id_forall _ (ids_below i)). apply Forall_forall. intros x _. apply subst_fresh.
Qed.

Lemma memo_mono : forall n m (mm : list (Z * obj)), n <= m ->
  forallb (fun p => ids_below n (snd p)) mm = true -> forallb (fun p => ids_below m (snd p)) mm = true.
Proof.
  intros n m mm H. apply forallb_imp. apply Forall_forall. intros x _. apply ids_below_mono. exact H.
Qed.

(** * induction principle for payloads *)
Section PvInd.
  Variable P : pv -> Prop.
  Hypothesis HAtom : forall a, P (PAtom a).
  Hypothesis HFloatBits : forall b, P (PFloatBits b).
  Hypothesis HList : forall xs, Forall P xs -> P (PList xs).
  Hypothesis HTuple : forall xs, Forall P xs -> P (PTuple xs).
  Hypothesis HDict : forall kvs, Forall (fun kv => P (snd kv)) kvs -> P (PDict kvs).
  Hypothesis HSet : forall xs, P (PSet xs).
  Hypothesis HFrozen : forall xs, P (PFrozen xs).
  Hypothesis HType : forall m n, P (PType m n).
  Hypothesis HNoneType : P PNoneType.
  Hypothesis HOpcode : forall tag i1 i2 j1 j2 old new, P old -> P new -> P (POpcode tag i1 i2 j1 j2 old new).
  Hypothesis HSetOrdered : forall xs, Forall P xs -> P (PSetOrdered xs).

  Fixpoint pv_ind' (v : pv) : P v :=
    let fix all (xs : list pv) : Forall P xs :=
      match xs with
      | [] => Forall_nil P
      | x :: r => Forall_cons x (pv_ind' x) (all r)
      end in
    match v with
    | PAtom a => HAtom a
    | PFloatBits b => HFloatBits b
    | PList xs => HList xs (all xs)
    | PTuple xs => HTuple xs (all xs)
    | PDict kvs =>
        HDict kvs ((fix allp (kvs : list (atom * pv)) : Forall (fun kv => P (snd kv)) kvs :=
                      match kvs with
                      | [] => Forall_nil _
                      | kv :: r => Forall_cons kv (pv_ind' (snd kv)) (allp r)
                      end) kvs)
    | PSet xs => HSet xs
    | PFrozen xs => HFrozen xs
    | PType m n => HType m n
    | PNoneType => HNoneType
    | POpcode tag i1 i2 j1 j2 old new => HOpcode tag i1 i2 j1 j2 old new (pv_ind' old) (pv_ind' new)
    | PSetOrdered xs => HSetOrdered xs (all xs)
    end.
End PvInd.

(** * running encodings *)

Definition st_push (st : state) (os : list obj) (n : nat) (tr : list event) : state :=
  mkState (os ++ stack st) (memo st) n (ecache st) tr.

(* running [prog] pushes one object that reads back as [v] *)
Definition pushes (w : world) (prog : list op) (v : pv) : Prop :=
  forall st rest, fresh_state st ->
  exists o n' tr',
    run w st (prog ++ rest) = run w (st_push st [o] n' tr') rest /\
    decode o = Some v /\ next st <= n' /\ ids_below n' o = true /\ is_mark o = false.

(* running [prog] pushes objects that read back as [vs], first pushed deepest *)
Definition pushes_all (w : world) (prog : list op) (vs : list pv) : Prop :=
  forall st rest, fresh_state st ->
  exists os n' tr',
    run w st (prog ++ rest) = run w (st_push st (rev os) n' tr') rest /\
    Forall2 (fun o v => decode o = Some v) os vs /\ next st <= n' /\
    forallb (ids_below n') os = true /\ existsb is_mark os = false.

Lemma fresh_after_push : forall st os n tr, fresh_state st -> next st <= n ->
  forallb (ids_below n) os = true -> fresh_state (st_push st os n tr).
Proof.
  intros st os n tr [Hs Hm] Hle Ho. split; cbn.
  - rewrite forallb_app. rewrite Ho. cbn. apply (ids_below_all_mono _ _ _ Hle Hs).
  - apply (memo_mono _ _ _ Hle Hm).
Qed.

Lemma st_push_push : forall st os n tr os2 n2 tr2,
  st_push (st_push st os n tr) os2 n2 tr2 = st_push st (os2 ++ os) n2 tr2.
Proof. intros. unfold st_push. cbn. rewrite app_assoc. reflexivity. Qed.

Lemma forallb_rev' : forall (A : Type) (f : A -> bool) l, forallb f (rev l) = forallb f l.
Proof. exact forallb_rev. Qed.

Lemma pushes_all_nil : forall w, pushes_all w [] [].
Proof.
  intros w st rest Hf. exists [], (next st), (trace st). cbn. split; [|repeat split; auto].
  unfold st_push. cbn. destruct st; reflexivity.
Qed.

Lemma pushes_all_cons : forall w p ps v vs,
  pushes w p v -> pushes_all w ps vs -> pushes_all w (p ++ ps) (v :: vs).
Proof.
  intros w p ps v vs Hp Hps st rest Hf.
  destruct (Hp st (ps ++ rest) Hf) as [o [n1 [tr1 [Hr1 [Hd [Hle1 [Hb1 Hm1]]]]]]].
  assert (Hf1 : fresh_state (st_push st [o] n1 tr1)).
  { apply fresh_after_push; [exact Hf | exact Hle1|]. cbn. rewrite Hb1. reflexivity. }
  destruct (Hps _ rest Hf1) as [os [n2 [tr2 [Hr2 [Hds [Hle2 [Hb2 Hm2]]]]]]].
  exists (o :: os), n2, tr2. rewrite <- app_assoc, Hr1, Hr2. cbn [next st_push] in Hle2.
  split; [|split; [|split; [|split]]].
  - rewrite st_push_push. cbn [rev]. reflexivity.
  - constructor; assumption.
  - lia.
  - cbn. rewrite Hb2, (ids_below_mono _ _ Hle2 _ Hb1). reflexivity.
  - cbn. rewrite Hm1, Hm2. reflexivity.
Qed.

Lemma pushes_all_single : forall w p v, pushes w p v -> pushes_all w p [v].
Proof.
  intros w p v H. rewrite <- (app_nil_r p). apply pushes_all_cons; [exact H | apply pushes_all_nil].
Qed.

Lemma run_step_next : forall w st o st' r, step w st o = SNext st' -> run w st (o :: r) = run w st' r.
Proof. intros w st o st' r H. cbn [run]. rewrite H. reflexivity. Qed.

(* one opcode that pushes a constant *)
Lemma pushes_const : forall w o obj_ v,
  (forall st, step w st o = SNext (push obj_ st)) ->
  decode obj_ = Some v -> (forall n, ids_below n obj_ = true) -> is_mark obj_ = false ->
  pushes w [o] v.
Proof.
  intros w o obj_ v Hs Hd Hb Hm st rest Hf. exists obj_, (next st), (trace st).
  cbn [app]. rewrite (run_step_next _ _ _ _ _ (Hs st)).
  split; [reflexivity|]. repeat split; auto.
Qed.

Lemma step_enc_int : forall w st z, step w st (enc_int z) = SNext (push (OInt z) st).
Proof.
  intros. unfold enc_int.
  destruct (_ && _)%bool; [reflexivity|]. destruct (_ && _)%bool; [reflexivity|].
  destruct (_ && _)%bool; reflexivity.
Qed.
Lemma step_enc_str : forall w st s, step w st (enc_str s) = SNext (push (OStr s) st).
Proof. intros. unfold enc_str. destruct (Nat.ltb _ _); reflexivity. Qed.
Lemma step_enc_bytes : forall w st s, step w st (enc_bytes s) = SNext (push (OBytes s) st).
Proof. intros. unfold enc_bytes. destruct (Nat.ltb _ _); reflexivity. Qed.
Lemma step_enc_atom : forall w st a, step w st (enc_atom a) = SNext (push (obj_of_atom a) st).
Proof.
  intros w st a. destruct a; cbn [enc_atom obj_of_atom]; try reflexivity.
  - destruct b; reflexivity.
  - apply step_enc_int.
  - apply step_enc_str.
  - apply step_enc_bytes.
Qed.

Lemma pushes_atom : forall w a, pushes w [enc_atom a] (PAtom a).
Proof.
  intros w a. apply (pushes_const w _ (obj_of_atom a)).
  - intro st. apply step_enc_atom.
  - apply decode_obj_of_atom.
  - intro n. apply ids_below_atom.
  - apply is_mark_atom.
Qed.

Lemma pushes_atoms : forall w xs, pushes_all w (map enc_atom xs) (map PAtom xs).
Proof.
  intros w. induction xs as [|a r IH]; cbn [map]; [apply pushes_all_nil|].
  change (enc_atom a :: map enc_atom r) with ([enc_atom a] ++ map enc_atom r)%list.
  apply pushes_all_cons; [apply pushes_atom | exact IH].
Qed.

(** * closing opcodes *)

Lemma appends_closes : forall w below mm n ec tr i os rest,
  os <> [] -> existsb is_mark os = false ->
  forallb (ids_below i) below = true -> forallb (fun p => ids_below i (snd p)) mm = true ->
  run w (mkState (rev os ++ OMark :: OList i [] :: below) mm n ec tr) (APPENDS :: rest)
  = run w (mkState (OList i os :: below) mm n ec tr) rest.
Proof.
  intros w below mm n ec tr i os rest Hne Hm Hb Hmm.
  apply run_step_next. cbn [step]. unfold with_mark. cbn [stack]. rewrite (to_mark_rev os _ Hm).
  unfold do_extend. cbn [pop1 is_mark]. destruct os as [|x r]; [contradiction|].
  unfold mutate, set_stack. cbn [stack memo next ecache trace map subst app].
  rewrite Nat.eqb_refl, (stack_subst_fresh _ _ _ Hb), (memo_subst_fresh _ _ _ Hmm). reflexivity.
Qed.

Lemma tuple_closes : forall w below mm n ec tr os rest,
  existsb is_mark os = false ->
  run w (mkState (rev os ++ OMark :: below) mm n ec tr) (TUPLE :: rest)
  = run w (mkState (OTuple os :: below) mm n ec tr) rest.
Proof.
  intros. apply run_step_next. cbn [step]. unfold with_mark. cbn [stack]. rewrite (to_mark_rev os _ H). reflexivity.
Qed.

Lemma frozenset_closes : forall w below mm n ec tr xs rest,
  nodup_atoms xs = true ->
  run w (mkState (rev (map obj_of_atom xs) ++ OMark :: below) mm n ec tr) (FROZENSET :: rest)
  = run w (mkState (OFrozen (map obj_of_atom xs) :: below) mm n ec tr) rest.
Proof.
  intros w below mm n ec tr xs rest Hn. apply run_step_next. cbn [step]. unfold with_mark. cbn [stack].
  rewrite to_mark_rev.
  - pose proof (set_add_all_atoms xs [] Hn) as E. cbn [map app] in E. rewrite E. reflexivity.
  - rewrite existsb_map. induction xs as [|a r IH]; cbn; [reflexivity|]. rewrite is_mark_atom. cbn.
    apply IH. cbn in Hn. apply andb_true_iff in Hn. apply Hn.
Qed.

Lemma no_mark_atoms : forall xs, existsb is_mark (map obj_of_atom xs) = false.
Proof. induction xs as [|a r IH]; cbn; [reflexivity|]. rewrite is_mark_atom. exact IH. Qed.

Lemma additems_closes : forall w below mm n ec tr i xs rest,
  xs <> [] -> nodup_atoms xs = true ->
  forallb (ids_below i) below = true -> forallb (fun p => ids_below i (snd p)) mm = true ->
  run w (mkState (rev (map obj_of_atom xs) ++ OMark :: OSet i [] :: below) mm n ec tr) (ADDITEMS :: rest)
  = run w (mkState (OSet i (map obj_of_atom xs) :: below) mm n ec tr) rest.
Proof.
  intros w below mm n ec tr i xs rest Hne Hn Hb Hmm.
  apply run_step_next. cbn [step]. unfold with_mark. cbn [stack]. rewrite (to_mark_rev _ _ (no_mark_atoms xs)).
  unfold do_additems. cbn [pop1 is_mark].
  destruct (map obj_of_atom xs) as [|x r] eqn:E; [destruct xs; [contradiction | discriminate]|].
  rewrite <- E. pose proof (set_add_all_atoms xs [] Hn) as Es. cbn [map app] in Es. rewrite Es.
  unfold mutate, set_stack. cbn [stack memo next ecache trace map subst].
  rewrite Nat.eqb_refl, (stack_subst_fresh _ _ _ Hb), (memo_subst_fresh _ _ _ Hmm). reflexivity.
Qed.

Definition flatten (ps : list (obj * obj)) : list obj := flat_map (fun p => [fst p; snd p]) ps.

Lemma pairs_of_flatten : forall ps, pairs_of (flatten ps) = Some ps.
Proof. induction ps as [|[k v] r IH]; cbn; [reflexivity|]. unfold flatten in IH. rewrite IH. reflexivity. Qed.

Lemma setitems_closes : forall w below mm n ec tr i ps rest,
  ps <> [] -> existsb is_mark (flatten ps) = false ->
  forallb hashable (map fst ps) = true -> nodup_keys (map fst ps) = true ->
  forallb (ids_below i) below = true -> forallb (fun p => ids_below i (snd p)) mm = true ->
  run w (mkState (rev (flatten ps) ++ OMark :: ODict i [] :: below) mm n ec tr) (SETITEMS :: rest)
  = run w (mkState (ODict i ps :: below) mm n ec tr) rest.
Proof.
  intros w below mm n ec tr i ps rest Hne Hm Hh Hn Hb Hmm.
  apply run_step_next. cbn [step]. unfold with_mark. cbn [stack]. rewrite (to_mark_rev _ _ Hm).
  unfold do_setitems. cbn [pop1 is_mark].
  destruct (flatten ps) as [|x r] eqn:E; [destruct ps as [|[k v] ps']; [contradiction | discriminate]|].
  rewrite <- E, pairs_of_flatten. rewrite (dict_set_all_fresh ps [] Hh Hn). cbn [app].
  unfold mutate, set_stack. cbn [stack memo next ecache trace map subst].
  rewrite Nat.eqb_refl, (stack_subst_fresh _ _ _ Hb), (memo_subst_fresh _ _ _ Hmm). reflexivity.
Qed.

(** * composite encodings *)

Lemma fresh_state_parts : forall st, fresh_state st ->
  forallb (ids_below (next st)) (stack st) = true /\ forallb (fun p => ids_below (next st) (snd p)) (memo st) = true.
Proof. intros st H. exact H. Qed.

Lemma Forall2_length_ne : forall (A B : Type) (R : A -> B -> Prop) l1 l2, Forall2 R l1 l2 -> l2 <> [] -> l1 <> [].
Proof. intros A B R l1 l2 H Hne. destruct H; [contradiction | discriminate]. Qed.

Lemma pushes_list : forall w ps xs, xs <> [] -> pushes_all w ps xs ->
  pushes w (EMPTY_LIST :: MARK :: ps ++ [APPENDS]) (PList xs).
Proof.
  intros w ps xs Hne Hps st rest Hf. destruct Hf as [Hs Hm].
  set (i := next st) in *.
  assert (Hf2 : fresh_state (st_push st [OMark; OList i []] (S i) (trace st))).
  { apply fresh_after_push; [split; assumption | unfold i; lia|]. cbn [forallb ids_below].
    rewrite !andb_true_r. apply Nat.ltb_lt. lia. }
  destruct (Hps _ (APPENDS :: rest) Hf2) as [os [n' [tr' [Hr [Hd [Hle [Hb Hmk]]]]]]].
  exists (OList i os), n', tr'. cbn [next st_push] in Hle.
  split; [|split; [|split; [|split]]].
  - cbn [app]. rewrite (run_step_next w st EMPTY_LIST (fresh (push (OList i []) st))) by reflexivity.
    rewrite (run_step_next w _ MARK (push OMark (fresh (push (OList i []) st)))) by reflexivity.
    rewrite <- app_assoc. cbn [app].
    change (push OMark (fresh (push (OList i []) st))) with (st_push st [OMark; OList i []] (S i) (trace st)).
    rewrite Hr. unfold st_push. cbn [stack memo ecache app].
    apply appends_closes; try assumption. apply (Forall2_length_ne _ _ _ _ _ Hd Hne).
  - rewrite decode_list_eq, (all_some_map_decode _ _ Hd). reflexivity.
  - lia.
  - cbn [ids_below]. rewrite Hb, andb_true_r. apply Nat.ltb_lt. unfold i. lia.
  - reflexivity.
Qed.

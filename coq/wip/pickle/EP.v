(** Pickle/EncodesProofs.v - every encoding in the class [accepts] decodes, on the
    restricted-unpickler model, to the payload it was checked against. *)
From Coq Require Import List ZArith NArith Bool Arith Lia.
Import ListNotations.
From DD Require Import Base.Sx Base.PyStr Base.Value Pickle.Vm Pickle.Codec Pickle.PickleProofs Pickle.CodecProofs Pickle.Encodes.

(** * equality tests are exact *)

Lemma atom_eqb_eq : forall a b, atom_eqb a b = true -> a = b.
Proof.
  intros a b. destruct a as [|x|x|x|x|x], b as [|y|y|y|y|y]; cbn; intro H; try discriminate; try reflexivity.
  - apply Bool.eqb_prop in H. subst. reflexivity.
  - apply Z.eqb_eq in H. subst. reflexivity.
  - apply Z.eqb_eq in H. subst. reflexivity.
  - apply pystr_eqb_eq in H. subst. reflexivity.
  - apply pystr_eqb_eq in H. subst. reflexivity.
Qed.

Lemma atoms_eqb_eq : forall xs ys, atoms_eqb xs ys = true -> xs = ys.
Proof.
  induction xs as [|x r IH]; destruct ys as [|y s]; cbn; intro H; try discriminate; [reflexivity|].
  apply andb_true_iff in H. destruct H as [H1 H2]. apply atom_eqb_eq in H1. rewrite (IH _ H2), H1. reflexivity.
Qed.

Lemma pv_eqb_eq : forall a b, pv_eqb a b = true -> a = b.
Proof.
  induction a using pv_ind'; intro bb; destruct bb; cbn [pv_eqb]; intro E; try discriminate.
  - apply atom_eqb_eq in E. subst. reflexivity.
  - apply Z.eqb_eq in E. subst. reflexivity.
  - f_equal. revert xs0 E. induction H as [|x r Hx Hr IH]; destruct xs0 as [|y s]; intro E; try discriminate; [reflexivity|].
    apply andb_true_iff in E. destruct E as [E1 E2]. rewrite (Hx _ E1), (IH _ E2). reflexivity.
  - f_equal. revert xs0 E. induction H as [|x r Hx Hr IH]; destruct xs0 as [|y s]; intro E; try discriminate; [reflexivity|].
    apply andb_true_iff in E. destruct E as [E1 E2]. rewrite (Hx _ E1), (IH _ E2). reflexivity.
  - f_equal. revert kvs0 E. induction H as [|[k x] r Hx Hr IH]; destruct kvs0 as [|[k' y] s]; intro E; try discriminate; [reflexivity|].
    apply andb_true_iff in E. destruct E as [E1 E2]. apply andb_true_iff in E1. destruct E1 as [Ek Ev].
    apply atom_eqb_eq in Ek. cbn in Hx. rewrite (Hx _ Ev), (IH _ E2), Ek. reflexivity.
  - apply atoms_eqb_eq in E. subst. reflexivity.
  - apply atoms_eqb_eq in E. subst. reflexivity.
  - apply andb_true_iff in E. destruct E as [E1 E2]. apply pystr_eqb_eq in E1. apply pystr_eqb_eq in E2. subst. reflexivity.
  - reflexivity.
  - apply andb_true_iff in E. destruct E as [E En]. apply andb_true_iff in E. destruct E as [E Eo].
    apply andb_true_iff in E. destruct E as [E E4]. apply andb_true_iff in E. destruct E as [E E3].
    apply andb_true_iff in E. destruct E as [E E2]. apply andb_true_iff in E. destruct E as [E0 E1].
    apply pystr_eqb_eq in E0. apply Z.eqb_eq in E1. apply Z.eqb_eq in E2. apply Z.eqb_eq in E3. apply Z.eqb_eq in E4.
    subst. rewrite (IHa1 _ Eo), (IHa2 _ En). reflexivity.
  - f_equal. revert xs0 E. induction H as [|x r Hx Hr IH]; destruct xs0 as [|y s]; intro E; try discriminate; [reflexivity|].
    apply andb_true_iff in E. destruct E as [E1 E2]. rewrite (Hx _ E1), (IH _ E2). reflexivity.
Qed.

(** * the object an id-free payload value is *)

Fixpoint canon_obj (v : pv) {struct v} : obj :=
  match v with
  | PAtom a => obj_of_atom a
  | PFloatBits b => OFloat (FBits b)
  | PType m n => OGlobal m n GType
  | PNoneType => ONoneType
  | PFrozen xs => OFrozen (map obj_of_atom xs)
  | PTuple xs => OTuple (map canon_obj xs)
  | _ => ONone
  end.

Fixpoint noids (o : obj) {struct o} : bool :=
  match o with
  | OTuple xs | OFrozen xs => forallb noids xs
  | OList _ _ | ODict _ _ | OSet _ _ | OInst _ _ _ _ _ | OMark => false
  | _ => true
  end.

Lemma noids_atom : forall a, noids (obj_of_atom a) = true.
Proof. destruct a; reflexivity. Qed.
Lemma noids_atoms : forall xs, forallb noids (map obj_of_atom xs) = true.
Proof. induction xs as [|a r IH]; cbn; [reflexivity|]. rewrite noids_atom. exact IH. Qed.

Lemma canon_noids : forall v, idfree v = true -> noids (canon_obj v) = true.
Proof.
  induction v using pv_ind'; cbn [idfree canon_obj noids]; intro Hf; try discriminate; try reflexivity.
  - apply noids_atom.
  - induction H as [|x r Hx Hr IH]; cbn in *; [reflexivity|].
    apply andb_true_iff in Hf. destruct Hf as [F1 F2]. rewrite (Hx F1), (IH F2). reflexivity.
  - apply noids_atoms.
Qed.

Lemma canon_decode : forall v, idfree v = true -> decode (canon_obj v) = Some v.
Proof.
  induction v using pv_ind'; cbn [idfree canon_obj]; intro Hf; try discriminate; try reflexivity.
  - apply decode_obj_of_atom.
  - rewrite decode_tuple_eq.
    assert (E : all_some (map decode (map canon_obj xs)) = Some xs).
    { induction H as [|x r Hx Hr IH]; cbn in *; [reflexivity|].
      apply andb_true_iff in Hf. destruct Hf as [F1 F2]. rewrite (Hx F1), (IH F2). reflexivity. }
    rewrite E. reflexivity.
  - apply decode_frozen_atoms.
Qed.

Lemma noids_subst : forall i c o, noids o = true -> subst i c o = o.
Proof.
  intros i c. induction o using obj_ind'; cbn [noids subst]; intro Hn; try discriminate; try reflexivity.
  - f_equal. apply (map_id_forall _ noids); assumption.
  - f_equal. apply (map_id_forall _ noids); assumption.
Qed.

Lemma noids_below : forall n o, noids o = true -> ids_below n o = true.
Proof.
  intros n. induction o using obj_ind'; cbn [noids ids_below]; intro Hn; try discriminate; try reflexivity.
  - apply (forallb_imp _ noids); assumption.
  - apply (forallb_imp _ noids); assumption.
Qed.

Lemma noids_not_mark : forall o, noids o = true -> is_mark o = false.
Proof. destruct o; cbn; intro H; try reflexivity. discriminate. Qed.

(* substitution keeps the id bound *)
Lemma subst_ids_below : forall n i c, ids_below n c = true ->
  forall o, ids_below n o = true -> ids_below n (subst i c o) = true.
Proof.
  intros n i c Hc. induction o using obj_ind'; cbn [subst ids_below]; intro Hb; try exact Hb.
  - apply forallb_map_imp; assumption.
  - apply forallb_map_imp; assumption.
  - destruct (Nat.eqb i i0); [exact Hc|]. cbn [ids_below]. apply andb_true_iff in Hb. destruct Hb as [Hl Hx].
    rewrite Hl. cbn. apply forallb_map_imp; assumption.
  - destruct (Nat.eqb i i0); [exact Hc|]. cbn [ids_below]. apply andb_true_iff in Hb. destruct Hb as [Hl Hx].
    rewrite Hl. cbn. revert Hx. induction H as [|kv r [Hk Hv] Hr IH]; cbn; [auto|].
    intro E. apply andb_true_iff in E. destruct E as [E1 E2]. apply andb_true_iff in E1. destruct E1 as [Ek Ev].
    rewrite (Hk Ek), (Hv Ev), (IH E2). reflexivity.
  - destruct (Nat.eqb i i0); [exact Hc|]. cbn [ids_below]. apply andb_true_iff in Hb. destruct Hb as [Hl Hx].
    rewrite Hl. cbn. apply forallb_map_imp; assumption.
  - destruct (Nat.eqb i i0); [exact Hc|]. cbn [ids_below].
    apply andb_true_iff in Hb. destruct Hb as [Hb Hs]. apply andb_true_iff in Hb. destruct Hb as [Hb Ha].
    apply andb_true_iff in Hb. destruct Hb as [Hl Hf].
    rewrite Hl, (IHo1 Hf), (IHo2 Ha). cbn. apply forallb_map_imp; assumption.
Qed.

(** * memo facts *)

Lemma memo_put_fresh : forall i v (m : list (Z * obj)),
  existsb (Z.eqb i) (map fst m) = false -> memo_put i v m = (m ++ [(i, v)])%list.
Proof.
  intros i v. unfold memo_put. induction m as [|[j x] r IH]; cbn; [reflexivity|].
  intro H. apply orb_false_iff in H. destruct H as [H1 H2]. rewrite H1, (IH H2). reflexivity.
Qed.

Lemma memo_get_app_new : forall i v (m : list (Z * obj)),
  existsb (Z.eqb i) (map fst m) = false -> memo_get i (m ++ [(i, v)]) = Some v.
Proof.
  intros i v. induction m as [|[j x] r IH]; cbn; [rewrite Z.eqb_refl; reflexivity|].
  intro H. apply orb_false_iff in H. destruct H as [H1 H2]. rewrite H1. apply IH. exact H2.
Qed.

Lemma memo_get_app_old : forall j x (m l : list (Z * obj)),
  memo_get j m = Some x -> memo_get j (m ++ l) = Some x.
Proof.
  intros j x. induction m as [|[k y] r IH]; cbn; intros l H; [discriminate|].
  destruct (Z.eqb j k); [exact H | apply IH; exact H].
Qed.

Lemma memo_get_map_subst : forall i c j (m : list (Z * obj)),
  memo_get j (map (fun p => (fst p, subst i c (snd p))) m) = option_map (subst i c) (memo_get j m).
Proof.
  intros i c j. induction m as [|[k y] r IH]; cbn; [reflexivity|]. destruct (Z.eqb j k); [reflexivity | exact IH].
Qed.

Lemma memo_get_in_keys : forall j x (m : list (Z * obj)), memo_get j m = Some x -> existsb (Z.eqb j) (map fst m) = true.
Proof.
  intros j x. induction m as [|[k y] r IH]; cbn; intro H; [discriminate|].
  destruct (Z.eqb j k); [reflexivity | apply IH; exact H].
Qed.

(** * the invariant between checker state and machine state *)

Definition inv (cs : cstate) (st : state) : Prop :=
  fresh_state st /\ map fst (memo st) = snd cs /\
  (forall i v, lm_get i (fst cs) = Some v -> idfree v = true /\ memo_get i (memo st) = Some (canon_obj v)).

Lemma inv_stack : forall cs st s n, inv cs st -> next st <= n ->
  forallb (ids_below n) s = true ->
  inv cs (mkState s (memo st) n (ecache st) (trace st)).
Proof.
  intros cs st s n [[Hs Hm] [Hk Ha]] Hle Hb. split; [|split]; cbn.
  - split; cbn; [exact Hb | apply (memo_mono _ _ _ Hle Hm)].
  - exact Hk.
  - exact Ha.
Qed.

Lemma inv_trace : forall cs s m n e t t', inv cs (mkState s m n e t) -> inv cs (mkState s m n e t').
Proof. intros cs s m n e t t' H. exact H. Qed.

Lemma inv_mutate : forall cs st i c, inv cs st -> ids_below (next st) c = true -> inv cs (mutate i c st).
Proof.
  intros cs st i c [[Hs Hm] [Hk Ha]] Hc. split; [|split]; cbn.
  - split; cbn.
    + apply forallb_map_imp; [|exact Hs]. apply Forall_forall. intros x _. apply subst_ids_below. exact Hc.
    + clear - Hm Hc. induction (memo st) as [|[j x] r IH]; cbn in *; [reflexivity|].
      apply andb_true_iff in Hm. destruct Hm as [H1 H2]. rewrite (subst_ids_below _ i c Hc x H1), (IH H2). reflexivity.
  - rewrite map_map. cbn. exact Hk.
  - intros j v Hj. destruct (Ha j v Hj) as [Hf Hg]. split; [exact Hf|].
    rewrite memo_get_map_subst, Hg. cbn. rewrite (noids_subst i c _ (canon_noids v Hf)). reflexivity.
Qed.

(** * single opcodes *)

Lemma inv_push : forall cs st o, inv cs st -> ids_below (next st) o = true -> inv cs (push o st).
Proof.
  intros cs st o H Ho. unfold push, set_stack. apply inv_stack; [exact H | lia|].
  cbn. rewrite Ho. destruct H as [[Hs _] _]. exact Hs.
Qed.

Lemma inv_emit : forall cs st e, inv cs st -> inv cs (emit e st).
Proof. intros cs st e H. exact H. Qed.

Lemma inv_keys_len : forall cs st, inv cs st -> List.length (memo st) = List.length (snd cs).
Proof. intros cs st [_ [Hk _]]. rewrite <- Hk, map_length. reflexivity. Qed.

(* the machine's PUT with a fresh index *)
Lemma do_put_fresh : forall cs st v o s idx,
  inv cs st -> stack st = o :: s -> is_mark o = false -> (idfree v = true -> o = canon_obj v) ->
  existsb (Z.eqb idx) (snd cs) = false ->
  exists st', do_put st idx = SNext st' /\ stack st' = stack st /\ next st' = next st /\
              inv (if idfree v then (idx, v) :: fst cs else fst cs, (snd cs ++ [idx])%list) st'.
Proof.
  intros cs st v o s idx Hinv Hst Hm Hcan Hfr. destruct Hinv as [[Hs Hmm] [Hk Ha]].
  assert (Hp : pop1 (stack st) = Some (o, s)) by (rewrite Hst; cbn [pop1]; rewrite Hm; reflexivity).
  unfold do_put. rewrite Hp.
  rewrite <- Hk in Hfr. rewrite (memo_put_fresh idx o (memo st) Hfr).
  eexists. split; [reflexivity|]. split; [reflexivity|]. split; [reflexivity|].
  assert (Ho : ids_below (next st) o = true).
  { rewrite Hst in Hs. cbn in Hs. apply andb_true_iff in Hs. apply Hs. }
  split; [|split]; cbn.
  - split; cbn; [exact Hs|]. rewrite forallb_app. rewrite Hmm. cbn. rewrite Ho. reflexivity.
  - rewrite map_app, Hk. reflexivity.
  - intros j w Hj. destruct (idfree v) eqn:Ef.
    + cbn [fst lm_get] in Hj. destruct (Z.eqb j idx) eqn:Ej.
      * inversion Hj; subst w. apply Z.eqb_eq in Ej. subst j. split; [exact Ef|].
        rewrite (memo_get_app_new idx o (memo st) Hfr). rewrite (Hcan eq_refl). reflexivity.
      * destruct (Ha j w Hj) as [Hf Hg]. split; [exact Hf|]. apply memo_get_app_old. exact Hg.
    + cbn [fst] in Hj. destruct (Ha j w Hj) as [Hf Hg]. split; [exact Hf|]. apply memo_get_app_old. exact Hg.
Qed.

Lemma put_sound : forall w cs v prog cs' rest st o s,
  chk_put cs v prog = Some (cs', rest) -> inv cs st -> stack st = o :: s ->
  is_mark o = false -> (idfree v = true -> o = canon_obj v) ->
  exists st', run w st prog = run w st' rest /\ stack st' = stack st /\ next st' = next st /\ inv cs' st'.
Proof.
  intros w cs v prog cs' rest st o s H Hinv Hst Hm Hcan. unfold chk_put in H.
  destruct prog as [|p r]; [inversion H; subst; exists st; auto|].
  destruct (put_index (snd cs) p) as [idx|] eqn:Ep; [|inversion H; subst; exists st; auto].
  destruct (existsb (Z.eqb idx) (snd cs)) eqn:Ef; [discriminate|]. inversion H; subst cs' rest. clear H.
  destruct (do_put_fresh cs st v o s idx Hinv Hst Hm Hcan Ef) as [st' [Hd [Hs' [Hn' Hi']]]].
  exists st'. split; [|auto]. apply run_step_next.
  destruct p; cbn in Ep; try discriminate; cbn [step].
  - inversion Ep; subst idx. rewrite (inv_keys_len cs st Hinv). exact Hd.
  - destruct (Z.ltb i 0); [discriminate|]. inversion Ep; subst. exact Hd.
  - inversion Ep; subst. exact Hd.
  - inversion Ep; subst. exact Hd.
Qed.

Lemma get_sound : forall w cs v i st p,
  get_index p = Some i -> chk_get cs v i = true -> inv cs st ->
  step w st p = SNext (push (canon_obj v) st) /\ idfree v = true.
Proof.
  intros w cs v i st p Hg Hc Hinv. unfold chk_get in Hc.
  destruct (lm_get i (fst cs)) as [v'|] eqn:El; [|discriminate]. apply pv_eqb_eq in Hc. subst v'.
  destruct Hinv as [_ [_ Ha]]. destruct (Ha i v El) as [Hf Hm]. split; [|exact Hf].
  destruct p; cbn in Hg; try discriminate; inversion Hg; subst; cbn [step]; unfold do_get; rewrite Hm; reflexivity.
Qed.

Lemma atom_of_push_step : forall w st p a, atom_of_push p = Some a -> step w st p = SNext (push (obj_of_atom a) st).
Proof.
  intros w st p a H. destruct p; cbn in H; try discriminate; try (inversion H; subst; reflexivity).
  - destruct f; [inversion H; subst; reflexivity | discriminate].
  - destruct f; [inversion H; subst; reflexivity | discriminate].
Qed.

Lemma canon_below : forall n v, idfree v = true -> ids_below n (canon_obj v) = true.
Proof. intros n v H. apply noids_below. apply canon_noids. exact H. Qed.

Lemma atom_sound : forall w a cs prog cs' rest st,
  chk_atom a cs prog = Some (cs', rest) -> inv cs st ->
  exists st', run w st prog = run w st' rest /\ stack st' = obj_of_atom a :: stack st /\
              next st' = next st /\ inv cs' st'.
Proof.
  intros w a cs prog cs' rest st H Hinv. unfold chk_atom in H. destruct prog as [|p r]; [discriminate|].
  destruct (get_index p) as [i|] eqn:Eg.
  - destruct (chk_get cs (PAtom a) i) eqn:Ec; [|discriminate]. inversion H; subst cs' rest.
    destruct (get_sound w cs (PAtom a) i st p Eg Ec Hinv) as [Hs _]. cbn [canon_obj] in Hs.
    exists (push (obj_of_atom a) st). split; [apply run_step_next; exact Hs|].
    split; [reflexivity | split; [reflexivity|]]. apply inv_push; [exact Hinv | apply ids_below_atom].
  - destruct (atom_of_push p) as [a'|] eqn:Ea; [|discriminate].
    destruct (atom_eqb a' a) eqn:Ee; [|discriminate]. apply atom_eqb_eq in Ee. subst a'.
    assert (Hinv1 : inv cs (push (obj_of_atom a) st)) by (apply inv_push; [exact Hinv | apply ids_below_atom]).
    destruct (put_sound w cs (PAtom a) r cs' rest (push (obj_of_atom a) st) (obj_of_atom a) (stack st) H Hinv1
                        eq_refl (is_mark_atom a) (fun _ => eq_refl)) as [st' [Hr [Hs [Hn Hi]]]].
    exists st'. split; [|split; [exact Hs | split; [exact Hn | exact Hi]]].
    rewrite (run_step_next w st p _ r (atom_of_push_step w st p a Ea)). exact Hr.
Qed.

Lemma atoms_sound : forall w xs cs prog cs' rest st,
  chk_atoms xs cs prog = Some (cs', rest) -> inv cs st ->
  exists st', run w st prog = run w st' rest /\ stack st' = (rev (map obj_of_atom xs) ++ stack st)%list /\
              next st' = next st /\ inv cs' st'.
Proof.
  intros w. induction xs as [|a r IH]; intros cs prog cs' rest st H Hinv; cbn [chk_atoms] in H.
  - inversion H; subst. exists st. auto.
  - destruct (chk_atom a cs prog) as [[cs1 p1]|] eqn:Ea; [|discriminate].
    destruct (atom_sound w a cs prog cs1 p1 st Ea Hinv) as [st1 [Hr1 [Hs1 [Hn1 Hi1]]]].
    destruct (IH cs1 p1 cs' rest st1 H Hi1) as [st2 [Hr2 [Hs2 [Hn2 Hi2]]]].
    exists st2. split; [rewrite Hr1; exact Hr2|]. split; [|split; [lia | exact Hi2]].
    rewrite Hs2, Hs1. cbn [map rev]. rewrite <- app_assoc. reflexivity.
Qed.

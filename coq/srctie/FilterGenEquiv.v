From Coq Require Import List ZArith NArith Bool Arith.
Import ListNotations.
From DD Require Import Base.PyStr Base.Value Diff.Tree Diff.DiffModel Path.PathModel
  Filter.FilterModel Filter.FilterModelV Filter.FilterFacts Filter.FilterProofs Filter.FilterExclude Filter.FilterInclude Filter.FilterWitness Filter.FilterHash Filter.FilterGuard Filter.FilterExact Filter.FilterV Filter.FilterVPath Filter.FilterTie Filter.FilterTieFacts.
From DDGen Require Import FilterGen.

(* ---- what the proofs understand about the vocabulary ---- *)
Lemma render_is_root p : pystr_eqb (render p) root_str = is_root p.
Proof. destruct p as [|k r]; reflexivity. Qed.
Lemma truthy_mem s (L : list pystr) : py_truthy L && mem_str s L = mem_str s L.
Proof. destruct L; reflexivity. Qed.
Lemma truthy_existsb {A} (f : A -> bool) (L : list A) : py_truthy L && existsb f L = existsb f L.
Proof. destruct L; reflexivity. Qed.
Lemma ty_hit_nil o : ty_hit [] o = false.
Proof. destruct o; reflexivity. Qed.
Lemma truthy_ty_hit2 T a b : py_truthy T && (ty_hit T a || ty_hit T b) = ty_hit T a || ty_hit T b.
Proof. destruct T; [rewrite !ty_hit_nil|]; reflexivity. Qed.
Lemma truthy_ty_hit T a : py_truthy T && ty_hit T a = ty_hit T a.
Proof. destruct T; [rewrite !ty_hit_nil|]; reflexivity. Qed.
Lemma call_cb_of f o : py_call_cb f o = cbv (cb_of f) o.
Proof. destruct f, o; reflexivity. Qed.
Lemma given_or f a b : py_given f && (cbv (cb_of f) a || cbv (cb_of f) b) = cbv (cb_of f) a || cbv (cb_of f) b.
Proof. destruct f, a, b; reflexivity. Qed.
Lemma given_and f a b : py_given f && (cbv (cb_of f) a && cbv (cb_of f) b) = cbv (cb_of f) a && cbv (cb_of f) b.
Proof. destruct f, a, b; reflexivity. Qed.
Lemma given_one f a : py_given f && cbv (cb_of f) a = cbv (cb_of f) a.
Proof. destruct f, a; reflexivity. Qed.

(* case analysis on the boolean atoms of the goal, innermost test first *)
Ltac destruct_atom b :=
  lazymatch b with
  | andb ?x ?y => first [destruct_atom x | destruct_atom y]
  | orb ?x ?y => first [destruct_atom x | destruct_atom y]
  | negb ?x => destruct_atom x
  | true => fail
  | false => fail
  | (if ?c then _ else _) => destruct_atom c
  | _ => let E := fresh "E" in destruct b eqn:E
  end.
Ltac crush :=
  repeat (cbn [negb andb orb];
          match goal with
          | |- context [if ?b then _ else _] => destruct_atom b
          | |- context [orb ?x ?y] => first [destruct_atom x | destruct_atom y]
          | |- context [andb ?x ?y] => first [destruct_atom x | destruct_atom y]
          | |- context [negb ?x] => destruct_atom x
          end);
  cbn [negb andb orb]; try reflexivity; try congruence.

(* ---- DeepDiff._skip_this ---- *)
Theorem g__skip_this_eq RXS EX INC TY CB CBS ICB ICBS p a b :
  g__skip_this RXS EX INC TY CB CBS ICB ICBS (mkLevel p a b) =
  skip_full (rx_of RXS) EX INC TY (cb_of CB) (cb_of CBS) ICB ICBS p a b.
Proof.
  unfold g__skip_this, skip_full, lv_path, lv_t1, lv_t2, lv_keys, rx_of.
  fold root_str. rewrite ?render_is_root.
  rewrite ?(call_cb_of CB), ?(call_cb_of CBS).
  rewrite ?truthy_mem, ?truthy_existsb, ?truthy_ty_hit2, ?given_or, ?given_and.
  destruct INC as [|i INC'], ICB as [icb|], ICBS as [icbs|], (is_root p);
    cbn [py_truthy py_given py_call_cb negb andb orb existsb mem_str]; crush.
Qed.
Print Assumptions g__skip_this_eq.

(* ---- DeepDiff._skip_this_key ---- *)
Ltac eval_literals :=
  repeat match goal with
         | |- context [s2p ?s] => let v := eval vm_compute in (s2p s) in change (s2p s) with v
         end;
  unfold cLB, cSQ, cRB, cDOT.

(* the ancestor walk: `while up is not None` *)
Lemma g__skip_this_key_while1_spec INC lv k ups :
  g__skip_this_key_while1 INC lv k ups = negb (existsb (fun a => mem_str (render a) INC) ups).
Proof.
  induction ups as [|u ups IH]; cbn [g__skip_this_key_while1 existsb]; [reflexivity|]. rewrite ?IH. crush.
Qed.

Theorem g__skip_this_key_eq INC p a b k :
  g__skip_this_key INC (mkLevel p a b) k = skip_this_key INC p k.
Proof.
  unfold g__skip_this_key, skip_this_key, key_fmt, lv_path, lv_ups, lv_keys.
  rewrite ?g__skip_this_key_while1_spec, ?existsb_rev. eval_literals.
  destruct INC as [|i INC']; cbn [py_is_none py_truthy]; crush.
Qed.
Print Assumptions g__skip_this_key_eq.

(* ---- helper.add_root_to_paths, convert_item_or_items_into_set_else_none, the assignments of __init__ ---- *)
Theorem g_add_root_to_paths_eq paths : g_add_root_to_paths paths = add_root_to_paths paths.
Proof.
  unfold g_add_root_to_paths, add_root_to_paths.
  destruct paths as [|s paths]; [reflexivity|]. cbn [py_is_none].
  rewrite (fold_left_acc _ add_root_one); [reflexivity|].
  intros acc x. unfold add_root_one, root_str. eval_literals. crush; rewrite <- ?app_assoc; reflexivity.
Qed.
Print Assumptions g_add_root_to_paths_eq.

Theorem g_convert_item_or_items_into_set_else_none_eq arg :
  g_convert_item_or_items_into_set_else_none arg = norm_paths_arg arg.
Proof. destruct arg as [[|ch s]|[|x l]]; reflexivity. Qed.
Print Assumptions g_convert_item_or_items_into_set_else_none_eq.

Theorem g_init_paths_eq arg : g_init_paths arg = add_root_to_paths (norm_paths_arg arg).
Proof.
  unfold g_init_paths. rewrite g_convert_item_or_items_into_set_else_none_eq. apply g_add_root_to_paths_eq.
Qed.
Print Assumptions g_init_paths_eq.

(* ---- DeepHash._skip_this on the pseudo-path of a set member (the part of it the hand model has: hit_this) ---- *)
Theorem g_DeepHash__skip_this_eq RXS EX obj p i :
  g_DeepHash__skip_this RXS EX [] [] None obj (render p ++ [cLB] ++ p_of_Z (Z.of_nat i) ++ [cRB]) =
  hit_this (rxh_of RXS) EX p i.
Proof.
  unfold g_DeepHash__skip_this, hit_this, rxh_of.
  rewrite ?truthy_mem, ?truthy_existsb. cbn [py_truthy py_given andb]. crush.
Qed.
Print Assumptions g_DeepHash__skip_this_eq.

(* ================================================================================================== *)
(* the run assembled from the GENERATED parts: DeepDiff(t1, t2, exclude_paths=exarg, include_paths=incarg,
   exclude_regex_paths=RXS, exclude_types=TY, the four callbacks) in the tree view.  Everything the run asks
   of the filter options goes through definitions regenerated from the source: the normalisation in __init__,
   _skip_this (at every level and report), _skip_this_key (the key sets of two dictionaries), DeepHash._skip_this
   (members of two compared sets).  Only the subtraction of exclude_paths from the key union (diff.py, inside
   _diff_dict; [excl_this]) is the hand-written definition. *)
Definition g_run hatom udiff ops (RXS : list (pystr -> bool)) (exarg incarg : paths_arg) (TY : list ty)
    (CB CBS ICB ICBS : option (value -> bool)) (c : cfg) (t1 t2 : value) : list entry * list path :=
  let EX := g_init_paths exarg in
  let INC := g_init_paths incarg in
  run_diffv hatom udiff ops
    (fun p a b => g__skip_this RXS EX INC TY CB CBS ICB ICBS (mkLevel p a b))
    (excl_this EX)
    (fun p k => g__skip_this_key INC (mkLevel p None None) k)
    (fun p i => g_DeepHash__skip_this RXS EX [] [] None None (render p ++ [cLB] ++ p_of_Z (Z.of_nat i) ++ [cRB]))
    c t1 t2.

Theorem g_run_eq hatom udiff ops RXS exarg incarg TY CB CBS ICB ICBS c t1 t2 :
  g_run hatom udiff ops RXS exarg incarg TY CB CBS ICB ICBS c t1 t2 =
  run_full hatom udiff ops (rx_of RXS) (rxh_of RXS) (norm_paths_arg exarg) (norm_paths_arg incarg)
           TY (cb_of CB) (cb_of CBS) ICB ICBS c t1 t2.
Proof.
  unfold g_run, run_full. rewrite !g_init_paths_eq. apply run_diffv_ext.
  - intros p a b. apply g__skip_this_eq.
  - reflexivity.
  - intros p k. apply g__skip_this_key_eq.
  - intros p i. apply g_DeepHash__skip_this_eq.
Qed.
Print Assumptions g_run_eq.

(* ---- transfer: the main theorems of Properties/C13.v about the run assembled from the generated parts ---- *)
Section Transfer.
Variable hatom : atom -> pystr.
Variable udiff : pystr -> pystr -> pystr.
Variable ops : path -> list value -> list value -> list opcode.

(* no object-dependent option, no member of a compared set hit inside DeepHash: the run of the path theorems *)
Lemma g_run_path_only RXS exarg incarg c t1 t2 :
  (forall p i, g_DeepHash__skip_this RXS (g_init_paths exarg) [] [] None None
                 (render p ++ [cLB] ++ p_of_Z (Z.of_nat i) ++ [cRB]) = false) ->
  g_run hatom udiff ops RXS exarg incarg [] None None None None c t1 t2 =
  run_filtered hatom udiff ops (rx_of RXS) (norm_paths_arg exarg) (norm_paths_arg incarg) c t1 t2.
Proof.
  intros H. rewrite g_run_eq. cbn [cb_of]. rewrite run_full_path_only. apply run_filtered_h_no_hit.
  intros p i. rewrite <- g_DeepHash__skip_this_eq with (obj := None), <- g_init_paths_eq. apply H.
Qed.

(* every hypothesis below is a hypothesis of the theorem of Properties/C13.v of the same name (about the inputs / the
   options as passed); the conclusion speaks about the run assembled from the generated definitions *)
Definition g_no_member_hit RXS exarg : Prop :=
  forall p i, g_DeepHash__skip_this RXS (g_init_paths exarg) [] [] None None
                (render p ++ [cLB] ++ p_of_Z (Z.of_nat i) ++ [cRB]) = false.

(* exclude_paths + exclude_regex_paths: every mode, every threshold, input-level guard *)
Theorem g_C13_exclude_options_guarded RXS exarg c t1 t2 :
  g_no_member_hit RXS exarg -> wf t2 = true ->
  xguard (excluded (rx_of RXS) (norm_paths_arg exarg)) (excl_this (add_root_to_paths (norm_paths_arg exarg))) c t1 t2 = true ->
  fst (g_run hatom udiff ops RXS exarg (PItems []) [] None None None None c t1 t2) =
  filter (fun e => not_under (excluded (rx_of RXS) (norm_paths_arg exarg)) (ep1 e))
         (fst (run_diff hatom udiff ops no_skip no_skip c t1 t2)).
Proof.
  intros H W G. rewrite g_run_path_only by exact H. cbn [norm_paths_arg].
  unfold run_filtered. rewrite run_diffx_no_kf. apply exclude_filter_guard; assumption.
Qed.

(* positional mode, threshold 0: no guard *)
Theorem g_C13_exclude_options_is_filter RXS exarg c t1 t2 :
  g_no_member_hit RXS exarg -> zip c = true -> thr_num c = 0 -> wf t2 = true ->
  fst (g_run hatom udiff ops RXS exarg (PItems []) [] None None None None c t1 t2) =
  filter (fun e => not_under (excluded (rx_of RXS) (norm_paths_arg exarg)) (ep1 e))
         (fst (run_diff hatom udiff ops no_skip no_skip c t1 t2)).
Proof.
  intros H Z T W. rewrite g_run_path_only by exact H. cbn [norm_paths_arg].
  unfold run_filtered. rewrite run_diffx_no_kf. apply exclude_filter_gen; try assumption.
  - left; assumption.
  - intros. rewrite !shortcut_thr0 by assumption. reflexivity.
Qed.

(* include_paths: every mode, every threshold, input-level guard *)
Theorem g_C13_include_guarded c (Q : list path) t1 t2 :
  Q <> [] -> Forall (fun q => forallb qkey q = true) Q ->
  Forall (fun q => forallb str_key q = true) Q \/ Forall (fun q => forallb nodigit_key q = true) Q ->
  wf t2 = true -> keys_all ok_atom t1 = true -> keys_all ok_atom t2 = true ->
  iguard Q c t1 t2 = true ->
  fst (g_run hatom udiff ops [] (PItems []) (PItems (map render Q)) [] None None None None c t1 t2) =
  filter (fun e => related Q (ep1 e)) (fst (run_diff hatom udiff ops no_skip no_skip c t1 t2)).
Proof.
  intros. rewrite g_run_path_only by (intros p i; reflexivity). cbn [norm_paths_arg].
  change (rx_of []) with no_skip. apply include_filter_guard; assumption.
Qed.

(* the precedence defect behind K13d, of the generated _skip_this itself: once include_paths is given, at every level
   but the root the regexes, exclude_types and the four callbacks are dead code *)
Theorem g_C13_include_shadows_at_levels RXS EX INC TY CB CBS ICB ICBS p a b :
  INC <> [] -> p <> [] ->
  g__skip_this RXS EX INC TY CB CBS ICB ICBS (mkLevel p a b) =
  g__skip_this [] EX INC [] None None None None (mkLevel p None None).
Proof.
  intros NI NP. rewrite !g__skip_this_eq. rewrite !skip_full_include_shadows by assumption. reflexivity.
Qed.

(* ... and of the run: when the other options leave the root alone, the run is the run without them *)
Theorem g_C13_include_shadows_other_options RXS exarg incarg TY CB CBS ICB ICBS c t1 t2 :
  g_init_paths incarg <> [] -> is_setv t1 = false ->
  g__skip_this RXS (g_init_paths exarg) (g_init_paths incarg) TY CB CBS ICB ICBS (mkLevel [] (Some t1) (Some t2)) =
    g__skip_this [] (g_init_paths exarg) (g_init_paths incarg) [] None None None None (mkLevel [] None None) ->
  g_run hatom udiff ops RXS exarg incarg TY CB CBS ICB ICBS c t1 t2 =
  run_filtered_h hatom udiff ops no_skip (rxh_of RXS) (norm_paths_arg exarg) (norm_paths_arg incarg) c t1 t2.
Proof.
  intros NI NS R0. rewrite g_run_eq. rewrite !g_init_paths_eq in *. rewrite !g__skip_this_eq in R0.
  apply run_full_include_shadows; [assumption|assumption|].
  rewrite R0. cbn [cb_of]. change (rx_of []) with no_skip. apply skip_full_path_only.
Qed.

(* without include options the verdict of the generated _skip_this is the plain disjunction of the exclusion tests *)
Theorem g_C13_exclusions_are_a_disjunction RXS EX TY CB CBS p a b :
  g__skip_this RXS EX [] TY CB CBS None None (mkLevel p a b) =
  mem_str (render p) EX || existsb (fun r : pystr -> bool => r (render p)) RXS || (ty_hit TY a || ty_hit TY b)
  || (py_call_cb CB a || py_call_cb CB b) || (py_call_cb CBS a && py_call_cb CBS b).
Proof. rewrite g__skip_this_eq, skip_full_exclusions, !call_cb_of. reflexivity. Qed.

(* exclude_paths + exclude_regex_paths + exclude_types + exclude_obj_callback(_strict) together are ONE pure filter exactly
   when the input-level guard holds (positional mode, set-free well-formed inputs) *)
Theorem g_C13_value_exclusion_is_filter RXS exarg TY CB CBS c t1 t2 :
  zip c = true -> wf t1 = true -> wf t2 = true -> setfree t1 = true -> setfree t2 = true ->
  let SK := skip_full (rx_of RXS) (add_root_to_paths (norm_paths_arg exarg)) [] TY (cb_of CB) (cb_of CBS) None None in
  (fst (g_run hatom udiff ops RXS exarg (PItems []) TY CB CBS None None c t1 t2) =
   filter (fun e => not_under (trace SK t1 t2) (ep1 e)) (fst (run_diff hatom udiff ops no_skip no_skip c t1 t2))
   <-> xguard (trace SK t1 t2) (excl_this (add_root_to_paths (norm_paths_arg exarg))) c t1 t2 = true).
Proof. intros. rewrite g_run_eq. cbn [norm_paths_arg]. apply value_exclusion_is_filter; assumption. Qed.
End Transfer.

Print Assumptions g_C13_exclude_options_guarded.
Print Assumptions g_C13_exclude_options_is_filter.
Print Assumptions g_C13_include_guarded.
Print Assumptions g_C13_include_shadows_at_levels.
Print Assumptions g_C13_include_shadows_other_options.
Print Assumptions g_C13_exclusions_are_a_disjunction.
Print Assumptions g_C13_value_exclusion_is_filter.

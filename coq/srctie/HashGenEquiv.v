(** C06 / C07 source tie: the definitions that harness/translate/deephashprep.py regenerates from the CURRENT
    deepdiff/deephash.py (module DDGen.HashGen, compiled in the run's scratch directory) equal the hand-written
    model Hash/HashModel.v (and, for the leaf preps of the extended universe, Hash/HashXModel.v) for all arguments;
    then the main theorems of Properties/C06.v restated about the generated definitions. *)
From Coq Require Import List ZArith NArith Bool String Lia Permutation Arith.
Import ListNotations.
From DD Require Import Base.PyStr Base.Value Base.ValueFacts Hash.HashModel Hash.HashXModel Hash.HashSrcPrims
  Hash.Equiv Hash.HashProofsBase Hash.HashProofsC06 Hash.HashProofsC07 Hash.HashProofsMemo Properties.C06.
From DDGen Require Import HashGen.

(* ------------------------------------------------------------------ *)
(** * Constants, string preparation, leaf preps *)

Theorem g_KEY_TO_VAL_STR_eq : forall a b : pystr,
  py_format (py_str g_KEY_TO_VAL_STR) [a; b] = a ++ c_colon ++ b.
Proof. reflexivity. Qed.

Theorem g_prepare_string_for_hashing_eq : forall o s,
  py_str (g_prepare_string_for_hashing (OV (VAtom (AStr s))) (ignore_string_type_changes o) (ignore_string_case o))
    = prep_string o (s2p "str") s /\
  py_str (g_prepare_string_for_hashing (OV (VAtom (ABytes s))) (ignore_string_type_changes o) (ignore_string_case o))
    = prep_string o (s2p "bytes") s /\
  py_str (g_prepare_string_for_hashing (OText s) (ignore_string_type_changes o) (ignore_string_case o))
    = retag o s.
Proof.
  intros o s. unfold g_prepare_string_for_hashing, retag, prep_string.
  destruct (ignore_string_type_changes o), (ignore_string_case o); repeat split; reflexivity.
Qed.

Theorem g_prep_bool_eq : forall self b, g_prep_bool self (OV (VAtom (ABool b))) = OBoolObj b.
Proof. intros self [|]; reflexivity. Qed.

Theorem g_prep_number_eq : forall self z,
  g_prep_number self (OV (VAtom (AInt z))) = OText (atom_result (self_opts self) (AInt z)) /\
  g_prep_number self (OV (VAtom (AHalf z))) = OText (atom_result (self_opts self) (AHalf z)).
Proof.
  intros self z. unfold g_prep_number, atom_result, num_type, self_ignore_numeric_type_changes, self_significant_digits.
  destruct (ignore_numeric_type_changes (self_opts self)), (eff_digits (self_opts self)); split; reflexivity.
Qed.

(* the two definitions without a counterpart in the hand-written models: pinned to their values *)
Theorem g_INDEX_VS_ATTRIBUTE_eq : g_INDEX_VS_ATTRIBUTE = (OText (s2p "[%s]"), OText (s2p ".%s")).
Proof. reflexivity. Qed.

Theorem g_prep_ipranges_eq : forall self x, g_prep_ipranges self x = OText (s2p "iprange:" ++ py_str x).
Proof. reflexivity. Qed.

(* the leaf preps of the extended universe (Hash/HashXModel.v: [xleaf_result]) *)
Theorem g_prep_number_x_eq : forall self xo neg coef e us, xbase xo = self_opts self ->
  g_prep_number self (OLeaf (LDecimal neg coef e)) = OText (xleaf_result xo (LDecimal neg coef e)) /\
  (eff_digits (self_opts self) = None ->
   g_prep_number self (OLeaf (LTimedelta us)) = OText (xleaf_result xo (LTimedelta us))).
Proof.
  intros self xo neg coef e us Hb.
  unfold g_prep_number, xleaf_result, num_type, self_ignore_numeric_type_changes, self_significant_digits.
  rewrite Hb. split.
  - destruct (ignore_numeric_type_changes (self_opts self)), (eff_digits (self_opts self)); reflexivity.
  - intros ->. destruct (ignore_numeric_type_changes (self_opts self)); reflexivity.
Qed.

Theorem g_prep_path_eq : forall self xo s, g_prep_path self (OLeaf (LPath s)) = OText (xleaf_result xo (LPath s)).
Proof. reflexivity. Qed.

Theorem g_prep_date_eq : forall self xo y m d,
  g_prep_date self (OLeaf (LDate y m d)) = OText (xleaf_result xo (LDate y m d)).
Proof. reflexivity. Qed.

Lemma datetime_text_utc : forall t us off,
  datetime_text None (trunc_us t us - 60000000 * match off with Some o => o | None => 0 end)%Z (Some 0%Z)
  = datetime_text t us off.
Proof.
  intros t us off. unfold datetime_text. cbv beta iota zeta delta [trunc_us].
  fold (trunc_us t us).
  replace (trunc_us t us - 60000000 * match off with Some o => o | None => 0 end - 60000000 * 0)%Z
    with (trunc_us t us - 60000000 * match off with Some o => o | None => 0 end)%Z by lia.
  reflexivity.
Qed.

Theorem g_prep_datetime_eq : forall self xo us off sec, truncate xo = self_truncate_datetime self ->
  g_prep_datetime self (OLeaf (LDateTime us off)) = OText (xleaf_result xo (LDateTime us off)) /\
  g_prep_datetime self (OLeaf (LTime sec)) = OText (xleaf_result xo (LTime sec)).
Proof.
  intros self xo us off sec Ht. unfold g_prep_datetime, xleaf_result, prim_datetime_normalize. rewrite Ht. split.
  - cbv beta iota zeta. change (py_str (OUtc ?x)) with (datetime_text None x (Some 0%Z)).
    rewrite datetime_text_utc. reflexivity.
  - reflexivity.
Qed.

(* ------------------------------------------------------------------ *)
(** * The defaultdict(int) counter computes [counts] *)

Definition embc (c : list (pystr * nat)) : ddict := map (fun hc => (OText (fst hc), snd hc)) c.

Lemma pystr_eqb_sym : forall a b, pystr_eqb a b = pystr_eqb b a.
Proof.
  intros a b. destruct (pystr_eqb_spec a b) as [->|Hn].
  - symmetry. apply HashProofsBase.pystr_eqb_refl.
  - symmetry. apply HashProofsBase.pystr_eqb_neq. congruence.
Qed.

Lemma dedup_snoc : forall l x,
  dedup (l ++ [x]) = if existsb (pystr_eqb x) l then dedup l else dedup l ++ [x].
Proof.
  induction l as [|a l IH]; intro x; [reflexivity|].
  cbn [app dedup existsb]. rewrite IH. destruct (pystr_eqb_spec x a) as [->|Hn]; cbn [orb].
  - destruct (existsb (pystr_eqb a) l); [reflexivity|].
    rewrite filter_app. cbn [filter]. rewrite HashProofsBase.pystr_eqb_refl. cbn [negb]. rewrite app_nil_r. reflexivity.
  - destruct (existsb (pystr_eqb x) l); [reflexivity|].
    rewrite filter_app. cbn [filter].
    assert (E : pystr_eqb a x = false) by (apply HashProofsBase.pystr_eqb_neq; congruence).
    rewrite E. reflexivity.
Qed.

Lemma count_snoc : forall h l x, count h (l ++ [x]) = (count h l + (if pystr_eqb h x then 1 else 0))%nat.
Proof.
  intros h l x. unfold count. rewrite filter_app, app_length. cbn [filter]. destruct (pystr_eqb h x); reflexivity.
Qed.

Lemma dd_incr_map : forall (f : pystr -> nat) D x, NoDup D ->
  dd_incr (map (fun h => (OText h, f h)) D) (OText x) =
  if existsb (pystr_eqb x) D then map (fun h => (OText h, if pystr_eqb h x then S (f h) else f h)) D
  else map (fun h => (OText h, f h)) D ++ [(OText x, 1%nat)].
Proof.
  intros f D x. induction D as [|a D IH]; intro Hnd; [reflexivity|].
  inversion Hnd as [|? ? Hni Hnd']; subst.
  cbn [map dd_incr existsb]. change (dd_key_eqb (OText a) (OText x)) with (pystr_eqb a x).
  rewrite (pystr_eqb_sym x a). destruct (pystr_eqb_spec a x) as [->|Hn]; cbn [orb].
  - f_equal. apply map_ext_in. intros h Hh.
    assert (E : pystr_eqb h x = false) by (apply HashProofsBase.pystr_eqb_neq; intros ->; contradiction).
    rewrite E. reflexivity.
  - rewrite (IH Hnd'). destruct (existsb (pystr_eqb x) D); reflexivity.
Qed.

Lemma existsb_dedup : forall x l, existsb (pystr_eqb x) (dedup l) = existsb (pystr_eqb x) l.
Proof.
  intros x l. destruct (existsb (pystr_eqb x) l) eqn:E.
  - apply existsb_exists in E. destruct E as [y [Hy Hxy]]. apply existsb_exists. exists y. split; auto.
    apply (proj2 (dedup_In _ _)). exact Hy.
  - destruct (existsb (pystr_eqb x) (dedup l)) eqn:E'; [|reflexivity].
    apply existsb_exists in E'. destruct E' as [y [Hy Hxy]]. apply (proj1 (dedup_In _ _)) in Hy.
    assert (T : existsb (pystr_eqb x) l = true) by (apply existsb_exists; exists y; split; assumption). congruence.
Qed.

Lemma count_notin : forall x l, existsb (pystr_eqb x) l = false -> count x l = 0%nat.
Proof.
  intros x l. unfold count. induction l as [|a l IH]; cbn [existsb filter]; intro E; [reflexivity|].
  apply orb_false_iff in E. destruct E as [E1 E2]. rewrite E1. apply IH. exact E2.
Qed.

Lemma dd_fold_counts : forall hs, fold_left dd_incr (map OText hs) dd_new = embc (counts hs).
Proof.
  induction hs as [|x l IH] using rev_ind; [reflexivity|].
  rewrite map_app, fold_left_app. cbn [map fold_left]. rewrite IH. unfold embc, counts. rewrite !map_map. cbn [fst snd].
  rewrite (dd_incr_map (fun h => count h l) (dedup l) x (dedup_NoDup l)).
  rewrite dedup_snoc, existsb_dedup. destruct (existsb (pystr_eqb x) l) eqn:E.
  - apply map_ext. intro h. rewrite count_snoc. destruct (pystr_eqb h x); f_equal; lia.
  - rewrite map_app. cbn [map]. f_equal.
    + apply map_ext_in. intros h Hh. rewrite count_snoc.
      assert (E' : pystr_eqb h x = false).
      { destruct (pystr_eqb_spec h x) as [->|]; [|reflexivity]. apply (proj1 (dedup_In _ _)) in Hh.
        assert (T : existsb (pystr_eqb x) l = true) by (apply existsb_exists; exists x; split; auto; apply HashProofsBase.pystr_eqb_refl).
        congruence. }
      rewrite E'. f_equal. lia.
    + rewrite count_snoc, HashProofsBase.pystr_eqb_refl.
      assert (Z0 : count x l = 0%nat).
      { apply count_notin. exact E. }
      f_equal. f_equal. lia.
Qed.

(* ------------------------------------------------------------------ *)
(** * The recursive serialiser with its table *)

Section Tie.
Variable self : hself.
Let o := self_opts self.
Let H := self_hasher self.
(* `if not key_hash: continue` in _prep_dict: the hand-written model Hash/HashModel.v assumes a hasher that never
   returns the empty string (SHA-256; Hash/HashXModel.v models the other case) *)
Hypothesis H_ne : forall s, H s <> [].

Definition memo_ne (m : memo) : Prop := forall k h, In (k, h) m -> h <> [].
Definition emb (r : pystr * memo) : pobj * memo := (OText (fst r), snd r).

Lemma memo_ne_insert : forall v h m, h <> [] -> memo_ne m -> memo_ne (minsert v h m).
Proof.
  intros v h m Hh Hm k h' Hi. unfold minsert in Hi. apply in_app_or in Hi. destruct Hi as [Hi|[Hi|[]]].
  - eapply Hm; eauto.
  - inversion Hi; subst. exact Hh.
Qed.

Lemma mfind_ne : forall v m h, memo_ne m -> mfind v m = Some h -> h <> [].
Proof.
  intros v m h Hm Hf. unfold mfind in Hf. destruct (hashable v); try discriminate.
  apply mlookup_Some in Hf. destruct Hf as [k [Hi _]]. eapply Hm; eauto.
Qed.

Definition ne_at (v : value) : Prop :=
  forall m, memo_ne m -> fst (hash_memo H o v m) <> [] /\ memo_ne (snd (hash_memo H o v m)).

Lemma ne_step : forall v,
  (forall m, memo_ne m -> fst (memo_body H o v m) <> [] /\ memo_ne (snd (memo_body H o v m))) -> ne_at v.
Proof.
  intros v Hb m Hm. rewrite hash_memo_eq. destruct (mfind v m) as [h|] eqn:Hf; cbn [fst snd].
  - split; auto. eapply mfind_ne; eauto.
  - destruct (Hb m Hm) as [B1 B2]. destruct (memo_body H o v m) as [h m']. cbn [fst snd] in *.
    split; auto. apply memo_ne_insert; auto.
Qed.

Lemma atom_ne : forall a, ne_at (VAtom a).
Proof. intro a. apply ne_step. intros m Hm. cbn [memo_body fst snd]. split; [apply H_ne|exact Hm]. Qed.

Lemma atoms_ne : forall xs m, memo_ne m -> memo_ne (snd (atoms_memo H o xs m)).
Proof.
  induction xs as [|a xs IH]; intros m Hm; cbn [atoms_memo]; auto.
  rewrite hash_atom_memo_eq. destruct (atom_ne a m Hm) as [_ M1].
  destruct (hash_memo H o (VAtom a) m) as [h m1]. cbn [snd] in M1.
  specialize (IH m1 M1). destruct (atoms_memo H o xs m1) as [hs m2]. exact IH.
Qed.

Lemma items_ne : forall xs, Forall ne_at xs -> forall m, memo_ne m -> memo_ne (snd (items_memo H o xs m)).
Proof.
  induction xs as [|x xs IH]; intros Hf m Hm; cbn [items_memo]; auto.
  inversion Hf as [|? ? Hx Hr]; subst. destruct (Hx m Hm) as [_ M1].
  destruct (hash_memo H o x m) as [h m1]. cbn [snd] in M1.
  specialize (IH Hr m1 M1). destruct (items_memo H o xs m1) as [hs m2]. exact IH.
Qed.

Lemma dict_ne : forall kvs, Forall (fun kv => ne_at (snd kv)) kvs -> forall m, memo_ne m ->
  memo_ne (snd (dict_memo H o kvs m)).
Proof.
  induction kvs as [|[k x] kvs IH]; intros Hf m Hm; cbn [dict_memo]; auto.
  inversion Hf as [|? ? Hx Hr]; subst. cbn [snd] in Hx.
  destruct (hidden o k); [apply IH; auto|].
  rewrite hash_atom_memo_eq. destruct (atom_ne k m Hm) as [_ M1].
  destruct (hash_memo H o (VAtom k) m) as [kh m1]. cbn [snd] in M1.
  destruct (Hx m1 M1) as [_ M2]. destruct (hash_memo H o x m1) as [vh m2]. cbn [snd] in M2.
  specialize (IH Hr m2 M2). destruct (dict_memo H o kvs m2) as [its m3]. exact IH.
Qed.

Lemma hash_memo_ne : forall v, ne_at v.
Proof.
  induction v as [a|xs IH|xs IH|kvs IH|xs|xs] using value_ind'.
  - apply atom_ne.
  - apply ne_step. intros m Hm. cbn [memo_body]. pose proof (items_ne xs IH m Hm) as M.
    destruct (items_memo H o xs m) as [hs m1]. cbn [fst snd] in *. split; [apply H_ne|exact M].
  - apply ne_step. intros m Hm. cbn [memo_body]. pose proof (items_ne xs IH m Hm) as M.
    destruct (items_memo H o xs m) as [hs m1]. cbn [fst snd] in *. split; [apply H_ne|exact M].
  - apply ne_step. intros m Hm. cbn [memo_body]. pose proof (dict_ne kvs IH m Hm) as M.
    destruct (dict_memo H o kvs m) as [its m1]. cbn [fst snd] in *. split; [apply H_ne|exact M].
  - apply ne_step. intros m Hm. cbn [memo_body]. pose proof (atoms_ne xs m Hm) as M.
    destruct (atoms_memo H o xs m) as [hs m1]. cbn [fst snd] in *. split; [apply H_ne|exact M].
  - apply ne_step. intros m Hm. cbn [memo_body]. pose proof (atoms_ne xs m Hm) as M.
    destruct (atoms_memo H o xs m) as [hs m1]. cbn [fst snd] in *. split; [apply H_ne|exact M].
Qed.

(** ** one step of the recursion: the generated body, given a function that agrees with the hand model on the
    sub-values, agrees with the hand model on the value *)

Definition rec_ok (rec : pobj -> pids -> memo -> pobj * memo) (x : value) : Prop :=
  forall ps m, memo_ne m -> rec (OV x) ps m = emb (hash_memo H o x m).

Definition subvalues (v : value) : list value :=
  match v with
  | VAtom _ => []
  | VList xs | VTuple xs => xs
  | VDict kvs => flat_map (fun kv => [VAtom (fst kv); snd kv]) kvs
  | VSet xs | VFrozen xs => map VAtom xs
  end.

Lemma atoms_items : forall xs m, atoms_memo H o xs m = items_memo H o (map VAtom xs) m.
Proof.
  induction xs as [|a xs IH]; intro m; [reflexivity|].
  cbn [atoms_memo map items_memo]. rewrite hash_atom_memo_eq.
  destruct (hash_memo H o (VAtom a) m) as [h m1]. rewrite IH. reflexivity.
Qed.

(* the loop of _prep_iterable *)
Lemma iter_loop : forall (f : ddict * memo -> nat * pobj -> ddict * memo) xs,
  (forall dd m i x, In x xs -> memo_ne m ->
     f (dd, m) (i, OV x) = (dd_incr dd (OText (fst (hash_memo H o x m))), snd (hash_memo H o x m))) ->
  forall k dd m, memo_ne m ->
  fold_left f (enum_from k (map OV xs)) (dd, m) =
  (fold_left dd_incr (map OText (fst (items_memo H o xs m))) dd, snd (items_memo H o xs m)).
Proof.
  intros f xs. induction xs as [|x xs IH]; intros Hf k dd m Hm; [reflexivity|].
  cbn [map enum_from fold_left items_memo]. rewrite (Hf dd m k x (or_introl eq_refl) Hm).
  destruct (hash_memo_ne x m Hm) as [_ M1].
  destruct (hash_memo H o x m) as [h m1]. cbn [fst snd] in *.
  rewrite (IH (fun dd m i y Hy => Hf dd m i y (or_intror Hy)) (S k) _ m1 M1).
  destruct (items_memo H o xs m1) as [hs m2]. reflexivity.
Qed.

(* the loop of _prep_dict *)
Lemma dict_loop : forall (f : list pobj * memo -> pobj * pobj -> list pobj * memo) kvs,
  (forall acc m k x, In (k, x) kvs -> memo_ne m ->
     f (acc, m) (OV (VAtom k), OV x) =
     if hidden o k then (acc, m)
     else (acc ++ [OText (dict_item (fst (hash_memo H o (VAtom k) m))
                                    (fst (hash_memo H o x (snd (hash_memo H o (VAtom k) m)))))],
           snd (hash_memo H o x (snd (hash_memo H o (VAtom k) m))))) ->
  forall acc m, memo_ne m ->
  fold_left f (py_dict_items (OV (VDict kvs))) (acc, m) =
  (acc ++ map OText (fst (dict_memo H o kvs m)), snd (dict_memo H o kvs m)).
Proof.
  intros f kvs. unfold py_dict_items. induction kvs as [|[k x] kvs IH]; intros Hf acc m Hm.
  - cbn. rewrite app_nil_r. reflexivity.
  - cbn [map fold_left fst snd dict_memo]. rewrite (Hf acc m k x (or_introl eq_refl) Hm).
    assert (Hf' : forall acc m k0 x0, In (k0, x0) kvs -> memo_ne m ->
              f (acc, m) (OV (VAtom k0), OV x0) =
              if hidden o k0 then (acc, m)
              else (acc ++ [OText (dict_item (fst (hash_memo H o (VAtom k0) m))
                                             (fst (hash_memo H o x0 (snd (hash_memo H o (VAtom k0) m)))))],
                    snd (hash_memo H o x0 (snd (hash_memo H o (VAtom k0) m)))))
      by (intros; apply Hf; [right; assumption|assumption]).
    destruct (hidden o k); [apply IH; assumption|].
    rewrite hash_atom_memo_eq.
    destruct (hash_memo_ne (VAtom k) m Hm) as [_ M1].
    destruct (hash_memo H o (VAtom k) m) as [kh m1]. cbn [fst snd] in *.
    destruct (hash_memo_ne x m1 M1) as [_ M2].
    destruct (hash_memo H o x m1) as [vh m2]. cbn [fst snd] in *.
    rewrite (IH Hf' _ m2 M2). destruct (dict_memo H o kvs m2) as [its m3]. cbn [fst snd map].
    rewrite <- app_assoc. reflexivity.
Qed.

Lemma map_py_str_OText : forall l, map py_str (map OText l) = l.
Proof. intro l. rewrite map_map. cbn [py_str]. apply map_id. Qed.

Lemma counts_fst : forall hs, map fst (counts hs) = dedup hs.
Proof. intro hs. unfold counts. rewrite map_map. cbn [fst]. apply map_id. Qed.

Lemma map_str_idem : forall l : list pobj, map py_str (map (fun x : pobj => OText (py_str x)) l) = map py_str l.
Proof. intro l. rewrite map_map. apply map_ext. reflexivity. Qed.

Lemma embc_keys : forall C, map py_str (map fst (embc C)) = map fst C.
Proof. intro C. unfold embc. rewrite !map_map. apply map_ext. reflexivity. Qed.

Lemma embc_items : forall C,
  map py_str (map (fun it : pobj * nat => let '(i, v) := it in OText (py_format (s2p "{}|{}") [py_str i; dec_nat v])) (embc C))
  = map fmt_count C.
Proof. intro C. unfold embc. rewrite !map_map. apply map_ext. intros [h c]. reflexivity. Qed.

Theorem g_prep_iterable_eq : forall rec obj xs,
  py_iter obj = map OV xs -> (forall x, In x xs -> rec_ok rec x) ->
  forall ps m, memo_ne m ->
  g_prep_iterable rec self obj ps m =
  (OText (seq_result (class_name obj) (arrange o (fst (items_memo H o xs m)))), snd (items_memo H o xs m)).
Proof.
  intros rec obj xs Hi Hrec ps m Hm. unfold g_prep_iterable, py_enumerate. rewrite Hi.
  erewrite iter_loop; [| |exact Hm].
  2:{ intros dd m0 i x Hx Hm0. cbv beta iota zeta. cbn [prim_skip_this pids_truthy pids_in andb].
      rewrite (Hrec x Hx _ m0 Hm0). reflexivity. }
  rewrite dd_fold_counts. destruct (items_memo H o xs m) as [hs m1]. cbn [fst snd].
  f_equal. f_equal. unfold seq_result, arrange, self_ignore_repetition, self_ignore_iterable_order. fold o.
  unfold py_join, py_sorted, dd_keys, dd_items.
  destruct (ignore_repetition o), (ignore_iterable_order o); cbv beta iota zeta delta [negb];
    rewrite ?map_py_str_OText, !map_str_idem, ?embc_keys, ?embc_items, ?counts_fst; reflexivity.
Qed.

Lemma isort_map_OText : forall l, map py_str (map OText l) = l.
Proof. exact map_py_str_OText. Qed.

Theorem g_prep_dict_eq : forall rec kvs,
  (forall x, In x (subvalues (VDict kvs)) -> rec_ok rec x) ->
  forall ps m, memo_ne m ->
  g_prep_dict rec self (OV (VDict kvs)) ps m =
  (OText (dict_result (fst (dict_memo H o kvs m))), snd (dict_memo H o kvs m)).
Proof.
  intros rec kvs Hrec ps m Hm. unfold g_prep_dict.
  erewrite dict_loop; [| |exact Hm].
  2:{ intros acc m0 k x Hx Hm0. cbv beta iota zeta.
      assert (Hk : rec_ok rec (VAtom k)).
      { apply Hrec. cbn [subvalues]. apply in_flat_map. exists (k, x). split; [exact Hx|left; reflexivity]. }
      assert (Hv : rec_ok rec x).
      { apply Hrec. cbn [subvalues]. apply in_flat_map. exists (k, x). split; [exact Hx|right; left; reflexivity]. }
      replace (self_ignore_private_variables self && isinstance_str (OV (VAtom k)) && py_startswith (OV (VAtom k)) (s2p "__"))
        with (hidden o k).
      2:{ unfold hidden, self_ignore_private_variables. fold o. destruct (ignore_private o); [|reflexivity].
          destruct k; reflexivity. }
      destruct (hidden o k); [reflexivity|].
      rewrite (Hk _ m0 Hm0). destruct (hash_memo_ne (VAtom k) m0 Hm0) as [N1 M1].
      destruct (hash_memo H o (VAtom k) m0) as [kh m1]. unfold emb. cbn [fst snd] in *.
      assert (T : py_truthy (OText kh) = true) by (destruct kh; [congruence|reflexivity]).
      rewrite T. cbn [negb pids_truthy pids_in prim_skip_this andb orb].
      rewrite (Hv _ m1 M1). destruct (hash_memo H o x m1) as [vh m2]. reflexivity. }
  destruct (dict_memo H o kvs m) as [its m1]. cbn [fst snd app].
  unfold dict_result, py_join, py_sorted. rewrite !map_py_str_OText. reflexivity.
Qed.

Theorem g_prep_tuple_eq : forall rec xs,
  (forall x, In x xs -> rec_ok rec x) -> forall ps m, memo_ne m ->
  g_prep_tuple rec self (OV (VTuple xs)) ps m =
  (OText (seq_result (s2p "tuple") (arrange o (fst (items_memo H o xs m)))), snd (items_memo H o xs m)).
Proof.
  intros rec xs Hrec ps m Hm. unfold g_prep_tuple. cbn [has_asdict].
  rewrite (g_prep_iterable_eq rec (OV (VTuple xs)) xs eq_refl Hrec ps m Hm). reflexivity.
Qed.

Lemma retag_str : forall s,
  py_str (g_prepare_string_for_hashing (OText s) (self_ignore_string_type_changes self) (self_ignore_string_case self))
  = retag o s.
Proof. intro s. apply (g_prepare_string_for_hashing_eq o s). Qed.

Lemma prep_str_self : forall s,
  py_str (g_prepare_string_for_hashing (OV (VAtom (AStr s))) (self_ignore_string_type_changes self) (self_ignore_string_case self))
  = prep_string o (s2p "str") s /\
  py_str (g_prepare_string_for_hashing (OV (VAtom (ABytes s))) (self_ignore_string_type_changes self) (self_ignore_string_case self))
  = prep_string o (s2p "bytes") s.
Proof. intro s. destruct (g_prepare_string_for_hashing_eq o s) as (A & B & _). split; [exact A|exact B]. Qed.

Lemma prep_text : forall x a b, isinstance_strings x = true ->
  is_not_hashed (g_prepare_string_for_hashing x a b) = false /\
  is_unprocessed (g_prepare_string_for_hashing x a b) = false.
Proof.
  intros x a b Hx. unfold g_prepare_string_for_hashing.
  destruct x as [[[| | | | |]| | | | |]| | | | | |]; try discriminate Hx; destruct a, b; split; reflexivity.
Qed.

Theorem g_hash_body_eq : forall rec v,
  (forall x, In x (subvalues v) -> rec_ok rec x) ->
  forall ps m, memo_ne m ->
  g_hash_body rec self (OV v) ps m = emb (hash_memo H o v m).
Proof.
  intros rec v Hrec ps m Hm. rewrite hash_memo_eq. unfold g_hash_body.
  destruct v as [[| b | z | t | s | s]|xs|xs|kvs|xs|xs].
  - (* None *)
    cbn [isinstance_booleanTypes hashes_get pobj_key]. destruct (mfind (VAtom ANone) m); [reflexivity|].
    cbn -[g_prepare_string_for_hashing]. rewrite retag_str. reflexivity.
  - (* bool *)
    cbn [isinstance_booleanTypes]. rewrite g_prep_bool_eq. cbn [hashes_get pobj_key].
    destruct (mfind (VAtom (ABool b)) m); [reflexivity|].
    destruct b; cbn -[g_prepare_string_for_hashing]; rewrite retag_str; reflexivity.
  - (* int *)
    cbn [isinstance_booleanTypes hashes_get pobj_key]. destruct (mfind (VAtom (AInt z)) m); [reflexivity|].
    cbn -[g_prepare_string_for_hashing g_prep_number]. rewrite (proj1 (g_prep_number_eq self z)), retag_str. reflexivity.
  - (* float *)
    cbn [isinstance_booleanTypes hashes_get pobj_key]. destruct (mfind (VAtom (AHalf t)) m); [reflexivity|].
    cbn -[g_prepare_string_for_hashing g_prep_number]. rewrite (proj2 (g_prep_number_eq self t)), retag_str. reflexivity.
  - (* str *)
    cbn [isinstance_booleanTypes hashes_get pobj_key]. destruct (mfind (VAtom (AStr s)) m); [reflexivity|].
    cbn -[g_prepare_string_for_hashing].
    destruct (prep_text (OV (VAtom (AStr s))) (self_ignore_string_type_changes self) (self_ignore_string_case self) eq_refl) as [E1 E2].
    rewrite E1, E2. cbn -[g_prepare_string_for_hashing]. rewrite (proj1 (prep_str_self s)). reflexivity.
  - (* bytes *)
    cbn [isinstance_booleanTypes hashes_get pobj_key]. destruct (mfind (VAtom (ABytes s)) m); [reflexivity|].
    cbn -[g_prepare_string_for_hashing].
    destruct (prep_text (OV (VAtom (ABytes s))) (self_ignore_string_type_changes self) (self_ignore_string_case self) eq_refl) as [E1 E2].
    rewrite E1, E2. cbn -[g_prepare_string_for_hashing]. rewrite (proj2 (prep_str_self s)). reflexivity.
  - (* list *)
    cbn -[g_prepare_string_for_hashing g_prep_iterable].
    rewrite (g_prep_iterable_eq rec (OV (VList xs)) xs eq_refl Hrec ps m Hm).
    fold (items_memo H o). destruct (items_memo H o xs m) as [hs m1].
    cbn -[g_prepare_string_for_hashing]. rewrite retag_str. reflexivity.
  - (* tuple *)
    cbn [isinstance_booleanTypes hashes_get pobj_key].
    destruct (mfind (VTuple xs) m); [reflexivity|].
    cbn -[g_prepare_string_for_hashing g_prep_tuple].
    rewrite (g_prep_tuple_eq rec xs Hrec ps m Hm).
    fold (items_memo H o). destruct (items_memo H o xs m) as [hs m1].
    cbn -[g_prepare_string_for_hashing]. rewrite retag_str. reflexivity.
  - (* dict *)
    cbn -[g_prepare_string_for_hashing g_prep_dict].
    rewrite (g_prep_dict_eq rec kvs Hrec ps m Hm).
    fold (dict_memo H o). destruct (dict_memo H o kvs m) as [its m1].
    cbn -[g_prepare_string_for_hashing]. rewrite retag_str. reflexivity.
  - (* set *)
    cbn -[g_prepare_string_for_hashing g_prep_iterable].
    rewrite (g_prep_iterable_eq rec (OV (VSet xs)) (map VAtom xs)); [|cbn [py_iter]; rewrite map_map; reflexivity|exact Hrec|exact Hm].
    rewrite atoms_items. destruct (items_memo H o (map VAtom xs) m) as [hs m1].
    cbn -[g_prepare_string_for_hashing]. rewrite retag_str. reflexivity.
  - (* frozenset *)
    cbn [isinstance_booleanTypes hashes_get pobj_key].
    destruct (mfind (VFrozen xs) m); [reflexivity|].
    cbn -[g_prepare_string_for_hashing g_prep_iterable].
    rewrite (g_prep_iterable_eq rec (OV (VFrozen xs)) (map VAtom xs)); [|cbn [py_iter]; rewrite map_map; reflexivity|exact Hrec|exact Hm].
    rewrite atoms_items. destruct (items_memo H o (map VAtom xs) m) as [hs m1].
    cbn -[g_prepare_string_for_hashing]. rewrite retag_str. reflexivity.
Qed.

(** ** the recursion: [g_hash fuel] is the generated body iterated [fuel] times; on a value of nesting depth below
    [fuel] it is the hand-written [hash_memo], table included *)

Fixpoint vdepth (v : value) : nat :=
  match v with
  | VAtom _ => 0
  | VList xs | VTuple xs => S (fold_right (fun x n => Nat.max (vdepth x) n) 0 xs)
  | VDict kvs => S (fold_right (fun kv n => Nat.max (vdepth (snd kv)) n) 0 kvs)
  | VSet _ | VFrozen _ => 1
  end.

Lemma fold_max_In : forall (xs : list value) x, In x xs ->
  vdepth x <= fold_right (fun x n => Nat.max (vdepth x) n) 0 xs.
Proof.
  induction xs as [|a xs IH]; intros x Hx; [destruct Hx|].
  cbn [fold_right]. destruct Hx as [->|Hx]; [lia|]. specialize (IH x Hx). lia.
Qed.

Lemma fold_max_In_dict : forall (kvs : list (atom * value)) k x, In (k, x) kvs ->
  vdepth x <= fold_right (fun kv n => Nat.max (vdepth (snd kv)) n) 0 kvs.
Proof.
  induction kvs as [|a kvs IH]; intros k x Hx; [destruct Hx|].
  cbn [fold_right]. destruct Hx as [->|Hx]; [cbn [snd]; lia|]. specialize (IH k x Hx). lia.
Qed.

Lemma subvalues_depth : forall v x, In x (subvalues v) -> vdepth x < vdepth v.
Proof.
  intros v x Hx. destruct v as [a|xs|xs|kvs|xs|xs]; cbn [subvalues vdepth] in *.
  - destruct Hx.
  - pose proof (fold_max_In xs x Hx). lia.
  - pose proof (fold_max_In xs x Hx). lia.
  - apply in_flat_map in Hx. destruct Hx as [[k y] [Hi [<-|[<-|[]]]]]; cbn [fst snd vdepth].
    + lia.
    + pose proof (fold_max_In_dict kvs k y Hi). lia.
  - apply in_map_iff in Hx. destruct Hx as [a [<- _]]. cbn [vdepth]. lia.
  - apply in_map_iff in Hx. destruct Hx as [a [<- _]]. cbn [vdepth]. lia.
Qed.

Theorem g_hash_eq : forall fuel v, vdepth v < fuel ->
  forall ps m, memo_ne m -> g_hash fuel self (OV v) ps m = emb (hash_memo H o v m).
Proof.
  induction fuel as [|fuel IH]; intros v Hd ps m Hm; [lia|].
  cbn [g_hash]. apply g_hash_body_eq; [|exact Hm].
  intros x Hx ps' m' Hm'. apply IH; [|exact Hm']. pose proof (subvalues_depth v x Hx). lia.
Qed.

(* every function that satisfies the recursion equation the source states is the hand-written model
   (no fuel: Python's own [_hash] is such a function on tree-shaped input) *)
Theorem g_hash_body_unique : forall f : pobj -> pids -> memo -> pobj * memo,
  (forall v ps m, memo_ne m -> f (OV v) ps m = g_hash_body f self (OV v) ps m) ->
  forall v ps m, memo_ne m -> f (OV v) ps m = emb (hash_memo H o v m).
Proof.
  intros f Hf v. remember (vdepth v) as d eqn:Hd. revert v Hd.
  induction d as [d IH] using lt_wf_ind. intros v Hd ps m Hm. rewrite (Hf v ps m Hm).
  apply g_hash_body_eq; [|exact Hm]. intros x Hx ps' m' Hm'.
  apply (IH (vdepth x)); [|reflexivity|exact Hm']. subst d. apply subvalues_depth. exact Hx.
Qed.

(* DeepHash(v, hasher=H, **o)[v] on a fresh table / on a given table, computed by the generated code *)
Definition g_deephash_with (m : memo) (v : value) : pystr :=
  py_str (fst (g_hash (S (vdepth v)) self (OV v) tt m)).
Definition g_deephash (v : value) : pystr := g_deephash_with [] v.

Lemma memo_ne_nil : memo_ne [].
Proof. intros k h []. Qed.

Theorem g_deephash_eq : forall v, g_deephash v = deephash H o v.
Proof.
  intro v. unfold g_deephash, g_deephash_with, deephash. rewrite g_hash_eq; [reflexivity|lia|apply memo_ne_nil].
Qed.

Theorem g_deephash_with_eq : forall m v, memo_ne m -> g_deephash_with m v = deephash_with H o m v.
Proof.
  intros m v Hm. unfold g_deephash_with, deephash_with. rewrite g_hash_eq; [reflexivity|lia|exact Hm].
Qed.

End Tie.

(* ------------------------------------------------------------------ *)
(** * Transfer: the main theorems of Properties/C06.v about the generated code *)

Section Transfer.
Variable self : hself.
Let o := self_opts self.
Let H := self_hasher self.
Hypothesis H_ne : forall s, H s <> [].

(* C06_eqv_deephash_partial: equal content hashes equally, on the observable DeepHash(v)[v] *)
Theorem T_C06_eqv_deephash_partial : forall a b,
  wf a = true -> wf b = true -> order_ok o a = true -> order_ok o b = true ->
  alias_free a = true -> alias_free b = true ->
  eqv o a b -> g_deephash self a = g_deephash self b.
Proof.
  intros a b Wa Wb Oa Ob Aa Ab He. rewrite !(g_deephash_eq self H_ne).
  apply C06_eqv_deephash_partial; assumption.
Qed.

(* C06_eqv_hash: the order-insensitive modes, every option record *)
Theorem T_C06_eqv_hash : forall a b,
  ignore_iterable_order o = true -> wf a = true -> wf b = true -> alias_free a = true -> alias_free b = true ->
  eqv o a b -> g_deephash self a = g_deephash self b.
Proof.
  intros a b Hio Wa Wb Aa Ab He. apply T_C06_eqv_deephash_partial; auto; unfold order_ok; rewrite Hio; reflexivity.
Qed.

(* C06_memo_transparent_partial: a consistent table is transparent *)
Theorem T_C06_memo_transparent_partial : forall m v,
  memo_ok H o m -> memo_ne m -> wf v = true -> order_ok o v = true -> alias_free_with m v = true ->
  g_deephash_with self m v = hash_pure H o v.
Proof.
  intros m v Hok Hne Wv Ov Av. rewrite (g_deephash_with_eq self H_ne m v Hne). unfold deephash_with.
  exact (proj1 (C06_memo_transparent_partial H o m v Hok Wv Ov Av)).
Qed.

(* C06_shared_table_partial: hashing v on the table the generated code left after hashing w *)
Theorem T_C06_shared_table_partial : forall w v,
  wf w = true -> wf v = true -> order_ok o w = true -> order_ok o v = true ->
  no_alias (atoms_of w ++ atoms_of v) = true ->
  g_deephash_with self (snd (g_hash (S (vdepth w)) self (OV w) tt [])) v = hash_pure H o v /\
  g_deephash self v = hash_pure H o v.
Proof.
  intros w v Ww Wv Ow Ov Ha.
  destruct (C06_shared_table_partial H o w v Ww Wv Ow Ov Ha) as [S1 S2]. split.
  - rewrite (g_hash_eq self H_ne (S (vdepth w)) w (Nat.lt_succ_diag_r _) tt [] memo_ne_nil). cbn [emb snd].
    rewrite (g_deephash_with_eq self H_ne).
    + exact S1.
    + apply (hash_memo_ne self H_ne w [] memo_ne_nil).
  - rewrite (g_deephash_eq self H_ne). exact S2.
Qed.

(* the corollaries the property names *)
Theorem T_C06_dict_insertion_order : forall kvs kvs',
  wf (VDict kvs) = true -> wf (VDict kvs') = true ->
  order_ok o (VDict kvs) = true -> order_ok o (VDict kvs') = true ->
  alias_free (VDict kvs) = true -> alias_free (VDict kvs') = true ->
  Permutation kvs kvs' -> g_deephash self (VDict kvs) = g_deephash self (VDict kvs').
Proof. intros. apply T_C06_eqv_deephash_partial; auto. apply eqv_dict_perm. assumption. Qed.

Theorem T_C06_set_iteration_order : forall xs ys,
  ignore_iterable_order o = true -> wf (VSet xs) = true -> wf (VSet ys) = true ->
  alias_free (VSet xs) = true -> alias_free (VSet ys) = true -> Permutation xs ys ->
  g_deephash self (VSet xs) = g_deephash self (VSet ys).
Proof. intros. apply T_C06_eqv_hash; auto. constructor. assumption. Qed.

Theorem T_C06_list_item_order : forall xs ys,
  ignore_iterable_order o = true -> wf (VList xs) = true -> wf (VList ys) = true ->
  alias_free (VList xs) = true -> alias_free (VList ys) = true -> Permutation xs ys ->
  g_deephash self (VList xs) = g_deephash self (VList ys).
Proof. intros. apply T_C06_eqv_hash; auto. apply eqv_list_perm; assumption. Qed.

End Transfer.

(* the hypothesis on the hasher is satisfiable, and the generated code itself (no equivalence used) exhibits K2:
   the same dict built in the other order hashes differently on a fresh table *)
Definition xhex (s : pystr) : pystr := 120%N :: hexhash s.
Theorem T_C06_memo_refuted_generated :
  (forall s, xhex s <> []) /\
  let self := mk_hself default_opts xhex None in
  let a := VDict [(AStr (s2p "a"), VAtom (AHalf 0)); (AInt 0, VAtom (AHalf 1))] in
  let b := VDict [(AInt 0, VAtom (AHalf 1)); (AStr (s2p "a"), VAtom (AHalf 0))] in
  eqv default_opts a b /\ g_deephash self a <> g_deephash self b.
Proof.
  split; [intros s; discriminate|]. cbv zeta. split; [apply eqv_dict_perm, perm_swap|].
  vm_compute. discriminate.
Qed.

(* Print Assumptions lists the axioms of the whole cone of a theorem: g_prep_iterable_eq, g_prep_dict_eq, g_prep_tuple_eq and
   g_hash_body_eq are used by g_hash_eq / g_hash_body_unique, g_deephash_eq and g_deephash_with_eq by the T_C06_* corollaries,
   and are covered by the blocks printed for those (each command costs about half a second of the run). *)
Print Assumptions g_KEY_TO_VAL_STR_eq.
Print Assumptions g_INDEX_VS_ATTRIBUTE_eq.
Print Assumptions g_prep_ipranges_eq.
Print Assumptions g_prepare_string_for_hashing_eq.
Print Assumptions g_prep_bool_eq.
Print Assumptions g_prep_number_eq.
Print Assumptions g_prep_number_x_eq.
Print Assumptions g_prep_path_eq.
Print Assumptions g_prep_date_eq.
Print Assumptions g_prep_datetime_eq.
Print Assumptions g_hash_eq.
Print Assumptions g_hash_body_unique.
Print Assumptions T_C06_eqv_deephash_partial.
Print Assumptions T_C06_eqv_hash.
Print Assumptions T_C06_memo_transparent_partial.
Print Assumptions T_C06_shared_table_partial.
Print Assumptions T_C06_dict_insertion_order.
Print Assumptions T_C06_set_iteration_order.
Print Assumptions T_C06_list_item_order.
Print Assumptions T_C06_memo_refuted_generated.

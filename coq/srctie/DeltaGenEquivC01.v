(** Source tie of deepdiff/delta.py, C01 half: the round-trip theorems of Properties/C01.v restated about the
    __add__ / __radd__ GENERATED from the current source (DDGen.DeltaGen), through the equalities of DeltaGenEquiv.v. *)
From Coq Require Import List ZArith NArith Bool Arith Permutation.
Import ListNotations.
From DD Require Import Base.PyStr Base.Value Path.PathModel Diff.Tree Diff.DiffModel
  Delta.DeltaModel Delta.DeltaRun Delta.DeltaGuard Delta.DeltaGood Delta.DeltaRoundtrip Delta.DeltaSrc Properties.C01.
From DDGen Require Import DeltaGen DeltaGenEquiv.

(* [g_add_result conv ro ao d m v]: value and number of _raise_or_log calls of  v + delta  computed by the generated
   __add__ on an object as __init__ leaves it (any [mutate] flag m); [ro [] = []]: sorted([]) = [] *)
Theorem T_C01_roundtrip_partial :
  forall hatom udiff ops c conv bidir always,
    (forall a b, hatom a = hatom b -> a = b) ->
    (forall ty0 v v', conv ty0 v = Some v' -> type_of v' = ty0) ->
  forall ro ao t1 t2 m, ro [] = [] ->
    guards c conv bidir always t1 t2 -> opsv ops t1 t2 [] ->
    let r := run_diff hatom udiff ops nos nos c t1 t2 in
    let d := to_delta conv bidir always ops t1 t2 (fst r) (snd r) in
    orders_ok_at ro ao d ->
    exists t2', g_add_result conv ro ao d m t1 = (t2', 0) /\ veqb t2' t2 = true.
Proof.
  intros hatom udiff ops c conv bidir always H1 H2 ro ao t1 t2 m Hro G O r d Ord.
  rewrite (g_add_result_eq conv ro ao Hro). exact (C01_roundtrip_partial hatom udiff ops c conv bidir always H1 H2 ro ao t1 t2 G O Ord).
Qed.
Print Assumptions T_C01_roundtrip_partial.

(* with the oracle hypotheses stated once and for all; ro [] = [] follows from ro_ok *)
Theorem T_C01_roundtrip_oracles_partial :
  forall hatom udiff ops c conv bidir always,
    (forall a b, hatom a = hatom b -> a = b) ->
    (forall ty0 v v', conv ty0 v = Some v' -> type_of v' = ty0) ->
  forall ro ao t1 t2 m,
    (forall p xs ys, forallb is_atom xs = true -> forallb is_atom ys = true -> valid_ops xs ys (ops p xs ys)) ->
    ro_ok ro -> ao_ok ao -> guards c conv bidir always t1 t2 ->
    let r := run_diff hatom udiff ops nos nos c t1 t2 in
    exists t2', g_add_result conv ro ao (to_delta conv bidir always ops t1 t2 (fst r) (snd r)) m t1 = (t2', 0) /\ veqb t2' t2 = true.
Proof.
  intros hatom udiff ops c conv bidir always H1 H2 ro ao t1 t2 m V Hr Ha G r.
  assert (Hro : ro [] = []) by (destruct (Hr []) as [P _]; apply Permutation_nil in P; exact P).
  rewrite (g_add_result_eq conv ro ao Hro).
  exact (C01_roundtrip_oracles_partial hatom udiff ops c conv bidir always H1 H2 ro ao t1 t2 V Hr Ha G).
Qed.
Print Assumptions T_C01_roundtrip_oracles_partial.

(* delta + t1 (Delta.__radd__) is the same function *)
Theorem T_C01_radd_is_add :
  forall conv ro ao self other, g___radd__ conv ro ao self other = g___add__ conv ro ao self other.
Proof. reflexivity. Qed.
Print Assumptions T_C01_radd_is_add.

(** Source tie `iopairs` (C05): the generated statement-level model of the pairing heuristic (DDGen.DiffIOGen, regenerated from
    /repo's deepdiff/diff.py on every run) equals the hand model (DiffIO/MemoPairs.v), for all arguments; then what the C05
    theorems need of a pairing is PROVED of what the source computes. *)
From Coq Require Import List ZArith NArith Bool Arith Lia.
Import ListNotations.
From DD Require Import Base.PyStr Base.Value Diff.Tree Diff.DiffModel Hash.HashModel Hash.HashProofsBase
  DiffIO.DiffIOModel DiffIO.DiffIOProofs DiffIO.MemoPairs DiffIO.MemoPairsProofs DiffIO.DiffIOSelect.
From DDGen Require Import DiffIOGen.

Lemma let_pair_eta (X Y : Type) (x : X * Y) : (let '(a, b) := x in (a, b)) = x.
Proof. destruct x; reflexivity. Qed.

(* the whole selection: generated = hand [select] on the triples of the double loop *)
Theorem g__get_most_in_common_pairs_in_iterables_eq :
  forall (A D : Type) (aeqb : A -> A -> bool) (dltb deqb : D -> D -> bool),
  (forall x y, aeqb x y = true <-> x = y) ->
  forall loop dist cutoff adds rems,
  g__get_most_in_common_pairs_in_iterables A D aeqb dltb deqb loop dist cutoff adds rems =
  select A D aeqb dltb deqb cutoff (trips A D loop dist adds rems).
Proof.
  intros A D aeqb dltb deqb Ha loop dist cutoff adds rems.
  unfold g__get_most_in_common_pairs_in_iterables. cbv zeta.
  (* 1. the double loop builds most_in_common_pairs *)
  match goal with |- context [fold_left ?F adds (@nil (A * dgroup A D))] =>
    assert (E1 : fold_left F adds (@nil (A * dgroup A D)) = build_mic A D aeqb dltb deqb cutoff (trips A D loop dist adds rems)) end.
  { unfold build_mic, trips. rewrite fold_left_flat_map. apply fold_left_ext2. intros m a.
    rewrite fold_left_flat_map. apply fold_left_ext2. intros m' r.
    destruct (loop r); cbn [fold_left]; [reflexivity|]. destruct (dltb (dist a r) cutoff); reflexivity. }
  rewrite E1. clear E1.
  set (M := build_mic A D aeqb dltb deqb cutoff (trips A D loop dist adds rems)).
  (* 2. distances_to_from_hashes *)
  match goal with |- context [fold_left ?F M (@nil (D * list A))] =>
    assert (E2 : fold_left F M (@nil (D * list A)) = build_d2f A D aeqb deqb M) end.
  { unfold build_d2f. apply fold_left_ext2. intros g [a dg]. cbn [fst snd]. rewrite fold_left_map. reflexivity. }
  rewrite E2. clear E2.
  set (G := build_d2f A D aeqb deqb M).
  (* 3. the greedy selection; the generated state is (pairs, used_to_hashes), the hand model's (used, pairs) *)
  match goal with |- context [fold_left ?F (sort_d D dltb (map fst G)) (@nil (A * A), @nil A)] =>
    assert (E3 : fold_left F (sort_d D dltb (map fst G)) (@nil (A * A), @nil A) =
                 swap (fold_left (outer A D aeqb deqb M G) (sort_d D dltb (map fst G)) (@nil A, @nil (A * A)))) end.
  { apply (fold_left_sim _ _ _ (fun s1 s2 => s1 = swap s2)); [|reflexivity].
    intros s1 [u p] d ->. unfold swap at 1. cbn [fst snd]. unfold outer.
    rewrite ?let_pair_eta.
    apply (fold_left_sim _ _ _ (fun s1 s2 => s1 = swap s2)); [|reflexivity].
    intros s1' [u' p'] from ->. unfold swap at 1. cbn [fst snd]. unfold outer_from. cbn [fst snd].
    rewrite ?let_pair_eta. destruct (amem A aeqb from u'); cbn [negb]; rewrite ?let_pair_eta; [reflexivity|].
    rewrite inner_fold.
    rewrite ?let_pair_eta.
    apply (fold_left_sim _ _ _ (fun s1 s2 => s1 = swap s2)); [|reflexivity].
    intros s1'' [u'' p''] t ->. unfold swap at 1. cbn [fst snd].
    rewrite ?let_pair_eta. destruct (amem A aeqb t u''); reflexivity. }
  rewrite E3. clear E3.
  (* 4. the symmetric closure *)
  unfold select, select_raw. cbv zeta. fold M. fold G.
  destruct (select_raw_matching A D aeqb dltb deqb Ha cutoff (trips A D loop dist adds rems)) as (_ & Nv & _).
  cbv zeta in Nv. unfold select_raw in Nv. cbv zeta in Nv. fold M in Nv. fold G in Nv.
  destruct (fold_left (outer A D aeqb deqb M G) (sort_d D dltb (map fst G)) (@nil A, @nil (A * A))) as [u p].
  unfold swap at 1. cbn [fst snd] in *.
  match goal with |- context [fold_left ?F p (@nil (A * A))] =>
    assert (E4 : fold_left F p (@nil (A * A)) = map swap p) end.
  { rewrite <- (app_nil_l (map swap p)). rewrite <- (inverse_fold A aeqb Ha p []) by exact Nv.
    apply fold_left_ext2. intros acc [k x]. reflexivity. }
  rewrite E4. clear E4. rewrite fold_left_map. apply fold_left_ext2. intros acc [k x]. reflexivity.
Qed.
Print Assumptions g__get_most_in_common_pairs_in_iterables_eq.

(* ------------------------------------------------------------------ *)
(** * transfer: the hand model's theorems about the selection hold of the generated definition *)

(* the returned dictionary is a matching of candidate edges (each below the cut-off in the supplied table, not loop-detected)
   followed by its inverse *)
Theorem g_pairs_is_matching :
  forall (A D : Type) (aeqb : A -> A -> bool) (dltb deqb : D -> D -> bool),
  (forall x y, aeqb x y = true <-> x = y) ->
  forall loop dist cutoff adds rems,
  (forall x, In x adds -> ~ In x rems) ->
  exists raw,
    g__get_most_in_common_pairs_in_iterables A D aeqb dltb deqb loop dist cutoff adds rems = raw ++ map swap raw /\
    NoDup (map fst raw) /\ NoDup (map snd raw) /\
    forall a r, In (a, r) raw -> In a adds /\ In r rems /\ dltb (dist a r) cutoff = true.
Proof.
  intros A D aeqb dltb deqb Ha loop dist cutoff adds rems Hdis.
  exists (select_raw A D aeqb dltb deqb cutoff (trips A D loop dist adds rems)).
  rewrite g__get_most_in_common_pairs_in_iterables_eq by exact Ha.
  split; [apply (select_disjoint A D aeqb dltb deqb Ha cutoff loop dist adds rems Hdis)|].
  destruct (select_raw_matching A D aeqb dltb deqb Ha cutoff (trips A D loop dist adds rems)) as (Nk & Nv & He).
  cbv zeta in Nk, Nv, He. split; [exact Nk|]. split; [exact Nv|].
  intros a r X. destruct (He a r X) as [d [Ht Hd]]. apply trips_In in Ht as (X1 & X2 & ->). auto.
Qed.

(* THE hypothesis of the pairing oracle, proved of what the source computes: on the hashes of any level, for every distance
   table, loop oracle and cut-off, the dictionary the generated function returns - read the way the harness reads a recorded
   dictionary - passes [valid_pairs_at] *)
Theorem g_pairs_valid_pairs_at :
  forall (H : pystr -> pystr) c rep (D : Type) (dltb deqb : D -> D -> bool) xs ys loop (dist : pystr -> pystr -> D) cutoff,
  let adds := hashes_added H c rep xs ys in
  let rems := hashes_removed H c rep xs ys in
  valid_pairs_at H c rep xs ys
    (idx_pairs (h1 H c rep xs) (h2 H c rep ys)
       (oracle_of_dict pystr pystr_eqb adds
          (g__get_most_in_common_pairs_in_iterables pystr D pystr_eqb dltb deqb loop dist cutoff adds rems))) = true.
Proof.
  intros. cbv zeta. rewrite g__get_most_in_common_pairs_in_iterables_eq by exact pystr_eqb_spec'.
  apply select_valid_pairs_at.
Qed.

(* ------------------------------------------------------------------ *)
(** * whether pairs are computed: get_pairs / cutoff_intersection_for_pairs / max_passes *)
From Coq Require Import QArith.
Close Scope Q_scope.

Theorem g__diff_iterable_with_deephash_pairs_eq :
  forall (A D : Type) (aeqb : A -> A -> bool) (dltb deqb : D -> D -> bool),
  (forall x y, aeqb x y = true <-> x = y) ->
  forall loop dist cutoff cut maxp passes n1 n2 adds rems,
  g__diff_iterable_with_deephash_pairs A D aeqb dltb deqb loop dist cutoff cut maxp passes n1 n2 adds rems =
  level_pairs_spec A D aeqb dltb deqb loop dist cutoff cut maxp passes n1 n2 adds rems.
Proof.
  intros A D aeqb dltb deqb Ha loop dist cutoff cut maxp passes n1 n2 adds rems.
  unfold g__diff_iterable_with_deephash_pairs, level_pairs_spec. cbv zeta.
  rewrite g__get_most_in_common_pairs_in_iterables_eq by exact Ha.
  fold (get_pairs_spec cut (List.length adds) (List.length rems) n1 n2).
  destruct (N.ltb passes maxp); destruct (get_pairs_spec cut (List.length adds) (List.length rems) n1 n2); reflexivity.
Qed.

(* max_passes = 0 or cutoff_intersection_for_pairs <= 0: the level has no pairs, whatever the distances ("pairing off") *)
Theorem g_pairing_off_no_pairs :
  forall (A D : Type) (aeqb : A -> A -> bool) (dltb deqb : D -> D -> bool),
  (forall x y, aeqb x y = true <-> x = y) ->
  forall loop dist cutoff cut maxp passes n1 n2 adds rems,
  maxp = 0%N \/ (cut <= 0)%Q ->
  fst (g__diff_iterable_with_deephash_pairs A D aeqb dltb deqb loop dist cutoff cut maxp passes n1 n2 adds rems) = [].
Proof. intros. rewrite g__diff_iterable_with_deephash_pairs_eq by assumption. apply level_pairs_off. assumption. Qed.

(* under EVERY setting of cutoff_distance_for_pairs, cutoff_intersection_for_pairs, max_passes and pass counter the dictionary of
   the level, read the way the harness reads a recorded one, passes [valid_pairs_at] *)
Theorem g_level_pairs_valid_pairs_at :
  forall (H : pystr -> pystr) c rep (D : Type) (dltb deqb : D -> D -> bool) xs ys loop (dist : pystr -> pystr -> D) cutoff cut maxp passes n1 n2,
  let adds := hashes_added H c rep xs ys in
  let rems := hashes_removed H c rep xs ys in
  valid_pairs_at H c rep xs ys
    (idx_pairs (h1 H c rep xs) (h2 H c rep ys)
       (oracle_of_dict pystr pystr_eqb adds
          (fst (g__diff_iterable_with_deephash_pairs pystr D pystr_eqb dltb deqb loop dist cutoff cut maxp passes n1 n2 adds rems)))) = true.
Proof.
  intros. cbv zeta. rewrite g__diff_iterable_with_deephash_pairs_eq by exact pystr_eqb_spec'.
  apply level_pairs_valid_pairs_at.
Qed.

(* a pair of the dictionary the generated definitions compute for a level is answered by the level model's [partner]
   (get_other_pair) as long as its removed hash is unused: "a pair the code could not have used is treated as absent" never
   applies to what the source computes *)
Theorem g_selected_pair_is_consulted :
  forall (H : pystr -> pystr) c rep (D : Type) (dltb deqb : D -> D -> bool) xs ys p1 loop (dist : pystr -> pystr -> D) cutoff cut maxp passes n1 n2,
  let adds := hashes_added H c rep xs ys in
  let rems := hashes_removed H c rep xs ys in
  let hp := oracle_of_dict pystr pystr_eqb adds
              (fst (g__diff_iterable_with_deephash_pairs pystr D pystr_eqb dltb deqb loop dist cutoff cut maxp passes n1 n2 adds rems)) in
  forall pairs a r remaining, pairs p1 = idx_pairs (h1 H c rep xs) (h2 H c rep ys) hp -> In (a, r) hp -> In r remaining ->
  partner H c rep pairs xs ys p1 a remaining = Some r.
Proof.
  intros H c rep D dltb deqb xs ys p1 loop dist cutoff cut maxp passes n1 n2 adds rems hp.
  assert (M : NoDup (map fst hp) /\ forall a r, In (a, r) hp -> In a adds /\ In r rems).
  { unfold hp. rewrite g__diff_iterable_with_deephash_pairs_eq by exact pystr_eqb_spec'.
    destruct (level_pairs_cases pystr D pystr_eqb dltb deqb loop dist cutoff cut maxp passes n1 n2 adds rems) as [E|E]; rewrite E.
    - assert (E0 : forall l, oracle_of_dict pystr pystr_eqb l [] = []).
      { unfold oracle_of_dict. induction l as [|a l IH]; [reflexivity|exact IH]. }
      rewrite E0. split; [constructor|intros a r []].
    - rewrite (select_disjoint pystr D pystr_eqb dltb deqb pystr_eqb_spec' cutoff loop dist adds rems (added_removed_disjoint H c rep xs ys)).
      cbv zeta.
      destruct (select_raw_matching pystr D pystr_eqb dltb deqb pystr_eqb_spec' cutoff (trips pystr D loop dist adds rems)) as (Nk & Nv & He).
      cbv zeta in Nk, Nv, He.
      set (raw := select_raw pystr D pystr_eqb dltb deqb cutoff (trips pystr D loop dist adds rems)) in *.
      assert (Hk : forall k x, In (k, x) raw -> In k adds /\ In x rems).
      { intros k x X. destruct (He k x X) as [d [Ht _]]. apply trips_In in Ht as (X1 & X2 & _). auto. }
      destruct (oracle_of_dict_matching pystr pystr_eqb pystr_eqb_spec' adds rems raw (hashes_added_NoDup H c rep xs ys) Nv Hk
                  (added_removed_disjoint H c rep xs ys)) as (N1 & _ & Hin).
      cbv zeta in N1, Hin. split; [exact N1|]. intros a r X. apply Hk. apply Hin. exact X. }
  destruct M as [Nk Hin]. intros pairs a r remaining Hp Har Hrem.
  exact (partner_of_matching H c rep xs ys p1 hp Nk Hin pairs a r remaining Hp Har Hrem).
Qed.

(* the pairing oracle of a whole run computed by the generated definitions: [lx p], [ly p] = the items of the level at path p,
   [dist p], [loop p] = its distance table and loop oracle, [passes p] = the pass counter when the level is reached (all arbitrary) *)
Definition g_pairs_oracle (H : pystr -> pystr) c rep (D : Type) (dltb deqb : D -> D -> bool)
    (lx ly : path -> list value) (loop : path -> pystr -> bool) (dist : path -> pystr -> pystr -> D) (passes : path -> N)
    (cutoff : D) (cut : Q) (maxp : N) (p : path) : list (nat * nat) :=
  let adds := hashes_added H c rep (lx p) (ly p) in
  let rems := hashes_removed H c rep (lx p) (ly p) in
  idx_pairs (h1 H c rep (lx p)) (h2 H c rep (ly p))
    (oracle_of_dict pystr pystr_eqb adds
       (fst (g__diff_iterable_with_deephash_pairs pystr D pystr_eqb dltb deqb (loop p) (dist p) cutoff cut maxp (passes p)
               (N.of_nat (List.length (t1_hashes H c rep (lx p)))) (N.of_nat (List.length (t2_hashes H c rep (ly p)))) adds rems))).

Theorem g_pairs_oracle_valid :
  forall H c rep D dltb deqb lx ly loop dist passes cutoff cut maxp p,
  valid_pairs_at H c rep (lx p) (ly p) (g_pairs_oracle H c rep D dltb deqb lx ly loop dist passes cutoff cut maxp p) = true.
Proof. intros. unfold g_pairs_oracle. apply g_level_pairs_valid_pairs_at. Qed.

(* pairing off: the oracle is the empty one at every level *)
Theorem g_pairs_oracle_off :
  forall H c rep D dltb deqb lx ly loop dist passes cutoff cut maxp p,
  maxp = 0%N \/ (cut <= 0)%Q ->
  g_pairs_oracle H c rep D dltb deqb lx ly loop dist passes cutoff cut maxp p = [].
Proof.
  intros. unfold g_pairs_oracle. cbv zeta. rewrite g_pairing_off_no_pairs; [|exact pystr_eqb_spec'|assumption].
  assert (E0 : forall l, oracle_of_dict pystr pystr_eqb l [] = []).
  { unfold oracle_of_dict. induction l as [|a l IH]; [reflexivity|exact IH]. }
  rewrite E0. reflexivity.
Qed.

From DD Require Import Hash.Equiv Hash.HashProofsC07 Properties.C05.

(* the main theorems of Properties/C05.v with the pairing of every level computed by the GENERATED definitions *)
Theorem g_C05_verdict_partial :
  forall (H : pystr -> pystr),
  (forall s, s <> [] -> sepfree (H s)) -> (forall s t, H s = H t -> s = t) ->
  forall udiff excl c rep D dltb deqb lx ly loop dist passes cutoff cut maxp t1 t2,
  thr_num c <= thr_den c ->
  wf t1 = true -> wf t2 = true -> tag_safe t1 = true -> tag_safe t2 = true -> alias_free2 t1 t2 = true ->
  (fst (run_diff_io H udiff no_skip excl c rep (g_pairs_oracle H c rep D dltb deqb lx ly loop dist passes cutoff cut maxp) t1 t2) = [] <->
   eqv (io_opts c rep) t1 t2).
Proof. intros. apply C05_verdict_partial; assumption. Qed.

Theorem g_C05_different_hash_nonempty :
  forall (H : pystr -> pystr),
  (forall s, s <> [] -> sepfree (H s)) -> (forall s t, H s = H t -> s = t) ->
  forall udiff excl c rep D dltb deqb lx ly loop dist passes cutoff cut maxp t1 t2 p1 p2,
  wf t1 = true -> wf t2 = true -> tag_safe t1 = true -> tag_safe t2 = true -> alias_free2 t1 t2 = true ->
  hash_pure H (io_opts c rep) t1 <> hash_pure H (io_opts c rep) t2 ->
  fst (diff_io H udiff no_skip excl c rep (g_pairs_oracle H c rep D dltb deqb lx ly loop dist passes cutoff cut maxp) t1 t2 p1 p2) <> [].
Proof. intros. apply C05_different_hash_nonempty; assumption. Qed.

(* two runs whose cutoff_distance_for_pairs, cutoff_intersection_for_pairs, max_passes, pass counters, distance tables and loop
   oracles differ agree on the verdict *)
Theorem g_C05_knob_independence :
  forall (H : pystr -> pystr),
  (forall s, s <> [] -> sepfree (H s)) -> (forall s t, H s = H t -> s = t) ->
  forall udiff udiff' excl excl' c c' rep D dltb deqb lx ly loop loop' dist dist' passes passes' cutoff cutoff' cut cut' maxp maxp' t1 t2,
  thr_num c <= thr_den c -> thr_num c' <= thr_den c' ->
  DiffModel.ignore_private c = DiffModel.ignore_private c' ->
  wf t1 = true -> wf t2 = true -> tag_safe t1 = true -> tag_safe t2 = true -> alias_free2 t1 t2 = true ->
  (fst (run_diff_io H udiff no_skip excl c rep (g_pairs_oracle H c rep D dltb deqb lx ly loop dist passes cutoff cut maxp) t1 t2) = [] <->
   fst (run_diff_io H udiff' no_skip excl' c' rep (g_pairs_oracle H c' rep D dltb deqb lx ly loop' dist' passes' cutoff' cut' maxp') t1 t2) = []).
Proof. intros. apply C05_knob_independence; assumption. Qed.

Print Assumptions g_pairs_is_matching.
Definition all_transfer := (g_pairs_valid_pairs_at, g__diff_iterable_with_deephash_pairs_eq, g_pairing_off_no_pairs, g_level_pairs_valid_pairs_at,
  g_selected_pair_is_consulted, g_pairs_oracle_valid, g_pairs_oracle_off, g_C05_verdict_partial, g_C05_different_hash_nonempty, g_C05_knob_independence).
Print Assumptions all_transfer.

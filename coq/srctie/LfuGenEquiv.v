(** C18 source tie: the definitions [g_*] of DDGen.LfuGen - regenerated on every run from the CURRENT text of
    deepdiff/lfucache.py by harness/translate/lfucache.py - are equal, for all arguments, to the hand-written
    pointer-level model coq/theories/Lfu/LfuHeapModel.v; hence every theorem of Properties/C18.v about the heap
    model holds of what the code says now (transfer corollaries at the end).

    The generated code is a dumb transcription (every attribute access re-reads the object from the current
    heap, `is None` tests are [oid_eqb _ None], `and`/`or` short-circuit explicitly, value-returning methods
    return a pair); the hand model caches reads that cannot have changed and uses [match] on the option.  The
    equalities are proved by one generic case analysis ([go]): unfold both sides down to [mget]/[mset] on the
    record fields of the heap, and split on the innermost closed scrutinee until both sides coincide.  No proof
    mentions a generated variable name (robust to renaming of Python locals / parameters). *)
From Coq Require Import List ZArith Bool Arith Lia.
Import ListNotations.
From DD Require Import Lfu.LfuModel Lfu.LfuSpec Lfu.LfuInv Lfu.LfuSpecProps Lfu.LfuProofs.
From DD Require Import Lfu.LfuHeapModel Lfu.LfuHeapProofs Lfu.LfuConcModel Lfu.LfuConcProofs.
From DDGen Require Import LfuGen.

(* frame facts: a write to a node of one kind leaves the nodes of the other kind alone; a write to a missing
   object raises *)
Lemma getc_putf {val} (h h1 : heap val) x g p : putf h x g = Some h1 -> getc h1 p = getc h p.
Proof.
  unfold putf, bind. destruct x as [i|]; [|discriminate]. destruct (mget (fns h) i); [|discriminate].
  intros E. injection E as E. subst h1. reflexivity.
Qed.
Lemma getf_putc {val} (h h1 : heap val) x g p : putc h x g = Some h1 -> getf h1 p = getf h p.
Proof.
  unfold putc, bind. destruct x as [i|]; [|discriminate]. destruct (mget (cns h) i); [|discriminate].
  intros E. injection E as E. subst h1. reflexivity.
Qed.
Lemma putf_none {val} (h : heap val) p g : getf h p = None -> putf h p g = None.
Proof. unfold getf, putf, bind. destruct p as [i|]; [|reflexivity]. intros E. rewrite E. reflexivity. Qed.
Lemma putc_none {val} (h : heap val) p g : getc h p = None -> putc h p g = None.
Proof. unfold getc, putc, bind. destruct p as [i|]; [|reflexivity]. intros E. rewrite E. reflexivity. Qed.

Ltac unf := unfold bind, oid_eqb, negb.
Ltac red1 := cbn [option_map fst snd set_cns set_fns set_dict set_hhead
                  cns fns dict hhead hcap nextc nextf
                  with_ccont with_cfn with_cpre with_cnxt with_fpre with_fnxt with_fhead with_ftail
                  ckey ccont cfn cpre cnxt ffreq fpre fnxt fhead ftail oid_eqb negb].
Ltac frame := repeat match goal with
  | E : putf ?h _ _ = Some ?h1 |- context [getc ?h1 ?p] => rewrite (getc_putf h h1 _ _ p E)
  | E : putc ?h _ _ = Some ?h1 |- context [getf ?h1 ?p] => rewrite (getf_putc h h1 _ _ p E)
  | E : getf ?h ?p = None |- context [putf ?h ?p ?g] => rewrite (putf_none h p g E)
  | E : getc ?h ?p = None |- context [putc ?h ?p ?g] => rewrite (putc_none h p g E)
  end.
Ltac known := repeat match goal with E : ?x = _ |- context [?x] => tryif is_var x then fail else rewrite E end.
Ltac inj := repeat match goal with
  | H : Some _ = Some _ |- _ => injection H; clear H; intros; subst
  | H : Some _ = None |- _ => discriminate H
  | H : None = Some _ |- _ => discriminate H
  end.
(* split on an innermost scrutinee (one that contains no further match) *)
Ltac brk := match goal with
  | |- context [match ?X with _ => _ end] =>
      lazymatch X with
      | context [match _ with _ => _ end] => fail
      | context [@g_free_myself] => fail | context [@g_append_cache_to_tail] => fail | context [@g_insert_after_me] => fail
      | context [@g_insert_before_me] => fail | context [@g_count_caches] => fail | context [@g_remove] => fail
      | context [@g_pop_head_cache] => fail | context [@g_move_forward] => fail | context [@g_dump_cache] => fail
      | context [@g_create_cache_node] => fail
      | _ => (is_var X; destruct X) || destruct X eqn:?
      end
  end.
Ltac fin := match goal with |- ?a = ?b => constr_eq a b; reflexivity end.
Ltac go := unf; repeat first [ fin | progress red1 | progress frame | progress known | progress inj | brk ].

Section Eq.
Variable val : Type.
Implicit Types h : heap val.

(** ** constructors (encoding rule E3) *)
Theorem g_CacheNode_init_eq h k (v : val) : g_CacheNode_init h k v None None None = new_cnode h k v.
Proof. reflexivity. Qed.
Theorem g_FreqNode_init_eq h f : g_FreqNode_init h f None None = new_fnode h f.
Proof. reflexivity. Qed.
Theorem g_LFUCache_init_eq c : 1 <= c -> g_LFUCache_init val c = Some (hempty c).
Proof. intros H. unfold g_LFUCache_init, hempty. destruct c; [inversion H|reflexivity]. Qed.
(** capacity <= 0: the constructor raises *)
Theorem g_LFUCache_init_raises : g_LFUCache_init val 0 = None.
Proof. reflexivity. Qed.

(** ** CacheNode / FreqNode methods *)
Theorem g_free_myself_eq h self : g_free_myself h self = free_myself h self.
Proof. unfold g_free_myself, free_myself. go. Qed.

Theorem g_count_caches_eq h self : g_count_caches h self = do n <- count_caches h self; Some (h, n).
Proof. unfold g_count_caches, count_caches. go. Qed.

(** remove / pop_head_cache return a value that every caller discards: the hand model keeps the heap only *)
Theorem g_remove_eq h self : option_map fst (g_remove h self) = fremove h self.
Proof. unfold g_remove, fremove. go. Qed.

Theorem g_pop_head_cache_eq h self : option_map fst (g_pop_head_cache h self) = pop_head_cache h self.
Proof. unfold g_pop_head_cache, pop_head_cache. go. Qed.

Theorem g_append_cache_to_tail_eq h self node :
  g_append_cache_to_tail h self (Some node) = append_cache_to_tail h self node.
Proof. unfold g_append_cache_to_tail, append_cache_to_tail. go. Qed.

Theorem g_insert_after_me_eq h self fnd : g_insert_after_me h self (Some fnd) = insert_after_me h self fnd.
Proof. unfold g_insert_after_me, insert_after_me. go. Qed.

Theorem g_insert_before_me_eq h self fnd : g_insert_before_me h self (Some fnd) = insert_before_me h self fnd.
Proof. unfold g_insert_before_me, insert_before_me. go. Qed.

(** ** LFUCache methods: callees are rewritten with the equalities above as soon as their heap argument is closed *)
Ltac rw := repeat (rewrite g_free_myself_eq || rewrite g_append_cache_to_tail_eq || rewrite g_insert_after_me_eq
                   || rewrite g_insert_before_me_eq || rewrite g_count_caches_eq || rewrite g_remove_eq
                   || rewrite g_pop_head_cache_eq).
Ltac go2 := unf; repeat first [ fin | progress red1 | progress frame | progress known | progress inj | progress (rw; unf) | brk ].

Theorem g_move_forward_eq h cn fn : g_move_forward h (Some cn) (Some fn) = move_forward h cn fn.
Proof. unfold g_move_forward, move_forward, g_FreqNode_init, new_fnode. go2. Qed.
(** a node whose freq_node is None: AttributeError at the first statement *)
Theorem g_move_forward_none h cn : g_move_forward h cn None = None.
Proof. reflexivity. Qed.

Theorem g_dump_cache_eq h : g_dump_cache h = dump_cache h.
Proof. unfold g_dump_cache, dump_cache. go2. Qed.

Theorem g_create_cache_node_eq h k v : g_create_cache_node h k v = create_cache_node h k v.
Proof. unfold g_create_cache_node, create_cache_node, g_CacheNode_init, new_cnode, g_FreqNode_init, new_fnode. go2. Qed.

Ltac rw3 := repeat (rewrite g_move_forward_eq || rewrite g_move_forward_none || rewrite g_dump_cache_eq
                    || rewrite g_create_cache_node_eq).
Ltac go3 := unf; repeat first [ fin | progress red1 | progress frame | progress known | progress inj | progress (rw3; unf) | brk ].

Theorem g_get_eq h k : g_get h k = hget h k.
Proof. unfold g_get, hget. go3. Qed.

Theorem g_set_eq h k v : g_set h k v = hset h k v.
Proof. unfold g_set, hset. go3. Qed.

Theorem g_contains_eq h k :
  g_contains h k = Some (h, match lookup k (dict h) with Some _ => true | None => false end).
Proof. reflexivity. Qed.

(** ** operation sequences over the generated get / set (the driver [hstep] / [hrun] of the hand model, re-stated) *)
Definition g_step h (o : op val) : option (heap val * option val) :=
  match o with
  | OGet k => g_get h k
  | OSet k v => do h1 <- g_set h k v; Some (h1, None)
  end.
Fixpoint g_run h (ops : list (op val)) : option (heap val * list (option val)) :=
  match ops with
  | [] => Some (h, [])
  | o :: r =>
      do so <- g_step h o;
      do rr <- g_run (fst so) r;
      Some (fst rr, match o with OGet _ => snd so :: snd rr | OSet _ _ => snd rr end)
  end.
(** LFUCache(c) followed by the operations *)
Definition g_trace (c : nat) (ops : list (op val)) : option (heap val * list (option val)) :=
  do h0 <- g_LFUCache_init val c; g_run h0 ops.

Theorem g_step_eq h o : g_step h o = hstep h o.
Proof. destruct o; cbn [g_step hstep]; [apply g_get_eq|rewrite g_set_eq; reflexivity]. Qed.
Theorem g_run_eq ops : forall h, g_run h ops = hrun h ops.
Proof.
  induction ops as [|o r IH]; intros h; [reflexivity|]. cbn [g_run hrun]. rewrite g_step_eq.
  destruct (hstep h o) as [so|]; [|reflexivity]. cbn [bind]. rewrite IH. reflexivity.
Qed.
Theorem g_trace_eq c ops : 1 <= c -> g_trace c ops = hrun (hempty c) ops.
Proof. intros H. unfold g_trace. rewrite (g_LFUCache_init_eq c H). cbn [bind]. apply g_run_eq. Qed.

(* ------------------------------------------------------------------------------------------------------ *)
(** * Transfer: the theorems of Properties/C18.v about the pointer-level model, for the generated definitions *)

(** C18_heap_refines: every operation sequence on a fresh LFUCache(c): no exception, the outputs of the
    bucket-list model, and a final heap representing its final state *)
Theorem g_heap_refines c ops : 1 <= c ->
  exists h', g_trace c ops = Some (h', snd (run (empty c) ops)) /\ heap_repr h' (state_of c ops).
Proof. intros H. rewrite (g_trace_eq c ops H). exact (heap_refines val c ops H). Qed.

(** C18_heap_step_refines *)
Theorem g_heap_step_refines h (s : lfu val) o :
  1 <= cap s -> nonempty (buckets s) -> heap_repr h s ->
  exists h', g_step h o = Some (h', snd (step s o)) /\ heap_repr h' (fst (step s o)).
Proof. rewrite g_step_eq. exact (hstep_refines val h s o). Qed.

(** C18_heap_meets_spec: the outputs of the abstract bounded-LFU specification *)
Theorem g_heap_meets_spec c ops : 1 <= c ->
  exists h', g_trace c ops = Some (h', snd (srun (sempty c) ops)).
Proof. intros H. rewrite (g_trace_eq c ops H). exact (heap_meets_spec val c ops H). Qed.

(** the constructor yields a heap representing the empty cache *)
Theorem g_init_repr c : 1 <= c -> exists h0, g_LFUCache_init val c = Some h0 /\ heap_repr h0 (empty c).
Proof. intros H. exists (hempty c). split; [exact (g_LFUCache_init_eq c H)|exact (hempty_repr val c)]. Qed.

(** get / set one by one *)
Theorem g_get_refines h (s : lfu val) k : heap_repr h s ->
  exists h', g_get h k = Some (h', snd (get s k)) /\ heap_repr h' (fst (get s k)).
Proof. rewrite g_get_eq. exact (hget_refines val h s k). Qed.
Theorem g_set_refines h (s : lfu val) k v : 1 <= cap s -> nonempty (buckets s) -> heap_repr h s ->
  exists h', g_set h k v = Some h' /\ heap_repr h' (set s k v).
Proof. rewrite g_set_eq. exact (hset_refines val h s k v). Qed.

(** `key in cache` on a heap representing [s] (quiescent): the model's [contains]; the heap is unchanged *)
Theorem g_contains_agrees h (s : lfu val) k : heap_repr h s -> g_contains h k = Some (h, contains s k).
Proof.
  intros HR. rewrite g_contains_eq. destruct (hget_refines val h s k HR) as (h' & E & _).
  unfold hget in E. unfold contains. unfold get in E.
  destruct (lookup k (dict h)) as [nid|].
  - destruct (find_key k (buckets s)) as [[u v]|]; [reflexivity|].
    exfalso. cbn [snd] in E. unfold bind in E.
    destruct (getc h (Some nid)); [|discriminate]. destruct (cfn c); [|discriminate].
    destruct (LfuHeapModel.move_forward h nid i); discriminate.
  - destruct (find_key k (buckets s)) as [[u v]|]; [|reflexivity]. cbn [snd] in E. discriminate.
Qed.

(** method by method: C18_heap_free_myself / _move_forward / _dump_cache / _create_cache_node *)
Theorem g_heap_free_myself h fi f p n l1 (a : centry val) l2 :
  bucket_ok h fi f (l1 ++ a :: l2) p n ->
  NoDup (map (@cid val) (l1 ++ a :: l2)) ->
  exists h',
    g_free_myself h (cid a) = Some h' /\
    bucket_ok h' fi f (l1 ++ l2) p n /\
    cget h' (cid a) = Some (mkC (akey a) (aval a) None None None) /\
    (forall j, ~ In j (map (@cid val) (l1 ++ a :: l2)) -> cget h' j = cget h j) /\
    (forall j, j <> fi -> fget h' j = fget h j) /\
    same_rest h h'.
Proof. rewrite g_free_myself_eq. exact (free_myself_spec val h fi f p n l1 a l2). Qed.

Theorem g_heap_move_forward h s1 fi f l1 (a : centry val) l2 s2 :
  wf h (s1 ++ (fi, (f, l1 ++ a :: l2)) :: s2) ->
  exists h',
    g_move_forward h (Some (cid a)) (Some fi) = Some h' /\
    wf h' (s1 ++ keep (fi, (f, l1 ++ l2)) ++ mf_tail (nextf h) f a s2) /\
    hcap h' = hcap h.
Proof. rewrite g_move_forward_eq. exact (move_forward_spec val h s1 fi f l1 a l2 s2). Qed.

Theorem g_heap_dump_cache h fi f (a : centry val) l2 s2 :
  wf h ((fi, (f, a :: l2)) :: s2) ->
  exists h', g_dump_cache h = Some h' /\ wf h' (keep (fi, (f, l2)) ++ s2) /\ hcap h' = hcap h.
Proof. rewrite g_dump_cache_eq. exact (dump_cache_spec val h fi f a l2 s2). Qed.

Theorem g_heap_create_cache_node h sh (k : key) (v : val) :
  wf h sh -> ~ In k (map (@akey val) (all_c sh)) ->
  exists h', g_create_cache_node h k v = Some h' /\ wf h' (create_shape (nextc h) (nextf h) k v sh) /\ hcap h' = hcap h.
Proof. rewrite g_create_cache_node_eq. exact (create_spec val h sh k v). Qed.

(** C18_conc_body_is_heap_model: the step program of a call in the interleaving semantics (the body that the
    translator checked to lie entirely inside `with self.lock:`), run without interruption, IS the generated step;
    so C18_conc_every_state / C18_conc_linearizable speak about the generated get / set *)
Theorem g_conc_body_is_generated (o : op val) h : interp (op_prog o) h = g_step h o.
Proof. rewrite g_step_eq. exact (op_prog_interp val o h). Qed.

End Eq.

(** every final statement above, in two tuples (one traversal each instead of 33: Print Assumptions walks the
    whole cone of LfuHeapProofs.v for every transfer corollary): both must be closed under the global context *)
Definition srctie_equalities :=
  (g_CacheNode_init_eq, g_FreqNode_init_eq, g_LFUCache_init_eq, g_LFUCache_init_raises, g_free_myself_eq, g_count_caches_eq,
   g_remove_eq, g_pop_head_cache_eq, g_append_cache_to_tail_eq, g_insert_after_me_eq, g_insert_before_me_eq,
   g_move_forward_eq, g_move_forward_none, g_dump_cache_eq, g_create_cache_node_eq, g_get_eq, g_set_eq, g_contains_eq,
   g_step_eq, g_run_eq, g_trace_eq).
Definition srctie_transfer :=
  (g_heap_refines, g_heap_step_refines, g_heap_meets_spec, g_init_repr, g_get_refines, g_set_refines, g_contains_agrees,
   g_heap_free_myself, g_heap_move_forward, g_heap_dump_cache, g_heap_create_cache_node, g_conc_body_is_generated).
Print Assumptions srctie_equalities.
Print Assumptions srctie_transfer.

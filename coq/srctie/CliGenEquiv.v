(** Source tie of C20 (block Cli).  DDGen.CliGen is regenerated at every run of the check from
    the CURRENT text of deepdiff/serialization.py (_save_content, save_content_to_path,
    load_path_content) and deepdiff/commands.py (patch) by harness/translate/clisave.py.  This
    file is compiled against that text at every run:

    (1) g_<f>_eq: every generated program is equal, for all arguments (worlds = fault schedule,
        environment, serialisers, loaders, optional modules; documents; paths; flags) and all
        states, to the hand-written statement-level model Cli/StmtModel.v.  When the source is
        what it was when the model was written the two are the same term and the proof is
        [reflexivity]; after a behaviour-preserving rewrite of the source the proof falls back to
        a case analysis of both programs against the abstract model (GenModel.body_tr /
        save_tr, FormatModel.load_g).
    (2) transfer corollaries: the theorems of Properties/C20.v, restated about the GENERATED
        programs (instances of section Transfer of Cli/StmtProofs.v, which refines the
        statement-level model to GenModel.save_tr / FormatModel.patch_cmd_g): for every fault
        schedule, environment, file type.
    Print Assumptions: after each g_<f>_eq, and once for the tuple of all transfer corollaries
    (g_C20_transfer_all, at the end). *)
From Coq Require Import List Bool NArith ZArith String.
Import ListNotations.
From DD Require Import Base.PyStr Cli.FsModel Cli.FsProofs Cli.GenModel Cli.FormatModel Cli.PyMonad Cli.PyMonadFacts
     Cli.StmtModel Cli.StmtProofs.
From DDGen Require Import CliGen.

(** * (1) generated = statement-level model *)

Theorem g__save_content_eq :
  forall (X doc delta : Type) (W : world X doc delta) (d : doc) (A : path) (ft : pystr) (keep : bool) (st : pst X),
    g__save_content W d A ft keep st = s__save_content W d A ft keep st.
Proof.
  intros.
  first
    [ reflexivity
    | destruct st as [g b]; rewrite s__save_content_eq;
      unfold g__save_content, new_of, fmt_of_ext, EXT_JSON, EXT_YAML, EXT_YML, EXT_TOML, EXT_PICKLE, EXT_CSV, EXT_TSV;
      unfold_save_side; split_file_type ft; crush ].
Qed.
Print Assumptions g__save_content_eq.

Theorem g_save_content_to_path_eq :
  forall (X doc delta : Type) (W : world X doc delta) (d : doc) (ft : pystr) (keep : bool) (st : pst X),
    g_save_content_to_path W d (w_target W) ft keep st = s_save_content_to_path W d (w_target W) ft keep st.
Proof.
  intros.
  first
    [ reflexivity
    | destruct st as [f b]; rewrite s_save_content_to_path_raw;
      destruct W as [A sch ev dump parse ci unpickle apply_delta];
      cbn [w_target w_sch w_env w_dump w_can_import];
      unfold g_save_content_to_path; save_setup A;
      crush_with ltac:(rewrite ?g__save_content_eq, ?s__save_content_eq;
                       cbv [lift_tr of_outcome w_can_import w_env w_dump w_sch fst snd]) ].
Qed.
Print Assumptions g_save_content_to_path_eq.

Theorem g_load_path_content_eq :
  forall (X doc delta : Type) (W : world X doc delta) (p : path) (oft : option pystr) (st : pst X),
    g_load_path_content W p oft st = s_load_path_content W p oft st.
Proof.
  intros.
  first
    [ reflexivity
    | destruct oft as [ft|];
      [ rewrite s_load_path_content_eq
      | rewrite s_load_path_content_default, s_load_path_content_eq; generalize (ext_of p) as ft; intro ft ];
      unfold g_load_path_content; rewrite ?py_split_index_last;
      unfold load_res, fmt_of_ext, EXT_JSON, EXT_YAML, EXT_YML, EXT_TOML, EXT_PICKLE, EXT_CSV, EXT_TSV;
      unfold_load_side; split_file_type ft; crush ].
Qed.
Print Assumptions g_load_path_content_eq.

Theorem g_patch_eq :
  forall (X doc delta : Type) (W : world X doc delta) (P : path) (keep raise_errors debug : bool) (st : pst X),
    g_patch W (w_target W) P keep raise_errors debug st = s_patch W (w_target W) P keep raise_errors debug st.
Proof.
  intros.
  first
    [ reflexivity
    | unfold g_patch, s_patch;
      cbv [m_try m_bind m_seq m_load_delta m_of_option m_delta_add m_reraise m_sys_exit m_ret catches];
      rewrite ?py_split_index_last;
      crush_with ltac:(rewrite ?g_load_path_content_eq, ?g_save_content_to_path_eq) ].
Qed.
Print Assumptions g_patch_eq.

(** * (2) the theorems of Properties/C20.v about the generated programs *)

Notation gsave := (fun X doc delta => @g_save_content_to_path X doc delta) (only parsing).

(** the generated save program IS GenModel.save_tr: same trace of intermediate states, same
    final file system, same outcome - for the shape FormatModel.shape_of picks for the file type *)
Theorem g_save_is_save_tr :
  forall (X doc delta : Type) (W : world X doc delta) (d : doc) (ft : pystr) (keep : bool) (f : fs X),
    run_tr (g_save_content_to_path W d (w_target W) ft keep) f =
    (let '(es, g, o) := save_tr (sh_of W ft) (w_env W) keep (new_of (w_dump W) ft d) (w_target W) (w_sch W) f
     in (es, g, of_outcome o)).
Proof. intros X doc delta. exact (prog_is_save_tr X doc delta _ (g_save_content_to_path_eq X doc delta)). Qed.

(** C20_all_branches_done_is_correct / C20_done_is_correct: EVERY schedule - a normal return is correct *)
Theorem g_C20_done_is_correct :
  forall (X doc delta : Type) (W : world X doc delta) (d : doc) (ft : pystr) (keep : bool)
         (f f' : fs X) (old : content X),
    f (w_target W) = Some old ->
    run_fin (g_save_content_to_path W d (w_target W) ft keep) f = (f', Ok tt) ->
    exists c : content X,
      new_of (w_dump W) ft d = Some c /\ f' (w_target W) = Some c /\
      f' (bak (w_target W)) = (if keep then Some old else None) /\ frame X (w_target W) f f'.
Proof. intros X doc delta. exact (prog_done_is_correct X doc delta _ (g_save_content_to_path_eq X doc delta)). Qed.

(** C20_all_branches_failure_never_loses_content: EVERY schedule - a raising call keeps the old content *)
Theorem g_C20_failure_never_loses_content :
  forall (X doc delta : Type) (W : world X doc delta) (d : doc) (ft : pystr) (keep : bool)
         (f f' : fs X) (old : content X) (k : exn_kind) (s : step),
    f (w_target W) = Some old ->
    run_fin (g_save_content_to_path W d (w_target W) ft keep) f = (f', Raise (EStep k s)) ->
    (f' (w_target W) = Some old \/ f' (bak (w_target W)) = Some old) /\ frame X (w_target W) f f'.
Proof. intros X doc delta. exact (prog_failure_never_loses_content X doc delta _ (g_save_content_to_path_eq X doc delta)). Qed.

(** C20_all_branches_exception_restores: EVERY schedule - an Exception propagating from any step but
    the restoring rename / final remove leaves A restored and the backup gone *)
Theorem g_C20_exception_restores :
  forall (X doc delta : Type) (W : world X doc delta) (d : doc) (ft : pystr) (keep : bool)
         (f f' : fs X) (old : content X) (s : step),
    f (w_target W) = Some old ->
    run_fin (g_save_content_to_path W d (w_target W) ft keep) f = (f', Raise (EStep KExc s)) ->
    s <> SRestore -> s <> SRemove ->
    f' (w_target W) = Some old /\
    (body_step s = true -> f' (bak (w_target W)) = None) /\
    (f (bak (w_target W)) = None -> f' (bak (w_target W)) = None) /\ frame X (w_target W) f f'.
Proof. intros X doc delta. exact (prog_exception_restores X doc delta _ (g_save_content_to_path_eq X doc delta)). Qed.

(** C20_all_branches_interrupt_keeps_backup *)
Theorem g_C20_interrupt_keeps_backup :
  forall (X doc delta : Type) (W : world X doc delta) (d : doc) (ft : pystr) (keep : bool)
         (f f' : fs X) (old : content X) (s : step),
    f (w_target W) = Some old ->
    run_fin (g_save_content_to_path W d (w_target W) ft keep) f = (f', Raise (EStep KBase s)) ->
    body_step s = true -> f' (bak (w_target W)) = Some old.
Proof. intros X doc delta. exact (prog_interrupt_keeps_backup X doc delta _ (g_save_content_to_path_eq X doc delta)). Qed.

(** C20_all_branches_success / C20_success: no fault, supported type, serialiser present and accepting *)
Theorem g_C20_success :
  forall (X doc delta : Type) (W : world X doc delta) (d : doc) (ft : pystr) (keep : bool)
         (c : content X) (f : fs X) (old : content X),
    w_sch W = no_fault ->
    sh_of W ft <> ShNone ->
    new_of (w_dump W) ft d = Some c ->
    f (w_target W) = Some old ->
    exists f' : fs X,
      run_fin (g_save_content_to_path W d (w_target W) ft keep) f = (f', Ok tt) /\
      f' (w_target W) = Some c /\ f' (bak (w_target W)) = (if keep then Some old else None) /\
      frame X (w_target W) f f'.
Proof. intros X doc delta. exact (prog_success X doc delta _ (g_save_content_to_path_eq X doc delta)). Qed.

(** C20_all_branches_single_fault_restores / C20_single_fault_restores *)
Theorem g_C20_single_fault_restores :
  forall (X doc delta : Type) (W : world X doc delta) (d : doc) (ft : pystr) (keep : bool)
         (c : content X) (f : fs X) (old : content X) (k : step) (flt : fault X),
    w_sch W = single k flt ->
    sh_of W ft <> ShNone ->
    new_of (w_dump W) ft d = Some c ->
    f (w_target W) = Some old ->
    write_step k = true ->
    fkind flt = KExc ->
    exists f' : fs X,
      run_fin (g_save_content_to_path W d (w_target W) ft keep) f = (f', Raise (EStep KExc k)) /\
      f' (w_target W) = Some old /\
      (k <> SBackup -> f' (bak (w_target W)) = None) /\
      (f (bak (w_target W)) = None -> f' (bak (w_target W)) = None) /\ frame X (w_target W) f f'.
Proof. intros X doc delta. exact (prog_single_fault_restores X doc delta _ (g_save_content_to_path_eq X doc delta)). Qed.

(** C20_crash_never_loses_content: every intermediate state of the generated program *)
Theorem g_C20_crash_never_loses_content :
  forall (X doc delta : Type) (W : world X doc delta) (d : doc) (ft : pystr) (keep : bool)
         (f : fs X) (old : content X) (g : fs X),
    f (w_target W) = Some old ->
    In g (f :: map (fun e : entry (fs X) => snd e) (fst (fst (run_tr (g_save_content_to_path W d (w_target W) ft keep) f)))) ->
    (g (w_target W) = Some old \/ g (bak (w_target W)) = Some old \/
     (exists c : content X, new_of (w_dump W) ft d = Some c /\ g (w_target W) = Some c /\ g (bak (w_target W)) = None)) /\
    frame X (w_target W) f g.
Proof. intros X doc delta. exact (prog_crash_never_loses_content X doc delta _ (g_save_content_to_path_eq X doc delta)). Qed.

(** C20_json_branch_is_save: on a json target the generated program is FsModel.save DInside *)
Theorem g_C20_json_is_FsModel_save :
  forall (X doc delta : Type) (W : world X doc delta) (d : doc) (keep : bool) (f : fs X),
    w_env W = env0 ->
    snd (run_fin (g_save_content_to_path W d (w_target W) EXT_JSON keep) f) =
      of_outcome (snd (save DInside keep (w_dump W FJson d) (w_target W) (w_sch W) f)) /\
    (forall q : path, fst (run_fin (g_save_content_to_path W d (w_target W) EXT_JSON keep) f) q =
                      fst (save DInside keep (w_dump W FJson d) (w_target W) (w_sch W) f) q).
Proof. intros X doc delta. exact (prog_json_is_save X doc delta _ (g_save_content_to_path_eq X doc delta)). Qed.

(** the generated patch command, as click runs it, IS FormatModel.patch_cmd_g followed by FsModel.cli_report *)
Theorem g_patch_is_patch_cmd_g :
  forall (X doc delta : Type) (W : world X doc delta) (P : path) (keep raise_errors debug : bool) (f : fs X),
    run_cli (g_patch W (w_target W) P keep raise_errors debug) f =
    (let '(f', o) := patch_cmd_g (w_parse W) (w_dump W) (can_load_of (w_can_import W)) (can_save_of (w_can_import W))
                                 (w_unpickle W) (w_apply W) (w_env W) keep (w_target W) P (w_sch W) f
     in (f', cli_report debug o)).
Proof. intros X doc delta. exact (cmd_is_patch_cmd_g X doc delta _ (g_patch_eq X doc delta)). Qed.

(** C20_patch_reproduces_any_format: diff --create-patch, then the generated patch command, no fault *)
Theorem g_C20_patch_reproduces :
  forall (X doc delta : Type) (W : world X doc delta) (pickle : delta -> content X) (mk_delta : doc -> doc -> delta),
    (forall a b : doc, w_apply W (mk_delta a b) a = b) ->
    (forall dl : delta, w_unpickle W (pickle dl) = Some dl) ->
    w_sch W = no_fault ->
    forall (keep raise_errors debug : bool) (B P : path) (f : fs X) (fa : fmt) (ca : content X)
           (a b : doc) (pd cb' : content X),
      let A := w_target W in
      let can_load := can_load_of (w_can_import W) in
      fmt_of_path A = Some fa ->
      can_load fa = true ->
      can_save_of (w_can_import W) fa = true ->
      f A = Some ca ->
      w_parse W fa ca = Some a ->
      load_g (w_parse W) can_load f B = Some b ->
      P <> A -> P <> bak A ->
      diff_cmd_g (w_parse W) can_load pickle mk_delta A B f = Some pd ->
      w_dump W fa b = Some cb' ->
      exists f' : fs X,
        run_cli (g_patch W A P keep raise_errors debug) (upd P (Some pd) f) = (f', CExit 0) /\
        load_g (w_parse W) can_load f' A = w_parse W fa cb' /\
        f' A = Some cb' /\
        f' (bak A) = (if keep then Some ca else None) /\
        (forall q : path, q <> A -> q <> bak A -> q <> P -> f' q = f q).
Proof. intros X doc delta. exact (cmd_patch_reproduces X doc delta _ (g_patch_eq X doc delta)). Qed.

(** C20_patch_single_fault_restores_any_format: one Exception anywhere in the generated command *)
Theorem g_C20_patch_single_fault_restores :
  forall (X doc delta : Type) (W : world X doc delta) (keep raise_errors debug : bool) (P : path) (f : fs X)
         (fa : fmt) (ca : content X) (a : doc) (dl : delta) (cnew : content X) (k : step) (flt : fault X),
    let A := w_target W in
    w_sch W = single k flt ->
    fmt_of_path A = Some fa ->
    can_load_of (w_can_import W) fa = true ->
    can_save_of (w_can_import W) fa = true ->
    f A = Some ca ->
    w_parse W fa ca = Some a ->
    match f P with Some c0 => w_unpickle W c0 | None => None end = Some dl ->
    w_dump W fa (w_apply W dl a) = Some cnew ->
    f (bak A) = None ->
    write_step k = true \/ k = SLoadDelta \/ k = SLoadDoc \/ k = SApply ->
    fkind flt = KExc ->
    exists (f' : fs X) (r : cli_result),
      run_cli (g_patch W A P keep raise_errors debug) f = (f', r) /\
      r <> CExit 0 /\
      f' A = Some ca /\
      f' (bak A) = None /\
      (forall q : path, q <> A -> q <> bak A -> f' q = f q).
Proof. intros X doc delta. exact (cmd_patch_single_fault_restores X doc delta _ (g_patch_eq X doc delta)). Qed.

(** C20_exit_zero_iff_done *)
Theorem g_C20_exit_zero_iff_done :
  forall (X doc delta : Type) (W : world X doc delta) (P : path) (keep raise_errors debug : bool) (f : fs X),
    snd (run_cli (g_patch W (w_target W) P keep raise_errors debug) f) = CExit 0 <->
    snd (patch_cmd_g (w_parse W) (w_dump W) (can_load_of (w_can_import W)) (can_save_of (w_can_import W))
                     (w_unpickle W) (w_apply W) (w_env W) keep (w_target W) P (w_sch W) f) = Done.
Proof. intros X doc delta. exact (cmd_exit_zero_iff_done X doc delta _ (g_patch_eq X doc delta)). Qed.

(** all transfer corollaries at once: Print Assumptions of the tuple lists the assumptions of every one of
    them (one traversal of the dependency graph instead of thirteen) *)
Definition g_C20_transfer_all :=
  (g_save_is_save_tr,
   g_C20_done_is_correct,
   g_C20_failure_never_loses_content,
   g_C20_exception_restores,
   g_C20_interrupt_keeps_backup,
   g_C20_success,
   g_C20_single_fault_restores,
   g_C20_crash_never_loses_content,
   g_C20_json_is_FsModel_save,
   g_patch_is_patch_cmd_g,
   g_C20_patch_reproduces,
   g_C20_patch_single_fault_restores,
   g_C20_exit_zero_iff_done).
Print Assumptions g_C20_transfer_all.

(** C09 - SOURCE TIE: the Gallina text regenerated from deepdiff/path.py on every run (DDGen.PathGen, written by
    harness/translate/pathparse.py) is equal, for all arguments, to the hand-written model of Path/PathModel.v;
    therefore the theorems of Properties/C09.v hold of what the source says now (transfer corollaries below).

    The generated definitions are generic in the type V of element values, the injection VStr of str into it and the
    oracle LE for ast.literal_eval; here V = atom, VStr = AStr, LE = LEh (PathModel.literal_eval).
    The generated state is the tuple of the loop's variables
        (elements, elem, inside : False | str, prev_char, brackets : list of str, inside_quotes, quote_used : str);
    [abs] maps it to the record [pst] of the hand model ([abs_inside]: False / '[' / '.' -> INone / IBr / IDot,
    len(brackets), quote_used '' -> None), [inv] is the invariant that makes it a simulation (every entry of
    brackets is '[', quote_used has at most one character). *)
From Coq Require Import List ZArith NArith Bool Lia.
Import ListNotations.
From DD Require Import Base.PyStr Base.Value Path.PathModel Path.PathTie Path.PathTieFacts Path.PathCacheModel Path.PathActsModel
  Path.PathLit Path.PathXModel Path.PathXProofs Properties.C09.
From DDGen Require Import PathGen.
Local Open Scope N_scope.


(* ---- the constants ------------------------------------------------------------------------------ *)
Theorem g_GET_eq : g_GET = action_str GET.
Proof. reflexivity. Qed.
Theorem g_GETATTR_eq : g_GETATTR = action_str GETATTR.
Proof. reflexivity. Qed.
Theorem g_DEFAULT_FIRST_ELEMENT_eq : Some g_DEFAULT_FIRST_ELEMENT = DEFAULT_FIRST_ELEMENT.
Proof. reflexivity. Qed.
Theorem g__parse_path_to_elements_default_root_element_eq :
  Some g__parse_path_to_elements_default_root_element = DEFAULT_FIRST_ELEMENT.
Proof. reflexivity. Qed.

(* ---- _add_to_elements ---------------------------------------------------------------------------- *)
Definition abs_inside (i : option pystr) : ins :=
  if optstr_eqb i [46] then IDot else if optstr_eqb i [91] then IBr else INone.

Lemma strip_outer_eq (c : N) (r : pystr) :
  (if (c =? last (c :: r) 0) && ((c =? 34) || (c =? 39)) then removelast r else c :: r) = strip_outer (c :: r).
Proof.
  unfold strip_outer, is_quote, cSQ, cDQ. rewrite (N.eqb_sym (last (c :: r) 0) c).
  destruct (c =? 34), (c =? 39), (c =? last (c :: r) 0); reflexivity.
Qed.

Theorem g__add_to_elements_eq (els : list element) (elem : pystr) (inside : option pystr) :
  g__add_to_elements atom AStr LEh els elem inside = tout_of_option (add_to_elements els elem (abs_inside inside)).
Proof.
  unfold g__add_to_elements, add_to_elements.
  destruct elem as [|c r]; [reflexivity|].
  cbn [seq_truthy negb]. unfold str_startswith.
  change [95; 95] with [cUS; cUS].
  destruct (is_prefix [cUS; cUS] (c :: r)); [reflexivity|].
  cbn [negb].
  assert (HA : (if optstr_eqb inside [46] then GETATTR else GET) = match abs_inside inside with IDot => GETATTR | _ => GET end).
  { unfold abs_inside. destruct (optstr_eqb inside [46]); [reflexivity|]. now destruct (optstr_eqb inside [91]). }
  change 119232 with cESC. change 92 with cBS.
  destruct (has_char cESC (c :: r) || has_char cBS (c :: r)).
  - unfold tret, tand. cbn [tbind dyn_get dyn_slice]. rewrite str_get_0, str_get_m1. cbn [tbind].
    rewrite seq_slice_1_m1. rewrite <- HA. rewrite <- strip_outer_eq.
    destruct (c =? last (c :: r) 0); [destruct ((c =? 34) || (c =? 39))|]; reflexivity.
  - unfold LEh. destruct (literal_eval (c :: r)) as [a| |]; cbn [le_of_lit]; unfold tret, tand; cbn [tbind].
    + rewrite <- HA. reflexivity.
    + cbn [dyn_get dyn_slice]. rewrite str_get_0, str_get_m1. cbn [tbind].
      rewrite seq_slice_1_m1. rewrite <- HA. rewrite <- strip_outer_eq.
      destruct (c =? last (c :: r) 0); [destruct ((c =? 34) || (c =? 39))|]; reflexivity.
    + reflexivity.
Qed.


Definition gstate (V : Type) : Type := (list (V * action) * pystr * option pystr * option N * list pystr * bool * pystr)%type.

Definition abs_quote (q : pystr) : option N := match q with [c] => Some c | _ => None end.
Definition abs (g : gstate atom) : pst :=
  let '(els, elem, inside, prev, br, inq, q) := g in
  mk_pst els elem (abs_inside inside) prev (List.length br) inq (abs_quote q) false.
Definition inv {V} (g : gstate V) : Prop :=
  let '(els, elem, inside, prev, br, inq, q) := g in
  all_lb br /\ (List.length q <= 1)%nat.

Lemma quote_ne (q : pystr) (c : N) : (List.length q <= 1)%nat -> pystr_eqb q [c] = opt_is (abs_quote q) c.
Proof.
  destruct q as [|a [|b q]]; cbn [List.length]; intros H; [reflexivity| |lia].
  unfold pystr_eqb, abs_quote, opt_is. now rewrite andb_true_r.
Qed.

Lemma abs_inside_dot i : optstr_eqb i [46] = true -> abs_inside i = IDot.
Proof. unfold abs_inside. now intros ->. Qed.
Lemma abs_inside_br i : optstr_eqb i [46] = false -> optstr_eqb i [91] = true -> abs_inside i = IBr.
Proof. unfold abs_inside. now intros -> ->. Qed.
Lemma abs_inside_none i : optstr_eqb i [46] = false -> optstr_eqb i [91] = false -> abs_inside i = INone.
Proof. unfold abs_inside. now intros -> ->. Qed.
Lemma abs_inside_br' i : optstr_eqb i [91] = true -> abs_inside i = IBr.
Proof.
  unfold abs_inside. intros H. destruct i as [s|]; [|discriminate].
  cbn [optstr_eqb] in *. destruct s as [|a [|b s]]; try discriminate.
  - unfold pystr_eqb in H. rewrite andb_true_r in H. apply N.eqb_eq in H. subst. reflexivity.
  - unfold pystr_eqb in H. rewrite andb_false_r in H. discriminate.
Qed.

Ltac addcase :=
  match goal with
  | |- context [add_to_elements ?a ?b ?c] => destruct (add_to_elements a b c)
  end.

Lemma g_step_sim (g : gstate atom) (c : N) : inv g ->
  match g__parse_path_to_elements_step atom AStr LEh g c with
  | TDone g' => inv g' /\ step (abs g) c = abs g'
  | TUnsup => p_bad (step (abs g) c) = true
  | TRaises => False
  end.
Proof.
  destruct g as [[[[[[els elem] inside] prev] br] inq] q]. intros [HB HQ].
  unfold g__parse_path_to_elements_step, step, abs, with_add.
  rewrite !g__add_to_elements_eq.
  change (optchr_eqb prev 119232) with (opt_is prev cESC).
  destruct (opt_is prev cESC).
  { cbn. auto. }
  unfold is_quote, cSQ, cDQ, cLB, cRB, cDOT.
  rewrite (quote_ne q c HQ).
  destruct (c =? 34) eqn:E34.
  { cbn [orb]. rewrite orb_true_r.
    destruct inq; cbn [andb negb].
    - destruct (opt_is (abs_quote q) c); cbn [negb].
      + unfold tret; cbn [tbind]. addcase; cbn; auto.
      + cbn. auto.
    - cbn. repeat split; auto. }
  destruct (c =? 39) eqn:E39.
  { cbn [orb].
    destruct inq; cbn [andb negb].
    - destruct (opt_is (abs_quote q) c); cbn [negb].
      + unfold tret; cbn [tbind]. addcase; cbn; auto.
      + cbn. auto.
    - cbn. repeat split; auto. }
  cbn [orb].
  destruct inq.
  { cbn. auto. }
  destruct (c =? 91).
  { destruct (optstr_eqb inside [46]) eqn:ED.
    - rewrite (abs_inside_dot _ ED). unfold tret; cbn [tbind]. addcase; cbn; auto.
    - destruct (optstr_eqb inside [91]) eqn:EB.
      + pose proof (abs_inside_br _ ED EB) as HI. rewrite HI. cbn. rewrite HI. auto.
      + rewrite (abs_inside_none _ ED EB). cbn. rewrite app_length. cbn.
        split; [split; [apply Forall_app; split; [exact HB|repeat constructor]|exact HQ]|].
        f_equal. lia. }
  destruct (c =? 46).
  { destruct (optstr_eqb inside [91]) eqn:EB.
    - pose proof (abs_inside_br' _ EB) as HI. rewrite HI. cbn. rewrite HI. auto.
    - destruct (optstr_eqb inside [46]) eqn:ED.
      + pose proof (abs_inside_dot _ ED) as HI. rewrite HI. unfold tret; cbn [tbind]. addcase; cbn; rewrite ?HI; auto.
      + rewrite (abs_inside_none _ ED EB). cbn. auto. }
  destruct (c =? 93).
  { rewrite (brackets_top br HB).
    destruct br as [|b [|b2 br]].
    - cbn [seq_truthy tbind List.length Nat.pred]. unfold tret; cbn [tbind]. addcase; cbn; auto.
    - cbn [seq_truthy tbind lst_pop removelast List.length Nat.pred]. unfold tret; cbn [tbind seq_truthy].
      addcase; cbn; auto. split; auto. split; [constructor|exact HQ].
    - cbn [seq_truthy tbind lst_pop List.length Nat.pred]. unfold tret; cbn [tbind].
      change (removelast (b :: b2 :: br)) with (b :: removelast (b2 :: br)). cbn [seq_truthy tbind].
      split; [split; [exact (Forall_removelast _ _ HB)|exact HQ]|].
      cbn [List.length]. rewrite removelast_length. reflexivity. }
  cbn. auto.
Qed.


Lemma g_run_sim (s : pystr) : forall g : gstate atom, inv g ->
  match tfold (g__parse_path_to_elements_step atom AStr LEh) s g with
  | TDone g' => inv g' /\ run (abs g) s = abs g'
  | TUnsup => p_bad (run (abs g) s) = true
  | TRaises => False
  end.
Proof.
  induction s as [|c s IH]; intros g HI.
  - cbn. auto.
  - cbn [tfold]. change (run (abs g) (c :: s)) with (run (step (abs g) c) s).
    pose proof (g_step_sim g c HI) as HS.
    destruct (g__parse_path_to_elements_step atom AStr LEh g c) as [g'| |]; cbn [tbind].
    + destruct HS as [HI' ->]. apply IH. exact HI'.
    + exact HS.
    + now apply run_bad.
Qed.

(* the hand-written parser started on a non-empty list of elements *)
Definition prepend (pre : list element) (st : pst) : pst :=
  mk_pst (pre ++ p_els st) (p_elem st) (p_inside st) (p_prev st) (p_br st) (p_inq st) (p_quote st) (p_bad st).

Lemma add_prepend pre els elem inside :
  add_to_elements (pre ++ els) elem inside = option_map (app pre) (add_to_elements els elem inside).
Proof.
  unfold add_to_elements. destruct elem as [|c r]; [reflexivity|].
  destruct (is_prefix [cUS; cUS] (c :: r)); [reflexivity|].
  destruct (has_char cESC (c :: r) || has_char cBS (c :: r)); [cbn; now rewrite app_assoc|].
  destruct (literal_eval (c :: r)); cbn; now rewrite ?app_assoc.
Qed.

Lemma with_add_prepend pre els elem inside bad :
  with_add (pre ++ els) elem inside bad = (pre ++ fst (with_add els elem inside bad), snd (with_add els elem inside bad)).
Proof. unfold with_add. rewrite add_prepend. now destruct (add_to_elements els elem inside). Qed.

Lemma step_prepend pre st c : step (prepend pre st) c = prepend pre (step st c).
Proof.
  destruct st as [els elem inside prev br inq quote bad]. unfold prepend. cbn [p_els p_elem p_inside p_prev p_br p_inq p_quote p_bad].
  unfold step. rewrite !with_add_prepend.
  repeat match goal with
  | |- context [with_add els ?b ?c ?d] => destruct (with_add els b c d)
  end. cbn [fst snd].
  repeat match goal with
  | |- context [if ?b then _ else _] => destruct b
  | |- context [match ?i with INone => _ | IBr => _ | IDot => _ end] => destruct i
  | |- context [match Nat.pred ?n with O => _ | S _ => _ end] => destruct (Nat.pred n)
  end; reflexivity.
Qed.

Lemma run_prepend pre s : forall st, run (prepend pre st) s = prepend pre (run st s).
Proof.
  induction s as [|c s IH]; intros st; [reflexivity|].
  change (run (prepend pre st) (c :: s)) with (run (step (prepend pre st) c) s).
  rewrite step_prepend. apply IH.
Qed.

Lemma finish_prepend pre st : finish (prepend pre st) = option_map (app pre) (finish st).
Proof.
  unfold finish, prepend. cbn [p_els p_elem p_inside p_bad]. rewrite with_add_prepend.
  destruct (with_add (p_els st) (p_elem st) (p_inside st) (p_bad st)) as [e b]. cbn [fst snd]. now destruct b.
Qed.

(* _parse_path_to_elements(path, root_element) for every root_element *)
Theorem g__parse_path_to_elements_eq (p : pystr) (re : rootarg) :
  g__parse_path_to_elements atom AStr LEh p (option_map mk_root_element re) = tout_of_option (elements_with_root p re).
Proof.
  unfold g__parse_path_to_elements, elements_with_root, elements.
  rewrite seq_slice_4. cbv zeta.
  set (pre := match re with Some r => [mk_root_element r] | None => [] end).
  unfold tret.
  match goal with |- tbind ?X _ = _ => assert (H0 : X = TDone pre) by (destruct re; reflexivity); rewrite H0 end.
  cbn [tbind].
  assert (HA : abs (pre, [], None, None, [], false, []) = prepend pre init_pst) by (unfold prepend; cbn; now rewrite app_nil_r).
  match goal with |- tbind (tfold ?F ?S ?G) _ = _ =>
    pose proof (g_run_sim S G (conj (Forall_nil _) (Nat.le_0_l 1))) as HR;
    change (abs G) with (abs (pre, [], None, None, [], false, [])) in HR;
    rewrite HA, run_prepend in HR;
    destruct (tfold F S G) as [[[[[[[els elem] inside] prev] br] inq] q]| |]; cbn [tbind]; cbv beta iota
  end.
  - destruct HR as [_ HR].
    assert (HF : finish (prepend pre (run init_pst (skipn 4 p))) =
                 match add_to_elements els elem (abs_inside inside) with Some e => Some e | None => None end).
    { rewrite HR. unfold finish, abs, with_add. cbn [p_els p_elem p_inside p_bad]. now destruct (add_to_elements els elem (abs_inside inside)). }
    rewrite finish_prepend in HF.
    match goal with |- tbind ?X _ = _ =>
      assert (HG : X = tout_of_option (add_to_elements els elem (abs_inside inside)));
      [destruct elem as [|n elem]; [reflexivity|]; cbn [seq_truthy]; rewrite g__add_to_elements_eq;
       now destruct (add_to_elements els (n :: elem) (abs_inside inside))|rewrite HG] end.
    destruct (finish (run init_pst (skipn 4 p))) as [e|]; cbn [option_map] in HF.
    + destruct (add_to_elements els elem (abs_inside inside)); [|discriminate]. injection HF as <-. unfold pre. now destruct re.
    + now destruct (add_to_elements els elem (abs_inside inside)).
  - exact (False_ind _ HR).
  - assert (HB : p_bad (run init_pst (skipn 4 p)) = true) by (destruct (run init_pst (skipn 4 p)); exact HR).
    now rewrite (finish_bad _ HB).
Qed.

Corollary g_parse_eq (p : pystr) : g__parse_path_to_elements atom AStr LEh p None = tout_of_option (elements p).
Proof.
  pose proof (g__parse_path_to_elements_eq p None) as H. unfold elements_with_root in H.
  destruct (elements p); exact H.
Qed.

(* ------------------------------------------------------------------------------------------------ *)
(** Transfer: the theorems of Properties/C09.v about [elements] / [parse] / [extract], restated about the
    definitions generated from the current source.  [g_elements p] is _path_to_elements(p, root_element=None)
    as the source says it; parse_path / extract / stringify_path are the hand model's thin wrappers around it
    (outside the translated fragment). *)
Definition g_elements (p : pystr) : tout (list element) := g__parse_path_to_elements atom AStr LEh p None.
Definition tmap {A B} (f : A -> B) (m : tout A) : tout B := tbind m (fun x => tret (f x)).
Definition g_parse (p : pystr) : tout path := tmap (map (fun e : element => PKey (fst e))) (g_elements p).
Definition g_extract (v : value) (p : pystr) : option value :=
  match g_elements p with TDone els => resolve_els v els | _ => None end.

Theorem g_elements_eq (p : pystr) : g_elements p = tout_of_option (elements p).
Proof. exact (g_parse_eq p). Qed.
Theorem g_parse_parse_eq (p : pystr) : g_parse p = tout_of_option (parse p).
Proof. unfold g_parse, parse. rewrite g_elements_eq. now destruct (elements p). Qed.
Theorem g_extract_eq (v : value) (p : pystr) : g_extract v p = extract v p.
Proof. unfold g_extract, extract. rewrite g_elements_eq. now destruct (elements p). Qed.

(* the root element is put in front and nothing else depends on it *)
Theorem G_root_element_prepended (p : pystr) (r : pystr * action) :
  g__parse_path_to_elements atom AStr LEh p (Some (mk_root_element r)) = tmap (cons (mk_root_element r)) (g_elements p).
Proof.
  rewrite g_elements_eq. pose proof (g__parse_path_to_elements_eq p (Some r)) as H.
  unfold elements_with_root in H. destruct (elements p); exact H.
Qed.

Lemma tout_of_option_iff {A} (o : option A) (x : A) : tout_of_option o = TDone x <-> o = Some x.
Proof. destruct o; unfold tout_of_option; split; congruence. Qed.
Lemma tout_of_option_neq {A} (o : option A) (x : A) : o <> Some x -> tout_of_option o <> TDone x.
Proof. intros H HE. apply H. now apply tout_of_option_iff. Qed.
Lemma some_inj {A} (a b : A) : Some a = Some b -> a = b.
Proof. congruence. Qed.

Theorem G_C09_elements_partial :
  forall ks : path, path_ok ks = true -> g_elements (render ks) = TDone (map (fun k => (key_atom k, GET)) ks).
Proof. intros ks H. rewrite g_elements_eq, (C09_elements_partial ks H). reflexivity. Qed.

Theorem G_C09_parse_render_partial :
  forall ks : path, path_ok ks = true -> g_parse (render ks) = TDone (norm ks).
Proof. intros ks H. rewrite g_parse_parse_eq, (C09_parse_render_partial ks H). reflexivity. Qed.

Theorem G_C09_parse_render_refuted_both_quotes : exists ks, g_parse (render ks) <> TDone (norm ks).
Proof.
  destruct C09_parse_render_refuted_both_quotes as [ks H]. exists ks. rewrite g_parse_parse_eq.
  now apply tout_of_option_neq.
Qed.
Theorem G_C09_parse_render_refuted_escape_char : exists ks, g_parse (render ks) <> TDone (norm ks).
Proof.
  destruct C09_parse_render_refuted_escape_char as [ks H]. exists ks. rewrite g_parse_parse_eq.
  now apply tout_of_option_neq.
Qed.

Theorem G_C09_extract_partial :
  forall (root : value) (ks : path), path_ok ks = true -> g_extract root (render ks) = resolve root ks.
Proof. intros root ks H. rewrite g_extract_eq. exact (C09_extract_partial root ks H). Qed.

Theorem G_C09_extract_nest_partial :
  forall (ks : path) (v : value), path_ok ks = true -> g_extract (nest ks v) (render ks) = Some v.
Proof. intros ks v H. rewrite g_extract_eq. exact (C09_extract_nest_partial ks v H). Qed.

Theorem G_C09_stringify_inverts_elements_partial :
  forall ks : path, path_ok ks = true -> tmap stringify_els (g_elements (render ks)) = TDone (render ks).
Proof.
  intros ks H. rewrite g_elements_eq. pose proof (C09_stringify_inverts_elements_partial ks H) as HS.
  destruct (elements (render ks)); [|discriminate]. cbn [option_map] in HS. apply some_inj in HS.
  unfold tmap, tout_of_option, tbind, tret. now rewrite HS.
Qed.

Theorem G_C09_stringify_inverts_parse_partial :
  forall ks : path, path_ok ks = true -> tmap (stringify_keys GET) (g_parse (render ks)) = TDone (render ks).
Proof.
  intros ks H. rewrite g_parse_parse_eq. pose proof (C09_stringify_inverts_parse_partial ks H) as HS.
  destruct (parse (render ks)); [|discriminate]. cbn [option_map] in HS. apply some_inj in HS.
  unfold tmap, tout_of_option, tbind, tret. now rewrite HS.
Qed.

Theorem G_C09_parse_stringify_partial :
  forall ks : path, path_ok ks = true -> g_parse (stringify_keys GET ks) = TDone (norm ks).
Proof. intros ks H. rewrite g_parse_parse_eq, (C09_parse_stringify_partial ks H). reflexivity. Qed.

Theorem G_C09_guard_necessary_escape_char :
  forall s' : pystr, let s := s' ++ [cESC] in
    has_char cSQ s && has_char cDQ s = false ->
    g_parse (render [PKey (AStr s)]) <> TDone [PKey (AStr s)].
Proof.
  intros s' s H. rewrite g_parse_parse_eq. apply tout_of_option_neq. exact (C09_guard_necessary_escape_char s' H).
Qed.

Theorem G_C09_guard_necessary_both_quotes :
  forall s : pystr, has_char cSQ s = true -> has_char cDQ s = true -> has_char cESC s = false ->
    g_parse (render [PKey (AStr s)]) <> TDone [PKey (AStr s)].
Proof.
  intros s H1 H2 H3. rewrite g_parse_parse_eq. apply tout_of_option_neq. exact (C09_guard_necessary_both_quotes s H1 H2 H3).
Qed.

Theorem G_C09_guard_exact_no_escape_char :
  forall s : pystr, has_char cESC s = false ->
    (g_parse (render [PKey (AStr s)]) = TDone [PKey (AStr s)] <-> str_ok s = true).
Proof.
  intros s H. rewrite g_parse_parse_eq. rewrite <- (C09_guard_exact_no_escape_char s H).
  apply tout_of_option_iff.
Qed.

(* paths through instances of classes (extension of Properties/C09.v; [orender] prints ".name") *)
Theorem G_C09_objects_elements_partial :
  forall p : Obj.ObjValue.opath, Obj.ObjPathText.opath_ok p = true ->
    g_elements (Obj.ObjText.orender p) = TDone (map Obj.ObjText.oelement p).
Proof. intros p H. rewrite g_elements_eq, (C09_objects_elements_partial p H). reflexivity. Qed.


(* ------------------------------------------------------------------------------------------------ *)
(** stringify_element *)
Definition esc_char (c : N) : pystr := if is_quote c then [cESC; c] else [c].

Lemma g_stringify_element_step_eq (acc : pystr) (c : N) :
  g_stringify_element_step acc c = TDone (acc ++ esc_char c).
Proof.
  unfold g_stringify_element_step, esc_char, is_quote, cSQ, cDQ, cESC, tret.
  destruct (c =? 34), (c =? 39); cbn [orb tbind]; rewrite <- ?app_assoc; reflexivity.
Qed.

Lemma g_stringify_element_loop_eq (s : pystr) : forall acc,
  tfold g_stringify_element_step s acc = TDone (acc ++ flat_map esc_char s).
Proof.
  induction s as [|c s IH]; intros acc; cbn [tfold flat_map].
  - now rewrite app_nil_r.
  - rewrite g_stringify_element_step_eq. cbn [tbind]. rewrite IH. now rewrite <- app_assoc.
Qed.

Theorem g_stringify_element_eq (param : pystr) (qs : quote_fmt) :
  g_stringify_element param qs = TDone (stringify_element param qs).
Proof.
  unfold g_stringify_element, stringify_element. cbv zeta. unfold tret.
  change 39 with cSQ. change 34 with cDQ.
  rewrite g_stringify_element_loop_eq.
  destruct (has_char cSQ param), (has_char cDQ param), qs as [[a b]|]; cbn [andb negb opt_truthy tbind fmt_format fmt_apply fst snd app];
    reflexivity.
Qed.

(* stringify_path's element printer with the generated stringify_element in it prints a reported path's keys as reported *)
Theorem G_stringify_element_QS_is_render_key (s : pystr) :
  tbind (g_stringify_element s QS) (fun t => tret ([cLB] ++ t ++ [cRB])) = TDone (render_key (PKey (AStr s))).
Proof. rewrite g_stringify_element_eq. reflexivity. Qed.


(* ------------------------------------------------------------------------------------------------ *)
(** The same generated text with the total model of literal_eval: V = pval, VStr = PvStr, LE = LEx
    (PathXModel.leval); equal to the extended parser [elementsx] of Path/PathXModel.v. *)
Definition LEx (e : pystr) : leres pval :=
  match leval e with LxOk v => LeOk v | LxFail => LeCaught | LxRaise => LeRaises | LxUnsup => LeUnsup end.
Definition tout_of_xout {A} (x : xout A) : tout A :=
  match x with XDone a => TDone a | XRaises => TRaises | XUnsup => TUnsup end.

Theorem gx__add_to_elements_eq (els : list xelement) (elem : pystr) (inside : option pystr) :
  g__add_to_elements pval PvStr LEx els elem inside = tout_of_xout (add_to_elements_x els elem (abs_inside inside)).
Proof.
  unfold g__add_to_elements, add_to_elements_x.
  destruct elem as [|c r]; [reflexivity|].
  cbn [seq_truthy negb]. unfold str_startswith.
  change [95; 95] with [cUS; cUS].
  destruct (is_prefix [cUS; cUS] (c :: r)); [reflexivity|].
  cbn [negb].
  assert (HA : (if optstr_eqb inside [46] then GETATTR else GET) = match abs_inside inside with IDot => GETATTR | _ => GET end).
  { unfold abs_inside. destruct (optstr_eqb inside [46]); [reflexivity|]. now destruct (optstr_eqb inside [91]). }
  change 119232 with cESC. change 92 with cBS.
  destruct (has_char cESC (c :: r) || has_char cBS (c :: r)).
  - unfold tret, tand. cbn [tbind dyn_get dyn_slice]. rewrite str_get_0, str_get_m1. cbn [tbind].
    rewrite seq_slice_1_m1. rewrite <- HA. rewrite <- strip_outer_eq.
    destruct (c =? last (c :: r) 0); [destruct ((c =? 34) || (c =? 39))|]; reflexivity.
  - unfold LEx. destruct (leval (c :: r)) as [a| | |]; unfold tret, tand; cbn [tbind].
    + rewrite <- HA. reflexivity.
    + cbn [dyn_get dyn_slice]. rewrite str_get_0, str_get_m1. cbn [tbind].
      rewrite seq_slice_1_m1. rewrite <- HA. rewrite <- strip_outer_eq.
      destruct (c =? last (c :: r) 0); [destruct ((c =? 34) || (c =? 39))|]; reflexivity.
    + reflexivity.
    + reflexivity.
Qed.

Definition absx (g : gstate pval) : xst :=
  let '(els, elem, inside, prev, br, inq, q) := g in
  mk_xst els elem (abs_inside inside) prev (List.length br) inq (abs_quote q) O.

Ltac addcasex :=
  match goal with
  | |- context [add_to_elements_x ?a ?b ?c] => destruct (add_to_elements_x a b c)
  end.

Lemma gx_step_sim (g : gstate pval) (c : N) : inv g ->
  match g__parse_path_to_elements_step pval PvStr LEx g c with
  | TDone g' => inv g' /\ stepx (absx g) c = absx g'
  | TRaises => x_flag (stepx (absx g) c) = 1%nat
  | TUnsup => x_flag (stepx (absx g) c) = 2%nat
  end.
Proof.
  destruct g as [[[[[[els elem] inside] prev] br] inq] q]. intros [HB HQ].
  unfold g__parse_path_to_elements_step, stepx, absx, with_add_x.
  rewrite !gx__add_to_elements_eq.
  change (optchr_eqb prev 119232) with (opt_is prev cESC).
  destruct (opt_is prev cESC).
  { cbn. auto. }
  unfold is_quote, cSQ, cDQ, cLB, cRB, cDOT.
  rewrite (quote_ne q c HQ).
  destruct (c =? 34) eqn:E34.
  { cbn [orb]. rewrite orb_true_r.
    destruct inq; cbn [andb negb].
    - destruct (opt_is (abs_quote q) c); cbn [negb].
      + unfold tret; cbn [tbind]. addcasex; cbn; auto.
      + cbn. auto.
    - cbn. repeat split; auto. }
  destruct (c =? 39) eqn:E39.
  { cbn [orb].
    destruct inq; cbn [andb negb].
    - destruct (opt_is (abs_quote q) c); cbn [negb].
      + unfold tret; cbn [tbind]. addcasex; cbn; auto.
      + cbn. auto.
    - cbn. repeat split; auto. }
  cbn [orb].
  destruct inq.
  { cbn. auto. }
  destruct (c =? 91).
  { destruct (optstr_eqb inside [46]) eqn:ED.
    - rewrite (abs_inside_dot _ ED). unfold tret; cbn [tbind]. addcasex; cbn; auto.
    - destruct (optstr_eqb inside [91]) eqn:EB.
      + pose proof (abs_inside_br _ ED EB) as HI. rewrite HI. cbn. rewrite HI. auto.
      + rewrite (abs_inside_none _ ED EB). cbn. rewrite app_length. cbn.
        split; [split; [apply Forall_app; split; [exact HB|repeat constructor]|exact HQ]|].
        f_equal. lia. }
  destruct (c =? 46).
  { destruct (optstr_eqb inside [91]) eqn:EB.
    - pose proof (abs_inside_br' _ EB) as HI. rewrite HI. cbn. rewrite HI. auto.
    - destruct (optstr_eqb inside [46]) eqn:ED.
      + pose proof (abs_inside_dot _ ED) as HI. rewrite HI. unfold tret; cbn [tbind]. addcasex; cbn; rewrite ?HI; auto.
      + rewrite (abs_inside_none _ ED EB). cbn. auto. }
  destruct (c =? 93).
  { rewrite (brackets_top br HB).
    destruct br as [|b [|b2 br]].
    - cbn [seq_truthy tbind List.length Nat.pred]. unfold tret; cbn [tbind]. addcasex; cbn; auto.
    - cbn [seq_truthy tbind lst_pop removelast List.length Nat.pred]. unfold tret; cbn [tbind seq_truthy].
      addcasex; cbn; auto. split; auto. split; [constructor|exact HQ].
    - cbn [seq_truthy tbind lst_pop List.length Nat.pred]. unfold tret; cbn [tbind].
      change (removelast (b :: b2 :: br)) with (b :: removelast (b2 :: br)). cbn [seq_truthy tbind].
      split; [split; [exact (Forall_removelast _ _ HB)|exact HQ]|].
      cbn [List.length]. rewrite removelast_length. reflexivity. }
  cbn. auto.
Qed.

(* the extended parser: once an exception went through / the model was left, the flag stays *)
Lemma stepx_flag (st : xst) (c : N) (n : nat) : x_flag st = S n -> x_flag (stepx st c) = S n.
Proof.
  destruct st as [els elem inside prev br inq quote flag]. cbn [x_flag]. intros ->.
  unfold stepx, with_add_x.
  repeat match goal with
  | |- context [if ?b then _ else _] => destruct b
  | |- context [match ?i with INone => _ | IBr => _ | IDot => _ end] => destruct i
  | |- context [match Nat.pred ?n with O => _ | S _ => _ end] => destruct (Nat.pred n)
  end; reflexivity.
Qed.
Lemma runx_flag (s : pystr) : forall st n, x_flag st = S n -> x_flag (runx st s) = S n.
Proof.
  induction s as [|c s IH]; intros st n H; [exact H|].
  change (runx st (c :: s)) with (runx (stepx st c) s). apply IH. now apply stepx_flag.
Qed.
Lemma finishx_flag (st : xst) (n : nat) : x_flag st = S n ->
  finishx st = match n with O => XRaises | S _ => XUnsup end.
Proof. intros H. unfold finishx, with_add_x. rewrite H. now destruct n. Qed.

Lemma gx_run_sim (s : pystr) : forall g : gstate pval, inv g ->
  match tfold (g__parse_path_to_elements_step pval PvStr LEx) s g with
  | TDone g' => inv g' /\ runx (absx g) s = absx g'
  | TRaises => x_flag (runx (absx g) s) = 1%nat
  | TUnsup => x_flag (runx (absx g) s) = 2%nat
  end.
Proof.
  induction s as [|c s IH]; intros g HI.
  - cbn. auto.
  - cbn [tfold]. change (runx (absx g) (c :: s)) with (runx (stepx (absx g) c) s).
    pose proof (gx_step_sim g c HI) as HS.
    destruct (g__parse_path_to_elements_step pval PvStr LEx g c) as [g'| |]; cbn [tbind].
    + destruct HS as [HI' ->]. apply IH. exact HI'.
    + now apply runx_flag.
    + now apply runx_flag.
Qed.

(* _path_to_elements(path, root_element=None) over every literal *)
Theorem gx_parse_eq (p : pystr) :
  g__parse_path_to_elements pval PvStr LEx p None = tout_of_xout (elementsx p).
Proof.
  unfold g__parse_path_to_elements, elementsx.
  rewrite seq_slice_4. cbv zeta. cbn [opt_truthy]. unfold tret. cbn [tbind].
  match goal with |- tbind (tfold ?F ?S ?G) _ = _ =>
    pose proof (gx_run_sim S G (conj (Forall_nil _) (Nat.le_0_l 1))) as HR;
    change (absx G) with init_xst in HR;
    destruct (tfold F S G) as [[[[[[[els elem] inside] prev] br] inq] q]| |]; cbn [tbind]; cbv beta iota
  end.
  - destruct HR as [_ HR]. rewrite HR. unfold finishx, absx, with_add_x. cbn [x_els x_elem x_inside x_flag].
    destruct elem as [|n elem]; [reflexivity|]. cbn [seq_truthy]. rewrite gx__add_to_elements_eq.
    now destruct (add_to_elements_x els (n :: elem) (abs_inside inside)).
  - now rewrite (finishx_flag _ _ HR).
  - now rewrite (finishx_flag _ _ HR).
Qed.

Theorem G_C09_all_keys_elements_partial :
  forall ks : list xkey, xpath_ok ks = true ->
    exists p, renderx ks = Some (Some p) /\ g__parse_path_to_elements pval PvStr LEx p None = TDone (xels_of ks).
Proof.
  intros ks H. destruct (C09_all_keys_elements_partial ks H) as [p [H1 H2]]. exists p. split; [exact H1|].
  rewrite gx_parse_eq, H2. reflexivity.
Qed.

Theorem G_C09_all_keys_stringify_inverts_partial :
  forall ks : list xkey, xpath_ok ks = true ->
    exists p, renderx ks = Some (Some p) /\ g__parse_path_to_elements pval PvStr LEx p None = TDone (xels_of ks)
              /\ stringify_xels (xels_of ks) = Some p.
Proof.
  intros ks H. destruct (C09_all_keys_stringify_inverts_partial ks H) as [p [H1 [H2 H3]]]. exists p.
  split; [exact H1|]. split; [|exact H3]. rewrite gx_parse_eq, H2. reflexivity.
Qed.

(* Print Assumptions walks the whole dependency cone (about 1 s per command): the final statements are collected in
   two tuples of proofs, whose assumptions are the union of the assumptions of their components. *)
Definition PathGen_equalities := (g_GET_eq,
  g_GETATTR_eq,
  g_DEFAULT_FIRST_ELEMENT_eq,
  g__parse_path_to_elements_default_root_element_eq,
  g__add_to_elements_eq,
  g__parse_path_to_elements_eq,
  g_parse_eq,
  g_elements_eq,
  g_parse_parse_eq,
  g_extract_eq,
  g_stringify_element_eq,
  gx__add_to_elements_eq,
  gx_parse_eq).
Definition PathGen_transfer := (G_root_element_prepended,
  G_C09_elements_partial,
  G_C09_parse_render_partial,
  G_C09_parse_render_refuted_both_quotes,
  G_C09_parse_render_refuted_escape_char,
  G_C09_extract_partial,
  G_C09_extract_nest_partial,
  G_C09_stringify_inverts_elements_partial,
  G_C09_stringify_inverts_parse_partial,
  G_C09_parse_stringify_partial,
  G_C09_guard_necessary_escape_char,
  G_C09_guard_necessary_both_quotes,
  G_C09_guard_exact_no_escape_char,
  G_C09_objects_elements_partial,
  G_stringify_element_QS_is_render_key,
  G_C09_all_keys_elements_partial,
  G_C09_all_keys_stringify_inverts_partial).
Print Assumptions PathGen_equalities.
Print Assumptions PathGen_transfer.

(** C19 source tie: the definitions that harness/translate/distance.py regenerates from the CURRENT
    deepdiff/distance.py (DDGen.DistGen, compiled in the run's scratch directory) are equal, for all
    arguments, to the hand-written model of Dist/DistModel.v; the range theorems of Properties/C19.v
    therefore hold of the generated kernels.

    use_log_scale: the hand model covers use_log_scale = False (the default; math.log is not available on
    Coq's primitive floats).  The generated definitions keep the parameter and the branch (over the
    uninterpreted functions logd / nplog); the equalities are stated at use_log_scale = false, for every
    logd / nplog. *)
From Coq Require Import List ZArith NArith Bool Lia PrimFloat.
Import ListNotations.
From DD Require Import Base.Value Dist.DistModel Dist.DistSrcPrims Dist.DistProofs Dist.DistSubProofs Dist.DistScalarProofs.
From DDGen Require Import DistGen.
Local Open Scope float_scope.

(* ===================================================================== *)
(** * 1. generated definition = hand-written definition                   *)
(* ===================================================================== *)

(* case analysis on every test the two sides make, innermost scrutinee first, in whatever order the statements come
   (so that reordering independent statements, `if not c: B else: A`, an inlined or a renamed temporary leave the
   proofs below intact) *)
Ltac tie_step :=
  match goal with
  | |- context [negb ?c] => destruct c eqn:?
  | |- context [if ?c then _ else _] =>
      lazymatch c with
      | context [if _ then _ else _] => fail
      | context [match _ with _ => _ end] => fail
      | _ => destruct c eqn:?
      end
  | |- context [match ?c with Some _ => _ | None => _ end] =>
      lazymatch c with
      | context [if _ then _ else _] => fail
      | context [match _ with _ => _ end] => fail
      | _ => destruct c eqn:?
      end
  end.
Ltac tie_cases := cbv zeta; repeat (cbn [negb andb orb]; try reflexivity; tie_step); try reflexivity.

(* R4: under the isinstance test, float(x) or the float itself - to_float is the identity on floats *)
Lemma coerce_float : forall a, (if negb (py_is_float a) then to_float a else py_the_float a) = to_float a.
Proof. intros a. destruct a; reflexivity. Qed.

(** ** the defaults of the signatures *)
Theorem g__get_numbers_distance_defaults_eq :
  g__get_numbers_distance_default_arg2 = 1 /\ g__get_numbers_distance_default_arg3 = false /\
  g__get_numbers_distance_default_arg4 = 0x1.999999999999ap-4.
Proof. repeat split; reflexivity. Qed.
Print Assumptions g__get_numbers_distance_defaults_eq.

Theorem g__get_numpy_array_distance_defaults_eq :
  g__numpy_div_default_arg2 = 1 /\ g__get_numpy_array_distance_default_arg2 = 1 /\
  g__get_numpy_array_distance_default_arg3 = false /\ g__get_numpy_array_distance_default_arg4 = 0x1.999999999999ap-4.
Proof. repeat split; reflexivity. Qed.
Print Assumptions g__get_numpy_array_distance_defaults_eq.

Theorem g_get_numeric_types_distance_defaults_eq :
  g_get_numeric_types_distance_default_arg3 = false /\ g_get_numeric_types_distance_default_arg4 = 0x1.999999999999ap-4.
Proof. repeat split; reflexivity. Qed.
Print Assumptions g_get_numeric_types_distance_defaults_eq.

(** ** _get_numbers_distance *)
Theorem g__get_numbers_distance_eq : forall logd a b mx thr,
  g__get_numbers_distance logd a b mx false thr = numbers_distance a b mx.
Proof.
  intros logd a b mx thr. unfold g__get_numbers_distance, numbers_distance.
  rewrite !coerce_float. tie_cases.
Qed.
Print Assumptions g__get_numbers_distance_eq.

(* the log-scale branch, as far as it can be stated without a logarithm: the distance of the oracle, negative values
   replaced by the int 0 - and NOT clamped to max_ (finding K25) *)
Theorem g__get_numbers_distance_log_scale : forall logd a b mx thr,
  g__get_numbers_distance logd a b mx true thr =
  if pynum_eq a b then DInt0 else if logd a b <? 0 then DInt0 else DVal (logd a b).
Proof. intros. reflexivity. Qed.
Print Assumptions g__get_numbers_distance_log_scale.

(** ** _numpy_div and _get_numpy_array_distance, element-wise *)
Theorem g__numpy_div_eq : forall a b r,
  g__numpy_div a b r = if a =? b then 0 else if b =? 0 then r else a / b.
Proof. intros a b r. unfold g__numpy_div. tie_cases. Qed.
Print Assumptions g__numpy_div_eq.

Theorem g__get_numpy_array_distance_eq : forall nplog x y mx thr,
  g__get_numpy_array_distance nplog x y mx false thr = numbers_distance_np x y mx.
Proof.
  intros nplog x y mx thr. unfold g__get_numpy_array_distance, numbers_distance_np. cbv zeta.
  rewrite g__numpy_div_eq. tie_cases.
Qed.
Print Assumptions g__get_numpy_array_distance_eq.

(** ** the date / time front ends (the hand model inlines them into numeric_types_distance) *)
Theorem g__get_datetime_distance_eq : forall logd o1 t1 o2 t2 mx u thr,
  g__get_datetime_distance logd (SDateTime o1 t1) (SDateTime o2 t2) mx u thr =
  numbers_distance (PFloat (ts_float t1)) (PFloat (ts_float t2)) mx.
Proof. intros. unfold g__get_datetime_distance. cbn [py_timestamp]. apply g__get_numbers_distance_eq. Qed.
Print Assumptions g__get_datetime_distance_eq.

Theorem g__get_date_distance_eq : forall logd s1 s2 o1 o2 mx u thr,
  date_ordinal s1 = Some o1 -> date_ordinal s2 = Some o2 ->
  g__get_date_distance logd s1 s2 mx u thr = numbers_distance (PInt o1) (PInt o2) mx.
Proof.
  intros logd s1 s2 o1 o2 mx u thr H1 H2. unfold g__get_date_distance, py_toordinal. rewrite H1, H2.
  apply g__get_numbers_distance_eq.
Qed.
Print Assumptions g__get_date_distance_eq.

Theorem g__get_timedelta_distance_eq : forall logd u1 u2 mx u thr,
  g__get_timedelta_distance logd (STimedelta u1) (STimedelta u2) mx u thr =
  numbers_distance (PFloat (FloatOps.SF2Prim (sf_div_Z u1 million))) (PFloat (FloatOps.SF2Prim (sf_div_Z u2 million))) mx.
Proof. intros. unfold g__get_timedelta_distance. cbn [py_total_seconds]. apply g__get_numbers_distance_eq. Qed.
Print Assumptions g__get_timedelta_distance_eq.

Theorem g__get_time_distance_eq : forall logd h1 m1 c1 u1 h2 m2 c2 u2 mx u thr,
  g__get_time_distance logd (STime h1 m1 c1 u1) (STime h2 m2 c2 u2) mx u thr =
  numbers_distance (time_seconds h1 m1 c1 u1) (time_seconds h2 m2 c2 u2) mx.
Proof. intros. unfold g__get_time_distance. cbn [py_time_to_seconds]. apply g__get_numbers_distance_eq. Qed.
Print Assumptions g__get_time_distance_eq.

(** ** TYPES_TO_DIST_FUNC and get_numeric_types_distance *)
Theorem g_TYPES_TO_DIST_FUNC_eq : forall logd,
  map fst (g_TYPES_TO_DIST_FUNC logd) = [TOnlyNumbers; TDatetime; TDate; TTimedelta; TTime].
Proof. intros. reflexivity. Qed.
Print Assumptions g_TYPES_TO_DIST_FUNC_eq.

Theorem g_get_numeric_types_distance_eq : forall logd s1 s2 mx thr,
  g_get_numeric_types_distance logd s1 s2 mx false thr = numeric_types_distance s1 s2 mx.
Proof.
  intros logd s1 s2 mx thr.
  unfold g_get_numeric_types_distance, g_TYPES_TO_DIST_FUNC, numeric_types_distance.
  destruct s1, s2; cbn [g_get_numeric_types_distance_loop py_isinstance andb lift_num date_ordinal];
    try reflexivity;
    first [ rewrite g__get_numbers_distance_eq; reflexivity
          | rewrite g__get_datetime_distance_eq; reflexivity
          | erewrite g__get_date_distance_eq by reflexivity; reflexivity
          | rewrite g__get_timedelta_distance_eq; reflexivity
          | rewrite g__get_time_distance_eq; reflexivity ].
Qed.
Print Assumptions g_get_numeric_types_distance_eq.

(** ** DistanceMixin._get_rough_distance *)
Theorem g__get_rough_distance_eq : forall logd self,
  self_use_log_scale self = false ->
  g__get_rough_distance logd self =
  rough_distance (self_t1 self) (self_t2 self) (self_cutoff_distance_for_pairs self) (self_delta_view self).
Proof.
  intros logd [r1 r2 c u thr d] H. cbn in H. subst u.
  unfold g__get_rough_distance, rough_distance, root_numeric, call_on_roots.
  cbn [self_t1 self_t2 self_cutoff_distance_for_pairs self_use_log_scale self_log_scale_similarity_threshold self_delta_view].
  assert (E : (match root_scalar r1, root_scalar r2 with
               | Some s1, Some s2 => g_get_numeric_types_distance logd s1 s2 c false thr
               | _, _ => None end) =
              (match root_scalar r1, root_scalar r2 with
               | Some s1, Some s2 => numeric_types_distance s1 s2 c
               | _, _ => None end)).
  { destruct (root_scalar r1); [|reflexivity]. destruct (root_scalar r2); [|reflexivity].
    apply g_get_numeric_types_distance_eq. }
  rewrite E. clear E.
  destruct (match root_scalar r1 with Some s1 => _ | None => None end); [reflexivity|].
  cbv zeta. destruct (item_length d) as [[|n]|e]; try reflexivity.
  cbn [Nat.eqb]. pose proof (root_count_pos r1) as P1.
  destruct (Nat.add (root_count r1) (root_count r2)) eqn:E; [exfalso; change Nat.add with plus in E; lia|].
  reflexivity.
Qed.
Print Assumptions g__get_rough_distance_eq.

(* ===================================================================== *)
(** * 2. transfer: the theorems of Properties/C19.v about the generated kernels *)
(* ===================================================================== *)

(* C19_numbers_range *)
Theorem G_numbers_range : forall logd a b mx thr v,
  (0 <=? mx) = true ->
  dres_value (g__get_numbers_distance logd a b mx false thr) = Some v ->
  (0 <=? v) = true /\ (v <=? mx) = true.
Proof. intros logd a b mx thr v. rewrite g__get_numbers_distance_eq. apply numbers_range. Qed.
Print Assumptions G_numbers_range.

(* C19_numbers_total_partial *)
Theorem G_numbers_total_partial : forall logd a b mx thr,
  (0 <=? mx) = true ->
  (conv_ok a && conv_ok b && negb (mx =? 0))%bool = true ->
  exists v, dres_value (g__get_numbers_distance logd a b mx false thr) = Some v /\ in_range mx v.
Proof. intros logd a b mx thr. rewrite g__get_numbers_distance_eq. apply numbers_total_partial. Qed.
Print Assumptions G_numbers_total_partial.

(* C19_numbers_error_iff *)
Theorem G_numbers_error_iff : forall logd a b mx thr e,
  g__get_numbers_distance logd a b mx false thr = DErr e <->
  pynum_eq a b = false /\
  ((e = EOverflow /\ (conv_ok a && conv_ok b = false)%bool) \/
   (e = EZeroDiv /\ (conv_ok a && conv_ok b = true)%bool /\ (mx =? 0) = true)).
Proof. intros logd a b mx thr e. rewrite g__get_numbers_distance_eq. apply numbers_error_iff. Qed.
Print Assumptions G_numbers_error_iff.

(* C19_numbers_zero_of_equal *)
Theorem G_numbers_zero_of_equal : forall logd a b mx thr,
  pynum_eq a b = true -> g__get_numbers_distance logd a b mx false thr = DInt0.
Proof. intros logd a b mx thr. rewrite g__get_numbers_distance_eq. apply numbers_zero_of_equal. Qed.
Print Assumptions G_numbers_zero_of_equal.

(* C19_numbers_zero_partial *)
Theorem G_numbers_zero_partial : forall logd a b mx thr x y v,
  pynum_eq a b = false ->
  to_float a = Some x -> to_float b = Some y ->
  zero_guard x y mx = true ->
  g__get_numbers_distance logd a b mx false thr = DVal v -> (v =? 0) = false.
Proof. intros logd a b mx thr x y v. rewrite g__get_numbers_distance_eq. apply numbers_zero_guarded. Qed.
Print Assumptions G_numbers_zero_partial.

(* C19_numbers_zero_partial_inputs *)
Theorem G_numbers_zero_partial_inputs : forall logd a b mx thr x y v,
  pynum_eq a b = false ->
  to_float a = Some x -> to_float b = Some y ->
  zero_guard_in x y mx = true ->
  g__get_numbers_distance logd a b mx false thr = DVal v -> (v =? 0) = false.
Proof. intros logd a b mx thr x y v. rewrite g__get_numbers_distance_eq. apply numbers_zero_guarded_inputs. Qed.
Print Assumptions G_numbers_zero_partial_inputs.

(* C19_numbers_np_range *)
Theorem G_numbers_np_range : forall nplog x y mx thr, (0 <=? mx) = true ->
  is_nan (g__get_numpy_array_distance nplog x y mx false thr) = true \/
  ((0 <=? g__get_numpy_array_distance nplog x y mx false thr) = true /\
   (g__get_numpy_array_distance nplog x y mx false thr <=? mx) = true).
Proof. intros nplog x y mx thr. rewrite g__get_numpy_array_distance_eq. apply numbers_np_range. Qed.
Print Assumptions G_numbers_np_range.

(* the range of get_numeric_types_distance on every pair of scalars (what C19_rough_numeric_range rests on) *)
Theorem G_numeric_types_range : forall logd s1 s2 mx thr d v,
  (0 <=? mx) = true ->
  g_get_numeric_types_distance logd s1 s2 mx false thr = Some d -> dres_value d = Some v -> in_range mx v.
Proof.
  intros logd s1 s2 mx thr d v Hm. rewrite g_get_numeric_types_distance_eq. intros Hd Hv.
  apply (rough_numeric_range (RScalar s1) (RScalar s2) mx d v Hm); [exact Hd | exact Hv].
Qed.
Print Assumptions G_numeric_types_range.

(* the result of the generated _get_rough_distance, case by case *)
Definition numeric_part (logd : pynum -> pynum -> float) (self : dself) : option dres :=
  call_on_roots (fun s1 s2 => g_get_numeric_types_distance logd s1 s2 (self_cutoff_distance_for_pairs self)
                                (self_use_log_scale self) (self_log_scale_similarity_threshold self))
                (self_t1 self) (self_t2 self).

Lemma numeric_part_eq : forall logd self, self_use_log_scale self = false ->
  numeric_part logd self = root_numeric (self_t1 self) (self_t2 self) (self_cutoff_distance_for_pairs self).
Proof.
  intros logd self H. unfold numeric_part, call_on_roots, root_numeric. rewrite H.
  destruct (root_scalar (self_t1 self)); [|reflexivity]. destruct (root_scalar (self_t2 self)); [|reflexivity].
  apply g_get_numeric_types_distance_eq.
Qed.

(* C19_rough_numeric_range / C19_rough_numeric_unit *)
Theorem G_rough_numeric_range : forall logd self d v,
  self_use_log_scale self = false ->
  (0 <=? self_cutoff_distance_for_pairs self) = true ->
  g__get_rough_distance logd self = RDist d -> dres_value d = Some v ->
  in_range (self_cutoff_distance_for_pairs self) v.
Proof.
  intros logd self d v H Hc. rewrite (g__get_rough_distance_eq logd self H). unfold rough_distance.
  destruct (root_numeric (self_t1 self) (self_t2 self) (self_cutoff_distance_for_pairs self)) as [d'|] eqn:E.
  - intros [= <-] Hv. eapply rough_numeric_range; eassumption.
  - destruct (item_length (self_delta_view self)) as [[|n]|e]; discriminate.
Qed.
Print Assumptions G_rough_numeric_range.

Theorem G_rough_numeric_unit : forall logd self d v,
  self_use_log_scale self = false ->
  (0 <=? self_cutoff_distance_for_pairs self) = true -> (self_cutoff_distance_for_pairs self <=? 1) = true ->
  g__get_rough_distance logd self = RDist d -> dres_value d = Some v -> in_range 1 v.
Proof.
  intros logd self d v H H0 H1 Hd Hv.
  destruct (G_rough_numeric_range logd self d v H H0 Hd Hv) as [A B].
  split; [assumption | eapply leb_trans; eassumption].
Qed.
Print Assumptions G_rough_numeric_unit.

(* C19_rough_positive *)
Theorem G_rough_positive : forall logd self n m,
  self_use_log_scale self = false ->
  g__get_rough_distance logd self = RFrac n m -> 0 < n /\ 2 <= m.
Proof. intros logd self n m H. rewrite (g__get_rough_distance_eq logd self H). apply rough_frac_positive. Qed.
Print Assumptions G_rough_positive.

(* C19_rough_zero_iff_no_ops *)
Theorem G_rough_zero_iff_no_ops : forall logd self,
  self_use_log_scale self = false ->
  numeric_part logd self = None ->
  (g__get_rough_distance logd self = RInt0 <-> item_length (self_delta_view self) = LOk 0).
Proof.
  intros logd self H Hn. rewrite (g__get_rough_distance_eq logd self H). apply rough_zero_iff_no_ops.
  rewrite <- (numeric_part_eq logd self H). exact Hn.
Qed.
Print Assumptions G_rough_zero_iff_no_ops.

(* C19_rough_range_partial: the generated _get_rough_distance on a delta that sits at disjoint positions of t1 / t2 *)
Theorem G_rough_range_partial : forall logd t1 t2 sd cutoff thr n m,
  sd_valid sd = true -> tc_guard t1 t2 sd = true ->
  g__get_rough_distance logd (mk_dself (RVal t1) (RVal t2) cutoff false thr (dv_of_sdelta t1 t2 sd)) = RFrac n m ->
  0 < n /\ n <= m.
Proof.
  intros logd t1 t2 sd cutoff thr n m V G. rewrite g__get_rough_distance_eq by reflexivity.
  cbn [self_t1 self_t2 self_cutoff_distance_for_pairs self_delta_view]. apply rough_range_partial; assumption.
Qed.
Print Assumptions G_rough_range_partial.

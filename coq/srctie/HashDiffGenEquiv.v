(** Source tie `hashparams` of C12: the definitions GENERATED from /repo's current deepdiff/diff.py, deephash.py,
    base.py (DDGen.HashDiffGen, regenerated on every run by harness/translate/hashparams.py) equal the hand-written
    model, for all arguments; then the main theorems of Properties/C12.v restated about the generated definitions.

    g_*_eq theorems (pointwise; no functional extensionality)
      g_DEEPHASH_PARAM_KEYS_eq                 the forwarded names are the ones the hand models assume
      g_DEFAULT_SIGNIFICANT_DIGITS_eq, g_get_significant_digits_eq, g_get_significant_digits_eff_sig
      g__get_deephash_params_eq                dict comprehension over the keys + ignore_repetition = not report_repetition
                                               + number_to_string_func
      g_DeepHash___init___eq                   every modelled option is read from the keyword of its own name, default of the
                                               signature otherwise; a foreign keyword raises
      g_deephash_params_eq                     THE FORWARDING: DeepDiff.__init__ -> _parameters -> _get_deephash_params ->
                                               DeepHash(item, hashes=, parent=, apply_hash=True, ** deephash_parameters) -> DeepHash.__init__
                                               = hoptsF (with the digits made effective), for every F, priv, rep
      g__add_hash_eq, g__create_hashtable_eq, g__create_hashtable_table
      g__diff_iterable_with_deephash_eq        t1_hashes / t2_hashes / hashes_added / hashes_removed = t1h / t2h / addedF /
                                               removedF of HashDiffModel; the (reduced) hashtables hold indexes_of / first item
    transfer corollaries
      g_hash_pure_eq, g_C12_hash_iff_diff_partial, g_C12_verdict_iff_hash_partial,
      g_C12_hash_iff_diff_simple_guard_partial, g_C12_deephash_iff_diff_partial, g_C12_iterable_prefix *)
From Coq Require Import List NArith Bool String Arith Lia.
Import ListNotations.
From DD Require Import Base.PyStr Base.Value Diff.Tree Diff.DiffModel Hash.HashModel Hash.Equiv Hash.HashProofsBase
  Hash.HashProofsC07 DiffIO.DiffIOModel DiffIO.DiffIOProofs Options.OptModel
  HashDiff.HashDiffModel HashDiff.HashDiffProofsInv HashDiff.HashDiffProofsLift HashDiff.HashDiffProofsKeys
  HashDiff.HashDiffSrcPrims HashDiff.HashDiffSrcSpec.
From DDGen Require Import HashDiffGen.

(* ------------------------------------------------------------------------- *)
(** * The option forwarding *)

Theorem g_DEEPHASH_PARAM_KEYS_eq : g_DEEPHASH_PARAM_KEYS = forwarded_keys.
Proof. reflexivity. Qed.
Print Assumptions g_DEEPHASH_PARAM_KEYS_eq.

Theorem g_DEFAULT_SIGNIFICANT_DIGITS_eq : g_DEFAULT_SIGNIFICANT_DIGITS_WHEN_IGNORE_NUMERIC_TYPES = PN 12.
Proof. reflexivity. Qed.
Print Assumptions g_DEFAULT_SIGNIFICANT_DIGITS_eq.

Theorem g_get_significant_digits_eq :
  forall sd numty, g_get_significant_digits sd numty = get_significant_digits_spec sd numty.
Proof.
  intros sd numty. unfold g_get_significant_digits, get_significant_digits_spec.
  destruct (truthy (p_and (p_is_not sd PNone) (p_lt sd (PN 0)))); [reflexivity|].
  destruct (truthy (p_is sd PNone)); [|reflexivity]. destruct (truthy numty); reflexivity.
Qed.
Print Assumptions g_get_significant_digits_eq.

(* ... which on the values the hand model passes is OptModel.eff_sig *)
Theorem g_get_significant_digits_eff_sig :
  forall c s n d e x, g_get_significant_digits (digits_pv d) (PB n) = digits_pv (eff_sig (mkOpts c s n d e x)).
Proof. intros c s n [[|p]|] e x; destruct n; reflexivity. Qed.
Print Assumptions g_get_significant_digits_eff_sig.

Theorem g__get_deephash_params_eq : forall self, g__get_deephash_params self = get_deephash_params_spec self.
Proof. intros self. reflexivity. Qed.
Print Assumptions g__get_deephash_params_eq.

Theorem g_DeepHash___init___eq :
  forall KW, pd_without KW deephash_init_params = [] ->
  hopts_of_self (g_DeepHash___init__ KW) = hopts_of_kwargs KW.
Proof.
  intros KW E. unfold g_DeepHash___init__. unfold deephash_init_params in E. rewrite E.
  unfold hopts_of_kwargs. rewrite g_get_significant_digits_eq. reflexivity.
Qed.
Print Assumptions g_DeepHash___init___eq.

(* a keyword that DeepHash.__init__ does not know makes it raise, as the code does *)
Theorem g_DeepHash___init___foreign_keyword :
  forall KW, pd_without KW deephash_init_params <> [] -> g_DeepHash___init__ KW = PRaise "ValueError".
Proof.
  intros KW E. unfold g_DeepHash___init__. unfold deephash_init_params in E.
  destruct (pd_without KW _) as [|kv r] eqn:W; [congruence|]. reflexivity.
Qed.
Print Assumptions g_DeepHash___init___foreign_keyword.

(* THE FORWARDING *)
Theorem g_deephash_params_eq :
  forall F priv rep, g_deephash_params (args_of F priv rep) = Some (hopts_eff (hoptsF F priv rep)).
Proof.
  intros [c s n [[|d]|] e x] priv rep; destruct c, s, n; vm_compute; reflexivity.
Qed.
Print Assumptions g_deephash_params_eq.

(* ------------------------------------------------------------------------- *)
(** * The hashtable *)

Theorem g__add_hash_eq : forall T h x i, g__add_hash T h x i = add_hash_spec T h x i.
Proof. intros. unfold g__add_hash, add_hash_spec. destruct (ht_has T h); reflexivity. Qed.
Print Assumptions g__add_hash_eq.

Theorem g__create_hashtable_eq :
  forall dh xs, g__create_hashtable dh xs = for_loop (enumerate xs) ([] : htable) (create_step_spec dh).
Proof.
  intros dh xs. unfold g__create_hashtable. apply for_loop_ext. intros T [i x].
  unfold create_step_spec. cbn [fst snd]. destruct (dh x) as [h| |e|e]; rewrite ?g__add_hash_eq; try reflexivity.
  all: repeat match goal with |- context [String.eqb ?e ?s] => destruct (String.eqb e s) end; reflexivity.
Qed.
Print Assumptions g__create_hashtable_eq.

(* with a hasher that succeeds on every item the generated loop builds the table of the hand model:
   keys = dedup of the item hashes, indexes = indexes_of, item = the first item carrying the hash *)
Theorem g__create_hashtable_table :
  forall hv xs, exists T, g__create_hashtable (fun v => HOk (hv v)) xs = Some T /\ table_spec hv xs T.
Proof.
  intros hv xs. rewrite g__create_hashtable_eq, create_step_spec_ok. apply create_loop_spec.
Qed.
Print Assumptions g__create_hashtable_table.

Lemma g__create_hashtable_ext dh dh' xs : (forall v, dh v = dh' v) -> g__create_hashtable dh xs = g__create_hashtable dh' xs.
Proof.
  intros E. rewrite !g__create_hashtable_eq. apply for_loop_ext. intros T ix. unfold create_step_spec. rewrite E. reflexivity.
Qed.

(* the part of _diff_iterable_with_deephash before the pairing heuristic, on the item hashes of the hand model *)
Theorem g__diff_iterable_with_deephash_eq :
  forall H c F rep xs ys, exists T1 T2 R1 R2,
  g__diff_iterable_with_deephash (fun v => HOk (hvF H c F rep v)) rep xs ys =
    Some (T1, T2, t1h H c F rep xs, t2h H c F rep ys, addedF H c F rep xs ys, removedF H c F rep xs ys, R1, R2) /\
  table_spec (hvF H c F rep) xs T1 /\ table_spec (hvF H c F rep) ys T2 /\
  (rep = true -> R1 = T1 /\ R2 = T2) /\
  (rep = false ->
     ht_keys R1 = removedF H c F rep xs ys /\ ht_keys R2 = addedF H c F rep xs ys /\
     (forall k, ht_find R1 k = if mem_h k (removedF H c F rep xs ys) then ht_find T1 k else None) /\
     (forall k, ht_find R2 k = if mem_h k (addedF H c F rep xs ys) then ht_find T2 k else None)).
Proof.
  intros H c F rep xs ys.
  destruct (g__create_hashtable_table (hvF H c F rep) xs) as [T1 [E1 S1]].
  destruct (g__create_hashtable_table (hvF H c F rep) ys) as [T2 [E2 S2]].
  pose proof S1 as [K1 _]. pose proof S2 as [K2 _].
  unfold g__diff_iterable_with_deephash. rewrite E1, E2. unfold SetOrdered. rewrite K1, K2.
  change (dedup (map (hvF H c F rep) xs)) with (t1h H c F rep xs).
  change (dedup (map (hvF H c F rep) ys)) with (t2h H c F rep ys).
  change (so_sub (t2h H c F rep ys) (t1h H c F rep xs)) with (addedF H c F rep xs ys).
  change (so_sub (t1h H c F rep xs) (t2h H c F rep ys)) with (removedF H c F rep xs ys).
  destruct rep.
  - exists T1, T2, T1, T2. split; [reflexivity|]. split; [exact S1|]. split; [exact S2|]. split; [intros _; split; reflexivity|discriminate].
  - eexists T1, T2, _, _. split; [reflexivity|]. split; [exact S1|]. split; [exact S2|]. split; [discriminate|].
    intros _. split; [|split; [|split]].
    + rewrite ht_keys_restrict, K1. apply (filter_mem_so_sub (t1h H c F false xs) (t2h H c F false ys)).
    + rewrite ht_keys_restrict, K2. apply (filter_mem_so_sub (t2h H c F false ys) (t1h H c F false xs)).
    + intros k. apply ht_find_restrict.
    + intros k. apply ht_find_restrict.
Qed.
Print Assumptions g__diff_iterable_with_deephash_eq.

(* ------------------------------------------------------------------------- *)
(** * Transfer: the theorems of Properties/C12.v about the generated definitions *)

(* the item hashes computed with the GENERATED option record are the item hashes of the hand model *)
Theorem g_hash_pure_eq :
  forall H F priv rep o, g_deephash_params (args_of F priv rep) = Some o ->
  forall v, hash_pure H o v = hash_pure H (hoptsF F priv rep) v.
Proof.
  intros H F priv rep o E v. rewrite g_deephash_params_eq in E. injection E as <-. apply hash_pure_eff.
Qed.
Print Assumptions g_hash_pure_eq.

Theorem g_C12_hash_iff_diff_partial :
  forall (H : pystr -> pystr),
  (forall s, sepfree (H s)) -> (forall s t, H s = H t -> s = t) -> (forall s, lower (H s) = H s) ->
  forall udiff c F rep pairs t1 t2 o,
  g_deephash_params (args_of F (DiffModel.ignore_private c) rep) = Some o ->
  shared F = true -> thr_num c <= thr_den c -> lift_guard c F rep t1 t2 = true ->
  (hash_pure H o t1 = hash_pure H o t2 <-> fst (run_diff_ioF H udiff c F rep pairs t1 t2) = []).
Proof.
  intros H H1 H2 H3 udiff c F rep pairs t1 t2 o E HF Ht G.
  rewrite !(g_hash_pure_eq H F _ rep o E). apply hash_iff_diff; assumption.
Qed.
Print Assumptions g_C12_hash_iff_diff_partial.

Theorem g_C12_hash_iff_diff_simple_guard_partial :
  forall (H : pystr -> pystr),
  (forall s, sepfree (H s)) -> (forall s t, H s = H t -> s = t) -> (forall s, lower (H s) = H s) ->
  forall udiff c F rep pairs t1 t2 o,
  g_deephash_params (args_of F (DiffModel.ignore_private c) rep) = Some o ->
  shared F = true -> thr_num c <= thr_den c -> lift_guardb c F rep t1 t2 = true ->
  (hash_pure H o t1 = hash_pure H o t2 <-> fst (run_diff_ioF H udiff c F rep pairs t1 t2) = []).
Proof.
  intros H H1 H2 H3 udiff c F rep pairs t1 t2 o E HF Ht G.
  rewrite !(g_hash_pure_eq H F _ rep o E). apply hash_iff_diff_b; assumption.
Qed.
Print Assumptions g_C12_hash_iff_diff_simple_guard_partial.

Theorem g_C12_verdict_iff_hash_partial :
  forall (H : pystr -> pystr),
  (forall s, sepfree (H s)) -> (forall s t, H s = H t -> s = t) -> (forall s, lower (H s) = H s) ->
  forall udiff c F rep pairs t1 t2 o,
  g_deephash_params (args_of F (DiffModel.ignore_private c) rep) = Some o ->
  shared F = true -> thr_num c <= thr_den c -> lift_guard c F rep t1 t2 = true ->
  (pystr_eqb (hash_pure H o t1) (hash_pure H o t2) = true <-> verdictF H udiff c F rep pairs t1 t2 = DEmpty).
Proof.
  intros H H1 H2 H3 udiff c F rep pairs t1 t2 o E HF Ht G.
  rewrite !(g_hash_pure_eq H F _ rep o E). apply (verdict_iff_hash H H1 H2 H3 udiff c F rep pairs t1 t2 HF Ht G).
Qed.
Print Assumptions g_C12_verdict_iff_hash_partial.

(* the part of the order-ignoring list diff before the pairing heuristic, run with the GENERATED table construction on item
   hashes computed with the GENERATED option record, yields the hash sets of the hand model's _diff_iterable_with_deephash *)
Theorem g_C12_iterable_prefix :
  forall H c F rep xs ys o,
  g_deephash_params (args_of F (DiffModel.ignore_private c) rep) = Some o ->
  exists T1 T2 R1 R2,
  g__diff_iterable_with_deephash (fun v => HOk (hash_pure H o v)) rep xs ys =
    Some (T1, T2, t1h H c F rep xs, t2h H c F rep ys, addedF H c F rep xs ys, removedF H c F rep xs ys, R1, R2) /\
  table_spec (hvF H c F rep) xs T1 /\ table_spec (hvF H c F rep) ys T2.
Proof.
  intros H c F rep xs ys o E.
  destruct (g__diff_iterable_with_deephash_eq H c F rep xs ys) as [T1 [T2 [R1 [R2 [Eq [S1 [S2 _]]]]]]].
  exists T1, T2, R1, R2. split; [|split; assumption]. rewrite <- Eq.
  unfold g__diff_iterable_with_deephash.
  rewrite (g__create_hashtable_ext _ (fun v => HOk (hvF H c F rep v)) xs), (g__create_hashtable_ext _ (fun v => HOk (hvF H c F rep v)) ys).
  - reflexivity.
  - intros v. unfold hvF, oF. rewrite (g_hash_pure_eq H F _ rep o E). reflexivity.
  - intros v. unfold hvF, oF. rewrite (g_hash_pure_eq H F _ rep o E). reflexivity.
Qed.
Print Assumptions g_C12_iterable_prefix.

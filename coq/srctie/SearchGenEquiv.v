(** Source tie of C16: the definitions GENERATED from /repo/deepdiff/search.py (DDGen.SearchGen) equal the
    hand-written model (DD.Search.SearchModel) for all arguments; transfer of the main theorems of
    Properties/C16.v to the generated definitions. *)
From Coq Require Import List ZArith NArith Bool Arith String Lia.
Import ListNotations.
From DD Require Import Base.PyStr Base.Value Search.SearchModel Search.SearchSpec Search.SearchProofs Search.SearchExtract Search.SearchStmt Search.SearchStmtFacts.
From DDGen Require Import SearchGen.

(* what __init__ guarantees about the item it passes to __search: a compiled pattern exactly when use_regexp is on,
   and [EVal] holds containers only (an atom item is [EAtom]) *)
Definition container_item (it : eitem) : bool := match it with EVal (VAtom _) => false | _ => true end.

Ltac case_ifs :=
  repeat match goal with
         | |- context [if ?b then _ else _] => destruct b eqn:?
         end.

Section Equiv.
  Variables (slower brepr : pystr -> pystr) (re_search excl_re : pystr -> bool) (re_ok : bool) (re_text : pystr).
  Variables (sa ba : list pystr) (c : config) (vl : Z) (cs : bool).
  Local Notation o := (mkOracles slower brepr re_search re_ok excl_re re_text sa ba).
  Local Notation E := (map (ev_op brepr vl)).

  Theorem g_report_eq : forall rk k v, g_report o c vl cs rk k v = [report_op vl rk k v].
  Proof. intros rk k v. unfold g_report, report_op. destruct (vl >=? 2)%Z; reflexivity. Qed.

  Theorem g_skip_this_eq_thing : forall x p,
    g_skip_this o c vl cs (x_type x) (render brepr p) = skip_this brepr excl_re c (xtype_of x) p.
  Proof.
    intros x p. unfold g_skip_this, skip_this, path_excl, ty_excl, x_type, isinstance_types. cbn [o_excl_re].
    case_ifs; reflexivity.
  Qed.

  Theorem g_skip_this_eq_item : forall it p,
    g_skip_this o c vl cs (i_type it) (render brepr p) = skip_item brepr excl_re c it p.
  Proof.
    intros it p. unfold g_skip_this, skip_item, path_excl, item_excl, ty_excl, isinstance_types. cbn [o_excl_re].
    destruct it as [a|b|w]; cbn [i_type]; case_ifs; reflexivity.
  Qed.

  Section Item.
    Variable it : eitem.
    Hypothesis Hcons : use_regexp c = is_re it.
    Hypothesis Hcont : container_item it = true.

    Theorem g_search_str_eq : forall (isb : bool) (s : pystr) (p : path),
      g_search_str o c vl cs (XAtom (if isb then ABytes s else AStr s)) it (render brepr p)
      = E (search_str slower re_search c cs it isb s p).
    Proof.
      intros isb s p. unfold g_search_str, search_str. rewrite !g_report_eq. rewrite Hcons.
      destruct it as [a|b|w]; cbn [is_re i_pattern i_kind].
      - destruct a, isb, cs; cbn; destruct (match_string c); cbn; case_ifs; try reflexivity; try discriminate.
      - destruct b, isb, cs; cbn; case_ifs; reflexivity.
      - destruct w; try discriminate Hcont; destruct isb, cs; cbn; destruct (match_string c); cbn; reflexivity.
    Qed.

    Theorem g_search_numbers_eq_atom : forall (a : atom) (p : path),
      g_search_numbers o c vl cs (XAtom a) it (render brepr p) = E (search_numbers brepr re_search c it a p).
    Proof.
      intros a p. unfold g_search_numbers, search_numbers, eq_item. rewrite !g_report_eq. rewrite Hcons.
      cbn [o_brepr o_re_search x_text i_search].
      destruct it as [b|b|w]; cbn [is_re i_pattern py_eq_ix i_eq_str andb orb].
      - destruct (py_eq b a); [reflexivity|]. destruct (strict c); [reflexivity|]. cbn [negb andb orb].
        rewrite orb_false_r. destruct b; try reflexivity. destruct (pystr_eqb s (str_atom brepr a)); reflexivity.
      - destruct (strict c); [reflexivity|]. destruct b; cbn; [reflexivity|]. destruct (re_search (str_atom brepr a)); reflexivity.
      - destruct w; try discriminate Hcont; cbn; destruct (strict c); reflexivity.
    Qed.

    Theorem g_search_numbers_eq_xnum : forall (t : xty) (v : option atom) (tx : pystr) (p : path),
      g_search_numbers o c vl cs (XNum t v tx) it (render brepr p)
      = E (search_xnum re_search c it (XNum t v tx) v tx p).
    Proof.
      intros t v tx p. unfold g_search_numbers, search_xnum, eq_item. rewrite !g_report_eq. rewrite Hcons.
      cbn [o_brepr o_re_search x_text i_search].
      destruct it as [b|b|w]; cbn [is_re i_pattern py_eq_ix i_eq_str andb orb].
      - destruct v as [a|]; [destruct (py_eq b a); [reflexivity|]|]; (destruct (strict c); [reflexivity|]); cbn [negb andb orb];
          rewrite orb_false_r; destruct b; try reflexivity; destruct (pystr_eqb s tx); reflexivity.
      - destruct v as [a|]; (destruct (strict c); [reflexivity|]); destruct b; cbn; try reflexivity; destruct (re_search tx); reflexivity.
      - destruct w; try discriminate Hcont; destruct v as [a|]; cbn; destruct (strict c); reflexivity.
    Qed.

    (* the matched_paths test of __search_dict *)
    Lemma path_test_eq : forall (txt : pystr) (hit : list event),
      path_test brepr re_search re_text c it txt hit
      = if ((match_string c && pystr_eqb (i_str brepr re_text it) txt)
            || (negb (match_string c) && contains_sub (i_str brepr re_text it) txt)
            || (use_regexp c && w_isinstance (i_pattern it) [Cstr] && i_search re_search it txt))
        then hit else [].
    Proof.
      intros txt hit. unfold path_test, i_str, item_text, i_search. rewrite Hcons.
      destruct ((match_string c && _) || (negb (match_string c) && _)); [reflexivity|]. cbn [orb].
      destruct it as [b|[|]|w]; cbn; try reflexivity; destruct (re_search txt); reflexivity.
    Qed.

    Local Notation search := (search slower brepr re_search excl_re re_text sa ba c cs it).

    (* one entry of the loop of __search_dict, once the text of the new path is known *)
    Lemma entry_eq : forall (rec : xvalue -> eitem -> pystr -> list top) (ch : xvalue) (p' : path),
      rec ch it (render brepr p') = E (search ch p') ->
      (if x_is_ancestor ch then []
       else ((if ((match_string c && pystr_eqb (i_str brepr re_text it) (if cs then render brepr p' else slower (render brepr p')))
                  || (negb (match_string c) && contains_sub (i_str brepr re_text it) (if cs then render brepr p' else slower (render brepr p')))
                  || (use_regexp c && w_isinstance (i_pattern it) [Cstr]
                      && i_search re_search it (if cs then render brepr p' else slower (render brepr p'))))
              then g_report o c vl cs (s2p "matched_paths") (render brepr p') ch else [])
             ++ rec ch it (render brepr p'))%list)
      = E (if is_ref ch then []
           else (path_event slower brepr re_search re_text c cs it p' ch ++ search ch p')%list).
    Proof.
      intros rec ch p' Hrec. unfold x_is_ancestor. destruct (is_ref ch); [reflexivity|].
      rewrite map_app, Hrec, g_report_eq. unfold path_event. rewrite path_test_eq. unfold fold_s. f_equal.
      destruct (_ || _ || _); reflexivity.
    Qed.

    Theorem g_search_dict_eq_dict : forall (rec : xvalue -> eitem -> pystr -> list top) (kvs : list (atom * xvalue)) (p : path),
      nodup_atoms (map fst kvs) = true ->
      (forall kv, In kv kvs -> forall p', rec (snd kv) it (render brepr p') = E (search (snd kv) p')) ->
      g_search_dict o c vl cs rec (XDict kvs) it (render brepr p) false
      = E (iter_ent slower brepr re_search excl_re re_text sa ba c cs it SKey p kvs).
    Proof.
      intros rec kvs p Hnd Hrec. rewrite iter_ent_flat_map, map_flat_map. unfold g_search_dict. cbv beta iota zeta.
      apply for_each_keys. intros [k ch] Hin. cbn [fst snd]. rewrite (x_getitem_in _ _ _ Hnd Hin).
      cbn [negb andb o_brepr o_slower o_re_search o_re_text].
      pose proof (text_key brepr (render brepr p) k) as Ht. rewrite <- render_snoc in Ht.
      destruct (k_isinstance k [Cstrings]); rewrite Ht; apply entry_eq; apply (Hrec (k, ch) Hin).
    Qed.

    (* the attribute dictionary of __search_obj (print_as_attribute=True) *)
    Theorem g_search_dict_eq_attrs : forall (rec : xvalue -> eitem -> pystr -> list top) (avs : list (pystr * xvalue)) (p : path),
      nodup_strs (map fst avs) = true ->
      (forall av, In av avs -> forall p', rec (snd av) it (render brepr p') = E (search (snd av) p')) ->
      g_search_dict o c vl cs rec (attrs_as_dict avs) it (render brepr p) true
      = E (iter_ent slower brepr re_search excl_re re_text sa ba c cs it SAttr p avs).
    Proof.
      intros rec avs p Hnd Hrec. rewrite iter_ent_flat_map, map_flat_map. unfold g_search_dict, attrs_as_dict. cbv beta iota zeta.
      rewrite (for_each_keys _ _ (fun kv => E (if is_ref (snd kv) then []
                 else (path_event slower brepr re_search re_text c cs it (p ++ [SAttr (x_chars (XAtom (fst kv)))]) (snd kv)
                       ++ search (snd kv) (p ++ [SAttr (x_chars (XAtom (fst kv)))]))%list))).
      - rewrite flat_map_map. reflexivity.
      - intros [k ch] Hin. cbn [fst snd]. rewrite (x_getitem_in _ _ _ (nodup_strs_atoms _ _ Hnd) Hin).
        apply in_map_iff in Hin. destruct Hin as [[n v] [Heq Hin]]. cbn [fst snd] in Heq. inversion Heq; subst k ch.
        cbn [negb andb o_brepr o_slower o_re_search o_re_text x_chars].
        pose proof (text_attr brepr (render brepr p) n) as Ht. rewrite <- render_snoc in Ht.
        rewrite Ht. apply entry_eq. apply (Hrec (n, v) Hin).
    Qed.

    (* thing_cased == item *)
    Lemma thing_cased_eq : forall x : xvalue,
      py_eq_xi (if cs || negb (x_isinstance x [Cstrings]) then x else x_lower slower x) it = thing_eq_item slower cs it x.
    Proof.
      intro x. unfold py_eq_xi, py_eq_ix, thing_eq_item, eq_item.
      destruct it as [b|b|w]; [| |destruct w; try discriminate Hcont];
        (destruct x as [a| | | | | | | | | |t [a|] tx]; [destruct a, cs; reflexivity|..]; destruct cs; reflexivity).
    Qed.

    Theorem g_search_iterable_eq : forall (rec : xvalue -> eitem -> pystr -> list top) (obj : xvalue) (p : path),
      (forall x, In x (x_iter obj) -> forall p', rec x it (render brepr p') = E (search x p')) ->
      g_search_iterable o c vl cs rec obj it (render brepr p)
      = for_enum_from 0 (x_iter obj)
          (fun i x => E (thing_events slower brepr excl_re c cs it (search x) x (p ++ [SIdx i]))).
    Proof.
      intros rec obj p Hrec. unfold g_search_iterable, for_enum. apply for_enum_from_ext. intros i x Hin. cbv zeta.
      rewrite (text_idx brepr), (text_idx' brepr), <- render_snoc, g_skip_this_eq_thing. unfold thing_events.
      destruct (skip_this brepr excl_re c (xtype_of x) (p ++ [SIdx i])); [reflexivity|].
      cbn [o_slower]. rewrite thing_cased_eq. unfold shortcut.
      destruct (negb (use_regexp c) && thing_eq_item slower cs it x).
      - rewrite g_report_eq. reflexivity.
      - unfold x_is_ancestor. destruct (is_ref x) eqn:Er.
        + apply is_ref_eq in Er. subst x. rewrite search_ref_nil. reflexivity.
        + apply Hrec. exact Hin.
    Qed.

    Lemma search_method_nil : forall p', search the_method p' = [].
    Proof. intro p'. unfold the_method. rewrite search_obj_eq. destruct (skip_item _ _ _ _ _); reflexivity. Qed.

    Lemma assoc_methods : forall (names : list pystr) (n : pystr), In n names ->
      assoc (AStr n) (map (fun m => (AStr m, the_method)) names) = Some the_method.
    Proof.
      induction names as [|m r IH]; intros n Hin; [destruct Hin|]. cbn [map assoc].
      destruct (py_eq (AStr m) (AStr n)) eqn:Eq; [reflexivity|]. destruct Hin as [->|Hin]; [|auto].
      rewrite py_eq_refl in Eq. discriminate.
    Qed.

    (* a str / bytes searched as an object: the dictionary of its bound methods *)
    Theorem g_search_dict_eq_methods : forall (rec : xvalue -> eitem -> pystr -> list top) (names : list pystr) (p : path),
      (forall p', rec the_method it (render brepr p') = []) ->
      g_search_dict o c vl cs rec (methods_as_dict names) it (render brepr p) true
      = E (attr_events slower brepr re_search re_text c cs it names p).
    Proof.
      intros rec names p Hm. unfold attr_events. rewrite flat_map_concat_map, concat_map, map_map, <- flat_map_concat_map.
      unfold g_search_dict, methods_as_dict. cbv beta iota zeta.
      rewrite (for_each_keys _ _ (fun kv => E (path_test brepr re_search re_text c it
                 (fold_s slower cs false (render brepr p ++ [46%N] ++ x_chars (XAtom (fst kv))))
                 [EvAttr p (x_chars (XAtom (fst kv)))]))).
      - rewrite flat_map_map. reflexivity.
      - intros [k ch] Hin. cbn [fst snd]. apply in_map_iff in Hin. destruct Hin as [n [Heq Hin]]. inversion Heq; subst k ch.
        unfold x_getitem. rewrite (assoc_methods _ _ Hin).
        cbn [negb andb o_brepr o_slower o_re_search o_re_text x_chars x_is_ancestor is_ref the_method].
        fold the_method. pose proof (text_attr brepr (render brepr p) n) as Ht. rewrite Ht, <- render_snoc, Hm, app_nil_r.
        rewrite path_test_eq, g_report_eq, render_snoc. unfold fold_s. cbn [render_step app].
        destruct (_ || _ || _); reflexivity.
    Qed.

    Theorem g_search_obj_eq_obj : forall (rec : xvalue -> eitem -> pystr -> list top) (cl : pystr) (avs : list (pystr * xvalue)) (isn : bool) (p : path),
      nodup_strs (map fst avs) = true ->
      (forall av, In av avs -> forall p', rec (snd av) it (render brepr p') = E (search (snd av) p')) ->
      g_search_obj o c vl cs rec (XObj cl avs) it (render brepr p) isn
      = E (iter_ent slower brepr re_search excl_re re_text sa ba c cs it SAttr p avs).
    Proof.
      intros rec cl avs isn p Hnd Hrec. unfold g_search_obj. cbv zeta.
      replace (py_eq_xi (XObj cl avs) it) with false by (destruct it as [b|b|w]; [| |destruct w]; reflexivity).
      cbn [x_attrs_dict]. apply g_search_dict_eq_attrs; assumption.
    Qed.

    Theorem g_search_obj_eq_named : forall (rec : xvalue -> eitem -> pystr -> list top) (cl : pystr) (avs : list (pystr * xvalue)) (isn : bool) (p : path),
      nodup_strs (map fst avs) = true ->
      (forall av, In av avs -> forall p', rec (snd av) it (render brepr p') = E (search (snd av) p')) ->
      g_search_obj o c vl cs rec (XNamed cl avs) it (render brepr p) isn
      = E (self_events it (XNamed cl avs) p
           ++ iter_ent slower brepr re_search excl_re re_text sa ba c cs it SAttr p avs)%list.
    Proof.
      intros rec cl avs isn p Hnd Hrec. unfold g_search_obj, self_events. cbv zeta.
      replace (py_eq_xi (XNamed cl avs) it) with (self_eq it (XNamed cl avs)) by (destruct it as [b|b|w]; reflexivity).
      cbn [x_attrs_dict]. rewrite map_app, g_report_eq, (g_search_dict_eq_attrs rec avs p Hnd Hrec).
      destruct (self_eq it (XNamed cl avs)); reflexivity.
    Qed.

    Theorem g_search_obj_eq_opaque : forall (rec : xvalue -> eitem -> pystr -> list top) (cl : pystr) (isn : bool) (p : path),
      g_search_obj o c vl cs rec (XOpaque cl) it (render brepr p) isn = E [EvUnproc p].
    Proof.
      intros rec cl isn p. unfold g_search_obj. cbv zeta.
      replace (py_eq_xi (XOpaque cl) it) with false by (destruct it as [b|b|w]; [| |destruct w]; reflexivity).
      cbn [x_attrs_dict negb]. rewrite fmt_one. reflexivity.
    Qed.

    Theorem g_search_obj_eq_atom : forall (rec : xvalue -> eitem -> pystr -> list top) (a : atom) (isn : bool) (p : path),
      (forall p', rec the_method it (render brepr p') = []) ->
      g_search_obj o c vl cs rec (XAtom a) it (render brepr p) isn
      = E (search_obj_atom slower brepr re_search re_text sa ba c cs it a p).
    Proof.
      intros rec a isn p Hm. unfold g_search_obj, search_obj_atom. cbv zeta.
      replace (py_eq_xi (XAtom a) it) with (eq_item it a)
        by (unfold py_eq_xi, py_eq_ix, eq_item; destruct it as [b|b|w]; [| |destruct w; try discriminate Hcont]; reflexivity).
      rewrite map_app, g_report_eq. cbn [o_str_attrs o_bytes_attrs].
      assert (Hd : g_search_dict o c vl cs rec (XDict []) it (render brepr p) true = []) by reflexivity.
      destruct a as [|b|z|h|s|s]; cbn [x_attrs_dict]; rewrite ?(g_search_dict_eq_methods rec _ p Hm), ?Hd;
        destruct (eq_item it _); reflexivity.
    Qed.

    Theorem g_search_obj_eq_ref : forall (rec : xvalue -> eitem -> pystr -> list top) (isn : bool) (t : pystr),
      g_search_obj o c vl cs rec XRef it t isn = [].
    Proof.
      intros rec isn t. unfold g_search_obj. cbv zeta.
      replace (py_eq_xi XRef it) with false by (destruct it as [b|b|w]; [| |destruct w]; reflexivity).
      reflexivity.
    Qed.

    Lemma i_isinstance_str : i_isinstance it [Cstrings; CRE] = item_is_str_or_re it.
    Proof. destruct it as [b|b|w]; [destruct b| |destruct w; try discriminate Hcont]; reflexivity. Qed.
    Lemma i_isinstance_num : i_isinstance it [Cnumbers] = item_is_number it.
    Proof. destruct it as [b|b|w]; [destruct b| |destruct w; try discriminate Hcont]; reflexivity. Qed.

    (* ONE UNFOLDING of the dispatcher __search (with everything it calls) against the hand model's [search] *)
    Theorem g_search_step_eq : forall (rec : xvalue -> eitem -> pystr -> list top) (obj : xvalue) (p : path),
      xwf obj = true ->
      (forall x, xdepth x < xdepth obj -> xwf x = true -> forall p', rec x it (render brepr p') = E (search x p')) ->
      g_search o c vl cs rec obj it (render brepr p) = E (search obj p).
    Proof.
      intros rec obj p Hwf Hrec. unfold g_search. rewrite g_skip_this_eq_item.
      destruct obj as [a|xs|xs|kvs|xs|xs|cl avs|cl avs|cl| |t v tx].
      - (* atom *)
        rewrite search_atom_eq. unfold search_atom. destruct (skip_item brepr excl_re c it p); [reflexivity|].
        assert (Hm : forall p', rec the_method it (render brepr p') = []).
        { intro p'. rewrite Hrec by (cbn; auto). rewrite search_method_nil. reflexivity. }
        unfold search_leaf.
        destruct a as [|b|z|h|s|s]; cbn [x_isinstance existsb x_is andb orb negb is_strlike is_number].
        1-4: try (apply g_search_numbers_eq_atom); try (apply g_search_obj_eq_atom; exact Hm).
        + rewrite i_isinstance_str, i_isinstance_num. cbn [andb].
          destruct (item_is_str_or_re it); [apply (g_search_str_eq false s p)|].
          destruct (item_is_number it); [reflexivity|]. apply g_search_obj_eq_atom; exact Hm.
        + rewrite i_isinstance_str, i_isinstance_num. cbn [andb].
          destruct (item_is_str_or_re it); [apply (g_search_str_eq true s p)|].
          destruct (item_is_number it); [reflexivity|]. apply g_search_obj_eq_atom; exact Hm.
      - (* list *)
        rewrite search_list_eq. destruct (skip_item brepr excl_re c it p); [reflexivity|].
        cbn [x_isinstance existsb x_is andb orb negb]. rewrite iter_list_for_enum. apply g_search_iterable_eq.
        cbn [x_iter]. intros x Hin p'. apply Hrec.
        + cbn [xdepth]. pose proof (max_fold_le _ xdepth xs x Hin). lia.
        + apply (wf_list_inv xs Hwf x Hin).
      - (* tuple *)
        rewrite search_tuple_eq. destruct (skip_item brepr excl_re c it p); [reflexivity|].
        cbn [x_isinstance existsb x_is andb orb negb]. unfold g_search_tuple. cbn [x_has_asdict].
        rewrite iter_list_for_enum. apply g_search_iterable_eq.
        cbn [x_iter]. intros x Hin p'. apply Hrec.
        + cbn [xdepth]. pose proof (max_fold_le _ xdepth xs x Hin). lia.
        + apply (wf_list_inv xs Hwf x Hin).
      - (* dict *)
        rewrite search_dict_eq. destruct (skip_item brepr excl_re c it p); [reflexivity|].
        cbn [x_isinstance existsb x_is andb orb negb app]. apply wf_dict_inv in Hwf. destruct Hwf as [Hnd Hch].
        apply g_search_dict_eq_dict; [exact Hnd|]. intros kv Hin p'. apply Hrec; [|auto].
        cbn [xdepth]. pose proof (max_fold_le _ (fun kv => xdepth (snd kv)) kvs kv Hin). cbn beta in H. lia.
      - (* set *)
        rewrite search_set_eq. destruct (skip_item brepr excl_re c it p); [reflexivity|].
        cbn [x_isinstance existsb x_is andb orb negb]. rewrite iter_atoms_for_enum. apply g_search_iterable_eq.
        cbn [x_iter]. intros x Hin p'. apply in_map_iff in Hin. destruct Hin as [a [<- _]]. apply Hrec; cbn; auto.
      - (* frozenset *)
        rewrite search_frozen_eq. destruct (skip_item brepr excl_re c it p); [reflexivity|].
        cbn [x_isinstance existsb x_is andb orb negb]. rewrite iter_atoms_for_enum. apply g_search_iterable_eq.
        cbn [x_iter]. intros x Hin p'. apply in_map_iff in Hin. destruct Hin as [a [<- _]]. apply Hrec; cbn; auto.
      - (* instance *)
        rewrite search_obj_eq. destruct (skip_item brepr excl_re c it p); [reflexivity|].
        cbn [x_isinstance existsb x_is andb orb negb app]. cbn [xwf] in Hwf. apply wf_attrs_inv in Hwf. destruct Hwf as [Hnd Hch].
        apply g_search_obj_eq_obj; [exact Hnd|]. intros av Hin p'. apply Hrec; [|auto].
        cbn [xdepth]. pose proof (max_fold_le _ (fun av => xdepth (snd av)) avs av Hin). cbn beta in H. lia.
      - (* named tuple *)
        rewrite search_named_eq. destruct (skip_item brepr excl_re c it p); [reflexivity|].
        cbn [x_isinstance existsb x_is andb orb negb]. unfold g_search_tuple. cbn [x_has_asdict].
        cbn [xwf] in Hwf. apply wf_attrs_inv in Hwf. destruct Hwf as [Hnd Hch].
        apply g_search_obj_eq_named; [exact Hnd|]. intros av Hin p'. apply Hrec; [|auto].
        cbn [xdepth]. pose proof (max_fold_le _ (fun av => xdepth (snd av)) avs av Hin). cbn beta in H. lia.
      - (* unreadable object *)
        rewrite search_opaque_eq. destruct (skip_item brepr excl_re c it p); [reflexivity|].
        cbn [x_isinstance existsb x_is andb orb negb]. apply g_search_obj_eq_opaque.
      - (* back reference *)
        rewrite search_ref_nil. destruct (skip_item brepr excl_re c it p); [reflexivity|].
        cbn [x_isinstance existsb x_is andb orb negb]. apply g_search_obj_eq_ref.
      - (* number-like leaf *)
        rewrite search_num_eq. destruct (skip_item brepr excl_re c it p); [reflexivity|].
        cbn [x_isinstance existsb x_is andb orb negb]. apply g_search_numbers_eq_xnum.
    Qed.

    (* the generated recursion, closed by fuel, IS the hand model's search *)
    Theorem g_search_fuel_eq : forall (n : nat) (obj : xvalue) (p : path),
      xdepth obj < n -> xwf obj = true ->
      g_search_fuel o c vl cs n obj it (render brepr p) = E (search obj p).
    Proof.
      induction n as [|n IH]; intros obj p Hd Hwf; [lia|]. cbn [g_search_fuel].
      apply g_search_step_eq; [exact Hwf|]. intros x Hx Hwx p'. apply IH; [lia|exact Hwx].
    Qed.
  End Item.
End Equiv.

Section Init.
  Variables (slower brepr : pystr -> pystr) (re_search excl_re : pystr -> bool) (re_ok : bool) (re_text : pystr).
  Variables (sa ba : list pystr) (c : config) (vl : Z).
  Local Notation o := (mkOracles slower brepr re_search re_ok excl_re re_text sa ba).
  Local Notation E := (map (ev_op brepr vl)).

  Definition gres (r : result) : gresult :=
    match r with RRaise => GRaise | RReErr => GReErr | ROk evs => GOk (E evs) end.

  Lemma prepare_item_ok : forall (item : value) (cs' : bool) (it : eitem),
    prepare slower brepr re_ok c item = PItem cs' it -> use_regexp c = is_re it /\ container_item it = true.
  Proof.
    intros item cs' it H. unfold prepare, prepare_atom in H.
    destruct item as [a| | | | |]; destruct (use_regexp c); try discriminate H;
      try (inversion H; subst; split; reflexivity).
    destruct (if negb (strict c) && is_number _ then _ else _); try discriminate H;
      destruct re_ok; try discriminate H; inversion H; subst; split; reflexivity.
  Qed.

  (* __init__: the normalisation of the item is the hand model's [prepare] *)
  Theorem g_init_prepare : forall (item : value) (obj : xvalue),
    g_init o c vl obj item
    = match prepare slower brepr re_ok c item with
      | PRaise => GRaise
      | PReErr => GReErr
      | PItem cs' it => GOk (g_search_fuel o c vl cs' (S (xdepth obj)) obj it (s2p "root"))
      end.
  Proof.
    intros item obj. unfold g_init, prepare, prepare_atom. cbv zeta. cbn [o_slower o_brepr o_re_ok].
    destruct item as [a| | | | |]; [destruct a|..]; cbn -[g_search_fuel];
      destruct (cs_flag c), (strict c), (use_regexp c), re_ok; reflexivity.
  Qed.

  (* __init__ + the search it starts = the hand model's DeepSearch(obj, item, **c) *)
  Theorem g_init_eq : forall (item : value) (obj : xvalue),
    xwf obj = true ->
    g_init o c vl obj item = gres (deep_search slower brepr re_search re_ok excl_re re_text sa ba c item obj).
  Proof.
    intros item obj Hwf. rewrite g_init_prepare. unfold deep_search.
    destruct (prepare slower brepr re_ok c item) as [| |cs' it] eqn:Hp; [reflexivity|reflexivity|].
    destruct (prepare_item_ok _ _ _ Hp) as [Hc1 Hc2]. unfold gres. f_equal.
    change (s2p "root") with (render brepr []). apply g_search_fuel_eq; auto.
  Qed.
End Init.

(* ------------------------------------------------------------------------------------------------
   Transfer: the main theorems of Properties/C16.v, restated about the GENERATED g_init (= what
   /repo/deepdiff/search.py says now), on the store operations it performs. *)
Lemma rk_paths_values : rk_paths <> rk_values.
Proof. intro H. vm_compute in H. discriminate H. Qed.

Section Ops.
  Variables (brepr : pystr -> pystr) (vl : Z).
  Local Notation E := (map (ev_op brepr vl)).

  Lemma in_ops_values_dict : forall evs t v, (vl >=? 2)%Z = true ->
    (In (TSetItem rk_values t v) (E evs) <-> exists q, render brepr q = t /\ In (EvValue q v) evs).
  Proof.
    intros evs t v Hv. rewrite in_map_iff. split.
    - intros [e [He Hin]]. destruct e as [q w|q w|q n|q]; unfold ev_op, report_op in He; rewrite ?Hv in He.
      + inversion He; subst. eauto.
      + inversion He.
      + inversion He.
      + discriminate He.
    - intros [q [Ht Hin]]. exists (EvValue q v). split; [|exact Hin]. unfold ev_op, report_op. rewrite Hv, Ht. reflexivity.
  Qed.

  Lemma in_ops_values_set : forall evs t, (vl >=? 2)%Z = false ->
    (In (TAdd rk_values t) (E evs) <-> exists q v, render brepr q = t /\ In (EvValue q v) evs).
  Proof.
    intros evs t Hv. rewrite in_map_iff. split.
    - intros [e [He Hin]]. destruct e as [q w|q w|q n|q]; unfold ev_op, report_op in He; rewrite ?Hv in He.
      + inversion He; subst. eauto.
      + inversion He.
      + inversion He.
      + discriminate He.
    - intros [q [v [Ht Hin]]]. exists (EvValue q v). split; [|exact Hin]. unfold ev_op, report_op. rewrite Hv, Ht. reflexivity.
  Qed.

  Lemma in_ops_unprocessed : forall evs t,
    (In (TAppend rk_unprocessed t) (E evs) <-> exists q, render brepr q = t /\ In (EvUnproc q) evs).
  Proof.
    intros evs t. rewrite in_map_iff. split.
    - intros [e [He Hin]]. destruct e as [q w|q w|q n|q]; unfold ev_op, report_op in He;
        try (destruct (vl >=? 2)%Z; discriminate He). inversion He; subst. eauto.
    - intros [q [Ht Hin]]. exists (EvUnproc q). split; [|exact Hin]. unfold ev_op. rewrite Ht. reflexivity.
  Qed.

  (* the result dictionary self['matched_values'] (verbose_level >= 2) is the hand model's [matched_values] *)
  Lemma ops_dict_values : forall evs, (vl >=? 2)%Z = true ->
    ops_dict rk_values (E evs) = matched_values brepr evs.
  Proof.
    intros evs Hv. unfold ops_dict, matched_values. generalize (@nil (pystr * xvalue)) as d.
    induction evs as [|e r IH]; intro d; [reflexivity|]. cbn [map fold_left]. rewrite IH. f_equal.
    destruct e as [q w|q w|q n|q]; unfold ev_op, report_op; rewrite ?Hv; try reflexivity.
  Qed.
End Ops.

Section Transfer.
  Variables (slower brepr : pystr -> pystr) (re_search excl_re : pystr -> bool) (re_ok : bool) (re_text : pystr).
  Variables (sa ba : list pystr) (c : config) (vl : Z) (item : value) (obj : xvalue).
  Local Notation o := (mkOracles slower brepr re_search re_ok excl_re re_text sa ba).
  Hypothesis Hwf : xwf obj = true.

  (* C16_never_raises / C16_re_error_exact *)
  Theorem SearchGen_never_raises :
    g_init o c vl obj item = GRaise <->
    use_regexp c = true /\ item_is_text item = false /\ loose_number c item = false.
  Proof.
    rewrite (g_init_eq _ _ _ _ _ _ _ _ _ _ _ _ Hwf), <- (never_raises slower brepr re_search excl_re re_ok re_text sa ba c item obj).
    destruct (deep_search _ _ _ _ _ _ _ _ _ _ _); cbn; split; intro H; try discriminate H; reflexivity.
  Qed.

  Theorem SearchGen_re_error_exact :
    g_init o c vl obj item = GReErr <->
    use_regexp c = true /\ (item_is_text item = true \/ loose_number c item = true) /\ re_ok = false.
  Proof.
    rewrite (g_init_eq _ _ _ _ _ _ _ _ _ _ _ _ Hwf), <- (re_error_exact slower brepr re_search excl_re re_ok re_text sa ba c item obj).
    destruct (deep_search _ _ _ _ _ _ _ _ _ _ _); cbn; split; intro H; try discriminate H; reflexivity.
  Qed.

  Variables (cs : bool) (it : eitem) (ops : list top).
  Hypothesis Hprep : prepare slower brepr re_ok c item = PItem cs it.
  Hypothesis Hrun : g_init o c vl obj item = GOk ops.

  Lemma g_run_inv : exists evs,
    deep_search slower brepr re_search re_ok excl_re re_text sa ba c item obj = ROk evs /\ ops = map (ev_op brepr vl) evs.
  Proof.
    rewrite (g_init_eq _ _ _ _ _ _ _ _ _ _ _ _ Hwf) in Hrun.
    destruct (deep_search _ _ _ _ _ _ _ _ _ _ _) as [| |evs]; try discriminate Hrun. exists evs. inversion Hrun. auto.
  Qed.

  (* the operations are the images of events that satisfy C16_sound, C16_values_exact, C16_paths_exact, C16_unprocessed_exact *)
  Theorem SearchGen_events_exact : exists evs, ops = map (ev_op brepr vl) evs
    /\ (forall q v, In (EvValue q v) evs -> get_at obj q = Some v /\ item_match slower brepr re_search c cs it v = true)
    /\ (forall q v, In (EvValue q v) evs <-> In (q, v) (matches_spec slower brepr re_search excl_re c cs it obj))
    /\ (forall q v, In (EvPath q v) evs <-> In (q, v) (paths_spec slower brepr re_search excl_re re_text c cs it obj))
    /\ (forall q, In (EvUnproc q) evs <-> In q (unprocessed_spec slower brepr excl_re c cs it obj)).
  Proof.
    destruct g_run_inv as [evs [Hd Ho]]. exists evs. split; [exact Ho|]. repeat split.
    - exact (proj1 (final_sound _ _ _ _ _ _ _ _ _ _ _ _ _ _ Hwf Hprep Hd q v H)).
    - exact (proj2 (final_sound _ _ _ _ _ _ _ _ _ _ _ _ _ _ Hwf Hprep Hd q v H)).
    - apply (final_values_exact _ _ _ _ _ _ _ _ _ _ _ _ _ _ Hwf Hprep Hd).
    - apply (final_values_exact _ _ _ _ _ _ _ _ _ _ _ _ _ _ Hwf Hprep Hd).
    - apply (final_paths_exact _ _ _ _ _ _ _ _ _ _ _ _ _ _ Hwf Hprep Hd).
    - apply (final_paths_exact _ _ _ _ _ _ _ _ _ _ _ _ _ _ Hwf Hprep Hd).
    - apply (final_unprocessed_exact _ _ _ _ _ _ _ _ _ _ _ _ _ _ Hwf Hprep Hd).
    - apply (final_unprocessed_exact _ _ _ _ _ _ _ _ _ _ _ _ _ _ Hwf Hprep Hd).
  Qed.

  (* C16_values_exact on the store: self['matched_values'][t] = v is performed exactly for the matching visible locations *)
  Theorem SearchGen_values_exact_dict : (vl >=? 2)%Z = true -> forall t v,
    In (TSetItem rk_values t v) ops <->
    exists q, render brepr q = t /\ In (q, v) (matches_spec slower brepr re_search excl_re c cs it obj).
  Proof.
    intros Hv t v. destruct g_run_inv as [evs [Hd Ho]]. subst ops. rewrite (in_ops_values_dict brepr vl evs t v Hv).
    split; intros [q [Ht H]]; exists q; (split; [exact Ht|]); apply (final_values_exact _ _ _ _ _ _ _ _ _ _ _ _ _ _ Hwf Hprep Hd); exact H.
  Qed.

  Theorem SearchGen_values_exact_set : (vl >=? 2)%Z = false -> forall t,
    In (TAdd rk_values t) ops <->
    exists q v, render brepr q = t /\ In (q, v) (matches_spec slower brepr re_search excl_re c cs it obj).
  Proof.
    intros Hv t. destruct g_run_inv as [evs [Hd Ho]]. subst ops. rewrite (in_ops_values_set brepr vl evs t Hv).
    split; intros [q [v [Ht H]]]; exists q, v; (split; [exact Ht|]); apply (final_values_exact _ _ _ _ _ _ _ _ _ _ _ _ _ _ Hwf Hprep Hd); exact H.
  Qed.

  (* C16_sound on the store *)
  Theorem SearchGen_sound : (vl >=? 2)%Z = true -> forall t v,
    In (TSetItem rk_values t v) ops ->
    exists q, render brepr q = t /\ get_at obj q = Some v /\ item_match slower brepr re_search c cs it v = true.
  Proof.
    intros Hv t v H. destruct g_run_inv as [evs [Hd Ho]]. subst ops. apply (in_ops_values_dict brepr vl evs t v Hv) in H.
    destruct H as [q [Ht H]]. exists q. split; [exact Ht|]. exact (final_sound _ _ _ _ _ _ _ _ _ _ _ _ _ _ Hwf Hprep Hd q v H).
  Qed.

  (* C16_unprocessed_exact on the store *)
  Theorem SearchGen_unprocessed_exact : forall t,
    In (TAppend rk_unprocessed t) ops <->
    exists q, render brepr q = t /\ In q (unprocessed_spec slower brepr excl_re c cs it obj).
  Proof.
    intro t. destruct g_run_inv as [evs [Hd Ho]]. subst ops. rewrite (in_ops_unprocessed brepr vl evs t).
    split; intros [q [Ht H]]; exists q; (split; [exact Ht|]); apply (final_unprocessed_exact _ _ _ _ _ _ _ _ _ _ _ _ _ _ Hwf Hprep Hd); exact H.
  Qed.

  (* the observable dictionary (C16_result_dict_exact_partial): for tame reported paths the entries of self['matched_values']
     are exactly the (path text, value) of the specification's locations *)
  Theorem SearchGen_result_dict_exact_partial : (vl >=? 2)%Z = true ->
    (forall evs, ops = map (ev_op brepr vl) evs -> forall q v, In (EvValue q v) evs -> tame_path q = true) ->
    forall t v, In (t, v) (ops_dict rk_values ops) <->
      exists q, render brepr q = t /\ In (q, v) (matches_spec slower brepr re_search excl_re c cs it obj).
  Proof.
    intros Hv Ht t v. destruct g_run_inv as [evs [Hd Ho]]. specialize (Ht evs Ho). subst ops.
    rewrite (ops_dict_values brepr vl evs Hv).
    apply (result_dict_exact_partial _ _ _ _ _ _ _ _ _ _ _ _ _ _ Hwf Hprep Hd Ht).
  Qed.
End Transfer.

(* every equality / transfer theorem of this file is closed under the global context: one proof term that
   contains them all (Print Assumptions on each of the 27 separately costs ~10 s per run) *)
Definition SearchGen_equalities :=
  (g_report_eq, g_skip_this_eq_thing, g_skip_this_eq_item, g_search_str_eq, g_search_numbers_eq_atom,
   g_search_numbers_eq_xnum, g_search_dict_eq_dict, g_search_dict_eq_attrs, g_search_dict_eq_methods,
   g_search_iterable_eq, g_search_obj_eq_obj, g_search_obj_eq_named, g_search_obj_eq_opaque, g_search_obj_eq_atom,
   g_search_obj_eq_ref, g_search_step_eq, g_search_fuel_eq, g_init_prepare, g_init_eq).
Print Assumptions SearchGen_equalities.
Definition SearchGen_transfer :=
  (SearchGen_never_raises, SearchGen_re_error_exact, SearchGen_events_exact, SearchGen_values_exact_dict,
   SearchGen_values_exact_set, SearchGen_sound, SearchGen_unprocessed_exact, SearchGen_result_dict_exact_partial).
Print Assumptions SearchGen_transfer.

From Coq Require Import String.
From DDGen Require Import SelfTest.
Local Open Scope string_scope.
Theorem g_DEFAULT_FIRST_ELEMENT_eq : g_DEFAULT_FIRST_ELEMENT = ("root", "GETATTR").
Proof. reflexivity. Qed.
Print Assumptions g_DEFAULT_FIRST_ELEMENT_eq.

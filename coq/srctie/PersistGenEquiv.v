(** coq/srctie/PersistGenEquiv.v - the definitions that harness/translate/persist.py regenerates from the CURRENT text of
    deepdiff/serialization.py (pickle_dump, JSON_CONVERTOR) and deepdiff/delta.py (Delta.__init__, dump, dumps, to_dict)
    (DDGen.PersistGen) equal the hand-written statement-level model Pickle/PersistModel.v for all arguments; with the
    generated loading side (DDGen.PickleGen, proved equal to Vm.v / Bytes.v in PickleGenEquiv.v) the main theorems of
    Properties/C14.v hold of the generated dump and the generated load.
    Compiled on every run of ./check C14 against the regenerated text.  Proof scripts avoid naming anything the
    translation could rename (locals, message texts) and finish by case analysis on whatever conditions occur. *)
From Coq Require Import List ZArith NArith Bool String.
Import ListNotations.
From DD Require Import Base.PyStr Base.Value Pickle.Vm Pickle.Codec Pickle.CodecProofs Pickle.Bytes Pickle.BytesProofs
  Pickle.PicklerHook Pickle.PicklerHookProofs Pickle.SrcPrims Pickle.SrcPrimsFacts
  Pickle.PersistPrims Pickle.PersistModel Pickle.PersistFacts
  Path.PathModel Delta.DeltaModel Pickle.DeltaCodec Pickle.DeltaCodecProofs Pickle.BytesDeltaProofs.
From DDGen Require Import PickleGen PickleGenEquiv PersistGen.

Ltac cases :=
  repeat match goal with
  | |- context [if ?c then _ else _] => destruct c eqn:?
  | |- context [match ?x with _ => _ end] => destruct x eqn:?
  end.

(** * the pickler's hook: the generated persistent_id, on payload values *)
Definition g_hook : pv -> option pystr := hook_of g_persistent_id.

Theorem g_hook_eq : forall v : pv, g_hook v = persistent_id v.
Proof.
  intro v. unfold g_hook, hook_of. rewrite g_persistent_id_eq.
  destruct v as [a| | | | | | | | | |]; try destruct a; reflexivity.
Qed.
Lemma g_hook_spec : forall x, g_hook x = None \/ (x = PNoneType /\ g_hook x = Some NONE_TYPE_PID).
Proof. intro x. rewrite g_hook_eq. apply persistent_id_spec. Qed.
Lemma g_hook_claims : g_hook PNoneType = Some NONE_TYPE_PID.
Proof. rewrite g_hook_eq. reflexivity. Qed.

(** * pickle_dump *)
Theorem g_pickle_dump_eq : forall (v : pv) (file_obj : wfile) (protocol : Z),
  g_pickle_dump v file_obj protocol = pickle_dump_call v file_obj protocol.
Proof.
  intros v f p. unfold g_pickle_dump, pickle_dump_call. cbv zeta. fold g_hook.
  unfold pickler_dump, io_BytesIO_new.
  destruct f as [|c|]; cbn [wf_truth wf_or wf_is_none negb andb orb pk_file pk_protocol pk_hook pk_fix_imports];
    destruct (p =? 4)%Z;
    cbn [wf_truth wf_or wf_is_none wf_getvalue returning negb andb orb app];
    rewrite ?(pickler_bytes_canonical g_hook g_hook_spec g_hook_claims);
    cases; cbn [wf_truth wf_or wf_is_none wf_getvalue returning negb andb orb app] in *; try reflexivity; try discriminate.
Qed.
Theorem g_pickle_dump_defaults_eq :
  g_pickle_dump_protocol_default = PICKLE_DUMP_PROTOCOL /\ g_pickle_dump_file_obj_default = WNone.
Proof. split; reflexivity. Qed.
(* what Delta.dump / Delta.__init__ look for in the two signatures is there *)
Theorem g_co_varnames_eq :
  str_in "file_obj" g_pickle_dump_co_varnames = str_in "file_obj" PICKLE_DUMP_VARNAMES /\
  str_in "safe_to_import" g_pickle_load_co_varnames = str_in "safe_to_import" PICKLE_LOAD_VARNAMES /\
  str_in "safe_to_import" g_pickle_dump_co_varnames = false.
Proof. repeat split; reflexivity. Qed.

(** * Delta.__init__ *)
Theorem g_Delta_defaults_eq :
  g_Delta_default_deserializer = DEFAULT_DESERIALIZER /\ g_Delta_default_serializer = DEFAULT_SERIALIZER.
Proof. split; reflexivity. Qed.
Theorem g_deserializer_choice_eq : forall (has_code : bool) (co_varnames : list string),
  g_deserializer_choice has_code co_varnames = deserializer_choice has_code co_varnames.
Proof.
  intros b l. unfold g_deserializer_choice, deserializer_choice.
  destruct b; destruct (str_in "safe_to_import" l); reflexivity.
Qed.
Theorem g_delta_source_eq : forall a : init_args, g_delta_source a = delta_source a.
Proof. intros [d p f dd fd fr]. destruct d, p, f, dd, fd, fr; reflexivity. Qed.

(** * Delta.dump / dumps / to_dict *)
Theorem g_Delta_dump_mode_eq : forall l : list string, g_Delta_dump_mode l = delta_dump_mode l.
Proof. intro l. unfold g_Delta_dump_mode, delta_dump_mode. cbv zeta. destruct (str_in "file_obj" l); reflexivity. Qed.
Theorem g_Delta_dumps_to_dict_eq : g_Delta_dumps_mode = delta_dumps_mode /\ g_Delta_to_dict_mode = delta_to_dict_mode.
Proof. split; reflexivity. Qed.

Definition equalities := (g_hook_eq, g_pickle_dump_eq, g_pickle_dump_defaults_eq, g_co_varnames_eq, g_Delta_defaults_eq,
  g_deserializer_choice_eq, g_delta_source_eq, g_Delta_dump_mode_eq, g_Delta_dumps_to_dict_eq).
Print Assumptions equalities.

(** * JSON: the converter table and json_convertor_default's closure *)
(* the generated literal and the hand-written table have the same (class, converter) entries *)
Theorem g_JSON_CONVERTOR_eq : forall e : string * jconv, In e g_JSON_CONVERTOR <-> In e JSON_CONVERTOR_TABLE.
Proof. apply same_entries_b_spec. vm_compute. reflexivity. Qed.
(* ... and give every class of the payload universe the same converter (the loop takes the FIRST entry that matches: order
   matters only between entries one object is an instance of - SetOrdered / orderly_set.StableSetEq here) *)
Theorem g_JSON_CONVERTOR_first_match_eq : forall c : pycl,
  table_first (pc_isinstance c) g_JSON_CONVERTOR = table_first (pc_isinstance c) JSON_CONVERTOR_TABLE.
Proof. intros []; vm_compute; reflexivity. Qed.
Theorem g_convertor_eq : forall (mapping : table) (c : pycl), g_convertor mapping c = convertor mapping c.
Proof.
  intros m c. unfold g_convertor, convertor. destruct (table_first (pc_isinstance c) m); [reflexivity|].
  destruct c; cbn [pc_class_name]; cases; try reflexivity; try discriminate.
Qed.
Theorem g_convertor_mapping_eq : forall (dm : table) (c : pycl),
  g_convertor (g_convertor_mapping dm) c = convertor (g_convertor_mapping dm) c /\
  (dm = [] -> g_convertor_mapping dm = g_JSON_CONVERTOR) /\
  (dm <> [] -> g_convertor_mapping dm = table_update g_JSON_CONVERTOR dm).
Proof.
  intros dm c. split; [apply g_convertor_eq|]. unfold g_convertor_mapping, table_copy. cbv zeta.
  destruct dm as [|x r]; cbn [table_truth]; split; intro H; try reflexivity; try discriminate H; contradiction H; reflexivity.
Qed.
(* json_convertor_default() - no default_mapping - converts exactly as Codec.to_json assumes: sets and SetOrdered to lists, a
   class to its __name__, bytes to their UTF-8 text, list_reverseiterator to a list; a frozenset (and anything else) is refused *)
Theorem G_C14_json_default_convertor : forall c : pycl, g_convertor (g_convertor_mapping []) c = default_convertor c.
Proof. intros []; vm_compute; reflexivity. Qed.

Definition json_equalities := (g_JSON_CONVERTOR_eq, g_JSON_CONVERTOR_first_match_eq, g_convertor_eq, g_convertor_mapping_eq,
  G_C14_json_default_convertor).
Print Assumptions json_equalities.

(** * Transfer: the theorems of Properties/C14.v, about the GENERATED definitions *)

(* C14_persistent_id_only_nonetype *)
Theorem G_C14_persistent_id_only_nonetype : forall (v : pv) (pid : pystr),
  g_hook v = Some pid <-> v = PNoneType /\ pid = NONE_TYPE_PID.
Proof. intros v pid. rewrite g_hook_eq. apply persistent_id_only_nonetype. Qed.

(* C14_pickle_dump_is_canonical_encoding: the C pickler driven by the generated persistent_id writes the canonical
   encoding - as opcodes, and as the bytes the generated pickle_dump returns / appends *)
Theorem G_C14_pickle_dump_is_canonical_encoding : forall v : pv,
  pickler_ops g_hook v = enc_prog v /\ pickler_ops g_hook v = pickle_dump v /\
  g_pickle_dump v g_pickle_dump_file_obj_default g_pickle_dump_protocol_default = Ret (DBytes (dump_bytes v), WFile (dump_bytes v)) /\
  forall c, g_pickle_dump v (WFile c) g_pickle_dump_protocol_default = Ret (DNone, WFile (c ++ dump_bytes v)%list).
Proof.
  intro v. split; [apply (pickler_ops_canonical g_hook g_hook_spec g_hook_claims)|].
  split; [apply (pickler_ops_pickle_dump g_hook g_hook_spec g_hook_claims)|].
  destruct g_pickle_dump_defaults_eq as [-> ->]. split; [|intro c]; rewrite g_pickle_dump_eq; reflexivity.
Qed.

(* C14_pickle_roundtrip / C14_nonetype_anywhere_roundtrip, opcode level: what the pickler with the generated hook writes
   loads to the payload, wherever the class type(None) sits *)
Theorem G_C14_pickle_roundtrip : forall (w : world) (d : pv),
  calls_ok w -> types_ok w d -> wfp d = true -> load w (pickler_ops g_hook d) = Some d.
Proof.
  intros w d Hc Ht Hw. rewrite (pickler_ops_canonical g_hook g_hook_spec g_hook_claims). apply pickle_roundtrip; assumption.
Qed.
Theorem G_C14_nonetype_anywhere_roundtrip : forall (w : world) (d : pv),
  calls_ok w -> types_ok w d -> wfp d = true -> mentions_nonetype d = true -> load w (pickler_ops g_hook d) = Some d.
Proof. intros w d Hc Ht Hw _. apply G_C14_pickle_roundtrip; assumption. Qed.

(* C14_bytes_pickle_roundtrip with BOTH ends generated: g_pickle_load (g_pickle_dump d) = d.
   bytes form: pickle_load(pickle_dump(d), safe_to_import=safe) *)
Theorem G_C14_bytes_pickle_roundtrip : forall (e : env) (t : textw) (safe : pyv) (d : pv) (bs : list N) (f : wfile),
  e_dialect e = c_dialect t ->
  calls_ok (world_of e (g_init_allow (Some safe))) -> types_ok (world_of e (g_init_allow (Some safe))) d -> wfp d = true ->
  dump_ok d = true ->
  g_pickle_dump d g_pickle_dump_file_obj_default g_pickle_dump_protocol_default = Ret (DBytes bs, f) ->
  payload_of (g_pickle_load e (VBytes bs) VNone safe) = Some d.
Proof.
  intros e t safe d bs f Hd Hc Ht Hw Hok H.
  rewrite (proj1 (proj2 (proj2 (G_C14_pickle_dump_is_canonical_encoding d)))) in H. inversion H; subst bs.
  unfold payload_of. rewrite g_pickle_load_eq, Hd.
  pose proof (load_bytes_dump _ t d [] Hc Ht Hw Hok) as L. rewrite app_nil_r in L. unfold load_bytes in L.
  destruct (load_content _ _ _) as [[o|x] tr]; [exact L | discriminate L].
Qed.

(* file form: pickle_dump(d, file_obj=f) appends to whatever f holds and returns None; pickle_load(file_obj=f') on a file
   positioned where the dump starts reads d back, whatever follows the dump *)
Theorem G_C14_file_pickle_roundtrip : forall (e : env) (t : textw) (safe content : pyv) (d : pv) (pre junk : list N),
  e_dialect e = c_dialect t ->
  calls_ok (world_of e (g_init_allow (Some safe))) -> types_ok (world_of e (g_init_allow (Some safe))) d -> wfp d = true ->
  dump_ok d = true -> falsy_content content ->
  exists bs, g_pickle_dump d (WFile pre) g_pickle_dump_protocol_default = Ret (DNone, WFile (pre ++ bs)%list) /\
    payload_of (g_pickle_load e content (VFile (bs ++ junk)%list) safe) = Some d.
Proof.
  intros e t safe content d pre junk Hd Hc Ht Hw Hok Hf. exists (dump_bytes d).
  split; [apply (proj2 (proj2 (proj2 (G_C14_pickle_dump_is_canonical_encoding d))))|].
  unfold payload_of. rewrite (g_pickle_load_file_eq e content _ safe Hf), Hd. cbn [result_of].
  pose proof (load_bytes_dump _ t d junk Hc Ht Hw Hok) as L. unfold load_bytes, load_content in L.
  destruct (dump_bytes_nonempty d) as [b [r E]]. rewrite E in *. cbn [app] in *.
  destruct (bytes_run _ _ _) as [[o|x] tr]; [exact L | discriminate L].
Qed.

(* the three persisted forms reach that pickle_load: Delta(bytes) / Delta(delta_path=) / Delta(delta_file=) select the
   deserializer on the argument / on the path's content read in binary mode / on delta_file.read(), always passing
   safe_to_import; the default deserializer is pickle_load and it is called directly (its code has a safe_to_import
   parameter); the default serializer is pickle_dump, which Delta.dump calls with file_obj=<the file> *)
Theorem G_C14_persisted_forms_route : forall a : init_args,
  (a_diff a = KStrings -> g_delta_source a = SDeserialize (CArg "diff") true) /\
  (a_diff a = KNone -> a_delta_path a = true -> g_delta_source a = SDeserialize (CPathRead "delta_path" "rb") true) /\
  (a_diff a = KNone -> a_delta_path a = false -> a_delta_diff a = false -> a_delta_file a = true ->
     g_delta_source a = SDeserialize (CFileRead "delta_file") true) /\
  g_Delta_default_deserializer = "pickle_load"%string /\ g_deserializer_choice true g_pickle_load_co_varnames = DeserDirect /\
  g_Delta_default_serializer = "pickle_dump"%string /\ g_Delta_dump_mode g_pickle_dump_co_varnames = DumpFileObjKeyword "file_obj" /\
  g_Delta_dumps_mode = DumpsSerializerOfDiff.
Proof.
  intro a. rewrite g_delta_source_eq, g_deserializer_choice_eq, g_Delta_dump_mode_eq.
  destruct (persisted_sources a) as [H1 [H2 H3]].
  repeat split; try assumption; try reflexivity.
Qed.

(* C14_bytes_reloaded_delta_same_result, THE statement of the property, with both ends generated: the delta read back by the
   generated pickle_load from the bytes the generated pickle_dump wrote gives the same result on EVERY base *)
Theorem G_C14_bytes_reloaded_delta_same_result :
  forall conv rem_order add_order (e : env) (t : textw) (safe : pyv) (d : delta) (bs : list N) (f : wfile),
  e_dialect e = c_dialect t ->
  calls_ok (world_of e (g_init_allow (Some safe))) -> types_ok (world_of e (g_init_allow (Some safe))) (pv_of_delta d) ->
  wfp (pv_of_delta d) = true -> delta_ok d -> dump_ok (pv_of_delta d) = true ->
  g_pickle_dump (pv_of_delta d) g_pickle_dump_file_obj_default g_pickle_dump_protocol_default = Ret (DBytes bs, f) ->
  exists p d', payload_of (g_pickle_load e (VBytes bs) VNone safe) = Some p /\ delta_of_pv (d_bidir d) p = Some d' /\
    (forall base, apply conv rem_order add_order d' base = apply conv rem_order add_order d base) /\
    (forall base, sub conv rem_order add_order d' base = sub conv rem_order add_order d base).
Proof.
  intros conv ro ao e t safe d bs f Hd Hc Ht Hw Hok Hdo H.
  exists (pv_of_delta d), d. split; [apply (G_C14_bytes_pickle_roundtrip e t safe _ bs f); assumption|].
  split; [apply delta_of_pv_of_delta; exact Hok|]. split; reflexivity.
Qed.

Definition transfers := (G_C14_persistent_id_only_nonetype, G_C14_pickle_dump_is_canonical_encoding, G_C14_pickle_roundtrip,
  G_C14_nonetype_anywhere_roundtrip, G_C14_bytes_pickle_roundtrip, G_C14_file_pickle_roundtrip, G_C14_persisted_forms_route,
  G_C14_bytes_reloaded_delta_same_result).
Print Assumptions transfers.

(** C07 source tie: the injectivity theorems of Properties/C07.v restated about the serialiser regenerated from the
    current deepdiff/deephash.py (DDGen.HashGen), through the equalities of HashGenEquiv.v. *)
From Coq Require Import List ZArith NArith Bool String.
Import ListNotations.
From DD Require Import Base.PyStr Base.Value Hash.HashModel Hash.HashSrcPrims Hash.Equiv Hash.HashProofsC07 Hash.HashAlike
  Properties.C07.
From DDGen Require Import HashGen HashGenEquiv.

Section TransferC07.
Variable self : hself.
Let o := self_opts self.
Let H := self_hasher self.
Hypothesis H_ne : forall s, H s <> [].
Hypothesis H_tok : forall s, s <> [] -> sepfree (H s).
Hypothesis H_inj : forall s t, H s = H t -> s = t.

(* C07_deephash_inj_partial: on the observable DeepHash(v)[v] computed by the generated code, equal hashes only for
   equal content (order-insensitive modes, plain options, K1 / K2 guards) *)
Theorem T_C07_deephash_inj_partial : forall a b,
  plain o = true -> ignore_iterable_order o = true ->
  tag_safe a = true -> tag_safe b = true -> wf a = true -> wf b = true ->
  alias_free a = true -> alias_free b = true ->
  g_deephash self a = g_deephash self b -> eqv o a b.
Proof.
  intros a b Hp Hio Ta Tb Wa Wb Aa Ab He. rewrite !(g_deephash_eq self H_ne) in He.
  exact (C07_deephash_inj_partial H H_tok H_inj o a b Hp Hio Ta Tb Wa Wb Aa Ab He).
Qed.

(* together with T_C06_eqv_deephash_partial: the generated DeepHash(v)[v] decides [eqv] inside the guards *)
Theorem T_C07_deephash_decides_eqv : forall a b,
  plain o = true -> ignore_iterable_order o = true ->
  tag_safe a = true -> tag_safe b = true -> wf a = true -> wf b = true ->
  alias_free a = true -> alias_free b = true ->
  (g_deephash self a = g_deephash self b <-> eqv o a b).
Proof.
  intros a b Hp Hio Ta Tb Wa Wb Aa Ab. split.
  - apply T_C07_deephash_inj_partial; assumption.
  - apply (T_C06_eqv_hash self H_ne); assumption.
Qed.

End TransferC07.

(* the generated code itself (no equivalence used) exhibits K1 and K2 as collisions *)
Theorem T_C07_collisions_generated :
  let self := mk_hself default_opts xhex None in
  g_deephash self (VAtom (AStr (s2p "NONE"))) = g_deephash self (VAtom ANone) /\
  g_deephash self (VList [VAtom (AInt 1); VAtom (AHalf 2)]) = g_deephash self (VList [VAtom (AInt 1)]).
Proof. cbv zeta. split; vm_compute; reflexivity. Qed.

Print Assumptions T_C07_deephash_inj_partial.
Print Assumptions T_C07_deephash_decides_eqv.
Print Assumptions T_C07_collisions_generated.

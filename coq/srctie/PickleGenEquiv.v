(** coq/srctie/PickleGenEquiv.v - the definitions that harness/translate/unpickler.py regenerates from the CURRENT
    text of deepdiff/serialization.py (DDGen.PickleGen) equal the hand-written model of Pickle/Vm.v / Pickle/Bytes.v
    for all arguments, and the main theorems of Properties/C15.v hold of the generated definitions.
    Compiled on every run of ./check C15 against the regenerated text.  Proof scripts avoid naming anything the
    translation could rename (locals, message texts) and finish by case analysis on whatever conditions occur. *)
From Coq Require Import List ZArith NArith Bool String.
Import ListNotations.
From DD Require Import Base.PyStr Pickle.Vm Pickle.Bytes Pickle.PickleProofs Pickle.BytesProofs Pickle.SrcPrims Pickle.SrcPrimsFacts.
From DDGen Require Import PickleGen.

(* the key the generated find_class tests, however it is spelt ('{}.{}'.format / f-string / +), is [dotted m n] *)
Ltac norm_key m n :=
  repeat match goal with
  | |- context [py_in ?k _] =>
      lazymatch k with
      | dotted m n => fail
      | _ => replace k with (dotted m n) by (unfold dotted; cbn; rewrite ?app_nil_r, <- ?app_assoc; reflexivity)
      end
  end.
Ltac cases :=
  repeat match goal with
  | |- context [if ?c then _ else _] => destruct c eqn:?
  | |- context [match ?x with _ => _ end] => destruct x eqn:?
  end.

(** * SAFE_TO_IMPORT *)
Theorem g_SAFE_TO_IMPORT_eq : forall s, In s (strs_of g_SAFE_TO_IMPORT) <-> In s SAFE_TO_IMPORT.
Proof. apply same_members_b_spec. vm_compute. reflexivity. Qed.
Print Assumptions g_SAFE_TO_IMPORT_eq.

(** * find_class *)
Theorem g_find_class_eq : forall (p : process) (S : pyv) (w : world) (m n : pystr),
  setlike S = true ->
  (forall s, In s (strs_of S) <-> In s (allow w)) ->
  (forall m' n', lookup w m' n' = lookup_of p m' n') ->
  fc_of (g_find_class p S m n) = Some (find_class w m n).
Proof.
  intros p S w m n HS Hal Hlk. unfold g_find_class, find_class. cbv zeta. norm_key m n.
  rewrite (py_in_setlike _ _ HS), (mem_str_ext _ _ _ Hal), Hlk.
  unfold sys_modules_getitem, py_getattr, lookup_of.
  destruct (mem_str (dotted m n) (allow w)); destruct (p m) as [mo|]; try destruct (mo n);
    cbn [fc_of negb]; try reflexivity; cases; cbn [fc_of negb] in *; try reflexivity; congruence.
Qed.
Print Assumptions g_find_class_eq.

(* the generated resolver is an instance of the hand-written one: in the world of an unpickler whose
   self.safe_to_import is S, running in the process e *)
Theorem g_find_class_world : forall (e : env) (S : pyv) (m n : pystr),
  setlike S = true ->
  fc_of (g_find_class (e_proc e) S m n) = Some (find_class (world_of e S) m n).
Proof. intros e S m n HS. apply g_find_class_eq; [exact HS | reflexivity | reflexivity]. Qed.
Print Assumptions g_find_class_world.

(** * __init__: the allow-list in force *)
Lemma g_SAFE_setlike : setlike g_SAFE_TO_IMPORT = true.
Proof. reflexivity. Qed.
Local Opaque g_SAFE_TO_IMPORT.

(* what the caller's value contributes: a str itself, the str members of any other iterable *)
Definition user_strs (v : pyv) : list pystr :=
  match v with VStr s => [s] | VBytes _ => [] | _ => strs_of v end.

Theorem g_init_allow_setlike : forall o, setlike (g_init_allow o) = true.
Proof.
  intros o. unfold g_init_allow. cbv zeta.
  destruct o as [v|]; cbn [py_kwargs_pop]; [destruct v as [|t|b|l|l|l|l|b]; try destruct t; try destruct b; try destruct l|];
    cbn [py_truth py_isinstance existsb cls_eqb orb negb]; cases; rewrite ?setlike_py_or, ?g_SAFE_setlike; try reflexivity.
Qed.
Print Assumptions g_init_allow_setlike.

Theorem g_init_allow_spec : forall (v : pyv) (s : pystr),
  In s (strs_of (g_init_allow (Some v))) <->
  In s (strs_of g_SAFE_TO_IMPORT) \/ (py_truth v = true /\ In s (user_strs v)).
Proof.
  intros v s. unfold g_init_allow. cbv zeta. cbn [py_kwargs_pop].
  destruct v as [|t|b|l|l|l|l|b]; try destruct t; try destruct b; try destruct l;
    cbn [py_truth py_isinstance existsb cls_eqb orb negb]; cases;
    rewrite ?strs_of_py_or by reflexivity; rewrite ?in_app_iff;
    cbn [user_strs strs_of py_set elems flat_map app In map];
    rewrite ?in_app_iff; cbn [In]; intuition congruence.
Qed.
Print Assumptions g_init_allow_spec.

Theorem g_init_allow_absent : forall s, In s (strs_of (g_init_allow None)) <-> In s (strs_of g_SAFE_TO_IMPORT).
Proof.
  intros s. unfold g_init_allow. cbv zeta. cbn [py_kwargs_pop py_truth]. cases; try reflexivity.
Qed.
Print Assumptions g_init_allow_absent.

(* for the three shapes the hand model distinguishes (the iterable given as list / tuple / set / frozenset) the
   allow-list in force has the members of Vm.effective_allow *)
Theorem g_init_allow_eq : forall (c : pycls) (a : safe_arg) (s : pystr),
  In s (strs_of (g_init_allow (Some (arg_of c a)))) <-> In s (effective_allow a).
Proof.
  intros c a s. rewrite g_init_allow_spec, effective_allow_spec, g_SAFE_TO_IMPORT_eq.
  generalize (In s SAFE_TO_IMPORT). intros P.
  destruct a as [|[|x t]|[|x l]]; cbn [arg_of user_names map].
  - cbn [py_truth user_strs In]. intuition discriminate.
  - cbn [py_truth user_strs In]. intuition discriminate.
  - cbn [py_truth user_strs In]. intuition congruence.
  - destruct c; cbn [mk_iter py_truth user_strs strs_of elems flat_map In]; intuition discriminate.
  - assert (H : strs_of (mk_iter c (VStr x :: map VStr l)) = x :: l) by (apply (strs_of_mk_iter c (x :: l))).
    destruct c; cbn [mk_iter py_truth user_strs] in *; rewrite H; intuition congruence.
Qed.
Print Assumptions g_init_allow_eq.

(** * persistent_load *)
Theorem g_persistent_load_eq : forall pid : obj, g_persistent_load pid = persistent_load pid.
Proof.
  intros pid. unfold g_persistent_load, persistent_load, obj_eq_str, NONE_TYPE_PID.
  destruct pid; cbn [negb]; cases; cbn [negb] in *; try reflexivity; congruence.
Qed.
Print Assumptions g_persistent_load_eq.

(** * _RestrictedPickler.persistent_id *)
(* the pickler writes exactly the class NoneType as a persistent id, and the id is the one the hand-written encoder
   (Codec.enc PNoneType = [enc_str NONE_TYPE_PID; BINPERSID]) and persistent_load use *)
Theorem g_persistent_id_eq : forall o : obj,
  g_persistent_id o = if obj_is_nonetype o then Some NONE_TYPE_PID else None.
Proof.
  intros o. unfold g_persistent_id, NONE_TYPE_PID. destruct o; cbn [obj_is_nonetype obj_is_none negb];
    cases; cbn [obj_is_nonetype obj_is_none negb] in *; try reflexivity; congruence.
Qed.
Print Assumptions g_persistent_id_eq.

(* what the generated persistent_id writes, the generated persistent_load reads back: the two ends agree *)
Theorem G_persistent_id_roundtrip : forall (o : obj) (pid : pystr),
  g_persistent_id o = Some pid -> g_persistent_load (OStr pid) = o.
Proof.
  intros o pid H. rewrite g_persistent_id_eq in H. rewrite g_persistent_load_eq.
  destruct o; cbn [obj_is_nonetype] in H; try discriminate H. inversion H; subst. reflexivity.
Qed.
Print Assumptions G_persistent_id_roundtrip.
Theorem G_persistent_id_only_nonetype : forall o : obj, g_persistent_id o <> None <-> o = ONoneType.
Proof.
  intros o. rewrite g_persistent_id_eq. destruct o; cbn [obj_is_nonetype]; split; intro H; try reflexivity; try discriminate H;
    try (exfalso; apply H; reflexivity). discriminate.
Qed.
Print Assumptions G_persistent_id_only_nonetype.

(** * pickle_load *)
(* pickle_load(content) for a bytes content is Bytes.load_content in the world of the unpickler it constructs *)
Theorem g_pickle_load_eq : forall (e : env) (bs : list N) (safe : pyv),
  result_of (g_pickle_load e (VBytes bs) VNone safe) =
  Some (load_content (world_of e (g_init_allow (Some safe))) (e_dialect e) bs).
Proof.
  intros e bs safe. unfold g_pickle_load, load_content. cbv zeta.
  destruct bs as [|b bs]; cbn [py_truth py_isinstance existsb cls_eqb negb andb orb py_BytesIO py_encode_utf8];
    cases; cbn [py_truth py_isinstance existsb cls_eqb negb andb orb py_BytesIO py_encode_utf8 unpickler_load result_of] in *;
    try reflexivity; try discriminate.
Qed.
Print Assumptions g_pickle_load_eq.

(* a str content is encoded as UTF-8 first *)
Theorem g_pickle_load_str_eq : forall (e : env) (s : pystr) (safe : pyv),
  result_of (g_pickle_load e (VStr s) VNone safe) =
  Some (load_content (world_of e (g_init_allow (Some safe))) (e_dialect e) (utf8_enc s)).
Proof.
  intros e s safe. unfold g_pickle_load, load_content. cbv zeta.
  destruct s as [|c s].
  - cbn [utf8_enc flat_map py_truth py_isinstance existsb cls_eqb negb andb orb py_BytesIO py_encode_utf8];
      cases; cbn [utf8_enc flat_map py_truth py_isinstance existsb cls_eqb negb andb orb py_BytesIO py_encode_utf8 unpickler_load result_of] in *; try reflexivity; try discriminate.
  - destruct (utf8_enc_nonempty c s) as [b [r E]].
    cbn [py_truth py_isinstance existsb cls_eqb negb andb orb py_encode_utf8]. rewrite E.
    cases; cbn [py_truth py_isinstance existsb cls_eqb negb andb orb py_BytesIO py_encode_utf8 unpickler_load result_of] in *;
      try reflexivity; try discriminate.
Qed.
Print Assumptions g_pickle_load_str_eq.

(* no (or empty) content: the file object is read instead; neither: ValueError *)
Definition falsy_content (v : pyv) : Prop := v = VNone \/ v = VBytes [] \/ v = VStr [].
Theorem g_pickle_load_file_eq : forall (e : env) (content : pyv) (b : list N) (safe : pyv),
  falsy_content content ->
  g_pickle_load e content (VFile b) safe = Ret (bytes_run (world_of e (g_init_allow (Some safe))) (e_dialect e) b).
Proof.
  intros e content b safe [->|[->| ->]]; unfold g_pickle_load; cbv zeta;
    cbn [utf8_enc flat_map py_truth py_isinstance existsb cls_eqb negb andb orb py_BytesIO py_encode_utf8];
    cases; cbn [utf8_enc flat_map py_truth py_isinstance existsb cls_eqb negb andb orb py_BytesIO py_encode_utf8 unpickler_load result_of] in *; try reflexivity; try discriminate.
Qed.
Print Assumptions g_pickle_load_file_eq.
Theorem g_pickle_load_nothing : forall (e : env) (content : pyv) (safe : pyv),
  falsy_content content -> exists msg, g_pickle_load e content VNone safe = Raise (EValueError msg).
Proof.
  intros e content safe [->|[->| ->]]; unfold g_pickle_load; cbv zeta;
    cbn [utf8_enc flat_map py_truth py_isinstance existsb cls_eqb negb andb orb py_BytesIO py_encode_utf8];
    cases; cbn [utf8_enc flat_map py_truth py_isinstance existsb cls_eqb negb andb orb py_BytesIO py_encode_utf8 unpickler_load result_of] in *; try discriminate; eexists; reflexivity.
Qed.
Print Assumptions g_pickle_load_nothing.

(** * Transfer: the theorems of Properties/C15.v, about the GENERATED definitions *)

(* C15_find_class_exact: for every allow-list value and every process the generated find_class raises
   ForbiddenModule exactly for the pairs whose joined name is not a member, and returns exactly for the members
   that exist in the process *)
Theorem G_C15_find_class_exact : forall (p : process) (S : pyv) (m n : pystr), setlike S = true ->
  ((exists msg, g_find_class p S m n = Raise (EForbiddenModule msg)) <-> ~ In (dotted m n) (strs_of S)) /\
  (forall k, g_find_class p S m n = Ret k <-> In (dotted m n) (strs_of S) /\ lookup_of p m n = Found k).
Proof.
  intros p S m n HS.
  pose (w := mkWorld (strs_of S) (lookup_of p) (fun _ _ _ => true) (fun _ _ => true) [] (fun _ => None)).
  pose proof (g_find_class_eq p S w m n HS (fun s => iff_refl _) (fun _ _ => eq_refl)) as E.
  destruct (find_class_exact w m n) as [F R]. change (allow w) with (strs_of S) in F, R.
  change (lookup w m n) with (lookup_of p m n) in R. split.
  - rewrite <- fc_of_forbidden, E. rewrite <- F. split; [intro H; inversion H; reflexivity | intros ->; reflexivity].
  - intro k. rewrite <- fc_of_resolved, E, <- (R k). split; [intro H; inversion H; reflexivity | intros ->; reflexivity].
Qed.
Print Assumptions G_C15_find_class_exact.

(* C15_decision_depends_on_join *)
Theorem G_C15_decision_depends_on_join : forall (p : process) (S : pyv) (m n m' n' : pystr), setlike S = true ->
  dotted m n = dotted m' n' ->
  ((exists msg, g_find_class p S m n = Raise (EForbiddenModule msg)) <->
   (exists msg, g_find_class p S m' n' = Raise (EForbiddenModule msg))).
Proof.
  intros p S m n m' n' HS E.
  rewrite (proj1 (G_C15_find_class_exact p S m n HS)), (proj1 (G_C15_find_class_exact p S m' n' HS)), E. reflexivity.
Qed.
Print Assumptions G_C15_decision_depends_on_join.

(* C15_effective_allow_list: the allow-list the generated __init__ leaves in self.safe_to_import is the generated
   SAFE_TO_IMPORT plus what the caller passed - nothing else *)
Theorem G_C15_effective_allow_list : forall (c : pycls) (a : safe_arg) (s : pystr),
  In s (strs_of (g_init_allow (Some (arg_of c a)))) <-> In s (strs_of g_SAFE_TO_IMPORT) \/ In s (user_names a).
Proof. intros c a s. rewrite g_init_allow_eq, effective_allow_spec, g_SAFE_TO_IMPORT_eq. reflexivity. Qed.
Print Assumptions G_C15_effective_allow_list.

(* C15_bytes_no_forbidden_resolution_partial, the main theorem: for EVERY byte string handed to the generated
   pickle_load, every value of safe_to_import, every process / reader dialect whose extension cache holds no
   forbidden global: every global the machine resolves has its joined name in the allow-list the generated
   __init__ computed (and the generated find_class does not forbid it); everything called, built, passed or
   returned contains only such globals; ForbiddenModule names a pair the generated find_class forbids *)
Theorem G_C15_bytes_no_forbidden_resolution_partial :
  forall (e : env) (safe : pyv) (bs : list N) out tr,
  ext_cache_safe_b (world_of e (g_init_allow (Some safe))) = true ->
  g_pickle_load e (VBytes bs) VNone safe = Ret (out, tr) ->
  (forall m n, In (EResolve m n) tr ->
     In (dotted m n) (strs_of (g_init_allow (Some safe))) /\
     forall msg, g_find_class (e_proc e) (g_init_allow (Some safe)) m n <> Raise (EForbiddenModule msg)) /\
  (forall ev, In ev tr -> ev_safe_b (strs_of (g_init_allow (Some safe))) ev = true) /\
  (forall v, out = Done v -> safe_b (strs_of (g_init_allow (Some safe))) v = true) /\
  (forall m n, out = Err (Forbidden m n) ->
     ~ In (dotted m n) (strs_of (g_init_allow (Some safe))) /\
     exists msg, g_find_class (e_proc e) (g_init_allow (Some safe)) m n = Raise (EForbiddenModule msg)).
Proof.
  intros e safe bs out tr Hg H.
  pose proof (g_pickle_load_eq e bs safe) as E. rewrite H in E. cbn [result_of] in E. inversion E as [E'].
  symmetry in E'. pose proof (g_init_allow_setlike (Some safe)) as HS.
  destruct (bytes_no_forbidden_resolution _ _ _ _ _ Hg E') as [H1 [H2 [H3 H4]]]. rewrite allow_world_of in *.
  split; [|split; [exact H2|split; [exact H3|]]].
  - intros m n Hin. split; [apply (H1 m n Hin)|]. intros msg Hr.
    apply (proj1 (proj1 (G_C15_find_class_exact (e_proc e) _ m n HS)) (ex_intro _ msg Hr)). apply (H1 m n Hin).
  - intros m n Ho. split; [apply (H4 m n Ho)|].
    apply (proj2 (proj1 (G_C15_find_class_exact (e_proc e) _ m n HS))). apply (H4 m n Ho).
Qed.
Print Assumptions G_C15_bytes_no_forbidden_resolution_partial.

(* the same for a load that reads from a file object *)
Theorem G_C15_file_no_forbidden_resolution_partial :
  forall (e : env) (safe content : pyv) (b : list N) out tr,
  falsy_content content ->
  ext_cache_safe_b (world_of e (g_init_allow (Some safe))) = true ->
  g_pickle_load e content (VFile b) safe = Ret (out, tr) ->
  (forall m n, In (EResolve m n) tr -> In (dotted m n) (strs_of (g_init_allow (Some safe)))) /\
  (forall ev, In ev tr -> ev_safe_b (strs_of (g_init_allow (Some safe))) ev = true) /\
  (forall v, out = Done v -> safe_b (strs_of (g_init_allow (Some safe))) v = true) /\
  (forall m n, out = Err (Forbidden m n) -> ~ In (dotted m n) (strs_of (g_init_allow (Some safe)))).
Proof.
  intros e safe content b out tr Hc Hg H. rewrite (g_pickle_load_file_eq e content b safe Hc) in H.
  inversion H as [E]. apply (bytes_run_no_forbidden_resolution _ _ _ _ _ Hg E).
Qed.
Print Assumptions G_C15_file_no_forbidden_resolution_partial.

(* with the allow-list spelt out for the documented shapes of safe_to_import: a resolved global is on the generated
   SAFE_TO_IMPORT or was named by the caller *)
Theorem G_C15_resolved_names_documented :
  forall (e : env) (c : pycls) (a : safe_arg) (bs : list N) out tr,
  ext_cache_safe_b (world_of e (g_init_allow (Some (arg_of c a)))) = true ->
  g_pickle_load e (VBytes bs) VNone (arg_of c a) = Ret (out, tr) ->
  forall m n, In (EResolve m n) tr -> In (dotted m n) (strs_of g_SAFE_TO_IMPORT) \/ In (dotted m n) (user_names a).
Proof.
  intros e c a bs out tr Hg H m n Hin. apply (G_C15_effective_allow_list c a).
  apply (proj1 (G_C15_bytes_no_forbidden_resolution_partial e _ bs out tr Hg H) m n Hin).
Qed.
Print Assumptions G_C15_resolved_names_documented.

(* C15_bytes_rejected_at_first_forbidden_lookup (no guard): whatever bytes precede and follow, the first decoded
   opcode asking for a pair the generated find_class forbids ends the generated pickle_load with ForbiddenModule
   and the trace of the prefix *)
Theorem G_C15_bytes_rejected_at_first_forbidden_lookup :
  forall (e : env) (safe : pyv) (bs : list N) pre o post st1 m n,
  bs <> [] -> bdecode_ops (e_dialect e) bs = (pre ++ o :: post)%list ->
  exec (world_of e (g_init_allow (Some safe))) (init (world_of e (g_init_allow (Some safe)))) pre = Some st1 ->
  requested (world_of e (g_init_allow (Some safe))) st1 o = Some (m, n) ->
  (exists msg, g_find_class (e_proc e) (g_init_allow (Some safe)) m n = Raise (EForbiddenModule msg)) ->
  g_pickle_load e (VBytes bs) VNone safe = Ret (Err (Forbidden m n), rev (trace st1)).
Proof.
  intros e safe bs pre o post st1 m n Hne Hd He Hr Hf.
  pose proof (g_init_allow_setlike (Some safe)) as HS.
  apply (proj1 (proj1 (G_C15_find_class_exact (e_proc e) _ m n HS))) in Hf.
  pose proof (bytes_rejected_at_first_forbidden_lookup _ _ bs pre o post st1 m n Hne Hd He Hr Hf) as L.
  apply result_of_inv; [|discriminate]. rewrite g_pickle_load_eq, L. reflexivity.
Qed.
Print Assumptions G_C15_bytes_rejected_at_first_forbidden_lookup.

(* C15_persistent_id_only_nonetype *)
Theorem G_C15_persistent_id_only_nonetype : forall pid : obj,
  (g_persistent_load pid = ONoneType <-> pid = OStr NONE_TYPE_PID) /\
  (g_persistent_load pid = ONoneType \/ g_persistent_load pid = ONone).
Proof. intros pid. rewrite g_persistent_load_eq. apply persistent_load_only_nonetype. Qed.
Print Assumptions G_C15_persistent_id_only_nonetype.

(** * Sanity of the generated literal list (finite: by computation) *)
Local Transparent g_SAFE_TO_IMPORT.
Local Open Scope string_scope.
(* every entry has the shape module.name the key format assumes *)
Theorem G_SAFE_TO_IMPORT_entries_are_module_dot_name : forall s, In s (strs_of g_SAFE_TO_IMPORT) ->
  exists m n, m <> [] /\ n <> [] /\ dotted m n = s.
Proof.
  assert (H : forallb entry_shape_ok (strs_of g_SAFE_TO_IMPORT) = true) by (vm_compute; reflexivity).
  intros s Hin. apply entry_shape_ok_spec. rewrite forallb_forall in H. apply (H s Hin).
Qed.
Print Assumptions G_SAFE_TO_IMPORT_entries_are_module_dot_name.

(* the names the property is about are not in it: with the default allow-list the generated find_class forbids them *)
Definition dangerous : list (pystr * pystr) :=
  map (fun p => (s2p (fst p), s2p (snd p)))
    [("builtins", "eval"); ("builtins", "exec"); ("builtins", "compile"); ("builtins", "getattr"); ("builtins", "setattr");
     ("builtins", "__import__"); ("builtins", "open"); ("builtins", "globals"); ("builtins", "breakpoint"); ("builtins", "id");
     ("os", "system"); ("os", "popen"); ("os", "getpid"); ("posix", "system"); ("nt", "system"); ("subprocess", "Popen");
     ("subprocess", "call"); ("subprocess", "check_output"); ("importlib", "import_module"); ("pickle", "loads");
     ("pickle", "load"); ("_pickle", "loads"); ("copyreg", "add_extension"); ("sys", "modules"); ("builtins", "object");
     ("builtins", "type"); ("functools", "partial"); ("operator", "attrgetter"); ("deepdiff.serialization", "pickle_load")].
Theorem G_SAFE_TO_IMPORT_forbids_dangerous : forall (p : process) m n, In (m, n) dangerous ->
  exists msg, g_find_class p (g_init_allow None) m n = Raise (EForbiddenModule msg).
Proof.
  intros p m n Hin. apply (proj2 (proj1 (G_C15_find_class_exact p _ m n (g_init_allow_setlike None)))).
  rewrite g_init_allow_absent. apply mem_str_false.
  assert (H : forallb (fun q => negb (mem_str (dotted (fst q) (snd q)) (strs_of g_SAFE_TO_IMPORT))) dangerous = true)
    by (vm_compute; reflexivity).
  rewrite forallb_forall in H. specialize (H (m, n) Hin). cbn [fst snd] in H. apply negb_true_iff in H. exact H.
Qed.
Print Assumptions G_SAFE_TO_IMPORT_forbids_dangerous.

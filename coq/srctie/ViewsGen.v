(* generated from deepdiff/model.py (FORCE_DEFAULT, REPORT_KEYS, CUSTOM_FIELD, class TextResult), deepdiff/serialization.py
   (_get_pretty_form_text, pretty_print_diff) and deepdiff/helper.py (dict_, RemapDict, strings: checked only) by
   harness/translate/textresult.py - do not edit; definitions only *)
From Coq Require Import List ZArith NArith Bool Arith String.
Import ListNotations.
From DD Require Import Base.PyStr Base.Value Diff.Tree Views.ViewsSrc.
Local Open Scope string_scope.
Local Open Scope bool_scope.

Definition g_FORCE_DEFAULT : string := "fake".

Definition g_CUSTOM_FIELD : string := "__internal:custom:extra_info".

Definition g_REPORT_KEYS : list string :=
  ["type_changes"; "dictionary_item_added"; "dictionary_item_removed"; "values_changed"; "unprocessed"; "iterable_item_added"; "iterable_item_removed"; "iterable_item_moved"; "attribute_added"; "attribute_removed"; "set_item_removed"; "set_item_added"; "repetition_change"].

Definition g_TextResult_ADD_QUOTES_TO_STRINGS : bool := true.

Definition g__from_tree_type_changes (self : gself) (tree : gtree) : gself :=
  let self :=
    if (tree_has tree "type_changes") then (
      let self := fold_left (fun (self : gself) (change : level) =>
          let path := (lv_path (Some g_FORCE_DEFAULT) false change) in
          let include_values := true in
          let old_type := (py_get_type (lv_t1 change)) in
          let new_type := (py_get_type (lv_t2 change)) in
          let remap_dict := (dict_lit [("old_type", old_type); ("new_type", new_type)]) in
          let remap_dict :=
            if (Nat.ltb 1 (s_verbose self)) then (
              let new_path := (lv_path (Some g_FORCE_DEFAULT) true change) in
              let remap_dict :=
                if (negb (py_eqb path new_path)) then (
                  let remap_dict := dict_set remap_dict "new_path" new_path in
                  remap_dict
                ) else (
                  remap_dict
                ) in
              remap_dict
            ) else (
              remap_dict
            ) in
          let key__1 := path in
          let remap_dict :=
            if ((negb (Nat.eqb (s_verbose self) 0)) && include_values) then (
              let remap_dict := dict_update remap_dict [("old_value", (lv_t1 change)); ("new_value", (lv_t2 change))] in
              remap_dict
            ) else (
              remap_dict
            ) in
          let self := self_setitem self "type_changes" key__1 (ODict remap_dict) in
          self
        ) (tree_get tree "type_changes") self in
      self
    ) else (
      self
    ) in
  self.

Definition g__from_tree_default (self : gself) (tree : gtree) (report_type : string) (ignore_if_in_iterable_opcodes : bool) : gself :=
  let self :=
    if (tree_has tree report_type) then (
      let self := fold_left (fun (self : gself) (change : level) =>
          if (ignore_if_in_iterable_opcodes && (str_mem report_type ["iterable_item_added"; "iterable_item_removed"]) && (opcodes_has self (lv_up_path (Some g_FORCE_DEFAULT) change))) then self else (
            let item :=
              if (negb (is_notpresent (lv_t2 change))) then (
                let item := (lv_t2 change) in
                item
              ) else (
                let item := (lv_t1 change) in
                item
              ) in
            let report := (self_container self report_type) in
            let self :=
              if (isinstance_c report PC_SetOrdered) then (
                let self := self_add self report_type (lv_path (Some g_FORCE_DEFAULT) false change) in
                self
              ) else (
                let self :=
                  if (isinstance_c report PC_dict) then (
                    let self := self_setitem self report_type (lv_path (Some g_FORCE_DEFAULT) false change) item in
                    self
                  ) else (
                    let self :=
                      if (isinstance_c report PC_list) then (
                        let self := self_append self report_type (lv_path (Some g_FORCE_DEFAULT) false change) in
                        self
                      ) else (
                        let self := self_raise self in
                        self
                      ) in
                    self
                  ) in
                self
              ) in
            self
          )
        ) (tree_get tree report_type) self in
      self
    ) else (
      self
    ) in
  self.

Definition g__from_tree_value_changed (self : gself) (tree : gtree) : gself :=
  let self :=
    if ((tree_has tree "values_changed") && (Nat.ltb 0 (s_verbose self))) then (
      let self := fold_left (fun (self : gself) (change : level) =>
          let path := (lv_path (Some g_FORCE_DEFAULT) false change) in
          let the_changed := (dict_lit [("new_value", (lv_t2 change)); ("old_value", (lv_t1 change))]) in
          let the_changed :=
            if (Nat.ltb 1 (s_verbose self)) then (
              let new_path := (lv_path (Some g_FORCE_DEFAULT) true change) in
              let the_changed :=
                if (negb (py_eqb path new_path)) then (
                  let the_changed := dict_set the_changed "new_path" new_path in
                  the_changed
                ) else (
                  the_changed
                ) in
              the_changed
            ) else (
              the_changed
            ) in
          let key__1 := path in
          let the_changed :=
            if (dict_has (lv_additional change) "diff") then (
              let the_changed := dict_update the_changed [("diff", (dict_get (lv_additional change) "diff"))] in
              the_changed
            ) else (
              the_changed
            ) in
          let self := self_setitem self "values_changed" key__1 (ODict the_changed) in
          self
        ) (tree_get tree "values_changed") self in
      self
    ) else (
      self
    ) in
  self.

Definition g__from_tree_unprocessed (self : gself) (tree : gtree) : gself :=
  let self :=
    if (tree_has tree "unprocessed") then (
      let self := fold_left (fun (self : gself) (change : level) =>
          let self := self_append self "unprocessed" (py_format "{}: {} and {}" [(lv_path (Some g_FORCE_DEFAULT) false change); (lv_t1 change); (lv_t2 change)] []) in
          self
        ) (tree_get tree "unprocessed") self in
      self
    ) else (
      self
    ) in
  self.

Definition g__from_tree_iterable_item_moved (self : gself) (tree : gtree) : gself :=
  let self :=
    if ((tree_has tree "iterable_item_moved") && (Nat.ltb 1 (s_verbose self))) then (
      let self := fold_left (fun (self : gself) (change : level) =>
          let the_changed := (dict_lit [("new_path", (lv_path None true change)); ("value", (lv_t2 change))]) in
          let self := self_setitem self "iterable_item_moved" (lv_path (Some g_FORCE_DEFAULT) false change) (ODict the_changed) in
          self
        ) (tree_get tree "iterable_item_moved") self in
      self
    ) else (
      self
    ) in
  self.

Definition g__from_tree_set_item_added_or_removed (self : gself) (tree : gtree) (key : string) : gself :=
  let self :=
    if (tree_has tree key) then (
      let set_item_info := (self_container self key) in
      let is_dict := (isinstance_c set_item_info PC_Mapping) in
      let self := fold_left (fun (self : gself) (change : level) =>
          let path := (lv_up_path None change) in
          let item := (if (String.eqb key "set_item_added") then (lv_t2 change) else (lv_t1 change)) in
          let item :=
            if (g_TextResult_ADD_QUOTES_TO_STRINGS && (py_isinstance_strings item)) then (
              let item := (py_percent "'%s'" item) in
              item
            ) else (
              item
            ) in
          let self :=
            if is_dict then (
              let self :=
                if (negb (self_has self key path)) then (
                  let self := self_setitem self key path (OSet []) in
                  self
                ) else (
                  self
                ) in
              let self := self_item_add self key path item in
              self
            ) else (
              let self := self_add self key (py_format "{}[{}]" [path; (py_str_obj item)] []) in
              self
            ) in
          self
        ) (tree_get tree key) self in
      self
    ) else (
      self
    ) in
  self.

Definition g__from_tree_set_item_removed (self : gself) (tree : gtree) : gself :=
  let self := g__from_tree_set_item_added_or_removed self tree "set_item_removed" in
  self.

Definition g__from_tree_set_item_added (self : gself) (tree : gtree) : gself :=
  let self := g__from_tree_set_item_added_or_removed self tree "set_item_added" in
  self.

Definition g__from_tree_repetition_change (self : gself) (tree : gtree) : gself :=
  let self :=
    if (tree_has tree "repetition_change") then (
      let self := fold_left (fun (self : gself) (change : level) =>
          let path := (lv_path (Some g_FORCE_DEFAULT) false change) in
          let self := self_setitem self "repetition_change" path (ODict (py_dict_of (dict_get (lv_additional change) "repetition"))) in
          let self := self_item_setfield self "repetition_change" path "value" (lv_t1 change) in
          self
        ) (tree_get tree "repetition_change") self in
      self
    ) else (
      self
    ) in
  self.

Definition g__from_tree_deep_distance (self : gself) (tree : gtree) : gself :=
  let self :=
    if (tree_has tree "deep_distance") then (
      let self := self_setcat self "deep_distance" (tree_item tree "deep_distance") in
      self
    ) else (
      self
    ) in
  self.

Definition g__from_tree_custom_results (self : gself) (tree : gtree) : gself :=
  let self := fold_left (fun (self : gself) (k : string) =>
    if (negb (str_mem k g_REPORT_KEYS)) then self_custom self k else self
  ) (tree_keys tree) self in
  self.

Definition g__from_tree_results (self : gself) (tree : gtree) : gself :=
  let self := g__from_tree_type_changes self tree in
  let self := g__from_tree_default self tree "dictionary_item_added" false in
  let self := g__from_tree_default self tree "dictionary_item_removed" false in
  let self := g__from_tree_value_changed self tree in
  let self := g__from_tree_unprocessed self tree in
  let self := g__from_tree_default self tree "iterable_item_added" false in
  let self := g__from_tree_default self tree "iterable_item_removed" false in
  let self := g__from_tree_iterable_item_moved self tree in
  let self := g__from_tree_default self tree "attribute_added" false in
  let self := g__from_tree_default self tree "attribute_removed" false in
  let self := g__from_tree_set_item_removed self tree in
  let self := g__from_tree_set_item_added self tree in
  let self := g__from_tree_repetition_change self tree in
  let self := g__from_tree_deep_distance self tree in
  let self := g__from_tree_custom_results self tree in
  self.

Definition g___set_or_dict (self : gself) : container :=
  (if (Nat.leb 2 (s_verbose self)) then CDict else CSetOrdered).

Definition g___init__ (tree_results : gtree) (verbose_level : nat) : gself :=
  let self := self_new in
  let self := set_verbose self verbose_level in
  let self := self_init_containers self [("type_changes", CDict); ("dictionary_item_added", (g___set_or_dict self)); ("dictionary_item_removed", (g___set_or_dict self)); ("values_changed", CDict); ("unprocessed", CList); ("iterable_item_added", CDict); ("iterable_item_removed", CDict); ("iterable_item_moved", CDict); ("attribute_added", (g___set_or_dict self)); ("attribute_removed", (g___set_or_dict self)); ("set_item_removed", CSetOrdered); ("set_item_added", CSetOrdered); ("repetition_change", CDict)] in
  let self :=
    if (tree_truthy tree_results) then (
      let self := g__from_tree_results self tree_results in
      self
    ) else (
      self
    ) in
  self.

Definition g_category_order : list string :=
  ["type_changes"; "default:dictionary_item_added"; "default:dictionary_item_removed"; "value_changed"; "unprocessed"; "default:iterable_item_added"; "default:iterable_item_removed"; "iterable_item_moved"; "default:attribute_added"; "default:attribute_removed"; "set_item_removed"; "set_item_added"; "repetition_change"; "deep_distance"; "custom_results"].

Definition g__get_pretty_form_text (verbose_level : nat) : sdict :=
  let pretty_form_texts := (sdict_lit [("type_changes", "Type of {diff_path} changed from {type_t1} to {type_t2} and value changed from {val_t1} to {val_t2}."); ("values_changed", "Value of {diff_path} changed from {val_t1} to {val_t2}."); ("dictionary_item_added", "Item {diff_path} added to dictionary."); ("dictionary_item_removed", "Item {diff_path} removed from dictionary."); ("iterable_item_added", "Item {diff_path} added to iterable."); ("iterable_item_removed", "Item {diff_path} removed from iterable."); ("attribute_added", "Attribute {diff_path} added."); ("attribute_removed", "Attribute {diff_path} removed."); ("set_item_added", "Item {set_path}[{val_t2}] added to set."); ("set_item_removed", "Item {set_path}[{val_t1}] removed from set."); ("repetition_change", "Repetition change for item {diff_path}.")]) in
  let pretty_form_texts :=
    if (Nat.eqb verbose_level 2) then (
      let pretty_form_texts := sdict_update pretty_form_texts [("dictionary_item_added", "Item {diff_path} ({val_t2}) added to dictionary."); ("dictionary_item_removed", "Item {diff_path} ({val_t1}) removed from dictionary."); ("iterable_item_added", "Item {diff_path} ({val_t2}) added to iterable."); ("iterable_item_removed", "Item {diff_path} ({val_t1}) removed from iterable."); ("attribute_added", "Attribute {diff_path} ({val_t2}) added."); ("attribute_removed", "Attribute {diff_path} ({val_t1}) removed.")] in
      pretty_form_texts
    ) else (
      pretty_form_texts
    ) in
  pretty_form_texts.

Definition g_pretty_print_diff (verbose_level : nat) (diff : level) : pyobj :=
  let type_t1 := (py_type_name (py_get_type (lv_t1 diff))) in
  let type_t2 := (py_type_name (py_get_type (lv_t2 diff))) in
  let val_t1 := (if (py_eqb type_t1 (py_str_const "str")) then (py_format """{}""" [(py_str_obj (lv_t1 diff))] []) else (py_str_obj (lv_t1 diff))) in
  let val_t2 := (if (py_eqb type_t2 (py_str_const "str")) then (py_format """{}""" [(py_str_obj (lv_t2 diff))] []) else (py_str_obj (lv_t2 diff))) in
  let diff_path := (lv_path None false diff) in
  let set_path := (if (lv_has_up diff) then (lv_up_path None diff) else (py_str_const "root")) in
  (py_format (sdict_get (g__get_pretty_form_text verbose_level) (lv_report_type diff) "") [] [("diff_path", diff_path); ("set_path", set_path); ("type_t1", type_t1); ("type_t2", type_t2); ("val_t1", val_t1); ("val_t2", val_t2)]).

(** C11 source tie: the definitions regenerated from /repo's current source (DDGen.OptionsGen, translator
    harness/translate/optionskeys.py) EQUAL the hand-written model of Options/YModel.v, for all arguments;
    then the theorems of Properties/C11.v that rest on key cleaning / number comparison, restated about the
    generated definitions.  Compiled on every run of ./check C11 against the freshly generated text. *)
From Coq Require Import List ZArith NArith Bool Arith Lia String.
Import ListNotations.
From DD Require Import Base.PyStr Options.OptModel Options.OptDtModel Options.YValue Options.YModel Options.OptSrcPrims.
From DD Require Import Options.YProofsBase Options.YProofsAtoms Options.YProofsKeys.
From DD Require Options.YProofsCompNum.
From DDGen Require Import OptionsGen.

(* ---------------------------------------------------------------------- *)
(* facts about the embedding                                                *)
(* ---------------------------------------------------------------------- *)
Lemma py_format_kv : forall x y, py_format (s2p "{}:{}") [Some x; Some y] = Some (x ++ colon ++ y)%list.
Proof.
  intros x y. unfold py_format. cbn [all_texts]. f_equal.
  change (s2p "{}:{}") with [123%N; 125%N; 58%N; 123%N; 125%N].
  cbn [py_format_raw N.eqb Pos.eqb andb]. rewrite app_nil_r. reflexivity.
Qed.
Lemma py_format_kv_none : forall x, py_format (s2p "{}:{}") [Some x; None] = None.
Proof. reflexivity. Qed.

Lemma existsb_rev : forall {A} (f : A -> bool) l, existsb f (rev l) = existsb f l.
Proof.
  intros A f l. induction l as [|a l IH]; [reflexivity|].
  cbn [rev existsb]. rewrite existsb_app, IH. cbn [existsb]. rewrite orb_false_r. apply orb_comm.
Qed.

Lemma py_dict_set_fresh : forall d k v, py_dict_contains d k = false -> py_dict_set d k v = (d ++ [(k, v)])%list.
Proof.
  intros d k v. unfold py_dict_contains, mem_atom. induction d as [|[k' v'] d IH]; intros H; [reflexivity|].
  cbn [map fst existsb] in H. apply orb_false_iff in H. destruct H as [H1 H2].
  cbn [py_dict_set app]. rewrite py_eq_sym, H1. rewrite (IH H2). reflexivity.
Qed.

(* ---------------------------------------------------------------------- *)
(* Base.get_significant_digits                                              *)
(* ---------------------------------------------------------------------- *)
Theorem g_get_significant_digits_eq : forall F, g_get_significant_digits (o_sig F) (o_numty F) = Ok (eff_sig F).
Proof.
  intros F. unfold g_get_significant_digits, eff_sig.
  destruct (o_sig F) as [d|].
  - assert (N.ltb d 0 = false) as Hd by (destruct d; reflexivity).
    cbn [py_is_not_none py_is_none negb py_opt_ltb andb bind]. rewrite Hd. reflexivity.
  - cbn [py_is_not_none py_is_none negb py_opt_ltb andb bind]. destruct (o_numty F); reflexivity.
Qed.
Print Assumptions g_get_significant_digits_eq.

(* ---------------------------------------------------------------------- *)
(* helper.number_to_string                                                  *)
(* ---------------------------------------------------------------------- *)
Definition nstr_result (F : opts) (d : N) (a : atom) : res atom :=
  match nstr F d a with Some (Ok s) => Ok (AStr s) | Some (Err e) => Err e | None => Ok a end.

Lemma fmt_round : forall F d k fl,
  (do number <- (if py_eq_zero (PRound k d fl) then Ok (py_abs (PRound k d fl)) else Ok (PRound k d fl));
   do v <- py_format_num (if o_note F then s2p "{:.%se}" else s2p "{:.%sf}") d number;
   do result <- (if py_notation_is (py_notation F) (s2p "e") then Ok (py_strip_exp0 v) else Ok v);
   Ok (AStr result))
  = Ok (AStr (fmt_num F d k (fl && negb (N.eqb d 0)))).
Proof.
  intros F d k fl. unfold py_eq_zero, py_abs.
  assert (Z.abs k = k \/ (k =? 0)%Z = false) as Hk.
  { destruct (k =? 0)%Z eqn:E; [left; apply Z.eqb_eq in E; subst; reflexivity|right; reflexivity]. }
  assert ((if (k =? 0)%Z then Ok (PRound (Z.abs k) d fl) else Ok (PRound k d fl)) = Ok (PRound k d fl)) as Hn.
  { destruct Hk as [Hk|Hk]; [rewrite Hk; destruct (k =? 0)%Z; reflexivity|rewrite Hk; reflexivity]. }
  rewrite Hn. cbn [bind]. unfold fmt_num, py_notation, py_format_num, py_strip_exp0.
  destruct (o_note F).
  - change (py_fmt_kind (s2p "{:.%se}")) with (Some NotE). rewrite N.eqb_refl. cbn [bind py_notation_is].
    change (pystr_eqb (s2p "e") (s2p "e")) with true. cbn [bind].
    destruct fl; cbn [andb]; [destruct (N.eqb d 0); reflexivity|reflexivity].
  - change (py_fmt_kind (s2p "{:.%sf}")) with (Some NotF). rewrite N.eqb_refl. cbn [bind py_notation_is].
    change (pystr_eqb (s2p "e") (s2p "f")) with false. reflexivity.
Qed.

Lemma fmt_num_d : forall F d k fl, fmt_num F d k (fl && negb (N.eqb d 0)) = fmt_num F d k fl.
Proof. intros. unfold fmt_num. destruct (o_note F), fl, (N.eqb d 0); reflexivity. Qed.
Lemma fmt_num_0 : forall F d k fl fl', N.eqb d 0 = true -> fmt_num F d k fl = fmt_num F d k fl'.
Proof. intros F d k fl fl' H. unfold fmt_num. rewrite H. rewrite !andb_false_r. reflexivity. Qed.

Theorem g_number_to_string_eq : forall F d a,
  g_number_to_string (PAtom a) d (py_notation F) = nstr_result F d a.
Proof.
  intros F d a. unfold g_number_to_string, nstr_result.
  assert (py_lookup g_number_formatting (py_notation F) (Err EValue)
          = Ok (if o_note F then s2p "{:.%se}" else s2p "{:.%sf}")) as Hl
    by (unfold py_notation; destruct (o_note F); reflexivity).
  rewrite Hl. cbn [bind].
  destruct a as [| b | z | m e | s | s | u o | i | m e | y mo dd | u | u | cl n o v];
    cbn [py_num_isinstance py_isinstance atom_ty num_like negb py_obj_of_num bind nstr num_of py_quantize py_round];
    try reflexivity.
  - (* bool *)
    destruct (N.eqb d 0) eqn:Ed; cbn [py_int bind]; rewrite ?Ed; cbn [bind];
      rewrite fmt_round, fmt_num_d; [do 2 f_equal; apply fmt_num_0; exact Ed|reflexivity].
  - (* int *)
    destruct (N.eqb d 0) eqn:Ed; cbn [py_int bind]; rewrite ?Ed; cbn [bind];
      rewrite fmt_round, fmt_num_d; [do 2 f_equal; apply fmt_num_0; exact Ed|reflexivity].
  - (* float *)
    destruct (N.eqb d 0) eqn:Ed; cbn [py_int bind]; rewrite ?Ed; cbn [bind];
      rewrite fmt_round, fmt_num_d; [do 2 f_equal; apply fmt_num_0; exact Ed|reflexivity].
  - (* nan *)
    destruct (N.eqb d 0) eqn:Ed; cbn [py_int bind py_eq_zero]; [reflexivity|].
    unfold py_format_num, py_notation, py_strip_exp0. destruct (o_note F); reflexivity.
  - (* Decimal *)
    rewrite fmt_round, fmt_num_d. reflexivity.
Qed.
Print Assumptions g_number_to_string_eq.

(* ---------------------------------------------------------------------- *)
(* _get_clean_to_keys_mapping                                               *)
(* ---------------------------------------------------------------------- *)
Ltac simp := repeat (progress cbn [bind py_isinstance atom_ty num_like andb negb py_is_not_none py_is_none py_the py_decode
                                      py_enum_value py_lower py_obj_of_text py_str atom_of_e]
                     || rewrite andb_false_r || rewrite andb_true_r).

(* one key: the loop body is clean_key followed by the first-wins insertion *)
Theorem g_clean_key_eq : forall F key result,
  g_get_clean_to_keys_mapping_body F key result
  = bind (clean_key F key) (fun ck =>
      Ok (if py_dict_contains result ck then result else py_dict_set result ck key)).
Proof.
  intros F key result. unfold g_get_clean_to_keys_mapping_body, clean_key.
  assert (forall ck : atom,
            (do r <- (if py_dict_contains result ck then Ok result else Ok (py_dict_set result ck key)); Ok r)
            = Ok (if py_dict_contains result ck then result else py_dict_set result ck key)) as Hins
    by (intros ck; destruct (py_dict_contains result ck); reflexivity).
  destruct key as [| b | z | m e | s | s | u o | i | m e | y mo dd | u | u | cl n o v]; simp.
  all: try (destruct (eff_sig F) as [d|]; simp;
            [rewrite g_number_to_string_eq; unfold nstr_result; cbn [nstr num_of]; try (destruct (N.eqb d 0)); simp;
             try reflexivity; rewrite ?py_format_kv; simp|]).
  all: try (destruct (o_strty F)); try (destruct (o_enum F)); try (destruct v); simp; unfold low_atom, num_tag; simp; unfold lowif;
       try (destruct (o_case F)); simp; try apply Hins; try reflexivity;
       try (destruct (py_dict_contains result _); reflexivity).
Qed.
Print Assumptions g_clean_key_eq.

Lemma g_loop_eq : forall F ks result,
  g_get_clean_to_keys_mapping_loop F ks result = clean_map F ks (rev result).
Proof.
  intros F ks. induction ks as [|k ks IH]; intros result.
  - cbn [g_get_clean_to_keys_mapping_loop clean_map]. rewrite rev_involutive. reflexivity.
  - cbn [g_get_clean_to_keys_mapping_loop clean_map]. rewrite g_clean_key_eq.
    destruct (clean_key F k) as [ck|e]; cbn [bind]; [|reflexivity].
    unfold py_dict_contains at 1. unfold mem_atom at 2. rewrite map_rev, existsb_rev. fold (mem_atom ck (map fst result)).
    destruct (mem_atom ck (map fst result)) eqn:Hm.
    + apply IH.
    + rewrite IH. rewrite (py_dict_set_fresh result ck k Hm). rewrite rev_app_distr. reflexivity.
Qed.

(* the fold, including which of two keys with one clean key wins (the first) *)
Theorem g_clean_to_keys_mapping_eq : forall F ks, g_get_clean_to_keys_mapping F ks = clean_map F ks [].
Proof.
  intros F ks. unfold g_get_clean_to_keys_mapping. rewrite g_loop_eq. cbn [rev py_dict_new].
  destruct (clean_map F ks []); reflexivity.
Qed.
Print Assumptions g_clean_to_keys_mapping_eq.

(* ---------------------------------------------------------------------- *)
(* the key sets of _diff_dict                                               *)
(* ---------------------------------------------------------------------- *)
Theorem g_diff_dict_keys_eq : forall F r1 r2,
  g_diff_dict_keys F r1 r2
  = bind (kmap F r1) (fun km1 => bind (kmap F r2) (fun km2 =>
      let k1 := ckeys F r1 km1 in
      let k2 := ckeys F r2 km2 in
      Ok (if cleaning F then Some km1 else None, if cleaning F then Some km2 else None, k1, k2,
          so_and k2 k1, so_sub k2 (so_and k2 k1), so_sub k1 (so_and k2 k1)))).
Proof.
  intros F r1 r2. unfold g_diff_dict_keys, kmap, ckeys. fold (cleaning F).
  destruct (cleaning F); cbn [bind]; [|reflexivity].
  rewrite !g_clean_to_keys_mapping_eq.
  destruct (clean_map F r1 []) as [km1|e1]; cbn [bind]; [|reflexivity].
  destruct (clean_map F r2 []) as [km2|e2]; cbn [bind]; reflexivity.
Qed.
Print Assumptions g_diff_dict_keys_eq.

(* what the hand model does with the key sets: the shortcut counts the intersection, and the added / removed reports
   run over exactly t_keys_added / t_keys_removed *)
Lemma so_and_mem : forall a b k, In k a -> mem_atom k (so_and a b) = mem_atom k b.
Proof.
  intros a b k Hk. unfold so_and. destruct (mem_atom k b) eqn:E.
  - apply mem_atom_self. apply filter_In. split; assumption.
  - destruct (mem_atom k (filter (fun x => mem_atom x b) a)) eqn:E2; [|reflexivity].
    apply mem_atom_In in E2. destruct E2 as [x [Hx Hkx]]. apply filter_In in Hx. destruct Hx as [_ Hx].
    rewrite (mem_atom_eqv k x b Hkx) in E. rewrite Hx in E. discriminate.
Qed.
Lemma so_sub_and : forall a b, so_sub a (so_and a b) = so_sub a b.
Proof.
  intros a b. unfold so_sub. apply filter_ext_in. intros k Hk. rewrite (so_and_mem a b k Hk). reflexivity.
Qed.
Lemma key_reports_so_sub : forall F kind cks other km kvs p1 p2,
  key_reports F kind cks other km kvs p1 p2 = key_reports F kind (so_sub cks other) [] km kvs p1 p2.
Proof.
  intros F kind cks other km kvs p1 p2. induction cks as [|ck r IH]; [reflexivity|].
  cbn [key_reports]. unfold so_sub in *. cbn [filter].
  destruct (mem_atom ck other); cbn [negb]; [exact IH|].
  cbn [key_reports mem_atom existsb]. rewrite IH. reflexivity.
Qed.

(* ---------------------------------------------------------------------- *)
(* the leaf comparers                                                       *)
(* ---------------------------------------------------------------------- *)
Theorem g_diff_booleans_eq : forall udiff F b c p1 p2,
  g_diff_booleans F (mkLv (ABool b) c p1 p2 None) = dispatch udiff F true (ABool b) c p1 p2.
Proof.
  intros. unfold g_diff_booleans. cbn [dispatch lv_t1 lv_t2].
  destruct (py_ne (ABool b) c); reflexivity.
Qed.
Print Assumptions g_diff_booleans_eq.

Theorem g_diff_numbers_decision_eq : forall F rtc a b p1 p2,
  g_diff_numbers F (mkLv a b p1 p2 None) rtc = numD F rtc a b p1 p2.
Proof.
  intros F rtc a b p1 p2. unfold g_diff_numbers, numD. cbn [lv_t1 lv_t2].
  set (lv := mkLv a b p1 p2 None).
  assert (py_report_result F KValue lv = rep_atoms F KValue p1 p2 a b) as Hrep by reflexivity.
  destruct (o_eps F) as [e|].
  - (* math_epsilon *)
    destruct rtc; cbn [bind py_is_not_none py_is_none negb py_the]; unfold py_is_close;
      (destruct (fl_of a) as [[x|]|]; destruct (fl_of b) as [[y|]|]; cbn [bind negb]; try reflexivity;
       destruct (is_close x y e); reflexivity).
  - destruct (eff_sig F) as [d|].
    + (* significant_digits *)
      assert (forall tg1 tg2 : pystr,
        (do r5 <- g_number_to_string (PAtom a) d (py_notation F);
         do r7 <- g_number_to_string (PAtom b) d (py_notation F);
         if py_text_ne (py_format (s2p "{}:{}") [Some tg1; py_str r5]) (py_format (s2p "{}:{}") [Some tg2; py_str r7])
         then Ok ([] ++ py_report_result F KValue lv)%list else Ok [])
        = bind (ntxt F d a) (fun ta => bind (ntxt F d b) (fun tb =>
            match ta, tb with
            | Some x, Some y => Ok (if pystr_eqb (tg1 ++ colon ++ x)%list (tg2 ++ colon ++ y)%list then [] else rep_atoms F KValue p1 p2 a b)
            | _, _ => Ok (rep_atoms F KValue p1 p2 a b)
            end))) as Hsig.
      { intros tg1 tg2. rewrite !g_number_to_string_eq. unfold nstr_result, ntxt. rewrite Hrep.
        assert (forall ta tb : ptext,
          (if py_text_ne (py_format (s2p "{}:{}") [Some tg1; ta]) (py_format (s2p "{}:{}") [Some tg2; tb])
           then Ok ([] ++ rep_atoms F KValue p1 p2 a b)%list else Ok [])
          = match ta, tb with
            | Some x, Some y => Ok (if pystr_eqb (tg1 ++ colon ++ x)%list (tg2 ++ colon ++ y)%list then [] else rep_atoms F KValue p1 p2 a b)
            | _, _ => @Ok (list entry) (rep_atoms F KValue p1 p2 a b)
            end) as Hcmp.
        { intros ta tb. destruct ta as [x|], tb as [y|]; rewrite ?py_format_kv, ?py_format_kv_none; cbn [py_text_ne];
            try reflexivity.
          all: try (destruct (pystr_eqb _ _); reflexivity).
          all: try (destruct (py_format _ _); reflexivity). }
        destruct (nstr F d a) as [[s|e1]|]; cbn [bind py_str]; [| reflexivity |];
          (destruct (nstr F d b) as [[t|e2]|]; cbn [bind py_str]; [| try reflexivity; destruct a; reflexivity |]); rewrite Hcmp;
          try reflexivity; try (destruct a; reflexivity); try (destruct b; reflexivity); destruct a, b; reflexivity. }
      destruct rtc; cbn [bind py_is_not_none py_is_none negb py_the].
      * exact (Hsig _ _).
      * exact (Hsig _ _).
    + (* plain comparison *)
      destruct rtc; cbn [bind py_is_not_none py_is_none negb]; destruct (py_ne a b); reflexivity.
Qed.
Print Assumptions g_diff_numbers_decision_eq.

Lemma py_ne_dt_norm : forall F u1 o1 u2 o2,
  py_ne (dt_norm F u1 o1) (dt_norm F u2 o2) = dt_changed (o_trunc F) (o_tz F) (mkDt u1 o1) (mkDt u2 o2).
Proof.
  intros. unfold py_ne, dt_norm, dt_changed. cbn [is_nan orb py_eq qv num_of dt_py_eq].
  rewrite !Z.add_simpl_r. reflexivity.
Qed.

Theorem g_diff_datetime_eq : forall F u o b p1 p2,
  g_diff_datetime F (mkLv (ADt u o) b p1 p2 None) = dtD F (ADt u o) b p1 p2.
Proof.
  intros F u o b p1 p2. unfold g_diff_datetime, py_datetime_normalize. cbn [lv_t1 lv_t2 lv_set_t1 lv_set_t2 norm_any bind dtD].
  destruct b as [| b | z | m e | s | s | u2 o2 | i | m e | y mo dd | u2 | u2 | cl n o2 v]; cbn [norm_any bind lv_t1 lv_t2 lv_set_t2];
    try reflexivity.
  - rewrite py_ne_dt_norm. destruct (dt_changed _ _ _ _); reflexivity.
  - unfold time_secs. destruct (_ =? 0)%Z; reflexivity.
Qed.
Print Assumptions g_diff_datetime_eq.

Theorem g_diff_time_eq : forall F a b p1 p2,
  g_diff_time F (mkLv a b p1 p2 None) = timeD F a b p1 p2.
Proof.
  intros F a b p1 p2. unfold g_diff_time, timeD, py_datetime_normalize.
  destruct (o_trunc F) as [t|]; cbn [py_truthy_opt py_is_not_none py_is_none negb bind lv_t1 lv_t2].
  - assert (exists a', norm_any F a = Ok a') as [a' Ha] by (destruct a; eexists; reflexivity).
    assert (exists b', norm_any F b = Ok b') as [b' Hb] by (destruct b; eexists; reflexivity).
    rewrite Ha. cbn [bind]. unfold lv_set_t1. cbn [lv_t1 lv_t2 lv_p1 lv_p2 lv_diff]. rewrite Hb. cbn [bind].
    unfold lv_set_t2. cbn [lv_t1 lv_t2 lv_p1 lv_p2 lv_diff].
    destruct (py_ne a' b'); reflexivity.
  - destruct (py_ne a b); reflexivity.
Qed.
Print Assumptions g_diff_time_eq.

(* _diff_str: t1 a str / bytes (the dispatch of _diff), t2 anything but an Enum member (members are unwrapped or of t1's type) *)
Lemma contains_nl : forall s, contains_sub [10%N] s = has_nl s.
Proof.
  induction s as [|c s IH]; [reflexivity|].
  cbn [contains_sub is_prefix]. unfold has_nl, has_char in *. cbn [existsb]. rewrite IH.
  destruct s; rewrite ?andb_true_r; reflexivity.
Qed.

Lemma py_eqv_ss : forall x y, py_eqv (AStr x) (AStr y) = pystr_eqb x y.
Proof. intros. unfold py_eqv, py_ne. cbn [is_nan orb py_eq qv num_of]. apply negb_involutive. Qed.
Lemma py_eqv_bb : forall x y, py_eqv (ABytes x) (ABytes y) = pystr_eqb x y.
Proof. intros. unfold py_eqv, py_ne. cbn [is_nan orb py_eq qv num_of]. apply negb_involutive. Qed.
Lemma py_eqv_sb : forall x y, py_eqv (AStr x) (ABytes y) = false.
Proof. reflexivity. Qed.
Lemma py_eqv_bs : forall x y, py_eqv (ABytes x) (AStr y) = false.
Proof. reflexivity. Qed.

Ltac strsimp :=
  cbn [lv_t1 lv_t2 lv_p1 lv_p2 lv_diff py_lower bind py_type_eq atom_ty ty_eqb py_eqv py_ne is_nan py_eq qv num_of orb negb andb
       py_isinstance py_try_decode_ascii py_enum_value py_str_in py_unified_diff str_like str_content with_content is_bytes
       py_nonempty app dt_py_eq].

Theorem g_diff_str_eq : forall udiff F a b p1 p2,
  str_like (atom_ty a) = true -> is_enum b = false ->
  g_diff_str F udiff (mkLv a b p1 p2 None) = strD udiff F a b p1 p2.
Proof.
  intros udiff F a b p1 p2 Ha Hb.
  unfold g_diff_str, strD, diff_strF, lowif, rep_atoms, py_report_result, lv_set_t1, lv_set_t2, lv_set_diff.
  destruct a as [| ? | ? | ? ? | s | s | ? ? | ? | ? ? | ? ? ? | ? | ? | ? ? ? ?]; try discriminate Ha;
  destruct b as [| ? | ? | ? ? | t | t | ? ? | ? | ? ? | ? ? ? | ? | ? | ? ? ? ?]; try discriminate Hb;
  destruct (o_case F); strsimp; rewrite ?contains_nl, ?is_ascii_lower, ?py_eqv_ss, ?py_eqv_bb, ?py_eqv_sb, ?py_eqv_bs, ?negb_involutive, ?andb_true_r, ?orb_false_r; try reflexivity.
  all: repeat (match goal with
               | |- context [py_nonempty ?e] => destruct e; strsimp; rewrite ?contains_nl
               | |- context [if ?c then _ else _] => destruct c eqn:?; strsimp; rewrite ?contains_nl, ?is_ascii_lower, ?py_eqv_ss, ?py_eqv_bb, ?py_eqv_sb, ?py_eqv_bs, ?negb_involutive, ?andb_true_r, ?orb_false_r
               end); try reflexivity; try (cbn in *; congruence); try (rewrite ?andb_false_r in *; discriminate).
Qed.
Print Assumptions g_diff_str_eq.

(* ---------------------------------------------------------------------- *)
(* transfer: theorems of Properties/C11.v about the GENERATED definitions   *)
(* ---------------------------------------------------------------------- *)
(* C11x_key_alt_same_clean_key: two keys that differ only in what key cleaning ignores get ONE entry of the mapping the
   code builds: after the first, the second is found in the dict and is not inserted *)
Corollary g_C11x_key_alt_same_clean_key : forall F a b r1 r2,
  cleaning F = true -> altK F a b = true ->
  g_get_clean_to_keys_mapping_body F a [] = Ok r1 ->
  g_get_clean_to_keys_mapping_body F b r1 = Ok r2 -> r2 = r1.
Proof.
  intros F a b r1 r2 Hc Hk H1 H2. rewrite g_clean_key_eq in H1, H2.
  destruct (clean_key F a) as [ca|] eqn:Ea; [|discriminate]. destruct (clean_key F b) as [cb|] eqn:Eb; [|discriminate].
  cbn [bind py_dict_contains mem_atom map existsb py_dict_set] in H1. injection H1 as H1. subst r1.
  cbn [bind] in H2. unfold py_dict_contains, mem_atom in H2. cbn [map fst existsb] in H2.
  rewrite py_eq_sym, (clean_key_altK F a b ca cb Hc Hk Ea Eb) in H2. cbn [orb] in H2. injection H2 as H2. auto.
Qed.
Print Assumptions g_C11x_key_alt_same_clean_key.

(* clause 1 at a numeric leaf (YProofsAtoms.numD_leaf, the number case of C11x_leaf_alt_ok): numbers that agree under the
   tolerance / precision in force are not reported by the code's _diff_numbers, and it does not raise *)
Corollary g_C11x_numbers_alt_ok : forall F rtc a b p1 p2,
  num_ty_ok F a b = true ->
  match o_eps F with
  | Some _ => eps_rel F a b
  | None => match eff_sig F with Some _ => sig_rel F a b | None => py_eq a b end
  end = true ->
  g_diff_numbers F (mkLv a b p1 p2 None) rtc = Ok [].
Proof. intros. rewrite g_diff_numbers_decision_eq. apply numD_leaf; assumption. Qed.
Print Assumptions g_C11x_numbers_alt_ok.

Corollary g_C11x_number_against_itself : forall F rtc a p1 p2,
  is_numeric a = true -> g_diff_numbers F (mkLv a a p1 p2 None) rtc = Ok [].
Proof. intros. rewrite g_diff_numbers_decision_eq. apply numD_refl; assumption. Qed.
Print Assumptions g_C11x_number_against_itself.

(* clause 1 at a string leaf (YProofsAtoms.diff_strF_rel, the string case of C11x_leaf_alt_ok): strings that agree up to what
   ignore_string_case / ignore_string_type_changes ignore are not reported by the code's _diff_str, and it does not raise *)
Corollary g_C11x_strings_alt_ok : forall udiff F a b p1 p2,
  str_rel F a b = true -> g_diff_str F udiff (mkLv a b p1 p2 None) = Ok [].
Proof.
  intros udiff F a b p1 p2 H. pose proof H as H0. unfold str_rel in H0.
  apply andb_true_iff in H0. destruct H0 as [H0 _]. apply andb_true_iff in H0. destruct H0 as [H0 _].
  apply andb_true_iff in H0. destruct H0 as [Ha Hb].
  rewrite g_diff_str_eq; [|exact Ha|destruct b; cbn in Hb; try discriminate; reflexivity].
  unfold strD. rewrite Hb. rewrite (diff_strF_rel udiff F a b p1 p2 H). reflexivity.
Qed.
Print Assumptions g_C11x_strings_alt_ok.

(* C11x_equal_numbers_render_alike about the code's number_to_string *)
Corollary g_C11x_equal_numbers_render_alike : forall F d a b,
  o_note F = false -> YProofsCompNum.is_num a = true -> YProofsCompNum.is_num b = true -> py_eq a b = true ->
  forall s, g_number_to_string (PAtom a) d (py_notation F) = Ok (AStr s) ->
            g_number_to_string (PAtom b) d (py_notation F) = Ok (AStr s).
Proof.
  intros F d a b Hn Ha Hb He s H. rewrite g_number_to_string_eq in *. unfold nstr_result in *.
  rewrite <- (YProofsCompNum.nstr_py_eq F d a b Hn Ha Hb He).
  destruct (nstr F d a) as [[x|x]|] eqn:E; try exact H.
  destruct a; cbn in Ha; try discriminate; cbn [nstr num_of] in E; discriminate.
Qed.
Print Assumptions g_C11x_equal_numbers_render_alike.

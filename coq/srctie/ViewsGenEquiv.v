(** C10 source tie - the definitions generated from the CURRENT deepdiff/model.py
    (class TextResult) and deepdiff/serialization.py (_get_pretty_form_text,
    pretty_print_diff) by harness/translate/textresult.py (module DDGen.ViewsGen)
    equal the hand-written model (Diff/TextView.v [text_of] / [text_view],
    Views/ViewsModel.v [rep_view], [pretty_of]; statement-level targets in
    Views/ViewsSrc.v), for all arguments; then the main theorems of
    Properties/C10.v restated about the generated conversion.

    Guard: [src_shape_ok] (Views/ViewsSrcProofs.v) = every level has the leaf
    objects of its report type ([shape_ok], the guard of C10_text_is_projection)
    and a removed item has no t2 object; discharged for every ordered run by
    [run_diff_src_shape_ok] (from C04's run_diff_faithful). *)
From Coq Require Import List ZArith NArith Bool Arith Lia String.
Import ListNotations.
From DD Require Import Base.PyStr Base.Value Base.ValueFacts Path.PathModel Diff.Tree Diff.DiffModel Diff.TextView
  Views.ViewsModel Views.ViewsProofs Views.ViewsSrc Views.ViewsSrcProofs.
From DDGen Require Import ViewsGen.
Local Open Scope string_scope.

(* ------------------------------------------------------------------ *)
(* constants                                                           *)
(* ------------------------------------------------------------------ *)
(* REPORT_KEYS is the hand model's set of report keys (as sets: the order of a Python set display is immaterial)
   and contains the report key of every kind of level of the universe *)
Theorem g_REPORT_KEYS_eq :
  forallb (fun k => str_mem k report_keys) g_REPORT_KEYS = true /\ forallb (fun k => str_mem k g_REPORT_KEYS) report_keys = true.
Proof. split; reflexivity. Qed.
Print Assumptions g_REPORT_KEYS_eq.

Theorem g_REPORT_KEYS_covers : forall kd, str_mem (report_name kd) g_REPORT_KEYS = true.
Proof. destruct kd; reflexivity. Qed.
Print Assumptions g_REPORT_KEYS_covers.

Theorem g_FORCE_DEFAULT_eq : g_FORCE_DEFAULT = "fake".
Proof. reflexivity. Qed.
Print Assumptions g_FORCE_DEFAULT_eq.

Theorem g_category_order_eq : g_category_order = category_order.
Proof. reflexivity. Qed.
Print Assumptions g_category_order_eq.

Theorem g___set_or_dict_eq : forall s, g___set_or_dict s = set_or_dict (s_verbose s).
Proof. reflexivity. Qed.
Print Assumptions g___set_or_dict_eq.

(* ------------------------------------------------------------------ *)
(* one level                                                           *)
(* ------------------------------------------------------------------ *)
Definition lq (kd : rkind) (l : level) : Prop := ekind (fst l) = kd /\ src_shape_ok (fst l) /\ snd l = None.

Lemma lq_filter kd es :
  Forall src_shape_ok es -> Forall (lq kd) (map (fun e => (e, @None repinfo3)) (filter (of_kind kd) es)).
Proof.
  intros H. apply Forall_forall. intros l Hl. apply in_map_iff in Hl as (e & <- & He).
  apply filter_In in He as [He K]. unfold of_kind in K. apply rkind_eqb_eq in K.
  split; [exact K|]. split; [exact (proj1 (Forall_forall _ _) H e He)|reflexivity].
Qed.

(* a level of kind kd with its shape: e, K : ekind e = kd, SH : the shape_ok clause of kd, R2 : the removed-item clause *)
Ltac shape l e K SH R2 :=
  let r := fresh "r" in let Q := fresh "Q" in let Rr := fresh "Rr" in
  destruct l as [e r]; intros (K & Q & Rr); cbn [fst snd] in K, Q, Rr; subst r;
  destruct Q as [SH R2]; unfold shape_ok in SH; rewrite K in SH, R2.

(* ------------------------------------------------------------------ *)
(* the conversions, report key by report key                           *)
(* ------------------------------------------------------------------ *)

Theorem g__from_tree_type_changes_eq : forall v s t,
  cfg_is s v (init_containers v) -> Forall src_shape_ok (gt_es t) ->
  g__from_tree_type_changes s t = emit s (map raw_of (text_view v (filter (of_kind KType) (gt_es t)))).
Proof.
  intros v s t C HS. unfold g__from_tree_type_changes.
  rewrite (fold_emit _ (fun l => map raw_of (text_of v (fst l))) (lq KType) v (init_containers v)).
  - rewrite tree_has_emit. change "type_changes" with (report_name KType). rewrite tree_get_kind by discriminate.
    rewrite flat_map_map. unfold text_view. rewrite map_flat_map'. reflexivity.
  - intros s0 l. shape l e K SH R2. intros [V _]. rewrite V. unfold text_of. cbn [fst]. rewrite K.
    destruct SH as [S1 S2]. destruct (et1 e) as [a|] eqn:E1; [|congruence]. destruct (et2 e) as [b|] eqn:E2; [|congruence].
    unfold self_setitem, lv_path, lv_t1, lv_t2, new_path_of, py_eqb. cbn [fst]. rewrite E1, E2.
    generalize (render (ep1 e)) (render (ep2 e)). intros p1 p2.
    destruct v as [|[|n]]; try destruct (pystr_eqb p1 p2); reflexivity.
  - change "type_changes" with (report_name KType). rewrite tree_get_kind by discriminate. apply lq_filter. exact HS.
  - exact C.
Qed.
Print Assumptions g__from_tree_type_changes_eq.


(* the loop of a report key whose levels are the entries of kind kd *)
Ltac loop v kd f C HS :=
  rewrite (fold_emit _ f (lq kd) v (init_containers v));
  [ | | change (tree_get ?t ?k) with (tree_get t (report_name kd)); rewrite tree_get_kind by discriminate; apply lq_filter; exact HS
    | exact C ].
Ltac finish_loop kd :=
  change (tree_get ?t ?k) with (tree_get t (report_name kd)); rewrite tree_get_kind by discriminate;
  rewrite flat_map_map; unfold text_view; rewrite map_flat_map'; reflexivity.

Theorem g__from_tree_value_changed_eq : forall v s t,
  cfg_is s v (init_containers v) -> Forall src_shape_ok (gt_es t) ->
  g__from_tree_value_changed s t = emit s (map raw_of (text_view v (filter (of_kind KValue) (gt_es t)))).
Proof.
  intros v s t C HS. unfold g__from_tree_value_changed. rewrite (proj1 C).
  destruct (Nat.ltb 0 v) eqn:V0.
  - rewrite andb_true_r.
    loop v KValue (fun l : level => map raw_of (text_of v (fst l))) C HS.
    + rewrite tree_has_emit. finish_loop KValue.
    + intros s0 l. shape l e K SH R2. intros [V _]. rewrite V. unfold text_of. cbn [fst]. rewrite K, V0.
      destruct SH as [S1 S2]. destruct (et1 e) as [a|] eqn:E1; [|congruence]. destruct (et2 e) as [b|] eqn:E2; [|congruence].
      unfold self_setitem, lv_path, lv_t1, lv_t2, lv_additional, new_path_of, py_eqb. cbn [fst snd]. rewrite E1, E2.
      generalize (render (ep1 e)) (render (ep2 e)). intros p1 p2.
      destruct (ediff e) as [d|]; destruct (Nat.ltb 1 v); try destruct (pystr_eqb p1 p2); reflexivity.
  - rewrite andb_false_r. rewrite text_view_none; [cbn; rewrite emit_nil; reflexivity|].
    intros e K. unfold text_of. rewrite K, V0. reflexivity.
Qed.
Print Assumptions g__from_tree_value_changed_eq.

Theorem g__from_tree_iterable_item_moved_eq : forall v s t,
  cfg_is s v (init_containers v) -> Forall src_shape_ok (gt_es t) ->
  g__from_tree_iterable_item_moved s t = emit s (map raw_of (text_view v (filter (of_kind KIterMoved) (gt_es t)))).
Proof.
  intros v s t C HS. unfold g__from_tree_iterable_item_moved. rewrite (proj1 C).
  destruct (Nat.ltb 1 v) eqn:V1.
  - rewrite andb_true_r.
    loop v KIterMoved (fun l : level => map raw_of (text_of v (fst l))) C HS.
    + rewrite tree_has_emit. finish_loop KIterMoved.
    + intros s0 l. shape l e K SH R2. intros _. unfold text_of. cbn [fst]. rewrite K, V1.
      destruct SH as [S1 S2]. destruct (et2 e) as [b|] eqn:E2; [|congruence].
      unfold self_setitem, lv_path, lv_t2. cbn [fst]. rewrite E2. reflexivity.
  - rewrite andb_false_r. rewrite text_view_none; [cbn; rewrite emit_nil; reflexivity|].
    intros e K. unfold text_of. rewrite K, V1. reflexivity.
Qed.
Print Assumptions g__from_tree_iterable_item_moved_eq.

(* _from_tree_default on the four report keys it converts in the universe ... *)
Ltac default_body K SH R2 :=
  let s0 := fresh "s0" in let l := fresh "l" in let e := fresh "e" in let V := fresh "V" in let CC := fresh "CC" in
  intros s0 l; shape l e K SH R2; intros [V CC]; unfold text_of; cbn [fst]; rewrite K;
  unfold self_container, self_add, self_setitem, self_append, lv_path, lv_t1, lv_t2; rewrite CC; cbn [fst].

Theorem g__from_tree_default_eq : forall v kd s t,
  In kd [KDictAdd; KDictRem; KIterAdd; KIterRem] ->
  cfg_is s v (init_containers v) -> Forall src_shape_ok (gt_es t) ->
  g__from_tree_default s t (report_name kd) false = emit s (map raw_of (text_view v (filter (of_kind kd) (gt_es t)))).
Proof.
  intros v kd s t IN C HS. unfold g__from_tree_default.
  destruct IN as [<-|[<-|[<-|[<-|[]]]]].
  - loop v KDictAdd (fun l : level => map raw_of (text_of v (fst l))) C HS.
    + rewrite tree_has_emit. finish_loop KDictAdd.
    + default_body K SH R2. destruct (et2 e) as [b|] eqn:E2; [|congruence].
      destruct v as [|[|n]]; reflexivity.
  - loop v KDictRem (fun l : level => map raw_of (text_of v (fst l))) C HS.
    + rewrite tree_has_emit. finish_loop KDictRem.
    + default_body K SH R2. rewrite R2. destruct (et1 e) as [a|] eqn:E1; [|congruence].
      destruct v as [|[|n]]; reflexivity.
  - loop v KIterAdd (fun l : level => map raw_of (text_of v (fst l))) C HS.
    + rewrite tree_has_emit. finish_loop KIterAdd.
    + default_body K SH R2. destruct (et2 e) as [b|] eqn:E2; [|congruence]. reflexivity.
  - loop v KIterRem (fun l : level => map raw_of (text_of v (fst l))) C HS.
    + rewrite tree_has_emit. finish_loop KIterRem.
    + default_body K SH R2. rewrite R2. destruct (et1 e) as [a|] eqn:E1; [|congruence]. reflexivity.
Qed.
Print Assumptions g__from_tree_default_eq.

(* ... and on attribute_added / attribute_removed (no such levels in the universe) *)
Theorem g__from_tree_default_attribute_eq : forall s t k,
  k = "attribute_added" \/ k = "attribute_removed" -> g__from_tree_default s t k false = s.
Proof. intros s t k [->| ->]; reflexivity. Qed.
Print Assumptions g__from_tree_default_attribute_eq.

Theorem g__from_tree_unprocessed_eq : forall s t, g__from_tree_unprocessed s t = s.
Proof. reflexivity. Qed.
Print Assumptions g__from_tree_unprocessed_eq.

Theorem g__from_tree_deep_distance_eq : forall s t, g__from_tree_deep_distance s t = s.
Proof. reflexivity. Qed.
Print Assumptions g__from_tree_deep_distance_eq.

Theorem g__from_tree_custom_results_eq : forall s t, g__from_tree_custom_results s t = s.
Proof.
  intros s t. unfold g__from_tree_custom_results. apply fold_guard_skip.
  intros k H. unfold tree_keys in H. apply in_map_iff in H as (kd & <- & _). apply g_REPORT_KEYS_covers.
Qed.
Print Assumptions g__from_tree_custom_results_eq.

(* set items: "<path of the set>[<item>]", str / bytes items in quotes *)
Lemma set_item_str p a :
  py_format "{}[{}]" [OStr p;
     py_str_obj (if g_TextResult_ADD_QUOTES_TO_STRINGS && py_isinstance_strings (OVal (Some (VAtom a)))
                 then py_percent "'%s'" (OVal (Some (VAtom a))) else OVal (Some (VAtom a)))] [] =
  OStr (p ++ [cLB] ++ str_item a ++ [cRB])%list.
Proof.
  unfold py_format. cbn [map fmt_go Ascii.eqb Bool.eqb]. f_equal. f_equal.
  destruct a; cbn; reflexivity.
Qed.

Theorem g__from_tree_set_item_added_or_removed_eq : forall v kd s t,
  In kd [KSetAdd; KSetRem] ->
  cfg_is s v (init_containers v) -> Forall src_shape_ok (gt_es t) ->
  g__from_tree_set_item_added_or_removed s t (report_name kd) =
  emit s (map raw_of (text_view v (filter (of_kind kd) (gt_es t)))).
Proof.
  intros v kd s t IN C HS. unfold g__from_tree_set_item_added_or_removed. cbv zeta.
  unfold self_container at 1. rewrite (proj2 C).
  destruct IN as [<-|[<-|[]]].
  - loop v KSetAdd (fun l : level => map raw_of (text_of v (fst l))) C HS.
    + rewrite tree_has_emit. finish_loop KSetAdd.
    + intros s0 l. shape l e K SH R2. intros _. unfold text_of. cbn [fst]. rewrite K.
      destruct SH as [a E2]. unfold lv_up_path, lv_t1, lv_t2, set_item_text. cbn [fst report_name String.eqb Ascii.eqb Bool.eqb].
      rewrite K, E2. cbn [find fst snd String.eqb Ascii.eqb Bool.eqb isinstance_c opt_atom].
      rewrite set_item_str. reflexivity.
  - loop v KSetRem (fun l : level => map raw_of (text_of v (fst l))) C HS.
    + rewrite tree_has_emit. finish_loop KSetRem.
    + intros s0 l. shape l e K SH R2. intros _. unfold text_of. cbn [fst]. rewrite K.
      destruct SH as [a E1]. unfold lv_up_path, lv_t1, lv_t2, set_item_text. cbn [fst report_name String.eqb Ascii.eqb Bool.eqb].
      rewrite K, E1. cbn [find fst snd String.eqb Ascii.eqb Bool.eqb isinstance_c opt_atom].
      rewrite set_item_str. reflexivity.
Qed.
Print Assumptions g__from_tree_set_item_added_or_removed_eq.

Theorem g__from_tree_set_item_added_eq : forall v s t,
  cfg_is s v (init_containers v) -> Forall src_shape_ok (gt_es t) ->
  g__from_tree_set_item_added s t = emit s (map raw_of (text_view v (filter (of_kind KSetAdd) (gt_es t)))).
Proof. intros. unfold g__from_tree_set_item_added. apply (g__from_tree_set_item_added_or_removed_eq v KSetAdd); [left; reflexivity|assumption|assumption]. Qed.
Print Assumptions g__from_tree_set_item_added_eq.

Theorem g__from_tree_set_item_removed_eq : forall v s t,
  cfg_is s v (init_containers v) -> Forall src_shape_ok (gt_es t) ->
  g__from_tree_set_item_removed s t = emit s (map raw_of (text_view v (filter (of_kind KSetRem) (gt_es t)))).
Proof. intros. unfold g__from_tree_set_item_removed. apply (g__from_tree_set_item_added_or_removed_eq v KSetRem); [right; left; reflexivity|assumption|assumption]. Qed.
Print Assumptions g__from_tree_set_item_removed_eq.

(* repetition_change: the level's record with the level's t1 object filed under 'value' *)
Definition rq (l : level) : Prop := (exists r, snd l = Some r) /\ et1 (fst l) <> None.

Theorem g__from_tree_repetition_change_eq : forall v s t,
  cfg_is s v (init_containers v) -> Forall src_shape_ok (gt_es t) ->
  g__from_tree_repetition_change s t = emit s (map raw_of_rep (rep_view (gt_es t) (gt_rs t))).
Proof.
  intros v s t C HS. unfold g__from_tree_repetition_change.
  rewrite (fold_emit _ (fun l : level => match snd l with
                                          | Some r => [raw_of_rep (mkTRep (render (ep1 (fst l))) (snd (fst r)) (snd r) (opt_val (et1 (fst l))))]
                                          | None => [] end) rq v (init_containers v)).
  - rewrite tree_has_emit, tree_get_rep, flat_map_map. cbn [fst snd]. rewrite flat_map_single. unfold rep_view. rewrite map_map. reflexivity.
  - intros s0 [e r] [[r0 R] E1] _. cbn [fst snd] in *. subst r.
    destruct (et1 e) as [a|] eqn:E; [|congruence].
    unfold self_item_setfield, self_setitem. rewrite emit_out. rewrite upd_last_snoc.
    + unfold lv_path, lv_t1, lv_additional, raw_of_rep, emit, with_out. cbn [fst snd s_verbose s_containers s_opcodes trpath trold trnew trval opt_val].
      rewrite E. destruct (ediff e); reflexivity.
    + unfold raw_at, lv_path. cbn [rcat rkey py_eqb]. rewrite String.eqb_refl. apply pystr_eqb_refl.
  - rewrite tree_get_rep. apply Forall_forall. intros l Hl. apply in_map_iff in Hl as ([e0 r0] & <- & Her).
    apply in_combine_l in Her. cbn [fst snd]. apply filter_In in Her as [Her K]. split; [eexists; reflexivity|].
    cbn [fst]. pose proof (proj1 (Forall_forall _ _) HS _ Her) as [_ R]. unfold is_rep in K. apply rkind_eqb_eq in K. rewrite K in R. exact R.
  - exact C.
Qed.
Print Assumptions g__from_tree_repetition_change_eq.

(* ------------------------------------------------------------------ *)
(* _from_tree_results: the conversions in the code's order              *)
(* ------------------------------------------------------------------ *)
Theorem g__from_tree_results_eq : forall v s t,
  cfg_is s v (init_containers v) -> Forall src_shape_ok (gt_es t) ->
  g__from_tree_results s t = emit s (text_result_raw v t).
Proof.
  intros v s t C HS. unfold g__from_tree_results. cbv zeta.
  rewrite (g__from_tree_type_changes_eq v s t C HS).
  rewrite (g__from_tree_default_eq v KDictAdd) by (try (apply emit_cfg); try assumption; cbn; tauto).
  rewrite (g__from_tree_default_eq v KDictRem) by (repeat apply emit_cfg; try assumption; cbn; tauto).
  rewrite (g__from_tree_value_changed_eq v) by (repeat apply emit_cfg; assumption).
  rewrite g__from_tree_unprocessed_eq.
  rewrite (g__from_tree_default_eq v KIterAdd) by (repeat apply emit_cfg; try assumption; cbn; tauto).
  rewrite (g__from_tree_default_eq v KIterRem) by (repeat apply emit_cfg; try assumption; cbn; tauto).
  rewrite (g__from_tree_iterable_item_moved_eq v) by (repeat apply emit_cfg; assumption).
  rewrite !g__from_tree_default_attribute_eq by tauto.
  rewrite (g__from_tree_set_item_removed_eq v) by (repeat apply emit_cfg; assumption).
  rewrite (g__from_tree_set_item_added_eq v) by (repeat apply emit_cfg; assumption).
  rewrite (g__from_tree_repetition_change_eq v) by (repeat apply emit_cfg; assumption).
  rewrite g__from_tree_deep_distance_eq, g__from_tree_custom_results_eq.
  rewrite !emit_emit. f_equal.
  unfold text_result_raw. rewrite text_view_cats_unfold. unfold cat_order. cbn [flat_map].
  rewrite !map_app, app_nil_r. cbn [map]. rewrite <- !app_assoc. reflexivity.
Qed.
Print Assumptions g__from_tree_results_eq.


(* TextResult(tree_results=tree, verbose_level=v) *)
Theorem g___init___eq : forall t v,
  Forall src_shape_ok (gt_es t) ->
  s_out (g___init__ t v) = text_result_raw v t /\ s_verbose (g___init__ t v) = v /\ s_containers (g___init__ t v) = init_containers v.
Proof.
  intros t v HS. unfold g___init__. cbv zeta.
  set (s0 := self_init_containers _ _).
  assert (C : cfg_is s0 v (init_containers v)) by (split; reflexivity).
  unfold tree_truthy. destruct (gt_es t) as [|e es] eqn:E.
  - unfold text_result_raw. rewrite E. repeat split.
  - rewrite (g__from_tree_results_eq v s0 t C) by (rewrite E; exact HS). repeat split.
Qed.
Print Assumptions g___init___eq.

(* ------------------------------------------------------------------ *)
(* pretty(): the statement of one level                                 *)
(* ------------------------------------------------------------------ *)
Lemma pretty_type_eq o : py_type_name (py_get_type (OVal o)) = OStr (pretty_type o).
Proof. destruct o; reflexivity. Qed.

Lemma pretty_val_eq o :
  (if py_eqb (OStr (pretty_type o)) (py_str_const "str") then py_format """{}""" [py_str_obj (OVal o)] [] else py_str_obj (OVal o)) =
  OStr (pretty_val o).
Proof. destruct o as [[[]| | | | |]|]; reflexivity. Qed.

Theorem g_pretty_print_diff_eq : forall v l, g_pretty_print_diff v l = OStr (pretty_of v (fst l)).
Proof.
  intros v [e r]. unfold g_pretty_print_diff. cbv zeta. unfold lv_t1, lv_t2. cbn [fst].
  rewrite !pretty_type_eq, !pretty_val_eq.
  unfold pretty_of, g__get_pretty_form_text, lv_report_type, lv_path, lv_up_path, lv_has_up. cbn [fst].
  generalize (pretty_val (et1 e)) (pretty_val (et2 e)) (pretty_type (et1 e)) (pretty_type (et2 e)). intros V1 V2 T1 T2.
  destruct (Nat.eqb v 2); destruct (ekind e); generalize (render (ep1 e)); intros P; reflexivity.
Qed.
Print Assumptions g_pretty_print_diff_eq.

(* ================================================================== *)
(* Transfer: the main theorems of Properties/C10.v about the GENERATED *)
(* conversion                                                          *)
(* ================================================================== *)

(* what TextResult(tree, verbose_level=v) holds, as the list of its insertions *)
Definition g_text (v : nat) (es : list entry) (rs : list repinfo3) : list raw :=
  s_out (g___init__ (mkGTree es rs) v).

(* it is the hand model's text view, grouped by category in the code's order
   ([text_view_cats], [text_view_cats_grouped]), followed by the repetition records *)
Theorem G_text_result : forall v es rs,
  Forall src_shape_ok es ->
  g_text v es rs = (map raw_of (text_view_cats v es) ++ map raw_of_rep (rep_view es rs))%list.
Proof. intros v es rs HS. exact (proj1 (g___init___eq (mkGTree es rs) v HS)). Qed.
Print Assumptions G_text_result.

(* the text entries are determined by the insertions *)
Theorem G_text_unique : forall v es rs ts,
  Forall src_shape_ok es ->
  g_text v es rs = (map raw_of ts ++ map raw_of_rep (rep_view es rs))%list -> ts = text_view_cats v es.
Proof.
  intros v es rs ts HS H. rewrite (G_text_result v es rs HS) in H. apply app_inv_tail in H.
  symmetry. apply map_raw_of_inj. exact H.
Qed.
Print Assumptions G_text_unique.

(* C10_text_same_pairs: same (category, path) pairs as the levels the verbose level shows,
   category by category in the same order and multiplicity *)
Theorem G_C10_text_same_pairs : forall v es rs,
  Forall src_shape_ok es ->
  exists ts, g_text v es rs = (map raw_of ts ++ map raw_of_rep (rep_view es rs))%list /\
    map tkey ts = map ekey (levels_in_order v es) /\
    (forall c, in_cat c ts = in_cat c (text_view v es)) /\
    (forall t, In t ts <-> In t (text_view v es)).
Proof.
  intros v es rs HS. exists (text_view_cats v es). split; [apply G_text_result; exact HS|].
  split; [apply text_view_cats_same_pairs|]. split; [intros c; apply text_view_cats_in_cat|intros t; apply text_view_cats_In].
Qed.
Print Assumptions G_C10_text_same_pairs.

(* C10_text_is_projection: each text entry shows the leaf objects of its level *)
Theorem G_C10_text_is_projection : forall v es rs,
  Forall src_shape_ok es ->
  exists ts, g_text v es rs = (map raw_of ts ++ map raw_of_rep (rep_view es rs))%list /\
    Forall2 (describes v) (levels_in_order v es) ts.
Proof.
  intros v es rs HS. exists (text_view_cats v es). split; [apply G_text_result; exact HS|].
  apply text_view_cats_projection. apply src_shape_ok_shape. exact HS.
Qed.
Print Assumptions G_C10_text_is_projection.

(* C10_run_diff_text_is_projection: unconditionally for every ordered run *)
Theorem G_C10_run_diff_text_is_projection :
  forall hatom udiff ops skip excl c v t1 t2,
    thr_num c <= thr_den c -> wf t1 = true -> wf t2 = true ->
    let es := fst (run_diff hatom udiff ops skip excl c t1 t2) in
    exists ts, g_text v es [] = map raw_of ts /\
      Forall2 (describes v) (levels_in_order v es) ts /\
      map tkey ts = map ekey (levels_in_order v es).
Proof.
  intros hatom udiff ops skip excl c v t1 t2 Hthr W1 W2 es.
  assert (HS : Forall src_shape_ok es) by (apply run_diff_src_shape_ok; assumption).
  exists (text_view_cats v es). split; [|split].
  - rewrite (G_text_result v es [] HS). unfold rep_view. rewrite combine_nil. cbn [map]. apply app_nil_r.
  - apply text_view_cats_projection. apply src_shape_ok_shape. exact HS.
  - apply text_view_cats_same_pairs.
Qed.
Print Assumptions G_C10_run_diff_text_is_projection.

(* C10_json_same_keys / C10_json_full_same_keys: the document json.dumps receives from the generated
   conversion is the hand model's document, so every to_json theorem of Properties/C10.v speaks about it *)
Theorem G_C10_json_document : forall v es rs,
  Forall src_shape_ok es ->
  exists ts, g_text v es rs = (map raw_of ts ++ map raw_of_rep (rep_view es rs))%list /\
    json_full v ts (rep_view es rs) = json_full v (text_view v es) (rep_view es rs) /\
    json_of_text v ts = json_of_text v (text_view v es).
Proof.
  intros v es rs HS. exists (text_view_cats v es). split; [apply G_text_result; exact HS|].
  split; [apply json_full_cats|]. unfold json_of_text. rewrite cat_list_cats. reflexivity.
Qed.
Print Assumptions G_C10_json_document.

(* C10_pretty_one_per_change / C10_pretty_names_path about the generated pretty_print_diff *)
Theorem G_C10_pretty_statements : forall v es,
  map (fun e => g_pretty_print_diff v (e, None)) es = map OStr (pretty v es).
Proof. intros v es. unfold pretty. rewrite map_map. apply map_ext. intros e. apply g_pretty_print_diff_eq. Qed.
Print Assumptions G_C10_pretty_statements.

Theorem G_C10_pretty_names_path : forall v l,
  ekind (fst l) <> KIterMoved ->
  exists s, g_pretty_print_diff v l = OStr s /\ s <> [] /\ contains_sub (render (ep1 (fst l))) s = true.
Proof.
  intros v l K. exists (pretty_of v (fst l)). split; [apply g_pretty_print_diff_eq|].
  split; [apply pretty_nonempty; exact K|apply pretty_names_path; exact K].
Qed.
Print Assumptions G_C10_pretty_names_path.

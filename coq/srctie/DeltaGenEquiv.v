(** Source tie of C08 / C01, equivalence half: the definitions GENERATED from deepdiff/delta.py
    (DDGen.DeltaGen, regenerated on every run by harness/translate/deltapasses.py) equal the hand-written
    model Delta/DeltaModel.v for all arguments, and the main theorems of Properties/C08.v hold of the
    generated definitions. *)
From Coq Require Import List ZArith NArith Bool Arith Lia.
Import ListNotations.
From DD Require Import Base.PyStr Base.Value Path.PathModel Diff.Tree Diff.DiffModel Diff.DiffShow
  Diff.DiffFaithful Delta.DeltaModel Delta.DeltaGuard Delta.DeltaRun Delta.DeltaGood Delta.DeltaChain Delta.DeltaVerify Delta.DeltaVerifyDiff Delta.DeltaVerifyIndep
  Delta.DeltaReverse Delta.DeltaReverseDiff Delta.DeltaReverseInplace Delta.DeltaReverseDiffInplace Delta.DeltaReverseSeq
  Delta.DeltaReverseKinds Delta.DeltaReverseSym Delta.DeltaReverseZip
  Delta.DeltaReverseSymD Delta.DeltaReverseDefault Delta.DeltaVerifyPerm
  Diff.DiffPaths Delta.DeltaReverseClash Delta.DeltaReverseClashInv Delta.DeltaVerifyHyp
  Delta.DeltaReverseFrom Delta.DeltaReverseOracle Delta.DeltaVerifyMore Delta.DeltaVerifyBase Delta.DeltaVerifySubDiff
  Delta.DeltaSrc Properties.C08.
From DDGen Require Import DeltaGen.

Lemma unsome_some {A} (l : list (A * value)) : map unsome_snd (map some_snd l) = l.
Proof. induction l as [|[a v] l IH]; cbn; [reflexivity|]. rewrite IH. reflexivity. Qed.

Lemma obj_eta self : mkObj (o_diff self) (o_rev self) (o_mutate self) (o_st self) = self.
Proof. destruct self; reflexivity. Qed.

Lemma on_st_id self : on_st (fun s => s) self = self.
Proof. destruct self; reflexivity. Qed.

Section Equiv.
Variable conv : ty -> value -> option value.
Variable ro : list (path * value) -> list (path * value).
Variable ao : list (path * option value) -> list (path * option value).

(* ------------------------------------------------------------------ *)
(* reset, _raise_or_log, _do_verify_changes                            *)
(* ------------------------------------------------------------------ *)
Theorem g_reset_eq self :
  g_reset self = obj_set_st self (mkSt (root (o_st self)) [] (errs (o_st self))).
Proof. reflexivity. Qed.

Theorem g__raise_or_log_eq self : g__raise_or_log self = on_st err self.
Proof. reflexivity. Qed.

Theorem g__do_verify_changes_eq self p expected current :
  g__do_verify_changes self p expected current = on_st (verify (obj_bidirectional self) expected current) self.
Proof.
  destruct self as [d r m s]. unfold g__do_verify_changes, g__raise_or_log, verify, on_st, obj_bidirectional, py_ne_opt.
  cbn [o_diff o_st obj_set_st o_rev o_mutate].
  destruct (d_bidir d); destruct expected as [e|]; try destruct (py_eqv e current); reflexivity.
Qed.

(* ------------------------------------------------------------------ *)
(* the pass wrappers                                                   *)
(* ------------------------------------------------------------------ *)
Theorem g__do_pre_process_eq self : g__do_pre_process self = self.
Proof. reflexivity. Qed.

Theorem g__do_ignore_order_eq self : g__do_ignore_order self = self.
Proof. reflexivity. Qed.

Theorem g__do_attribute_added_eq self : g__do_attribute_added ao self = self.
Proof. reflexivity. Qed.

Theorem g__do_attribute_removed_eq self : g__do_attribute_removed ro self = self.
Proof. reflexivity. Qed.

Theorem g__do_values_changed_eq self :
  g__do_values_changed conv self = on_st (do_values_changed (d_bidir (o_diff self)) (d_val (o_diff self))) self.
Proof.
  destruct self as [d r m s]. unfold g__do_values_changed. cbn [o_diff diff_get payload_truthy].
  destruct (d_val d); reflexivity.
Qed.

Theorem g__do_type_changes_eq self :
  g__do_type_changes conv self = on_st (do_type_changes conv (d_bidir (o_diff self)) (d_type (o_diff self))) self.
Proof.
  destruct self as [d r m s]. unfold g__do_type_changes. cbn [o_diff diff_get payload_truthy].
  destruct (d_type d); reflexivity.
Qed.

Theorem g__do_set_item_added_eq self :
  g__do_set_item_added self = on_st (do_set_items set_union (d_sadd (o_diff self))) self.
Proof.
  destruct self as [d r m s]. unfold g__do_set_item_added. cbn [o_diff diff_get payload_truthy].
  destruct (d_sadd d); reflexivity.
Qed.

Theorem g__do_set_item_removed_eq self :
  g__do_set_item_removed self = on_st (do_set_items set_difference (d_srem (o_diff self))) self.
Proof.
  destruct self as [d r m s]. unfold g__do_set_item_removed. cbn [o_diff diff_get payload_truthy].
  destruct (d_srem d); reflexivity.
Qed.

Theorem g__do_dictionary_item_added_eq self :
  g__do_dictionary_item_added ao self =
  on_st (do_item_added ao false false (map (fun pv => (fst pv, Some (snd pv))) (d_dadd (o_diff self)))) self.
Proof.
  destruct self as [d r m s]. unfold g__do_dictionary_item_added. cbn [o_diff diff_get payload_truthy].
  destruct (d_dadd d); reflexivity.
Qed.

Theorem g__do_post_process_eq self : g__do_post_process conv self = on_st do_post self.
Proof.
  destruct self as [d r m [rt p e]]. unfold g__do_post_process, obj_post. cbn [o_st post payload_truthy].
  destruct p; reflexivity.
Qed.

(* the removal passes sort their items: sorted([]) = [] is what the emptiness test of the wrapper relies on *)
Hypothesis ro_nil : ro [] = [].

Theorem g__do_dictionary_item_removed_eq self :
  g__do_dictionary_item_removed ro self = on_st (do_item_removed ro (d_bidir (o_diff self)) (d_drem (o_diff self))) self.
Proof.
  destruct self as [d r m s]. unfold g__do_dictionary_item_removed. cbn [o_diff diff_get payload_truthy].
  destruct (d_drem d) as [|x l] eqn:E.
  - cbn. unfold on_st, do_item_removed. rewrite ro_nil. destruct s; reflexivity.
  - cbn [map nonempty]. unfold w__do_item_removed, as_items, as_items_opt, obj_bidirectional. cbn [o_diff].
    change (some_snd x :: map some_snd l) with (map some_snd (x :: l)). rewrite unsome_some. reflexivity.
Qed.

Theorem g__do_iterable_item_removed_eq self :
  g__do_iterable_item_removed ro self = on_st (do_iterable_item_removed ro (d_bidir (o_diff self)) (o_diff self)) self.
Proof.
  destruct self as [d r m s]. unfold g__do_iterable_item_removed, do_iterable_item_removed. cbn [o_diff diff_get payload_truthy].
  destruct (d_moved d) as [|mv ms] eqn:EM.
  - cbn [nonempty map]. rewrite app_nil_r.
    destruct (d_irem d) as [|x l] eqn:E.
    + cbn. unfold on_st, do_item_removed. rewrite ro_nil. destruct s; reflexivity.
    + cbn [map nonempty]. unfold w__do_item_removed, as_items, as_items_opt, obj_bidirectional. cbn [o_diff].
      change (some_snd x :: map some_snd l) with (map some_snd (x :: l)). rewrite unsome_some. reflexivity.
  - cbn [nonempty]. unfold items_update, as_items_opt, as_moved. cbn [payload_truthy].
    assert (N : nonempty (map some_snd (d_irem d) ++ map (fun it : path * path * value => (mv_key it, Some (mv_sub_value it))) (mv :: ms)) = true).
    { destruct (d_irem d); reflexivity. }
    rewrite N. unfold w__do_item_removed, as_items, as_items_opt, obj_bidirectional. cbn [o_diff].
    rewrite map_app, unsome_some, map_map. reflexivity.
Qed.

Theorem g__do_iterable_item_added_eq self :
  g__do_iterable_item_added ao self = on_st (do_iterable_item_added ao (o_diff self)) self.
Proof.
  destruct self as [d r m s]. unfold g__do_iterable_item_added, do_iterable_item_added. cbn [o_diff diff_get payload_truthy].
  destruct (d_moved d) as [|mv ms] eqn:EM.
  - cbn [nonempty map]. rewrite app_nil_r.
    destruct (d_iadd d) as [|x l] eqn:E; reflexivity.
  - cbn [nonempty]. unfold items_update, as_items_opt, as_moved. cbn [payload_truthy].
    set (added := map some_snd (d_iadd d) ++ map (fun it : path * path * value => (mv_sub_new_path it, @None value)) (mv :: ms)).
    assert (N : nonempty added = true) by (unfold added; destruct (d_iadd d); reflexivity).
    rewrite N.
    assert (A : added = map (fun pv => (fst pv, Some (snd pv))) (d_iadd d) ++ map (fun m0 => (snd (fst m0), None)) (mv :: ms)) by reflexivity.
    rewrite <- A. destruct added as [|a0 added']; [discriminate N|]. reflexivity.
Qed.


(* ------------------------------------------------------------------ *)
(* __add__                                                             *)
(* ------------------------------------------------------------------ *)
(* the object a finished application leaves behind: no root, no pending conversions, the error count of that application *)
Definition after (self : dobj) (n : nat) : dobj :=
  mkObj (o_diff self) (o_rev self) (o_mutate self) (mkSt (VAtom ANone) [] n).

(* the same equalities on an explicit object *)
Lemma mk_values d r m s : g__do_values_changed conv (mkObj d r m s) = mkObj d r m (do_values_changed (d_bidir d) (d_val d) s).
Proof. rewrite g__do_values_changed_eq. reflexivity. Qed.
Lemma mk_sadd d r m s : g__do_set_item_added (mkObj d r m s) = mkObj d r m (do_set_items set_union (d_sadd d) s).
Proof. rewrite g__do_set_item_added_eq. reflexivity. Qed.
Lemma mk_srem d r m s : g__do_set_item_removed (mkObj d r m s) = mkObj d r m (do_set_items set_difference (d_srem d) s).
Proof. rewrite g__do_set_item_removed_eq. reflexivity. Qed.
Lemma mk_types d r m s : g__do_type_changes conv (mkObj d r m s) = mkObj d r m (do_type_changes conv (d_bidir d) (d_type d) s).
Proof. rewrite g__do_type_changes_eq. reflexivity. Qed.
Lemma mk_ops d r m s : w__do_iterable_opcodes (mkObj d r m s) = mkObj d r m (do_opcodes (d_ops d) s).
Proof. reflexivity. Qed.
Lemma mk_irem d r m s : g__do_iterable_item_removed ro (mkObj d r m s) = mkObj d r m (do_iterable_item_removed ro (d_bidir d) d s).
Proof. rewrite g__do_iterable_item_removed_eq. reflexivity. Qed.
Lemma mk_iadd d r m s : g__do_iterable_item_added ao (mkObj d r m s) = mkObj d r m (do_iterable_item_added ao d s).
Proof. rewrite g__do_iterable_item_added_eq. reflexivity. Qed.
Lemma mk_dadd d r m s : g__do_dictionary_item_added ao (mkObj d r m s) =
  mkObj d r m (do_item_added ao false false (map (fun pv => (fst pv, Some (snd pv))) (d_dadd d)) s).
Proof. rewrite g__do_dictionary_item_added_eq. reflexivity. Qed.
Lemma mk_drem d r m s : g__do_dictionary_item_removed ro (mkObj d r m s) = mkObj d r m (do_item_removed ro (d_bidir d) (d_drem d) s).
Proof. rewrite g__do_dictionary_item_removed_eq. reflexivity. Qed.
Lemma mk_post d r m s : g__do_post_process conv (mkObj d r m s) = mkObj d r m (do_post s).
Proof. rewrite g__do_post_process_eq. reflexivity. Qed.
Lemma mk_pre d r m s : g__do_pre_process (mkObj d r m s) = mkObj d r m s.
Proof. reflexivity. Qed.
Lemma mk_io d r m s : g__do_ignore_order (mkObj d r m s) = mkObj d r m s.
Proof. reflexivity. Qed.
Lemma mk_aadd d r m s : g__do_attribute_added ao (mkObj d r m s) = mkObj d r m s.
Proof. reflexivity. Qed.
Lemma mk_arem d r m s : g__do_attribute_removed ro (mkObj d r m s) = mkObj d r m s.
Proof. reflexivity. Qed.
Lemma mk_finish d r m s : (g_reset (obj_del_root (mkObj d r m s)), obj_root (mkObj d r m s)) = (mkObj d r m (mkSt (VAtom ANone) [] (errs s)), root s).
Proof. reflexivity. Qed.

(* rewrite the innermost pass applied to an explicit object; syntactic matching only (several wrappers are the
   identity in this universe, so unification up to conversion would match anything) *)
Ltac pass_step :=
  match goal with
  | |- context [g__do_pre_process (mkObj ?d ?r ?m ?s)] => rewrite (mk_pre d r m s)
  | |- context [g__do_values_changed conv (mkObj ?d ?r ?m ?s)] => rewrite (mk_values d r m s)
  | |- context [g__do_set_item_added (mkObj ?d ?r ?m ?s)] => rewrite (mk_sadd d r m s)
  | |- context [g__do_set_item_removed (mkObj ?d ?r ?m ?s)] => rewrite (mk_srem d r m s)
  | |- context [g__do_type_changes conv (mkObj ?d ?r ?m ?s)] => rewrite (mk_types d r m s)
  | |- context [w__do_iterable_opcodes (mkObj ?d ?r ?m ?s)] => rewrite (mk_ops d r m s)
  | |- context [g__do_iterable_item_removed ro (mkObj ?d ?r ?m ?s)] => rewrite (mk_irem d r m s)
  | |- context [g__do_iterable_item_added ao (mkObj ?d ?r ?m ?s)] => rewrite (mk_iadd d r m s)
  | |- context [g__do_ignore_order (mkObj ?d ?r ?m ?s)] => rewrite (mk_io d r m s)
  | |- context [g__do_dictionary_item_added ao (mkObj ?d ?r ?m ?s)] => rewrite (mk_dadd d r m s)
  | |- context [g__do_dictionary_item_removed ro (mkObj ?d ?r ?m ?s)] => rewrite (mk_drem d r m s)
  | |- context [g__do_attribute_added ao (mkObj ?d ?r ?m ?s)] => rewrite (mk_aadd d r m s)
  | |- context [g__do_attribute_removed ro (mkObj ?d ?r ?m ?s)] => rewrite (mk_arem d r m s)
  | |- context [g__do_post_process conv (mkObj ?d ?r ?m ?s)] => rewrite (mk_post d r m s)
  end.

Theorem g___add___eq self other :
  post (o_st self) = [] ->
  g___add__ conv ro ao self other =
  (after self (snd (apply conv ro ao (o_diff self) other)), fst (apply conv ro ao (o_diff self) other)).
Proof.
  intros Hp. destruct self as [d r m [rt p e]]. cbn [o_st post] in Hp. subst p.
  unfold g___add__. cbv zeta.
  destruct m; cbn [o_mutate negb]; unfold py_deepcopy, obj_set_root, obj_set_st; cbn [o_st post o_diff o_rev o_mutate];
    repeat pass_step; unfold g_reset, obj_del_root, obj_set_post, obj_root, obj_set_st, after, apply;
    cbn [o_st o_diff o_rev o_mutate root post errs as_paths fst snd]; reflexivity.
Qed.

Theorem g___radd___eq self other : g___radd__ conv ro ao self other = g___add__ conv ro ao self other.
Proof. reflexivity. Qed.

(* the ORDER of the passes as a list of names: interpreted by the pass functions of the hand-written model
   (the four passes that have no payload in this universe are the identity), the list the translator reads off
   __add__ IS the list [passes] of Delta/DeltaVerify.v that C08's theorems are about *)
Definition pass_fun (d : delta) (p : pass) : st -> st :=
  match p with
  | P_do_pre_process | P_do_ignore_order | P_do_attribute_added | P_do_attribute_removed => fun s => s
  | P_do_values_changed => do_values_changed (d_bidir d) (d_val d)
  | P_do_set_item_added => do_set_items set_union (d_sadd d)
  | P_do_set_item_removed => do_set_items set_difference (d_srem d)
  | P_do_type_changes => do_type_changes conv (d_bidir d) (d_type d)
  | P_do_iterable_opcodes => do_opcodes (d_ops d)
  | P_do_iterable_item_removed => do_iterable_item_removed ro (d_bidir d) d
  | P_do_iterable_item_added => do_iterable_item_added ao d
  | P_do_dictionary_item_added => do_item_added ao false false (map (fun pv => (fst pv, Some (snd pv))) (d_dadd d))
  | P_do_dictionary_item_removed => do_item_removed ro (d_bidir d) (d_drem d)
  | P_do_post_process => do_post
  end.
Definition modelled (p : pass) : bool :=
  match p with P_do_pre_process | P_do_ignore_order | P_do_attribute_added | P_do_attribute_removed => false | _ => true end.

Theorem g___add___passes_eq d :
  map (pass_fun d) (filter modelled g___add___passes) = passes conv ro ao d.
Proof. reflexivity. Qed.

Theorem g___add___passes_run d v :
  apply conv ro ao d v =
  let s := fold_left (fun s p => pass_fun d p s) g___add___passes (mkSt v [] 0) in (root s, errs s).
Proof. reflexivity. Qed.

(* ------------------------------------------------------------------ *)
(* _get_reverse_diff                                                   *)
(* ------------------------------------------------------------------ *)
Theorem g__get_reverse_diff_eq self :
  g__get_reverse_diff self = if d_bidir (o_diff self) then Some (reverse (o_diff self)) else None.
Proof.
  destruct self as [d r m s]. unfold g__get_reverse_diff, obj_bidirectional. cbn [o_diff].
  destruct (d_bidir d) eqn:B; [|reflexivity]. cbn [negb]. unfold rret. f_equal.
  destruct d as [dv dt da dr ia ir mv sa sr ops b]. cbn [d_bidir] in B. subst b.
  unfold reverse.
  cbv beta iota zeta delta [fold_left diff_keys cat_assoc_get cat_assoc_set cat_assoc_sub cat_assoc_keys cat_eqb cat_code Nat.eqb
    fst snd diff_get diff_set diff_empty set_d_ops set_d_sadd set_d_srem set_d_moved set_d_iadd set_d_irem set_d_dadd set_d_drem
    set_d_type set_d_val as_val as_type as_moved as_ops d_val d_type d_dadd d_drem d_iadd d_irem d_moved d_sadd d_srem d_ops d_bidir].
  rewrite !unsome_some.
  f_equal.
  - apply map_ext. intros c. unfold vc_make, vc_has_new_path, vc_sub_new_path, vc_key, vc_sub_old_value, vc_sub_new_value.
    destruct (vc_new_path c); reflexivity.
  - apply map_ext. intros c.
    unfold tc_make, tc_has_new_path, tc_sub_new_path, tc_key, tc_store_old_value, tc_store_new_value,
      tc_has_new_value, tc_has_old_value, tc_sub_new_value, tc_sub_old_value, tc_sub_new_type, tc_sub_old_type.
    destruct (tc_new_path c), (tc_new c), (tc_old c); reflexivity.
  - apply map_ext. intros po. f_equal. apply map_ext. intros o.
    unfold op_make, op_tag, op_old_values, op_new_values, op_t1_from_index, op_t1_to_index, op_t2_from_index, op_t2_to_index, rev_tag.
    destruct (ov_tag o); reflexivity.
Qed.

(* ------------------------------------------------------------------ *)
(* __rsub__                                                            *)
(* ------------------------------------------------------------------ *)
(* the cache self._reversed_diff is empty or holds the reverse of self.diff (and then the delta is bidirectional) *)
Definition rev_ok (self : dobj) : Prop :=
  o_rev self = None \/ (d_bidir (o_diff self) = true /\ o_rev self = Some (reverse (o_diff self))).

Theorem g___rsub___eq self other :
  post (o_st self) = [] -> rev_ok self ->
  g___rsub__ conv ro ao self other =
  match sub conv ro ao (o_diff self) other with
  | Some (v, n) => Some (mkObj (o_diff self) (Some (reverse (o_diff self))) (o_mutate self) (mkSt (VAtom ANone) [] n), v)
  | None => None
  end.
Proof.
  intros Hp Hr. unfold g___rsub__, DeltaModel.sub.
  destruct self as [d r m s]. cbn [o_st o_diff o_rev o_mutate] in *.
  destruct Hr as [Hr|[B Hr]]; cbn [o_rev o_diff] in *; subst r.
  - cbn [is_none]. rewrite g__get_reverse_diff_eq. cbn [o_diff].
    destruct (d_bidir d); [|reflexivity].
    cbn [rbind rret]. unfold obj_set_rev, obj_set_diff_opt, obj_set_diff. cbn [o_diff o_rev o_mutate o_st].
    rewrite (g___add___eq (mkObj (reverse d) (Some d) m s) other Hp). cbn [o_diff].
    destruct (apply conv ro ao (reverse d) other). reflexivity.
  - cbn [is_none rbind rret]. rewrite B.
    unfold obj_set_rev, obj_set_diff_opt, obj_set_diff. cbn [o_diff o_rev o_mutate o_st].
    rewrite (g___add___eq (mkObj (reverse d) (Some d) m s) other Hp). cbn [o_diff].
    destruct (apply conv ro ao (reverse d) other). reflexivity.
Qed.

(* ------------------------------------------------------------------ *)
(* operation sequences on ONE object                                   *)
(* ------------------------------------------------------------------ *)
(* what __init__ leaves: self._reversed_diff = None, self.reset() *)
Definition fresh (d : delta) (m : bool) : dobj := mkObj d None m (mkSt (VAtom ANone) [] 0).
(* the invariant every operation of the fragment re-establishes *)
Definition obj_ok (d : delta) (self : dobj) : Prop := o_diff self = d /\ post (o_st self) = [] /\ rev_ok self.

Lemma fresh_ok d m : obj_ok d (fresh d m).
Proof. split; [reflexivity|]. split; [reflexivity|]. left. reflexivity. Qed.

(* value and number of _raise_or_log calls of one operation, and the object afterwards *)
Definition g_step (self : dobj) (x : dir) (v : value) : option (dobj * (value * nat)) :=
  match x with
  | Plus => let '(self', r) := g___add__ conv ro ao self v in Some (self', (r, obj_errs self'))
  | Minus => match g___rsub__ conv ro ao self v with
             | Some (self', r) => Some (self', (r, obj_errs self'))
             | None => None
             end
  end.
Fixpoint g_run_seq (self : dobj) (l : list dir) (v : value) : option (dobj * (value * nat)) :=
  match l with
  | [] => Some (self, (v, 0))
  | x :: l' =>
      match g_step self x v with
      | Some (self', (v', n)) =>
          match g_run_seq self' l' v' with
          | Some (self'', (v'', k)) => Some (self'', (v'', n + k))
          | None => None
          end
      | None => None
      end
  end.

Theorem g_step_eq d self x v :
  obj_ok d self ->
  match g_step self x v with
  | Some (self', r) => obj_ok d self' /\ step_dir conv ro ao d x v = Some r
  | None => step_dir conv ro ao d x v = None
  end.
Proof.
  intros (D & P & R). destruct x; unfold g_step, step_dir.
  - rewrite (g___add___eq self v P). rewrite D.
    split; [|unfold obj_errs, after; cbn [o_st errs]; destruct (apply conv ro ao d v); reflexivity].
    split; [exact D|]. split; [reflexivity|]. exact R.
  - rewrite (g___rsub___eq self v P R). rewrite D.
    unfold sub. destruct (d_bidir d) eqn:B; [|reflexivity].
    destruct (apply conv ro ao (reverse d) v) as [v' n]. split; [|reflexivity].
    split; [reflexivity|]. split; [reflexivity|]. right. split; [exact B|reflexivity].
Qed.

(* HISTORY INDEPENDENCE: on every object that satisfies the invariant - in particular a fresh one, and every object
   reached from a fresh one by operations of the fragment - a sequence of + / - gives what the pure functions
   apply / sub of the hand-written model give *)
Theorem g_run_seq_eq d l : forall self v,
  obj_ok d self ->
  match g_run_seq self l v with
  | Some (self', r) => obj_ok d self' /\ run_seq conv ro ao d l v = Some r
  | None => run_seq conv ro ao d l v = None
  end.
Proof.
  induction l as [|x l IH]; intros self v OK; cbn [g_run_seq run_seq].
  - split; [exact OK|reflexivity].
  - pose proof (g_step_eq d self x v OK) as S.
    destruct (g_step self x v) as [[self' [v' n]]|]; [|rewrite S; reflexivity].
    destruct S as [OK' S]. rewrite S.
    specialize (IH self' v' OK').
    destruct (g_run_seq self' l v') as [[self'' [v'' k]]|]; [|rewrite IH; reflexivity].
    destruct IH as [OK'' IH]. rewrite IH. split; [exact OK''|reflexivity].
Qed.

(* the observable results on a fresh object *)
Definition g_add_result (d : delta) (m : bool) (v : value) : value * nat :=
  let '(self', r) := g___add__ conv ro ao (fresh d m) v in (r, obj_errs self').
Definition g_sub_result (d : delta) (m : bool) (v : value) : option (value * nat) :=
  match g___rsub__ conv ro ao (fresh d m) v with Some (self', r) => Some (r, obj_errs self') | None => None end.
Definition g_seq_result (d : delta) (m : bool) (l : list dir) (v : value) : option (value * nat) :=
  option_map snd (g_run_seq (fresh d m) l v).
Definition g_reverse_result (d : delta) (m : bool) : option delta := g__get_reverse_diff (fresh d m).

Theorem g_add_result_eq d m v : g_add_result d m v = apply conv ro ao d v.
Proof.
  unfold g_add_result. rewrite (g___add___eq (fresh d m) v eq_refl).
  unfold obj_errs, after, fresh. cbn [o_st o_diff errs].
  destruct (apply conv ro ao d v); reflexivity.
Qed.

Theorem g_sub_result_eq d m v : g_sub_result d m v = sub conv ro ao d v.
Proof.
  unfold g_sub_result. rewrite (g___rsub___eq (fresh d m) v eq_refl (or_introl eq_refl)). cbn [o_diff fresh].
  destruct (sub conv ro ao d v) as [[v' n]|]; reflexivity.
Qed.

Theorem g_seq_result_eq d m l v : g_seq_result d m l v = run_seq conv ro ao d l v.
Proof.
  unfold g_seq_result. pose proof (g_run_seq_eq d l (fresh d m) v (fresh_ok d m)) as H.
  destruct (g_run_seq (fresh d m) l v) as [[self' r]|]; cbn [option_map snd].
  - destruct H as [_ H]. symmetry. exact H.
  - symmetry. exact H.
Qed.

Theorem g_reverse_result_eq d m : g_reverse_result d m = if d_bidir d then Some (reverse d) else None.
Proof. unfold g_reverse_result. rewrite g__get_reverse_diff_eq. reflexivity. Qed.

End Equiv.

Print Assumptions g_reset_eq.
Print Assumptions g__raise_or_log_eq.
Print Assumptions g__do_verify_changes_eq.
Print Assumptions g__do_pre_process_eq.
Print Assumptions g__do_ignore_order_eq.
Print Assumptions g__do_attribute_added_eq.
Print Assumptions g__do_attribute_removed_eq.
Print Assumptions g__do_values_changed_eq.
Print Assumptions g__do_type_changes_eq.
Print Assumptions g__do_set_item_added_eq.
Print Assumptions g__do_set_item_removed_eq.
Print Assumptions g__do_dictionary_item_added_eq.
Print Assumptions g__do_post_process_eq.
Print Assumptions g__do_dictionary_item_removed_eq.
Print Assumptions g__do_iterable_item_removed_eq.
Print Assumptions g__do_iterable_item_added_eq.
Print Assumptions g___add___eq.
Print Assumptions g___radd___eq.
Print Assumptions g___add___passes_eq.
Print Assumptions g___add___passes_run.
Print Assumptions g__get_reverse_diff_eq.
Print Assumptions g___rsub___eq.
Print Assumptions g_step_eq.
Print Assumptions g_run_seq_eq.
Print Assumptions g_add_result_eq.
Print Assumptions g_sub_result_eq.
Print Assumptions g_seq_result_eq.
Print Assumptions g_reverse_result_eq.

(* ================================================================== *)
(* TRANSFER: theorems of Properties/C08.v about what delta.py says NOW *)
(* ================================================================== *)
(* [g_add_result d m v] / [g_sub_result d m v] / [g_seq_result d m l v]: value and number of _raise_or_log calls of
   v + delta, v - delta, a +/- sequence on ONE object, computed by the GENERATED __add__ / __rsub__ on an object as
   __init__ leaves it (any [mutate] flag m).  [ro [] = []]: sorted([]) = [].  *)

(* 1. refusal *)
Theorem T_C08_directed_refuses_sub :
  forall conv ro ao, ro [] = [] -> forall d m v, d_bidir d = false -> g_sub_result conv ro ao d m v = None.
Proof. intros conv ro ao H d m v B. rewrite (g_sub_result_eq conv ro ao H). apply C08_directed_refuses_sub. exact B. Qed.

Theorem T_C08_directed_sequences_refused :
  forall conv ro ao, ro [] = [] -> forall d m l1 l2 v,
    d_bidir d = false -> g_seq_result conv ro ao d m (l1 ++ Minus :: l2) v = None.
Proof. intros conv ro ao H d m l1 l2 v B. rewrite (g_seq_result_eq conv ro ao H). apply C08_directed_sequences_refused. exact B. Qed.

(* 2. the pass list the theorems of section 2 speak about is the list read off the source *)
Theorem T_C08_every_pass_monotone :
  forall conv ro ao d, Forall mono (map (pass_fun conv ro ao d) (filter modelled g___add___passes)).
Proof. intros. rewrite g___add___passes_eq. apply C08_every_pass_monotone. Qed.

(* 3. a mismatched base is reported *)
Theorem T_C08_detects_corruption :
  forall conv ro ao, ro [] = [] -> forall d m v c cur old,
    d_bidir d = true -> pairwise_div (map vc_path (d_val d)) = true ->
    In c (d_val d) ->
    resolve v (vc_path c) = Some cur -> vc_old c = Some old -> py_eqv old cur = false ->
    0 < snd (g_add_result conv ro ao d m v).
Proof. intros conv ro ao H d m v c cur old. rewrite (g_add_result_eq conv ro ao H). apply C08_detects_corruption. Qed.

Theorem T_C08_detects_missing_location :
  forall conv ro ao, ro [] = [] -> forall d m v c,
    d_bidir d = true -> pairwise_div (map vc_path (d_val d)) = true ->
    In c (d_val d) -> resolve v (vc_path c) = None ->
    0 < snd (g_add_result conv ro ao d m v).
Proof. intros conv ro ao H d m v c. rewrite (g_add_result_eq conv ro ao H). apply C08_detects_missing_location. Qed.

Theorem T_C08_detects_corruption_type :
  forall conv ro ao, ro [] = [] -> forall d m v c,
    d_bidir d = true -> indep_verified d = true ->
    In c (d_type d) -> tc_bad v c = true ->
    0 < snd (g_add_result conv ro ao d m v).
Proof. intros conv ro ao H d m v c. rewrite (g_add_result_eq conv ro ao H). apply C08_detects_corruption_type. Qed.

Theorem T_C08_sub_detects_corruption :
  forall conv ro ao, ro [] = [] -> forall d m v c,
    d_bidir d = true -> pairwise_div (map vc_path (d_val (reverse d))) = true ->
    In c (d_val d) -> old_mismatch v (rpath c) (Some (vc_new c)) = true ->
    exists r n, g_sub_result conv ro ao d m v = Some (r, n) /\ 0 < n.
Proof. intros conv ro ao H d m v c. rewrite (g_sub_result_eq conv ro ao H). apply C08_sub_detects_corruption. Qed.

(* 4. structure of the reversal: what _get_reverse_diff computes, computed twice *)
Theorem T_C08_reverse_keeps_bidirectional :
  forall d m r, g_reverse_result d m = Some r -> d_bidir r = d_bidir d.
Proof.
  intros d m r. rewrite g_reverse_result_eq. destruct (d_bidir d) eqn:B; [|discriminate].
  intros E. injection E as <-. rewrite C08_reverse_keeps_bidirectional. exact B.
Qed.

Theorem T_C08_reverse_reverse :
  forall d m, d_bidir d = true ->
    match g_reverse_result d m with Some r => g_reverse_result r m | None => None end = Some (dnorm d).
Proof.
  intros d m B. rewrite g_reverse_result_eq, B, g_reverse_result_eq, C08_reverse_keeps_bidirectional, B.
  rewrite C08_reverse_reverse. reflexivity.
Qed.

(* 5. t2 - delta = t1 *)
Theorem T_C08_sub_inverts_partial :
  forall conv ro ao, ro [] = [] ->
  forall d m v1 v2,
    inplace d -> d_bidir d = true ->
    pairwise_div (map wpath (writes d)) = true ->
    (forall w, In w (writes d) ->
       resolve v1 (wpath w) = Some (snd (fst w)) /\ wf (snd w) = true /\ ntp v1 (wpath w)) ->
    g_add_result conv ro ao d m v1 = (v2, 0) ->
    g_sub_result conv ro ao d m v2 = Some (v1, 0).
Proof.
  intros conv ro ao H d m v1 v2. rewrite (g_add_result_eq conv ro ao H), (g_sub_result_eq conv ro ao H).
  apply C08_sub_inverts_partial. exact H.
Qed.

(* 6. back and forth on ONE object, any length *)
Theorem T_C08_back_and_forth :
  forall conv ro ao, ro [] = [] -> forall d m t1 t2,
    g_add_result conv ro ao d m t1 = (t2, 0) -> g_sub_result conv ro ao d m t2 = Some (t1, 0) ->
    forall k,
      g_seq_result conv ro ao d m (alternating Plus k) t1 = Some (if Nat.even k then t1 else t2, 0) /\
      g_seq_result conv ro ao d m (alternating Minus k) t2 = Some (if Nat.even k then t2 else t1, 0).
Proof.
  intros conv ro ao H d m t1 t2. rewrite (g_add_result_eq conv ro ao H), (g_sub_result_eq conv ro ao H).
  intros A S k. rewrite !(g_seq_result_eq conv ro ao H). apply C08_back_and_forth; assumption.
Qed.

(* 11. the delta of a diff, all categories, default mode included: the property's statement *)
Theorem T_C08_sub_inverts_python_equal :
  forall hatom udiff ops c conv always,
    thr_num c <= thr_den c ->
    (forall a b, hatom a = hatom b -> a = b) ->
    (forall ty0 v v', conv ty0 v = Some v' -> type_of v' = ty0) ->
  forall ro ao, ro [] = [] ->
    (forall p xs ys, forallb is_atom xs = true -> forallb is_atom ys = true -> valid_ops xs ys (ops p xs ys)) ->
  forall t1 t2 m,
    guards c conv true always t2 t1 -> korder t1 t2 ->
    let r := run_diff hatom udiff ops DeltaReverseSym.nos DeltaReverseSym.nos c t1 t2 in
    let d := to_delta conv true always ops t1 t2 (fst r) (snd r) in
    orders_ok_at ro ao (reverse d) ->
    (no_clash (fst (diff hatom udiff ops DeltaReverseSym.nos DeltaReverseSym.nos c t1 t2 [] [])) \/
     (keys_nonneg t1 = true /\ forall cc, In cc (d_val (reverse d)) -> ntp t2 (vc_path cc))) ->
    exists t1', g_sub_result conv ro ao d m t2 = Some (t1', 0) /\ wf t1' = true /\ py_eqv t1' t1 = true /\ py_eqv t1 t1' = true.
Proof.
  intros hatom udiff ops c conv always H1 H2 H3 ro ao Hro H4 t1 t2 m G K r d O N.
  rewrite (g_sub_result_eq conv ro ao Hro). exact (C08_sub_inverts_python_equal hatom udiff ops c conv always H1 H2 H3 ro ao H4 t1 t2 G K O N).
Qed.

Theorem T_C08_add_then_sub_default :
  forall hatom udiff ops c conv always,
    thr_num c <= thr_den c ->
    (forall a b, hatom a = hatom b -> a = b) ->
    (forall ty0 v v', conv ty0 v = Some v' -> type_of v' = ty0) ->
  forall ro ao, ro [] = [] ->
    (forall p xs ys, forallb is_atom xs = true -> forallb is_atom ys = true -> valid_ops xs ys (ops p xs ys)) ->
  forall t1 t2 m,
    guards c conv true always t2 t1 -> korder t1 t2 ->
    let r := run_diff hatom udiff ops DeltaReverseSym.nos DeltaReverseSym.nos c t1 t2 in
    let d := to_delta conv true always ops t1 t2 (fst r) (snd r) in
    orders_ok_at ro ao (reverse d) ->
    (no_clash (fst (diff hatom udiff ops DeltaReverseSym.nos DeltaReverseSym.nos c t1 t2 [] [])) \/
     (keys_nonneg t1 = true /\ forall cc, In cc (d_val (reverse d)) -> ntp t2 (vc_path cc))) ->
    guards c conv true always t1 t2 -> orders_ok_at ro ao d ->
    exists t2' t1', g_add_result conv ro ao d m t1 = (t2', 0) /\ veqb t2' t2 = true /\
                    g_sub_result conv ro ao d m t2' = Some (t1', 0) /\ veqb t1' t1 = true.
Proof.
  intros hatom udiff ops c conv always H1 H2 H3 ro ao Hro H4 t1 t2 m G K r d O N G' O'.
  destruct (C08_add_then_sub_default hatom udiff ops c conv always H1 H2 H3 ro ao H4 t1 t2 G K O N G' O') as (t2' & t1' & A & E & S & E').
  exists t2', t1'. rewrite (g_add_result_eq conv ro ao Hro), (g_sub_result_eq conv ro ao Hro). repeat split; assumption.
Qed.

Theorem T_C08_back_and_forth_default :
  forall hatom udiff ops c conv always,
    thr_num c <= thr_den c ->
    (forall a b, hatom a = hatom b -> a = b) ->
    (forall ty0 v v', conv ty0 v = Some v' -> type_of v' = ty0) ->
  forall ro ao, ro [] = [] ->
    (forall p xs ys, forallb is_atom xs = true -> forallb is_atom ys = true -> valid_ops xs ys (ops p xs ys)) ->
  forall t1 t2 m,
    guards c conv true always t2 t1 -> korder t1 t2 ->
    let r := run_diff hatom udiff ops DeltaReverseSym.nos DeltaReverseSym.nos c t1 t2 in
    let d := to_delta conv true always ops t1 t2 (fst r) (snd r) in
    orders_ok_at ro ao (reverse d) ->
    (no_clash (fst (diff hatom udiff ops DeltaReverseSym.nos DeltaReverseSym.nos c t1 t2 [] [])) \/
     (keys_nonneg t1 = true /\ forall cc, In cc (d_val (reverse d)) -> ntp t2 (vc_path cc))) ->
    guards c conv true always t1 t2 -> orders_ok_at ro ao d ->
    forall k,
      (forall v, wf v = true -> veqb v t1 = true ->
         exists v', g_seq_result conv ro ao d m (alternating Plus k) v = Some (v', 0) /\
                    veqb v' (if Nat.even k then t1 else t2) = true) /\
      (forall v, wf v = true -> veqb v t2 = true ->
         exists v', g_seq_result conv ro ao d m (alternating Minus k) v = Some (v', 0) /\
                    veqb v' (if Nat.even k then t2 else t1) = true).
Proof.
  intros hatom udiff ops c conv always H1 H2 H3 ro ao Hro H4 t1 t2 m G K r d O N G' O' k.
  destruct (C08_back_and_forth_default hatom udiff ops c conv always H1 H2 H3 ro ao H4 t1 t2 G K O N G' O' k) as [P M].
  split; intros v W E; rewrite (g_seq_result_eq conv ro ao Hro); [apply P|apply M]; assumption.
Qed.

(* Print Assumptions walks the whole proof of Properties/C08.v for every transfer theorem (about 1 s each); the
   transfer theorems are therefore checked for closedness TOGETHER, as one tuple of their proofs *)
Definition T_C08_transfer_theorems :=
  (T_C08_directed_refuses_sub,
   T_C08_directed_sequences_refused,
   T_C08_every_pass_monotone,
   T_C08_detects_corruption,
   T_C08_detects_missing_location,
   T_C08_detects_corruption_type,
   T_C08_sub_detects_corruption,
   T_C08_reverse_keeps_bidirectional,
   T_C08_reverse_reverse,
   T_C08_sub_inverts_partial,
   T_C08_back_and_forth,
   T_C08_sub_inverts_python_equal,
   T_C08_add_then_sub_default,
   T_C08_back_and_forth_default).
Print Assumptions T_C08_transfer_theorems.

(** Source tie of C02 / C03: the definitions GENERATED from the current deepdiff/diff.py (DDGen.DiffGen, produced by
    harness/translate/diffdispatch.py on every run) equal the hand-written model Diff/DiffModel.v, for all arguments.

    g_<method>_eq      the generated comparer = the corresponding piece of DiffModel (leaf comparers: exact, for every
                       [rec]; _diff_dict: exact up to the order of the reported levels, because the source walks the
                       common keys in t2's order and DiffModel.diff in t1's)
    g__diff_step       one unfolding of the generated dispatcher, with ANY function [f] for the recursive calls that
                       agrees with DiffModel.diff on the children of t1, agrees with DiffModel.diff on t1
    g_run_eq           the fuel-closed generated function = DiffModel.diff (as multisets of reported levels)
    g_C02_*            the main theorems of Properties/C02.v restated about the generated definitions.
    g__diff_iterable_in_order_eq, g_pairs_*, g_difflib_eq: the sequence comparers (zip_longest pairing, the difflib
    opcode replay with its index bookkeeping, the choice between the two passes) against go_list / pairs_leaf /
    by_opcodes / default_leaf_list. *)
From Coq Require Import List ZArith NArith Bool Arith Lia Permutation.
Import ListNotations.
From DD Require Import Base.PyStr Base.Value Base.ValueFacts Diff.Tree Diff.DiffModel Diff.DiffFacts
  Diff.DiffFaithful Diff.DiffSpecProofs Diff.DiffEmpty Diff.DiffSrcPrims.
From DDGen Require Import DiffGen.

Definition L (t1 t2 : value) (p1 p2 : path) : level := mkLevel (Some t1) (Some t2) p1 p2 None.
Definition perm_res (a b : res) : Prop := Permutation (fst a) (fst b) /\ Permutation (snd a) (snd b).

Lemma perm_res_refl a : perm_res a a.
Proof. split; apply Permutation_refl. Qed.
Lemma perm_res_eq a b : a = b -> perm_res a b.
Proof. intros ->. apply perm_res_refl. Qed.
Lemma perm_res_app2 a b a' b' : perm_res a a' -> perm_res b b' -> perm_res (app2 a b) (app2 a' b').
Proof. intros [A1 A2] [B1 B2]. split; cbn; apply Permutation_app; assumption. Qed.
Lemma seq_nil_l x : seq nil_res x = x.
Proof. destruct x; reflexivity. Qed.
Lemma seq_nil_r x : seq x nil_res = x.
Proof. destruct x as [a b]. unfold seq, app2, nil_res. cbn. rewrite !app_nil_r. reflexivity. Qed.

Lemma branch_deeper_same l a b r x :
  branch_deeper l a b r x x = mkLevel a b (child_path r (lp1 l) x) (child_path r (lp2 l) x) None.
Proof. unfold branch_deeper. destruct x, a, b; reflexivity. Qed.

Section Equiv.
Variable hatom : atom -> pystr.
Variable udiff : pystr -> pystr -> pystr.
Variable ops : path -> list value -> list value -> list opcode.
Variable skip excl : path -> bool.
Variable has_excl : bool.
Variable c : cfg.
(* the one side condition: when exclude_paths is empty (has_excl = false) the membership oracle says no *)
Hypothesis Hexcl : has_excl = false -> forall p, excl p = false.
Notation E := (mkEnv hatom udiff ops skip excl has_excl c).
Notation diff := (DiffModel.diff hatom udiff ops skip excl c).

(* ------------------------------------------------------------------ leaf comparers *)
Theorem g__report_result_eq rec k l :
  g__report_result E rec k l = (report skip k (lp1 l) (lp2 l) (lt1 l) (lt2 l) (ladd l), []).
Proof. unfold g__report_result, report, skip_this. cbn. destruct (skip (lp1 l)); reflexivity. Qed.

Theorem g__diff_types_eq rec l :
  g__diff_types E rec l = (report skip KType (lp1 l) (lp2 l) (lt1 l) (lt2 l) (ladd l), []).
Proof. unfold g__diff_types. cbv zeta. rewrite g__report_result_eq. apply seq_nil_l. Qed.

Theorem g__diff_booleans_eq rec a b p1 p2 :
  g__diff_booleans E rec (L (VAtom a) (VAtom b) p1 p2) =
  (if py_eq a b then [] else report skip KValue p1 p2 (Some (VAtom a)) (Some (VAtom b)) None, []).
Proof.
  unfold g__diff_booleans. cbv zeta. rewrite g__report_result_eq. unfold report. cbn.
  destruct (py_eq a b); destruct (skip p1); reflexivity.
Qed.

Theorem g__diff_numbers_eq rec rtc a b p1 p2 :
  g__diff_numbers E rec (L (VAtom a) (VAtom b) p1 p2) rtc =
  (if py_eq a b then [] else report skip KValue p1 p2 (Some (VAtom a)) (Some (VAtom b)) None, []).
Proof.
  unfold g__diff_numbers. cbv zeta. rewrite g__report_result_eq. unfold report. cbn.
  destruct rtc; destruct (py_eq a b); destruct (skip p1); reflexivity.
Qed.

Lemma str_report (d : option pystr) a b p1 p2 :
  seq nil_res (report skip KValue p1 p2 (Some a) (Some b) d, []) = (report skip KValue p1 p2 (Some a) (Some b) d, []).
Proof. reflexivity. Qed.

Theorem g__diff_str_eq_str rec s t p1 p2 :
  g__diff_str E rec (L (VAtom (AStr s)) (VAtom (AStr t)) p1 p2) =
  (let '(ch, d) := diff_str udiff false s t in
   if ch then report skip KValue p1 p2 (Some (VAtom (AStr s))) (Some (VAtom (AStr t))) d else [], []).
Proof.
  unfold g__diff_str, diff_str, g__report_result, report, skip_this, has_nl. cbv zeta. cbn.
  unfold py_eq; cbn.
  destruct (pystr_eqb s t); [reflexivity|]. cbn.
  destruct (has_char 10 s); destruct (has_char 10 t); cbn; destruct (udiff s t); cbn; destruct (skip p1); reflexivity.
Qed.

Theorem g__diff_str_eq_bytes rec s t p1 p2 :
  g__diff_str E rec (L (VAtom (ABytes s)) (VAtom (ABytes t)) p1 p2) =
  (let '(ch, d) := diff_str udiff true s t in
   if ch then report skip KValue p1 p2 (Some (VAtom (ABytes s))) (Some (VAtom (ABytes t))) d else [], []).
Proof.
  unfold g__diff_str, diff_str, g__report_result, report, skip_this, has_nl. cbv zeta. cbn.
  unfold py_eq; cbn.
  destruct (pystr_eqb s t) eqn:EQ; [reflexivity|]. cbn.
  destruct (is_ascii s); destruct (is_ascii t); cbn; unfold py_eq; cbn; rewrite ?EQ; cbn;
    destruct (has_char 10 s); destruct (has_char 10 t); cbn; destruct (udiff s t); cbn; destruct (skip p1); reflexivity.
Qed.

(* ------------------------------------------------------------------ _diff_set *)
Lemma fph_hashes_gen l : forall seen s,
  (existsb (pystr_eqb s) (map hatom (first_per_hash hatom l seen)) || existsb (pystr_eqb s) seen =
   existsb (pystr_eqb s) (map hatom l) || existsb (pystr_eqb s) seen)%bool.
Proof.
  induction l as [|a l IH]; intros seen s; [reflexivity|]. cbn [first_per_hash map existsb].
  destruct (existsb (pystr_eqb (hatom a)) seen) eqn:Ea.
  - rewrite IH. destruct (pystr_eqb s (hatom a)) eqn:Es; [|reflexivity].
    apply pystr_eqb_eq in Es. subst s. rewrite Ea. rewrite !orb_true_r. reflexivity.
  - cbn [map existsb]. specialize (IH (hatom a :: seen) s). cbn [existsb] in IH.
    destruct (pystr_eqb s (hatom a)); cbn [orb] in *; [reflexivity|exact IH].
Qed.

Lemma fph_hashes0 l s :
  existsb (pystr_eqb s) (map hatom (first_per_hash hatom l [])) = existsb (pystr_eqb s) (map hatom l).
Proof. pose proof (fph_hashes_gen l [] s) as H. cbn [existsb] in H. rewrite !orb_false_r in H. exact H. Qed.

Lemma fph_nodup l : forall seen,
  NoDup (map hatom (first_per_hash hatom l seen)) /\
  (forall a, In a (first_per_hash hatom l seen) -> existsb (pystr_eqb (hatom a)) seen = false).
Proof.
  induction l as [|x l IH]; intros seen; cbn [first_per_hash]; [split; [constructor|intros a []]|].
  destruct (existsb (pystr_eqb (hatom x)) seen) eqn:Ex; [apply IH|].
  destruct (IH (hatom x :: seen)) as [N D]. split.
  - cbn [map]. constructor; [|exact N]. intros Hin. apply in_map_iff in Hin as (a & Ha & Hin).
    specialize (D a Hin). cbn [existsb] in D. rewrite Ha, pystr_eqb_refl in D. discriminate.
  - intros a [<-|Hin]; [exact Ex|]. specialize (D a Hin). cbn [existsb] in D.
    apply orb_false_iff in D as [_ D]. exact D.
Qed.

Definition tbl (F : list atom) : list (pystr * atom) := map (fun a => (hatom a, a)) F.

Lemma ht_item_self F : NoDup (map hatom F) -> forall a, In a F -> ht_item (tbl F) (hatom a) = a.
Proof.
  induction F as [|x F IH]; intros N a Ha; [destruct Ha|].
  cbn [map] in N. inversion N as [|? ? Nx NF]; subst. unfold ht_item, tbl. cbn [map find fst].
  destruct Ha as [<-|Ha]; [rewrite pystr_eqb_refl; reflexivity|].
  destruct (pystr_eqb (hatom x) (hatom a)) eqn:Eq.
  - exfalso. apply pystr_eqb_eq in Eq. apply Nx. rewrite Eq. apply in_map. exact Ha.
  - apply (IH NF a Ha).
Qed.

Lemma filter_map_comm {A B} (f : A -> B) (P : B -> bool) l : filter P (map f l) = map f (filter (fun x => P (f x)) l).
Proof. induction l as [|x l IH]; cbn; [reflexivity|]. destruct (P (f x)); cbn; rewrite IH; reflexivity. Qed.

Lemma items_of_hashes F (P : pystr -> bool) : NoDup (map hatom F) ->
  map (fun h => ht_item (tbl F) h) (filter P (ht_keys (tbl F))) = filter (fun a => P (hatom a)) F.
Proof.
  intros N. unfold ht_keys. unfold tbl at 2. rewrite map_map. rewrite filter_map_comm, map_map.
  transitivity (map (fun a : atom => a) (filter (fun a => P (hatom a)) F)); [|apply map_id].
  apply map_ext_in. intros a Ha. cbn [fst] in *. apply filter_In in Ha as [Ha _]. apply ht_item_self; assumption.
Qed.

Lemma flat_map_filter {A B} (f : A -> list B) (P : A -> bool) l :
  flat_map f (filter P l) = flat_map (fun x => if P x then f x else []) l.
Proof. induction l as [|x l IH]; cbn; [reflexivity|]. destruct (P x); cbn; rewrite IH; reflexivity. Qed.

Theorem g__diff_set_eq rec t1 t2 p1 p2 :
  g__diff_set E rec (L t1 t2 p1 p2) = (diff_set hatom skip (set_items (Some t1)) (set_items (Some t2)) p1 p2, []).
Proof.
  unfold g__diff_set. cbv zeta. unfold create_hashtable, hashes_sub. cbn [lt1 lt2 L e_hatom].
  set (xs := set_items (Some t1)). set (ys := set_items (Some t2)).
  fold (tbl (first_per_hash hatom xs [])). fold (tbl (first_per_hash hatom ys [])).
  rewrite !items_of_hashes by apply fph_nodup.
  unfold for_each, seq, app2, nil_res, diff_set. cbn [fst snd app].
  f_equal.
  - f_equal; rewrite flat_map_filter; apply flat_map_ext; intros a;
      unfold ht_keys, tbl; rewrite map_map; cbn [fst]; rewrite fph_hashes0;
      rewrite g__report_result_eq; unfold report, report_set, branch_deeper, child_path; cbn;
      match goal with |- context [existsb ?f ?l] => destruct (existsb f l) end; cbn; destruct (skip p1); reflexivity.
  - rewrite !flat_map_nil; [reflexivity| |]; intros a _; rewrite g__report_result_eq; reflexivity.
Qed.

(* ------------------------------------------------------------------ _diff_dict *)
(* the statement-level form of _diff_dict: DiffModel's dict case with the loop over the common keys as the source
   has it - [t2_keys & t1_keys] in t2's order, t1[key] against t2[key] *)
Definition dict_src (f : level -> res) (kvs1 kvs2 : list (atom * value)) (p1 p2 : path) : res :=
  let k1 := keys_of c kvs1 in
  let k2 := keys_of c kvs2 in
  if dict_shortcut excl c k1 k2 p1
  then (report skip KValue p1 p2 (Some (VDict kvs1)) (Some (VDict kvs2)) None, [])
  else
    let added := flat_map (fun k => if mem_atom k k1 then []
                   else report skip KDictAdd (snoc p1 (PKey k)) (snoc p2 (PKey k)) None (assoc k kvs2) None) k2 in
    let removed := flat_map (fun k => if mem_atom k k2 then []
                   else report skip KDictRem (snoc p1 (PKey k)) (snoc p2 (PKey k)) (assoc k kvs1) None None) k1 in
    let common := for_each (fun k => f (mkLevel (assoc k kvs1) (assoc k kvs2) (snoc p1 (PKey k)) (snoc p2 (PKey k)) None))
                           (so_and k2 k1) in
    (added ++ removed ++ fst common, snd common).

Lemma keys_gen (P : atom -> bool) kvs :
  (forall k, P k = keep_key c k) -> SetOrdered_of (filter P (dict_iter (Some (VDict kvs)))) = keys_of c kvs.
Proof. intros H. unfold SetOrdered_of, dict_iter, keys_of. apply filter_ext. exact H. Qed.

Lemma if_if {T} (a b : bool) (X Y : T) : (if a then (if b then X else Y) else Y) = if (a && b)%bool then X else Y.
Proof. destruct a, b; reflexivity. Qed.

Lemma len_filter_map {A B} (g : A -> B) (P : B -> bool) l :
  length (filter P (map g l)) = length (filter (fun x => P (g x)) l).
Proof. rewrite filter_map_comm. apply map_length. Qed.

Lemma len_filter_noexcl {A} (g : A -> path) l :
  has_excl = false -> length (filter (fun k => negb (excl (g k))) l) = length l.
Proof.
  intros H. induction l as [|x l IH]; cbn; [reflexivity|]. rewrite (Hexcl H). cbn. rewrite IH. reflexivity.
Qed.

Lemma flat_map_ext_in' {A B} (f g : A -> list B) l : (forall x, In x l -> f x = g x) -> flat_map f l = flat_map g l.
Proof.
  induction l as [|x l IH]; cbn; intros H; [reflexivity|].
  rewrite (H x (or_introl eq_refl)), IH; [reflexivity|]. intros y Hy. apply H. right. exact Hy.
Qed.

Lemma mem_so_and k l k1 : In k l -> mem_atom k (so_and l k1) = mem_atom k k1.
Proof.
  intros Hin. unfold so_and. destruct (mem_atom k k1) eqn:M.
  - apply mem_atom_In. exists k. split; [|apply py_eq_refl]. apply filter_In. split; assumption.
  - destruct (mem_atom k (filter (fun x => mem_atom x k1) l)) eqn:M2; [|reflexivity].
    apply mem_atom_In in M2 as (b & Hb & E). apply filter_In in Hb as [_ Hb].
    rewrite (mem_atom_py_eq k b k1 E Hb) in M. discriminate.
Qed.

Lemma mem_so_and_r k l1 l2 : In k l1 -> mem_atom k (so_and l2 l1) = mem_atom k l2.
Proof.
  intros Hin. unfold so_and. destruct (mem_atom k l2) eqn:M.
  - apply mem_atom_In in M as (b & Hb & E). apply mem_atom_In. exists b. split; [|exact E].
    apply filter_In. split; [exact Hb|]. apply mem_atom_In. exists k. split; [exact Hin|]. rewrite py_eq_sym. exact E.
  - destruct (mem_atom k (filter (fun x => mem_atom x l1) l2)) eqn:M2; [|reflexivity].
    apply mem_atom_In in M2 as (b & Hb & E). apply filter_In in Hb as [Hb _].
    assert (mem_atom k l2 = true) by (apply mem_atom_In; exists b; split; assumption). congruence.
Qed.

Theorem g__diff_dict_eq f kvs1 kvs2 p1 p2 :
  g__diff_dict E f (L (VDict kvs1) (VDict kvs2) p1 p2) = dict_src f kvs1 kvs2 p1 p2.
Proof.
  unfold g__diff_dict. cbv zeta. cbn [lt1 lt2 L e_c e_excl e_has_excl e_skip].
  assert (KG : forall P : atom -> bool,
    (forall k, P k = if ignore_private c then (negb (isinstance_v (VAtom k) C_str && str_startswith k dunder) && true)%bool else true) ->
    forall k, P k = keep_key c k).
  { intros P HP k. rewrite HP. unfold keep_key, private_key. destruct (ignore_private c); destruct k; cbn; rewrite ?andb_true_r; reflexivity. }
  destruct (ignore_private c) eqn:IP; cbn [negb]; cbv iota beta;
    rewrite (keys_gen _ kvs1), (keys_gen _ kvs2) by (apply KG; intros k; reflexivity);
    set (k1 := keys_of c kvs1); set (k2 := keys_of c kvs2); rewrite if_if;
    unfold dict_src; cbv zeta; fold k1 k2.
  all: match goal with |- (if ?cnd then _ else _) = _ => assert (C : cnd = dict_shortcut excl c k1 k2 p1) end.
  1, 3: unfold dict_shortcut, thr_truthy, ratio_lt_thr; destruct (Nat.eqb (thr_num c) 0); cbn [negb andb]; [reflexivity|];
       unfold paths_minus_excluded, child_paths, so_or, so_and; cbn [lp1];
       destruct (bool_dec has_excl true) as [HE|HE];
       [ rewrite HE, len_filter_map; reflexivity
       | apply not_true_is_false in HE; rewrite HE, (len_filter_noexcl (fun k : atom => snoc p1 (PKey k)) _ HE); reflexivity ].
  all: rewrite C; destruct (dict_shortcut excl c k1 k2 p1); [rewrite g__report_result_eq; reflexivity|].
  all: unfold for_each, seq, app2, nil_res; cbn [fst snd app]; f_equal.
  all: try (rewrite <- app_assoc; f_equal; [|f_equal]).
  all: try (unfold so_sub; rewrite flat_map_filter; apply flat_map_ext_in'; intros k Hk;
            first [rewrite (mem_so_and k k2 k1 Hk) | rewrite (mem_so_and_r k k1 k2 Hk)];
            rewrite g__report_result_eq, branch_deeper_same;
            match goal with |- context [mem_atom k ?l] => destruct (mem_atom k l) end; reflexivity).
  all: try (apply flat_map_ext; intros k; rewrite branch_deeper_same; destruct (f _); reflexivity).
  all: rewrite 2 flat_map_nil; [cbn [app]; apply flat_map_ext; intros k; rewrite branch_deeper_same; destruct (f _); reflexivity| |];
       intros k _; rewrite g__report_result_eq; reflexivity.
Qed.

(* ------------------------------------------------------------------ t2's key order vs t1's key order *)
Lemma flat_map_app_perm {A B} (g h : A -> list B) l :
  Permutation (flat_map (fun b => g b ++ h b) l) (flat_map g l ++ flat_map h l).
Proof.
  induction l as [|b l IH]; cbn; [constructor|].
  rewrite <- !app_assoc. apply Permutation_app_head.
  eapply Permutation_trans; [apply Permutation_app_head; exact IH|]. apply Permutation_app_swap_app.
Qed.

Lemma flat_map_swap {A B C} (f : A -> B -> list C) la lb :
  Permutation (flat_map (fun a => flat_map (f a) lb) la) (flat_map (fun b => flat_map (fun a => f a b) la) lb).
Proof.
  induction la as [|a la IH]; cbn.
  - induction lb; cbn; [constructor|assumption].
  - eapply Permutation_trans; [apply Permutation_app_head; exact IH|].
    apply Permutation_sym. apply (flat_map_app_perm (f a) (fun b => flat_map (fun a' => f a' b) la)).
Qed.

Lemma flat_map_unique {A B} (q : atom -> bool) (G : atom * A -> list B) (l : list (atom * A)) :
  (forall a b, q a = true -> q b = true -> py_eq a b = true) ->
  nodup_atoms (map fst l) = true ->
  flat_map (fun kv => if q (fst kv) then G kv else []) l =
  match find (fun kv => q (fst kv)) l with Some kv => G kv | None => [] end.
Proof.
  intros Hq. induction l as [|[k0 v0] l IH]; cbn; intros N; [reflexivity|].
  apply andb_true_iff in N as [N0 N]. destruct (q k0) eqn:E0; [|apply IH; exact N].
  rewrite flat_map_nil; [apply app_nil_r|].
  intros [k v] Hin. cbn. destruct (q k) eqn:Eq; [|reflexivity]. exfalso.
  apply negb_true_iff in N0.
  assert (mem_atom k0 (map fst l) = true).
  { apply mem_atom_In. exists k. split; [apply in_map_iff; exists (k, v); split; [reflexivity|exact Hin]|apply Hq; assumption]. }
  congruence.
Qed.

Lemma flat_map_perm_in {A B} (f g : A -> list B) l :
  (forall x, In x l -> Permutation (f x) (g x)) -> Permutation (flat_map f l) (flat_map g l).
Proof.
  induction l as [|x l IH]; cbn; intros H; [constructor|].
  apply Permutation_app; [apply H; left; reflexivity|apply IH; intros y Hy; apply H; right; exact Hy].
Qed.

Lemma fm_keys {B} (F : atom -> list B) (A K : atom -> bool) (l : list (atom * value)) :
  flat_map F (filter A (filter K (map fst l))) =
  flat_map (fun kv => if K (fst kv) then (if A (fst kv) then F (fst kv) else []) else []) l.
Proof.
  induction l as [|[k v] l IH]; cbn; [reflexivity|].
  destruct (K k); cbn; [|exact IH]. destruct (A k); cbn; rewrite IH; reflexivity.
Qed.

Lemma assoc_find {B} k (l : list (atom * B)) :
  assoc k l = option_map snd (find (fun kv => py_eq (fst kv) k) l).
Proof. induction l as [|[k' v] l IH]; cbn; [reflexivity|]. destruct (py_eq k' k); [reflexivity|exact IH]. Qed.

Section DictPerm.
Variables kvs1 kvs2 : list (atom * value).
Variables p1 p2 : path.
Hypothesis N1 : nodup_atoms (map fst kvs1) = true.
Hypothesis N2 : nodup_atoms (map fst kvs2) = true.
Variable f : level -> res.
Hypothesis Hf : forall v1 v2 q1 q2, In v1 (map snd kvs1) -> In v2 (map snd kvs2) ->
  perm_res (f (L v1 v2 q1 q2)) (diff v1 v2 q1 q2).

Definition cell {X} (pr : res -> list X) (kv1 kv2 : atom * value) : list X :=
  if py_eq (fst kv1) (fst kv2)
  then (if keep_key c (fst kv2)
        then pr (diff (snd kv1) (snd kv2) (snoc p1 (PKey (fst kv2))) (snoc p2 (PKey (fst kv2)))) else [])
  else [].

Lemma q_left k a b : py_eq k a = true -> py_eq k b = true -> py_eq a b = true.
Proof. intros E1 E2. rewrite py_eq_sym in E1. eapply py_eq_trans; eassumption. Qed.
Lemma q_right k a b : py_eq a k = true -> py_eq b k = true -> py_eq a b = true.
Proof. intros E1 E2. rewrite py_eq_sym in E2. eapply py_eq_trans; eassumption. Qed.

(* DiffModel's loop over t1's items, as a double flat_map *)
Lemma common_t1_order {X} (pr : res -> list X) :
  pr ([], []) = [] -> (forall a b, pr (app2 a b) = pr a ++ pr b) ->
  forall l1, pr (go_common c diff kvs2 (keys_of c kvs2) p1 p2 l1) =
             flat_map (fun kv1 => flat_map (cell pr kv1) kvs2) l1.
Proof.
  intros P0 Papp. induction l1 as [|[k v1] l1 IH]; [exact P0|].
  rewrite go_common_cons. cbn [flat_map].
  unfold cell at 1. cbn [fst snd].
  rewrite (flat_map_unique (py_eq k) (fun kv2 => if keep_key c (fst kv2)
      then pr (diff v1 (snd kv2) (snoc p1 (PKey (fst kv2))) (snoc p2 (PKey (fst kv2)))) else []) kvs2 (q_left k) N2).
  destruct (keep_key c k) eqn:Kk.
  - unfold keys_of. rewrite find_fst_filter.
    2:{ intros k' Ek. rewrite <- (keep_key_py_eq c k k' Ek). exact Kk. }
    destruct (find (fun kv => py_eq k (fst kv)) kvs2) as [[k' v2]|] eqn:F; cbn [option_map fst snd]; [|exact IH].
    apply find_some in F as [Hin Ek]. cbn [fst] in Ek.
    rewrite (assoc_nodup kvs2 k' v2 k' N2 Hin (py_eq_refl k')).
    rewrite <- (keep_key_py_eq c k k' Ek), Kk. fold (keys_of c kvs2). rewrite Papp, IH. reflexivity.
  - destruct (find (fun kv => py_eq k (fst kv)) kvs2) as [[k' v2]|] eqn:F; [|exact IH].
    apply find_some in F as [_ Ek]. cbn [fst snd] in *. rewrite <- (keep_key_py_eq c k k' Ek), Kk. exact IH.
Qed.

(* the source's loop over [t2_keys & t1_keys], as a double flat_map *)
Lemma common_src_order {X} (pr : res -> list X) :
  (forall a b, perm_res a b -> Permutation (pr a) (pr b)) ->
  Permutation
    (flat_map (fun k => pr (f (mkLevel (assoc k kvs1) (assoc k kvs2) (snoc p1 (PKey k)) (snoc p2 (PKey k)) None)))
              (so_and (keys_of c kvs2) (keys_of c kvs1)))
    (flat_map (fun kv2 => flat_map (fun kv1 => cell pr kv1 kv2) kvs1) kvs2).
Proof.
  intros Hpr. unfold so_and. unfold keys_of at 2. rewrite fm_keys. apply flat_map_perm_in. intros [k v2] Hin2. cbn [fst].
  unfold cell. cbn [fst snd].
  rewrite (flat_map_unique (fun a => py_eq a k) (fun kv1 => if keep_key c k
      then pr (diff (snd kv1) v2 (snoc p1 (PKey k)) (snoc p2 (PKey k))) else []) kvs1 (q_right k) N1).
  destruct (keep_key c k) eqn:Kk.
  2:{ destruct (find _ kvs1); constructor. }
  rewrite (assoc_nodup kvs2 k v2 k N2 Hin2 (py_eq_refl k)). rewrite assoc_find.
  destruct (find (fun kv => py_eq (fst kv) k) kvs1) as [[k' v1]|] eqn:F; cbn [option_map snd].
  - apply find_some in F as [Hin1 Ek]. cbn [fst] in Ek.
    assert (M : mem_atom k (keys_of c kvs1) = true).
    { apply mem_atom_In. exists k'. split; [|rewrite py_eq_sym; exact Ek].
      apply filter_In. split; [apply in_map_iff; exists (k', v1); split; [reflexivity|exact Hin1]|].
      rewrite (keep_key_py_eq c k' k Ek). exact Kk. }
    rewrite M. apply Hpr. apply (Hf v1 v2); [apply in_map_iff; exists (k', v1)|apply in_map_iff; exists (k, v2)]; split; try reflexivity; assumption.
  - destruct (mem_atom k (keys_of c kvs1)) eqn:M; [|constructor]. exfalso.
    apply mem_atom_In in M as (b & Hb & Eb). apply filter_In in Hb as [Hb _].
    apply in_map_iff in Hb as ([k' v1] & <- & Hin1). cbn [fst] in Eb.
    pose proof (find_none _ _ F (k', v1) Hin1) as Fn. cbn [fst] in Fn. rewrite py_eq_sym in Fn. congruence.
Qed.

Lemma dict_src_perm : perm_res (dict_src f kvs1 kvs2 p1 p2) (dict_body hatom udiff ops skip excl c kvs1 kvs2 p1 p2).
Proof.
  unfold dict_src, dict_body. cbv zeta.
  destruct (dict_shortcut excl c (keys_of c kvs1) (keys_of c kvs2) p1); [apply perm_res_refl|].
  split; cbn [fst snd for_each].
  - apply Permutation_app_head, Permutation_app_head.
    eapply Permutation_trans; [apply (common_src_order fst); intros a b [H _]; exact H|].
    eapply Permutation_trans; [apply (flat_map_swap (fun kv2 kv1 => cell fst kv1 kv2))|].
    rewrite <- (common_t1_order fst eq_refl (fun a b => eq_refl)). apply Permutation_refl.
  - eapply Permutation_trans; [apply (common_src_order snd); intros a b [_ H]; exact H|].
    eapply Permutation_trans; [apply (flat_map_swap (fun kv2 kv1 => cell snd kv1 kv2))|].
    rewrite <- (common_t1_order snd eq_refl (fun a b => eq_refl)). apply Permutation_refl.
Qed.
End DictPerm.

(* ------------------------------------------------------------------ the dispatcher *)
Definition child (x t : value) : Prop :=
  match t with
  | VList xs | VTuple xs => In x xs
  | VDict kvs => In x (map snd kvs)
  | _ => False
  end.

(* ---- sequences: zip_longest pairing, opcode replay, choice between the passes ---- *)
Lemma for_each_cons {A} (F : A -> res) a l : for_each F (a :: l) = app2 (F a) (for_each F l).
Proof. reflexivity. Qed.

Lemma for_each_perm {A} (F G : A -> res) l :
  (forall x, In x l -> perm_res (F x) (G x)) -> perm_res (for_each F l) (for_each G l).
Proof.
  induction l as [|a l IH]; intros H; [apply perm_res_refl|]. rewrite !for_each_cons.
  apply perm_res_app2; [apply H; left; reflexivity|apply IH; intros x Hx; apply H; right; exact Hx].
Qed.

Lemma diff_atoms_leaf a b q1 q2 : diff (VAtom a) (VAtom b) q1 q2 = (diff_atom udiff skip a b q1 q2, []).
Proof. cbn. unfold diff_atom, report. destruct (skip q1); [reflexivity|]. destruct (ty_eqb (atom_ty a) (atom_ty b)); reflexivity. Qed.

Lemma In_slice {A} (x : A) l a b : In x (slice l a b) -> In x l.
Proof.
  unfold slice. intros H.
  assert (H1 : In x (skipn a l)) by (rewrite <- (firstn_skipn (b - a) (skipn a l)); apply in_or_app; left; exact H).
  rewrite <- (firstn_skipn a l). apply in_or_app. right. exact H1.
Qed.

Lemma forallb_slice {A} (P : A -> bool) l a b : forallb P l = true -> forallb P (slice l a b) = true.
Proof. intros H. apply forallb_forall. intros x Hx. apply (proj1 (forallb_forall P l) H). eapply In_slice; exact Hx. Qed.

Lemma slice_map {A B} (g : A -> B) l a b : slice (map g l) a b = map g (slice l a b).
Proof. unfold slice. rewrite skipn_map, firstn_map. reflexivity. Qed.

Section Pairs.
Variable f : level -> res.
Variables p1 p2 : path.
(* the body of the loop of _diff_by_forming_pairs_and_comparing_one_by_one, characterised by what it does *)
Variable BODY : (nat * nat) * (obj * obj) -> res.
Hypothesis HB_rem : forall i j x, BODY ((i, j), (Some x, None)) =
  (report skip KIterRem (snoc p1 (PIdx i)) (snoc p2 (PIdx i)) (Some x) None None, []).
Hypothesis HB_add : forall i j y, BODY ((i, j), (None, Some y)) =
  (report skip KIterAdd (snoc p1 (PIdx j)) (snoc p2 (PIdx j)) None (Some y) None, []).
Hypothesis HB_both : forall i j x y, BODY ((i, j), (Some x, Some y)) =
  if (negb (Nat.eqb i j) && py_eqv x y)%bool
  then (report skip KIterMoved (snoc p1 (PIdx i)) (snoc p2 (PIdx j)) (Some x) (Some y) None, [])
  else f (mkLevel (Some x) (Some y) (snoc p1 (PIdx i)) (snoc p2 (PIdx j)) None).
(* the index pair attached to position i of the (chunk of the) two sequences *)
Variables g1 g2 : nat -> nat.
Hypothesis Hg1 : forall k, g1 (S k) = S (g1 k).
Hypothesis Hg2 : forall k, g2 (S k) = S (g2 k).
Definition PG (e : nat * (obj * obj)) : (nat * nat) * (obj * obj) :=
  let '(i, (x, y)) := e in ((g1 i, g2 i), (x, y)).

Lemma pairs_added ys : forall n,
  for_each BODY (map PG (enum_from n (map (fun y : obj => (@None value, y)) (map (@Some value) ys)))) =
  (added_from skip ys (g2 n) p1 p2, []).
Proof.
  induction ys as [|y ys IH]; intros n; [reflexivity|].
  cbn [map enum_from]. rewrite for_each_cons. cbn [PG]. rewrite HB_add, IH, Hg2. reflexivity.
Qed.

Lemma pairs_removed xs : forall n,
  for_each BODY (map PG (enum_from n (map (fun x : obj => (x, @None value)) (map (@Some value) xs)))) =
  (removed_from skip xs (g1 n) p1 p2, []).
Proof.
  induction xs as [|x xs IH]; intros n; [reflexivity|].
  cbn [map enum_from]. rewrite for_each_cons. cbn [PG]. rewrite HB_rem, IH, Hg1. reflexivity.
Qed.

Lemma zip_longest_nil_r xs : zip_longest xs [] = map (fun x : obj => (x, @None value)) xs.
Proof. destruct xs; reflexivity. Qed.

(* whole sequences, position by position: DiffModel's go_list *)
Lemma pairs_go_list : (forall k, g1 k = k) -> (forall k, g2 k = k) -> forall xs,
  (forall x, In x xs -> forall y q1 q2, wf x = true -> wf y = true -> perm_res (f (L x y q1 q2)) (diff x y q1 q2)) ->
  forallb wf xs = true -> forall ys n, forallb wf ys = true ->
  perm_res (for_each BODY (map PG (enum_from n (zip_longest (map (@Some value) xs) (map (@Some value) ys)))))
           (go_list skip diff p1 p2 xs ys n).
Proof.
  intros G1 G2. induction xs as [|x xs IH]; intros Hf W1 ys n W2.
  - cbn [map zip_longest]. rewrite pairs_added, G2. apply perm_res_refl.
  - destruct ys as [|y ys].
    + cbn [map]. rewrite zip_longest_nil_r. change (Some x :: map (@Some value) xs) with (map (@Some value) (x :: xs)).
      rewrite pairs_removed, G1. apply perm_res_refl.
    + cbn in W1, W2. apply andb_true_iff in W1 as [Wx W1], W2 as [Wy W2].
      cbn [map zip_longest enum_from]. rewrite for_each_cons. cbn [PG].
      rewrite HB_both, G1, G2, Nat.eqb_refl. cbn [negb andb]. rewrite go_list_cons_cons.
      apply perm_res_app2.
      * apply (Hf x (or_introl eq_refl) y); assumption.
      * specialize (IH (fun x' Hx' => Hf x' (or_intror Hx')) W1 ys (S n) W2). exact IH.
Qed.

(* (chunks of) all-atom sequences: DiffModel's pairs_leaf *)
Lemma pairs_pairs_leaf : forall xs, forallb is_atom xs = true ->
  (forall x, In x xs -> forall y q1 q2, wf x = true -> wf y = true -> perm_res (f (L x y q1 q2)) (diff x y q1 q2)) ->
  forall ys n, forallb is_atom ys = true ->
  perm_res (for_each BODY (map PG (enum_from n (zip_longest (map (@Some value) xs) (map (@Some value) ys)))))
           (pairs_leaf udiff skip xs ys (g1 n) (g2 n) p1 p2, []).
Proof.
  induction xs as [|x xs IH]; intros A1 Hf ys n A2.
  - cbn [map zip_longest]. rewrite pairs_added. apply perm_res_refl.
  - destruct ys as [|y ys].
    + cbn [map]. rewrite zip_longest_nil_r. change (Some x :: map (@Some value) xs) with (map (@Some value) (x :: xs)).
      rewrite pairs_removed. apply perm_res_refl.
    + cbn in A1, A2. apply andb_true_iff in A1 as [Ax A1], A2 as [Ay A2].
      destruct x as [a| | | | |]; try discriminate Ax. destruct y as [b| | | | |]; try discriminate Ay.
      cbn [map zip_longest enum_from]. rewrite for_each_cons. cbn [PG]. rewrite HB_both.
      change (pairs_leaf udiff skip (VAtom a :: xs) (VAtom b :: ys) (g1 n) (g2 n) p1 p2, @nil path) with
        (app2 ((if (negb (Nat.eqb (g1 n) (g2 n)) && py_eq_leaf (VAtom a) (VAtom b))%bool
                then report skip KIterMoved (snoc p1 (PIdx (g1 n))) (snoc p2 (PIdx (g2 n))) (Some (VAtom a)) (Some (VAtom b)) None
                else diff_leaf udiff skip (VAtom a) (VAtom b) (snoc p1 (PIdx (g1 n))) (snoc p2 (PIdx (g2 n)))), @nil path)
              (pairs_leaf udiff skip xs ys (S (g1 n)) (S (g2 n)) p1 p2, @nil path)).
      apply perm_res_app2.
      * cbn [py_eqv py_eq_leaf diff_leaf]. destruct (negb (Nat.eqb (g1 n) (g2 n)) && py_eq a b)%bool; [apply perm_res_refl|].
        rewrite <- diff_atoms_leaf. apply (Hf (VAtom a) (or_introl eq_refl) (VAtom b)); reflexivity.
      * rewrite <- Hg1, <- Hg2. apply IH; [exact A1|intros x' Hx'; apply Hf; right; exact Hx'|exact A2].
Qed.
End Pairs.

(* the delete / insert loops of the opcode replay *)
Lemma loop_removed p1 p2 (B : nat * obj -> res) from :
  (forall i x, B (i, Some x) = (report skip KIterRem (snoc p1 (PIdx (i + from))) (snoc p2 (PIdx (i + from))) (Some x) None None, [])) ->
  forall l n, for_each B (enum_from n (map (@Some value) l)) = (removed_from skip l (n + from) p1 p2, []).
Proof.
  intros HB. induction l as [|x l IH]; intros n; [reflexivity|].
  cbn [map enum_from]. rewrite for_each_cons, HB, IH. reflexivity.
Qed.
Lemma loop_added p1 p2 (B : nat * obj -> res) from :
  (forall i y, B (i, Some y) = (report skip KIterAdd (snoc p1 (PIdx (i + from))) (snoc p2 (PIdx (i + from))) None (Some y) None, [])) ->
  forall l n, for_each B (enum_from n (map (@Some value) l)) = (added_from skip l (n + from) p1 p2, []).
Proof.
  intros HB. induction l as [|x l IH]; intros n; [reflexivity|].
  cbn [map enum_from]. rewrite for_each_cons, HB, IH. reflexivity.
Qed.

Notation SUB := SubscriptableIterableRelationship.

(* the generated loop body satisfies the characterisation *)
Ltac body_specs BODY f p1 p2 :=
  assert (HR : forall i j x, BODY ((i, j), (Some x, None)) =
            (report skip KIterRem (snoc p1 (PIdx i)) (snoc p2 (PIdx i)) (Some x) None None, []))
    by (intros i j x; subst BODY; cbv zeta; cbn [is_fill]; rewrite g__report_result_eq; reflexivity);
  assert (HA : forall i j y, BODY ((i, j), (None, Some y)) =
            (report skip KIterAdd (snoc p1 (PIdx j)) (snoc p2 (PIdx j)) None (Some y) None, []))
    by (intros i j y; subst BODY; cbv zeta; cbn [is_fill]; rewrite g__report_result_eq; reflexivity);
  assert (HBo : forall i j x y, BODY ((i, j), (Some x, Some y)) =
            if (negb (Nat.eqb i j) && py_eqv x y)%bool
            then (report skip KIterMoved (snoc p1 (PIdx i)) (snoc p2 (PIdx j)) (Some x) (Some y) None, [])
            else f (mkLevel (Some x) (Some y) (snoc p1 (PIdx i)) (snoc p2 (PIdx j)) None))
    by (intros i j x y; subst BODY; cbv zeta; cbn [is_fill obj_eq]; rewrite orb_false_r;
        destruct (negb (Nat.eqb i j) && py_eqv x y)%bool; [rewrite g__report_result_eq; reflexivity|rewrite seq_nil_l; reflexivity]).

Theorem g_pairs_whole_eq f t1 t2 p1 p2 :
  (forall x, In x (seq_items (Some t1)) -> forall y q1 q2, wf x = true -> wf y = true -> perm_res (f (L x y q1 q2)) (diff x y q1 q2)) ->
  forallb wf (seq_items (Some t1)) = true -> forallb wf (seq_items (Some t2)) = true ->
  perm_res (g__diff_by_forming_pairs_and_comparing_one_by_one E f (L t1 t2 p1 p2) SUB None None None None)
           (go_list skip diff p1 p2 (seq_items (Some t1)) (seq_items (Some t2)) 0).
Proof.
  intros Hf W1 W2. unfold g__diff_by_forming_pairs_and_comparing_one_by_one, g__get_matching_pairs, g__compare_in_order.
  cbv zeta. cbn [onat_is_None]. rewrite seq_nil_l. unfold enumerate, iter_items. cbn [lt1 lt2 L].
  match goal with |- perm_res (for_each ?B _) _ => set (BODY := B) end.
  body_specs BODY f p1 p2.
  eapply (pairs_go_list f p1 p2 BODY HR HA HBo (fun i => i) (fun i => i));
    first [assumption | (intros; reflexivity)].
Qed.

Theorem g_pairs_atoms_whole_eq f t1 t2 p1 p2 :
  (forall x, In x (seq_items (Some t1)) -> forall y q1 q2, wf x = true -> wf y = true -> perm_res (f (L x y q1 q2)) (diff x y q1 q2)) ->
  forallb is_atom (seq_items (Some t1)) = true -> forallb is_atom (seq_items (Some t2)) = true ->
  perm_res (g__diff_by_forming_pairs_and_comparing_one_by_one E f (L t1 t2 p1 p2) SUB None None None None)
           (pairs_leaf udiff skip (seq_items (Some t1)) (seq_items (Some t2)) 0 0 p1 p2, []).
Proof.
  intros Hf A1 A2. unfold g__diff_by_forming_pairs_and_comparing_one_by_one, g__get_matching_pairs, g__compare_in_order.
  cbv zeta. cbn [onat_is_None]. rewrite seq_nil_l. unfold enumerate, iter_items. cbn [lt1 lt2 L].
  match goal with |- perm_res (for_each ?B _) _ => set (BODY := B) end.
  body_specs BODY f p1 p2.
  eapply (pairs_pairs_leaf f p1 p2 BODY HR HA HBo (fun i => i) (fun i => i));
    first [assumption | (intros; reflexivity)].
Qed.

Theorem g_pairs_chunk_eq f t1 t2 p1 p2 a b a' b' :
  (forall x, In x (seq_items (Some t1)) -> forall y q1 q2, wf x = true -> wf y = true -> perm_res (f (L x y q1 q2)) (diff x y q1 q2)) ->
  forallb is_atom (seq_items (Some t1)) = true -> forallb is_atom (seq_items (Some t2)) = true ->
  perm_res (g__diff_by_forming_pairs_and_comparing_one_by_one E f (L t1 t2 p1 p2) SUB (Some a) (Some b) (Some a') (Some b'))
           (pairs_leaf udiff skip (slice (seq_items (Some t1)) a b) (slice (seq_items (Some t2)) a' b') a a' p1 p2, []).
Proof.
  intros Hf A1 A2. unfold g__diff_by_forming_pairs_and_comparing_one_by_one, g__get_matching_pairs, g__compare_in_order.
  cbv zeta. cbn [onat_is_None oget]. rewrite seq_nil_l. unfold enumerate, py_slice, iter_items. cbn [lt1 lt2 L oget].
  rewrite !slice_map.
  match goal with |- perm_res (for_each ?B _) _ => set (BODY := B) end.
  body_specs BODY f p1 p2.
  eapply (pairs_pairs_leaf f p1 p2 BODY HR HA HBo (fun i => i + a) (fun i => i + a') _ _ (slice (seq_items (Some t1)) a b) _ _
            (slice (seq_items (Some t2)) a' b') 0).
  Unshelve.
  all: first [ apply forallb_slice; assumption | (intros k; reflexivity)
             | (intros x Hx; apply Hf; eapply In_slice; exact Hx) ].
Qed.

(* _diff_ordered_iterable_by_difflib: the opcode replay *)
Theorem g_difflib_eq f t1 t2 p1 p2 :
  (forall x, In x (seq_items (Some t1)) -> forall y q1 q2, wf x = true -> wf y = true -> perm_res (f (L x y q1 q2)) (diff x y q1 q2)) ->
  forallb is_atom (seq_items (Some t1)) = true -> forallb is_atom (seq_items (Some t2)) = true ->
  perm_res (g__diff_ordered_iterable_by_difflib E f (L t1 t2 p1 p2) SUB)
           (by_opcodes udiff skip (ops p1 (seq_items (Some t1)) (seq_items (Some t2))) (seq_items (Some t1)) (seq_items (Some t2)) p1 p2, []).
Proof.
  intros Hf A1 A2. unfold g__diff_ordered_iterable_by_difflib. cbv zeta. rewrite seq_nil_l.
  unfold get_opcodes. cbn [lt1 lt2 lp1 L e_ops].
  set (xs := seq_items (Some t1)) in *. set (ys := seq_items (Some t2)) in *. set (os := ops p1 xs ys).
  assert (R : (by_opcodes udiff skip os xs ys p1 p2, @nil path) =
              for_each (fun o => (match otag o with
                                  | OEqual => []
                                  | OReplace => pairs_leaf udiff skip (slice xs (oi1 o) (oi2 o)) (slice ys (oj1 o) (oj2 o)) (oi1 o) (oj1 o) p1 p2
                                  | ODelete => removed_from skip (slice xs (oi1 o) (oi2 o)) (oi1 o) p1 p2
                                  | OInsert => added_from skip (slice ys (oj1 o) (oj2 o)) (oj1 o) p1 p2
                                  end, @nil path)) os).
  { unfold by_opcodes, for_each. cbn [fst snd]. f_equal. symmetry. apply flat_map_nil. reflexivity. }
  rewrite R. apply for_each_perm. intros o _. destruct (otag o); cbn [optag_eqb].
  - apply perm_res_refl.
  - rewrite seq_nil_l. apply g_pairs_chunk_eq; assumption.
  - rewrite seq_nil_l. unfold enumerate, py_slice, iter_items. cbn [lt1 lt2 L oget]. fold xs. rewrite slice_map.
    apply perm_res_eq.
    match goal with |- for_each ?B _ = _ => apply (loop_removed p1 p2 B (oi1 o)) end.
    intros i x. cbv zeta. rewrite g__report_result_eq. reflexivity.
  - rewrite seq_nil_l. unfold enumerate, py_slice, iter_items. cbn [lt1 lt2 L oget]. fold ys. rewrite slice_map.
    apply perm_res_eq.
    match goal with |- for_each ?B _ = _ => apply (loop_added p1 p2 B (oj1 o)) end.
    intros i y. cbv zeta. rewrite g__report_result_eq. reflexivity.
Qed.

(* _diff_iterable_in_order / _diff_iterable on two lists or two tuples: DiffModel's seq_body *)
Theorem g__diff_iterable_in_order_eq f t1 t2 p1 p2 :
  isinstance_ (Some t1) C_Sequence = true -> isinstance_ (Some t2) C_Sequence = true ->
  (forall x, In x (seq_items (Some t1)) -> forall y q1 q2, wf x = true -> wf y = true -> perm_res (f (L x y q1 q2)) (diff x y q1 q2)) ->
  forallb wf (seq_items (Some t1)) = true -> forallb wf (seq_items (Some t2)) = true ->
  perm_res (g__diff_iterable_in_order E f (L t1 t2 p1 p2))
           (seq_body hatom udiff ops skip excl c (seq_items (Some t1)) (seq_items (Some t2)) p1 p2).
Proof.
  intros S1 S2 Hf W1 W2. unfold g__diff_iterable_in_order. cbv zeta. unfold iterables_subscriptable, all_values_basic_hashable.
  cbn [lt1 lt2 L e_c]. rewrite S1, S2. unfold seq_body.
  set (xs := seq_items (Some t1)) in *. set (ys := seq_items (Some t2)) in *.
  destruct (zip c) eqn:Z; destruct (forallb is_atom xs) eqn:A1; destruct (forallb is_atom ys) eqn:A2; cbn [negb andb];
    try (rewrite !seq_nil_l; apply g_pairs_whole_eq; assumption).
  (* the default mode on two all-atom sequences: difflib pass, pairwise pass, the shorter one wins *)
  rewrite !seq_nil_l.
  pose proof (g_difflib_eq f t1 t2 p1 p2 Hf A1 A2) as [P1 Q1].
  pose proof (g_pairs_atoms_whole_eq f t1 t2 p1 p2 Hf A1 A2) as [P2 Q2].
  fold xs ys in P1, Q1, P2, Q2.
  destruct (g__diff_ordered_iterable_by_difflib E f (L t1 t2 p1 p2) SUB) as [e1 r1].
  destruct (g__diff_by_forming_pairs_and_comparing_one_by_one E f (L t1 t2 p1 p2) SUB None None None None) as [e2 r2].
  cbn [fst snd] in P1, Q1, P2, Q2. apply Permutation_sym, Permutation_nil in Q1, Q2. subst r1 r2.
  unfold default_leaf_list, tree_len. cbv zeta. cbn [fst snd].
  rewrite (Permutation_length P1), (Permutation_length P2).
  set (B1 := by_opcodes udiff skip (ops p1 xs ys) xs ys p1 p2) in *. set (B2 := pairs_leaf udiff skip xs ys 0 0 p1 p2) in *.
  destruct (Nat.ltb 1 (length B1)); [destruct (Nat.leb (length B2) (length B1))|]; unfold seq, app2, nil_res, record_opcodes; cbn [fst snd app lp1 L];
    split; cbn [fst snd]; rewrite ?app_nil_r; first [assumption | apply Permutation_refl].
Qed.

(* one unfolding of the generated dispatcher, with any [f] for the recursive calls that agrees with the model on
   the children of t1 *)
Theorem g__diff_step f t1 t2 p1 p2 :
  wf t1 = true -> wf t2 = true ->
  (forall x, child x t1 -> forall y q1 q2, wf x = true -> wf y = true -> perm_res (f (L x y q1 q2)) (diff x y q1 q2)) ->
  perm_res (g__diff E f (L t1 t2 p1 p2)) (diff t1 t2 p1 p2).
Proof.
  intros W1 W2 Hch. unfold g__diff. cbv zeta. cbn [lt1 lt2 L e_skip e_c].
  destruct (is_same_object (Some t1) (Some t2)) eqn:Same.
  { destruct t1 as [[]| | | | |]; try discriminate Same; destruct t2 as [[]| | | | |]; try discriminate Same.
    apply perm_res_eq. cbn. unfold diff_atom. destruct (skip p1); reflexivity. }
  unfold skip_this. change (lp1 (L t1 t2 p1 p2)) with p1. destruct (skip p1) eqn:S.
  { rewrite diff_skip by exact S. apply perm_res_refl. }
  cbn [get_type]. destruct (ty_eqb (type_of t1) (type_of t2)) eqn:T; cbn [negb].
  2:{ rewrite (diff_type hatom udiff ops skip excl c t1 t2 p1 p2 S T). rewrite g__diff_types_eq, seq_nil_l. apply perm_res_refl. }
  destruct t1 as [a|xs|xs|kvs1|xs|xs], t2 as [b|ys|ys|kvs2|ys|ys]; cbn in T; try discriminate T;
    try (destruct a; discriminate T); try (destruct b; discriminate T).
  - (* atoms *)
    rewrite (diff_atom_eq hatom udiff ops skip excl c a b p1 p2 S). unfold diff_atom. rewrite S.
    destruct a, b; cbn in T; try discriminate T; cbn in Same; try discriminate Same;
      cbn [isinstance_ isinstance_v isinstance_any existsb orb atom_ty ty_eqb negb];
      rewrite ?seq_nil_l, ?g__diff_booleans_eq, ?g__diff_numbers_eq, ?g__diff_str_eq_str, ?g__diff_str_eq_bytes;
      apply perm_res_refl.
  - (* lists *)
    cbn [isinstance_ isinstance_v isinstance_any existsb orb]. rewrite seq_nil_l.
    rewrite (diff_list hatom udiff ops skip excl c xs ys p1 p2 S).
    unfold g__diff_iterable. cbv zeta. rewrite seq_nil_l.
    apply (g__diff_iterable_in_order_eq f (VList xs) (VList ys) p1 p2); [reflexivity|reflexivity|exact Hch|exact W1|exact W2].
  - (* tuples *)
    cbn [isinstance_ isinstance_v isinstance_any existsb orb]. rewrite seq_nil_l.
    unfold g__diff_tuple. cbv zeta. unfold has_asdict. rewrite seq_nil_l.
    rewrite (diff_tuple hatom udiff ops skip excl c xs ys p1 p2 S).
    unfold g__diff_iterable. cbv zeta. rewrite seq_nil_l.
    apply (g__diff_iterable_in_order_eq f (VTuple xs) (VTuple ys) p1 p2); [reflexivity|reflexivity|exact Hch|exact W1|exact W2].
  - (* dicts *)
    cbn [isinstance_ isinstance_v isinstance_any existsb orb]. rewrite seq_nil_l.
    rewrite g__diff_dict_eq, (diff_dict hatom udiff ops skip excl c kvs1 kvs2 p1 p2 S).
    cbn in W1, W2. apply andb_true_iff in W1 as [N1 W1], W2 as [N2 W2].
    apply dict_src_perm; [exact N1|exact N2|].
    intros v1 v2 q1 q2 H1 H2. apply Hch; [exact H1| |].
    + apply in_map_iff in H1 as (kv & <- & H1). exact (proj1 (forallb_forall _ _) W1 kv H1).
    + apply in_map_iff in H2 as (kv & <- & H2). exact (proj1 (forallb_forall _ _) W2 kv H2).
  - (* sets *)
    cbn [isinstance_ isinstance_v isinstance_any existsb orb]. rewrite seq_nil_l, g__diff_set_eq.
    rewrite (diff_vset hatom udiff ops skip excl c xs ys p1 p2 S). apply perm_res_refl.
  - (* frozensets *)
    cbn [isinstance_ isinstance_v isinstance_any existsb orb]. rewrite seq_nil_l, g__diff_set_eq.
    rewrite (diff_vfrozen hatom udiff ops skip excl c xs ys p1 p2 S). apply perm_res_refl.
Qed.

(* ------------------------------------------------------------------ the recursion closed by fuel *)
Lemma vsize_pos v : 1 <= vsize v.
Proof. destruct v; cbn; lia. Qed.

Lemma vsize_child x t : child x t -> vsize x < vsize t.
Proof.
  destruct t as [a|xs|xs|kvs|xs|xs]; cbn [child]; try tauto.
  - intros H. cbn [vsize]. induction xs as [|y xs IH]; [destruct H|]. cbn [fold_right].
    destruct H as [<-|H]; [lia|]. specialize (IH H). lia.
  - intros H. cbn [vsize]. induction xs as [|y xs IH]; [destruct H|]. cbn [fold_right].
    destruct H as [<-|H]; [lia|]. specialize (IH H). lia.
  - intros H. cbn [vsize]. induction kvs as [|kv kvs IH]; [destruct H|]. cbn [fold_right map] in *.
    destruct H as [<-|H]; [lia|]. specialize (IH H). lia.
Qed.

Theorem g_run_eq : forall n t1 t2 p1 p2,
  vsize t1 <= n -> wf t1 = true -> wf t2 = true ->
  perm_res (g_run E n (L t1 t2 p1 p2)) (diff t1 t2 p1 p2).
Proof.
  induction n as [|n IH]; intros t1 t2 p1 p2 Hn W1 W2; [pose proof (vsize_pos t1); lia|].
  cbn [g_run]. apply g__diff_step; [exact W1|exact W2|].
  intros x Hc y q1 q2 Wx Wy. apply IH; [pose proof (vsize_child x t1 Hc); lia|exact Wx|exact Wy].
Qed.

(* the hand-written model is a solution of the generated equation (up to the order of the reported levels) *)
Definition D (l : level) : res :=
  match lt1 l, lt2 l with Some a, Some b => diff a b (lp1 l) (lp2 l) | _, _ => nil_res end.
Theorem g__diff_unfold t1 t2 p1 p2 :
  wf t1 = true -> wf t2 = true -> perm_res (g__diff E D (L t1 t2 p1 p2)) (diff t1 t2 p1 p2).
Proof. intros W1 W2. apply g__diff_step; [exact W1|exact W2|]. intros. apply perm_res_refl. Qed.

End Equiv.

(* ------------------------------------------------------------------ transfer: the theorems of Properties/C02.v
   about the generated definitions *)
From DD Require Properties.C02.

(* DeepDiff(t1, t2, view='tree') with the generated _diff: n = fuel for the nesting of the recursive calls;
   mutual = TreeResult.mutual_add_removes_to_become_value_changes (deepdiff/model.py: not part of this tie) *)
Definition g_run_diff (E : genv) (n : nat) (t1 t2 : value) : res :=
  let '(es, rec) := g_run E n (L t1 t2 [] []) in (mutual es, rec).

Lemma g_run_diff_nil hatom udiff ops excl has_excl c n t1 t2 :
  (has_excl = false -> forall p, excl p = false) ->
  vsize t1 <= n -> wf t1 = true -> wf t2 = true ->
  (fst (g_run_diff (mkEnv hatom udiff ops (fun _ => false) excl has_excl c) n t1 t2) = [] <->
   fst (run_diff hatom udiff ops (fun _ => false) excl c t1 t2) = []).
Proof.
  intros He Hn W1 W2.
  pose proof (g_run_eq hatom udiff ops (fun _ => false) excl has_excl c He n t1 t2 [] [] Hn W1 W2) as [P _].
  rewrite fst_run_diff. unfold g_run_diff.
  destruct (g_run _ n (L t1 t2 [] [])) as [es rec]. cbn [fst] in *.
  split; intros H.
  - apply mutual_nil in H. subst es. apply Permutation_nil in P. rewrite P. reflexivity.
  - apply mutual_nil in H. rewrite H in P. apply Permutation_sym, Permutation_nil in P. subst es. reflexivity.
Qed.

Theorem g_C02_copy_empty :
  forall hatom udiff ops excl has_excl c t n,
    (has_excl = false -> forall p, excl p = false) -> vsize t <= n ->
    thr_num c <= thr_den c -> tiling ops -> wf t = true ->
    fst (g_run_diff (mkEnv hatom udiff ops (fun _ => false) excl has_excl c) n t t) = [].
Proof.
  intros hatom udiff ops excl has_excl c t n He Hn Ht Hops W.
  apply (g_run_diff_nil hatom udiff ops excl has_excl c n t t He Hn W W).
  apply Properties.C02.C02_copy_empty; assumption.
Qed.
Print Assumptions g_C02_copy_empty.

Theorem g_C02_empty_sound :
  forall hatom udiff ops excl has_excl c ok t1 t2 n,
    (has_excl = false -> forall p, excl p = false) -> vsize t1 <= n ->
    (forall a b, ok a = true -> ok b = true -> hatom a = hatom b -> a = b) -> valid_ops ops ->
    wf t1 = true -> wf t2 = true ->
    inputs_ok (keep_key c) ok t1 = true -> inputs_ok (keep_key c) ok t2 = true ->
    fst (g_run_diff (mkEnv hatom udiff ops (fun _ => false) excl has_excl c) n t1 t2) = [] -> py_eqv t1 t2 = true.
Proof.
  intros hatom udiff ops excl has_excl c ok t1 t2 n He Hn Hinj Hops W1 W2 I1 I2 H.
  apply (Properties.C02.C02_empty_sound hatom udiff ops excl c ok t1 t2 Hinj Hops W1 W2 I1 I2).
  apply (g_run_diff_nil hatom udiff ops excl has_excl c n t1 t2 He Hn W1 W2). exact H.
Qed.
Print Assumptions g_C02_empty_sound.

Theorem g_C02_empty_sound_public :
  forall hatom udiff ops excl has_excl c t1 t2 n,
    (has_excl = false -> forall p, excl p = false) -> vsize t1 <= n ->
    ignore_private c = false ->
    (forall a b, hatom a = hatom b -> a = b) -> valid_ops ops ->
    wf t1 = true -> wf t2 = true ->
    fst (g_run_diff (mkEnv hatom udiff ops (fun _ => false) excl has_excl c) n t1 t2) = [] -> py_eqv t1 t2 = true.
Proof.
  intros hatom udiff ops excl has_excl c t1 t2 n He Hn Hp Hinj Hops W1 W2 H.
  apply (Properties.C02.C02_empty_sound_public hatom udiff ops excl c t1 t2 Hp Hinj Hops W1 W2).
  apply (g_run_diff_nil hatom udiff ops excl has_excl c n t1 t2 He Hn W1 W2). exact H.
Qed.
Print Assumptions g_C02_empty_sound_public.

(* the equalities themselves *)
Print Assumptions g__report_result_eq.
Print Assumptions g__diff_types_eq.
Print Assumptions g__diff_booleans_eq.
Print Assumptions g__diff_numbers_eq.
Print Assumptions g__diff_str_eq_str.
Print Assumptions g__diff_str_eq_bytes.
Print Assumptions g__diff_set_eq.
Print Assumptions g__diff_dict_eq.
Print Assumptions dict_src_perm.
Print Assumptions g_pairs_whole_eq.
Print Assumptions g_pairs_atoms_whole_eq.
Print Assumptions g_pairs_chunk_eq.
Print Assumptions g_difflib_eq.
Print Assumptions g__diff_iterable_in_order_eq.
Print Assumptions g__diff_step.
Print Assumptions g__diff_unfold.
Print Assumptions g_run_eq.

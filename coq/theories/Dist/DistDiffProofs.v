(** C19 - the range theorem as a statement about the diff itself.

    diff_weights   the values reported by the ordered diff in positional mode
                   (every level of Diff/DiffModel.v [diff], any oracles) are
                   disjoint parts of the inputs: their item lengths add up to
                   at most count t1 on the t1 side and count t2 on the t2 side
    entries_ops_bound   the operations _get_item_length counts in the delta view
                   of these levels are paid by those item lengths, under the
                   type-change guard
    deep_distance_positional_range   hence operations / (len1 + len2) <= 1 *)
From Coq Require Import List ZArith NArith Bool Lia Arith.
Import ListNotations.
From DD Require Import Base.PyStr Base.Value Base.ValueFacts Path.PathModel Diff.Tree Diff.DiffModel Diff.DiffFacts Diff.DiffFaithful.
From DD Require Import Dist.DistModel Dist.DistProofs Dist.DistDiffModel.

(* item lengths of the values an entry reports *)
Definition cnt_o (o : option value) : nat := match o with Some v => count v | None => 0 end.
Definition w1 (es : list entry) : nat := fold_right (fun e n => cnt_o (et1 e) + n) 0 es.
Definition w2 (es : list entry) : nat := fold_right (fun e n => cnt_o (et2 e) + n) 0 es.

Lemma w1_app a b : w1 (a ++ b) = w1 a + w1 b.
Proof. unfold w1. induction a as [|e a IH]; cbn; [reflexivity | rewrite IH; lia]. Qed.
Lemma w2_app a b : w2 (a ++ b) = w2 a + w2 b.
Proof. unfold w2. induction a as [|e a IH]; cbn; [reflexivity | rewrite IH; lia]. Qed.

Definition sumc (xs : list value) : nat := fold_right (fun x n => count x + n) 0 xs.

Lemma private_key_same k : DiffModel.private_key k = DistModel.private_key k.
Proof.
  destruct k as [| | | |s|]; try reflexivity.
  unfold DiffModel.private_key, DistModel.private_key.
  destruct s as [|c1 [|c2 r]]; cbn [is_prefix]; try reflexivity.
  - apply andb_false_r.
  - rewrite andb_true_r, (N.eqb_sym 95 c1), (N.eqb_sym 95 c2). reflexivity.
Qed.

Lemma skipn_skipn' {A} (x y : nat) (l : list A) : skipn x (skipn y l) = skipn (x + y) l.
Proof.
  revert l. induction y as [|y IH]; intros l.
  - rewrite Nat.add_0_r. reflexivity.
  - destruct l as [|a l]; [destruct x; reflexivity|]. rewrite Nat.add_succ_r. cbn [skipn]. apply IH.
Qed.

Lemma sumc_firstn_skipn n l : sumc (firstn n l) + sumc (skipn n l) = sumc l.
Proof.
  revert l. induction n as [|n IH]; intros l; [reflexivity|]. destruct l as [|x l]; [reflexivity|].
  cbn [firstn skipn]. unfold sumc in *. cbn [fold_right]. specialize (IH l). lia.
Qed.
Lemma sumc_skipn_le a b l : a <= b -> sumc (skipn b l) <= sumc (skipn a l).
Proof.
  intros H. replace b with ((b - a) + a) by lia. rewrite <- skipn_skipn'.
  pose proof (sumc_firstn_skipn (b - a) (skipn a l)). lia.
Qed.
Lemma sumc_slice l a b lo : lo <= a -> a <= b ->
  sumc (slice l a b) + sumc (skipn b l) <= sumc (skipn lo l).
Proof.
  intros H1 H2. unfold slice.
  pose proof (sumc_firstn_skipn (b - a) (skipn a l)) as E. rewrite skipn_skipn' in E.
  replace (b - a + a) with b in E by lia.
  pose proof (sumc_skipn_le lo a l H1). lia.
Qed.

Section W.
Variable hatom : atom -> pystr.
Variable udiff : pystr -> pystr -> pystr.
Variable ops : path -> list value -> list value -> list opcode.
Variable skip excl : path -> bool.
Variable c : cfg.
Notation diff := (diff hatom udiff ops skip excl c).
Hypothesis Hmode : zip c = true \/ ops_tiling ops.
Hypothesis Hpriv : ignore_private c = true.

Lemma report_w k p1 p2 a b d :
  w1 (report skip k p1 p2 a b d) <= cnt_o a /\ w2 (report skip k p1 p2 a b d) <= cnt_o b.
Proof. unfold report. destruct (skip p1); cbn; lia. Qed.

Lemma diff_atom_w a b p1 p2 :
  w1 (diff_atom udiff skip a b p1 p2) <= 1 /\ w2 (diff_atom udiff skip a b p1 p2) <= 1.
Proof.
  unfold diff_atom. destruct (skip p1); [cbn; lia|].
  destruct (negb (ty_eqb (atom_ty a) (atom_ty b))).
  - apply (report_w KType p1 p2 (Some (VAtom a)) (Some (VAtom b)) None).
  - destruct a, b; cbn [diff_str];
      repeat match goal with
             | |- context [let '(_, _) := ?x in _] => destruct x as [[|] ?]
             | |- context [if ?x then _ else _] => destruct x
             end; cbn; try lia;
      try (apply (report_w KValue p1 p2 (Some (VAtom _)) (Some (VAtom _)) _)).
Qed.

Lemma removed_from_w xs : forall i p1 p2,
  w1 (removed_from skip xs i p1 p2) <= sumc xs /\ w2 (removed_from skip xs i p1 p2) = 0.
Proof.
  induction xs as [|x r IH]; intros i p1 p2; cbn [removed_from]; [cbn; lia|].
  rewrite w1_app, w2_app. destruct (IH (S i) p1 p2) as [A B].
  destruct (report_w KIterRem (snoc p1 (PIdx i)) (snoc p2 (PIdx i)) (Some x) None None) as [C D].
  cbn [cnt_o] in *. unfold sumc in *. cbn [fold_right]. lia.
Qed.

Lemma added_from_w ys : forall j p1 p2,
  w1 (added_from skip ys j p1 p2) = 0 /\ w2 (added_from skip ys j p1 p2) <= sumc ys.
Proof.
  induction ys as [|y r IH]; intros j p1 p2; cbn [added_from]; [cbn; lia|].
  rewrite w1_app, w2_app. destruct (IH (S j) p1 p2) as [A B].
  destruct (report_w KIterAdd (snoc p1 (PIdx j)) (snoc p2 (PIdx j)) None (Some y) None) as [C D].
  cbn [cnt_o] in *. unfold sumc in *. cbn [fold_right]. lia.
Qed.

Definition WB (t1 : value) : Prop :=
  forall t2 p1 p2, wf t1 = true -> wf t2 = true ->
    w1 (fst (diff t1 t2 p1 p2)) <= count t1 /\ w2 (fst (diff t1 t2 p1 p2)) <= count t2.

Lemma go_list_w xs : Forall WB xs -> forall ys i p1 p2,
  forallb wf xs = true -> forallb wf ys = true ->
  w1 (fst (go_list skip diff p1 p2 xs ys i)) <= sumc xs /\
  w2 (fst (go_list skip diff p1 p2 xs ys i)) <= sumc ys.
Proof.
  induction 1 as [|x xs Hx _ IH]; intros ys i p1 p2 W1 W2.
  - cbn [go_list fst]. destruct (added_from_w ys i p1 p2). cbn. lia.
  - destruct ys as [|y ys].
    + cbn [go_list fst]. destruct (removed_from_w (x :: xs) i p1 p2). cbn [sumc fold_right] in *. lia.
    + cbn [go_list]. unfold app2. cbn [fst]. rewrite w1_app, w2_app.
      cbn [forallb] in W1, W2. apply andb_prop in W1. destruct W1 as [Wx W1].
      apply andb_prop in W2. destruct W2 as [Wy W2].
      destruct (Hx y (snoc p1 (PIdx i)) (snoc p2 (PIdx i)) Wx Wy) as [A B].
      destruct (IH ys (S i) p1 p2 W1 W2) as [C D].
      unfold sumc in *. cbn [fold_right]. lia.
Qed.

Lemma pairs_leaf_w xs : forall ys i j p1 p2,
  w1 (pairs_leaf udiff skip xs ys i j p1 p2) <= sumc xs /\ w2 (pairs_leaf udiff skip xs ys i j p1 p2) <= sumc ys.
Proof.
  induction xs as [|x xs IH]; intros ys i j p1 p2.
  - cbn [pairs_leaf]. destruct (added_from_w ys j p1 p2). cbn. lia.
  - destruct ys as [|y ys].
    + cbn [pairs_leaf]. destruct (removed_from_w (x :: xs) i p1 p2). cbn [sumc fold_right] in *. lia.
    + cbn [pairs_leaf]. rewrite w1_app, w2_app. destruct (IH ys (S i) (S j) p1 p2) as [A B].
      assert (H : w1 (if negb (i =? j) && py_eq_leaf x y
                      then report skip KIterMoved (snoc p1 (PIdx i)) (snoc p2 (PIdx j)) (Some x) (Some y) None
                      else diff_leaf udiff skip x y (snoc p1 (PIdx i)) (snoc p2 (PIdx j))) <= count x /\
                  w2 (if negb (i =? j) && py_eq_leaf x y
                      then report skip KIterMoved (snoc p1 (PIdx i)) (snoc p2 (PIdx j)) (Some x) (Some y) None
                      else diff_leaf udiff skip x y (snoc p1 (PIdx i)) (snoc p2 (PIdx j))) <= count y).
      { destruct (negb (i =? j) && py_eq_leaf x y).
        - apply (report_w KIterMoved _ _ (Some x) (Some y) None).
        - unfold diff_leaf. destruct x as [a| | | | |], y as [b| | | | |]; try (cbn; lia).
          destruct (diff_atom_w a b (snoc p1 (PIdx i)) (snoc p2 (PIdx j))). cbn [count]. lia. }
      unfold sumc in *. cbn [fold_right]. lia.
Qed.

Lemma by_opcodes_w os : forall lo1 lo2 xs ys p1 p2, ops_tile lo1 lo2 os = true ->
  w1 (by_opcodes udiff skip os xs ys p1 p2) <= sumc (skipn lo1 xs) /\
  w2 (by_opcodes udiff skip os xs ys p1 p2) <= sumc (skipn lo2 ys).
Proof.
  induction os as [|o os IH]; intros lo1 lo2 xs ys p1 p2 H; unfold by_opcodes in *; cbn [flat_map]; [cbn; lia|].
  cbn [ops_tile] in H. repeat (apply andb_prop in H; destruct H as [H ?H]).
  repeat match goal with E : Nat.leb _ _ = true |- _ => apply Nat.leb_le in E end.
  rewrite w1_app, w2_app.
  destruct (IH (oi2 o) (oj2 o) xs ys p1 p2 H0) as [A B].
  pose proof (sumc_slice xs (oi1 o) (oi2 o) lo1 ltac:(assumption) ltac:(assumption)) as S1.
  pose proof (sumc_slice ys (oj1 o) (oj2 o) lo2 ltac:(assumption) ltac:(assumption)) as S2.
  assert (HS1 : sumc (skipn (oi2 o) xs) <= sumc (skipn lo1 xs)) by (apply sumc_skipn_le; lia).
  assert (HS2 : sumc (skipn (oj2 o) ys) <= sumc (skipn lo2 ys)) by (apply sumc_skipn_le; lia).
  destruct (otag o).
  - cbn. lia.
  - destruct (pairs_leaf_w (slice xs (oi1 o) (oi2 o)) (slice ys (oj1 o) (oj2 o)) (oi1 o) (oj1 o) p1 p2). lia.
  - destruct (removed_from_w (slice xs (oi1 o) (oi2 o)) (oi1 o) p1 p2). lia.
  - destruct (added_from_w (slice ys (oj1 o) (oj2 o)) (oj1 o) p1 p2). lia.
Qed.

Lemma default_leaf_list_w xs ys p1 p2 : ops_tiling ops ->
  w1 (fst (default_leaf_list udiff ops skip xs ys p1 p2)) <= sumc xs /\
  w2 (fst (default_leaf_list udiff ops skip xs ys p1 p2)) <= sumc ys.
Proof.
  intros T. unfold default_leaf_list.
  pose proof (by_opcodes_w (ops p1 xs ys) 0 0 xs ys p1 p2 (T p1 xs ys)) as P1. cbn [skipn] in P1.
  pose proof (pairs_leaf_w xs ys 0 0 p1 p2) as P2.
  destruct (Nat.ltb 1 _); [|exact P1].
  destruct (Nat.leb _ _); cbn [fst]; assumption.
Qed.

Lemma seq_body_w xs ys p1 p2 : Forall WB xs ->
  forallb wf xs = true -> forallb wf ys = true ->
  w1 (fst (seq_body hatom udiff ops skip excl c xs ys p1 p2)) <= sumc xs /\
  w2 (fst (seq_body hatom udiff ops skip excl c xs ys p1 p2)) <= sumc ys.
Proof.
  intros H W1 W2. unfold seq_body.
  destruct (negb (zip c) && forallb is_atom xs && forallb is_atom ys) eqn:B.
  - assert (Z : zip c = false).
    { apply andb_prop in B. destruct B as [B _]. apply andb_prop in B. destruct B as [B _].
      apply negb_true_iff in B. exact B. }
    destruct Hmode as [Hz|T]; [congruence|].
    pose proof (default_leaf_list_w xs ys p1 p2 T) as P.
    destruct (default_leaf_list udiff ops skip xs ys p1 p2) as [es r]. cbn [fst] in *. exact P.
  - apply go_list_w; assumption.
Qed.

(* sets *)
Lemma first_per_hash_length l : forall seen, length (first_per_hash hatom l seen) <= length l.
Proof.
  induction l as [|a r IH]; intros seen; cbn [first_per_hash]; [lia|].
  destruct (existsb _ seen); cbn [length].
  - specialize (IH seen). lia.
  - specialize (IH (hatom a :: seen)). lia.
Qed.

Lemma set_side_w (k : rkind) (f : atom -> bool) l p1 p2 :
  w1 (flat_map (fun y => if f y then [] else report_set skip k y p1 p2) l) <= length l /\
  w2 (flat_map (fun y => if f y then [] else report_set skip k y p1 p2) l) <= length l.
Proof.
  induction l as [|a r IH]; cbn [flat_map]; [cbn; lia|].
  rewrite w1_app, w2_app. destruct IH as [A B]. cbn [length].
  assert (w1 (if f a then [] else report_set skip k a p1 p2) <= 1 /\
          w2 (if f a then [] else report_set skip k a p1 p2) <= 1).
  { destruct (f a); [cbn; lia|]. unfold report_set. destruct (skip p1); [cbn; lia|].
    destruct k; cbn; lia. }
  lia.
Qed.

Lemma diff_set_w xs ys p1 p2 :
  w1 (diff_set hatom skip xs ys p1 p2) <= length xs /\ w2 (diff_set hatom skip xs ys p1 p2) <= length ys.
Proof.
  unfold diff_set. rewrite w1_app, w2_app.
  assert (A1 : w1 (flat_map (fun y => if existsb (pystr_eqb (hatom y)) (map hatom xs) then []
                       else report_set skip KSetAdd y p1 p2) (first_per_hash hatom ys [])) = 0).
  { induction (first_per_hash hatom ys []) as [|a r IH]; [reflexivity|]. cbn [flat_map]. rewrite w1_app, IH.
    destruct (existsb _ _); [reflexivity|]. unfold report_set. destruct (skip p1); reflexivity. }
  assert (A2 : w2 (flat_map (fun x => if existsb (pystr_eqb (hatom x)) (map hatom ys) then []
                       else report_set skip KSetRem x p1 p2) (first_per_hash hatom xs [])) = 0).
  { induction (first_per_hash hatom xs []) as [|a r IH]; [reflexivity|]. cbn [flat_map]. rewrite w2_app, IH.
    destruct (existsb _ _); [reflexivity|]. unfold report_set. destruct (skip p1); reflexivity. }
  pose proof (first_per_hash_length ys []) as Ly. pose proof (first_per_hash_length xs []) as Lx.
  destruct (set_side_w KSetAdd (fun y => existsb (pystr_eqb (hatom y)) (map hatom xs)) (first_per_hash hatom ys []) p1 p2) as [_ B2].
  destruct (set_side_w KSetRem (fun x => existsb (pystr_eqb (hatom x)) (map hatom ys)) (first_per_hash hatom xs []) p1 p2) as [B1 _].
  lia.
Qed.

(* ---- dictionaries ---- *)
Definition sumf {A} (f : A -> nat) (l : list A) : nat := fold_right (fun x n => f x + n) 0 l.

Lemma sumf_le {A} (f g : A -> nat) l : (forall x, In x l -> f x <= g x) -> sumf f l <= sumf g l.
Proof.
  induction l as [|x r IH]; intros H; cbn; [lia|].
  pose proof (H x (or_introl eq_refl)). assert (sumf f r <= sumf g r) by (apply IH; intros y Hy; apply H; right; exact Hy).
  unfold sumf in *. lia.
Qed.
Lemma sumf_add {A} (f g : A -> nat) l : sumf f l + sumf g l = sumf (fun x => f x + g x) l.
Proof. induction l as [|x r IH]; cbn; [reflexivity|]. unfold sumf in *. lia. Qed.
Lemma sumf_le_plus {A} (f g : A -> nat) l x0 d :
  In x0 l -> (forall x, In x l -> f x <= g x) -> f x0 + d <= g x0 -> sumf f l + d <= sumf g l.
Proof.
  induction l as [|x r IH]; intros Hin H Hd; [destruct Hin|].
  cbn. destruct Hin as [->|Hin].
  - assert (sumf f r <= sumf g r) by (apply sumf_le; intros y Hy; apply H; right; exact Hy). unfold sumf in *. lia.
  - pose proof (H x (or_introl eq_refl)).
    assert (sumf f r + d <= sumf g r) by (apply IH; [exact Hin | intros y Hy; apply H; right; exact Hy | exact Hd]).
    unfold sumf in *. lia.
Qed.

Notation keep := (keep_key c).
Definition wkeep (kv : atom * value) : nat := if keep (fst kv) then count (snd kv) else 0.

Lemma keep_private k : keep k = negb (DistModel.private_key k).
Proof. unfold keep_key. rewrite Hpriv, private_key_same. reflexivity. Qed.

Lemma count_dict_keep kvs : S (sumf wkeep kvs) <= count (VDict kvs).
Proof.
  cbn [count]. apply le_n_S. induction kvs as [|[k v] r IH]; cbn [sumf fold_right fst snd]; [lia|].
  unfold wkeep at 1. cbn [fst snd]. rewrite keep_private. unfold sumf in IH.
  destruct (DistModel.private_key k); cbn [negb]; lia.
Qed.

Lemma find_mem k l k' : find (py_eq k) l = Some k' -> mem_atom k l = true /\ py_eq k k' = true /\ In k' l.
Proof.
  intros H. apply find_some in H. destruct H as [Hin E]. split; [|split; assumption].
  apply mem_atom_In. exists k'. split; assumption.
Qed.

Lemma wf_dict_values kvs k v : wf (VDict kvs) = true -> In (k, v) kvs -> wf v = true.
Proof.
  cbn [wf]. intros H Hin. apply andb_prop in H. destruct H as [_ H].
  rewrite forallb_forall in H. apply (H (k, v) Hin).
Qed.
Lemma wf_dict_nodup kvs : wf (VDict kvs) = true -> nodup_atoms (map fst kvs) = true.
Proof. cbn [wf]. intros H. apply andb_prop in H. apply H. Qed.

Section Dict.
Variables kvs1 kvs2 : list (atom * value).
Variables p1 p2 : path.
Hypothesis W1 : wf (VDict kvs1) = true.
Hypothesis W2 : wf (VDict kvs2) = true.
Let K1 := keys_of c kvs1.
Let K2 := keys_of c kvs2.

Lemma removed_w l : (forall kv, In kv l -> In kv kvs1) ->
  let removed := flat_map (fun k => if mem_atom k K2 then []
       else report skip KDictRem (snoc p1 (PKey k)) (snoc p2 (PKey k)) (assoc k kvs1) None None) (keys_of c l) in
  w1 removed <= sumf (fun kv => if keep (fst kv) && negb (mem_atom (fst kv) K2) then count (snd kv) else 0) l
  /\ w2 removed = 0.
Proof.
  induction l as [|[k v] r IH]; intros Hin; cbn zeta in *; [cbn; lia|].
  unfold keys_of in *. cbn [map filter fst]. cbn [sumf fold_right fst snd].
  destruct (IH (fun kv H => Hin kv (or_intror H))) as [A B]. fold (sumf (fun kv => if keep (fst kv) && negb (mem_atom (fst kv) K2) then count (snd kv) else 0) r).
  destruct (keep k); cbn [andb flat_map]; [|unfold sumf in *; lia].
  rewrite w1_app, w2_app.
  destruct (mem_atom k K2); cbn [negb]; [cbn; unfold sumf in *; lia|].
  assert (E : assoc k kvs1 = Some v).
  { eapply assoc_nodup; [apply wf_dict_nodup; exact W1 | apply Hin; left; reflexivity | apply py_eq_refl]. }
  rewrite E.
  destruct (report_w KDictRem (snoc p1 (PKey k)) (snoc p2 (PKey k)) (Some v) None None) as [C D].
  cbn [cnt_o] in *. unfold sumf in *. lia.
Qed.

Lemma added_w l : (forall kv, In kv l -> In kv kvs2) ->
  let added := flat_map (fun k => if mem_atom k K1 then []
       else report skip KDictAdd (snoc p1 (PKey k)) (snoc p2 (PKey k)) None (assoc k kvs2) None) (keys_of c l) in
  w2 added <= sumf (fun kv => if keep (fst kv) && negb (mem_atom (fst kv) K1) then count (snd kv) else 0) l
  /\ w1 added = 0.
Proof.
  induction l as [|[k v] r IH]; intros Hin; cbn zeta in *; [cbn; lia|].
  unfold keys_of in *. cbn [map filter fst]. cbn [sumf fold_right fst snd].
  destruct (IH (fun kv H => Hin kv (or_intror H))) as [A B]. fold (sumf (fun kv => if keep (fst kv) && negb (mem_atom (fst kv) K1) then count (snd kv) else 0) r).
  destruct (keep k); cbn [andb flat_map]; [|unfold sumf in *; lia].
  rewrite w1_app, w2_app.
  destruct (mem_atom k K1); cbn [negb]; [cbn; unfold sumf in *; lia|].
  assert (E : assoc k kvs2 = Some v).
  { eapply assoc_nodup; [apply wf_dict_nodup; exact W2 | apply Hin; left; reflexivity | apply py_eq_refl]. }
  rewrite E.
  destruct (report_w KDictAdd (snoc p1 (PKey k)) (snoc p2 (PKey k)) None (Some v) None) as [C D].
  cbn [cnt_o] in *. unfold sumf in *. lia.
Qed.

Lemma common_w1 l : Forall (fun kv => WB (snd kv)) l -> (forall kv, In kv l -> In kv kvs1) ->
  w1 (fst (go_common c diff kvs2 K2 p1 p2 l)) <=
  sumf (fun kv => if keep (fst kv) && mem_atom (fst kv) K2 then count (snd kv) else 0) l.
Proof.
  induction 1 as [|[k v1] r Hkv _ IH]; intros Hin; [cbn; lia|].
  cbn [go_common sumf fold_right fst snd].
  specialize (IH (fun kv H => Hin kv (or_intror H))).
  fold (sumf (fun kv => if keep (fst kv) && mem_atom (fst kv) K2 then count (snd kv) else 0) r).
  destruct (keep k); cbn [andb]; [|unfold sumf in *; lia].
  destruct (find (py_eq k) K2) as [k'|] eqn:F; [|unfold sumf in *; lia].
  destruct (find_mem _ _ _ F) as [M _]. rewrite M.
  destruct (assoc k' kvs2) as [v2|] eqn:A; [|unfold sumf in *; lia].
  unfold app2. cbn [fst]. rewrite w1_app.
  apply assoc_In in A. destruct A as [k'' [Hk'' _]].
  assert (Wv1 : wf v1 = true) by (eapply wf_dict_values; [exact W1 | apply Hin; left; reflexivity]).
  assert (Wv2 : wf v2 = true) by (eapply wf_dict_values; [exact W2 | exact Hk'']).
  cbn [snd] in Hkv. destruct (Hkv v2 (snoc p1 (PKey k')) (snoc p2 (PKey k')) Wv1 Wv2) as [B _].
  unfold sumf in *. lia.
Qed.

Definition S2 (l : list (atom * value)) : nat :=
  sumf (fun kv => if keep (fst kv) && mem_atom (fst kv) (map fst l) then count (snd kv) else 0) kvs2.

Lemma common_w2 l : Forall (fun kv => WB (snd kv)) l -> (forall kv, In kv l -> In kv kvs1) ->
  nodup_atoms (map fst l) = true ->
  w2 (fst (go_common c diff kvs2 K2 p1 p2 l)) <= S2 l.
Proof.
  induction 1 as [|[k v1] r Hkv _ IH]; intros Hin N; [cbn; lia|].
  cbn [map fst nodup_atoms] in N. apply andb_prop in N. destruct N as [N0 N]. apply negb_true_iff in N0.
  specialize (IH (fun kv H => Hin kv (or_intror H)) N).
  assert (Mono : forall kv, In kv kvs2 ->
            (if keep (fst kv) && mem_atom (fst kv) (map fst r) then count (snd kv) else 0) <=
            (if keep (fst kv) && mem_atom (fst kv) (map fst ((k, v1) :: r)) then count (snd kv) else 0)).
  { intros kv _. cbn [map fst]. unfold mem_atom at 2. cbn [existsb]. fold (mem_atom (fst kv) (map fst r)).
    destruct (keep (fst kv)); cbn [andb]; [|lia].
    destruct (mem_atom (fst kv) (map fst r)); [rewrite orb_true_r; lia|]. destruct (py_eq (fst kv) k); cbn; lia. }
  assert (Weak : S2 r <= S2 ((k, v1) :: r)) by (apply sumf_le; exact Mono).
  cbn [go_common].
  destruct (keep k) eqn:Kk; [|lia].
  destruct (find (py_eq k) K2) as [k'|] eqn:F; [|lia].
  destruct (find_mem _ _ _ F) as [_ [E _]].
  destruct (assoc k' kvs2) as [v2|] eqn:A; [|lia].
  unfold app2. cbn [fst]. rewrite w2_app.
  apply assoc_In in A. destruct A as [k'' [Hk'' E'']].
  assert (Wv1 : wf v1 = true) by (eapply wf_dict_values; [exact W1 | apply Hin; left; reflexivity]).
  assert (Wv2 : wf v2 = true) by (eapply wf_dict_values; [exact W2 | exact Hk'']).
  cbn [snd] in Hkv. destruct (Hkv v2 (snoc p1 (PKey k')) (snoc p2 (PKey k')) Wv1 Wv2) as [_ B].
  assert (Ekk : py_eq k'' k = true).
  { eapply py_eq_trans; [exact E''|]. rewrite py_eq_sym. exact E. }
  assert (Step : S2 r + count v2 <= S2 ((k, v1) :: r)).
  { unfold S2. apply (sumf_le_plus _ _ kvs2 (k'', v2)); [exact Hk'' | exact Mono |].
    cbn [fst snd map]. 
    assert (Mr : mem_atom k'' (map fst r) = false).
    { destruct (mem_atom k'' (map fst r)) eqn:M; [|reflexivity]. exfalso.
      assert (mem_atom k (map fst r) = true).
      { eapply mem_atom_py_eq; [|exact M]. rewrite py_eq_sym. exact Ekk. }
      congruence. }
    rewrite Mr. rewrite andb_false_r.
    assert (Kk'' : keep k'' = true) by (rewrite (keep_key_py_eq c k'' k Ekk); exact Kk).
    rewrite Kk''. unfold mem_atom. cbn [existsb]. rewrite Ekk. cbn. lia. }
  lia.
Qed.

Lemma dict_body_w : Forall (fun kv => WB (snd kv)) kvs1 ->
  w1 (fst (dict_body hatom udiff ops skip excl c kvs1 kvs2 p1 p2)) <= count (VDict kvs1) /\
  w2 (fst (dict_body hatom udiff ops skip excl c kvs1 kvs2 p1 p2)) <= count (VDict kvs2).
Proof.
  intros H. unfold dict_body. fold K1 K2.
  destruct (dict_shortcut excl c K1 K2 p1).
  - cbn [fst]. apply (report_w KValue p1 p2 (Some (VDict kvs1)) (Some (VDict kvs2)) None).
  - cbn [fst]. rewrite !w1_app, !w2_app.
    destruct (removed_w kvs1 (fun kv Hkv => Hkv)) as [R1 R2].
    destruct (added_w kvs2 (fun kv Hkv => Hkv)) as [A2 A1].
    pose proof (common_w1 kvs1 H (fun kv Hkv => Hkv)) as C1.
    pose proof (common_w2 kvs1 H (fun kv Hkv => Hkv) (wf_dict_nodup _ W1)) as C2.
    cbn zeta in R1, R2, A1, A2. change (keys_of c kvs2) with K2 in A1, A2. change (keys_of c kvs1) with K1 in R1, R2.
    pose proof (count_dict_keep kvs1) as D1. pose proof (count_dict_keep kvs2) as D2.
    split.
    + rewrite A1.
      assert (sumf (fun kv => if keep (fst kv) && negb (mem_atom (fst kv) K2) then count (snd kv) else 0) kvs1 +
              sumf (fun kv => if keep (fst kv) && mem_atom (fst kv) K2 then count (snd kv) else 0) kvs1 <= sumf wkeep kvs1).
      { rewrite sumf_add. apply sumf_le. intros kv _. unfold wkeep.
        destruct (keep (fst kv)); cbn [andb]; [|lia]. destruct (mem_atom (fst kv) K2); cbn; lia. }
      lia.
    + rewrite R2.
      assert (sumf (fun kv => if keep (fst kv) && negb (mem_atom (fst kv) K1) then count (snd kv) else 0) kvs2 +
              S2 kvs1 <= sumf wkeep kvs2).
      { unfold S2. rewrite sumf_add. apply sumf_le. intros kv _. unfold wkeep.
        destruct (keep (fst kv)) eqn:Kk; cbn [andb]; [|lia].
        unfold K1. rewrite (mem_keys_of c kvs1 (fst kv) Kk).
        destruct (mem_atom (fst kv) (map fst kvs1)); cbn; lia. }
      lia.
Qed.
End Dict.

Theorem diff_weights : forall t1, WB t1.
Proof.
  induction t1 as [a|xs IH|xs IH|kvs IH|xs|xs] using value_ind'; intros t2 p1 p2 Wf1 Wf2;
    (destruct (skip p1) eqn:Hs; [rewrite diff_skip by exact Hs; cbn; lia|]);
    (match goal with |- context [diff ?t1 t2 _ _] => destruct (ty_eqb (type_of t1) (type_of t2)) eqn:T end;
     [|rewrite diff_type by assumption; cbn [fst];
       match goal with |- context [report skip KType ?a ?b (Some ?x) (Some ?y) None] =>
         apply (report_w KType a b (Some x) (Some y) None) end]).
  all: destruct t2; try discriminate T; try (destruct a; discriminate T).
  - rewrite diff_atom_eq by exact Hs. cbn in T. rewrite T. cbn [negb fst].
    destruct (diff_atom_w a a0 p1 p2). cbn [count]. lia.
  - rewrite diff_list by exact Hs. cbn [wf] in Wf1, Wf2.
    destruct (seq_body_w xs xs0 p1 p2 IH Wf1 Wf2). cbn [count]. fold (sumc xs) (sumc xs0). lia.
  - rewrite diff_tuple by exact Hs. cbn [wf] in Wf1, Wf2.
    destruct (seq_body_w xs xs0 p1 p2 IH Wf1 Wf2). cbn [count]. fold (sumc xs) (sumc xs0). lia.
  - rewrite diff_dict by exact Hs. apply dict_body_w; assumption.
  - rewrite diff_vset by exact Hs. cbn [fst count]. destruct (diff_set_w xs xs0 p1 p2). lia.
  - rewrite diff_vfrozen by exact Hs. cbn [fst count]. destruct (diff_set_w xs xs0 p1 p2). lia.
Qed.

End W.

Definition we (e : entry) : nat := cnt_o (et1 e) + cnt_o (et2 e).

Lemma render_key_ok p : path_key_ok (render p) = true.
Proof.
  unfold path_key_ok, render, root_str.
  generalize (flat_map render_key p). intros r. reflexivity.
Qed.

Lemma len_vdv o : lle (item_length (vdv o)) (cnt_o o).
Proof.
  destruct o as [v|]; cbn [vdv cnt_o].
  - intros n H. apply item_length_le_count. exact H.
  - cbn. apply lle_ok. lia.
Qed.

Section B.
Variable incl : value -> value -> bool.
Variable rec : list path.

Lemma np_len e r : map_len item_length (np e ++ r) = ladd (LOk 0) (map_len item_length r) \/
                   map_len item_length (np e ++ r) = map_len item_length r.
Proof.
  unfold np. destruct (pystr_eqb _ _); cbn [app]; [right; reflexivity|left].
  rewrite (map_len_skip _ (KStr k_new_path)) by reflexivity. reflexivity.
Qed.

Lemma sel_bound k e d : tc_ok incl e = true -> sel incl rec k e = Some d -> lle (item_length d) (we e).
Proof.
  intros G. unfold sel. destruct (rkind_eqb (ekind e) k) eqn:K; cbn [negb]; [|discriminate].
  pose proof (len_vdv (et1 e)) as L1. pose proof (len_vdv (et2 e)) as L2. unfold we.
  destruct k; try discriminate.
  - (* type change *)
    assert (Ek : ekind e = KType) by (destruct (ekind e); try discriminate K; reflexivity).
    intros [= <-] n H. cbn [item_length app] in H.
    rewrite (map_len_plain _ (KStr k_old_type)) in H by reflexivity.
    rewrite (map_len_plain _ (KStr k_new_type)) in H by reflexivity.
    cbn [item_length] in H.
    apply ladd_ok in H. destruct H as [x1 [y1 [Hx1 [H ->]]]]. injection Hx1 as <-.
    apply ladd_ok in H. destruct H as [x2 [y2 [Hx2 [H ->]]]]. injection Hx2 as <-.
    assert (Hrest : exists z, map_len item_length (if incl_e incl e then [(KStr k_new_value, 0, vdv (et2 e))] else []) = LOk z /\ y2 = z).
    { destruct (np_len e (if incl_e incl e then [(KStr k_new_value, 0, vdv (et2 e))] else [])) as [E|E]; rewrite E in H.
      - apply ladd_ok in H. destruct H as [a [b [Ha [Hb ->]]]]. injection Ha as <-. exists b. split; [exact Hb | lia].
      - exists y2. split; [exact H | reflexivity]. }
    destruct Hrest as [z [Hz ->]].
    unfold tc_ok in G. rewrite Ek in G. unfold incl_e in Hz.
    destruct (et1 e) as [a|] eqn:E1; destruct (et2 e) as [b|] eqn:E2; cbn [cnt_o vdv] in *.
    + destruct (incl a b).
      * rewrite (map_len_plain _ (KStr k_new_value)) in Hz by reflexivity. cbn [map_len] in Hz.
        apply ladd_ok in Hz. destruct Hz as [l [y [Hl [Hy ->]]]]. injection Hy as <-.
        rewrite Hl in G. apply Nat.leb_le in G. lia.
      * cbn in Hz. injection Hz as <-. apply Nat.leb_le in G. lia.
    + discriminate G.
    + discriminate G.
    + discriminate G.
  - (* value change *)
    intros [= <-] n H. cbn [item_length] in H.
    rewrite (map_len_plain _ (KStr k_new_value)) in H by reflexivity.
    apply ladd_ok in H. destruct H as [x [y [Hx [Hy ->]]]]. specialize (L2 x Hx).
    unfold np in Hy. destruct (pystr_eqb _ _).
    + cbn in Hy. injection Hy as <-. lia.
    + rewrite (map_len_skip _ (KStr k_new_path)) in Hy by reflexivity. cbn in Hy. injection Hy as <-. lia.
  - intros [= <-]. eapply lle_weaken; [exact L2 | lia].
  - intros [= <-]. eapply lle_weaken; [exact L1 | lia].
  - destruct (hidden rec e); [discriminate|]. intros [= <-]. eapply lle_weaken; [exact L2 | lia].
  - destruct (hidden rec e); [discriminate|]. intros [= <-]. eapply lle_weaken; [exact L1 | lia].
  - destruct (hidden rec e); [discriminate|]. intros [= <-] n H. cbn [item_length] in H.
    rewrite (map_len_skip _ (KStr k_new_path)) in H by reflexivity.
    rewrite (map_len_plain _ (KStr k_value)) in H by reflexivity. cbn [map_len] in H.
    apply ladd_ok in H. destruct H as [x0 [y0 [Hx0 [H ->]]]]. injection Hx0 as <-.
    apply ladd_ok in H. destruct H as [x [y [Hx [Hy ->]]]]. injection Hy as <-.
    specialize (L2 x Hx). lia.
  - intros [= <-] n H. cbn [item_length seq_len] in H.
    apply ladd_ok in H. destruct H as [x [y [Hx [Hy ->]]]]. injection Hy as <-. specialize (L2 x Hx). lia.
  - intros [= <-] n H. cbn [item_length seq_len] in H.
    apply ladd_ok in H. destruct H as [x [y [Hx [Hy ->]]]]. injection Hy as <-. specialize (L1 x Hx). lia.
Qed.

Definition wsel (k : rkind) (es : list entry) : nat :=
  fold_right (fun e n => match sel incl rec k e with Some _ => we e | None => 0 end + n) 0 es.

Lemma cat_bound k es : tcs_ok incl es = true ->
  lle (item_length (cat incl rec k es)) (wsel k es).
Proof.
  unfold cat. cbn [item_length]. induction es as [|e es IH]; intros G.
  - cbn. apply lle_ok. lia.
  - cbn [tcs_ok forallb] in G. apply andb_prop in G. destruct G as [G1 G2]. specialize (IH G2).
    cbn [flat_map wsel fold_right]. fold (wsel k es).
    destruct (sel incl rec k e) as [d|] eqn:E; cbn [app].
    + unfold pkey. destruct (path_key_facts _ (render_key_ok (ep1 e))) as [D S].
      rewrite map_len_plain by assumption.
      apply lle_ladd; [eapply sel_bound; eassumption | exact IH].
    + eapply lle_weaken; [exact IH | lia].
Qed.

Definition we_sum (es : list entry) : nat := fold_right (fun e n => we e + n) 0 es.

Definition ind (k : rkind) (e : entry) : nat := if rkind_eqb (ekind e) k then we e else 0.
Definition wind (k : rkind) (es : list entry) : nat := fold_right (fun e n => ind k e + n) 0 es.

Lemma sel_ind k e : match sel incl rec k e with Some _ => we e | None => 0 end <= ind k e.
Proof.
  unfold sel, ind. destruct (rkind_eqb (ekind e) k); cbn [negb]; [|lia].
  destruct (match k with KType => _ | _ => _ end); lia.
Qed.

Lemma wsel_wind k es : wsel k es <= wind k es.
Proof.
  induction es as [|e es IH]; [cbn; lia|]. unfold wsel, wind in *. cbn [fold_right].
  pose proof (sel_ind k e). lia.
Qed.

Lemma ind_partition e :
  ind KType e + ind KDictAdd e + ind KDictRem e + ind KValue e + ind KIterAdd e +
  ind KIterRem e + ind KIterMoved e + ind KSetRem e + ind KSetAdd e <= we e.
Proof. unfold ind. destruct (ekind e); cbn [rkind_eqb]; lia. Qed.

Lemma wind_partition es :
  wind KType es + wind KDictAdd es + wind KDictRem es + wind KValue es + wind KIterAdd es +
  wind KIterRem es + wind KIterMoved es + wind KSetRem es + wind KSetAdd es <= we_sum es.
Proof.
  induction es as [|e es IH]; [cbn; lia|].
  unfold wind, we_sum in *. cbn [fold_right]. pose proof (ind_partition e). lia.
Qed.

Lemma wsel_partition es :
  wsel KType es + wsel KDictAdd es + wsel KDictRem es + wsel KValue es + wsel KIterAdd es +
  wsel KIterRem es + wsel KIterMoved es + wsel KSetRem es + wsel KSetAdd es <= we_sum es.
Proof.
  pose proof (wind_partition es).
  pose proof (wsel_wind KType es). pose proof (wsel_wind KDictAdd es). pose proof (wsel_wind KDictRem es).
  pose proof (wsel_wind KValue es). pose proof (wsel_wind KIterAdd es). pose proof (wsel_wind KIterRem es).
  pose proof (wsel_wind KIterMoved es). pose proof (wsel_wind KSetRem es). pose proof (wsel_wind KSetAdd es).
  lia.
Qed.

Lemma we_sum_w es : we_sum es = w1 es + w2 es.
Proof. induction es as [|e es IH]; [reflexivity|]. unfold we_sum, w1, w2, we in *. cbn [fold_right]. lia. Qed.

Lemma entries_ops_bound es : tcs_ok incl es = true ->
  lle (item_length (dv_of_entries incl es rec)) (w1 es + w2 es).
Proof.
  intros G. unfold dv_of_entries. cbn [item_length].
  repeat (rewrite map_len_plain by reflexivity).
  rewrite map_len_skip by reflexivity. cbn [map_len].
  pose proof (wsel_partition es) as P. rewrite we_sum_w in P.
  pose proof (cat_bound KType es G). pose proof (cat_bound KDictAdd es G). pose proof (cat_bound KDictRem es G).
  pose proof (cat_bound KValue es G). pose proof (cat_bound KIterAdd es G). pose proof (cat_bound KIterRem es G).
  pose proof (cat_bound KIterMoved es G). pose proof (cat_bound KSetRem es G). pose proof (cat_bound KSetAdd es G).
  intros n Hn. ladd_inv. subst.
  repeat match goal with H : lle ?l _, E : ?l = LOk ?x |- _ => specialize (H x E) end.
  lia.
Qed.
End B.

(* ---------- DeepDiff(t1, t2, get_deep_distance=True), ordered mode ---------- *)
Theorem deep_distance_ordered_range :
  forall hatom udiff ops skip excl c incl cutoff t1 t2 n m,
    zip c = true \/ ops_tiling ops ->
    ignore_private c = true -> wf t1 = true -> wf t2 = true ->
    tcs_ok incl (fst (diff hatom udiff ops skip excl c t1 t2 [] [])) = true ->
    deep_distance_of_diff hatom udiff ops skip excl c incl cutoff t1 t2 = RFrac n m ->
    0 < n /\ n <= m.
Proof.
  intros hatom udiff ops skip excl c incl cutoff t1 t2 n m Z P W1 W2 G H.
  unfold deep_distance_of_diff in H. split; [eapply rough_frac_positive; exact H|].
  unfold rough_distance in H.
  destruct (root_numeric (RVal t1) (RVal t2) cutoff); [discriminate|].
  destruct (item_length _) as [[|k]|e] eqn:E; try discriminate.
  injection H as <- <-. cbn [root_count].
  pose proof (entries_ops_bound incl _ _ G _ E) as B.
  destruct (diff_weights hatom udiff ops skip excl c Z P t1 t2 [] [] W1 W2) as [A1 A2]. lia.
Qed.

Theorem deep_distance_positional_range :
  forall hatom udiff ops skip excl c incl cutoff t1 t2 n m,
    zip c = true -> ignore_private c = true -> wf t1 = true -> wf t2 = true ->
    tcs_ok incl (fst (diff hatom udiff ops skip excl c t1 t2 [] [])) = true ->
    deep_distance_of_diff hatom udiff ops skip excl c incl cutoff t1 t2 = RFrac n m ->
    0 < n /\ n <= m.
Proof.
  intros hatom udiff ops skip excl c incl cutoff t1 t2 n m Z. apply deep_distance_ordered_range. left. exact Z.
Qed.

(* the hypotheses are satisfiable in default mode: [1, 2] vs (1, 3) -> 4 / 6, and with the
   opcodes difflib returns for [1, 2, 3] -> [1, 3, 4, 5] (two value changes and an added item) -> 3 / 9 *)
Definition ex_cfg : cfg := mkCfg false 33 100 true.
Definition ex_ops (_ : path) (_ _ : list value) : list opcode :=
  [mkOp OEqual 0 1 0 1; mkOp OReplace 1 3 1 4].
Example deep_distance_guard_satisfiable :
  let I z := VAtom (AInt z) in
  ops_tiling ex_ops /\
  tcs_ok (fun _ _ => true)
    (fst (diff (fun _ => []) (fun _ _ => []) ex_ops (fun _ => false) (fun _ => false) ex_cfg
               (VList [I 1; I 2]%Z) (VTuple [I 1; I 3]%Z) [] [])) = true /\
  deep_distance_of_diff (fun _ => []) (fun _ _ => []) ex_ops (fun _ => false) (fun _ => false) ex_cfg
    (fun _ _ => true) PrimFloat.one (VList [I 1; I 2]%Z) (VTuple [I 1; I 3]%Z) = RFrac 4 6 /\
  deep_distance_of_diff (fun _ => []) (fun _ _ => []) ex_ops (fun _ => false) (fun _ => false) ex_cfg
    (fun _ _ => true) PrimFloat.one (VList [I 1; I 2; I 3]%Z) (VList [I 1; I 3; I 4; I 5]%Z) = RFrac 3 9.
Proof. repeat split; vm_compute; reflexivity. Qed.

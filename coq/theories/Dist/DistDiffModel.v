(** C19 - the delta-view dict that _get_rough_distance walks, as a function of
    the levels reported by the ordered diff (Diff/DiffModel.v [diff], i.e. the
    result tree BEFORE mutual_add_removes_to_become_value_changes, which is the
    tree the distance sees).  Mirrors model.py DeltaResult + _to_delta_dict
    (directed): old_value dropped, items of a list whose opcodes are recorded
    are left to '_iterable_opcodes'.  One dict entry per reported set item (the
    real dict groups them into one set per path; the operation count is the
    same).  Definitions only. *)
From Coq Require Import List ZArith NArith Bool String.
Import ListNotations.
From DD Require Import Base.PyStr Base.Value Path.PathModel Diff.Tree Diff.DiffModel Dist.DistModel.

Section DV.
(* whether a type change carries its values: new_type(old_value) != new_value *)
Variable incl : value -> value -> bool.

Definition in_rec (p : path) (rec : list path) : bool := existsb (path_eqb p) rec.
Definition hidden (rec : list path) (e : entry) : bool := in_rec (removelast (ep1 e)) rec.
Definition vdv (o : option value) : dv := match o with Some v => dv_of_value v | None => DNone end.
Definition pkey (e : entry) : dkey := KStr (render (ep1 e)).
Definition np (e : entry) : list (dkey * nat * dv) :=
  if pystr_eqb (render (ep1 e)) (render (ep2 e)) then [] else [(KStr k_new_path, O, DStr)].
Definition incl_e (e : entry) : bool :=
  match et1 e, et2 e with Some a, Some b => incl a b | _, _ => true end.

Local Open Scope string_scope.
Definition k_value := s2p "value".

(* the payload of one level in its report kind; None = not part of the dict *)
Definition sel (rec : list path) (k : rkind) (e : entry) : option dv :=
  if negb (rkind_eqb (ekind e) k) then None else
  match k with
  | KType => Some (DMap ([(KStr k_old_type, O, DType); (KStr k_new_type, O, DType)] ++ np e
                         ++ (if incl_e e then [(KStr k_new_value, O, vdv (et2 e))] else [])))
  | KValue => Some (DMap ((KStr k_new_value, O, vdv (et2 e)) :: np e))
  | KDictAdd => Some (vdv (et2 e))
  | KDictRem => Some (vdv (et1 e))
  | KIterAdd => if hidden rec e then None else Some (vdv (et2 e))
  | KIterRem => if hidden rec e then None else Some (vdv (et1 e))
  | KIterMoved => if hidden rec e then None else Some (DMap [(KStr k_new_path, O, DStr); (KStr k_value, O, vdv (et2 e))])
  | KSetAdd => Some (DSeq [vdv (et2 e)])
  | KSetRem => Some (DSeq [vdv (et1 e)])
  | KRepetition => None
  end.

Definition cat (rec : list path) (k : rkind) (es : list entry) : dv :=
  DMap (flat_map (fun e => match sel rec k e with Some d => [(pkey e, O, d)] | None => [] end) es).

Definition dv_of_entries (es : list entry) (rec : list path) : dv :=
  DMap [(KStr (s2p "type_changes"), O, cat rec KType es);
        (KStr (s2p "dictionary_item_added"), O, cat rec KDictAdd es);
        (KStr (s2p "dictionary_item_removed"), O, cat rec KDictRem es);
        (KStr (s2p "values_changed"), O, cat rec KValue es);
        (KStr (s2p "iterable_item_added"), O, cat rec KIterAdd es);
        (KStr (s2p "iterable_item_removed"), O, cat rec KIterRem es);
        (KStr (s2p "iterable_item_moved"), O, cat rec KIterMoved es);
        (KStr (s2p "set_item_removed"), O, cat rec KSetRem es);
        (KStr (s2p "set_item_added"), O, cat rec KSetAdd es);
        (KStr (s2p "_iterable_opcodes"), O, DSeq (map (fun _ => DNone) rec))].

(* the guard: every type change can pay for its 2 + len(new_value) operations *)
Definition tc_ok (e : entry) : bool :=
  match ekind e with
  | KType =>
      match et1 e, et2 e with
      | Some a, Some b =>
          match (if incl a b then item_length (dv_of_value b) else LOk 0) with
          | LOk l => Nat.leb (2 + l) (count a + count b)
          | LErr _ => true
          end
      | _, _ => false          (* a type change always has both values *)
      end
  | _ => true
  end.
Definition tcs_ok (es : list entry) : bool := forallb tc_ok es.
End DV.

(* difflib's opcodes tile both lists in ascending order (true of SequenceMatcher.get_opcodes) *)
Fixpoint ops_tile (lo1 lo2 : nat) (os : list opcode) : bool :=
  match os with
  | [] => true
  | o :: r => Nat.leb lo1 (oi1 o) && Nat.leb (oi1 o) (oi2 o) && Nat.leb lo2 (oj1 o) && Nat.leb (oj1 o) (oj2 o)
              && ops_tile (oi2 o) (oj2 o) r
  end.
Definition ops_tiling (ops : path -> list value -> list value -> list opcode) : Prop :=
  forall p xs ys, ops_tile 0 0 (ops p xs ys) = true.

(* DeepDiff(t1, t2, get_deep_distance=True) in ordered mode, from the inputs alone *)
Definition deep_distance_of_diff hatom udiff ops skip excl c incl (cutoff : PrimFloat.float) (t1 t2 : value) : rres :=
  let r := diff hatom udiff ops skip excl c t1 t2 [] [] in
  rough_distance (RVal t1) (RVal t2) cutoff (dv_of_entries incl (fst r) (snd r)).

(** C19 - proofs about the distance model (DistModel.v).

    Part A (PrimFloat, through the FloatAxioms specification lemmas):
      numbers_range, numbers_error_iff, numbers_total_{refuted,partial},
      numbers_zero_of_equal, numbers_zero_iff_refuted, numbers_zero_causes.
    Part B (item lengths and operation counts):
      item_length_le_count   operations of a reported value <= its DeepHash count
      carve_all              pairwise disjoint positions carve disjoint parts of a count
      delta_length_bound     operations of a valid delta <= len(t1) + len(t2), under the type-change guard
    Part C (rough distance): rough_frac_positive, rough_zero_iff_no_ops,
      rough_numeric_range, rough_range_{refuted,partial}, rough_positive_refuted. *)
From Coq Require Import List ZArith NArith Bool Lia Arith String.
From Coq Require Import PrimFloat Uint63 SpecFloat FloatOps FloatAxioms.
Import ListNotations.
From DD Require Import Base.Sx Base.PyStr Base.Value Dist.DistModel.

Local Open Scope float_scope.

(* ---------- comparisons through the specification ---------- *)
Lemma Prim2SF_zero : Prim2SF 0 = S754_zero false.
Proof. reflexivity. Qed.

Lemma SFcompare_refl : forall x, x <> S754_nan -> SFcompare x x = Some Eq.
Proof.
  intros x Hx. destruct x as [s|s| |s m e]; cbn.
  - reflexivity.
  - destruct s; reflexivity.
  - congruence.
  - destruct s; rewrite Z.compare_refl, Pos.compare_cont_refl; reflexivity.
Qed.

Lemma leb_not_nan_r : forall a b, (a <=? b) = true -> Prim2SF b <> S754_nan.
Proof.
  intros a b H. rewrite leb_spec in H. unfold SFleb in H.
  intro Hb. rewrite Hb in H. destruct (Prim2SF a); cbn in H; discriminate.
Qed.

Lemma leb_refl : forall x, Prim2SF x <> S754_nan -> (x <=? x) = true.
Proof.
  intros x H. rewrite leb_spec. unfold SFleb. rewrite SFcompare_refl by assumption. reflexivity.
Qed.

Lemma ltb_leb : forall a b, (a <? b) = true -> (a <=? b) = true.
Proof.
  intros a b. rewrite ltb_spec, leb_spec. unfold SFltb, SFleb.
  destruct (SFcompare (Prim2SF a) (Prim2SF b)) as [[| |]|]; congruence.
Qed.

Lemma abs_nonneg_of_lt : forall r b, (abs r <? b) = true -> (0 <=? abs r) = true.
Proof.
  intros r b. rewrite ltb_spec, leb_spec, abs_spec, Prim2SF_zero.
  unfold SFltb, SFleb. destruct (Prim2SF r) as [s|s| |s m e]; cbn; try reflexivity.
  destruct (Prim2SF b); cbn; discriminate.
Qed.

(* ---------- C19 numbers: range ---------- *)
Definition in_range (mx v : float) : Prop := (0 <=? v) = true /\ (v <=? mx) = true.

(* the number a result stands for; None = an exception *)
Definition dres_value (d : dres) : option float :=
  match d with DInt0 => Some 0 | DVal v => Some v | DErr _ => None end.

Lemma py_min_in_range : forall mx r, (0 <=? mx) = true -> in_range mx (py_min mx (abs r)).
Proof.
  intros mx r Hmx. unfold py_min, in_range.
  destruct (abs r <? mx) eqn:Hlt.
  - split; [eapply abs_nonneg_of_lt; eassumption | apply ltb_leb; assumption].
  - split; [assumption | apply leb_refl; eapply leb_not_nan_r; eassumption].
Qed.

(* whenever _get_numbers_distance returns, for ANY two numbers (nan, inf,
   opposite signs, overflowing sums included) and any max_ >= 0, the result
   lies in [0, max_] *)
Theorem numbers_range : forall a b mx v,
  (0 <=? mx) = true ->
  dres_value (numbers_distance a b mx) = Some v -> in_range mx v.
Proof.
  intros a b mx v Hmx. unfold numbers_distance.
  destruct (pynum_eq a b).
  - cbn. intros [= <-]. split; [reflexivity | assumption].
  - destruct (to_float a) as [x|]; [|discriminate].
    destruct (to_float b) as [y|]; [|discriminate].
    destruct (mx =? 0); [discriminate|].
    destruct ((x + y) / mx =? 0); cbn; intros [= <-].
    + split; [assumption | apply leb_refl; eapply leb_not_nan_r; eassumption].
    + apply py_min_in_range; assumption.
Qed.

(* the exceptions, exactly *)
Definition conv_ok (a : pynum) : bool := match to_float a with Some _ => true | None => false end.

Theorem numbers_error_iff : forall a b mx e,
  numbers_distance a b mx = DErr e <->
  pynum_eq a b = false /\
  ((e = EOverflow /\ (conv_ok a && conv_ok b = false)%bool) \/
   (e = EZeroDiv /\ (conv_ok a && conv_ok b = true)%bool /\ (mx =? 0) = true)).
Proof.
  intros a b mx e. unfold numbers_distance, conv_ok.
  destruct (pynum_eq a b); [split; [discriminate | intros [H _]; discriminate]|].
  destruct (to_float a) as [x|]; cbn.
  - destruct (to_float b) as [y|]; cbn.
    + destruct (mx =? 0) eqn:Hm.
      * split; [intros [= <-]; split; [reflexivity | right; auto] | intros [_ [[_ H]|[-> _]]]; [discriminate | reflexivity]].
      * destruct ((x + y) / mx =? 0); (split; [discriminate | intros [_ [[_ H]|[_ [_ H]]]]; discriminate]).
    + split; [intros [= <-]; split; [reflexivity | left; auto] | intros [_ [[-> _]|[_ [H _]]]]; [reflexivity | discriminate]].
  - split; [intros [= <-]; split; [reflexivity | left; auto] | intros [_ [[-> _]|[_ [H _]]]]; [reflexivity | discriminate]].
Qed.

(* full statement "always a number in range": refuted by the two exceptions *)
Definition numbers_total_statement : Prop :=
  forall a b mx, (0 <=? mx) = true ->
  exists v, dres_value (numbers_distance a b mx) = Some v /\ in_range mx v.

Local Open Scope Z_scope.
Theorem numbers_total_refuted_overflow :
  exists a b mx, (0 <=? mx)%float = true /\ numbers_distance a b mx = DErr EOverflow.
Proof. exists (PInt (10 ^ 400)), (PInt 1), 1%float. split; vm_compute; reflexivity. Qed.

Theorem numbers_total_refuted_zerodiv :
  exists a b mx, (0 <=? mx)%float = true /\ numbers_distance a b mx = DErr EZeroDiv.
Proof. exists (PInt 1), (PInt 2), 0%float. split; vm_compute; reflexivity. Qed.

Theorem numbers_total_refuted : ~ numbers_total_statement.
Proof.
  intro H. destruct (H (PInt 1) (PInt 2) 0%float eq_refl) as [v [Hv _]].
  vm_compute in Hv. discriminate.
Qed.
Local Close Scope Z_scope.

Theorem numbers_total_partial : forall a b mx,
  (0 <=? mx) = true ->
  (conv_ok a && conv_ok b && negb (mx =? 0))%bool = true ->
  exists v, dres_value (numbers_distance a b mx) = Some v /\ in_range mx v.
Proof.
  intros a b mx Hmx G.
  destruct (numbers_distance a b mx) as [|v|e] eqn:E.
  - exists 0. split; [reflexivity|]. eapply numbers_range; [eassumption|]. rewrite E. reflexivity.
  - exists v. split; [reflexivity|]. eapply numbers_range; [eassumption|]. rewrite E. reflexivity.
  - exfalso. apply numbers_error_iff in E. destruct E as [_ [[_ H]|[_ [_ H]]]].
    + rewrite H in G. discriminate.
    + rewrite H in G. rewrite andb_false_r in G. discriminate.
Qed.

Example numbers_total_guard_satisfiable :
  (conv_ok (PInt 2) && conv_ok (PFloat 0.5) && negb (1 =? 0))%bool = true
  /\ numbers_distance (PInt 2) (PFloat 0.5) 1 = DVal 0x1.3333333333333p-1.
Proof. split; vm_compute; reflexivity. Qed.

(* ---------- C19 numbers: zero only for equal values ---------- *)
Theorem numbers_zero_of_equal : forall a b mx,
  pynum_eq a b = true -> numbers_distance a b mx = DInt0.
Proof. intros a b mx H. unfold numbers_distance. rewrite H. reflexivity. Qed.

Definition numbers_zero_iff_statement : Prop :=
  forall a b mx v, (0 <=? mx) = true ->
  dres_value (numbers_distance a b mx) = Some v ->
  ((v =? 0) = true <-> pynum_eq a b = true).

Local Open Scope Z_scope.
(* K14: num1 + num2 overflows *)
Theorem numbers_zero_refuted_overflow :
  exists a b mx v, (0 <=? mx)%float = true /\ pynum_eq a b = false /\
                   numbers_distance a b mx = DVal v /\ (v =? 0)%float = true.
Proof.
  exists (PFloat (SF2Prim (S754_finite false 5012531111497380 971))),   (* 1e308 *)
         (PFloat (SF2Prim (S754_finite false 8521302889545546 971))),   (* 1.7e308 *)
         1%float, 0%float.
  repeat split; vm_compute; reflexivity.
Qed.
(* K14b: float(2**53) == float(2**53 + 1) *)
Theorem numbers_zero_refuted_collapse :
  exists a b mx v, (0 <=? mx)%float = true /\ pynum_eq a b = false /\
                   numbers_distance a b mx = DVal v /\ (v =? 0)%float = true.
Proof.
  exists (PInt (2 ^ 53)), (PInt (2 ^ 53 + 1)), 1%float, 0%float.
  repeat split; vm_compute; reflexivity.
Qed.
(* K14c: the quotient underflows: 5e-324, 1e-323, max_ = 5e-324 *)
Theorem numbers_zero_refuted_underflow :
  exists a b mx v, (0 <=? mx)%float = true /\ pynum_eq a b = false /\
                   numbers_distance a b mx = DVal v /\ (v =? 0)%float = true.
Proof.
  exists (PFloat (SF2Prim (S754_finite false 1 (-1074)))), (PFloat (SF2Prim (S754_finite false 2 (-1074)))),
         (SF2Prim (S754_finite false 1 (-1074))), 0%float.
  repeat split; vm_compute; reflexivity.
Qed.

Theorem numbers_zero_iff_refuted : ~ numbers_zero_iff_statement.
Proof.
  intro H.
  specialize (H (PInt (2 ^ 53)) (PInt (2 ^ 53 + 1)) 1%float 0%float eq_refl).
  assert (E : dres_value (numbers_distance (PInt (2 ^ 53)) (PInt (2 ^ 53 + 1)) 1) = Some 0%float)
    by (vm_compute; reflexivity).
  destruct (H E) as [H1 _]. specialize (H1 eq_refl). vm_compute in H1. discriminate.
Qed.
Local Close Scope Z_scope.


Lemma eqb_zero_sf : forall v, (v =? 0) = true -> sf_is_zero (Prim2SF v) = true.
Proof.
  intros v. rewrite eqb_spec, Prim2SF_zero. unfold SFeqb.
  destruct (Prim2SF v) as [s|s| |s m e]; cbn; try reflexivity; try discriminate;
    destruct s; discriminate.
Qed.

Lemma abs_zero_sf : forall q, sf_is_zero (Prim2SF (abs q)) = true -> sf_is_zero (Prim2SF q) = true.
Proof. intros q. rewrite abs_spec. destruct (Prim2SF q); cbn; congruence. Qed.

(* what a zero distance between different numbers means: the quotient
   (x - y) / divisor is a signed zero, and by the IEEE division table that
   happens in exactly three ways, each of which occurs (the three refutations
   above): the converted numbers are equal as floats, the divisor overflowed to
   infinity, or a finite quotient underflowed. *)
Theorem numbers_zero_causes : forall a b mx x y v,
  pynum_eq a b = false ->
  to_float a = Some x -> to_float b = Some y ->
  numbers_distance a b mx = DVal v -> (v =? 0) = true ->
  let d := (x + y) / mx in
  sf_is_zero (Prim2SF ((x - y) / d)) = true /\
  (sf_is_zero (Prim2SF (x - y)) = true \/
   is_inf_sf (Prim2SF d) = true \/
   (sf_is_finite (Prim2SF (x - y)) && sf_is_finite (Prim2SF d))%bool = true).
Proof.
  intros a b mx x y v Hne Hx Hy. unfold numbers_distance. rewrite Hne, Hx, Hy.
  destruct (mx =? 0) eqn:Hm; [discriminate|].
  destruct ((x + y) / mx =? 0) eqn:Hd.
  - intros [= <-] Hv. rewrite Hv in Hm. discriminate.
  - unfold py_min. destruct (abs ((x - y) / ((x + y) / mx)) <? mx) eqn:Hlt.
    2:{ intros [= <-] Hv. rewrite Hv in Hm. discriminate. }
    intros [= <-] Hv. cbn zeta.
    apply eqb_zero_sf in Hv. apply abs_zero_sf in Hv.
    split; [assumption|].
    rewrite div_spec in Hv. unfold SF64div, SFdiv in Hv.
    assert (Hd' : sf_is_zero (Prim2SF ((x + y) / mx)) = false).
    { rewrite eqb_spec, Prim2SF_zero in Hd. unfold SFeqb in Hd.
      destruct (Prim2SF ((x + y) / mx)) as [s|s| |s m e]; cbn in *; congruence. }
    destruct (Prim2SF (x - y)) as [s1|s1| |s1 m1 e1];
      destruct (Prim2SF ((x + y) / mx)) as [s2|s2| |s2 m2 e2]; cbn in *;
      try discriminate; auto.
Qed.

Local Close Scope float_scope.

(* ---------- induction over values ---------- *)
Section ValueInd.
  Variable P : value -> Prop.
  Hypothesis HA : forall a, P (VAtom a).
  Hypothesis HL : forall xs, Forall P xs -> P (VList xs).
  Hypothesis HT : forall xs, Forall P xs -> P (VTuple xs).
  Hypothesis HD : forall kvs, Forall (fun kv => P (snd kv)) kvs -> P (VDict kvs).
  Hypothesis HS : forall xs, P (VSet xs).
  Hypothesis HF : forall xs, P (VFrozen xs).
  Fixpoint value_ind2 (v : value) : P v :=
    match v with
    | VAtom a => HA a
    | VList xs => HL xs ((fix go (xs : list value) : Forall P xs :=
                            match xs with [] => Forall_nil _ | x :: r => Forall_cons _ (value_ind2 x) (go r) end) xs)
    | VTuple xs => HT xs ((fix go (xs : list value) : Forall P xs :=
                            match xs with [] => Forall_nil _ | x :: r => Forall_cons _ (value_ind2 x) (go r) end) xs)
    | VDict kvs => HD kvs ((fix go (kvs : list (atom * value)) : Forall (fun kv => P (snd kv)) kvs :=
                            match kvs with [] => Forall_nil _ | kv :: r => Forall_cons _ (value_ind2 (snd kv)) (go r) end) kvs)
    | VSet xs => HS xs
    | VFrozen xs => HF xs
    end.
End ValueInd.

(* ---------- lres bounds ---------- *)
Definition lle (l : lres) (b : nat) : Prop := forall n, l = LOk n -> n <= b.

Lemma ladd_ok : forall a b n, ladd a b = LOk n -> exists x y, a = LOk x /\ b = LOk y /\ n = x + y.
Proof.
  intros [x|e] [y|e'] n H; cbn in H; try discriminate.
  injection H as <-. eauto.
Qed.
Lemma lle_ladd : forall a b x y, lle a x -> lle b y -> lle (ladd a b) (x + y).
Proof.
  intros a b x y Ha Hb n H. apply ladd_ok in H. destruct H as [p [q [-> [-> ->]]]].
  specialize (Ha p eq_refl). specialize (Hb q eq_refl). lia.
Qed.
Lemma lle_err : forall e b, lle (LErr e) b.
Proof. intros e b n H. discriminate. Qed.
Lemma lle_ok : forall n b, n <= b -> lle (LOk n) b.
Proof. intros n b H m [= <-]. assumption. Qed.
Lemma lle_weaken : forall l a b, lle l a -> a <= b -> lle l b.
Proof. intros l a b H Hab n E. specialize (H n E). lia. Qed.

(* ---------- keys ---------- *)
Lemma private_key_skipped : forall k, private_key k = true ->
  is_dedupe_key (dkey_of_atom k) = false /\ key_skip (dkey_of_atom k) = true.
Proof.
  intros k H. destruct k as [| | | |s|]; try discriminate.
  destruct s as [|c1 [|c2 r]]; try discriminate. cbn in H.
  apply andb_prop in H. destruct H as [H1 H2].
  apply N.eqb_eq in H1. apply N.eqb_eq in H2. subst c1 c2.
  split; reflexivity.
Qed.

(* ---------- P1: operations of a reported value <= its item length ---------- *)
Definition dict_weight (kv : atom * value) : nat :=
  if private_key (fst kv) then 1 else S (count (snd kv)).
Definition dv_entry (kv : atom * value) : dkey * nat * dv :=
  (dkey_of_atom (fst kv), O, dv_of_value (snd kv)).

Lemma count_dict : forall kvs, count (VDict kvs) = S (fold_right (fun kv n => dict_weight kv + n) 0 kvs).
Proof. reflexivity. Qed.

Definition as_idx (seen : list nat) (d : dv) : lres :=
  match d with DMap ents => idx_len item_length seen ents | _ => LErr EAttr end.

Definition len3 (v : value) : Prop :=
  lle (item_length (dv_of_value v)) (count v)
  /\ lle (dedupe_len item_length (dv_of_value v)) (count v)
  /\ forall seen, lle (as_idx seen (dv_of_value v)) (count v).

Lemma len3_atom : forall a, len3 (VAtom a).
Proof.
  intros a. repeat split.
  - destruct a; cbn; apply lle_ok; lia.
  - destruct a; cbn; apply lle_err.
  - intros seen. destruct a; cbn; apply lle_err.
Qed.

Lemma seq_len_values : forall xs, Forall len3 xs ->
  lle (seq_len item_length (map dv_of_value xs)) (fold_right (fun x n => count x + n) 0 xs).
Proof.
  induction 1 as [|x r Hx _ IH]; cbn.
  - apply lle_ok. lia.
  - apply lle_ladd; [apply Hx | apply IH].
Qed.

Lemma len3_seq : forall xs, Forall len3 xs ->
  forall v, (v = VList xs \/ v = VTuple xs) -> len3 v.
Proof.
  intros xs H v Hv. repeat split.
  - destruct Hv as [-> | ->]; cbn [dv_of_value item_length count];
      (eapply lle_weaken; [apply seq_len_values; assumption | lia]).
  - destruct Hv as [-> | ->]; cbn; apply lle_err.
  - intros seen. destruct Hv as [-> | ->]; cbn; apply lle_err.
Qed.

Lemma seq_len_atoms : forall xs, lle (seq_len item_length (map dv_of_atom xs)) (List.length xs).
Proof.
  induction xs as [|a r IH]; cbn.
  - apply lle_ok; lia.
  - change (S (List.length r)) with (1 + List.length r). apply lle_ladd; [|apply IH].
    destruct a; cbn; apply lle_ok; lia.
Qed.

Lemma len3_atoms : forall xs v, (v = VSet xs \/ v = VFrozen xs) -> len3 v.
Proof.
  intros xs v Hv. pose proof (seq_len_atoms xs) as H.
  repeat split.
  - destruct Hv as [-> | ->]; cbn [dv_of_value item_length count]; (eapply lle_weaken; [apply H | lia]).
  - destruct Hv as [-> | ->]; cbn; apply lle_err.
  - intros seen. destruct Hv as [-> | ->]; cbn; apply lle_err.
Qed.

Definition dict_sum (kvs : list (atom * value)) : nat := fold_right (fun kv n => dict_weight kv + n) 0 kvs.

Lemma dict_map_len : forall kvs, Forall (fun kv => len3 (snd kv)) kvs ->
  lle (map_len item_length (map dv_entry kvs)) (dict_sum kvs).
Proof.
  induction 1 as [|[k v] r Hkv _ IH]; unfold dict_sum; cbn [map fold_right map_len dv_entry fst snd].
  - apply lle_ok; lia.
  - apply lle_ladd; [|apply IH]. unfold dict_weight; cbn [fst snd].
    destruct (private_key k) eqn:Hp.
    + destruct (private_key_skipped k Hp) as [-> ->]. apply lle_ok; lia.
    + destruct Hkv as [H1 [H2 _]]. cbn [snd] in *.
      destruct (is_dedupe_key (dkey_of_atom k)).
      * eapply lle_weaken; [apply H2 | lia].
      * destruct (key_skip (dkey_of_atom k)); [apply lle_ok; lia |].
        eapply lle_weaken; [apply H1 | lia].
Qed.

Lemma dict_paths_len : forall kvs, Forall (fun kv => len3 (snd kv)) kvs ->
  lle (paths_len item_length (map dv_entry kvs)) (dict_sum kvs).
Proof.
  induction 1 as [|[k v] r Hkv _ IH]; unfold dict_sum; cbn [map fold_right paths_len dv_entry fst snd].
  - apply lle_ok; lia.
  - apply lle_ladd; [|apply IH]. unfold dict_weight; cbn [fst snd].
    destruct (private_key k) eqn:Hp.
    + destruct (private_key_skipped k Hp) as [-> ->]. apply lle_ok; lia.
    + destruct Hkv as [_ [_ H3]]. cbn [snd] in *.
      destruct (is_dedupe_key (dkey_of_atom k)); [apply lle_err|].
      destruct (key_skip (dkey_of_atom k)); [apply lle_ok; lia |].
      eapply lle_weaken; [apply (H3 []) | lia].
Qed.

Lemma dict_idx_len : forall kvs, Forall (fun kv => len3 (snd kv)) kvs ->
  forall seen, lle (idx_len item_length seen (map dv_entry kvs)) (dict_sum kvs).
Proof.
  induction 1 as [|[k v] r Hkv _ IH]; intros seen; unfold dict_sum; cbn [map fold_right idx_len dv_entry fst snd].
  - apply lle_ok; lia.
  - destruct (existsb (Nat.eqb 0) seen).
    + eapply lle_weaken; [apply IH | unfold dict_sum; lia].
    + apply lle_ladd; [|apply IH]. unfold dict_weight, entry_len; cbn [fst snd].
      destruct (private_key k) eqn:Hp.
      * destruct (private_key_skipped k Hp) as [-> ->]. apply lle_ok; lia.
      * destruct Hkv as [H1 _]. cbn [snd] in *.
        destruct (is_dedupe_key (dkey_of_atom k)); [apply lle_err|].
        destruct (key_skip (dkey_of_atom k)); [apply lle_ok; lia |].
        eapply lle_weaken; [apply H1 | lia].
Qed.

Lemma len3_dict : forall kvs, Forall (fun kv => len3 (snd kv)) kvs -> len3 (VDict kvs).
Proof.
  intros kvs H. unfold len3.
  change (dv_of_value (VDict kvs)) with (DMap (map dv_entry kvs)).
  rewrite count_dict. fold (dict_sum kvs). repeat split.
  - cbn [item_length]. eapply lle_weaken; [apply dict_map_len; assumption | lia].
  - cbn [dedupe_len]. destruct (forallb _ _); [|apply lle_err].
    eapply lle_weaken; [apply dict_paths_len; assumption | lia].
  - intros seen. cbn [as_idx]. eapply lle_weaken; [apply dict_idx_len; assumption | lia].
Qed.

Lemma len3_all : forall v, len3 v.
Proof.
  apply value_ind2.
  - apply len3_atom.
  - intros xs H. eapply len3_seq; eauto.
  - intros xs H. eapply len3_seq; eauto.
  - apply len3_dict.
  - intros xs. eapply len3_atoms; eauto.
  - intros xs. eapply len3_atoms; eauto.
Qed.

Theorem item_length_le_count : forall v n,
  item_length (dv_of_value v) = LOk n -> n <= count v.
Proof. intros v n H. destruct (len3_all v) as [Ha _]. apply Ha. assumption. Qed.

(* ---------- P2: disjoint positions carve disjoint parts of the item length ---------- *)
Definition sumcnt (t : value) (P : list ipath) : nat := fold_right (fun p n => cnt t p + n) 0 P.

Lemma sumcnt_app : forall t a b, sumcnt t (a ++ b) = sumcnt t a + sumcnt t b.
Proof. induction a as [|p a IH]; intros b; [reflexivity|]. cbn [app]. unfold sumcnt in *. cbn [fold_right]. rewrite IH. lia. Qed.

Definition kcnt (k : option value) (r : ipath) : nat :=
  match k with Some c => cnt c r | None => 0 end.
Definition cntK (ks : list (option value)) (p : ipath) : nat :=
  match p with
  | [] => 0
  | i :: r => match nth_error ks i with Some k => kcnt k r | None => 0 end
  end.
Definition wsum (ks : list (option value)) : nat :=
  fold_right (fun k n => match k with Some c => count c | None => 0 end + n) 0 ks.

Lemma cnt_cons : forall t i r, cnt t (i :: r) = cntK (kids t) (i :: r).
Proof.
  intros t i r. unfold cnt, cntK, kcnt. cbn [resolve]. unfold child.
  destruct (nth_error (kids t) i) as [[c|]|]; reflexivity.
Qed.

Definition heads0 (P : list ipath) : list ipath :=
  flat_map (fun p => match p with O :: r => [r] | _ => [] end) P.
Definition shiftd (P : list ipath) : list ipath :=
  flat_map (fun p => match p with S j :: r => [j :: r] | _ => [] end) P.

Lemma heads0_cons : forall p P, heads0 (p :: P) = (match p with O :: r => [r] | _ => [] end) ++ heads0 P.
Proof. reflexivity. Qed.
Lemma shiftd_cons : forall p P, shiftd (p :: P) = (match p with S j :: r => [j :: r] | _ => [] end) ++ shiftd P.
Proof. reflexivity. Qed.

Lemma comparable_cons : forall i j a b,
  comparable (i :: a) (j :: b) = (Nat.eqb i j && comparable a b)%bool.
Proof.
  intros i j a b. unfold comparable. cbn [nat_prefix].
  rewrite (Nat.eqb_sym j i). destruct (Nat.eqb i j); reflexivity.
Qed.

Lemma forallb_heads0 : forall r0 R,
  forallb (fun q => negb (comparable (O :: r0) q)) R = true ->
  forallb (fun q => negb (comparable r0 q)) (heads0 R) = true.
Proof.
  intros r0 R. induction R as [|q R IH]; [reflexivity|].
  cbn [forallb]. intros H. apply andb_prop in H. destruct H as [H1 H2].
  rewrite heads0_cons, forallb_app. apply andb_true_intro. split; [|apply IH; exact H2].
  destruct q as [|[|j] q']; cbn [forallb]; try reflexivity.
  rewrite comparable_cons in H1. cbn in H1. rewrite H1. reflexivity.
Qed.

Lemma forallb_shiftd : forall j r0 R,
  forallb (fun q => negb (comparable (S j :: r0) q)) R = true ->
  forallb (fun q => negb (comparable (j :: r0) q)) (shiftd R) = true.
Proof.
  intros j r0 R. induction R as [|q R IH]; [reflexivity|].
  cbn [forallb]. intros H. apply andb_prop in H. destruct H as [H1 H2].
  rewrite shiftd_cons, forallb_app. apply andb_true_intro. split; [|apply IH; exact H2].
  destruct q as [|[|j'] q']; cbn [forallb]; try reflexivity.
  rewrite comparable_cons in H1. rewrite comparable_cons. cbn [Nat.eqb] in H1. rewrite H1. reflexivity.
Qed.

Lemma pw_heads0 : forall P, pairwise_incomparable P = true -> pairwise_incomparable (heads0 P) = true.
Proof.
  induction P as [|p P IH]; [reflexivity|].
  cbn [pairwise_incomparable]. intros H. apply andb_prop in H. destruct H as [H1 H2].
  rewrite heads0_cons.
  destruct p as [|[|j] r0]; cbn [app]; try (apply IH; assumption).
  cbn [pairwise_incomparable]. rewrite (forallb_heads0 _ _ H1), (IH H2). reflexivity.
Qed.

Lemma pw_shiftd : forall P, pairwise_incomparable P = true -> pairwise_incomparable (shiftd P) = true.
Proof.
  induction P as [|p P IH]; [reflexivity|].
  cbn [pairwise_incomparable]. intros H. apply andb_prop in H. destruct H as [H1 H2].
  rewrite shiftd_cons.
  destruct p as [|[|j] r0]; cbn [app]; try (apply IH; assumption).
  cbn [pairwise_incomparable]. rewrite (forallb_shiftd _ _ _ H1), (IH H2). reflexivity.
Qed.

Lemma sum_split : forall k ks P, (forall p, In p P -> p <> []) ->
  fold_right (fun p n => cntK (k :: ks) p + n) 0 P =
  fold_right (fun r n => kcnt k r + n) 0 (heads0 P) + fold_right (fun p n => cntK ks p + n) 0 (shiftd P).
Proof.
  intros k ks. induction P as [|p P IH]; intros Hne; [reflexivity|].
  rewrite heads0_cons, shiftd_cons. cbn [fold_right].
  rewrite !fold_right_app. rewrite IH by (intros q Hq; apply Hne; right; assumption).
  destruct p as [|[|j] r0].
  - exfalso. apply (Hne []); [left; reflexivity | reflexivity].
  - cbn. apply Nat.add_assoc.
  - cbn. apply Nat.add_shuffle3.
Qed.

Definition carve (t : value) : Prop :=
  forall P, pairwise_incomparable P = true -> sumcnt t P <= count t.
Definition carve_kid (k : option value) : Prop :=
  match k with Some c => carve c | None => True end.

Lemma nil_in_pw : forall P, pairwise_incomparable P = true -> In [] P -> P = [[]].
Proof.
  intros P Hpw Hin. destruct P as [|p R]; [contradiction|].
  cbn [pairwise_incomparable] in Hpw. apply andb_prop in Hpw. destruct Hpw as [H1 H2].
  destruct p as [|i r].
  - destruct R as [|q R']; [reflexivity|]. cbn in H1. discriminate.
  - exfalso. destruct Hin as [Hin|Hin]; [discriminate|].
    rewrite forallb_forall in H1. specialize (H1 [] Hin).
    unfold comparable in H1. cbn in H1. discriminate.
Qed.

Lemma kids_sum_le : forall ks, Forall carve_kid ks ->
  forall P, pairwise_incomparable P = true -> (forall p, In p P -> p <> []) ->
  fold_right (fun p n => cntK ks p + n) 0 P <= wsum ks.
Proof.
  induction 1 as [|k ks Hk _ IH]; intros P Hpw Hne.
  - clear Hpw Hne. assert (E : fold_right (fun p n => cntK [] p + n) 0 P = 0).
    { induction P as [|p P IHP]; [reflexivity|]. cbn [fold_right]. rewrite IHP.
      destruct p as [|[|j] r]; reflexivity. }
    rewrite E. cbn. lia.
  - rewrite sum_split by assumption. cbn [wsum fold_right]. fold (wsum ks).
    apply Nat.add_le_mono.
    + destruct k as [c|]; cbn [kcnt carve_kid] in *.
      * apply (Hk (heads0 P)). apply pw_heads0. assumption.
      * generalize (heads0 P). intros R. induction R as [|r R IHR]; cbn [fold_right kcnt]; [lia | cbn; exact IHR].
    + apply IH; [apply pw_shiftd; assumption|].
      intros p Hp. unfold shiftd in Hp. apply in_flat_map in Hp. destruct Hp as [q [_ Hq]].
      destruct q as [|[|j] r]; cbn in Hq; try contradiction.
      destruct Hq as [<-|[]]. discriminate.
Qed.

Lemma count_kids : forall t, S (wsum (kids t)) <= count t.
Proof.
  intros t. destruct t as [a|xs|xs|kvs|xs|xs]; cbn [kids count wsum fold_right]; try lia.
  - apply le_n_S. induction xs as [|x r IH]; cbn; lia.
  - apply le_n_S. induction xs as [|x r IH]; cbn; lia.
  - apply le_n_S. induction kvs as [|[k v] r IH]; cbn [map fold_right fst snd]; [lia|].
    destruct (private_key k); lia.
  - apply le_n_S. induction xs as [|x r IH]; cbn; lia.
  - apply le_n_S. induction xs as [|x r IH]; cbn; lia.
Qed.

Lemma carve_step : forall t, Forall carve_kid (kids t) -> carve t.
Proof.
  intros t Hk P Hpw.
  destruct (in_dec (list_eq_dec Nat.eq_dec) [] P) as [Hin|Hnin].
  - rewrite (nil_in_pw P Hpw Hin). unfold sumcnt, cnt. cbn. lia.
  - assert (Hne : forall p, In p P -> p <> []) by (intros p Hp ->; contradiction).
    assert (E : sumcnt t P = fold_right (fun p n => cntK (kids t) p + n) 0 P).
    { clear Hpw Hnin. unfold sumcnt. induction P as [|p P IHP]; [reflexivity|].
      cbn [fold_right]. rewrite IHP by (intros q Hq; apply Hne; right; assumption).
      destruct p as [|i r]; [exfalso; apply (Hne []); [left; reflexivity | reflexivity]|].
      rewrite cnt_cons. reflexivity. }
    rewrite E. pose proof (kids_sum_le (kids t) Hk P Hpw Hne). pose proof (count_kids t). lia.
Qed.

Theorem carve_all : forall t, carve t.
Proof.
  assert (HA : forall a, carve (VAtom a)) by (intros a; apply carve_step; constructor).
  apply value_ind2.
  - exact HA.
  - intros xs H. apply carve_step. cbn [kids]. induction H; constructor; assumption.
  - intros xs H. apply carve_step. cbn [kids]. induction H; constructor; assumption.
  - intros kvs H. apply carve_step. cbn [kids]. induction H as [|[k v] r Hkv _ IH]; constructor; [|assumption].
    cbn [fst snd]. destruct (private_key k); [exact I | exact Hkv].
  - intros xs. apply carve_step. cbn [kids]. induction xs; constructor; [apply HA | assumption].
  - intros xs. apply carve_step. cbn [kids]. induction xs; constructor; [apply HA | assumption].
Qed.

(* ---------- P3: the operations of a valid structured delta ---------- *)
Lemma is_prefix_app : forall p k, is_prefix p k = true -> exists r, k = (p ++ r)%list.
Proof.
  induction p as [|c p IH]; intros k H.
  - exists k. reflexivity.
  - destruct k as [|d k]; [discriminate|]. cbn [is_prefix] in H.
    apply andb_prop in H. destruct H as [H1 H2]. apply N.eqb_eq in H1. subst d.
    destruct (IH k H2) as [r ->]. exists r. reflexivity.
Qed.

Lemma path_key_facts : forall k, path_key_ok k = true ->
  is_dedupe_key (KStr k) = false /\ key_skip (KStr k) = false.
Proof.
  intros k H. unfold path_key_ok in H. apply is_prefix_app in H. destruct H as [r ->].
  split; reflexivity.
Qed.

Lemma cat_key_facts : forall k, cat_key_ok k = true ->
  is_dedupe_key (KStr k) = false /\ key_skip (KStr k) = false.
Proof.
  intros k H. unfold cat_key_ok in H. apply andb_prop in H. destruct H as [H1 H2].
  apply negb_true_iff in H1. split; [assumption|].
  apply negb_true_iff in H2. assumption.
Qed.

Lemma map_len_plain : forall f k i d r,
  is_dedupe_key k = false -> key_skip k = false ->
  map_len f ((k, i, d) :: r) = ladd (f d) (map_len f r).
Proof. intros f k i d r H1 H2. cbn [map_len]. rewrite H1, H2. reflexivity. Qed.

Lemma map_len_skip : forall f k i d r,
  is_dedupe_key k = false -> key_skip k = true ->
  map_len f ((k, i, d) :: r) = ladd (LOk 0) (map_len f r).
Proof. intros f k i d r H1 H2. cbn [map_len]. rewrite H1, H2. reflexivity. Qed.

Lemma len_dvat : forall t p, lle (item_length (dvat t p)) (cnt t p).
Proof.
  intros t p. unfold dvat, cnt. destruct (resolve t p) as [v|].
  - intros n H. apply item_length_le_count. assumption.
  - cbn. apply lle_ok. lia.
Qed.

Definition ebudget (t1 t2 : value) (e : sentry) : nat :=
  sumcnt t1 (entry_pos false e) + sumcnt t2 (entry_pos true e).

Ltac ladd_inv :=
  repeat match goal with
         | H : ladd _ _ = LOk _ |- _ =>
             apply ladd_ok in H; let x := fresh "x" in let y := fresh "y" in
             destruct H as [x [y [? [? ?]]]]
         | H : LOk _ = LOk _ |- _ => injection H as H
         end.

Lemma seq_len_members : forall t p ms,
  lle (seq_len item_length (map (fun j => dvat t (p ++ [j])) ms)) (sumcnt t (map (fun j => p ++ [j]) ms)).
Proof.
  intros t p ms. induction ms as [|j ms IH]; cbn [map seq_len sumcnt fold_right].
  - apply lle_ok; lia.
  - apply lle_ladd; [apply len_dvat | apply IH].
Qed.

Lemma entry_bound : forall t1 t2 e, tc_entry_ok t1 t2 e = true ->
  lle (item_length (snd (dv_of_entry t1 t2 e))) (ebudget t1 t2 e).
Proof.
  intros t1 t2 e G. destruct e as [key p1 p2 wnp wv|key p1 p2 wnp|s2 key p|s2 key p ms];
    unfold ebudget; cbn [dv_of_entry snd entry_pos sumcnt fold_right].
  - (* type change *)
    cbn [tc_entry_ok] in G. unfold len_at in G.
    pose proof (len_dvat t2 p2) as L.
    intros n H. cbn [item_length app] in H.
    rewrite (map_len_plain _ (KStr k_old_type)) in H by reflexivity.
    rewrite (map_len_plain _ (KStr k_new_type)) in H by reflexivity.
    destruct wnp, wv; cbn [app] in H;
      repeat first [ rewrite (map_len_skip _ (KStr k_new_path)) in H by reflexivity
                   | rewrite (map_len_plain _ (KStr k_new_value)) in H by reflexivity ];
      cbn [map_len item_length] in H; ladd_inv; subst;
      try (destruct (item_length (dvat t2 p2)) as [l|] eqn:E; [|discriminate];
           match goal with H : LOk _ = LOk _ |- _ => injection H as <- end);
      apply Nat.leb_le in G; lia.
  - (* value change *)
    pose proof (len_dvat t2 p2) as L.
    intros n H. cbn [item_length] in H.
    rewrite (map_len_plain _ (KStr k_new_value)) in H by reflexivity.
    destruct wnp;
      repeat rewrite (map_len_skip _ (KStr k_new_path)) in H by reflexivity;
      cbn [map_len] in H; ladd_inv; subst;
      match goal with H : item_length _ = LOk ?x |- _ => specialize (L x H) end; lia.
  - pose proof (len_dvat (side t1 t2 s2) p) as L. destruct s2; cbn [Bool.eqb side sumcnt fold_right] in *;
      (eapply lle_weaken; [exact L | lia]).
  - pose proof (seq_len_members (side t1 t2 s2) p ms) as L. cbn [item_length].
    destruct s2; cbn [Bool.eqb side] in *; (eapply lle_weaken; [exact L |]).
    + unfold sumcnt. cbn [fold_right]. lia.
    + unfold sumcnt. cbn [fold_right]. lia.
Qed.

Lemma entry_key_fst : forall t1 t2 e, fst (fst (dv_of_entry t1 t2 e)) = KStr (entry_key e).
Proof. intros t1 t2 e. destruct e; reflexivity. Qed.

Lemma entries_bound : forall t1 t2 es,
  forallb (fun e => path_key_ok (entry_key e)) es = true ->
  forallb (tc_entry_ok t1 t2) es = true ->
  lle (map_len item_length (map (dv_of_entry t1 t2) es))
      (sumcnt t1 (flat_map (entry_pos false) es) + sumcnt t2 (flat_map (entry_pos true) es)).
Proof.
  intros t1 t2 es. induction es as [|e es IH]; intros K G.
  - cbn. apply lle_ok. lia.
  - cbn [forallb] in K, G. apply andb_prop in K. destruct K as [K1 K2].
    apply andb_prop in G. destruct G as [G1 G2].
    cbn [map flat_map]. rewrite !sumcnt_app.
    destruct (dv_of_entry t1 t2 e) as [[k i] d] eqn:E.
    pose proof (entry_key_fst t1 t2 e) as Ek. rewrite E in Ek. cbn in Ek. subst k.
    destruct (path_key_facts _ K1) as [D S].
    rewrite map_len_plain by assumption.
    pose proof (entry_bound t1 t2 e G1) as B. rewrite E in B. cbn [snd] in B. unfold ebudget in B.
    eapply lle_weaken; [apply lle_ladd; [exact B | exact (IH K2 G2)] | lia].
Qed.

Lemma idx_len_bound : forall t p items seen,
  lle (idx_len item_length seen (map (fun ii : nat * nat => (KOther, snd ii, dvat t (p ++ [fst ii]))) items))
      (sumcnt t (map (fun ii : nat * nat => p ++ [fst ii]) items)).
Proof.
  intros t p items. induction items as [|[i id] items IH]; intros seen; cbn [map idx_len fst snd].
  - apply lle_ok. cbn. lia.
  - unfold sumcnt. cbn [fold_right]. fold (sumcnt t (map (fun ii : nat * nat => p ++ [fst ii]) items)).
    destruct (existsb (Nat.eqb id) seen).
    + eapply lle_weaken; [apply IH | lia].
    + apply lle_ladd; [|apply IH]. unfold entry_len. cbn. apply len_dvat.
Qed.

Definition idx_entry_pos (e : pystr * ipath * list (nat * nat)) : list ipath :=
  let '(_, p, items) := e in map (fun ii : nat * nat => p ++ [fst ii]) items.
Definition idx_entry_dv (t : value) (e : pystr * ipath * list (nat * nat)) : dkey * nat * dv :=
  let '(key, p, items) := e in
  (KStr key, O, DMap (map (fun ii : nat * nat => (KOther, snd ii, dvat t (p ++ [fst ii]))) items)).

Lemma idx_paths_bound : forall t es,
  forallb (fun e : pystr * ipath * list (nat * nat) => path_key_ok (fst (fst e))) es = true ->
  lle (paths_len item_length (map (idx_entry_dv t) es)) (sumcnt t (flat_map idx_entry_pos es)).
Proof.
  intros t es. induction es as [|[[key p] items] es IH]; intros K.
  - cbn. apply lle_ok. lia.
  - cbn [forallb fst] in K. apply andb_prop in K. destruct K as [K1 K2].
    cbn [map flat_map idx_entry_dv idx_entry_pos paths_len]. rewrite sumcnt_app.
    destruct (path_key_facts _ K1) as [-> ->].
    apply lle_ladd; [|apply IH; assumption].
    cbn [inner_len]. apply idx_len_bound.
Qed.

Lemma idx_all_maps : forall t es, forallb (fun e => is_map (snd e)) (map (idx_entry_dv t) es) = true.
Proof. intros t es. induction es as [|[[key p] items] es IH]; [reflexivity|]. cbn. exact IH. Qed.

Definition bbudget (t1 t2 : value) (b : sblock) : nat :=
  sumcnt t1 (block_pos false b) + sumcnt t2 (block_pos true b).

Lemma dv_of_block_idx : forall t1 t2 s2 es,
  dv_of_block t1 t2 (BIdx s2 es) =
  (KStr (if s2 then k_added_at else k_removed_at), O, DMap (map (idx_entry_dv (side t1 t2 s2)) es)).
Proof. reflexivity. Qed.
Lemma block_pos_idx : forall w s2 es,
  block_pos w (BIdx s2 es) = if Bool.eqb s2 w then flat_map idx_entry_pos es else [].
Proof. reflexivity. Qed.

Lemma block_bound : forall t1 t2 b r,
  block_keys_ok b = true ->
  match b with BPlain _ es => forallb (tc_entry_ok t1 t2) es | _ => true end = true ->
  forall x, lle (map_len item_length r) x ->
  lle (map_len item_length (dv_of_block t1 t2 b :: r)) (bbudget t1 t2 b + x).
Proof.
  intros t1 t2 b r K G x Hr. destruct b as [cat es|s2 es|cat d]; unfold bbudget.
  - cbn [dv_of_block block_pos]. cbn [block_keys_ok] in K. apply andb_prop in K. destruct K as [K1 K2].
    destruct (cat_key_facts _ K1) as [D S]. rewrite map_len_plain by assumption.
    apply lle_ladd; [|exact Hr]. cbn [item_length]. apply entries_bound; assumption.
  - cbn [block_keys_ok] in K. rewrite dv_of_block_idx, !block_pos_idx.
    assert (Hd : is_dedupe_key (KStr (if s2 then k_added_at else k_removed_at)) = true) by (destruct s2; reflexivity).
    cbn [map_len]. rewrite Hd. apply lle_ladd; [|exact Hr].
    unfold dedupe_len. rewrite idx_all_maps.
    destruct s2; cbn [Bool.eqb side].
    + change (sumcnt t1 []) with 0. cbn [Nat.add]. apply idx_paths_bound. assumption.
    + change (sumcnt t2 []) with 0. rewrite Nat.add_0_r. apply idx_paths_bound. assumption.
  - cbn [dv_of_block block_pos]. cbn [block_keys_ok] in K. apply andb_prop in K. destruct K as [K1 K2].
    apply negb_true_iff in K1.
    rename K2 into S.
    rewrite map_len_skip by assumption. change (sumcnt t1 [] + sumcnt t2 []) with 0.
    apply lle_ladd; [apply lle_ok; lia | exact Hr].
Qed.

Definition block_guard (t1 t2 : value) (b : sblock) : bool :=
  match b with BPlain _ es => forallb (tc_entry_ok t1 t2) es | _ => true end.

Lemma delta_ops_bound : forall t1 t2 sd,
  forallb block_keys_ok sd = true -> forallb (block_guard t1 t2) sd = true ->
  lle (item_length (dv_of_sdelta t1 t2 sd)) (sumcnt t1 (positions false sd) + sumcnt t2 (positions true sd)).
Proof.
  intros t1 t2 sd. unfold dv_of_sdelta, positions. cbn [item_length].
  induction sd as [|b sd IH]; intros K G.
  - cbn. apply lle_ok. lia.
  - cbn [forallb] in K, G. apply andb_prop in K. destruct K as [K1 K2].
    apply andb_prop in G. destruct G as [G1 G2].
    cbn [map flat_map]. rewrite !sumcnt_app.
    eapply lle_weaken; [apply (block_bound t1 t2 b _ K1 G1 _ (IH K2 G2)) | unfold bbudget; lia].
Qed.

(* the operation count of a valid delta is at most the two item lengths *)
Theorem delta_length_bound : forall t1 t2 sd n,
  sd_valid sd = true -> tc_guard t1 t2 sd = true ->
  item_length (dv_of_sdelta t1 t2 sd) = LOk n -> n <= count t1 + count t2.
Proof.
  intros t1 t2 sd n V G H. unfold sd_valid in V.
  apply andb_prop in V. destruct V as [V V2]. apply andb_prop in V. destruct V as [K V1].
  pose proof (delta_ops_bound t1 t2 sd K G n H) as B.
  pose proof (carve_all t1 _ V1). pose proof (carve_all t2 _ V2). lia.
Qed.

(* ---------- rough distance ---------- *)
Lemma count_pos : forall v, 1 <= count v.
Proof. intros v. destruct v; cbn; lia. Qed.
Lemma root_count_pos : forall r, 1 <= root_count r.
Proof. intros [v|s]; cbn; [apply count_pos | lia]. Qed.

(* a fraction is only produced with a positive numerator and a divisor >= 2:
   the quotient is a positive rational *)
Theorem rough_frac_positive : forall r1 r2 cutoff delta n m,
  rough_distance r1 r2 cutoff delta = RFrac n m -> 0 < n /\ 2 <= m.
Proof.
  intros r1 r2 cutoff delta n m. unfold rough_distance.
  destruct (root_numeric r1 r2 cutoff); [discriminate|].
  destruct (item_length delta) as [[|k]|e]; try discriminate.
  intros [= <- <-]. pose proof (root_count_pos r1). pose proof (root_count_pos r2). lia.
Qed.

(* 0 exactly when there are no operations (outside the numeric short cut) *)
Theorem rough_zero_iff_no_ops : forall r1 r2 cutoff delta,
  root_numeric r1 r2 cutoff = None ->
  (rough_distance r1 r2 cutoff delta = RInt0 <-> item_length delta = LOk 0).
Proof.
  intros r1 r2 cutoff delta Hn. unfold rough_distance. rewrite Hn.
  destruct (item_length delta) as [[|k]|e]; split; intros H; try discriminate; reflexivity.
Qed.

(* the numeric short cut at the root: a number distance with max_ = cutoff *)
Theorem rough_numeric_range : forall r1 r2 cutoff d v,
  (0 <=? cutoff)%float = true ->
  root_numeric r1 r2 cutoff = Some d -> dres_value d = Some v -> in_range cutoff v.
Proof.
  intros r1 r2 cutoff d v Hc. unfold root_numeric.
  destruct (root_scalar r1) as [s1|]; [|discriminate].
  destruct (root_scalar r2) as [s2|]; [|discriminate].
  unfold numeric_types_distance.
  destruct s1, s2; cbn [date_ordinal]; intros [= <-] Hv;
    eapply numbers_range; eassumption.
Qed.

Definition rough_range_statement : Prop :=
  forall t1 t2 sd cutoff n m, sd_valid sd = true ->
  rough_distance (RVal t1) (RVal t2) cutoff (dv_of_sdelta t1 t2 sd) = RFrac n m -> n <= m.

Local Open Scope string_scope.
(* K13: DeepDiff(1, '', get_deep_distance=True) -> 3 / 2 *)
Definition k13_t1 := VAtom (AInt 1).
Definition k13_t2 := VAtom (AStr []).
Definition k13_sd : sdelta := [BPlain (s2p "type_changes") [ETc (s2p "root") [] [] false true]].
Theorem rough_range_refuted_root :
  sd_valid k13_sd = true /\
  rough_distance (RVal k13_t1) (RVal k13_t2) (0x1.3333333333333p-2)%float (dv_of_sdelta k13_t1 k13_t2 k13_sd) = RFrac 3 2.
Proof. split; vm_compute; reflexivity. Qed.

(* not only at the root: DeepDiff([None]*3, ['']*3, get_deep_distance=True) -> 9 / 8 *)
Definition k13n_t1 := VList [VAtom ANone; VAtom ANone; VAtom ANone].
Definition k13n_t2 := VList [VAtom (AStr []); VAtom (AStr []); VAtom (AStr [])].
Definition k13n_sd : sdelta :=
  [BPlain (s2p "type_changes") [ETc (s2p "root[0]") [0] [0] false true; ETc (s2p "root[1]") [1] [1] false true;
                                ETc (s2p "root[2]") [2] [2] false true]].
Theorem rough_range_refuted_nested :
  sd_valid k13n_sd = true /\
  rough_distance (RVal k13n_t1) (RVal k13n_t2) (0x1.3333333333333p-2)%float (dv_of_sdelta k13n_t1 k13n_t2 k13n_sd) = RFrac 9 8.
Proof. split; vm_compute; reflexivity. Qed.

Theorem rough_range_refuted : ~ rough_range_statement.
Proof.
  intro H. destruct rough_range_refuted_root as [V E].
  specialize (H _ _ _ _ _ _ V E). lia.
Qed.

(* under the guard: every type change pays for its 2 + len(new_value) operations *)
Theorem rough_range_partial : forall t1 t2 sd cutoff n m,
  sd_valid sd = true -> tc_guard t1 t2 sd = true ->
  rough_distance (RVal t1) (RVal t2) cutoff (dv_of_sdelta t1 t2 sd) = RFrac n m ->
  0 < n /\ n <= m.
Proof.
  intros t1 t2 sd cutoff n m V G H. split; [eapply rough_frac_positive; eassumption|].
  unfold rough_distance in H.
  destruct (root_numeric (RVal t1) (RVal t2) cutoff); [discriminate|].
  destruct (item_length (dv_of_sdelta t1 t2 sd)) as [[|k]|e] eqn:E; try discriminate.
  injection H as <- <-. cbn [root_count]. eapply delta_length_bound; eassumption.
Qed.

(* the guard is satisfiable by a non-trivial delta with a type change:
   DeepDiff([1, 2], (1, 3), get_deep_distance=True) -> 4 / 6 *)
Example rough_range_guard_satisfiable :
  let t1 := VList [VAtom (AInt 1); VAtom (AInt 2)] in
  let t2 := VTuple [VAtom (AInt 1); VAtom (AInt 3)] in
  let sd := [BPlain (s2p "type_changes") [ETc (s2p "root") [] [] false true]] in
  sd_valid sd = true /\ tc_guard t1 t2 sd = true /\
  rough_distance (RVal t1) (RVal t2) (0x1.3333333333333p-2)%float (dv_of_sdelta t1 t2 sd) = RFrac 4 6.
Proof. repeat split; vm_compute; reflexivity. Qed.

(* a non-empty diff whose distance is 0: DeepDiff([1], [1, None]) reports an added item, 0 operations *)
Definition k18_t1 := VList [VAtom (AInt 1)].
Definition k18_t2 := VList [VAtom (AInt 1); VAtom ANone].
Definition k18_sd : sdelta := [BPlain (s2p "iterable_item_added") [EAt true (s2p "root[1]") [1]]].
Theorem rough_positive_refuted :
  sd_valid k18_sd = true /\ k18_sd <> [] /\
  rough_distance (RVal k18_t1) (RVal k18_t2) (0x1.3333333333333p-2)%float (dv_of_sdelta k18_t1 k18_t2 k18_sd) = RInt0.
Proof. repeat split; try (vm_compute; reflexivity). discriminate. Qed.
Local Close Scope string_scope.

(* ---------- [0, 1] for the numeric short cut; positivity ---------- *)
Lemma SFleb_trans : forall x y z, SFleb x y = true -> SFleb y z = true -> SFleb x z = true.
Proof.
  intros x y z. unfold SFleb.
  destruct x as [sx|sx| |sx mx ex]; destruct y as [sy|sy| |sy my ey]; destruct z as [sz|sz| |sz mz ez];
    cbn; try discriminate; try reflexivity;
    repeat match goal with s : bool |- _ => destruct s end; cbn; try discriminate; try reflexivity.
  all: change (Pos.compare_cont Eq ?a ?b) with (Pos.compare a b).
  all: destruct (Z.compare_spec ex ey); destruct (Z.compare_spec ey ez); destruct (Z.compare_spec ex ez);
       try lia; try discriminate; try reflexivity; subst;
       destruct (Pos.compare_spec mx my); destruct (Pos.compare_spec my mz); destruct (Pos.compare_spec mx mz);
       cbn; try lia; try discriminate; try reflexivity.
Qed.

Lemma leb_trans : forall a b c, (a <=? b)%float = true -> (b <=? c)%float = true -> (a <=? c)%float = true.
Proof. intros a b c. rewrite !leb_spec. apply SFleb_trans. Qed.

(* the numeric short cut lies in [0, 1] when 0 <= cutoff <= 1 (the constructor's check) *)
Theorem rough_numeric_unit : forall r1 r2 cutoff d v,
  (0 <=? cutoff)%float = true -> (cutoff <=? 1)%float = true ->
  root_numeric r1 r2 cutoff = Some d -> dres_value d = Some v -> in_range 1 v.
Proof.
  intros r1 r2 cutoff d v H0 H1 Hd Hv.
  destruct (rough_numeric_range r1 r2 cutoff d v H0 Hd Hv) as [A B].
  split; [assumption | eapply leb_trans; eassumption].
Qed.

(* ---------- positivity: the total is at least every entry's own operations ---------- *)
Lemma map_len_in : forall f k i d kvs n,
  In (k, i, d) kvs -> is_dedupe_key k = false -> key_skip k = false ->
  map_len f kvs = LOk n -> exists a, f d = LOk a /\ a <= n.
Proof.
  intros f k i d kvs. induction kvs as [|[[k' i'] d'] r IH]; intros n Hin Hd Hs H; [contradiction|].
  cbn [map_len] in H. apply ladd_ok in H. destruct H as [x [y [Hx [Hy ->]]]].
  destruct Hin as [E|Hin].
  - injection E as -> -> ->. rewrite Hd, Hs in Hx. exists x. split; [assumption | lia].
  - destruct (IH y Hin Hd Hs Hy) as [a [Ha Hle]]. exists a. split; [assumption | lia].
Qed.

Definition entry_ops (t1 t2 : value) (e : sentry) : lres := item_length (snd (dv_of_entry t1 t2 e)).

Theorem ops_ge_entry : forall t1 t2 sd cat es e n,
  forallb block_keys_ok sd = true ->
  In (BPlain cat es) sd -> In e es ->
  item_length (dv_of_sdelta t1 t2 sd) = LOk n ->
  exists a, entry_ops t1 t2 e = LOk a /\ a <= n.
Proof.
  intros t1 t2 sd cat es e n K Hb He H.
  rewrite forallb_forall in K. specialize (K _ Hb). cbn [block_keys_ok] in K.
  apply andb_prop in K. destruct K as [K1 K2].
  destruct (cat_key_facts _ K1) as [D S].
  unfold dv_of_sdelta in H. cbn [item_length] in H.
  assert (Hin : In (KStr cat, O, DMap (map (dv_of_entry t1 t2) es)) (map (dv_of_block t1 t2) sd)).
  { apply in_map_iff. exists (BPlain cat es). split; [reflexivity | assumption]. }
  destruct (map_len_in _ _ _ _ _ _ Hin D S H) as [a [Ha Hle]].
  cbn [item_length] in Ha.
  rewrite forallb_forall in K2. specialize (K2 _ He).
  destruct (path_key_facts _ K2) as [D2 S2].
  assert (Hin2 : In (KStr (entry_key e), O, snd (dv_of_entry t1 t2 e)) (map (dv_of_entry t1 t2) es)).
  { apply in_map_iff. exists e. split; [|assumption]. destruct e; reflexivity. }
  destruct (map_len_in _ _ _ _ _ _ Hin2 D2 S2 Ha) as [b [Hb' Hle2]].
  exists b. split; [exact Hb' | lia].
Qed.

(* a type change always costs at least the two classes *)
Lemma tc_ops_ge_2 : forall t1 t2 key p1 p2 wnp wv a,
  entry_ops t1 t2 (ETc key p1 p2 wnp wv) = LOk a -> 2 <= a.
Proof.
  intros t1 t2 key p1 p2 wnp wv a H. unfold entry_ops in H. cbn [dv_of_entry snd item_length app] in H.
  rewrite (map_len_plain _ (KStr k_old_type)) in H by reflexivity.
  rewrite (map_len_plain _ (KStr k_new_type)) in H by reflexivity.
  cbn [item_length] in H. ladd_inv. subst. lia.
Qed.

(* values that contain something _get_item_length counts *)
Definition plain_key (k : atom) : bool :=
  negb (is_dedupe_key (dkey_of_atom k)) && negb (key_skip (dkey_of_atom k)).
Definition atom_counts (a : atom) : bool := match a with ANone => false | _ => true end.
Fixpoint has_leaf (v : value) : bool :=
  match v with
  | VAtom a => atom_counts a
  | VList xs | VTuple xs => existsb has_leaf xs
  | VDict kvs => existsb (fun kv => plain_key (fst kv) && has_leaf (snd kv)) kvs
  | VSet xs | VFrozen xs => existsb atom_counts xs
  end.

Definition leafy (v : value) : Prop :=
  has_leaf v = true -> forall n, item_length (dv_of_value v) = LOk n -> 0 < n.

Lemma seq_len_pos : forall (A : Type) (g : A -> dv) (h : A -> bool) xs,
  Forall (fun x => h x = true -> forall n, item_length (g x) = LOk n -> 0 < n) xs ->
  existsb h xs = true -> forall n, seq_len item_length (map g xs) = LOk n -> 0 < n.
Proof.
  intros A g h xs H. induction H as [|x r Hx _ IH]; intros E n Hn; [discriminate|].
  cbn [existsb] in E. cbn [map seq_len] in Hn. apply ladd_ok in Hn. destruct Hn as [a [b [Ha [Hb ->]]]].
  apply orb_prop in E. destruct E as [E|E].
  - specialize (Hx E a Ha). lia.
  - specialize (IH E b Hb). lia.
Qed.

Lemma leafy_all : forall v, leafy v.
Proof.
  apply value_ind2; unfold leafy.
  - intros a H n Hn. destruct a; cbn in *; try discriminate; injection Hn as <-; lia.
  - intros xs H E n Hn. cbn [has_leaf] in E. cbn [dv_of_value item_length] in Hn.
    eapply (seq_len_pos _ dv_of_value has_leaf); eassumption.
  - intros xs H E n Hn. cbn [has_leaf] in E. cbn [dv_of_value item_length] in Hn.
    eapply (seq_len_pos _ dv_of_value has_leaf); eassumption.
  - intros kvs H E n Hn. cbn [has_leaf] in E. cbn [dv_of_value item_length] in Hn.
    revert n Hn. induction H as [|[k v] r Hkv _ IH]; intros n Hn; [discriminate|].
    cbn [existsb fst snd] in E. cbn [map map_len fst snd] in Hn.
    apply ladd_ok in Hn. destruct Hn as [a [b [Ha [Hb ->]]]].
    apply orb_prop in E. destruct E as [E|E].
    + apply andb_prop in E. destruct E as [E1 E2]. unfold plain_key in E1.
      apply andb_prop in E1. destruct E1 as [D S]. apply negb_true_iff in D. rewrite D in Ha.
      apply negb_true_iff in S. rewrite S in Ha.
      cbn [snd] in Hkv. specialize (Hkv E2 a Ha). lia.
    + specialize (IH E b Hb). lia.
  - intros xs E n Hn. cbn [has_leaf] in E. cbn [dv_of_value item_length] in Hn.
    eapply (seq_len_pos _ dv_of_atom atom_counts); [|eassumption|eassumption].
    clear. induction xs as [|a r IH]; constructor; [|assumption].
    intros H n Hn. destruct a; cbn in *; try discriminate; injection Hn as <-; lia.
  - intros xs E n Hn. cbn [has_leaf] in E. cbn [dv_of_value item_length] in Hn.
    eapply (seq_len_pos _ dv_of_atom atom_counts); [|eassumption|eassumption].
    clear. induction xs as [|a r IH]; constructor; [|assumption].
    intros H n Hn. destruct a; cbn in *; try discriminate; injection Hn as <-; lia.
Qed.

Definition leaf_at (t : value) (p : ipath) : bool :=
  match resolve t p with Some v => has_leaf v | None => false end.

(* an entry that certainly costs something *)
Definition entry_counted (t1 t2 : value) (e : sentry) : bool :=
  match e with
  | ETc _ _ _ _ _ => true
  | EVc _ _ p2 _ => leaf_at t2 p2
  | EAt s2 _ p => leaf_at (side t1 t2 s2) p
  | ESet s2 _ p ms => existsb (fun j => leaf_at (side t1 t2 s2) (p ++ [j])) ms
  end.
Definition has_counted_entry (t1 t2 : value) (sd : sdelta) : bool :=
  existsb (fun b => match b with BPlain _ es => existsb (entry_counted t1 t2) es | _ => false end) sd.

Lemma dvat_pos : forall t p n, leaf_at t p = true -> item_length (dvat t p) = LOk n -> 0 < n.
Proof.
  intros t p n. unfold leaf_at, dvat. destruct (resolve t p) as [v|]; [|discriminate].
  intros H Hn. eapply leafy_all; eassumption.
Qed.

Lemma entry_counted_pos : forall t1 t2 e a,
  entry_counted t1 t2 e = true -> entry_ops t1 t2 e = LOk a -> 0 < a.
Proof.
  intros t1 t2 e a C H. destruct e as [key p1 p2 wnp wv|key p1 p2 wnp|s2 key p|s2 key p ms].
  - pose proof (tc_ops_ge_2 _ _ _ _ _ _ _ _ H). lia.
  - unfold entry_ops in H. cbn [dv_of_entry snd item_length] in H.
    rewrite (map_len_plain _ (KStr k_new_value)) in H by reflexivity.
    apply ladd_ok in H. destruct H as [x [y [Hx [_ ->]]]].
    cbn [entry_counted] in C. pose proof (dvat_pos _ _ _ C Hx). lia.
  - unfold entry_ops in H. cbn [dv_of_entry snd] in H. cbn [entry_counted] in C. eapply dvat_pos; eassumption.
  - unfold entry_ops in H. cbn [dv_of_entry snd item_length] in H. cbn [entry_counted] in C.
    revert a H. induction ms as [|j ms IH]; intros a H; [discriminate|].
    cbn [existsb] in C. cbn [map seq_len] in H. apply ladd_ok in H. destruct H as [x [y [Hx [Hy ->]]]].
    apply orb_prop in C. destruct C as [C|C].
    + pose proof (dvat_pos _ _ _ C Hx). lia.
    + specialize (IH C y Hy). lia.
Qed.

(* "positive when the diff is non-empty", under the guard that some entry of a
   plain report kind is a type change or carries a value with a number / string in it *)
Theorem rough_positive_partial : forall t1 t2 sd cutoff,
  forallb block_keys_ok sd = true ->
  has_counted_entry t1 t2 sd = true ->
  rough_distance (RVal t1) (RVal t2) cutoff (dv_of_sdelta t1 t2 sd) <> RInt0.
Proof.
  intros t1 t2 sd cutoff K G. unfold rough_distance.
  destruct (root_numeric (RVal t1) (RVal t2) cutoff); [discriminate|].
  destruct (item_length (dv_of_sdelta t1 t2 sd)) as [[|k]|e] eqn:E; try discriminate.
  exfalso. unfold has_counted_entry in G. apply existsb_exists in G. destruct G as [b [Hb G]].
  destruct b as [cat es| |]; try discriminate.
  apply existsb_exists in G. destruct G as [e [He C]].
  destruct (ops_ge_entry t1 t2 sd cat es e 0 K Hb He E) as [a [Ha Hle]].
  pose proof (entry_counted_pos _ _ _ _ C Ha). lia.
Qed.

Example rough_positive_guard_satisfiable :
  let t1 := VList [VAtom (AInt 1)] in
  let t2 := VList [VAtom (AInt 1); VAtom (AStr [])] in
  let sd := [BPlain (s2p "iterable_item_added") [EAt true (s2p "root[1]") [1]]] in
  forallb block_keys_ok sd = true /\ has_counted_entry t1 t2 sd = true /\
  rough_distance (RVal t1) (RVal t2) (0x1.3333333333333p-2)%float (dv_of_sdelta t1 t2 sd) = RFrac 1 5.
Proof. repeat split; vm_compute; reflexivity. Qed.

(* ---------- 0 only for equal values, under a computable no-overflow / no-underflow guard ---------- *)
Local Open Scope Z_scope.

(* ---------- digits ---------- *)
Lemma digits2_bounds : forall p, 2 ^ (Zpos (digits2_pos p) - 1) <= Zpos p < 2 ^ Zpos (digits2_pos p).
Proof.
  induction p as [p IH|p IH|]; cbn [digits2_pos].
  - rewrite Pos2Z.inj_succ. replace (Z.succ (Zpos (digits2_pos p)) - 1) with (Z.succ (Zpos (digits2_pos p) - 1)) by lia.
    rewrite !Z.pow_succ_r by lia. lia.
  - rewrite Pos2Z.inj_succ. replace (Z.succ (Zpos (digits2_pos p)) - 1) with (Z.succ (Zpos (digits2_pos p) - 1)) by lia.
    rewrite !Z.pow_succ_r by lia. lia.
  - cbn. lia.
Qed.

Lemma digits_ge : forall p k, 0 <= k -> 2 ^ k <= Zpos p -> k + 1 <= Zpos (digits2_pos p).
Proof.
  intros p k Hk H. destruct (digits2_bounds p) as [_ Hu].
  destruct (Z_lt_le_dec (Zpos (digits2_pos p)) (k + 1)) as [Hlt|]; [|assumption].
  exfalso. assert (2 ^ Zpos (digits2_pos p) <= 2 ^ k) by (apply Z.pow_le_mono_r; lia). lia.
Qed.

(* ---------- shifting right ---------- *)
Lemma shr_1_m : forall mrs, 0 <= shr_m mrs -> shr_m (shr_1 mrs) = Z.div2 (shr_m mrs).
Proof.
  intros [m r s] H. cbn in *. destruct m as [|p|p]; [reflexivity| |lia].
  destruct p; reflexivity.
Qed.

Lemma shr_1_nonneg : forall mrs, 0 <= shr_m mrs -> 0 <= shr_m (shr_1 mrs).
Proof. intros mrs H. rewrite shr_1_m by assumption. apply Z.div2_nonneg. assumption. Qed.

Lemma div2_pow : forall m j, 0 <= j -> 2 ^ (1 + j) <= m -> 2 ^ j <= Z.div2 m.
Proof.
  intros m j Hj H. rewrite Z.div2_div. apply Z.div_le_lower_bound; [lia|].
  rewrite Z.pow_add_r in H by lia. rewrite Z.pow_1_r in H. lia.
Qed.

Lemma iter_shr_ge : forall n mrs j, 0 <= j -> 2 ^ (Zpos n + j) <= shr_m mrs ->
  2 ^ j <= shr_m (iter_pos shr_1 n mrs).
Proof.
  induction n as [n IH|n IH|]; intros mrs j Hj H; cbn [iter_pos].
  - assert (Hm : 0 <= shr_m mrs) by (pose proof (Z.pow_pos_nonneg 2 (Zpos n~1 + j)); lia).
    apply IH; [assumption|]. apply IH; [lia|].
    rewrite shr_1_m by assumption. apply div2_pow; [lia|].
    replace (1 + (Zpos n + (Zpos n + j))) with (Zpos n~1 + j) by lia. assumption.
  - apply IH; [assumption|]. apply IH; [lia|].
    replace (Zpos n + (Zpos n + j)) with (Zpos n~0 + j) by lia. assumption.
  - assert (Hm : 0 <= shr_m mrs) by (pose proof (Z.pow_pos_nonneg 2 (1 + j)); lia).
    rewrite shr_1_m by assumption. apply div2_pow; assumption.
Qed.

Lemma shr_record_m : forall m l, shr_m (shr_record_of_loc m l) = m.
Proof. intros m [|[| |]]; reflexivity. Qed.

Lemma round_ge : forall m l, m <= round_nearest_even m l.
Proof. intros m [|[| |]]; cbn; try lia. destruct (Z.even m); lia. Qed.

(* shr_fexp keeps a mantissa m >= 2^j (j >= 1) with digits + e >= emin + 2 above 2^(j') for a j' >= 0 ... the form we need:
   the result is >= 1, and >= 2 when asked for with one more digit of room *)
Lemma shr_fexp_pos : forall p e l room,
  (room = 0 \/ room = 1) ->
  emin + 1 + room <= Zpos (digits2_pos p) + e ->
  1 + room <= Zpos (digits2_pos p) ->
  let '(mrs, e') := shr_fexp prec emax (Zpos p) e l in
  2 ^ room <= shr_m mrs /\ ((e' = e /\ shr_m mrs = Zpos p) \/ emin <= e').
Proof.
  intros p e l room Hroom HD Hd. unfold shr_fexp, shr. cbn [Zdigits2].
  set (d := Zpos (digits2_pos p)) in *.
  destruct (digits2_bounds p) as [Hlo _]. fold d in Hlo.
  destruct (fexp prec emax (d + e) - e) as [|n|n] eqn:En.
  - rewrite shr_record_m. split; [|left; split; reflexivity].
    assert (2 ^ room <= 2 ^ (d - 1)) by (apply Z.pow_le_mono_r; lia). lia.
  - split.
    + apply iter_shr_ge; [lia|]. rewrite shr_record_m.
      assert (Zpos n + room <= d - 1).
      { unfold fexp, FloatOps.prec, FloatOps.emax, SpecFloat.emin in *. lia. }
      assert (2 ^ (Zpos n + room) <= 2 ^ (d - 1)) by (apply Z.pow_le_mono_r; lia). lia.
    + right. unfold fexp, SpecFloat.emin in *. lia.
  - rewrite shr_record_m. split; [|left; split; reflexivity].
    assert (2 ^ room <= 2 ^ (d - 1)) by (apply Z.pow_le_mono_r; lia). lia.
Qed.

Lemma binary_round_aux_nonzero : forall s p e l,
  emin + 2 <= Zpos (digits2_pos p) + e -> 2 <= Zpos (digits2_pos p) ->
  sf_is_zero (binary_round_aux prec emax s (Zpos p) e l) = false.
Proof.
  intros s p e l HD Hd. unfold binary_round_aux.
  pose proof (shr_fexp_pos p e l 1 (or_intror eq_refl)) as H1.
  destruct (shr_fexp prec emax (Zpos p) e l) as [mrs' e'].
  destruct H1 as [Hm He]; [lia | lia |].
  pose proof (round_ge (shr_m mrs') (loc_of_shr_record mrs')) as Hr.
  destruct (round_nearest_even (shr_m mrs') (loc_of_shr_record mrs')) as [|p2|p2] eqn:E2;
    [change (2 ^ 1) with 2 in Hm; lia | | change (2 ^ 1) with 2 in Hm; lia].
  change (2 ^ 1) with 2 in Hm.
  assert (Hd2 : 2 <= Zpos (digits2_pos p2)) by (apply (digits_ge p2 1); [lia | change (2 ^ 1) with 2; lia]).
  assert (HD2 : emin + 1 <= Zpos (digits2_pos p2) + e').
  { destruct He as [[-> Hs]|He]; [|lia].
    destruct (digits2_bounds p) as [Hlo _].
    assert (Zpos (digits2_pos p) - 1 + 1 <= Zpos (digits2_pos p2)) by (apply digits_ge; lia). lia. }
  pose proof (shr_fexp_pos p2 e' loc_Exact 0 (or_introl eq_refl)) as H2.
  destruct (shr_fexp prec emax (Zpos p2) e' loc_Exact) as [mrs'' e''].
  destruct H2 as [Hm2 _]; [lia | lia |].
  change (2 ^ 0) with 1 in Hm2.
  destruct (shr_m mrs'') as [|q|q]; [lia | | reflexivity].
  destruct (Zle_bool e'' (emax - prec)); reflexivity.
Qed.

Lemma div_core_bounds : forall m1 e1 m2 e2 q e' l,
  emin + 2 <= (Zpos (digits2_pos m1) + e1) - (Zpos (digits2_pos m2) + e2) ->
  SFdiv_core_binary prec emax (Zpos m1) e1 (Zpos m2) e2 = (q, e', l) ->
  exists pq, q = Zpos pq /\ emin + 2 <= Zpos (digits2_pos pq) + e' /\ 2 <= Zpos (digits2_pos pq).
Proof.
  intros m1 e1 m2 e2 q e' l HM. unfold SFdiv_core_binary. cbn [Zdigits2].
  set (d1 := Zpos (digits2_pos m1)) in *. set (d2 := Zpos (digits2_pos m2)) in *.
  set (M := d1 + e1 - (d2 + e2)).
  set (ee := Z.min (fexp prec emax M) (e1 - e2)).
  set (s := e1 - e2 - ee).
  assert (Hs : 0 <= s) by (unfold s, ee; lia).
  set (k := M - 1 - ee).
  assert (Hk : 1 <= k).
  { unfold k, ee, fexp, FloatOps.prec, FloatOps.emax, SpecFloat.emin in *. fold M in HM. lia. }
  assert (Hks : d1 - 1 + s = k + d2) by (unfold k, s, M; lia).
  set (m' := match s with Z.pos _ => Z.shiftl (Z.pos m1) s | 0 => Z.pos m1 | Z.neg _ => 0 end).
  assert (Hm' : m' = Zpos m1 * 2 ^ s).
  { unfold m'. destruct s as [|ps|ps] eqn:Es; [cbn; lia | apply Z.shiftl_mul_pow2; lia | lia]. }
  pose proof (Z_div_mod m' (Zpos m2) eq_refl) as Hdm.
  destruct (Z.div_eucl m' (Z.pos m2)) as [q0 r0].
  destruct Hdm as [Heq Hr].
  intros [= <- <- <-].
  destruct (digits2_bounds m1) as [Hlo1 _]. destruct (digits2_bounds m2) as [_ Hhi2]. fold d1 in Hlo1. fold d2 in Hhi2.
  assert (Hpow : 2 ^ k * 2 ^ d2 <= m').
  { rewrite Hm'. rewrite <- Z.pow_add_r by (unfold d2; lia). rewrite <- Hks.
    rewrite Z.pow_add_r by (unfold d1; lia). apply Z.mul_le_mono_nonneg_r; [apply Z.pow_nonneg; lia | assumption]. }
  assert (Hk2 : 0 < 2 ^ k) by (apply Z.pow_pos_nonneg; lia).
  assert (Hq : 2 ^ k <= q0).
  { destruct (Z_lt_le_dec q0 (2 ^ k)) as [Hlt|]; [|assumption]. exfalso.
    assert (Zpos m2 * q0 + r0 < Zpos m2 * 2 ^ k).
    { assert (Zpos m2 * (q0 + 1) <= Zpos m2 * 2 ^ k) by (apply Z.mul_le_mono_nonneg_l; lia). lia. }
    assert (Zpos m2 * 2 ^ k < 2 ^ d2 * 2 ^ k) by (apply Z.mul_lt_mono_pos_r; lia).
    lia. }
  assert (H2k : 2 <= 2 ^ k).
  { change 2 with (2 ^ 1) at 1. apply Z.pow_le_mono_r; lia. }
  destruct q0 as [|pq|pq]; try lia.
  exists pq. split; [reflexivity|].
  assert (k + 1 <= Zpos (digits2_pos pq)) by (apply digits_ge; lia).
  split; [|lia]. unfold k, M in *. fold ee. lia.
Qed.


Lemma SFdiv_nonzero : forall u d,
  sf_is_finite u = true -> sf_is_finite d = true ->
  emin + 2 <= sf_mag u - sf_mag d ->
  sf_is_zero (SFdiv prec emax u d) = false.
Proof.
  intros [| | |su mu eu] [| | |sd md ed]; try discriminate. intros _ _ HM. cbn [sf_mag] in HM.
  unfold SFdiv.
  destruct (SFdiv_core_binary prec emax (Zpos mu) eu (Zpos md) ed) as [[q e'] l] eqn:E.
  destruct (div_core_bounds _ _ _ _ _ _ _ HM E) as [pq [-> [H1 H2]]].
  apply binary_round_aux_nonzero; assumption.
Qed.

(* the guard: the difference is a finite non-zero float, the divisor is finite
   (num1 + num2 and its quotient by max_ did not overflow, and is not 0), and the
   quotient's magnitude is at least 2^(emin+1) (no underflow) *)

Theorem numbers_zero_guarded : forall a b mx x y v,
  pynum_eq a b = false ->
  to_float a = Some x -> to_float b = Some y ->
  zero_guard x y mx = true ->
  numbers_distance a b mx = DVal v -> (v =? 0)%float = false.
Proof.
  intros a b mx x y v Hne Hx Hy G Hv.
  destruct (v =? 0)%float eqn:E; [|reflexivity]. exfalso.
  destruct (numbers_zero_causes a b mx x y v Hne Hx Hy Hv E) as [Hz _]. cbn zeta in Hz.
  unfold zero_guard in G. apply andb_prop in G. destruct G as [G G3]. apply andb_prop in G. destruct G as [G1 G2].
  apply Z.leb_le in G3.
  rewrite div_spec in Hz. unfold SF64div in Hz.
  rewrite (SFdiv_nonzero _ _ G1 G2 G3) in Hz. discriminate.
Qed.

Example zero_guard_satisfiable :
  zero_guard 2 0.5 1 = true /\ zero_guard 0x1.199999999999ap+0 0x1.3333333333333p+0 0x1.3333333333333p-2 = true.
Proof. split; vm_compute; reflexivity. Qed.

Local Close Scope Z_scope.

(** C19 - executable model of deepdiff/distance.py.  Definitions only.

    Part A  [numbers_distance]: [_get_numbers_distance] operation for operation
            in Coq's primitive binary64 floats (bit-exact with CPython's float),
            with Python's exact mixed int/float/Decimal equality, [float()]
            conversions (OverflowError branch), the ZeroDivisionError of
            [/ max_], the numpy variant [_get_numpy_array_distance] used for
            pairing, and the date / datetime / timedelta / time front ends with
            the dispatch order of [TYPES_TO_DIST_FUNC].
    Part B  [rough_distance]: [_get_rough_distance]: the numeric short cut at
            the root, [_get_item_length] over a generic model [dv] of the
            delta-view dict (mappings with key filter and the id()-based
            dedupe of iterable_items_*_at_indexes, numbers, strings, iterables,
            classes), and the item lengths DeepHash reports as counts. *)
From Coq Require Import List ZArith NArith Bool String.
From Coq Require Import PrimFloat Uint63 SpecFloat FloatOps.
Import ListNotations.
From DD Require Import Base.Sx Base.PyStr Base.Value.

(* ===================================================================== *)
(** * Part A: numbers                                                     *)
(* ===================================================================== *)

Inductive pynum :=
| PInt (z : Z)                                (* int (arbitrary precision) *)
| PBool (b : bool)
| PFloat (f : float)
| PDec (neg : bool) (coef : N) (exp : Z).     (* finite Decimal (-1)^neg * coef * 10^exp *)

Inductive perr := EOverflow | EZeroDiv | EAttr | EUnmodelled.

(* what _get_numbers_distance returns: the int 0, a float, or an exception *)
Inductive dres := DInt0 | DVal (f : float) | DErr (e : perr).

(** ** exact values, for Python's == between int, bool, float and Decimal *)
Inductive xval := XFin (num : Z) (den : positive) | XInf (neg : bool) | XNan.

Definition cond_opp (s : bool) (z : Z) : Z := if s then (- z)%Z else z.

Definition x_of_sf (s : spec_float) : xval :=
  match s with
  | S754_zero _ => XFin 0 1
  | S754_infinity sg => XInf sg
  | S754_nan => XNan
  | S754_finite sg m e =>
      match e with
      | Zneg k => XFin (cond_opp sg (Zpos m)) (Pos.pow 2 k)
      | _ => XFin (cond_opp sg (Zpos m) * 2 ^ e)%Z 1
      end
  end.

Definition exact (a : pynum) : xval :=
  match a with
  | PInt z => XFin z 1
  | PBool b => XFin (if b then 1 else 0)%Z 1
  | PFloat f => x_of_sf (Prim2SF f)
  | PDec sg c e =>
      match e with
      | Zneg k => XFin (cond_opp sg (Z.of_N c)) (Pos.pow 10 k)
      | _ => XFin (cond_opp sg (Z.of_N c) * 10 ^ e)%Z 1
      end
  end.

Definition xval_eqb (x y : xval) : bool :=
  match x, y with
  | XFin n1 d1, XFin n2 d2 => Z.eqb (n1 * Zpos d2) (n2 * Zpos d1)
  | XInf s1, XInf s2 => Bool.eqb s1 s2
  | _, _ => false
  end.

(* num1 == num2 *)
Definition pynum_eq (a b : pynum) : bool := xval_eqb (exact a) (exact b).

(** ** float() *)
(* int -> float: round to nearest even; "infinity" = OverflowError *)
Definition sf_of_Z (z : Z) : spec_float := binary_normalize prec emax z 0 false.

(* correctly rounded quotient of two integers (Python's int / int, and the
   decimal -> binary conversion of float(Decimal) for negative exponents) *)
Definition sf_div_Z (a : Z) (b : positive) : spec_float :=
  match a with
  | Z0 => S754_zero false
  | Zpos pa => let '(q, e, l) := SFdiv_core_binary prec emax (Zpos pa) 0 (Zpos b) 0 in
               binary_round_aux prec emax false q e l
  | Zneg pa => let '(q, e, l) := SFdiv_core_binary prec emax (Zpos pa) 0 (Zpos b) 0 in
               binary_round_aux prec emax true q e l
  end.

Definition is_inf_sf (s : spec_float) : bool :=
  match s with S754_infinity _ => true | _ => false end.

(* None = OverflowError("int too large to convert to float") *)
Definition to_float (a : pynum) : option float :=
  match a with
  | PInt z => let s := sf_of_Z z in if is_inf_sf s then None else Some (SF2Prim s)
  | PBool b => Some (if b then one else zero)
  | PFloat f => Some f
  | PDec sg c e =>
      (* float(Decimal) goes through the decimal string: correctly rounded, overflow gives inf, -0 keeps its sign *)
      match c with
      | N0 => Some (if sg then neg_zero else zero)
      | _ =>
        Some (SF2Prim (match e with
                       | Zneg k => sf_div_Z (cond_opp sg (Z.of_N c)) (Pos.pow 10 k)
                       | _ => sf_of_Z (cond_opp sg (Z.of_N c) * 10 ^ e)
                       end))
      end
  end.

Local Open Scope float_scope.

(* Python's min(max_, q): the first argument unless the second is smaller *)
Definition py_min (mx q : float) : float := if q <? mx then q else mx.

Definition numbers_distance (a b : pynum) (mx : float) : dres :=
  if pynum_eq a b then DInt0                         (* if num1 == num2: return 0 *)
  else
    match to_float a with
    | None => DErr EOverflow
    | Some x =>
      match to_float b with
      | None => DErr EOverflow
      | Some y =>
        if mx =? 0 then DErr EZeroDiv                  (* (num1 + num2) / max_ *)
        else
          let divisor := (x + y) / mx in
          if divisor =? 0 then DVal mx                 (* if divisor == 0: return max_ *)
          else DVal (py_min mx (abs ((x - y) / divisor)))
      end
    end.

(** ** the guard of the "0 only for equal values" theorem: the difference is a
    finite non-zero float, the divisor is finite (no overflow) and the quotient
    has magnitude at least 2^(emin+1) (no underflow) *)
Definition sf_is_zero (s : spec_float) : bool := match s with S754_zero _ => true | _ => false end.
Definition sf_is_finite (s : spec_float) : bool := match s with S754_finite _ _ _ => true | _ => false end.
Definition sf_mag (s : spec_float) : Z :=
  match s with S754_finite _ m e => (Zpos (digits2_pos m) + e)%Z | _ => 0%Z end.
Definition zero_guard (x y mx : float) : bool :=
  let u := Prim2SF (x - y) in
  let d := Prim2SF ((x + y) / mx) in
  sf_is_finite u && sf_is_finite d && (emin + 2 <=? sf_mag u - sf_mag d)%Z.

(** ** the numpy variant used when pairing homogeneous number sequences
    (element-wise; float64 arrays; no exceptions, division by zero yields
    inf/nan).  [_numpy_div (num1 - num2) divisor replace_inf_with=max_] then
    [clip (absolute result) 0 max_]. *)
Definition np_clip (x lo hi : float) : float :=
  (* np.clip = minimum(maximum(x, lo), hi); both propagate nan *)
  let m1 := if is_nan x then x else if is_nan lo then lo else if x <? lo then lo else x in
  if is_nan m1 then m1 else if is_nan hi then hi else if hi <? m1 then hi else m1.

Definition numbers_distance_np (x y mx : float) : float :=
  let divisor := (x + y) / mx in
  let a := x - y in
  let r0 := if divisor =? 0 then mx else a / divisor in   (* where=b != 0, out=full(max_) ; nan != 0 *)
  let r := if a =? divisor then 0 else r0 in               (* result[a == b] = 0 *)
  np_clip (abs r) 0 mx.

(** ** dates and times *)
Inductive tsrc :=
| TsAware (us : Z)            (* (self - epoch) as integer microseconds: total_seconds() = us / 10**6 *)
| TsNaive (secs us : Z).      (* local_to_seconds - epoch, microsecond: secs + us / 1e6 *)

Definition million : positive := 1000000.

Definition ts_float (t : tsrc) : float :=
  match t with
  | TsAware us => SF2Prim (sf_div_Z us million)
  | TsNaive secs us => SF2Prim (sf_of_Z secs) + SF2Prim (sf_div_Z us million)
  end.

Inductive scalar :=
| SNum (n : pynum)
| SDateTime (ordinal : Z) (ts : tsrc)         (* a datetime is also a date *)
| SDate (ordinal : Z)
| STimedelta (us : Z)                          (* total microseconds *)
| STime (h m s us : Z).

(* helper.time_to_seconds (since 82f0543): the int (h*60+m)*60+s for a whole-second time, else that int plus
   microsecond / 1000000 (int / int, correctly rounded) added in double arithmetic; tzinfo is ignored *)
Definition time_seconds (h m s us : Z) : pynum :=
  let secs := ((h * 60 + m) * 60 + s)%Z in
  if Z.eqb us 0 then PInt secs
  else PFloat (SF2Prim (sf_of_Z secs) + SF2Prim (sf_div_Z us million))%float.

Definition date_ordinal (s : scalar) : option Z :=
  match s with SDateTime o _ => Some o | SDate o => Some o | _ => None end.

(* get_numeric_types_distance: first entry of TYPES_TO_DIST_FUNC both arguments are instances of *)
Definition numeric_types_distance (s1 s2 : scalar) (mx : float) : option dres :=
  match s1, s2 with
  | SNum a, SNum b => Some (numbers_distance a b mx)
  | SDateTime _ t1, SDateTime _ t2 => Some (numbers_distance (PFloat (ts_float t1)) (PFloat (ts_float t2)) mx)
  | _, _ =>
    match date_ordinal s1, date_ordinal s2 with
    | Some o1, Some o2 => Some (numbers_distance (PInt o1) (PInt o2) mx)
    | _, _ =>
      match s1, s2 with
      | STimedelta u1, STimedelta u2 =>
          Some (numbers_distance (PFloat (SF2Prim (sf_div_Z u1 million))) (PFloat (SF2Prim (sf_div_Z u2 million))) mx)
      | STime h1 m1 c1 u1, STime h2 m2 c2 u2 =>
          Some (numbers_distance (time_seconds h1 m1 c1 u1) (time_seconds h2 m2 c2 u2) mx)
      | _, _ => None
      end
    end
  end.

Local Close Scope float_scope.

(* ===================================================================== *)
(** * Part B: rough distance                                              *)
(* ===================================================================== *)

(** ** what _get_item_length sees *)
Inductive dkey := KStr (s : pystr) | KBytes (s : pystr) | KOther.

Inductive dv :=
| DNone                                  (* None / any object without a length: 0 *)
| DNum                                   (* isinstance(item, numbers): 1 *)
| DStr                                   (* str or bytes: 1 *)
| DType                                  (* a class: 1 *)
| DSeq (xs : list dv)                    (* a non-Mapping Iterable *)
| DMap (kvs : list (dkey * nat * dv)).   (* a Mapping; the nat names the identity (id()) of the value object *)

Inductive lres := LOk (n : nat) | LErr (e : perr).
Definition ladd (a b : lres) : lres :=
  match a with
  | LErr e => LErr e
  | LOk x => match b with LErr e => LErr e | LOk y => LOk (x + y) end
  end.

Local Open Scope string_scope.
Definition k_added_at : pystr := s2p "iterable_items_added_at_indexes".
Definition k_removed_at : pystr := s2p "iterable_items_removed_at_indexes".
Definition k_deep_distance : pystr := s2p "deep_distance".
Definition k_new_path : pystr := s2p "new_path".
Local Close Scope string_scope.

Definition is_dedupe_key (k : dkey) : bool :=
  match k with
  | KStr s => pystr_eqb s k_added_at || pystr_eqb s k_removed_at
  | _ => false
  end.

(* isinstance(key, str) and (key.startswith('_') or key == 'deep_distance' or key == 'new_path');
   since 3adbf05 a bytes key is an ordinary key (before: bytes.startswith(str) raised TypeError) *)
Definition key_skip (k : dkey) : bool :=
  match k with
  | KStr s => match s with c :: _ => N.eqb c 95 | [] => false end
              || pystr_eqb s k_deep_distance || pystr_eqb s k_new_path
  | KBytes _ | KOther => false
  end.

Definition is_map (d : dv) : bool := match d with DMap _ => true | _ => false end.

(* The Mapping branch, parameterised by the recursive call [f].
   [entry_len]: the key filter, then the recursion.
   [idx_len]:   one {index: value} dict after the dedupe by id(v) (first occurrence of every identity is kept).
   [paths_len]: the fresh {path: {index: value}} dict built by the dedupe, processed as a Mapping.
   A dedupe key nested directly inside a dedupe'd dict is outside the model ([EUnmodelled]). *)
Section ItemLength.
  Variable f : dv -> lres.

  Definition entry_len (k : dkey) (v : dv) : lres :=
    if is_dedupe_key k then LErr EUnmodelled else
    if key_skip k then LOk 0 else f v.

  Fixpoint idx_len (seen : list nat) (ents : list (dkey * nat * dv)) : lres :=
    match ents with
    | [] => LOk 0
    | (ik, iid, v) :: er =>
        if existsb (Nat.eqb iid) seen then idx_len seen er
        else ladd (entry_len ik v) (idx_len (iid :: seen) er)
    end.

  Definition inner_len (inner : dv) : lres :=
    match inner with DMap ents => idx_len [] ents | _ => LErr EAttr end.

  Fixpoint paths_len (paths : list (dkey * nat * dv)) : lres :=
    match paths with
    | [] => LOk 0
    | (p, _, inner) :: pr =>
        ladd (if is_dedupe_key p then LErr EUnmodelled else
              if key_skip p then LOk 0 else inner_len inner)
             (paths_len pr)
    end.

  (* key in {iterable_items_added_at_indexes, iterable_items_removed_at_indexes}:
     subitem.items() / indexes_to_items.items() raise AttributeError on non-Mappings *)
  Definition dedupe_len (sub : dv) : lres :=
    match sub with
    | DMap paths => if forallb (fun e => is_map (snd e)) paths then paths_len paths else LErr EAttr
    | _ => LErr EAttr
    end.

  Fixpoint map_len (kvs : list (dkey * nat * dv)) : lres :=
    match kvs with
    | [] => LOk 0
    | (k, _, sub) :: r =>
        ladd (if is_dedupe_key k then dedupe_len sub else
              if key_skip k then LOk 0 else f sub)
             (map_len r)
    end.

  Fixpoint seq_len (xs : list dv) : lres :=
    match xs with [] => LOk 0 | x :: r => ladd (f x) (seq_len r) end.
End ItemLength.

Fixpoint item_length (d : dv) : lres :=
  match d with
  | DNone => LOk 0
  | DNum | DStr | DType => LOk 1
  | DSeq xs => seq_len item_length xs
  | DMap kvs => map_len item_length kvs
  end.

(** ** a user value as _get_item_length sees it (new_value, added items ...) *)
Definition dkey_of_atom (a : atom) : dkey :=
  match a with AStr s => KStr s | ABytes s => KBytes s | _ => KOther end.
Definition dv_of_atom (a : atom) : dv :=
  match a with
  | ANone => DNone
  | ABool _ | AInt _ | AHalf _ => DNum
  | AStr _ | ABytes _ => DStr
  end.
Fixpoint dv_of_value (v : value) : dv :=
  match v with
  | VAtom a => dv_of_atom a
  | VList xs | VTuple xs => DSeq (map dv_of_value xs)
  | VDict kvs => DMap (map (fun kv => (dkey_of_atom (fst kv), O, dv_of_value (snd kv))) kvs)
  | VSet xs | VFrozen xs => DSeq (map dv_of_atom xs)
  end.

(** ** item lengths: the count component of DeepHash (default parameters:
    ignore_private_variables=True skips the value of a str key starting with "__") *)
Definition private_key (k : atom) : bool :=
  match k with AStr (c1 :: c2 :: _) => N.eqb c1 95 && N.eqb c2 95 | _ => false end.

Fixpoint count (v : value) : nat :=
  match v with
  | VAtom _ => 1
  | VList xs | VTuple xs => S (fold_right (fun x n => count x + n) 0 xs)
  | VDict kvs => S (fold_right (fun kv n => (if private_key (fst kv) then 1 else S (count (snd kv))) + n) 0 kvs)
  | VSet xs | VFrozen xs => S (List.length xs)
  end.

(** ** _get_rough_distance *)
Inductive root := RVal (v : value) | RScalar (s : scalar).

Definition half_float (t : Z) : float := (SF2Prim (sf_of_Z t) / 2)%float.

Definition root_scalar (r : root) : option scalar :=
  match r with
  | RScalar s => Some s
  | RVal (VAtom (AInt z)) => Some (SNum (PInt z))
  | RVal (VAtom (ABool b)) => Some (SNum (PBool b))
  | RVal (VAtom (AHalf t)) => Some (SNum (PFloat (half_float t)))
  | RVal _ => None
  end.

Definition root_count (r : root) : nat :=
  match r with RVal v => count v | RScalar _ => 1 end.

Inductive rres :=
| RDist (d : dres)          (* the numeric short cut: get_numeric_types_distance(t1, t2, max_=cutoff) *)
| RInt0                     (* diff_length == 0: the int 0 *)
| RFrac (n m : nat)         (* diff_length / (t1_len + t2_len), Python int / int *)
| RErr (e : perr).

Definition root_numeric (r1 r2 : root) (cutoff : float) : option dres :=
  match root_scalar r1, root_scalar r2 with
  | Some s1, Some s2 => numeric_types_distance s1 s2 cutoff
  | _, _ => None
  end.

Definition rough_distance (r1 r2 : root) (cutoff : float) (delta : dv) : rres :=
  match root_numeric r1 r2 cutoff with
  | Some d => RDist d
  | None =>
    match item_length delta with
    | LErr e => RErr e
    | LOk O => RInt0
    | LOk n => RFrac n (root_count r1 + root_count r2)
    end
  end.
(* to be appended to DistModel.v *)
(* ===================================================================== *)
(** * Part C: the delta view as positions in t1 / t2 (for the bound)      *)
(* ===================================================================== *)
(** A delta-view dict whose values are taken from the inputs: every entry
    names positions (child-index paths) in t1 and/or t2; [dv_of_sdelta] builds
    from them the dict _get_item_length walks.  The check compares it with the
    dict the implementation really produced. *)
Definition ipath := list nat.

(* the children the diff can report (a dict entry under a private key "__x" is invisible) *)
Definition kids (v : value) : list (option value) :=
  match v with
  | VAtom _ => []
  | VList xs | VTuple xs => map Some xs
  | VDict kvs => map (fun kv => if private_key (fst kv) then None else Some (snd kv)) kvs
  | VSet xs | VFrozen xs => map (fun a => Some (VAtom a)) xs
  end.
Definition child (v : value) (i : nat) : option value :=
  match nth_error (kids v) i with Some (Some c) => Some c | _ => None end.
Fixpoint resolve (v : value) (p : ipath) : option value :=
  match p with
  | [] => Some v
  | i :: r => match child v i with Some c => resolve c r | None => None end
  end.

Definition dvat (t : value) (p : ipath) : dv :=
  match resolve t p with Some v => dv_of_value v | None => DNone end.

Inductive sentry :=
| ETc (key : pystr) (p1 p2 : ipath) (with_new_path with_value : bool)   (* type_changes[key] = {old_type, new_type[, new_path][, new_value]} *)
| EVc (key : pystr) (p1 p2 : ipath) (with_new_path : bool)               (* values_changed[key] = {new_value[, new_path]} *)
| EAt (side2 : bool) (key : pystr) (p : ipath)                            (* an added (t2) / removed (t1) item *)
| ESet (side2 : bool) (key : pystr) (p : ipath) (members : list nat).     (* set_item_added / removed [key] = {members of the set at p} *)

Inductive sblock :=
| BPlain (cat : pystr) (es : list sentry)
| BIdx (side2 : bool) (es : list (pystr * ipath * list (nat * nat)))      (* iterable_items_{added,removed}_at_indexes[key] = {index: item}; (index, identity) *)
| BSkipped (cat : pystr) (d : dv).                                         (* a key the filter drops: _iterable_opcodes, _numpy_paths, ... *)
Definition sdelta := list sblock.

Local Open Scope string_scope.
Definition k_old_type := s2p "old_type".
Definition k_new_type := s2p "new_type".
Definition k_new_value := s2p "new_value".
Local Close Scope string_scope.

Definition side (t1 t2 : value) (side2 : bool) : value := if side2 then t2 else t1.

Definition dv_of_entry (t1 t2 : value) (e : sentry) : dkey * nat * dv :=
  match e with
  | ETc key _ p2 wnp wv =>
      (KStr key, O, DMap ([(KStr k_old_type, O, DType); (KStr k_new_type, O, DType)]
                          ++ (if wnp then [(KStr k_new_path, O, DStr)] else [])
                          ++ (if wv then [(KStr k_new_value, O, dvat t2 p2)] else [])))
  | EVc key _ p2 wnp =>
      (KStr key, O, DMap ((KStr k_new_value, O, dvat t2 p2) :: (if wnp then [(KStr k_new_path, O, DStr)] else [])))
  | EAt s2 key p => (KStr key, O, dvat (side t1 t2 s2) p)
  | ESet s2 key p ms => (KStr key, O, DSeq (map (fun j => dvat (side t1 t2 s2) (p ++ [j])) ms))
  end.

Definition dv_of_block (t1 t2 : value) (b : sblock) : dkey * nat * dv :=
  match b with
  | BPlain cat es => (KStr cat, O, DMap (map (dv_of_entry t1 t2) es))
  | BIdx s2 es =>
      (KStr (if s2 then k_added_at else k_removed_at), O,
       DMap (map (fun e => let '(key, p, items) := e in
                           (KStr key, O,
                            DMap (map (fun ii => (KOther, snd ii, dvat (side t1 t2 s2) (p ++ [fst ii]))) items))) es))
  | BSkipped cat d => (KStr cat, O, d)
  end.

Definition dv_of_sdelta (t1 t2 : value) (sd : sdelta) : dv := DMap (map (dv_of_block t1 t2) sd).

(** positions consumed in t1 and in t2 *)
Definition entry_pos (want2 : bool) (e : sentry) : list ipath :=
  match e with
  | ETc _ p1 p2 _ _ | EVc _ p1 p2 _ => [if want2 then p2 else p1]
  | EAt s2 _ p => if Bool.eqb s2 want2 then [p] else []
  | ESet s2 _ p ms => if Bool.eqb s2 want2 then map (fun j => p ++ [j]) ms else []
  end.
Definition block_pos (want2 : bool) (b : sblock) : list ipath :=
  match b with
  | BPlain _ es => flat_map (entry_pos want2) es
  | BIdx s2 es => if Bool.eqb s2 want2
                  then flat_map (fun e => let '(_, p, items) := e in map (fun ii => p ++ [fst ii]) items) es
                  else []
  | BSkipped _ _ => []
  end.
Definition positions (want2 : bool) (sd : sdelta) : list ipath := flat_map (block_pos want2) sd.

Fixpoint nat_prefix (p q : ipath) : bool :=
  match p, q with
  | [], _ => true
  | i :: p', j :: q' => Nat.eqb i j && nat_prefix p' q'
  | _ :: _, [] => false
  end.
Definition comparable (p q : ipath) : bool := nat_prefix p q || nat_prefix q p.
Fixpoint pairwise_incomparable (l : list ipath) : bool :=
  match l with
  | [] => true
  | p :: r => forallb (fun q => negb (comparable p q)) r && pairwise_incomparable r
  end.

(* keys: a path key is the string "root..."; a report key is a str that the key filter keeps and that is not a dedupe key *)
Local Open Scope string_scope.
Definition path_key_ok (k : pystr) : bool := is_prefix (s2p "root") k.
Local Close Scope string_scope.
Definition cat_key_ok (k : pystr) : bool :=
  negb (is_dedupe_key (KStr k)) && negb (key_skip (KStr k)).
Definition entry_key (e : sentry) : pystr :=
  match e with ETc k _ _ _ _ | EVc k _ _ _ | EAt _ k _ | ESet _ k _ _ => k end.
Definition block_keys_ok (b : sblock) : bool :=
  match b with
  | BPlain cat es => cat_key_ok cat && forallb (fun e => path_key_ok (entry_key e)) es
  | BIdx _ es => forallb (fun e => path_key_ok (fst (fst e))) es
  | BSkipped cat _ => negb (is_dedupe_key (KStr cat)) && key_skip (KStr cat)
  end.

(* validity of a structured delta: well-formed keys, and the reported
   positions are pairwise disjoint sub-trees of t1 resp. t2 *)
Definition sd_valid (sd : sdelta) : bool :=
  forallb block_keys_ok sd
  && pairwise_incomparable (positions false sd)
  && pairwise_incomparable (positions true sd).

Definition cnt (t : value) (p : ipath) : nat :=
  match resolve t p with Some v => count v | None => 0 end.
Definition len_at (t : value) (p : ipath) : option nat :=
  match item_length (dvat t p) with LOk n => Some n | LErr _ => None end.

(* the guard of the range theorem: every type change can pay for the 2 + len(new_value)
   operations it is charged with the item lengths of its two values *)
Definition tc_entry_ok (t1 t2 : value) (e : sentry) : bool :=
  match e with
  | ETc _ p1 p2 _ wv =>
      match (if wv then len_at t2 p2 else Some 0) with
      | Some l => Nat.leb (2 + l) (cnt t1 p1 + cnt t2 p2)
      | None => true
      end
  | _ => true
  end.
Definition tc_guard (t1 t2 : value) (sd : sdelta) : bool :=
  forallb (fun b => match b with BPlain _ es => forallb (tc_entry_ok t1 t2) es | _ => true end) sd.

(* comparison of two dv trees that ignores the identity tags *)
Definition dkey_eqb (a b : dkey) : bool :=
  match a, b with
  | KStr s, KStr t | KBytes s, KBytes t => pystr_eqb s t
  | KOther, KOther => true
  | _, _ => false
  end.
Fixpoint dv_eqb (a b : dv) {struct a} : bool :=
  match a, b with
  | DNone, DNone | DNum, DNum | DStr, DStr | DType, DType => true
  | DSeq xs, DSeq ys =>
      (fix go (xs ys : list dv) {struct xs} : bool :=
         match xs, ys with
         | [], [] => true
         | x :: xs', y :: ys' => dv_eqb x y && go xs' ys'
         | _, _ => false
         end) xs ys
  | DMap xs, DMap ys =>
      (fix go (xs ys : list (dkey * nat * dv)) {struct xs} : bool :=
         match xs, ys with
         | [], [] => true
         | (k, _, x) :: xs', (k', _, y) :: ys' => dkey_eqb k k' && dv_eqb x y && go xs' ys'
         | _, _ => false
         end) xs ys
  | _, _ => false
  end.

(** C19 source tie - the typed embedding of Python into Gallina that the translator
    harness/translate/distance.py targets (DESIGN.md section 4.5).  Definitions only.

    The translator regenerates the scalar kernels of deepdiff/distance.py statement by statement;
    what a Python statement MEANS on the model's value types is fixed here, once, by hand:
    isinstance on the scalar kinds, the attribute calls of date / time objects, float(), the cast
    of a value that an isinstance test has established to be a float, the call of a number function
    stored in a table of scalar functions, the object `self` of DistanceMixin.  These definitions are
    the trusted base of the tie (together with the translator's rules, NOTES_SRCTIE.md); they contain
    no arithmetic of the distance itself. *)
From Coq Require Import List ZArith NArith Bool.
From Coq Require Import PrimFloat SpecFloat FloatOps.
Import ListNotations.
From DD Require Import Base.Value Dist.DistModel.

(** ** the entries of TYPES_TO_DIST_FUNC: helper.only_numbers, datetime.datetime, datetime.date,
    datetime.timedelta, datetime.time *)
Inductive pytype := TOnlyNumbers | TDatetime | TDate | TTimedelta | TTime.

(* isinstance(x, type_): a bool is an int, a datetime is a date *)
Definition py_isinstance (s : scalar) (t : pytype) : bool :=
  match t, s with
  | TOnlyNumbers, SNum _ => true
  | TDatetime, SDateTime _ _ => true
  | TDate, SDateTime _ _ => true
  | TDate, SDate _ => true
  | TTimedelta, STimedelta _ => true
  | TTime, STime _ _ _ _ => true
  | _, _ => false
  end.

(* isinstance(num, float) for a number *)
Definition py_is_float (a : pynum) : bool := match a with PFloat _ => true | _ => false end.
(* a number that an isinstance test has established to be a float, as a float
   (None: the test was wrong - not reachable in a well-typed run) *)
Definition py_the_float (a : pynum) : option float := match a with PFloat f => Some f | _ => None end.

(** ** attribute calls; None = AttributeError (the object has no such method) *)
Definition py_timestamp (s : scalar) : option pynum :=
  match s with SDateTime _ t => Some (PFloat (ts_float t)) | _ => None end.
Definition py_toordinal (s : scalar) : option pynum :=
  match date_ordinal s with Some o => Some (PInt o) | None => None end.
Definition py_total_seconds (s : scalar) : option pynum :=
  match s with STimedelta u => Some (PFloat (SF2Prim (sf_div_Z u million))) | _ => None end.
(* helper.time_to_seconds (imported by distance.py; not part of the translated fragment) *)
Definition py_time_to_seconds (s : scalar) : option pynum :=
  match s with STime h m c u => Some (time_seconds h m c u) | _ => None end.

(** ** functions as values: the second components of TYPES_TO_DIST_FUNC all take
    (x, y, max_, use_log_scale, log_scale_similarity_threshold) *)
Definition distfn := scalar -> scalar -> float -> bool -> float -> dres.
(* _get_numbers_distance stored in that table: it is only ever reached with two numbers
   (the isinstance test of the loop); anything else is outside the embedding *)
Definition lift_num (f : pynum -> pynum -> float -> bool -> float -> dres) : distfn :=
  fun s1 s2 mx uls thr =>
    match s1, s2 with
    | SNum a, SNum b => f a b mx uls thr
    | _, _ => DErr EUnmodelled
    end.

(** ** `self` of DistanceMixin._get_rough_distance: the attributes the method reads, and the
    delta-view dict (`self` in delta view, else self._to_delta_dict(report_repetition_required=False)),
    which is an input of the model *)
Record dself := mk_dself {
  self_t1 : root;
  self_t2 : root;
  self_cutoff_distance_for_pairs : float;
  self_use_log_scale : bool;
  self_log_scale_similarity_threshold : float;
  self_delta_view : dv
}.

(* a call f(self.t1, self.t2, ...) of a function on scalars: a root that is none of the modelled
   scalar kinds is an instance of none of the types of TYPES_TO_DIST_FUNC, so the loop falls through *)
Definition call_on_roots (f : scalar -> scalar -> option dres) (r1 r2 : root) : option dres :=
  match root_scalar r1, root_scalar r2 with
  | Some s1, Some s2 => f s1 s2
  | _, _ => None
  end.

(** C19 - the operation count of the ignore-order delta view is bounded by
    two weights of the reported levels:

      W1 es   what the levels report from t1: old values of plain levels, removed items and
              repeated items, the latter two counted once per (parent path, value)
      W2 es   what they report from t2: new values of plain levels, added items

    [io_ops_bound]: item_length (dv_of_entries_io incl es rs) <= W1 es + W2 es under the
    type-change guard; W1 / W2 are sub-additive over ++ . *)
From Coq Require Import List ZArith NArith Bool Lia Arith.
From Coq Require Import String.
Import ListNotations.
Local Open Scope list_scope.
From DD Require Import Base.PyStr Base.Value Base.ValueFacts Path.PathModel Diff.Tree Diff.DiffModel
  Hash.HashModel Hash.HashProofsBase DiffIO.DiffIOModel.
From DD Require Import Dist.DistModel Dist.DistProofs Dist.DistDiffModel Dist.DistDiffProofs
  Dist.DistIOModel Dist.DistIODedup.

(* ---------- structural equality of values is Leibniz equality ---------- *)
Fixpoint vlist_eqb (xs ys : list value) : bool :=
  match xs, ys with
  | [], [] => true
  | x :: xs', y :: ys' => value_eqb x y && vlist_eqb xs' ys'
  | _, _ => false
  end.
Fixpoint alist_eqb (xs ys : list atom) : bool :=
  match xs, ys with
  | [], [] => true
  | x :: xs', y :: ys' => atom_eqb x y && alist_eqb xs' ys'
  | _, _ => false
  end.
Fixpoint dlist_eqb (xs ys : list (atom * value)) : bool :=
  match xs, ys with
  | [], [] => true
  | (k, v) :: xs', (k', v') :: ys' => atom_eqb k k' && value_eqb v v' && dlist_eqb xs' ys'
  | _, _ => false
  end.
Lemma veqb_list xs ys : value_eqb (VList xs) (VList ys) = vlist_eqb xs ys.
Proof. reflexivity. Qed.
Lemma veqb_tuple xs ys : value_eqb (VTuple xs) (VTuple ys) = vlist_eqb xs ys.
Proof. reflexivity. Qed.
Lemma veqb_dict xs ys : value_eqb (VDict xs) (VDict ys) = dlist_eqb xs ys.
Proof. reflexivity. Qed.
Lemma veqb_set xs ys : value_eqb (VSet xs) (VSet ys) = alist_eqb xs ys.
Proof. reflexivity. Qed.
Lemma veqb_frozen xs ys : value_eqb (VFrozen xs) (VFrozen ys) = alist_eqb xs ys.
Proof. reflexivity. Qed.

Lemma alist_eqb_eq xs : forall ys, alist_eqb xs ys = true -> xs = ys.
Proof.
  induction xs as [|x xs IH]; intros [|y ys] H; cbn in H; try discriminate; [reflexivity|].
  apply andb_true_iff in H as [H1 H2]. apply atom_eqb_eq in H1. rewrite H1, (IH ys H2). reflexivity.
Qed.
Lemma alist_eqb_refl xs : alist_eqb xs xs = true.
Proof. induction xs as [|x xs IH]; cbn; [reflexivity|]. rewrite atom_eqb_refl, IH. reflexivity. Qed.

Lemma value_eqb_eq : forall a b, value_eqb a b = true -> a = b.
Proof.
  induction a as [x|xs IH|xs IH|kvs IH|xs|xs] using value_ind'; intros b H; destruct b; try discriminate H.
  - cbn in H. apply atom_eqb_eq in H. congruence.
  - rewrite veqb_list in H. f_equal. revert xs0 H. induction IH as [|x xs Hx _ IHl]; intros [|y ys] H; cbn in H; try discriminate; [reflexivity|].
    apply andb_true_iff in H as [H1 H2]. rewrite (Hx y H1), (IHl ys H2). reflexivity.
  - rewrite veqb_tuple in H. f_equal. revert xs0 H. induction IH as [|x xs Hx _ IHl]; intros [|y ys] H; cbn in H; try discriminate; [reflexivity|].
    apply andb_true_iff in H as [H1 H2]. rewrite (Hx y H1), (IHl ys H2). reflexivity.
  - rewrite veqb_dict in H. f_equal. revert kvs0 H. induction IH as [|[k v] xs Hx _ IHl]; intros [|[k' v'] ys] H; cbn in H; try discriminate; [reflexivity|].
    apply andb_true_iff in H as [H H3]. apply andb_true_iff in H as [H1 H2]. apply atom_eqb_eq in H1.
    cbn in Hx. rewrite H1, (Hx v' H2), (IHl ys H3). reflexivity.
  - rewrite veqb_set in H. f_equal. apply alist_eqb_eq. exact H.
  - rewrite veqb_frozen in H. f_equal. apply alist_eqb_eq. exact H.
Qed.

Lemma value_eqb_refl : forall a, value_eqb a a = true.
Proof.
  induction a as [x|xs IH|xs IH|kvs IH|xs|xs] using value_ind'.
  - cbn. apply atom_eqb_refl.
  - rewrite veqb_list. induction IH as [|x xs Hx _ IHl]; cbn; [reflexivity|]. rewrite Hx, IHl. reflexivity.
  - rewrite veqb_tuple. induction IH as [|x xs Hx _ IHl]; cbn; [reflexivity|]. rewrite Hx, IHl. reflexivity.
  - rewrite veqb_dict. induction IH as [|[k v] xs Hx _ IHl]; cbn; [reflexivity|]. cbn in Hx.
    rewrite atom_eqb_refl, Hx, IHl. reflexivity.
  - rewrite veqb_set. apply alist_eqb_refl.
  - rewrite veqb_frozen. apply alist_eqb_refl.
Qed.

Lemma ovalue_eqb_iff a b : ovalue_eqb a b = true <-> a = b.
Proof.
  destruct a as [x|], b as [y|]; cbn; split; intros E; try discriminate; try reflexivity.
  - apply value_eqb_eq in E. congruence.
  - injection E as <-. apply value_eqb_refl.
Qed.

Definition kv := (pystr * option value)%type.
Lemma kv_eqb_iff a b : kv_eqb a b = true <-> a = b.
Proof.
  destruct a as [k v], b as [k' v']. unfold kv_eqb. cbn [fst snd].
  rewrite andb_true_iff, ValueFacts.pystr_eqb_eq, ovalue_eqb_iff. split; [intros [-> ->]; reflexivity | intros [= -> ->]; auto].
Qed.
Definition ckv (a : kv) : nat := cnt_o (snd a).

Notation ddV := (dd (option value) ovalue_eqb cnt_o).
Notation ddKV := (dd kv kv_eqb ckv).

(* the sum of the item lengths of the distinct (parent path, value) pairs *)
Definition M (l : list kv) : nat := ddKV [] l.

Lemma M_nil : M [] = 0.
Proof. reflexivity. Qed.
Lemma M_app a b : M (a ++ b) <= M a + M b.
Proof. apply dd_app_le. exact kv_eqb_iff. Qed.
Lemma M_sub a b : (forall x, In x a -> In x b) -> M a <= M b.
Proof. apply dd_sub. exact kv_eqb_iff. Qed.
Lemma M_const k v l : (forall x, In x l -> x = (k, v)) -> M l <= cnt_o v.
Proof. intros H. apply (dd_const kv kv_eqb kv_eqb_iff ckv (k, v) l [] H). Qed.

(* ---------- one {index: item} dict: deduped operations <= distinct values ---------- *)
Lemma idx_len_dd (tag : option value -> nat) s : forall seen_t seen_v,
  (forall x, In x seen_v -> In (tag x) seen_t) ->
  lle (idx_len item_length seen_t (map (fun iv : nat * option value => (KOther, tag (snd iv), vdv (snd iv))) s))
      (ddV seen_v (map snd s)).
Proof.
  induction s as [|[i v] s IH]; intros seen_t seen_v Inv; cbn [map idx_len dd snd].
  - apply lle_ok. lia.
  - destruct (existsb (Nat.eqb (tag v)) seen_t) eqn:Et.
    + assert (Ht : In (tag v) seen_t).
      { apply existsb_exists in Et. destruct Et as [x [Hx Ex]]. apply Nat.eqb_eq in Ex. subst. exact Hx. }
      destruct (memb _ ovalue_eqb v seen_v).
      * apply IH. exact Inv.
      * eapply lle_weaken; [apply (IH seen_t (v :: seen_v))|lia].
        intros x [<-|Hx]; [exact Ht | apply Inv; exact Hx].
    + assert (Hv : memb _ ovalue_eqb v seen_v = false).
      { apply (memb_false _ _ ovalue_eqb_iff). intros Hv. apply Inv in Hv.
        assert (existsb (Nat.eqb (tag v)) seen_t = true); [|congruence].
        apply existsb_exists. exists (tag v). split; [exact Hv | apply Nat.eqb_refl]. }
      rewrite Hv. apply lle_ladd.
      * unfold entry_len. cbn. apply len_vdv.
      * apply IH. intros x [<-|Hx]; [left; reflexivity | right; apply Inv; exact Hx].
Qed.

Lemma tag_map_len m : lle (idx_len item_length [] (tag_map m)) (ddV [] (map snd m)).
Proof.
  unfold tag_map. apply (idx_len_dd (fun v => first_eq v (map snd m) 0) m [] []). intros x [].
Qed.

(* ---------- Python dict semantics ---------- *)
Lemma last_val_In i l : In i (map fst l) -> In (i, last_val i l) l.
Proof.
  induction l as [|[j v] r IH]; [intros []|]. intros Hin. cbn [last_val].
  destruct (existsb (fun x : nat * option value => Nat.eqb (fst x) i) r) eqn:E.
  - right. apply IH. apply existsb_exists in E. destruct E as [x [Hx Ex]]. apply Nat.eqb_eq in Ex.
    apply in_map_iff. exists x. split; assumption.
  - destruct Hin as [Hj|Hin].
    + cbn in Hj. subst j. rewrite Nat.eqb_refl. left. reflexivity.
    + exfalso. apply in_map_iff in Hin. destruct Hin as [x [Ex Hx]].
      assert (existsb (fun x : nat * option value => Nat.eqb (fst x) i) r = true); [|congruence].
      apply existsb_exists. exists x. split; [exact Hx | apply Nat.eqb_eq; exact Ex].
Qed.

Lemma dedup_nat_In x l : In x (dedup_nat l) -> In x l.
Proof.
  induction l as [|y r IH]; [intros []|]. cbn [dedup_nat]. intros [->|H]; [left; reflexivity|].
  right. apply IH. apply filter_In in H. apply H.
Qed.

Lemma imap_of_vals l x : In x (map snd (imap_of l)) -> In x (map snd l).
Proof.
  unfold imap_of. rewrite map_map. cbn [snd]. intros H. apply in_map_iff in H. destruct H as [i [<- Hi]].
  apply dedup_nat_In in Hi. apply last_val_In in Hi. apply in_map_iff. exists (i, last_val i l). split; [reflexivity | exact Hi].
Qed.

(* values under one key *)
Lemma memb_pair k v seen :
  memb kv kv_eqb (k, v) (map (pair k) seen) = memb _ ovalue_eqb v seen.
Proof.
  unfold memb. induction seen as [|x r IH]; [reflexivity|]. cbn [map existsb]. rewrite IH.
  unfold kv_eqb at 1. cbn [fst snd]. rewrite ValueFacts.pystr_eqb_refl. reflexivity.
Qed.
Lemma dd_pair k l : forall seen, ddV seen l = ddKV (map (pair k) seen) (map (pair k) l).
Proof.
  induction l as [|v r IH]; intros seen; cbn [map dd]; [reflexivity|].
  rewrite memb_pair. destruct (memb _ ovalue_eqb v seen); [apply IH|].
  unfold ckv at 1. cbn [snd]. f_equal. apply (IH (v :: seen)).
Qed.

Definition apair (a : asg) : kv := (akey a, aval a).

Lemma grp_pairs k l :
  grp kv pystr pystr_eqb fst k (map apair l) = map (pair k) (map aval (filter (fun a => pystr_eqb (akey a) k) l)).
Proof.
  unfold grp. induction l as [|a r IH]; [reflexivity|]. cbn [map filter]. unfold apair at 1. cbn [fst].
  destruct (pystr_eqb (akey a) k) eqn:E; cbn [map]; rewrite IH; [|reflexivity].
  apply ValueFacts.pystr_eqb_eq in E. unfold apair. rewrite E. reflexivity.
Qed.

(* ---------- the {path: {index: item}} block ---------- *)
Definition block_entry (l : list asg) (k : pystr) : dkey * nat * dv :=
  (KStr k, O, DMap (tag_map (imap_of (map (fun a => (aidx a, aval a)) (filter (fun a => pystr_eqb (akey a) k) l))))).

Lemma idx_block_eq l : idx_block l = DMap (map (block_entry l) (dedup (map akey l))).
Proof. unfold idx_block, pm_of. rewrite map_map. reflexivity. Qed.

Lemma block_paths_len l ks :
  (forall k, In k ks -> path_key_ok k = true) ->
  lle (paths_len item_length (map (block_entry l) ks))
      (fold_right (fun k n => ddKV [] (grp kv pystr pystr_eqb fst k (map apair l)) + n) 0 ks).
Proof.
  induction ks as [|k ks IH]; intros K; cbn [map paths_len fold_right].
  - apply lle_ok. lia.
  - unfold block_entry at 1. destruct (path_key_facts k (K k (or_introl eq_refl))) as [-> ->].
    apply lle_ladd; [|apply IH; intros k' Hk'; apply K; right; exact Hk'].
    cbn [inner_len]. eapply lle_weaken; [apply tag_map_len|].
    rewrite grp_pairs. rewrite <- (dd_pair k _ []).
    apply (dd_sub _ _ ovalue_eqb_iff). intros x Hx. apply imap_of_vals in Hx.
    rewrite map_map in Hx. cbn [snd] in Hx. exact Hx.
Qed.

Lemma block_all_maps l ks : forallb (fun e : dkey * nat * dv => is_map (snd e)) (map (block_entry l) ks) = true.
Proof. induction ks as [|k ks IH]; [reflexivity|]. cbn. exact IH. Qed.

Lemma idx_block_len l :
  (forall a, In a l -> path_key_ok (akey a) = true) ->
  lle (dedupe_len item_length (idx_block l)) (M (map apair l)).
Proof.
  intros K. rewrite idx_block_eq. cbn [dedupe_len]. rewrite block_all_maps.
  eapply lle_weaken.
  - apply block_paths_len. intros k Hk. apply (proj1 (dedup_In _ _)) in Hk. apply in_map_iff in Hk.
    destruct Hk as [a [<- Ha]]. apply K. exact Ha.
  - apply (dd_groups kv kv_eqb kv_eqb_iff ckv pystr pystr_eqb ValueFacts.pystr_eqb_eq fst).
    apply dedup_NoDup.
Qed.

(* ---------- weights of a list of levels ---------- *)
Definition plain (k : rkind) : bool :=
  match k with KIterAdd | KIterRem | KRepetition | KIterMoved => false | _ => true end.
Definition A1 (es : list entry) : nat := fold_right (fun e n => (if plain (ekind e) then cnt_o (et1 e) else 0) + n) 0 es.
Definition A2 (es : list entry) : nat := fold_right (fun e n => (if plain (ekind e) then cnt_o (et2 e) else 0) + n) 0 es.
Definition P_kind (k : rkind) (es : list entry) : list kv :=
  flat_map (fun e => if rkind_eqb (ekind e) k then [(pk e, item_o e)] else []) es.
Definition P_rep (es : list entry) : list kv :=
  flat_map (fun e => if rkind_eqb (ekind e) KRepetition then [(pk e, et1 e)] else []) es.

Definition W1 (es : list entry) : nat := A1 es + M (P_kind KIterRem es) + M (P_rep es).
Definition W2 (es : list entry) : nat := A2 es + M (P_kind KIterAdd es).

Lemma A1_app a b : A1 (a ++ b) = A1 a + A1 b.
Proof. unfold A1. induction a as [|e a IH]; cbn; [reflexivity | rewrite IH; lia]. Qed.
Lemma A2_app a b : A2 (a ++ b) = A2 a + A2 b.
Proof. unfold A2. induction a as [|e a IH]; cbn; [reflexivity | rewrite IH; lia]. Qed.
Lemma P_kind_app k a b : P_kind k (a ++ b) = P_kind k a ++ P_kind k b.
Proof. unfold P_kind. apply flat_map_app. Qed.
Lemma P_rep_app a b : P_rep (a ++ b) = P_rep a ++ P_rep b.
Proof. unfold P_rep. apply flat_map_app. Qed.

Lemma W1_nil : W1 [] = 0.
Proof. reflexivity. Qed.
Lemma W2_nil : W2 [] = 0.
Proof. reflexivity. Qed.
Lemma W1_app a b : W1 (a ++ b) <= W1 a + W1 b.
Proof.
  unfold W1. rewrite A1_app, P_kind_app, P_rep_app.
  pose proof (M_app (P_kind KIterRem a) (P_kind KIterRem b)). pose proof (M_app (P_rep a) (P_rep b)). lia.
Qed.
Lemma W2_app a b : W2 (a ++ b) <= W2 a + W2 b.
Proof.
  unfold W2. rewrite A2_app, P_kind_app. pose proof (M_app (P_kind KIterAdd a) (P_kind KIterAdd b)). lia.
Qed.

(* ---------- the operation count of the delta view ---------- *)
Lemma asg_kind_pairs k es : map apair (asg_kind k es) = P_kind k es.
Proof.
  unfold asg_kind, P_kind. induction es as [|e es IH]; [reflexivity|]. cbn [flat_map]. rewrite map_app.
  f_equal; [|exact IH]. destruct (rkind_eqb (ekind e) k); reflexivity.
Qed.
Lemma asg_rep_pairs es rs x : In x (map apair (asg_rep es rs)) -> In x (P_rep es).
Proof.
  unfold asg_rep, P_rep. induction es as [|e es IH]; [intros []|]. cbn [flat_map]. rewrite map_app, !in_app_iff.
  intros [H|H]; [left | right; apply IH; exact H].
  destruct (rkind_eqb (ekind e) KRepetition); [|destruct H].
  destruct (find _ rs) as [r|]; [|destruct H]. rewrite map_map in H. apply in_map_iff in H.
  destruct H as [i [<- _]]. left. reflexivity.
Qed.
Lemma asg_kind_keys k es a : In a (asg_kind k es) -> path_key_ok (akey a) = true.
Proof.
  unfold asg_kind. intros H. apply in_flat_map in H. destruct H as [e [_ H]].
  destruct (rkind_eqb (ekind e) k); [|destruct H]. destruct H as [<-|[]]. apply render_key_ok.
Qed.
Lemma asg_rep_keys es rs a : In a (asg_rep es rs) -> path_key_ok (akey a) = true.
Proof.
  unfold asg_rep. intros H. apply in_flat_map in H. destruct H as [e [_ H]].
  destruct (rkind_eqb (ekind e) KRepetition); [|destruct H]. destruct (find _ rs) as [r|]; [|destruct H].
  apply in_map_iff in H. destruct H as [i [<- _]]. apply render_key_ok.
Qed.

Definition plain_sum (es : list entry) : nat := fold_right (fun e n => (if plain (ekind e) then we e else 0) + n) 0 es.
Lemma plain_sum_A es : plain_sum es = A1 es + A2 es.
Proof. unfold plain_sum, A1, A2, we. induction es as [|e es IH]; cbn [fold_right]; [reflexivity|]. rewrite IH. destruct (plain (ekind e)); lia. Qed.

Lemma wind_plain es :
  wind KType es + wind KDictAdd es + wind KDictRem es + wind KValue es + wind KSetRem es + wind KSetAdd es <= plain_sum es.
Proof.
  unfold wind, plain_sum. induction es as [|e es IH]; cbn [fold_right]; [lia|].
  assert (ind KType e + ind KDictAdd e + ind KDictRem e + ind KValue e + ind KSetRem e + ind KSetAdd e
          <= (if plain (ekind e) then we e else 0)).
  { unfold ind. destruct (ekind e); cbn [rkind_eqb plain]; lia. }
  lia.
Qed.

Lemma io_ops_bound incl es rs : tcs_ok incl es = true ->
  lle (item_length (dv_of_entries_io incl es rs)) (W1 es + W2 es).
Proof.
  intros G. unfold dv_of_entries_io. cbn [item_length].
  repeat (rewrite map_len_plain by reflexivity).
  assert (Da : is_dedupe_key (KStr k_added_at) = true) by reflexivity.
  assert (Dr : is_dedupe_key (KStr k_removed_at) = true) by reflexivity.
  cbn [map_len]. rewrite Da, Dr.
  assert (Sk : key_skip (KStr (s2p "_iterable_opcodes"%string)) = true) by reflexivity.
  assert (Dk : is_dedupe_key (KStr (s2p "_iterable_opcodes"%string)) = false) by reflexivity.
  rewrite Sk, Dk.
  pose proof (wind_plain es) as P. rewrite plain_sum_A in P.
  pose proof (cat_bound incl [] KType es G) as C1. pose proof (cat_bound incl [] KDictAdd es G) as C2.
  pose proof (cat_bound incl [] KDictRem es G) as C3. pose proof (cat_bound incl [] KValue es G) as C4.
  pose proof (cat_bound incl [] KSetRem es G) as C5. pose proof (cat_bound incl [] KSetAdd es G) as C6.
  pose proof (wsel_wind incl [] KType es). pose proof (wsel_wind incl [] KDictAdd es). pose proof (wsel_wind incl [] KDictRem es).
  pose proof (wsel_wind incl [] KValue es). pose proof (wsel_wind incl [] KSetRem es). pose proof (wsel_wind incl [] KSetAdd es).
  assert (BA : lle (dedupe_len item_length (idx_block (asg_kind KIterAdd es ++ asg_rep es rs)))
                   (M (P_kind KIterAdd es) + M (P_rep es))).
  { eapply lle_weaken.
    - apply idx_block_len. intros a Ha. apply in_app_or in Ha. destruct Ha as [Ha|Ha];
        [eapply asg_kind_keys; exact Ha | eapply asg_rep_keys; exact Ha].
    - rewrite map_app, asg_kind_pairs.
      eapply Nat.le_trans; [apply M_app|]. apply Nat.add_le_mono_l. apply M_sub. apply asg_rep_pairs. }
  assert (BR : lle (dedupe_len item_length (idx_block (asg_kind KIterRem es))) (M (P_kind KIterRem es))).
  { eapply lle_weaken; [apply idx_block_len; intros a Ha; eapply asg_kind_keys; exact Ha|].
    rewrite asg_kind_pairs. lia. }
  intros n Hn. ladd_inv. subst.
  repeat match goal with Hl : lle ?l _, E : ?l = LOk ?x |- _ => specialize (Hl x E) end.
  unfold W1, W2. lia.
Qed.

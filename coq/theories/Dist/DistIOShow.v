(** Correspondence-side functions for the ignore-order part of C19 (no theorem depends on this
    file): the distance computed from the inputs and the recorded pairings alone. *)
From Coq Require Import List ZArith NArith Bool String.
From Coq Require Import PrimFloat.
Import ListNotations.
From DD Require Import Base.Sx Base.PyStr Base.Value Diff.Tree Diff.DiffModel Diff.DiffShow Hash.HashModel
  DiffIO.DiffIOModel DiffIO.DiffIOShow Dist.DistModel Dist.DistShow Dist.DistDiffModel Dist.DistIOModel.
Local Open Scope string_scope.

(* DeepDiff(t1, t2, ignore_order=True, report_repetition=rep, cutoff_distance_for_pairs=cutoff,
            get_deep_distance=True) with the pairings the run used ([post] = false), or the nested
   DeepDiff(x, y, view='delta', _parameters=...)._get_rough_distance() of a pairing decision ([post] = true:
   the add/remove rewrite has happened).
   Result: the distance, the operation count, the two item lengths, the type-change guard, the
   no-repeated-items guard on t1, and (pairing call without report_repetition) the hypothesis [mutual_ok] of
   C19_pair_distance_range_default on the nested run's levels. *)
Definition dist_io_case (post : bool) (c : cfg) (rep : bool) (ps : list (path * list (nat * nat)))
           (inc : list (value * value * bool)) (cutoff : float) (t1 t2 : value) : sx :=
  let r0 := diff_io hexhash (fun _ _ => []) no_paths no_paths c rep (tbl_pairs ps) t1 t2 [] [] in
  let es := if post && negb rep then mutual (fst r0) else fst r0 in
  let d := dv_of_entries_io (tbl_incl inc) es (snd r0) in
  SL [sx_rough (rough_distance (RVal t1) (RVal t2) cutoff d); sx_lres (item_length d);
      sx_nat (count t1); sx_nat (count t2);
      sx_bool (tcs_ok (tbl_incl inc) (fst r0));
      sx_bool (uniq_items hexhash c rep t1);
      sx_bool (if post && negb rep then mutual_ok (fst r0) else true)].

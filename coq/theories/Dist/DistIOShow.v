(** Correspondence-side functions for the ignore-order part of C19 (no theorem depends on this
    file): the distance computed from the inputs and the recorded pairings alone. *)
From Coq Require Import List ZArith NArith Bool String.
From Coq Require Import PrimFloat.
Import ListNotations.
From DD Require Import Base.Sx Base.PyStr Base.Value Diff.Tree Diff.DiffModel Diff.DiffShow Hash.HashModel
  DiffIO.DiffIOModel DiffIO.DiffIOShow Dist.DistModel Dist.DistShow Dist.DistDiffModel Dist.DistIOModel.
From DD Require Import Dist.DistIOProofs.
Local Open Scope string_scope.

(* DeepDiff(t1, t2, ignore_order=True, report_repetition=rep, cutoff_distance_for_pairs=cutoff,
            get_deep_distance=True) with the pairings the run used ([post] = false), or the nested
   DeepDiff(x, y, view='delta', _parameters=...)._get_rough_distance() of a pairing decision ([post] = true:
   the add/remove rewrite has happened).
   Result: the distance, the operation count, the two item lengths, the type-change guard, the
   no-repeated-items guard on t1, and (pairing call without report_repetition) the hypothesis [mutual_ok] of
   C19_pair_distance_range_default on the nested run's levels, and [pairs_unrep] on the recorded pairings. *)
(* the value at a path of t1 (dict keys by ==) *)
Fixpoint sub_at (v : value) (p : path) : option value :=
  match p with
  | [] => Some v
  | PIdx i :: q =>
      match v with
      | VList xs | VTuple xs => match nth_error xs i with Some x => sub_at x q | None => None end
      | _ => None
      end
  | PKey k :: q =>
      match v with
      | VDict kvs => match find (fun kv => py_eq (fst kv) k) kvs with Some kv => sub_at (snd kv) q | None => None end
      | _ => None
      end
  end.
(* pairs_unrep (the hypothesis of C19_deep_distance_range_ignore_order_pairs) on the recorded pairings: every pair of
   every recorded level points at a removed item whose hash occurs once among the items of that level *)
Definition pairs_unrep_obs (c : cfg) (rep : bool) (ps : list (path * list (nat * nat))) (t1 : value) : bool :=
  forallb (fun pp => match sub_at t1 (fst pp) with
                     | Some (VList xs) | Some (VTuple xs) => level_ok hexhash c rep xs (snd pp)
                     | _ => true
                     end) ps.

Definition dist_io_case (post : bool) (c : cfg) (rep : bool) (ps : list (path * list (nat * nat)))
           (inc : list (value * value * bool)) (cutoff : float) (t1 t2 : value) : sx :=
  let r0 := diff_io hexhash (fun _ _ => []) no_paths no_paths c rep (tbl_pairs ps) t1 t2 [] [] in
  let es := if post && negb rep then mutual (fst r0) else fst r0 in
  let d := dv_of_entries_io (tbl_incl inc) es (snd r0) in
  SL [sx_rough (rough_distance (RVal t1) (RVal t2) cutoff d); sx_lres (item_length d);
      sx_nat (count t1); sx_nat (count t2);
      sx_bool (tcs_ok (tbl_incl inc) (fst r0));
      sx_bool (uniq_items hexhash c rep t1);
      sx_bool (if negb rep then mutual_ok (fst r0) else true);
      sx_bool (pairs_unrep_obs c rep ps t1)].

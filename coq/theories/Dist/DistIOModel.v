(** C19 - the delta-view dict _get_rough_distance walks when ignore_order=True,
    as a function of the levels reported by the ignore-order diff
    (DiffIO/DiffIOModel.v [diff_io], pairing = oracle), and the distance
    computed from it.

    model.py DeltaResult(ignore_order=True): the added / removed items of a
    list are carried as {path: {index: item}} dicts
    (_from_tree_iterable_item_added_or_removed: item = t2 unless notpresent,
    then t1; keyed by the parent's path string and the child-relationship
    param), the new indexes of a repetition_change are added items holding
    change.t1 (_from_tree_repetition_change).  Python dict semantics: keys in
    first-insertion order, the last assignment to a key wins.
    distance.py _get_item_length dedupes every {index: item} dict by id(item).
    Two entries of one such dict hold the same object exactly when they were
    reported for the same hash class (IndexedHash.item); the model's items are
    a function of the hash class and distinct classes carry different values,
    so the identity tag is "position of the first entry with the same value".

    The root distance is computed BEFORE mutual_add_removes_to_become_value_changes
    (diff.py:363); the distances used for pairing are computed on a nested
    DeepDiff(view='delta') AFTER it (diff.py:1176-1185, _get_view_results).
    Definitions only. *)
From Coq Require Import List ZArith NArith Bool Arith String.
Import ListNotations.
From DD Require Import Base.PyStr Base.Value Path.PathModel Diff.Tree Diff.DiffModel Hash.HashModel
  DiffIO.DiffIOModel Dist.DistModel Dist.DistDiffModel.

(* ---- Python dicts built by repeated assignment ---- *)
Definition ovalue_eqb (a b : option value) : bool :=
  match a, b with Some x, Some y => value_eqb x y | None, None => true | _, _ => false end.

(* one assignment  self[report_key][path][param] = item *)
Definition asg := (pystr * nat * option value)%type.
Definition akey (a : asg) : pystr := fst (fst a).
Definition aidx (a : asg) : nat := snd (fst a).
Definition aval (a : asg) : option value := snd a.

Fixpoint dedup_nat (l : list nat) : list nat :=
  match l with
  | [] => []
  | x :: r => x :: filter (fun y => negb (Nat.eqb x y)) (dedup_nat r)
  end.
(* the value of the last assignment to index i *)
Fixpoint last_val (i : nat) (l : list (nat * option value)) : option value :=
  match l with
  | [] => None
  | (j, v) :: r =>
      if existsb (fun x => Nat.eqb (fst x) i) r then last_val i r
      else if Nat.eqb j i then v else None
  end.
(* {index: item}: first-insertion order of the indexes, last value of each *)
Definition imap_of (l : list (nat * option value)) : list (nat * option value) :=
  map (fun i => (i, last_val i l)) (dedup_nat (map fst l)).
(* {path: {index: item}} *)
Definition pm_of (l : list asg) : list (pystr * list (nat * option value)) :=
  map (fun k => (k, imap_of (map (fun a => (aidx a, aval a)) (filter (fun a => pystr_eqb (akey a) k) l))))
      (dedup (map akey l)).

(* id(item) *)
Fixpoint first_eq (v : option value) (l : list (option value)) (k : nat) : nat :=
  match l with
  | [] => k
  | x :: r => if ovalue_eqb v x then k else first_eq v r (S k)
  end.
Definition tag_map (m : list (nat * option value)) : list (dkey * nat * dv) :=
  map (fun iv => (KOther, first_eq (snd iv) (map snd m) 0, vdv (snd iv))) m.

Definition idx_block (l : list asg) : dv :=
  DMap (map (fun km => (KStr (fst km), O, DMap (tag_map (snd km)))) (pm_of l)).

(* ---- the assignments made for the levels of a result tree ---- *)
(* change.path(force='fake', get_parent_too=True): the parent's path string and the param of the last step
   (an iterable item: an index; a mapping key does not occur below an iterable_item_* level) *)
Definition pk (e : entry) : pystr := render (removelast (ep1 e)).
Definition last_param (p : path) : nat := match last p (PIdx 0) with PIdx i => i | PKey _ => 0 end.
Definition item_o (e : entry) : option value := match et2 e with Some v => Some v | None => et1 e end.

Definition asg_kind (k : rkind) (es : list entry) : list asg :=
  flat_map (fun e => if rkind_eqb (ekind e) k then [(pk e, last_param (ep1 e), item_o e)] else []) es.
Definition asg_rep (es : list entry) (rs : list repinfo) : list asg :=
  flat_map (fun e =>
    if rkind_eqb (ekind e) KRepetition then
      match find (fun r => path_eqb (rpath r) (ep1 e)) rs with
      | Some r => map (fun i => (pk e, i, et1 e)) (rnew r)
      | None => []
      end
    else []) es.

Section DVIO.
Variable incl : value -> value -> bool.

(* DeepDiff._to_delta_dict(report_repetition_required=False) with ignore_order=True *)
Definition dv_of_entries_io (es : list entry) (rs : list repinfo) : dv :=
  DMap [(KStr (s2p "type_changes"), O, cat incl [] KType es);
        (KStr (s2p "dictionary_item_added"), O, cat incl [] KDictAdd es);
        (KStr (s2p "dictionary_item_removed"), O, cat incl [] KDictRem es);
        (KStr (s2p "values_changed"), O, cat incl [] KValue es);
        (KStr (s2p "set_item_removed"), O, cat incl [] KSetRem es);
        (KStr (s2p "set_item_added"), O, cat incl [] KSetAdd es);
        (KStr k_added_at, O, idx_block (asg_kind KIterAdd es ++ asg_rep es rs));
        (KStr k_removed_at, O, idx_block (asg_kind KIterRem es));
        (KStr (s2p "_iterable_opcodes"), O, DSeq [])].
End DVIO.

Section DistIO.
Variable H : pystr -> pystr.
Variable udiff : pystr -> pystr -> pystr.
Variable skip excl : path -> bool.
Variable c : cfg.
Variable rep : bool.
Variable pairs : path -> list (nat * nat).
Variable incl : value -> value -> bool.

(* DeepDiff(t1, t2, ignore_order=True, report_repetition=rep, get_deep_distance=True)['deep_distance'] *)
Definition deep_distance_of_diff_io (cutoff : PrimFloat.float) (t1 t2 : value) : rres :=
  let r := diff_io H udiff skip excl c rep pairs t1 t2 [] [] in
  rough_distance (RVal t1) (RVal t2) cutoff (dv_of_entries_io incl (fst r) (snd r)).

(* _get_rough_distance_of_hashed_objs(added, removed): DeepDiff(removed.item, added.item, view='delta',
   _parameters=...)._get_rough_distance() - the nested run is a whole run ([run_diff_io]: the add/remove
   rewrite has happened), its own pairing oracle being the argument [pairs] of this section *)
Definition pair_distance (cutoff : PrimFloat.float) (x y : value) : rres :=
  let r := run_diff_io H udiff skip excl c rep pairs x y in
  rough_distance (RVal x) (RVal y) cutoff (dv_of_entries_io incl (fst r) (snd r)).

(* no list / tuple inside v holds two items with the same DeepHash *)
Fixpoint uniq_items (v : value) : bool :=
  match v with
  | VAtom _ | VSet _ | VFrozen _ => true
  | VList xs | VTuple xs =>
      nodup_h (map (hv H c rep) xs) &&
      (fix go (l : list value) : bool := match l with [] => true | x :: r => uniq_items x && go r end) xs
  | VDict kvs =>
      (fix go (l : list (atom * value)) : bool :=
         match l with [] => true | kv :: r => uniq_items (snd kv) && go r end) kvs
  end.
End DistIO.

(* ---- what the add/remove rewrite of a nested run needs (observed on every recorded pairing call) ----
   the removed levels have pairwise different paths, no two removed (added) levels report the same value under the
   same parent, a removed level has no t2, an added level no t1 *)
Definition kv_eqb (a b : pystr * option value) : bool := pystr_eqb (fst a) (fst b) && ovalue_eqb (snd a) (snd b).
Fixpoint nodup_by {A} (eqb : A -> A -> bool) (l : list A) : bool :=
  match l with
  | [] => true
  | x :: r => negb (existsb (eqb x) r) && nodup_by eqb r
  end.
Definition kv_of (e : entry) : pystr * option value := (pk e, item_o e).
Definition shape_ok (e : entry) : bool :=
  match ekind e with
  | KIterRem => match et2 e with None => true | Some _ => false end
  | KIterAdd => match et1 e, et2 e with None, Some _ => true | _, _ => false end
  | _ => true
  end.
Definition mutual_ok (es : list entry) : bool :=
  let rm := filter (is_kind KIterRem) es in
  let ad := filter (is_kind KIterAdd) es in
  nodup_by path_eqb (map ep1 rm) && nodup_by kv_eqb (map kv_of rm) && nodup_by kv_eqb (map kv_of ad) && forallb shape_ok es.

(* the guard of the range theorem: repetitions are not reported, or nothing is paired, or t1 has no
   repeated items *)
Definition io_guard (H : pystr -> pystr) (c : cfg) (rep : bool) (pairs : path -> list (nat * nat)) (t1 : value) : Prop :=
  rep = false \/ (forall p, pairs p = []) \/ uniq_items H c rep t1 = true.

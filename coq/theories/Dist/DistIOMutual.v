(** C19 - the distance computed for a pairing decision when repetitions are not reported: the nested run's
    tree is rewritten by mutual_add_removes_to_become_value_changes before the distance is taken.
    [mutual_weights]: under [mutual_ok] (removed levels at pairwise different paths, no two removed / added
    levels with the same value under one parent, removed levels without t2, added levels without t1 - all of
    it observed on every recorded nested run) the rewrite does not increase the weights W1 / W2.
    [pair_distance_norep_range]: hence the pairing distance lies in (0, 1] under the type-change guard. *)
From Coq Require Import List ZArith NArith Bool Lia Arith.
Import ListNotations.
From DD Require Import Base.PyStr Base.Value Base.ValueFacts Path.PathModel Diff.Tree Diff.DiffModel Diff.DiffFaithful
  Hash.HashModel DiffIO.DiffIOModel.
From DD Require Import Dist.DistModel Dist.DistProofs Dist.DistDiffModel Dist.DistDiffProofs
  Dist.DistIOModel Dist.DistIODedup Dist.DistIOLength Dist.DistIOProofs.

(* ---------- generic ---------- *)
Lemma pkey_eqb_refl a : pkey_eqb a a = true.
Proof. destruct a; cbn; [apply atom_eqb_refl | apply Nat.eqb_refl]. Qed.
Lemma path_eqb_refl p : path_eqb p p = true.
Proof. induction p as [|a p IH]; cbn; [reflexivity|]. rewrite pkey_eqb_refl, IH. reflexivity. Qed.
Lemma path_eqb_iff p q : path_eqb p q = true <-> p = q.
Proof. split; [apply path_eqb_eq | intros ->; apply path_eqb_refl]. Qed.

Lemma nodup_by_NoDup {A} (eqb : A -> A -> bool) (Heq : forall a b, eqb a b = true <-> a = b) l :
  nodup_by eqb l = true -> NoDup l.
Proof.
  induction l as [|x r IH]; intros Hn; constructor; cbn [nodup_by] in Hn; apply andb_prop in Hn; destruct Hn as [Hx Hr].
  - apply negb_true_iff in Hx. intros Hin. assert (existsb (eqb x) r = true); [|congruence].
    apply existsb_exists. exists x. split; [exact Hin | apply Heq; reflexivity].
  - apply IH. exact Hr.
Qed.

Lemma sumf_NoDup_incl {A} (f : A -> nat) l : forall l', NoDup l -> incl l l' -> sumf f l <= sumf f l'.
Proof.
  induction l as [|x r IH]; intros l' N I; [cbn; lia|].
  inversion N as [|? ? Hx Nr]; subst.
  assert (Hin : In x l') by (apply I; left; reflexivity).
  apply in_split in Hin. destruct Hin as [l1 [l2 ->]].
  assert (I' : incl r (l1 ++ l2)).
  { intros y Hy. assert (Hy' : In y (l1 ++ x :: l2)) by (apply I; right; exact Hy).
    apply in_app_or in Hy'. apply in_or_app. destruct Hy' as [Hy'|[<-|Hy']]; [left; exact Hy' | contradiction | right; exact Hy']. }
  specialize (IH _ Nr I'). rewrite sumf_app in *. unfold sumf in *. cbn [fold_right] in *.
  revert IH. generalize (fold_right (fun (x : A) (n : nat) => f x + n) 0 r) (fold_right (fun (x : A) (n : nat) => f x + n) 0 l1)
    (fold_right (fun (x : A) (n : nat) => f x + n) 0 l2). intros a b c' IH. lia.
Qed.

Lemma dd_le_sum l : forall seen, dd kv kv_eqb ckv seen l <= sumf ckv l.
Proof.
  induction l as [|x r IH]; intros seen; unfold sumf in *; cbn [dd fold_right]; [lia|].
  destruct (memb kv kv_eqb x seen); [specialize (IH seen) | specialize (IH (x :: seen))]; lia.
Qed.
Lemma dd_nodup l : forall seen, NoDup l -> (forall x, In x l -> ~ In x seen) -> dd kv kv_eqb ckv seen l = sumf ckv l.
Proof.
  induction l as [|x r IH]; intros seen N Hs; unfold sumf in *; cbn [dd fold_right]; [reflexivity|].
  inversion N as [|? ? Hx Nr]; subst.
  assert (E : memb kv kv_eqb x seen = false) by (apply (memb_false kv kv_eqb kv_eqb_iff); apply Hs; left; reflexivity).
  rewrite E. f_equal. apply IH; [exact Nr|]. intros y Hy [<-|Hin]; [contradiction | apply (Hs y (or_intror Hy) Hin)].
Qed.
Lemma M_le_sum l : M l <= sumf ckv l.
Proof. apply dd_le_sum. Qed.
Lemma M_nodup l : NoDup l -> M l = sumf ckv l.
Proof. intros N. apply dd_nodup; [exact N | intros x _ []]. Qed.

(* ---------- last_with_path ---------- *)
Lemma lwp_inv p l : forall acc,
  (fold_left (fun acc e => if path_eqb (ep1 e) p then Some e else acc) l acc = acc /\ forall e, In e l -> ep1 e <> p) \/
  (exists a, fold_left (fun acc e => if path_eqb (ep1 e) p then Some e else acc) l acc = Some a /\ In a l /\ ep1 a = p).
Proof.
  induction l as [|x r IH]; intros acc; cbn [fold_left]; [left; split; [reflexivity | intros e []]|].
  destruct (path_eqb (ep1 x) p) eqn:E.
  - apply path_eqb_eq in E. right. destruct (IH (Some x)) as [[Hf Hn]|[a [Hf [Ha Hp]]]].
    + exists x. split; [exact Hf | split; [left; reflexivity | exact E]].
    + exists a. split; [exact Hf | split; [right; exact Ha | exact Hp]].
  - destruct (IH acc) as [[Hf Hn]|[a [Hf [Ha Hp]]]].
    + left. split; [exact Hf|]. intros e [<-|He]; [|apply Hn; exact He].
      intros Hp. rewrite Hp, path_eqb_refl in E. discriminate.
    + right. exists a. split; [exact Hf | split; [right; exact Ha | exact Hp]].
Qed.
Lemma lwp_some p l a : last_with_path p l = Some a -> In a l /\ ep1 a = p.
Proof.
  unfold last_with_path. intros E. destruct (lwp_inv p l None) as [[Hf _]|[b [Hf Hb]]]; rewrite Hf in E; [discriminate|].
  injection E as <-. exact Hb.
Qed.
Lemma lwp_not_none p l e : In e l -> ep1 e = p -> last_with_path p l <> None.
Proof.
  unfold last_with_path. intros He Hp E. destruct (lwp_inv p l None) as [[_ Hn]|[b [Hf _]]]; [apply (Hn e He Hp) | congruence].
Qed.

(* ---------- the rewrite, entry by entry ---------- *)
Section Mutual.
Variables Ad Rm : list entry.

Definition g (e : entry) : list entry :=
  match ekind e with
  | KIterRem =>
      match last_with_path (ep1 e) Ad with
      | Some a =>
          match last_with_path (ep1 e) Rm with
          | Some r => [mkEntry KValue (ep1 e) (ep2 e) (et1 e) (et2 a) (ediff e)]
          | None => [e]
          end
      | None => [e]
      end
  | KIterAdd =>
      match last_with_path (ep1 e) Rm with
      | Some _ => []
      | None => [e]
      end
  | _ => [e]
  end.
Definition mw (l : list entry) : list entry := flat_map g l.

Definition target (e : entry) : list entry :=
  if is_kind KIterRem e then match last_with_path (ep1 e) Ad with Some a => [a] | None => [] end else [].
Definition targets (l : list entry) : list entry := flat_map target l.
Definition dropb (a : entry) : bool :=
  is_kind KIterAdd a && match last_with_path (ep1 a) Rm with Some _ => true | None => false end.

Definition r1 (e : entry) : nat := if is_kind KIterRem e then cnt_o (item_o e) else 0.
Definition r2 (e : entry) : nat := if is_kind KIterAdd e then cnt_o (item_o e) else 0.
Definition f2 (a : entry) : nat := cnt_o (et2 a).

Lemma A1_one e : A1 [e] = if plain (ekind e) then cnt_o (et1 e) else 0.
Proof. unfold A1. cbn. lia. Qed.
Lemma A2_one e : A2 [e] = if plain (ekind e) then cnt_o (et2 e) else 0.
Proof. unfold A2. cbn. lia. Qed.

Lemma sum_P_kind k l : sumf ckv (P_kind k l) = sumf (fun e => if rkind_eqb (ekind e) k then cnt_o (item_o e) else 0) l.
Proof.
  unfold P_kind. induction l as [|e l IH]; [reflexivity|]. cbn [flat_map]. rewrite sumf_app, IH. cbn [sumf fold_right].
  destruct (rkind_eqb (ekind e) k); cbn; unfold ckv; cbn; unfold sumf; lia.
Qed.

(* one entry: what the rewrite adds to the plain sums is taken from the removed / added items *)
Lemma g_entry e : shape_ok e = true -> (is_kind KIterRem e = true -> In e Rm) ->
  A1 (g e) + sumf ckv (P_kind KIterRem (g e)) <= A1 [e] + r1 e /\
  A2 (g e) + sumf ckv (P_kind KIterAdd (g e)) + (if dropb e then r2 e else 0) <= A2 [e] + r2 e + sumf f2 (target e) /\
  P_rep (g e) = P_rep [e].
Proof.
  intros Sh HR. unfold g, target, dropb, r1, r2, is_kind, shape_ok in *.
  destruct (ekind e) eqn:K; cbn [rkind_eqb andb] in *;
    try (rewrite !sum_P_kind; cbn [sumf fold_right]; rewrite K; cbn [rkind_eqb]; split; [lia | split; [unfold sumf; cbn; lia | reflexivity]]).
  - (* added *)
    destruct (last_with_path (ep1 e) Rm) as [r|].
    + split; [|split].
      * rewrite A1_one, K. cbn. lia.
      * rewrite A2_one, K. cbn. unfold sumf. cbn. lia.
      * unfold P_rep. cbn [flat_map app]. rewrite K. reflexivity.
    + rewrite !sum_P_kind. cbn [sumf fold_right]. rewrite K. cbn [rkind_eqb]. split; [lia | split; [unfold sumf; cbn; lia | reflexivity]].
  - (* removed *)
    pose proof (lwp_not_none (ep1 e) Rm e (HR eq_refl) eq_refl) as Hne.
    destruct (last_with_path (ep1 e) Ad) as [a|].
    + destruct (last_with_path (ep1 e) Rm) as [r|]; [|congruence].
      destruct (et2 e) eqn:E2; [discriminate|].
      split; [|split].
      * rewrite !A1_one, K. cbn [plain ekind et1]. unfold P_kind. cbn [flat_map ekind rkind_eqb app]. unfold item_o. rewrite E2. cbn. lia.
      * rewrite !A2_one, K. cbn [plain ekind et2]. unfold P_kind. cbn [flat_map ekind rkind_eqb app]. unfold f2, sumf. cbn. lia.
      * unfold P_rep. cbn. rewrite K. reflexivity.
    + rewrite !sum_P_kind. cbn [sumf fold_right]. rewrite K. cbn [rkind_eqb]. split; [lia | split; [unfold sumf; cbn; lia | reflexivity]].
Qed.

Lemma mw_sums l : forallb shape_ok l = true -> (forall e, In e l -> is_kind KIterRem e = true -> In e Rm) ->
  A1 (mw l) + sumf ckv (P_kind KIterRem (mw l)) <= A1 l + sumf r1 l /\
  A2 (mw l) + sumf ckv (P_kind KIterAdd (mw l)) + sumf (fun e => if dropb e then r2 e else 0) l <= A2 l + sumf r2 l + sumf f2 (targets l) /\
  P_rep (mw l) = P_rep l.
Proof.
  induction l as [|e l IH]; intros Sh HR; [cbn; repeat split; lia|].
  cbn [forallb] in Sh. apply andb_prop in Sh. destruct Sh as [She Shl].
  destruct (IH Shl (fun x Hx => HR x (or_intror Hx))) as [I1 [I2 I3]].
  destruct (g_entry e She (HR e (or_introl eq_refl))) as [G1 [G2 G3]].
  unfold mw, targets in *. cbn [flat_map]. rewrite !A1_app, !A2_app, !P_kind_app, !P_rep_app, !sumf_app.
  change (e :: l) with ([e] ++ l). rewrite A1_app, A2_app, P_rep_app.
  cbn [sumf fold_right] in *. unfold sumf in *. cbn [app fold_right]. rewrite G3, I3. repeat split; try lia; try reflexivity.
Qed.
End Mutual.

Lemma mutual_mw es : mutual es = mw (filter (is_kind KIterAdd) es) (filter (is_kind KIterRem) es) es.
Proof. reflexivity. Qed.

(* distinct removed paths: the added levels they are merged with are distinct, and all of them are dropped *)
Section Inj.
Variable es : list entry.
Let Ad := filter (is_kind KIterAdd) es.
Let Rm := filter (is_kind KIterRem) es.

Lemma target_facts l x : In x (targets Ad l) ->
  exists e, In e l /\ is_kind KIterRem e = true /\ ep1 x = ep1 e /\ In x Ad.
Proof.
  unfold targets. intros Hx. apply in_flat_map in Hx. destruct Hx as [e [He Hx]]. unfold target in Hx.
  destruct (is_kind KIterRem e) eqn:K; [|destruct Hx].
  destruct (last_with_path (ep1 e) Ad) as [a|] eqn:L; [|destruct Hx]. destruct Hx as [<-|[]].
  apply lwp_some in L. destruct L as [La Lp]. exists e. repeat split; try assumption.
Qed.

Lemma targets_NoDup l : NoDup (map ep1 (filter (is_kind KIterRem) l)) -> NoDup (map ep1 (targets Ad l)).
Proof.
  induction l as [|e l IH]; intros N; [constructor|]. unfold targets in *. cbn [flat_map filter] in *. rewrite map_app.
  unfold target at 1. destruct (is_kind KIterRem e) eqn:K; [|cbn [map app]; apply IH; exact N].
  cbn [map] in N. inversion N as [|? ? Hne Nr]; subst.
  destruct (last_with_path (ep1 e) Ad) as [a|] eqn:L; [|cbn [map app]; apply IH; exact Nr].
  cbn [map app]. constructor; [|apply IH; exact Nr].
  apply lwp_some in L. destruct L as [_ Lp]. rewrite Lp. intros Hin. apply in_map_iff in Hin.
  destruct Hin as [x [Ex Hx]]. destruct (target_facts l x Hx) as [e' [He' [K' [Ep _]]]].
  apply Hne. apply in_map_iff. exists e'. split; [congruence|]. apply filter_In. split; assumption.
Qed.

Lemma targets_dropped : forallb shape_ok es = true -> NoDup (map ep1 Rm) ->
  sumf f2 (targets Ad es) <= sumf (fun e => if dropb Rm e then r2 e else 0) es.
Proof.
  intros Sh N.
  assert (ND : NoDup (targets Ad es)).
  { apply (NoDup_map_inv ep1). apply targets_NoDup. exact N. }
  assert (Inc : incl (targets Ad es) (filter (dropb Rm) es)).
  { intros x Hx. destruct (target_facts es x Hx) as [e [He [K [Ep Hax]]]].
    unfold Ad in Hax. apply filter_In in Hax. destruct Hax as [Hxe Kx]. apply filter_In. split; [exact Hxe|].
    unfold dropb. rewrite Kx. cbn [andb].
    assert (HeR : In e Rm) by (apply filter_In; split; assumption).
    pose proof (lwp_not_none (ep1 x) Rm e HeR (eq_sym Ep)) as Hne.
    destruct (last_with_path (ep1 x) Rm); [reflexivity | congruence]. }
  eapply Nat.le_trans; [apply (sumf_NoDup_incl f2 _ _ ND Inc)|].
  clear ND Inc N. rewrite forallb_forall in Sh.
  assert (Hs : forall l, (forall e, In e l -> shape_ok e = true) ->
             sumf f2 (filter (dropb Rm) l) <= sumf (fun e => if dropb Rm e then r2 e else 0) l).
  { induction l as [|e l IH]; intros Hl; [cbn; lia|]. cbn [filter sumf fold_right].
    specialize (IH (fun x Hx => Hl x (or_intror Hx))).
    destruct (dropb Rm e) eqn:Dp; cbn [sumf fold_right]; unfold sumf in *; [|lia].
    assert (f2 e <= r2 e); [|lia].
    unfold dropb in Dp. apply andb_prop in Dp. destruct Dp as [K _]. unfold r2, f2. rewrite K.
    pose proof (Hl e (or_introl eq_refl)) as She. unfold shape_ok in She. unfold is_kind in K.
    destruct (ekind e); try discriminate K. unfold item_o. destruct (et1 e); [discriminate|]. destruct (et2 e); [lia | discriminate]. }
  apply Hs. exact Sh.
Qed.
End Inj.

Theorem mutual_weights es : mutual_ok es = true -> W1 (mutual es) <= W1 es /\ W2 (mutual es) <= W2 es.
Proof.
  unfold mutual_ok. intros G. apply andb_prop in G. destruct G as [G Sh]. apply andb_prop in G. destruct G as [G NA].
  apply andb_prop in G. destruct G as [NP NR].
  apply (nodup_by_NoDup path_eqb path_eqb_iff) in NP.
  apply (nodup_by_NoDup kv_eqb kv_eqb_iff) in NR. apply (nodup_by_NoDup kv_eqb kv_eqb_iff) in NA.
  set (Ad := filter (is_kind KIterAdd) es) in *. set (Rm := filter (is_kind KIterRem) es) in *.
  assert (PR : map kv_of Rm = P_kind KIterRem es).
  { unfold Rm, P_kind, kv_of, is_kind. clear. induction es as [|e l IH]; [reflexivity|]. cbn [filter flat_map].
    destruct (rkind_eqb (ekind e) KIterRem); cbn [map app]; rewrite IH; reflexivity. }
  assert (PA : map kv_of Ad = P_kind KIterAdd es).
  { unfold Ad, P_kind, kv_of, is_kind. clear. induction es as [|e l IH]; [reflexivity|]. cbn [filter flat_map].
    destruct (rkind_eqb (ekind e) KIterAdd); cbn [map app]; rewrite IH; reflexivity. }
  rewrite PR in NR. rewrite PA in NA.
  destruct (mw_sums Ad Rm es Sh) as [S1 [S2 S3]].
  { intros e He K. apply filter_In. split; assumption. }
  pose proof (targets_dropped es Sh NP) as TD. fold Ad Rm in TD.
  rewrite mutual_mw. fold Ad Rm. unfold W1, W2. rewrite S3.
  pose proof (M_le_sum (P_kind KIterRem (mw Ad Rm es))) as L1.
  pose proof (M_le_sum (P_kind KIterAdd (mw Ad Rm es))) as L2.
  rewrite (M_nodup _ NR), (M_nodup _ NA), !sum_P_kind.
  change (sumf (fun e => if rkind_eqb (ekind e) KIterRem then cnt_o (item_o e) else 0) es) with (sumf r1 es).
  change (sumf (fun e => if rkind_eqb (ekind e) KIterAdd then cnt_o (item_o e) else 0) es) with (sumf r2 es).
  lia.
Qed.

Lemma tcs_ok_mutual incl es : tcs_ok incl es = true -> tcs_ok incl (mutual es) = true.
Proof.
  unfold tcs_ok. rewrite !forallb_forall. intros Ht x Hx. rewrite mutual_mw in Hx. unfold mw in Hx.
  apply in_flat_map in Hx. destruct Hx as [e [He Hx]]. specialize (Ht e He). unfold g in Hx.
  destruct (ekind e) eqn:K; try (destruct Hx as [<-|[]]; exact Ht).
  - destruct (last_with_path _ _); [destruct Hx | destruct Hx as [<-|[]]; exact Ht].
  - destruct (last_with_path (ep1 e) (filter (is_kind KIterAdd) es)); [|destruct Hx as [<-|[]]; exact Ht].
    destruct (last_with_path _ _); destruct Hx as [<-|[]]; [reflexivity | exact Ht].
Qed.

(* ---------- the pairing distance when repetitions are not reported ---------- *)
Theorem pair_distance_norep_range :
  forall H udiff skip excl c pairs incl cutoff x y n m,
    DiffModel.ignore_private c = true -> wf x = true -> wf y = true ->
    mutual_ok (fst (diff_io H udiff skip excl c false pairs x y [] [])) = true ->
    tcs_ok incl (fst (diff_io H udiff skip excl c false pairs x y [] [])) = true ->
    pair_distance H udiff skip excl c false pairs incl cutoff x y = RFrac n m ->
    0 < n /\ n <= m.
Proof.
  intros H udiff skip excl c pairs incl cutoff x y n m P Wx Wy G T E.
  split; [unfold pair_distance in E; eapply rough_frac_positive; exact E|].
  unfold pair_distance, run_diff_io, rough_distance in E.
  destruct (io_weights H udiff skip excl c false pairs P x y [] [] Wx Wy (or_introl eq_refl)) as [B1 B2].
  destruct (diff_io H udiff skip excl c false pairs x y [] []) as [es rs]. cbn [fst snd] in *.
  destruct (root_numeric (RVal x) (RVal y) cutoff); [discriminate|].
  destruct (item_length _) as [[|k]|e] eqn:L; try discriminate.
  injection E as <- <-. cbn [root_count].
  pose proof (io_ops_bound incl (mutual es) rs (tcs_ok_mutual incl es T) _ L) as B.
  destruct (mutual_weights es G). lia.
Qed.

(* the hypotheses are satisfiable with a rewrite taking place: [[1,2],5] vs [[1,3],6], items 0 paired:
   root[0][1] and root[1] are removed and added -> two value changes, 2 operations / (5 + 5) *)
Example pair_distance_guard_satisfiable :
  let es := fst (diff_io hexhash (fun _ _ => []) (fun _ => false) (fun _ => false) ex_cfg_io false k28_pairs
                   (VList [VList [I 1; I 2]; I 5]) (VList [VList [I 1; I 3]; I 6]) [] []) in
  mutual_ok es = true /\ List.length (filter (is_kind KValue) (mutual es)) = 2 /\
  pair_distance hexhash (fun _ _ => []) (fun _ => false) (fun _ => false) ex_cfg_io false k28_pairs (fun _ _ => true) PrimFloat.one
    (VList [VList [I 1; I 2]; I 5]) (VList [VList [I 1; I 3]; I 6]) = RFrac 2 10.
Proof. repeat split; vm_compute; reflexivity. Qed.

(** C19 - the range theorem for ignore_order=True as a statement about the diff itself.

    io_weights     the levels reported by the ignore-order diff (DiffIO/DiffIOModel.v [diff_io]),
                   for EVERY pairing oracle, are disjoint parts of the inputs: W1 <= count t1 and
                   W2 <= count t2 (DistIOLength.v), when repetitions are not reported, or nothing is
                   paired, or t1 holds no repeated items
    deep_distance_io_range   hence operations / (len1 + len2) <= 1 under the type-change guard
    deep_distance_io_rep_refuted   with report_repetition a paired item that is repeated in t1 is
                   diffed once per repetition: [[1]]*8 vs [[1,2,3,4]] -> 24/23 *)
From Coq Require Import List ZArith NArith Bool Lia Arith.
Import ListNotations.
From DD Require Import Base.PyStr Base.Value Base.ValueFacts Path.PathModel Diff.Tree Diff.DiffModel Diff.DiffFaithful
  Hash.HashModel Hash.HashProofsBase DiffIO.DiffIOModel DiffIO.DiffIOProofs.
From DD Require Import Dist.DistModel Dist.DistProofs Dist.DistDiffModel Dist.DistDiffProofs
  Dist.DistIOModel Dist.DistIODedup Dist.DistIOLength.

(* ---------- weights of single levels and of homogeneous blocks ---------- *)
Lemma M_single k v : M [(k, v)] = cnt_o v.
Proof. unfold M. cbn. unfold ckv. cbn. lia. Qed.

Lemma A_nonplain es : (forall e, In e es -> plain (ekind e) = false) -> A1 es = 0 /\ A2 es = 0.
Proof.
  unfold A1, A2. induction es as [|e es IH]; intros Hk; [split; reflexivity|]. cbn [fold_right].
  rewrite (Hk e (or_introl eq_refl)). destruct (IH (fun x Hx => Hk x (or_intror Hx))) as [-> ->]. split; reflexivity.
Qed.
Lemma P_kind_none k es : (forall e, In e es -> rkind_eqb (ekind e) k = false) -> P_kind k es = [].
Proof.
  unfold P_kind. induction es as [|e es IH]; intros Hk; [reflexivity|]. cbn [flat_map].
  rewrite (Hk e (or_introl eq_refl)). apply IH. intros x Hx. apply Hk. right. exact Hx.
Qed.
Lemma P_rep_none es : (forall e, In e es -> rkind_eqb (ekind e) KRepetition = false) -> P_rep es = [].
Proof.
  unfold P_rep. induction es as [|e es IH]; intros Hk; [reflexivity|]. cbn [flat_map].
  rewrite (Hk e (or_introl eq_refl)). apply IH. intros x Hx. apply Hk. right. exact Hx.
Qed.
Lemma P_kind_In x k es : In x (P_kind k es) -> exists e, In e es /\ x = (pk e, item_o e).
Proof.
  unfold P_kind. intros Hx. apply in_flat_map in Hx. destruct Hx as [e [He Hx]].
  destruct (rkind_eqb (ekind e) k); [|destruct Hx]. destruct Hx as [<-|[]]. exists e. split; [exact He | reflexivity].
Qed.
Lemma P_rep_In x es : In x (P_rep es) -> exists e, In e es /\ x = (pk e, et1 e).
Proof.
  unfold P_rep. intros Hx. apply in_flat_map in Hx. destruct Hx as [e [He Hx]].
  destruct (rkind_eqb (ekind e) KRepetition); [|destruct Hx]. destruct Hx as [<-|[]]. exists e. split; [exact He | reflexivity].
Qed.

(* levels of plain kinds: the weights are the plain sums of DistDiffProofs *)
Lemma W_le_w es : (forall e, In e es -> plain (ekind e) = true) -> W1 es <= w1 es /\ W2 es <= w2 es.
Proof.
  intros Hp. unfold W1, W2.
  rewrite (P_kind_none KIterRem es), (P_kind_none KIterAdd es), (P_rep_none es);
    try (intros e He; specialize (Hp e He); destruct (ekind e); try discriminate Hp; reflexivity).
  rewrite M_nil. clear Hp.
  assert (A1 es <= w1 es /\ A2 es <= w2 es); [|lia].
  unfold A1, A2, w1, w2. induction es as [|e es [I1 I2]]; cbn [fold_right]; [lia|].
  destruct (plain (ekind e)); lia.
Qed.

Lemma report_In skip k p1 p2 a b d e : In e (report skip k p1 p2 a b d) -> e = mkEntry k p1 p2 a b d.
Proof. unfold report. destruct (skip p1); [intros []|]. intros [<-|[]]. reflexivity. Qed.

Lemma W_report_plain skip k p1 p2 a b d : plain k = true ->
  W1 (report skip k p1 p2 a b d) <= cnt_o a /\ W2 (report skip k p1 p2 a b d) <= cnt_o b.
Proof.
  intros Hp. destruct (W_le_w (report skip k p1 p2 a b d)) as [A B].
  - intros e He. apply report_In in He. subst e. exact Hp.
  - destruct (report_w skip k p1 p2 a b d). lia.
Qed.

Lemma W_add_block es key y :
  (forall e, In e es -> ekind e = KIterAdd /\ pk e = key /\ item_o e = y) -> W1 es = 0 /\ W2 es <= cnt_o y.
Proof.
  intros Hh. unfold W1, W2.
  destruct (A_nonplain es) as [-> ->]; [intros e He; destruct (Hh e He) as [-> _]; reflexivity|].
  rewrite (P_kind_none KIterRem es) by (intros e He; destruct (Hh e He) as [-> _]; reflexivity).
  rewrite (P_rep_none es) by (intros e He; destruct (Hh e He) as [-> _]; reflexivity).
  rewrite M_nil. split; [reflexivity|]. cbn [Nat.add]. apply (M_const key y).
  intros x Hx. apply P_kind_In in Hx. destruct Hx as [e [He ->]]. destruct (Hh e He) as [_ [-> ->]]. reflexivity.
Qed.
Lemma W_rem_block es key x :
  (forall e, In e es -> ekind e = KIterRem /\ pk e = key /\ item_o e = x) -> W1 es <= cnt_o x /\ W2 es = 0.
Proof.
  intros Hh. unfold W1, W2.
  destruct (A_nonplain es) as [-> ->]; [intros e He; destruct (Hh e He) as [-> _]; reflexivity|].
  rewrite (P_kind_none KIterAdd es) by (intros e He; destruct (Hh e He) as [-> _]; reflexivity).
  rewrite (P_rep_none es) by (intros e He; destruct (Hh e He) as [-> _]; reflexivity).
  rewrite M_nil. split; [|reflexivity]. rewrite Nat.add_0_r. cbn [Nat.add]. apply (M_const key x).
  intros z Hz. apply P_kind_In in Hz. destruct Hz as [e [He ->]]. destruct (Hh e He) as [_ [-> ->]]. reflexivity.
Qed.
Lemma W_rep_block es key x :
  (forall e, In e es -> ekind e = KRepetition /\ pk e = key /\ et1 e = x) -> W1 es <= cnt_o x /\ W2 es = 0.
Proof.
  intros Hh. unfold W1, W2.
  destruct (A_nonplain es) as [-> ->]; [intros e He; destruct (Hh e He) as [-> _]; reflexivity|].
  rewrite (P_kind_none KIterAdd es) by (intros e He; destruct (Hh e He) as [-> _]; reflexivity).
  rewrite (P_kind_none KIterRem es) by (intros e He; destruct (Hh e He) as [-> _]; reflexivity).
  rewrite M_nil. split; [|reflexivity]. cbn [Nat.add]. apply (M_const key x).
  intros z Hz. apply P_rep_In in Hz. destruct Hz as [e [He ->]]. destruct (Hh e He) as [_ [-> ->]]. reflexivity.
Qed.

Lemma pk_snoc k p1 p2 a b d q : pk (mkEntry k (snoc p1 q) p2 a b d) = render p1.
Proof. unfold pk, snoc. cbn [ep1]. rewrite removelast_last. reflexivity. Qed.

(* results (entries, repetition records) *)
Lemma W1_app2 (a b : res) : W1 (fst (app2 a b)) <= W1 (fst a) + W1 (fst b).
Proof. unfold app2. cbn [fst]. apply W1_app. Qed.
Lemma W2_app2 (a b : res) : W2 (fst (app2 a b)) <= W2 (fst a) + W2 (fst b).
Proof. unfold app2. cbn [fst]. apply W2_app. Qed.

Lemma W_concat_res {A} (f : A -> res) (g1 g2 : A -> nat) l :
  (forall x, In x l -> W1 (fst (f x)) <= g1 x /\ W2 (fst (f x)) <= g2 x) ->
  W1 (fst (concat_res (map f l))) <= sumf g1 l /\ W2 (fst (concat_res (map f l))) <= sumf g2 l.
Proof.
  unfold concat_res. induction l as [|x r IH]; intros Hf; cbn [map fold_right sumf].
  - cbn [fst]. rewrite W1_nil, W2_nil. lia.
  - destruct (Hf x (or_introl eq_refl)) as [HA HB]. destruct (IH (fun y Hy => Hf y (or_intror Hy))) as [HC HD].
    pose proof (W1_app2 (f x) (fold_right app2 ([], []) (map f r))).
    pose proof (W2_app2 (f x) (fold_right app2 ([], []) (map f r))).
    unfold sumf in *. lia.
Qed.

(* ---------- first occurrences carve disjoint items ---------- *)
Definition cxo (xs : list value) (i : nat) : nat := cnt_o (nth_error xs i).

Lemma indexes_shift h l : forall i, indexes_of h l (S i) = map S (indexes_of h l i).
Proof.
  induction l as [|x r IH]; intros i; cbn [indexes_of]; [reflexivity|].
  rewrite map_app, IH. destruct (pystr_eqb h x); reflexivity.
Qed.
Lemma first_cons_eq x r : first_of (indexes_of x (x :: r) 0) = 0.
Proof. cbn [indexes_of]. rewrite ValueFacts.pystr_eqb_refl. reflexivity. Qed.
Lemma first_cons_neq h x r : h <> x -> In h r ->
  first_of (indexes_of h (x :: r) 0) = S (first_of (indexes_of h r 0)).
Proof.
  intros Hn Hin. cbn [indexes_of].
  destruct (pystr_eqb h x) eqn:E; [apply ValueFacts.pystr_eqb_eq in E; contradiction|].
  cbn [app]. rewrite indexes_shift. pose proof (indexes_nonempty h r 0 Hin) as Hne.
  destruct (indexes_of h r 0); [congruence|]. reflexivity.
Qed.

Lemma sumf_ext_in {A} (f g : A -> nat) l : (forall x, In x l -> f x = g x) -> sumf f l = sumf g l.
Proof.
  induction l as [|x r IH]; intros Hf; [reflexivity|]. cbn [sumf fold_right].
  rewrite (Hf x (or_introl eq_refl)). unfold sumf in IH. rewrite IH; [reflexivity|]. intros y Hy. apply Hf. right. exact Hy.
Qed.
Lemma sumf_app {A} (f : A -> nat) a b : sumf f (a ++ b) = sumf f a + sumf f b.
Proof. unfold sumf. induction a as [|x a IH]; cbn [app fold_right]; [reflexivity|]. rewrite IH. lia. Qed.

Lemma sumf_split_h (f : pystr -> nat) x hs : NoDup hs ->
  sumf f hs <= (if mem_h x hs then f x else 0) + sumf f (remove_h x hs).
Proof.
  induction 1 as [|h hs Hh N IH]; [cbn; lia|].
  unfold mem_h, remove_h in *. cbn [existsb filter sumf fold_right].
  destruct (pystr_eqb x h) eqn:E.
  - apply HashProofsBase.pystr_eqb_eq in E. subst h. cbn [orb negb].
    assert (Hf : filter (fun y => negb (pystr_eqb x y)) hs = hs).
    { clear IH N. induction hs as [|y r IHr]; [reflexivity|]. cbn [filter].
      destruct (pystr_eqb x y) eqn:Ey.
      - apply HashProofsBase.pystr_eqb_eq in Ey. subst y. exfalso. apply Hh. left. reflexivity.
      - cbn [negb]. rewrite IHr; [reflexivity|]. intros X. apply Hh. right. exact X. }
    rewrite Hf. unfold sumf. lia.
  - cbn [orb negb sumf fold_right]. unfold sumf in *. lia.
Qed.

Lemma sumf_remove_le (f : pystr -> nat) r rem : In r rem -> sumf f (remove_h r rem) + f r <= sumf f rem.
Proof.
  unfold remove_h. induction rem as [|h rem IH]; [intros []|]. intros Hin. cbn [filter sumf fold_right].
  destruct (pystr_eqb r h) eqn:E.
  - apply HashProofsBase.pystr_eqb_eq in E. subst h. cbn [negb].
    assert (sumf f (filter (fun x => negb (pystr_eqb r x)) rem) <= sumf f rem); [|unfold sumf in *; lia].
    clear. induction rem as [|y rem IH]; [cbn; lia|]. cbn [filter]. destruct (negb (pystr_eqb r y)); cbn [sumf fold_right]; unfold sumf in *; lia.
  - cbn [negb sumf fold_right]. destruct Hin as [->|Hin]; [rewrite HashProofsBase.pystr_eqb_refl in E; discriminate|].
    specialize (IH Hin). unfold sumf in *. lia.
Qed.

Lemma first_sum (hvf : value -> pystr) xs : forall hs, NoDup hs -> (forall h, In h hs -> In h (map hvf xs)) ->
  sumf (fun h => cxo xs (first_of (indexes_of h (map hvf xs) 0))) hs <= sumc xs.
Proof.
  induction xs as [|x r IH]; intros hs N Hin.
  - destruct hs as [|h hs]; [cbn; lia|]. destruct (Hin h (or_introl eq_refl)).
  - cbn [map]. set (g := fun h => cxo (x :: r) (first_of (indexes_of h (hvf x :: map hvf r) 0))).
    pose proof (sumf_split_h g (hvf x) hs N) as S.
    assert (G0 : g (hvf x) = count x).
    { unfold g. rewrite first_cons_eq. reflexivity. }
    assert (N' : NoDup (remove_h (hvf x) hs)) by (apply NoDup_filter; exact N).
    assert (Hin' : forall h, In h (remove_h (hvf x) hs) -> In h (map hvf r)).
    { intros h Hh. apply filter_In in Hh. destruct Hh as [Hh Hne]. destruct (Hin h Hh) as [<-|Hr]; [|exact Hr].
      rewrite HashProofsBase.pystr_eqb_refl in Hne. discriminate. }
    specialize (IH _ N' Hin').
    assert (E : sumf g (remove_h (hvf x) hs) =
                sumf (fun h => cxo r (first_of (indexes_of h (map hvf r) 0))) (remove_h (hvf x) hs)).
    { apply sumf_ext_in. intros h Hh. unfold g. pose proof (Hin' h Hh) as Hr.
      apply filter_In in Hh. destruct Hh as [_ Hne].
      rewrite first_cons_neq; [reflexivity| |exact Hr].
      intros ->. rewrite HashProofsBase.pystr_eqb_refl in Hne. discriminate. }
    rewrite E in S. unfold sumc in *. cbn [fold_right].
    destruct (mem_h (hvf x) hs); lia.
Qed.

Lemma nodup_h_NoDup l : nodup_h l = true -> NoDup l.
Proof.
  induction l as [|x r IH]; intros Hn; constructor; cbn [nodup_h] in Hn; apply andb_prop in Hn; destruct Hn as [Hx Hr].
  - apply negb_true_iff in Hx. apply mem_h_false in Hx. exact Hx.
  - apply IH. exact Hr.
Qed.
Lemma nodup_h_count l r : nodup_h l = true -> In r l -> HashModel.count r l = 1.
Proof.
  unfold HashModel.count. induction l as [|x l IH]; intros Hn Hin; [destruct Hin|].
  cbn [nodup_h] in Hn. apply andb_prop in Hn. destruct Hn as [Hx Hr]. apply negb_true_iff in Hx. apply mem_h_false in Hx.
  cbn [filter]. destruct (pystr_eqb r x) eqn:E.
  - apply HashProofsBase.pystr_eqb_eq in E. subst x. cbn [List.length]. f_equal.
    assert (Hf : filter (pystr_eqb r) l = []); [|rewrite Hf; reflexivity].
    apply filter_nil. intros y Hy. destruct (pystr_eqb r y) eqn:Ey; [|reflexivity].
    apply HashProofsBase.pystr_eqb_eq in Ey. subst y. contradiction.
  - destruct Hin as [->|Hin]; [rewrite HashProofsBase.pystr_eqb_refl in E; discriminate|]. apply IH; assumption.
Qed.

Lemma nth_rec_map' (f : value -> value -> path -> path -> res) xs i x : nth_error xs i = Some x -> nth_rec (map f xs) i = f x.
Proof.
  unfold nth_rec. revert i; induction xs as [|y r IH]; intros [|i]; cbn; try discriminate.
  - intros E; inversion E; reflexivity.
  - apply IH.
Qed.

(* ---------- the weights of diff_io ---------- *)
Section IOW.
Variable H : pystr -> pystr.
Variable udiff : pystr -> pystr -> pystr.
Variable skip excl : path -> bool.
Variable c : cfg.
Variable rep : bool.
Variable pairs : path -> list (nat * nat).
Hypothesis Hpriv : DiffModel.ignore_private c = true.

Notation D := (diff_io H udiff skip excl c rep pairs).
Notation hvv := (hv H c rep).

(* ---- one list / tuple level ---- *)
Section Level.
Variables xs ys : list value.
Variables p1 p2 : path.
Let hh1 := h1 H c rep xs.
Let hh2 := h2 H c rep ys.
Let f1 (h : pystr) : nat := cxo xs (first_of (indexes_of h hh1 0)).
Let f2 (h : pystr) : nat := cxo ys (first_of (indexes_of h hh2 0)).
Let recs := map D xs.

Hypothesis HX : forall i x, nth_error xs i = Some x -> forall y q2, wf y = true ->
  W1 (fst (D x y (snoc p1 (PIdx i)) q2)) <= count x /\ W2 (fst (D x y (snoc p1 (PIdx i)) q2)) <= count y.
Hypothesis HY : forall y, In y ys -> wf y = true.
(* a paired removed hash is not repeated in t1 (only needed when repetitions are reported) *)
Hypothesis HP : rep = true -> forall a rem r, partner H c rep pairs xs ys p1 a rem = Some r ->
  exists i, indexes_of r hh1 0 = [i].

Lemma partner_facts a rem r : partner H c rep pairs xs ys p1 a rem = Some r -> In r hh1 /\ In r rem.
Proof.
  unfold partner. destruct (find _ (pairs p1)) as [ji|]; [|discriminate].
  fold hh1. destruct (nth_error hh1 (snd ji)) as [r'|] eqn:E; [|discriminate].
  destruct (mem_h r' rem) eqn:Em; [|discriminate]. intros [= <-].
  split; [eapply nth_error_In; exact E | apply mem_h_In; exact Em].
Qed.

Lemma item_at1 r : In r hh1 -> exists x, nth_error xs (first_of (indexes_of r hh1 0)) = Some x /\ f1 r = count x.
Proof.
  intros Hin. pose proof (first_of_index r hh1 Hin) as E. unfold hh1, h1 in E.
  apply nth_error_map_inv in E. destruct E as [x [Ex _]]. exists x. split; [exact Ex|].
  unfold f1, cxo. fold hh1 in Ex. unfold hh1, h1. rewrite Ex. reflexivity.
Qed.
Lemma item_at2 a : In a hh2 -> exists y, nth_error ys (first_of (indexes_of a hh2 0)) = Some y /\ f2 a = count y /\ In y ys.
Proof.
  intros Hin. pose proof (first_of_index a hh2 Hin) as E. unfold hh2, h2 in E.
  apply nth_error_map_inv in E. destruct E as [y [Ey _]]. exists y. split; [exact Ey|].
  split; [unfold f2, cxo, hh2, h2; rewrite Ey; reflexivity | eapply nth_error_In; exact Ey].
Qed.

Definition one_ok (one : pystr -> list pystr -> res * list pystr) (a : pystr) : Prop :=
  forall rem, W1 (fst (fst (one a rem))) + sumf f1 (snd (one a rem)) <= sumf f1 rem /\
              W2 (fst (fst (one a rem))) <= f2 a.

Lemma added_loop_w one adds : (forall a, In a adds -> one_ok one a) ->
  forall rem, W1 (fst (fst (added_loop one adds rem))) + sumf f1 (snd (added_loop one adds rem)) <= sumf f1 rem /\
              W2 (fst (fst (added_loop one adds rem))) <= sumf f2 adds.
Proof.
  induction adds as [|a adds IH]; intros Hone rem; cbn [added_loop].
  - cbn [fst snd]. rewrite W1_nil, W2_nil. cbn. lia.
  - destruct (Hone a (or_introl eq_refl) rem) as [A B].
    destruct (one a rem) as [r1 rem1]. cbn [fst snd] in A, B.
    destruct (IH (fun x Hx => Hone x (or_intror Hx)) rem1) as [C E].
    destruct (added_loop one adds rem1) as [r2 rem2]. cbn [fst snd] in *.
    pose proof (W1_app2 r1 r2). pose proof (W2_app2 r1 r2). unfold sumf in *. cbn [fold_right]. lia.
Qed.

Lemma added_one_ok a : In a hh2 -> one_ok (added_one H skip c rep pairs recs xs ys p1 p2) a.
Proof.
  intros Ha rem. unfold added_one. fold hh1 hh2.
  destruct (item_at2 a Ha) as [y [Ey [Fy Iy]]].
  destruct (partner H c rep pairs xs ys p1 a rem) as [r|] eqn:Ep.
  - destruct (partner_facts a rem r Ep) as [Hr Hrem].
    destruct (item_at1 r Hr) as [x [Ex Fx]].
    unfold item2. rewrite Ey. unfold recs. rewrite (nth_rec_map' D xs _ x Ex). cbn [fst snd].
    destruct (HX _ x Ex y (snoc p2 (PIdx (first_of (indexes_of a hh2 0)))) (HY y Iy)) as [A B].
    pose proof (sumf_remove_le f1 r rem Hrem). lia.
  - cbn [fst snd]. unfold item2. rewrite Ey.
    destruct (W_add_block (rpt skip KIterAdd (snoc p1 (PIdx (first_of (indexes_of a hh2 0)))) (snoc p2 (PIdx (first_of (indexes_of a hh2 0)))) None (Some y) None)
                (render p1) (Some y)) as [A B].
    { intros e He. apply report_In in He. subst e. cbn [ekind]. rewrite pk_snoc. repeat split; reflexivity. }
    cbn [cnt_o] in B. lia.
Qed.

Lemma added_one_rep_ok a : rep = true -> In a hh2 -> one_ok (added_one_rep H skip c rep pairs recs xs ys p1 p2) a.
Proof.
  intros Hrep Ha rem. unfold added_one_rep. fold hh1 hh2.
  destruct (item_at2 a Ha) as [y [Ey [Fy Iy]]].
  destruct (partner H c rep pairs xs ys p1 a rem) as [r|] eqn:Ep.
  - destruct (partner_facts a rem r Ep) as [Hr Hrem].
    destruct (HP Hrep a rem r Ep) as [i0 Ei].
    destruct (item_at1 r Hr) as [x [Ex Fx]]. rewrite Ei in *. cbn [first_of hd] in *.
    unfold item2. rewrite Ey. cbn [fold_right]. unfold recs. rewrite (nth_rec_map' D xs _ x Ex). cbn [fst snd].
    match goal with |- context [D x y ?q1 ?q2] => destruct (HX _ x Ex y q2 (HY y Iy)) as [A B];
      pose proof (W1_app2 (D x y q1 q2) ([], [])); pose proof (W2_app2 (D x y q1 q2) ([], [])) end.
    cbn [fst] in *. rewrite W1_nil, W2_nil in *.
    pose proof (sumf_remove_le f1 r rem Hrem). lia.
  - cbn [fst snd]. unfold item2. rewrite Ey.
    match goal with |- context [W2 ?es] => destruct (W_add_block es (render p1) (Some y)) as [A B] end.
    { intros e He. apply in_flat_map in He. destruct He as [j [_ He]]. apply report_In in He. subst e.
      cbn [ekind]. rewrite pk_snoc. repeat split; reflexivity. }
    cbn [cnt_o] in B. lia.
Qed.

Lemma removed_one_w r : W1 (fst (removed_one H skip c rep xs p1 p2 r)) <= f1 r /\ W2 (fst (removed_one H skip c rep xs p1 p2 r)) <= 0.
Proof.
  unfold removed_one. cbn [fst]. fold hh1.
  match goal with |- context [W2 ?es] => destruct (W_rem_block es (render p1) (nth_error xs (first_of (indexes_of r hh1 0)))) as [A B] end.
  { intros e He. apply report_In in He. subst e. cbn [ekind]. rewrite pk_snoc. repeat split; reflexivity. }
  unfold f1, cxo. lia.
Qed.

Lemma removed_one_rep_w r : W1 (fst (removed_one_rep H skip c rep xs p1 p2 r)) <= f1 r /\ W2 (fst (removed_one_rep H skip c rep xs p1 p2 r)) <= 0.
Proof.
  unfold removed_one_rep. cbn [fst]. fold hh1.
  match goal with |- context [W2 ?es] => destruct (W_rem_block es (render p1) (nth_error xs (first_of (indexes_of r hh1 0)))) as [A B] end.
  { intros e He. apply in_flat_map in He. destruct He as [i [_ He]]. apply report_In in He. subst e.
    cbn [ekind]. rewrite pk_snoc. repeat split; reflexivity. }
  unfold f1, cxo. lia.
Qed.

Lemma repetition_one_w h : W1 (fst (repetition_one H skip c rep xs ys p1 p2 h)) <= f1 h /\ W2 (fst (repetition_one H skip c rep xs ys p1 p2 h)) <= 0.
Proof.
  unfold repetition_one. fold hh1 hh2.
  destruct (Nat.eqb _ _); [cbn [fst]; rewrite W1_nil, W2_nil; lia|].
  destruct (skip _); [cbn [fst]; rewrite W1_nil, W2_nil; lia|]. cbn [fst].
  match goal with |- context [W2 ?es] => destruct (W_rep_block es (render p1) (nth_error xs (first_of (indexes_of h hh1 0)))) as [A B] end.
  { intros e [<-|[]]. cbn [ekind]. rewrite pk_snoc. repeat split; reflexivity. }
  unfold f1, cxo. lia.
Qed.

Lemma added_in_h2 a : In a (hashes_added H c rep xs ys) -> In a hh2.
Proof. unfold hashes_added, t2_hashes. intros Ha. apply filter_In in Ha. destruct Ha as [Ha _]. apply (proj1 (dedup_In _ _)) in Ha. exact Ha. Qed.
Lemma removed_in_h1 r : In r (hashes_removed H c rep xs ys) -> In r hh1.
Proof. unfold hashes_removed, t1_hashes. intros Hr. apply filter_In in Hr. destruct Hr as [Hr _]. apply (proj1 (dedup_In _ _)) in Hr. exact Hr. Qed.
Lemma added_NoDup : NoDup (hashes_added H c rep xs ys).
Proof. unfold hashes_added. apply NoDup_filter. apply dedup_NoDup. Qed.
Lemma removed_NoDup : NoDup (hashes_removed H c rep xs ys).
Proof. unfold hashes_removed. apply NoDup_filter. apply dedup_NoDup. Qed.

Lemma f1_total hs : NoDup hs -> (forall h, In h hs -> In h hh1) -> sumf f1 hs <= sumc xs.
Proof. intros N Hin. apply (first_sum hvv xs hs N Hin). Qed.
Lemma f2_total hs : NoDup hs -> (forall h, In h hs -> In h hh2) -> sumf f2 hs <= sumc ys.
Proof. intros N Hin. apply (first_sum hvv ys hs N Hin). Qed.

Lemma iter_norep_w :
  W1 (fst (iter_norep H skip c rep pairs recs xs ys p1 p2)) <= sumc xs /\
  W2 (fst (iter_norep H skip c rep pairs recs xs ys p1 p2)) <= sumc ys.
Proof.
  unfold iter_norep.
  destruct (added_loop_w (added_one H skip c rep pairs recs xs ys p1 p2) (hashes_added H c rep xs ys)
              (fun a Ha => added_one_ok a (added_in_h2 a Ha)) (hashes_removed H c rep xs ys)) as [A B].
  destruct (added_loop _ _ _) as [ra rem']. cbn [fst snd] in A, B.
  destruct (W_concat_res (removed_one H skip c rep xs p1 p2) f1 (fun _ => 0) rem' (fun r _ => removed_one_w r)) as [C E].
  pose proof (W1_app2 ra (concat_res (map (removed_one H skip c rep xs p1 p2) rem'))).
  pose proof (W2_app2 ra (concat_res (map (removed_one H skip c rep xs p1 p2) rem'))).
  pose proof (f1_total _ removed_NoDup removed_in_h1). pose proof (f2_total _ added_NoDup added_in_h2).
  assert (Z : sumf (fun _ : pystr => 0) rem' = 0) by (clear; induction rem' as [|x r IH]; [reflexivity | cbn; exact IH]).
  lia.
Qed.

Lemma NoDup_app' {A} (a b : list A) : NoDup a -> NoDup b -> (forall x, In x a -> ~ In x b) -> NoDup (a ++ b).
Proof.
  induction 1 as [|x a Hx Na IH]; intros Nb Hd; [exact Nb|]. cbn [app]. constructor.
  - intros Hin. apply in_app_or in Hin. destruct Hin as [Hin|Hin]; [contradiction|]. apply (Hd x (or_introl eq_refl) Hin).
  - apply IH; [exact Nb|]. intros y Hy. apply Hd. right. exact Hy.
Qed.

Lemma iter_rep_w : rep = true ->
  W1 (fst (iter_rep H skip c rep pairs recs xs ys p1 p2)) <= sumc xs /\
  W2 (fst (iter_rep H skip c rep pairs recs xs ys p1 p2)) <= sumc ys.
Proof.
  intros Hrep. unfold iter_rep.
  destruct (added_loop_w (added_one_rep H skip c rep pairs recs xs ys p1 p2) (hashes_added H c rep xs ys)
              (fun a Ha => added_one_rep_ok a Hrep (added_in_h2 a Ha)) (hashes_removed H c rep xs ys)) as [A B].
  destruct (added_loop _ _ _) as [ra rem']. cbn [fst snd] in A, B.
  set (common := filter (fun h => mem_h h (t1_hashes H c rep xs)) (t2_hashes H c rep ys)).
  destruct (W_concat_res (removed_one_rep H skip c rep xs p1 p2) f1 (fun _ => 0) rem' (fun r _ => removed_one_rep_w r)) as [C E].
  destruct (W_concat_res (repetition_one H skip c rep xs ys p1 p2) f1 (fun _ => 0) common (fun r _ => repetition_one_w r)) as [C' E'].
  set (rr := concat_res (map (removed_one_rep H skip c rep xs p1 p2) rem')) in *.
  set (ri := concat_res (map (repetition_one H skip c rep xs ys p1 p2) common)) in *.
  pose proof (W1_app2 ra (app2 rr ri)). pose proof (W2_app2 ra (app2 rr ri)).
  pose proof (W1_app2 rr ri). pose proof (W2_app2 rr ri).
  assert (Nc : NoDup (hashes_removed H c rep xs ys ++ common)).
  { apply NoDup_app'; [apply removed_NoDup | apply NoDup_filter; apply dedup_NoDup |].
    intros x Hx Hc. unfold hashes_removed in Hx. apply filter_In in Hx. destruct Hx as [_ Hx].
    apply filter_In in Hc. destruct Hc as [Hc _]. apply negb_true_iff in Hx. apply mem_h_false in Hx. contradiction. }
  assert (Ic : forall h, In h (hashes_removed H c rep xs ys ++ common) -> In h hh1).
  { intros h Hh. apply in_app_or in Hh. destruct Hh as [Hh|Hh]; [apply removed_in_h1; exact Hh|].
    apply filter_In in Hh. destruct Hh as [_ Hh]. apply mem_h_In in Hh. unfold t1_hashes in Hh. apply (proj1 (dedup_In _ _)) in Hh. exact Hh. }
  pose proof (f1_total _ Nc Ic) as T1. rewrite sumf_app in T1.
  pose proof (f2_total _ added_NoDup added_in_h2).
  assert (Z : forall l : list pystr, sumf (fun _ : pystr => 0) l = 0) by (induction l as [|x r IH]; [reflexivity | cbn; exact IH]).
  rewrite Z in *. lia.
Qed.

Lemma iter_w :
  W1 (fst (iter_deephash H skip c rep pairs recs xs ys p1 p2)) <= sumc xs /\
  W2 (fst (iter_deephash H skip c rep pairs recs xs ys p1 p2)) <= sumc ys.
Proof.
  unfold iter_deephash. destruct (Bool.bool_dec rep true) as [E|E].
  - rewrite (if_true _ _ _ E). apply iter_rep_w. exact E.
  - apply not_true_is_false in E. rewrite (if_false _ _ _ E). apply iter_norep_w.
Qed.

End Level.

(* ---- equations of diff_io (any skip) ---- *)
Lemma dio_skip t1 t2 p1 p2 : skip p1 = true -> D t1 t2 p1 p2 = ([], []).
Proof. intros Hs. destruct t1; cbn; rewrite Hs; reflexivity. Qed.

Lemma dio_type_s t1 t2 p1 p2 :
  skip p1 = false -> ty_eqb (type_of t1) (type_of t2) = false ->
  D t1 t2 p1 p2 = (report skip KType p1 p2 (Some t1) (Some t2) None, []).
Proof. intros Hs T. destruct t1; cbn; rewrite Hs; cbn in T; rewrite T; reflexivity. Qed.

Lemma dio_atom_s a b p1 p2 :
  skip p1 = false -> ty_eqb (atom_ty a) (atom_ty b) = true ->
  D (VAtom a) (VAtom b) p1 p2 = (diff_atom udiff skip a b p1 p2, []).
Proof. intros Hs T. cbn. rewrite Hs. rewrite T. reflexivity. Qed.

Lemma recs_map_s xs :
  (fix go (l : list value) : list rec_fn :=
     match l with [] => [] | x :: r => D x :: go r end) xs = map D xs.
Proof. induction xs as [|x r IH]; cbn [map]; [reflexivity|]. rewrite IH. reflexivity. Qed.

Lemma dio_list_s xs ys p1 p2 : skip p1 = false ->
  D (VList xs) (VList ys) p1 p2 = iter_deephash H skip c rep pairs (map D xs) xs ys p1 p2.
Proof. intros Hs. cbn [diff_io type_of ty_eqb negb]. rewrite Hs. rewrite recs_map_s. reflexivity. Qed.
Lemma dio_tuple_s xs ys p1 p2 : skip p1 = false ->
  D (VTuple xs) (VTuple ys) p1 p2 = iter_deephash H skip c rep pairs (map D xs) xs ys p1 p2.
Proof. intros Hs. cbn [diff_io type_of ty_eqb negb]. rewrite Hs. rewrite recs_map_s. reflexivity. Qed.

Lemma dio_set_s xs ys p1 p2 : skip p1 = false ->
  D (VSet xs) (VSet ys) p1 p2 = (diff_set (hatom_io H c rep) skip xs ys p1 p2, []).
Proof. intros Hs. cbn. rewrite Hs. reflexivity. Qed.
Lemma dio_frozen_s xs ys p1 p2 : skip p1 = false ->
  D (VFrozen xs) (VFrozen ys) p1 p2 = (diff_set (hatom_io H c rep) skip xs ys p1 p2, []).
Proof. intros Hs. cbn. rewrite Hs. reflexivity. Qed.

Definition io_common_s (kvs2 : list (atom * value)) (k2 : list atom) (p1 p2 : path) :=
  fix go (l : list (atom * value)) : res :=
    match l with
    | [] => ([], [])
    | (k, v1) :: r =>
        let rest := go r in
        if keep_key c k then
          match find (py_eq k) k2 with
          | Some k' =>
              match assoc k' kvs2 with
              | Some v2 => app2 (D v1 v2 (snoc p1 (PKey k')) (snoc p2 (PKey k'))) rest
              | None => rest
              end
          | None => rest
          end
        else rest
    end.

Definition io_dict_s (kvs1 kvs2 : list (atom * value)) (p1 p2 : path) : res :=
  let k1 := keys_of c kvs1 in
  let k2 := keys_of c kvs2 in
  if dict_shortcut excl c k1 k2 p1 then (report skip KValue p1 p2 (Some (VDict kvs1)) (Some (VDict kvs2)) None, [])
  else
    let added := flat_map (fun k => if mem_atom k k1 then []
                   else report skip KDictAdd (snoc p1 (PKey k)) (snoc p2 (PKey k)) None (assoc k kvs2) None) k2 in
    let removed := flat_map (fun k => if mem_atom k k2 then []
                   else report skip KDictRem (snoc p1 (PKey k)) (snoc p2 (PKey k)) (assoc k kvs1) None None) k1 in
    let common := io_common_s kvs2 k2 p1 p2 kvs1 in
    (added ++ removed ++ fst common, snd common).

Lemma dio_dict_s kvs1 kvs2 p1 p2 : skip p1 = false ->
  D (VDict kvs1) (VDict kvs2) p1 p2 = io_dict_s kvs1 kvs2 p1 p2.
Proof. intros Hs. cbn. rewrite Hs. reflexivity. Qed.

(* ---- dictionaries ---- *)
Notation keep := (keep_key c).

Section DictIO.
Variables kvs1 kvs2 : list (atom * value).
Variables p1 p2 : path.
Hypothesis Wf1 : wf (VDict kvs1) = true.
Hypothesis Wf2 : wf (VDict kvs2) = true.
Let K1 := keys_of c kvs1.
Let K2 := keys_of c kvs2.

Lemma io_removed_w l : (forall kv, In kv l -> In kv kvs1) ->
  let removed := flat_map (fun k => if mem_atom k K2 then []
       else report skip KDictRem (snoc p1 (PKey k)) (snoc p2 (PKey k)) (assoc k kvs1) None None) (keys_of c l) in
  W1 removed <= sumf (fun kv => if keep (fst kv) && negb (mem_atom (fst kv) K2) then count (snd kv) else 0) l
  /\ W2 removed <= 0.
Proof.
  induction l as [|[k v] r IH]; intros Hin; cbn zeta in *; [cbn [keys_of map filter flat_map]; rewrite W1_nil, W2_nil; cbn; lia|].
  unfold keys_of in *. cbn [map filter fst]. cbn [sumf fold_right fst snd].
  destruct (IH (fun kv Hkv => Hin kv (or_intror Hkv))) as [A B].
  fold (sumf (fun kv => if keep (fst kv) && negb (mem_atom (fst kv) K2) then count (snd kv) else 0) r).
  destruct (keep k); cbn [andb flat_map]; [|unfold sumf in *; lia].
  match goal with |- W1 (?a ++ ?b) <= _ /\ _ => pose proof (W1_app a b); pose proof (W2_app a b) end.
  destruct (mem_atom k K2); cbn [negb]; [rewrite W1_nil, W2_nil in *; unfold sumf in *; lia|].
  assert (E : assoc k kvs1 = Some v).
  { eapply assoc_nodup; [apply wf_dict_nodup; exact Wf1 | apply Hin; left; reflexivity | apply py_eq_refl]. }
  rewrite E in *.
  destruct (W_report_plain skip KDictRem (snoc p1 (PKey k)) (snoc p2 (PKey k)) (Some v) None None eq_refl) as [C E'].
  cbn [cnt_o] in *. unfold sumf in *. lia.
Qed.

Lemma io_added_w l : (forall kv, In kv l -> In kv kvs2) ->
  let added := flat_map (fun k => if mem_atom k K1 then []
       else report skip KDictAdd (snoc p1 (PKey k)) (snoc p2 (PKey k)) None (assoc k kvs2) None) (keys_of c l) in
  W2 added <= sumf (fun kv => if keep (fst kv) && negb (mem_atom (fst kv) K1) then count (snd kv) else 0) l
  /\ W1 added <= 0.
Proof.
  induction l as [|[k v] r IH]; intros Hin; cbn zeta in *; [cbn [keys_of map filter flat_map]; rewrite W1_nil, W2_nil; cbn; lia|].
  unfold keys_of in *. cbn [map filter fst]. cbn [sumf fold_right fst snd].
  destruct (IH (fun kv Hkv => Hin kv (or_intror Hkv))) as [A B].
  fold (sumf (fun kv => if keep (fst kv) && negb (mem_atom (fst kv) K1) then count (snd kv) else 0) r).
  destruct (keep k); cbn [andb flat_map]; [|unfold sumf in *; lia].
  match goal with |- W2 (?a ++ ?b) <= _ /\ _ => pose proof (W1_app a b); pose proof (W2_app a b) end.
  destruct (mem_atom k K1); cbn [negb]; [rewrite W1_nil, W2_nil in *; unfold sumf in *; lia|].
  assert (E : assoc k kvs2 = Some v).
  { eapply assoc_nodup; [apply wf_dict_nodup; exact Wf2 | apply Hin; left; reflexivity | apply py_eq_refl]. }
  rewrite E in *.
  destruct (W_report_plain skip KDictAdd (snoc p1 (PKey k)) (snoc p2 (PKey k)) None (Some v) None eq_refl) as [C E'].
  cbn [cnt_o] in *. unfold sumf in *. lia.
Qed.

Definition WBv (k : atom) (v1 : value) : Prop :=
  forall k' v2, py_eq k k' = true -> wf v1 = true -> wf v2 = true ->
    W1 (fst (D v1 v2 (snoc p1 (PKey k')) (snoc p2 (PKey k')))) <= count v1 /\
    W2 (fst (D v1 v2 (snoc p1 (PKey k')) (snoc p2 (PKey k')))) <= count v2.

Lemma io_common_w1 l : Forall (fun kv => WBv (fst kv) (snd kv)) l -> (forall kv, In kv l -> In kv kvs1) ->
  W1 (fst (io_common_s kvs2 K2 p1 p2 l)) <=
  sumf (fun kv => if keep (fst kv) && mem_atom (fst kv) K2 then count (snd kv) else 0) l.
Proof.
  induction 1 as [|[k v1] r Hkv _ IH]; intros Hin; [cbn [io_common_s fst]; rewrite W1_nil; cbn; lia|].
  cbn [io_common_s sumf fold_right fst snd]. fold (io_common_s kvs2 K2 p1 p2 r).
  specialize (IH (fun kv Hk => Hin kv (or_intror Hk))).
  fold (sumf (fun kv => if keep (fst kv) && mem_atom (fst kv) K2 then count (snd kv) else 0) r).
  destruct (keep k); cbn [andb]; [|unfold sumf in *; lia].
  destruct (find (py_eq k) K2) as [k'|] eqn:F; [|unfold sumf in *; lia].
  destruct (find_mem _ _ _ F) as [Mm [Ekk' _]]. rewrite Mm.
  destruct (assoc k' kvs2) as [v2|] eqn:Ea; [|unfold sumf in *; lia].
  match goal with |- W1 (fst (app2 ?a ?b)) <= _ => pose proof (W1_app2 a b) end.
  apply assoc_In in Ea. destruct Ea as [k'' [Hk'' _]].
  assert (Wv1 : wf v1 = true) by (eapply wf_dict_values; [exact Wf1 | apply Hin; left; reflexivity]).
  assert (Wv2 : wf v2 = true) by (eapply wf_dict_values; [exact Wf2 | exact Hk'']).
  cbn [fst snd] in Hkv. destruct (Hkv k' v2 Ekk' Wv1 Wv2) as [B _].
  unfold sumf in *. lia.
Qed.

Definition S2io (l : list (atom * value)) : nat :=
  sumf (fun kv => if keep (fst kv) && mem_atom (fst kv) (map fst l) then count (snd kv) else 0) kvs2.

Lemma io_common_w2 l : Forall (fun kv => WBv (fst kv) (snd kv)) l -> (forall kv, In kv l -> In kv kvs1) ->
  nodup_atoms (map fst l) = true ->
  W2 (fst (io_common_s kvs2 K2 p1 p2 l)) <= S2io l.
Proof.
  induction 1 as [|[k v1] r Hkv _ IH]; intros Hin N; [cbn [io_common_s fst]; rewrite W2_nil; lia|].
  cbn [map fst nodup_atoms] in N. apply andb_prop in N. destruct N as [N0 N]. apply negb_true_iff in N0.
  specialize (IH (fun kv Hk => Hin kv (or_intror Hk)) N).
  assert (Mono : forall kv, In kv kvs2 ->
            (if keep (fst kv) && mem_atom (fst kv) (map fst r) then count (snd kv) else 0) <=
            (if keep (fst kv) && mem_atom (fst kv) (map fst ((k, v1) :: r)) then count (snd kv) else 0)).
  { intros kv _. cbn [map fst]. unfold mem_atom at 2. cbn [existsb]. fold (mem_atom (fst kv) (map fst r)).
    destruct (keep (fst kv)); cbn [andb]; [|lia].
    destruct (mem_atom (fst kv) (map fst r)); [rewrite orb_true_r; lia|]. destruct (py_eq (fst kv) k); cbn; lia. }
  assert (Weak : S2io r <= S2io ((k, v1) :: r)) by (apply sumf_le; exact Mono).
  cbn [io_common_s]. fold (io_common_s kvs2 K2 p1 p2 r).
  destruct (keep k) eqn:Kk; [|lia].
  destruct (find (py_eq k) K2) as [k'|] eqn:F; [|lia].
  destruct (find_mem _ _ _ F) as [_ [E _]].
  destruct (assoc k' kvs2) as [v2|] eqn:Ea; [|lia].
  match goal with |- W2 (fst (app2 ?a ?b)) <= _ => pose proof (W2_app2 a b) end.
  apply assoc_In in Ea. destruct Ea as [k'' [Hk'' E'']].
  assert (Wv1 : wf v1 = true) by (eapply wf_dict_values; [exact Wf1 | apply Hin; left; reflexivity]).
  assert (Wv2 : wf v2 = true) by (eapply wf_dict_values; [exact Wf2 | exact Hk'']).
  cbn [fst snd] in Hkv. destruct (Hkv k' v2 E Wv1 Wv2) as [_ B].
  assert (Ekk : py_eq k'' k = true).
  { eapply py_eq_trans; [exact E''|]. rewrite py_eq_sym. exact E. }
  assert (Step : S2io r + count v2 <= S2io ((k, v1) :: r)).
  { unfold S2io. apply (sumf_le_plus _ _ kvs2 (k'', v2)); [exact Hk'' | exact Mono |].
    cbn [fst snd map].
    assert (Mr : mem_atom k'' (map fst r) = false).
    { destruct (mem_atom k'' (map fst r)) eqn:Mm; [|reflexivity]. exfalso.
      assert (mem_atom k (map fst r) = true).
      { eapply mem_atom_py_eq; [|exact Mm]. rewrite py_eq_sym. exact Ekk. }
      congruence. }
    rewrite Mr. rewrite andb_false_r.
    assert (Kk'' : keep k'' = true) by (rewrite (keep_key_py_eq c k'' k Ekk); exact Kk).
    rewrite Kk''. unfold mem_atom. cbn [existsb]. rewrite Ekk. cbn. lia. }
  lia.
Qed.

Lemma io_dict_w : Forall (fun kv => WBv (fst kv) (snd kv)) kvs1 ->
  W1 (fst (io_dict_s kvs1 kvs2 p1 p2)) <= count (VDict kvs1) /\
  W2 (fst (io_dict_s kvs1 kvs2 p1 p2)) <= count (VDict kvs2).
Proof.
  intros HF. unfold io_dict_s. fold K1 K2.
  destruct (dict_shortcut excl c K1 K2 p1).
  - cbn [fst]. apply (W_report_plain skip KValue p1 p2 (Some (VDict kvs1)) (Some (VDict kvs2)) None eq_refl).
  - cbn [fst].
    destruct (io_removed_w kvs1 (fun kv Hkv => Hkv)) as [R1 R2].
    destruct (io_added_w kvs2 (fun kv Hkv => Hkv)) as [A2 A1'].
    pose proof (io_common_w1 kvs1 HF (fun kv Hkv => Hkv)) as C1.
    pose proof (io_common_w2 kvs1 HF (fun kv Hkv => Hkv) (wf_dict_nodup _ Wf1)) as C2.
    cbn zeta in R1, R2, A1', A2. change (keys_of c kvs2) with K2 in A1', A2. change (keys_of c kvs1) with K1 in R1, R2.
    pose proof (count_dict_keep c Hpriv kvs1) as D1. pose proof (count_dict_keep c Hpriv kvs2) as D2.
    match goal with |- W1 (?a ++ ?b ++ ?d) <= _ /\ _ =>
      pose proof (W1_app a (b ++ d)); pose proof (W1_app b d); pose proof (W2_app a (b ++ d)); pose proof (W2_app b d) end.
    split.
    + assert (sumf (fun kv => if keep (fst kv) && negb (mem_atom (fst kv) K2) then count (snd kv) else 0) kvs1 +
              sumf (fun kv => if keep (fst kv) && mem_atom (fst kv) K2 then count (snd kv) else 0) kvs1 <= sumf (wkeep c) kvs1).
      { rewrite sumf_add. apply sumf_le. intros kv _. unfold wkeep.
        destruct (keep (fst kv)); cbn [andb]; [|lia]. destruct (mem_atom (fst kv) K2); cbn; lia. }
      lia.
    + assert (sumf (fun kv => if keep (fst kv) && negb (mem_atom (fst kv) K1) then count (snd kv) else 0) kvs2 +
              S2io kvs1 <= sumf (wkeep c) kvs2).
      { unfold S2io. rewrite sumf_add. apply sumf_le. intros kv _. unfold wkeep.
        destruct (keep (fst kv)) eqn:Kk; cbn [andb]; [|lia].
        unfold K1. rewrite (mem_keys_of c kvs1 (fst kv) Kk).
        destruct (mem_atom (fst kv) (map fst kvs1)); cbn; lia. }
      lia.
Qed.
End DictIO.


(* ---- the guard is inherited by items and values ---- *)
Lemma uniq_list_inv xs v : (v = VList xs \/ v = VTuple xs) -> uniq_items H c rep v = true ->
  nodup_h (map hvv xs) = true /\ forall x, In x xs -> uniq_items H c rep x = true.
Proof.
  intros Hv U. assert (U' : nodup_h (map hvv xs) &&
     (fix go (l : list value) : bool := match l with [] => true | x :: r => uniq_items H c rep x && go r end) xs = true)
    by (destruct Hv as [-> | ->]; exact U).
  apply andb_prop in U'. destruct U' as [U1 U2]. split; [exact U1|]. clear U U1 Hv.
  induction xs as [|y r IH]; intros x Hx; [destruct Hx|]. apply andb_prop in U2. destruct U2 as [Uy Ur].
  destruct Hx as [<-|Hx]; [exact Uy | apply IH; assumption].
Qed.
Lemma uniq_dict_inv kvs : uniq_items H c rep (VDict kvs) = true -> forall kv, In kv kvs -> uniq_items H c rep (snd kv) = true.
Proof.
  cbn [uniq_items]. induction kvs as [|kv0 r IH]; intros U kv Hkv; [destruct Hkv|].
  apply andb_prop in U. destruct U as [U0 Ur]. destruct Hkv as [<-|Hkv]; [exact U0 | apply IH; assumption].
Qed.

Lemma guard_item xs v x : (v = VList xs \/ v = VTuple xs) -> io_guard H c rep pairs v -> In x xs -> io_guard H c rep pairs x.
Proof.
  intros Hv [G|[G|G]] Hx; [left; exact G | right; left; exact G | right; right].
  destruct (uniq_list_inv xs v Hv G) as [_ U]. apply U. exact Hx.
Qed.
Lemma guard_value kvs kv : io_guard H c rep pairs (VDict kvs) -> In kv kvs -> io_guard H c rep pairs (snd kv).
Proof.
  intros [G|[G|G]] Hx; [left; exact G | right; left; exact G | right; right]. apply (uniq_dict_inv kvs G kv Hx).
Qed.

Lemma guard_partner xs ys v p1 : (v = VList xs \/ v = VTuple xs) -> io_guard H c rep pairs v ->
  rep = true -> forall a rem r, partner H c rep pairs xs ys p1 a rem = Some r ->
  exists i, indexes_of r (h1 H c rep xs) 0 = [i].
Proof.
  intros Hv G Hrep a rem r Ep. destruct G as [G|[G|G]].
  - congruence.
  - unfold partner in Ep. rewrite G in Ep. discriminate.
  - destruct (uniq_list_inv xs v Hv G) as [U _].
    destruct (partner_facts xs ys p1 a rem r Ep) as [Hr _].
    pose proof (nodup_h_count _ r U Hr) as Cn. rewrite <- (indexes_length r _ 0) in Cn.
    unfold h1. destruct (indexes_of r (map hvv xs) 0) as [|i [|j l]]; try discriminate Cn. exists i. reflexivity.
Qed.

Lemma diff_atom_plain a b p1 p2 e : In e (diff_atom udiff skip a b p1 p2) -> plain (ekind e) = true.
Proof.
  unfold diff_atom, report. destruct (skip p1); [intros []|].
  destruct (negb _); [intros [<-|[]]; reflexivity|].
  destruct a, b; try (destruct (py_eq _ _); [intros [] | intros [<-|[]]; reflexivity]);
    (destruct (diff_str _ _ _ _) as [[|] d]; [intros [<-|[]]; reflexivity | intros []]).
Qed.
Lemma diff_set_plain hatom xs ys p1 p2 e : In e (diff_set hatom skip xs ys p1 p2) -> plain (ekind e) = true.
Proof.
  unfold diff_set. intros He. apply in_app_or in He. destruct He as [He|He]; apply in_flat_map in He; destruct He as [a [_ He]];
    (destruct (existsb _ _); [destruct He|]); unfold report_set in He; (destruct (skip p1); [destruct He|]);
    destruct He as [<-|[]]; reflexivity.
Qed.

Lemma wf_items xs v x : (v = VList xs \/ v = VTuple xs) -> wf v = true -> In x xs -> wf x = true.
Proof.
  intros [-> | ->] W Hx; cbn [wf] in W; rewrite forallb_forall in W; apply W; exact Hx.
Qed.

(* ---- the induction, for any guard family that is inherited along the recursion ---- *)
Section Gen.
Variable GP : value -> path -> Prop.
Hypothesis GP_item : forall v xs p i x, (v = VList xs \/ v = VTuple xs) -> GP v p -> nth_error xs i = Some x -> GP x (snoc p (PIdx i)).
Hypothesis GP_value : forall kvs p k v k', GP (VDict kvs) p -> In (k, v) kvs -> py_eq k k' = true -> GP v (snoc p (PKey k')).
Hypothesis GP_partner : forall v xs ys p, (v = VList xs \/ v = VTuple xs) -> GP v p -> rep = true ->
  forall a rem r, partner H c rep pairs xs ys p a rem = Some r -> exists i, indexes_of r (h1 H c rep xs) 0 = [i].

Definition WBg (t1 : value) : Prop :=
  forall t2 p1 p2, wf t1 = true -> wf t2 = true -> GP t1 p1 ->
    W1 (fst (D t1 t2 p1 p2)) <= count t1 /\ W2 (fst (D t1 t2 p1 p2)) <= count t2.

Lemma seq_level xs ys v w p1 p2 : (v = VList xs \/ v = VTuple xs) -> (w = VList ys \/ w = VTuple ys) ->
  Forall WBg xs -> wf v = true -> wf w = true -> GP v p1 ->
  W1 (fst (iter_deephash H skip c rep pairs (map D xs) xs ys p1 p2)) <= count v /\
  W2 (fst (iter_deephash H skip c rep pairs (map D xs) xs ys p1 p2)) <= count w.
Proof.
  intros Hv Hw IH Wf1 Wf2 G.
  destruct (iter_w xs ys p1 p2) as [A B].
  - intros i x Ex y q2 Wy. pose proof (nth_error_In _ _ Ex) as Hx.
    rewrite Forall_forall in IH. apply (IH x Hx y (snoc p1 (PIdx i)) q2 (wf_items xs v x Hv Wf1 Hx) Wy (GP_item v xs p1 i x Hv G Ex)).
  - intros y Hy. apply (wf_items ys w y Hw Wf2 Hy).
  - apply (GP_partner v xs ys p1 Hv G).
  - assert (count v = S (sumc xs)) by (destruct Hv as [-> | ->]; reflexivity).
    assert (count w = S (sumc ys)) by (destruct Hw as [-> | ->]; reflexivity). lia.
Qed.

Theorem io_weights_gen : forall t1, WBg t1.
Proof.
  induction t1 as [a|xs IH|xs IH|kvs IH|xs|xs] using value_ind'; intros t2 p1 p2 Wf1 Wf2 G;
    (destruct (skip p1) eqn:Hs; [rewrite dio_skip by exact Hs; cbn [fst]; rewrite W1_nil, W2_nil; lia|]);
    (match goal with |- context [D ?t1 t2 _ _] => destruct (ty_eqb (type_of t1) (type_of t2)) eqn:T end;
     [|rewrite dio_type_s by assumption; cbn [fst];
       match goal with |- context [report skip KType ?a ?b (Some ?x) (Some ?y) None] =>
         apply (W_report_plain skip KType a b (Some x) (Some y) None eq_refl) end]).
  all: destruct t2; try discriminate T; try (destruct a; discriminate T).
  - cbn [type_of] in T. rewrite dio_atom_s by assumption. cbn [fst].
    destruct (W_le_w (diff_atom udiff skip a a0 p1 p2) (diff_atom_plain a a0 p1 p2)).
    destruct (diff_atom_w udiff skip a a0 p1 p2). cbn [count]. lia.
  - rewrite dio_list_s by exact Hs. apply (seq_level xs xs0 _ _ p1 p2 (or_introl eq_refl) (or_introl eq_refl) IH Wf1 Wf2 G).
  - rewrite dio_tuple_s by exact Hs. apply (seq_level xs xs0 _ _ p1 p2 (or_intror eq_refl) (or_intror eq_refl) IH Wf1 Wf2 G).
  - rewrite dio_dict_s by exact Hs. apply io_dict_w; try assumption.
    rewrite Forall_forall in *. intros [k v] Hkv k' v2 Ek Wv1 Wv2. cbn [fst snd] in *.
    apply (IH (k, v) Hkv v2 (snoc p1 (PKey k')) (snoc p2 (PKey k')) Wv1 Wv2 (GP_value kvs p1 k v k' G Hkv Ek)).
  - rewrite dio_set_s by exact Hs. cbn [fst count].
    destruct (W_le_w _ (diff_set_plain (hatom_io H c rep) xs xs0 p1 p2)). destruct (diff_set_w (hatom_io H c rep) skip xs xs0 p1 p2). lia.
  - rewrite dio_frozen_s by exact Hs. cbn [fst count].
    destruct (W_le_w _ (diff_set_plain (hatom_io H c rep) xs xs0 p1 p2)). destruct (diff_set_w (hatom_io H c rep) skip xs xs0 p1 p2). lia.
Qed.
End Gen.

(* instance 1: the guard on the inputs *)
Definition WBio (t1 : value) : Prop :=
  forall t2 p1 p2, wf t1 = true -> wf t2 = true -> io_guard H c rep pairs t1 ->
    W1 (fst (D t1 t2 p1 p2)) <= count t1 /\ W2 (fst (D t1 t2 p1 p2)) <= count t2.

Theorem io_weights : forall t1, WBio t1.
Proof.
  intros t1 t2 p1 p2 Wf1 Wf2 G.
  apply (io_weights_gen (fun v _ => io_guard H c rep pairs v)); try assumption.
  - intros v xs p i x Hv Gv Ex. apply (guard_item xs v x Hv Gv (nth_error_In _ _ Ex)).
  - intros kvs p k v k' Gv Hin _. apply (guard_value kvs (k, v) Gv Hin).
  - intros v xs ys p Hv Gv. apply (guard_partner xs ys v p Hv Gv).
Qed.

(* instance 2: every pair the oracle lists at a level that can be reached points at an unrepeated removed item *)
Inductive reach : value -> path -> list value -> Prop :=
| reach_list xs : reach (VList xs) [] xs
| reach_tuple xs : reach (VTuple xs) [] xs
| reach_in_list xs i x q zs : nth_error xs i = Some x -> reach x q zs -> reach (VList xs) (PIdx i :: q) zs
| reach_in_tuple xs i x q zs : nth_error xs i = Some x -> reach x q zs -> reach (VTuple xs) (PIdx i :: q) zs
| reach_in_dict kvs k v k' q zs : In (k, v) kvs -> py_eq k k' = true -> reach v q zs -> reach (VDict kvs) (PKey k' :: q) zs.

Definition level_ok (xs : list value) (ps : list (nat * nat)) : bool :=
  forallb (fun ji => match nth_error (h1 H c rep xs) (snd ji) with
                     | Some r => Nat.eqb (HashModel.count r (h1 H c rep xs)) 1
                     | None => true
                     end) ps.
Definition pairs_unrep (t1 : value) (p1 : path) : Prop :=
  forall q zs, reach t1 q zs -> level_ok zs (pairs (p1 ++ q)) = true.

Theorem io_weights_pairs : forall t1 t2 p1 p2, wf t1 = true -> wf t2 = true -> pairs_unrep t1 p1 ->
  W1 (fst (D t1 t2 p1 p2)) <= count t1 /\ W2 (fst (D t1 t2 p1 p2)) <= count t2.
Proof.
  intros t1 t2 p1 p2 Wf1 Wf2 G.
  apply (io_weights_gen pairs_unrep); try assumption.
  - intros v xs p i x Hv Gv Ex q zs R. unfold snoc. rewrite <- app_assoc. cbn [app]. apply Gv.
    destruct Hv as [-> | ->]; [eapply reach_in_list | eapply reach_in_tuple]; eassumption.
  - intros kvs p k v k' Gv Hin Ek q zs R. unfold snoc. rewrite <- app_assoc. cbn [app]. apply Gv.
    eapply reach_in_dict; eassumption.
  - intros v xs ys p Hv Gv _ a rem r Ep.
    assert (L : level_ok xs (pairs p) = true).
    { rewrite <- (app_nil_r p). apply Gv. destruct Hv as [-> | ->]; constructor. }
    unfold partner in Ep. destruct (find _ (pairs p)) as [ji|] eqn:F; [|discriminate].
    apply find_some in F. destruct F as [Hji _].
    unfold level_ok in L. rewrite forallb_forall in L. specialize (L ji Hji).
    destruct (nth_error (h1 H c rep xs) (snd ji)) as [r'|] eqn:En; [|discriminate].
    destruct (mem_h r' rem); [|discriminate]. injection Ep as <-.
    apply Nat.eqb_eq in L. rewrite <- (indexes_length r' _ 0) in L.
    destruct (indexes_of r' (h1 H c rep xs) 0) as [|i [|j l]]; try discriminate L. exists i. reflexivity.
Qed.

End IOW.

(* ---------- DeepDiff(t1, t2, ignore_order=True, get_deep_distance=True) ---------- *)
Theorem deep_distance_io_range :
  forall H udiff skip excl c rep pairs incl cutoff t1 t2 n m,
    DiffModel.ignore_private c = true -> wf t1 = true -> wf t2 = true ->
    io_guard H c rep pairs t1 ->
    tcs_ok incl (fst (diff_io H udiff skip excl c rep pairs t1 t2 [] [])) = true ->
    deep_distance_of_diff_io H udiff skip excl c rep pairs incl cutoff t1 t2 = RFrac n m ->
    0 < n /\ n <= m.
Proof.
  intros H udiff skip excl c rep pairs incl cutoff t1 t2 n m P Wf1 Wf2 G T E.
  unfold deep_distance_of_diff_io in E. split; [eapply rough_frac_positive; exact E|].
  unfold rough_distance in E.
  destruct (root_numeric (RVal t1) (RVal t2) cutoff); [discriminate|].
  destruct (item_length _) as [[|k]|e] eqn:L; try discriminate.
  injection E as <- <-. cbn [root_count].
  pose proof (io_ops_bound incl _ (snd (diff_io H udiff skip excl c rep pairs t1 t2 [] [])) T _ L) as B.
  destruct (io_weights H udiff skip excl c rep pairs P t1 t2 [] [] Wf1 Wf2 G) as [A1' A2']. lia.
Qed.

(* the two unconditional instances *)
Corollary deep_distance_io_range_norep :
  forall H udiff skip excl c pairs incl cutoff t1 t2 n m,
    DiffModel.ignore_private c = true -> wf t1 = true -> wf t2 = true ->
    tcs_ok incl (fst (diff_io H udiff skip excl c false pairs t1 t2 [] [])) = true ->
    deep_distance_of_diff_io H udiff skip excl c false pairs incl cutoff t1 t2 = RFrac n m ->
    0 < n /\ n <= m.
Proof.
  intros H udiff skip excl c pairs incl cutoff t1 t2 n m P W1' W2' T E.
  apply (deep_distance_io_range H udiff skip excl c false pairs incl cutoff t1 t2 n m P W1' W2' (or_introl eq_refl) T E).
Qed.

Corollary deep_distance_io_range_unpaired :
  forall H udiff skip excl c rep incl cutoff t1 t2 n m,
    DiffModel.ignore_private c = true -> wf t1 = true -> wf t2 = true ->
    tcs_ok incl (fst (diff_io H udiff skip excl c rep (fun _ => []) t1 t2 [] [])) = true ->
    deep_distance_of_diff_io H udiff skip excl c rep (fun _ => []) incl cutoff t1 t2 = RFrac n m ->
    0 < n /\ n <= m.
Proof.
  intros H udiff skip excl c rep incl cutoff t1 t2 n m P W1' W2' T E.
  apply (deep_distance_io_range H udiff skip excl c rep (fun _ => []) incl cutoff t1 t2 n m P W1' W2'
           (or_intror (or_introl (fun _ => eq_refl))) T E).
Qed.

(* the distance used for pairing when repetitions are reported: the nested run is not rewritten *)
Theorem pair_distance_rep_range :
  forall H udiff skip excl c pairs incl cutoff x y n m,
    DiffModel.ignore_private c = true -> wf x = true -> wf y = true ->
    io_guard H c true pairs x ->
    tcs_ok incl (fst (diff_io H udiff skip excl c true pairs x y [] [])) = true ->
    pair_distance H udiff skip excl c true pairs incl cutoff x y = RFrac n m ->
    0 < n /\ n <= m.
Proof.
  intros H udiff skip excl c pairs incl cutoff x y n m P Wx Wy G T E.
  apply (deep_distance_io_range H udiff skip excl c true pairs incl cutoff x y n m P Wx Wy G T).
  unfold pair_distance, run_diff_io in E. unfold deep_distance_of_diff_io.
  destruct (diff_io H udiff skip excl c true pairs x y [] []) as [es rs]. exact E.
Qed.

(* ---------- the guard is needed: a paired item repeated in t1 ---------- *)
Definition ex_cfg_io : cfg := mkCfg false 33 100 true.
Definition I (z : Z) : value := VAtom (AInt z).
Definition k28_t1 : value := VList (repeat (VList [I 1]) 8).
Definition k28_t2 : value := VList [VList [I 1; I 2; I 3; I 4]].
Definition k28_pairs (p : path) : list (nat * nat) := match p with [] => [(0, 0)] | _ => [] end.

Theorem deep_distance_io_rep_refuted :
  wf k28_t1 = true /\ wf k28_t2 = true /\
  valid_pairs_at hexhash ex_cfg_io true (repeat (VList [I 1]) 8) [VList [I 1; I 2; I 3; I 4]] (k28_pairs []) = true /\
  tcs_ok (fun _ _ => true)
    (fst (diff_io hexhash (fun _ _ => []) (fun _ => false) (fun _ => false) ex_cfg_io true k28_pairs k28_t1 k28_t2 [] [])) = true /\
  deep_distance_of_diff_io hexhash (fun _ _ => []) (fun _ => false) (fun _ => false) ex_cfg_io true k28_pairs
    (fun _ _ => true) PrimFloat.one k28_t1 k28_t2 = RFrac 24 23.
Proof. repeat split; vm_compute; reflexivity. Qed.

(* the same inputs without report_repetition, and with it but unpaired, are inside the theorem *)
Example deep_distance_io_k28_other_modes :
  deep_distance_of_diff_io hexhash (fun _ _ => []) (fun _ => false) (fun _ => false) ex_cfg_io false k28_pairs
    (fun _ _ => true) PrimFloat.one k28_t1 k28_t2 = RFrac 3 23 /\
  deep_distance_of_diff_io hexhash (fun _ _ => []) (fun _ => false) (fun _ => false) ex_cfg_io true (fun _ => [])
    (fun _ _ => true) PrimFloat.one k28_t1 k28_t2 = RFrac 5 23.
Proof. split; vm_compute; reflexivity. Qed.

(* the guard is satisfiable with pairs in use: [[1,2],7] vs [[1,2,3],7,7], items 0 paired;
   without report_repetition: one added item; with it: the added item and the repeated 7 (two new indexes, one object) *)
Definition exg_t1 : value := VList [VList [I 1; I 2]; I 7].
Definition exg_t2 : value := VList [VList [I 1; I 2; I 3]; I 7; I 7].
Example deep_distance_io_guard_satisfiable :
  uniq_items hexhash ex_cfg_io true exg_t1 = true /\
  valid_pairs_at hexhash ex_cfg_io true [VList [I 1; I 2]; I 7] [VList [I 1; I 2; I 3]; I 7; I 7] (k28_pairs []) = true /\
  deep_distance_of_diff_io hexhash (fun _ _ => []) (fun _ => false) (fun _ => false) ex_cfg_io false k28_pairs
    (fun _ _ => true) PrimFloat.one exg_t1 exg_t2 = RFrac 1 12 /\
  deep_distance_of_diff_io hexhash (fun _ _ => []) (fun _ => false) (fun _ => false) ex_cfg_io true k28_pairs
    (fun _ _ => true) PrimFloat.one exg_t1 exg_t2 = RFrac 2 12.
Proof. repeat split; vm_compute; reflexivity. Qed.

(* the unguarded statement is false: report_repetition, a valid pairing, every other hypothesis of the theorem *)
Theorem deep_distance_io_unguarded_refuted :
  exists H udiff skip excl c pairs incl cutoff t1 t2 n m,
    DiffModel.ignore_private c = true /\ wf t1 = true /\ wf t2 = true /\
    (forall xs ys, t1 = VList xs -> t2 = VList ys -> valid_pairs_at H c true xs ys (pairs []) = true) /\
    tcs_ok incl (fst (diff_io H udiff skip excl c true pairs t1 t2 [] [])) = true /\
    deep_distance_of_diff_io H udiff skip excl c true pairs incl cutoff t1 t2 = RFrac n m /\ m < n.
Proof.
  exists hexhash, (fun _ _ => []), (fun _ => false), (fun _ => false), ex_cfg_io, k28_pairs, (fun _ _ => true), PrimFloat.one,
    k28_t1, k28_t2, 24, 23.
  destruct deep_distance_io_rep_refuted as [A [B [C [D0 E]]]].
  repeat split; try assumption; try lia.
  intros xs ys [= <-] [= <-]. exact C.
Qed.

(* ---------- the guard on the pairing itself ----------
   [pairs_unrep]: at every list / tuple reachable in t1, every pair the oracle lists points at a removed item whose hash
   occurs once there.  Implied by each disjunct of [io_guard] for report_repetition=True and much weaker than
   [uniq_items]: repeated items that are not paired (reported as removed or as repetition changes) are allowed. *)
Theorem deep_distance_io_range_pairs :
  forall H udiff skip excl c rep pairs incl cutoff t1 t2 n m,
    DiffModel.ignore_private c = true -> wf t1 = true -> wf t2 = true ->
    pairs_unrep H c rep pairs t1 [] ->
    tcs_ok incl (fst (diff_io H udiff skip excl c rep pairs t1 t2 [] [])) = true ->
    deep_distance_of_diff_io H udiff skip excl c rep pairs incl cutoff t1 t2 = RFrac n m ->
    0 < n /\ n <= m.
Proof.
  intros H udiff skip excl c rep pairs incl cutoff t1 t2 n m P Wf1 Wf2 G T E.
  unfold deep_distance_of_diff_io in E. split; [eapply rough_frac_positive; exact E|].
  unfold rough_distance in E.
  destruct (root_numeric (RVal t1) (RVal t2) cutoff); [discriminate|].
  destruct (item_length _) as [[|k]|e] eqn:L; try discriminate.
  injection E as <- <-. cbn [root_count].
  pose proof (io_ops_bound incl _ (snd (diff_io H udiff skip excl c rep pairs t1 t2 [] [])) T _ L) as B.
  destruct (io_weights_pairs H udiff skip excl c rep pairs P t1 t2 [] [] Wf1 Wf2 G) as [A1' A2']. lia.
Qed.

(* the refuted witness is outside it, and it is satisfiable where [uniq_items] fails:
   [[1,2],7,7] vs [[1,2,3],7], items 0 paired, the repeated 7 is a repetition change *)
Definition exp_t1 : value := VList [VList [I 1; I 2]; I 7; I 7].
Definition exp_t2 : value := VList [VList [I 1; I 2; I 3]; I 7].
Example pairs_unrep_examples :
  level_ok hexhash ex_cfg_io true (repeat (VList [I 1]) 8) (k28_pairs []) = false /\
  uniq_items hexhash ex_cfg_io true exp_t1 = false /\
  pairs_unrep hexhash ex_cfg_io true k28_pairs exp_t1 [] /\
  deep_distance_of_diff_io hexhash (fun _ _ => []) (fun _ => false) (fun _ => false) ex_cfg_io true k28_pairs
    (fun _ _ => true) PrimFloat.one exp_t1 exp_t2 = RFrac 2 12.
Proof.
  split; [vm_compute; reflexivity|]. split; [vm_compute; reflexivity|]. split; [|vm_compute; reflexivity].
  intros q zs R. destruct q as [|k q]; [|reflexivity].
  inversion R; subst. vm_compute. reflexivity.
Qed.

Theorem pair_distance_rep_range_pairs :
  forall H udiff skip excl c pairs incl cutoff x y n m,
    DiffModel.ignore_private c = true -> wf x = true -> wf y = true ->
    pairs_unrep H c true pairs x [] ->
    tcs_ok incl (fst (diff_io H udiff skip excl c true pairs x y [] [])) = true ->
    pair_distance H udiff skip excl c true pairs incl cutoff x y = RFrac n m ->
    0 < n /\ n <= m.
Proof.
  intros H udiff skip excl c pairs incl cutoff x y n m P Wx Wy G T E.
  apply (deep_distance_io_range_pairs H udiff skip excl c true pairs incl cutoff x y n m P Wx Wy G T).
  unfold pair_distance, run_diff_io in E. unfold deep_distance_of_diff_io.
  destruct (diff_io H udiff skip excl c true pairs x y [] []) as [es rs]. exact E.
Qed.

(* nothing paired: the guard holds trivially *)
Lemma pairs_unrep_unpaired H c rep t1 p1 : pairs_unrep H c rep (fun _ => []) t1 p1.
Proof. intros q zs _. reflexivity. Qed.

(* the guard on the inputs implies the guard on the pairing *)
Lemma uniq_pairs_unrep H c rep pairs t1 : uniq_items H c rep t1 = true -> forall p1, pairs_unrep H c rep pairs t1 p1.
Proof.
  intros U p1 q zs R. revert p1 U. induction R as [xs|xs|xs i x q zs Ex R IH|xs i x q zs Ex R IH|kvs k v k' q zs Hin Ek R IH]; intros p1 U.
  - destruct (uniq_list_inv H c rep xs (VList xs) (or_introl eq_refl) U) as [N _].
    unfold level_ok. apply forallb_forall. intros ji _. unfold h1.
    destruct (nth_error (map (hv H c rep) xs) (snd ji)) as [r|] eqn:E; [|reflexivity].
    apply Nat.eqb_eq. apply nodup_h_count; [exact N | eapply nth_error_In; exact E].
  - destruct (uniq_list_inv H c rep xs (VTuple xs) (or_intror eq_refl) U) as [N _].
    unfold level_ok. apply forallb_forall. intros ji _. unfold h1.
    destruct (nth_error (map (hv H c rep) xs) (snd ji)) as [r|] eqn:E; [|reflexivity].
    apply Nat.eqb_eq. apply nodup_h_count; [exact N | eapply nth_error_In; exact E].
  - destruct (uniq_list_inv H c rep xs (VList xs) (or_introl eq_refl) U) as [_ Ux].
    replace (p1 ++ PIdx i :: q) with ((p1 ++ [PIdx i]) ++ q) by (rewrite <- app_assoc; reflexivity).
    apply IH. apply Ux. eapply nth_error_In; exact Ex.
  - destruct (uniq_list_inv H c rep xs (VTuple xs) (or_intror eq_refl) U) as [_ Ux].
    replace (p1 ++ PIdx i :: q) with ((p1 ++ [PIdx i]) ++ q) by (rewrite <- app_assoc; reflexivity).
    apply IH. apply Ux. eapply nth_error_In; exact Ex.
  - replace (p1 ++ PKey k' :: q) with ((p1 ++ [PKey k']) ++ q) by (rewrite <- app_assoc; reflexivity).
    apply IH. apply (uniq_dict_inv H c rep kvs U (k, v) Hin).
Qed.

Theorem io_guard_pairs_unrep H c rep pairs t1 :
  ((forall p, pairs p = []) \/ uniq_items H c rep t1 = true) -> pairs_unrep H c rep pairs t1 [].
Proof.
  intros [E|U]; [|apply uniq_pairs_unrep; exact U]. intros q zs _. rewrite E. reflexivity.
Qed.

(** Correspondence-side functions for C19 (no theorem depends on this file):
    exact float literals from (sign, mantissa, exponent), sx renderings of the
    model results. *)
From Coq Require Import List ZArith NArith Bool String.
From Coq Require Import PrimFloat Uint63 SpecFloat FloatOps.
Import ListNotations.
From DD Require Import Base.Sx Base.PyStr Base.Value Dist.DistModel.
Local Open Scope string_scope.

(* the binary64 value (-1)^s * m * 2^e, (m, e) in canonical form as Python
   decodes it from the IEEE bits; m = 0 stands for a zero *)
Definition mkf (s : bool) (m e : Z) : float :=
  match m with
  | Zpos p => SF2Prim (S754_finite s p e)
  | _ => if s then neg_zero else zero
  end.
Definition finf (s : bool) : float := if s then neg_infinity else infinity.

Definition sx_float (f : float) : sx :=
  match Prim2SF f with
  | S754_zero s => SL [SA "z"; sx_bool s]
  | S754_infinity s => SL [SA "inf"; sx_bool s]
  | S754_nan => SA "nan"
  | S754_finite s m e => SL [SA "f"; sx_bool s; SZ (Zpos m); SZ e]
  end.

Definition sx_perr (e : perr) : sx :=
  SL [SA "err"; SA (match e with
                    | EOverflow => "OverflowError"
                    | EZeroDiv => "ZeroDivisionError"
                    | EAttr => "AttributeError"
                    | EUnmodelled => "unmodelled"
                    end)].

Definition sx_dres (d : dres) : sx :=
  match d with
  | DInt0 => SA "int0"
  | DVal f => sx_float f
  | DErr e => sx_perr e
  end.

Definition sx_lres (l : lres) : sx :=
  match l with LOk n => sx_nat n | LErr e => sx_perr e end.

Definition sx_rres (r : rres) : sx :=
  match r with
  | RDist d => SL [SA "num"; sx_dres d]
  | RInt0 => SA "int0"
  | RFrac n m => SL [SA "frac"; sx_nat n; sx_nat m]
  | RErr e => sx_perr e
  end.

Definition sx_odres (o : option dres) : sx :=
  match o with None => SA "not_found" | Some d => sx_dres d end.

(* one case of the rough-distance correspondence: the distance, plus the two
   item lengths and the operation count on their own *)
Definition rough_case (r1 r2 : root) (cutoff : float) (delta : dv) : sx :=
  SL [sx_rres (rough_distance r1 r2 cutoff delta);
      sx_nat (root_count r1); sx_nat (root_count r2); sx_lres (item_length delta)].

(* the reported distance with every kind of zero (int 0, +-0.0; the public
   result drops a falsy deep_distance) as one observable; n / m is Python's
   correctly rounded int / int *)
Definition sx_rough_float (f : float) : sx :=
  match Prim2SF f with
  | S754_zero _ => SA "zero"
  | _ => sx_float f
  end.
Definition sx_rough (r : rres) : sx :=
  match r with
  | RDist DInt0 | RInt0 => SA "zero"
  | RDist (DVal f) => sx_rough_float f
  | RDist (DErr e) | RErr e => sx_perr e
  | RFrac n m => sx_rough_float (SF2Prim (sf_div_Z (Z.of_nat n) (Pos.of_nat m)))
  end.

(* the delta the implementation produced, re-expressed as positions in t1 / t2:
   same dict (up to identity tags), valid, and whether it is inside the guard *)
Definition sd_check (t1 t2 : value) (sd : sdelta) (generic : dv) : sx :=
  SL [sx_bool (dv_eqb (dv_of_sdelta t1 t2 sd) generic); sx_bool (sd_valid sd); sx_bool (tc_guard t1 t2 sd)].

(* the guard of C19_numbers_zero_partial on concrete numbers (None when a conversion overflows) *)
Definition sx_zero_guard (a b : pynum) (mx : float) : sx :=
  match to_float a, to_float b with
  | Some x, Some y => sx_bool (zero_guard x y mx)
  | _, _ => SA "None"
  end.

(* new_type(old_value) != new_value for the type changes of one run, as a table *)
Definition tbl_incl (t : list (value * value * bool)) (a b : value) : bool :=
  match find (fun x => value_eqb (fst (fst x)) a && value_eqb (snd (fst x)) b) t with
  | Some x => snd x
  | None => true
  end.

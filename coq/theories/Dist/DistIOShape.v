(** C19 - one conjunct of [mutual_ok] proved of the ignore-order diff itself: every level [diff_io] reports as
    removed has no t2, every level it reports as added has no t1 and a t2 ([shape_ok]), for every oracle. *)
From Coq Require Import List ZArith NArith Bool Lia Arith.
Import ListNotations.
From DD Require Import Base.PyStr Base.Value Base.ValueFacts Path.PathModel Diff.Tree Diff.DiffModel
  Hash.HashModel Hash.HashProofsBase DiffIO.DiffIOModel DiffIO.DiffIOProofs.
From DD Require Import Dist.DistModel Dist.DistDiffModel Dist.DistIOModel Dist.DistIOLength.
From DD Require Import Dist.DistIOProofs.

Definition AQ (es : list entry) : Prop := forallb shape_ok es = true.

Lemma AQ_nil : AQ [].
Proof. reflexivity. Qed.
Lemma AQ_app a b : AQ a -> AQ b -> AQ (a ++ b).
Proof. unfold AQ. intros Ha Hb. rewrite forallb_app, Ha, Hb. reflexivity. Qed.
Lemma AQ_app2 (a b : res) : AQ (fst a) -> AQ (fst b) -> AQ (fst (app2 a b)).
Proof. unfold app2. cbn [fst]. apply AQ_app. Qed.
Lemma AQ_flat_map {A} (f : A -> list entry) l : (forall x, In x l -> AQ (f x)) -> AQ (flat_map f l).
Proof.
  induction l as [|x r IH]; intros Hf; [reflexivity|]. cbn [flat_map]. apply AQ_app; [apply Hf; left; reflexivity|].
  apply IH. intros y Hy. apply Hf. right. exact Hy.
Qed.
Lemma AQ_concat_res {A} (f : A -> res) l : (forall x, In x l -> AQ (fst (f x))) -> AQ (fst (concat_res (map f l))).
Proof.
  unfold concat_res. induction l as [|x r IH]; intros Hf; [reflexivity|]. cbn [map fold_right].
  apply AQ_app2; [apply Hf; left; reflexivity|]. apply IH. intros y Hy. apply Hf. right. exact Hy.
Qed.
Lemma AQ_plain es : (forall e, In e es -> plain (ekind e) = true) -> AQ es.
Proof.
  intros Hp. unfold AQ. apply forallb_forall. intros e He. specialize (Hp e He). unfold shape_ok.
  destruct (ekind e); try reflexivity; discriminate Hp.
Qed.
Lemma AQ_report skip k p1 p2 a b d :
  (match k with KIterRem => b = None | KIterAdd => a = None /\ b <> None | _ => True end) ->
  AQ (report skip k p1 p2 a b d).
Proof.
  intros Hk. unfold report. destruct (skip p1); [reflexivity|]. unfold AQ, shape_ok. cbn.
  destruct k; try reflexivity.
  - destruct Hk as [-> Hb]. destruct b; [reflexivity | congruence].
  - subst b. reflexivity.
Qed.

Section Shape.
Variable H : pystr -> pystr.
Variable udiff : pystr -> pystr -> pystr.
Variable skip excl : path -> bool.
Variable c : cfg.
Variable rep : bool.
Variable pairs : path -> list (nat * nat).
Notation D := (diff_io H udiff skip excl c rep pairs).

Definition SQ (x : value) : Prop := forall y q1 q2, AQ (fst (D x y q1 q2)).

Lemma nth_rec_AQ xs i y q1 q2 : Forall SQ xs -> AQ (fst (nth_rec (map D xs) i y q1 q2)).
Proof.
  intros HF. unfold nth_rec. revert i. induction HF as [|x r Hx _ IH]; intros i.
  - destruct i; reflexivity.
  - destruct i as [|i]; cbn [map nth]; [apply Hx | apply IH].
Qed.

Lemma item2_some ys a : In a (h2 H c rep ys) -> item2 ys (first_of (indexes_of a (h2 H c rep ys) 0)) <> None.
Proof.
  unfold h2. intros Ha. pose proof (first_of_index a _ Ha) as E. apply nth_error_map_inv in E.
  destruct E as [y [Ey _]]. unfold item2. rewrite Ey. discriminate.
Qed.

Lemma added_loop_AQ one adds : (forall a rem, In a adds -> AQ (fst (fst (one a rem)))) ->
  forall rem, AQ (fst (fst (added_loop one adds rem))).
Proof.
  induction adds as [|a adds IH]; intros Hone rem; cbn [added_loop]; [reflexivity|].
  pose proof (Hone a rem (or_introl eq_refl)) as A1. destruct (one a rem) as [r1 rem1]. cbn [fst] in A1.
  pose proof (IH (fun x r Hx => Hone x r (or_intror Hx)) rem1) as A2.
  destruct (added_loop one adds rem1) as [r2 rem2]. cbn [fst] in *. apply AQ_app2; assumption.
Qed.

Lemma added_in_h2' xs ys a : In a (hashes_added H c rep xs ys) -> In a (h2 H c rep ys).
Proof. unfold hashes_added, t2_hashes. intros Ha. apply filter_In in Ha. destruct Ha as [Ha _]. apply (proj1 (dedup_In _ _)) in Ha. exact Ha. Qed.

Lemma iter_AQ xs ys p1 p2 : Forall SQ xs -> AQ (fst (iter_deephash H skip c rep pairs (map D xs) xs ys p1 p2)).
Proof.
  intros HF. unfold iter_deephash. destruct (Bool.bool_dec rep true) as [E|E].
  - rewrite (if_true _ _ _ E). unfold iter_rep.
    pose proof (added_loop_AQ (added_one_rep H skip c rep pairs (map D xs) xs ys p1 p2) (hashes_added H c rep xs ys)) as L.
    assert (L' : forall rem, AQ (fst (fst (added_loop (added_one_rep H skip c rep pairs (map D xs) xs ys p1 p2) (hashes_added H c rep xs ys) rem)))).
    { apply L. intros a rem Ha. unfold added_one_rep.
      destruct (partner H c rep pairs xs ys p1 a rem) as [r|]; cbn [fst].
      - destruct (item2 ys _) as [y|]; [|reflexivity].
        generalize (first_of (indexes_of r (h1 H c rep xs) 0)). intros i0.
        induction (indexes_of r (h1 H c rep xs) 0) as [|i l IHl]; [reflexivity|]. cbn [fold_right].
        apply AQ_app2; [apply nth_rec_AQ; exact HF | exact IHl].
      - apply AQ_flat_map. intros j _. apply AQ_report. split; [reflexivity|].
        apply item2_some. apply (added_in_h2' xs ys a Ha). }
    specialize (L' (hashes_removed H c rep xs ys)). destruct (added_loop _ _ _) as [ra rem']. cbn [fst] in L'.
    apply AQ_app2; [exact L'|]. apply AQ_app2.
    + apply AQ_concat_res. intros r _. unfold removed_one_rep. cbn [fst]. apply AQ_flat_map. intros i _. apply AQ_report. reflexivity.
    + apply AQ_concat_res. intros h _. unfold repetition_one. destruct (Nat.eqb _ _); [reflexivity|]. destruct (skip _); reflexivity.
  - apply not_true_is_false in E. rewrite (if_false _ _ _ E). unfold iter_norep.
    pose proof (added_loop_AQ (added_one H skip c rep pairs (map D xs) xs ys p1 p2) (hashes_added H c rep xs ys)) as L.
    assert (L' : forall rem, AQ (fst (fst (added_loop (added_one H skip c rep pairs (map D xs) xs ys p1 p2) (hashes_added H c rep xs ys) rem)))).
    { apply L. intros a rem Ha. unfold added_one.
      destruct (partner H c rep pairs xs ys p1 a rem) as [r|]; cbn [fst].
      - destruct (item2 ys _) as [y|]; [apply nth_rec_AQ; exact HF | reflexivity].
      - apply AQ_report. split; [reflexivity|]. apply item2_some. apply (added_in_h2' xs ys a Ha). }
    specialize (L' (hashes_removed H c rep xs ys)). destruct (added_loop _ _ _) as [ra rem']. cbn [fst] in L'.
    apply AQ_app2; [exact L'|]. apply AQ_concat_res. intros r _. unfold removed_one. cbn [fst]. apply AQ_report. reflexivity.
Qed.

Lemma common_AQ kvs2 k2 p1 p2 l : Forall (fun kv => SQ (snd kv)) l -> AQ (fst (io_common_s H udiff skip excl c rep pairs kvs2 k2 p1 p2 l)).
Proof.
  induction 1 as [|[k v1] r Hkv _ IH]; [reflexivity|]. cbn [io_common_s].
  fold (io_common_s H udiff skip excl c rep pairs kvs2 k2 p1 p2 r).
  destruct (keep_key c k); [|exact IH]. destruct (find (py_eq k) k2) as [k'|]; [|exact IH].
  destruct (assoc k' kvs2) as [v2|]; [|exact IH]. apply AQ_app2; [apply Hkv | exact IH].
Qed.

Theorem diff_io_shape : forall x, SQ x.
Proof.
  induction x as [a|xs IH|xs IH|kvs IH|xs|xs] using value_ind'; intros y p1 p2;
    (destruct (skip p1) eqn:Hs; [rewrite (dio_skip H udiff skip excl c rep pairs) by exact Hs; reflexivity|]);
    (match goal with |- context [D ?t1 y _ _] => destruct (ty_eqb (type_of t1) (type_of y)) eqn:T end;
     [|rewrite (dio_type_s H udiff skip excl c rep pairs) by assumption; cbn [fst]; apply AQ_report; constructor]).
  all: destruct y; try discriminate T; try (destruct a; discriminate T).
  - cbn [type_of] in T. rewrite (dio_atom_s H udiff skip excl c rep pairs) by assumption. cbn [fst].
    apply AQ_plain. apply diff_atom_plain.
  - rewrite (dio_list_s H udiff skip excl c rep pairs) by exact Hs. apply iter_AQ. exact IH.
  - rewrite (dio_tuple_s H udiff skip excl c rep pairs) by exact Hs. apply iter_AQ. exact IH.
  - rewrite (dio_dict_s H udiff skip excl c rep pairs) by exact Hs. unfold io_dict_s.
    destruct (dict_shortcut _ _ _ _ _); cbn [fst]; [apply AQ_report; constructor|].
    apply AQ_app; [|apply AQ_app].
    + apply AQ_flat_map. intros k _. destruct (mem_atom _ _); [reflexivity | apply AQ_report; constructor].
    + apply AQ_flat_map. intros k _. destruct (mem_atom _ _); [reflexivity | apply AQ_report; constructor].
    + apply common_AQ. exact IH.
  - rewrite (dio_set_s H udiff skip excl c rep pairs) by exact Hs. cbn [fst]. apply AQ_plain. apply diff_set_plain.
  - rewrite (dio_frozen_s H udiff skip excl c rep pairs) by exact Hs. cbn [fst]. apply AQ_plain. apply diff_set_plain.
Qed.
End Shape.

Theorem diff_io_levels_shape_ok : forall H udiff skip excl c rep pairs x y p1 p2,
  forallb shape_ok (fst (diff_io H udiff skip excl c rep pairs x y p1 p2)) = true.
Proof. intros. apply diff_io_shape. Qed.

(* what is left of [mutual_ok] once the shape is proved: the three distinctness conditions *)
Definition mutual_paths_ok (es : list entry) : bool :=
  let rm := filter (is_kind KIterRem) es in
  let ad := filter (is_kind KIterAdd) es in
  nodup_by path_eqb (map ep1 rm) && nodup_by kv_eqb (map kv_of rm) && nodup_by kv_eqb (map kv_of ad).

Lemma diff_io_mutual_ok : forall H udiff skip excl c rep pairs x y p1 p2,
  mutual_ok (fst (diff_io H udiff skip excl c rep pairs x y p1 p2)) =
  mutual_paths_ok (fst (diff_io H udiff skip excl c rep pairs x y p1 p2)).
Proof.
  intros. unfold mutual_ok, mutual_paths_ok. rewrite diff_io_levels_shape_ok. apply andb_true_r.
Qed.

(** C19 - the float that a fraction n / m (Python int / int, correctly rounded: [sf_div_Z], the
    rendering of [RFrac n m]) denotes lies in (0, 1] when 0 < n <= m:

    [div_Z_le_one]   the rounded quotient is +0 or a finite positive float mm * 2^e with e <= 0 and
                     mm <= 2^(-e), i.e. its dyadic value is at most 1 - through both shifts and the
                     round-to-nearest-even step of binary_round_aux (1 is representable, so rounding
                     cannot cross it)
    [div_Z_nonzero]  it is not zero unless the quotient underflows (m of more than 1000 binary digits) *)
From Coq Require Import ZArith Bool Lia List.
From Coq Require Import SpecFloat FloatOps.
From DD Require Import Dist.DistModel Dist.DistProofs.
Local Open Scope Z_scope.

(* a shift record whose value (with its sticky bits) is at most 1 = 2^(-e) * 2^e *)
Definition rec_le1 (mrs : shr_record) (e : Z) : Prop :=
  0 <= shr_m mrs /\ e <= 0 /\ shr_m mrs <= 2 ^ (- e) /\
  (shr_m mrs = 2 ^ (- e) -> shr_r mrs = false /\ shr_s mrs = false).

Lemma pow2_split e : e + 1 <= 0 -> 2 ^ (- e) = 2 * 2 ^ (- (e + 1)).
Proof. intros H. replace (- e) with (Z.succ (- (e + 1))) by lia. rewrite Z.pow_succ_r by lia. reflexivity. Qed.

Lemma shr_1_le1 mrs e : e + 1 <= 0 -> rec_le1 mrs e -> rec_le1 (shr_1 mrs) (e + 1).
Proof.
  intros He [H0 [_ [Hle Heq]]]. destruct mrs as [m r s]. cbn [shr_m shr_r shr_s] in *.
  rewrite (pow2_split e He) in Hle, Heq. set (P := 2 ^ (- (e + 1))) in *.
  assert (HP : 0 < P) by (apply Z.pow_pos_nonneg; lia).
  unfold rec_le1. destruct m as [|p|p]; [| |lia]; cbn [shr_1 shr_m shr_r shr_s].
  - repeat split; try lia.
  - destruct p as [p|p|]; cbn [shr_m shr_r shr_s].
    + repeat split; try lia.
    + split; [lia|]. split; [lia|]. split; [lia|]. intros E.
      destruct (Heq ltac:(lia)) as [-> ->]. split; reflexivity.
    + repeat split; try lia.
Qed.

Lemma iter_shr_le1 n : forall mrs e, e + Zpos n <= 0 -> rec_le1 mrs e -> rec_le1 (iter_pos shr_1 n mrs) (e + Zpos n).
Proof.
  induction n as [n IH|n IH|]; intros mrs e He H; cbn [iter_pos].
  - replace (e + Zpos n~1) with ((e + 1 + Zpos n) + Zpos n) by lia.
    apply IH; [lia|]. apply IH; [lia|]. apply shr_1_le1; [lia | exact H].
  - replace (e + Zpos n~0) with ((e + Zpos n) + Zpos n) by lia.
    apply IH; [lia|]. apply IH; [lia | exact H].
  - apply shr_1_le1; assumption.
Qed.

Lemma digits_le_of_le_pow m k : 0 <= k -> 0 <= m -> m <= 2 ^ k -> Zdigits2 m <= k + 1.
Proof.
  intros Hk H0 H. destruct m as [|p|p]; [cbn; lia | | lia]. cbn [Zdigits2].
  destruct (digits2_bounds p) as [Hlo _].
  destruct (Z_lt_le_dec (k + 1) (Zpos (digits2_pos p))) as [Hlt|]; [|assumption]. exfalso.
  assert (2 ^ (k + 1) <= 2 ^ (Zpos (digits2_pos p) - 1)) by (apply Z.pow_le_mono_r; lia).
  rewrite Z.pow_add_r in * by lia. lia.
Qed.

Lemma fexp_le_neg x : x <= 1 -> fexp prec emax x <= 0.
Proof. intros H. unfold fexp, SpecFloat.emin, prec, emax. lia. Qed.

Lemma shr_fexp_le1 m e l :
  0 <= m -> e <= 0 -> m <= 2 ^ (- e) -> (m = 2 ^ (- e) -> l = loc_Exact) ->
  rec_le1 (fst (shr_fexp prec emax m e l)) (snd (shr_fexp prec emax m e l)).
Proof.
  intros H0 He Hle Hex.
  assert (R : rec_le1 (shr_record_of_loc m l) e).
  { unfold rec_le1. rewrite shr_record_m. split; [exact H0|]. split; [exact He|]. split; [exact Hle|].
    intros E. rewrite (Hex E). split; reflexivity. }
  unfold shr_fexp, shr.
  destruct (fexp prec emax (Zdigits2 m + e) - e) as [|n|n] eqn:En; cbn [fst snd]; try exact R.
  pose proof (digits_le_of_le_pow m (- e) ltac:(lia) H0 Hle) as Hd.
  pose proof (fexp_le_neg (Zdigits2 m + e) ltac:(lia)) as Hf.
  apply iter_shr_le1; [lia | exact R].
Qed.

Lemma round_le1 mrs e : rec_le1 mrs e ->
  0 <= round_nearest_even (shr_m mrs) (loc_of_shr_record mrs) <= 2 ^ (- e).
Proof.
  intros [H0 [_ [Hle Heq]]]. destruct mrs as [m [|] [|]]; cbn [shr_m shr_r shr_s loc_of_shr_record round_nearest_even] in *;
    try (assert (m <> 2 ^ (- e)) by (intros E; destruct (Heq E); discriminate)).
  - lia.
  - destruct (Z.even m); lia.
  - lia.
  - lia.
Qed.

Lemma binary_round_aux_le1 q e l :
  0 <= q -> e <= 0 -> q <= 2 ^ (- e) -> (q = 2 ^ (- e) -> l = loc_Exact) ->
  match binary_round_aux prec emax false q e l with
  | S754_zero false => True
  | S754_finite false mm e' => e' <= 0 /\ Zpos mm <= 2 ^ (- e')
  | _ => False
  end.
Proof.
  intros H0 He Hle Hex. unfold binary_round_aux.
  pose proof (shr_fexp_le1 q e l H0 He Hle Hex) as R1.
  destruct (shr_fexp prec emax q e l) as [mrs1 e1]. cbn [fst snd] in R1.
  pose proof (round_le1 mrs1 e1 R1) as [M0 M1]. destruct R1 as [_ [He1 _]].
  pose proof (shr_fexp_le1 _ e1 loc_Exact M0 He1 M1 (fun _ => eq_refl)) as R2.
  destruct (shr_fexp prec emax (round_nearest_even (shr_m mrs1) (loc_of_shr_record mrs1)) e1 loc_Exact) as [mrs2 e2].
  cbn [fst snd] in R2. destruct R2 as [N0 [He2 [N1 _]]].
  destruct (shr_m mrs2) as [|p|p]; [exact I | | lia].
  assert (E : Zle_bool e2 (emax - prec) = true) by (apply Z.leb_le; unfold emax, prec; lia).
  rewrite E. split; assumption.
Qed.

Lemma digits_mono a b : Zpos a <= Zpos b -> Zpos (digits2_pos a) <= Zpos (digits2_pos b).
Proof.
  intros H. destruct (digits2_bounds a) as [Hlo _]. destruct (digits2_bounds b) as [_ Hhi].
  destruct (Z_lt_le_dec (Zpos (digits2_pos b)) (Zpos (digits2_pos a))) as [Hlt|]; [|assumption]. exfalso.
  assert (2 ^ Zpos (digits2_pos b) <= 2 ^ (Zpos (digits2_pos a) - 1)) by (apply Z.pow_le_mono_r; lia). lia.
Qed.

Lemma new_location_zero k : new_location k 0 = loc_Exact.
Proof. unfold new_location, new_location_even, new_location_odd. destruct (Z.even k); reflexivity. Qed.

Theorem div_Z_le_one n m : Zpos n <= Zpos m ->
  match sf_div_Z (Zpos n) m with
  | S754_zero false => True
  | S754_finite false mm e => e <= 0 /\ Zpos mm <= 2 ^ (- e)
  | _ => False
  end.
Proof.
  intros Hnm. unfold sf_div_Z, SFdiv_core_binary. cbn [Zdigits2].
  set (d1 := Zpos (digits2_pos n)). set (d2 := Zpos (digits2_pos m)).
  assert (Hd : d1 <= d2) by (apply digits_mono; exact Hnm).
  set (ee := Z.min (fexp prec emax (d1 + 0 - (d2 + 0))) (0 - 0)).
  assert (Hee : ee <= 0) by (unfold ee; lia).
  set (s := 0 - 0 - ee). assert (Hs : 0 <= s) by (unfold s; lia).
  set (m' := match s with Z.pos _ => Z.shiftl (Z.pos n) s | 0 => Z.pos n | Z.neg _ => 0 end).
  assert (Hm' : m' = Zpos n * 2 ^ s).
  { unfold m'. destruct s as [|ps|ps] eqn:Es; [cbn; lia | apply Z.shiftl_mul_pow2; lia | lia]. }
  pose proof (Z_div_mod m' (Zpos m) eq_refl) as Hdm.
  destruct (Z.div_eucl m' (Z.pos m)) as [q0 r0]. destruct Hdm as [Heq Hr].
  assert (H2s : 0 < 2 ^ s) by (apply Z.pow_pos_nonneg; lia).
  assert (Hq0 : 0 <= q0).
  { destruct (Z_lt_le_dec q0 0) as [Hlt|]; [|assumption]. exfalso.
    assert (Zpos m * q0 <= Zpos m * (-1)) by (apply Z.mul_le_mono_nonneg_l; lia). lia. }
  assert (Hq1 : q0 <= 2 ^ s).
  { destruct (Z_lt_le_dec (2 ^ s) q0) as [Hlt|]; [|assumption]. exfalso.
    assert (Zpos m * (2 ^ s + 1) <= Zpos m * q0) by (apply Z.mul_le_mono_nonneg_l; lia).
    assert (Zpos n * 2 ^ s <= Zpos m * 2 ^ s) by (apply Z.mul_le_mono_nonneg_r; lia). lia. }
  assert (Hex : q0 = 2 ^ s -> new_location (Zpos m) r0 = loc_Exact).
  { intros E. assert (r0 = 0); [|subst r0; apply new_location_zero].
    assert (Zpos n * 2 ^ s <= Zpos m * 2 ^ s) by (apply Z.mul_le_mono_nonneg_r; lia). subst q0. lia. }
  replace s with (- ee) in * by (unfold s; lia).
  apply binary_round_aux_le1; assumption.
Qed.

(* ... and it is not zero unless the quotient underflows *)
Theorem div_Z_nonzero n m : Zpos (digits2_pos m) <= 1000 ->
  sf_is_zero (sf_div_Z (Zpos n) m) = false.
Proof.
  intros Hm. unfold sf_div_Z.
  destruct (SFdiv_core_binary prec emax (Zpos n) 0 (Zpos m) 0) as [[q e'] l] eqn:E.
  assert (HM : emin + 2 <= (Zpos (digits2_pos n) + 0) - (Zpos (digits2_pos m) + 0)).
  { change emin with (-1074). pose proof (Pos2Z.is_pos (digits2_pos n)). lia. }
  destruct (div_core_bounds _ _ _ _ _ _ _ HM E) as [pq [-> [H1 H2]]].
  apply binary_round_aux_nonzero; assumption.
Qed.

(* the float denoted by RFrac n m for 0 < n <= m *)
Definition frac_float (n m : nat) : spec_float := sf_div_Z (Z.of_nat n) (Pos.of_nat m).

Theorem frac_float_unit : forall n m : nat, (0 < n)%nat -> (n <= m)%nat ->
  match frac_float n m with
  | S754_zero false => True
  | S754_finite false mm e => e <= 0 /\ Zpos mm <= 2 ^ (- e)
  | _ => False
  end.
Proof.
  intros n m Hn Hnm. unfold frac_float.
  destruct n as [|n']; [lia|]. destruct m as [|m']; [lia|]. cbn [Z.of_nat].
  apply div_Z_le_one. rewrite Pos.of_nat_succ.
  apply Pos2Z.pos_le_pos. apply Pos2Nat.inj_le. rewrite !Nat2Pos.id by lia. exact Hnm.
Qed.

Theorem frac_float_positive : forall n m : nat, (0 < n)%nat -> Zpos (digits2_pos (Pos.of_nat m)) <= 1000 ->
  sf_is_zero (frac_float n m) = false.
Proof.
  intros n m Hn Hm. unfold frac_float. destruct n as [|n']; [lia|]. cbn [Z.of_nat].
  apply div_Z_nonzero. exact Hm.
Qed.

Example frac_float_examples :
  frac_float 24 23 = S754_finite false 4699408306821387 (-52) /\      (* K28: above 1 *)
  frac_float 1 12 = S754_finite false 6004799503160661 (-56) /\
  frac_float 7 7 = S754_finite false 4503599627370496 (-52).          (* exactly 1.0 *)
Proof. repeat split; vm_compute; reflexivity. Qed.

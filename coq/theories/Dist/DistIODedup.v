(** C19 - sums over the distinct elements of a list (the arithmetic of
    _get_item_length's dedupe by id): [dd seen l] adds [c a] for every first
    occurrence in [l] of an element not in [seen].  Generic lemmas:
    set-monotonicity, sub-additivity over ++, additivity over disjoint lists,
    grouping by a key. *)
From Coq Require Import List Bool Arith Lia.
Import ListNotations.

Section DD.
Variable A : Type.
Variable eqb : A -> A -> bool.
Hypothesis eqb_eq : forall a b, eqb a b = true <-> a = b.
Variable c : A -> nat.

Definition memb (a : A) (l : list A) : bool := existsb (eqb a) l.

Lemma memb_In a l : memb a l = true <-> In a l.
Proof.
  unfold memb. rewrite existsb_exists. split.
  - intros [x [Hi He]]. apply eqb_eq in He. subst. exact Hi.
  - intros Hi. exists a. split; [exact Hi | apply eqb_eq; reflexivity].
Qed.
Lemma memb_false a l : memb a l = false <-> ~ In a l.
Proof.
  rewrite <- memb_In. destruct (memb a l); split; intro X; try discriminate; try reflexivity.
  exfalso. apply X. reflexivity.
Qed.

Fixpoint dd (seen l : list A) : nat :=
  match l with
  | [] => 0
  | a :: r => if memb a seen then dd seen r else c a + dd (a :: seen) r
  end.

Lemma memb_ext a s s' : (In a s <-> In a s') -> memb a s = memb a s'.
Proof.
  intros H. destruct (memb a s) eqn:E; destruct (memb a s') eqn:E'; try reflexivity.
  - apply memb_In in E. apply H in E. apply memb_In in E. congruence.
  - apply memb_In in E'. apply H in E'. apply memb_In in E'. congruence.
Qed.

Lemma dd_ext_on l : forall s s', (forall x, In x l -> (In x s <-> In x s')) -> dd s l = dd s' l.
Proof.
  induction l as [|a r IH]; intros s s' H; cbn [dd]; [reflexivity|].
  rewrite (memb_ext a s s') by (apply H; left; reflexivity).
  destruct (memb a s').
  - apply IH. intros x Hx. apply H. right. exact Hx.
  - f_equal. apply IH. intros x Hx. cbn [In]. specialize (H x (or_intror Hx)). tauto.
Qed.

Lemma dd_mono l : forall s s', (forall x, In x s -> In x s') -> dd s' l <= dd s l.
Proof.
  induction l as [|a r IH]; intros s s' H; cbn [dd]; [lia|].
  destruct (memb a s) eqn:E.
  - apply memb_In in E. apply H in E. apply memb_In in E. rewrite E. apply IH. exact H.
  - destruct (memb a s') eqn:E'.
    + assert (dd s' r <= dd (a :: s) r); [|lia].
      apply IH. intros x [<-|Hx]; [apply memb_In; exact E' | apply H; exact Hx].
    + assert (dd (a :: s') r <= dd (a :: s) r); [|lia].
      apply IH. intros x [<-|Hx]; [left; reflexivity | right; apply H; exact Hx].
Qed.

Lemma dd_app_eq l1 : forall s l2, dd s (l1 ++ l2) = dd s l1 + dd (l1 ++ s) l2.
Proof.
  induction l1 as [|a r IH]; intros s l2; cbn [app dd]; [reflexivity|].
  destruct (memb a s) eqn:E.
  - rewrite IH. f_equal. apply dd_ext_on. intros x _. cbn [In]. apply memb_In in E.
    split; [intros Hx; right; exact Hx|]. intros [<-|Hx]; [apply in_or_app; right; exact E | exact Hx].
  - rewrite IH. rewrite <- Nat.add_assoc. f_equal. f_equal. apply dd_ext_on. intros x _.
    rewrite !in_app_iff. cbn [In]. rewrite in_app_iff. tauto.
Qed.

Lemma dd_app_le l1 s l2 : dd s (l1 ++ l2) <= dd s l1 + dd s l2.
Proof.
  rewrite dd_app_eq. assert (dd (l1 ++ s) l2 <= dd s l2); [|lia].
  apply dd_mono. intros x Hx. apply in_or_app. right. exact Hx.
Qed.

Lemma dd_disjoint l1 s l2 : (forall x, In x l2 -> ~ In x l1) -> dd s (l1 ++ l2) = dd s l1 + dd s l2.
Proof.
  intros H. rewrite dd_app_eq. f_equal. apply dd_ext_on. intros x Hx. rewrite in_app_iff.
  specialize (H x Hx). tauto.
Qed.

Lemma dd_const a l : forall s, (forall x, In x l -> x = a) -> dd s l <= c a.
Proof.
  induction l as [|b r IH]; intros s H; cbn [dd]; [lia|].
  assert (b = a) by (apply H; left; reflexivity). subst b.
  destruct (memb a s); [apply IH; intros x Hx; apply H; right; exact Hx|].
  assert (dd (a :: s) r = 0); [|lia].
  clear IH. assert (Hr : forall x, In x r -> x = a) by (intros x Hx; apply H; right; exact Hx). clear H.
  induction r as [|b r IH]; [reflexivity|]. cbn [dd].
  assert (b = a) by (apply Hr; left; reflexivity). subst b.
  assert (E : memb a (a :: s) = true) by (apply memb_In; left; reflexivity). rewrite E.
  apply IH. intros x Hx. apply Hr. right. exact Hx.
Qed.

Lemma dd_nil s : dd s [] = 0.
Proof. reflexivity. Qed.

Lemma dd_extract l : forall s a, In a l -> ~ In a s -> dd s l = c a + dd (a :: s) l.
Proof.
  induction l as [|b r IH]; intros s a Hin Hs; [destruct Hin|]. cbn [dd].
  destruct (memb b s) eqn:E.
  - assert (Hb : memb b (a :: s) = true) by (apply memb_In; right; apply memb_In; exact E). rewrite Hb.
    destruct Hin as [->|Hin]; [apply memb_In in E; contradiction|]. apply IH; assumption.
  - destruct Hin as [->|Hin].
    + assert (Hb : memb a (a :: s) = true) by (apply memb_In; left; reflexivity). rewrite Hb. reflexivity.
    + destruct (memb b (a :: s)) eqn:E2.
      * apply memb_In in E2. destruct E2 as [->|E2]; [|apply memb_false in E; contradiction].
        reflexivity.
      * assert (Hab : a <> b) by (intros ->; apply memb_false in E2; apply E2; left; reflexivity).
        rewrite (IH (b :: s) a Hin) by (intros [->|X]; [congruence | contradiction]).
        assert (dd (a :: b :: s) r = dd (b :: a :: s) r); [|lia].
        apply dd_ext_on. intros x _. cbn [In]. tauto.
Qed.

(* set inclusion (outside the seen elements) bounds the sums *)
Lemma dd_incl l : forall s l' s',
  (forall x, In x l -> ~ In x s -> In x l' /\ ~ In x s') -> dd s l <= dd s' l'.
Proof.
  induction l as [|a r IH]; intros s l' s' H; cbn [dd]; [lia|].
  destruct (memb a s) eqn:E.
  - apply IH. intros x Hx. apply H. right. exact Hx.
  - apply memb_false in E. destruct (H a (or_introl eq_refl) E) as [Hl Hs].
    rewrite (dd_extract l' s' a Hl Hs). apply Nat.add_le_mono_l.
    apply IH. intros x Hx Hn. assert (Hxs : ~ In x s) by (intros X; apply Hn; right; exact X).
    destruct (H x (or_intror Hx) Hxs) as [H1 H2]. split; [exact H1|].
    intros [<-|X]; [apply Hn; left; reflexivity | contradiction].
Qed.

Lemma dd_sub l l' : (forall x, In x l -> In x l') -> dd [] l <= dd [] l'.
Proof. intros H. apply dd_incl. intros x Hx _. split; [apply H; exact Hx | intros []]. Qed.

(* grouping by a key: the sums of the groups of pairwise different keys add up to at most the whole *)
Section Groups.
Variable K : Type.
Variable keqb : K -> K -> bool.
Hypothesis keqb_eq : forall a b, keqb a b = true <-> a = b.
Variable f : A -> K.

Definition grp (k : K) (l : list A) : list A := filter (fun a => keqb (f a) k) l.

Lemma grp_In k l x : In x (grp k l) <-> In x l /\ f x = k.
Proof. unfold grp. rewrite filter_In, keqb_eq. tauto. Qed.

Lemma dd_groups ks : NoDup ks -> forall l,
  fold_right (fun k n => dd [] (grp k l) + n) 0 ks <= dd [] l.
Proof.
  intros N l.
  assert (E : fold_right (fun k n => dd [] (grp k l) + n) 0 ks = dd [] (flat_map (fun k => grp k l) ks)).
  { induction N as [|k ks Hk N IH]; cbn [fold_right flat_map]; [reflexivity|].
    rewrite IH. symmetry. apply dd_disjoint. intros x Hx Hk'.
    apply in_flat_map in Hx. destruct Hx as [k' [Hk1 Hk2]]. apply grp_In in Hk2. apply grp_In in Hk'.
    destruct Hk2 as [_ <-]. destruct Hk' as [_ E]. rewrite E in Hk1. contradiction. }
  rewrite E. apply dd_sub. intros x Hx. apply in_flat_map in Hx. destruct Hx as [k [_ Hx]].
  apply grp_In in Hx. apply Hx.
Qed.
End Groups.

End DD.

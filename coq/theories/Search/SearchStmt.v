(** Statement-level vocabulary for the SOURCE TIE of C16 (coq/srctie/SearchGen.v is generated from
    /repo/deepdiff/search.py by harness/translate/searchdispatch.py and imports this file).
    Definitions only.  Nothing here re-derives a function of SearchModel.v: these are the meanings
    the translator gives to the Python PRIMITIVES that occur in the translated methods
    (isinstance, ==, in, str(), .lower(), "%s" % .., "{}".format, d.keys(), d[k], enumerate, id() in
    parents_ids, getattr-dictionaries), over the hand model's own universes ([xvalue], [eitem],
    [config]).  Each of them is part of the trusted base of the tie (NOTES_srctie.md, "primitives").

    The generated functions are writers: a call returns the list of STORE OPERATIONS ([top]) the
    Python method performs on `self` (the result dictionary), in order. *)
From Coq Require Import List ZArith NArith Bool Arith String.
Import ListNotations.
From DD Require Import Base.Sx Base.PyStr Base.Value Search.SearchModel.

(* the classes that occur in isinstance tests of search.py *)
Inductive pyclass :=
| Cstrings | Cnumbers | Cipranges | CMutableMapping | Ctuple | Cset | Cfrozenset | CIterable | Cstr | Cbytes | CRE.

(* one operation on the result dictionary `self` *)
Inductive top :=
| TSetItem (rk key : pystr) (v : xvalue)     (* self[rk][key] = v *)
| TAdd (rk key : pystr)                      (* self[rk].add(key) *)
| TAppend (rk t : pystr).                    (* self[rk].append(t) *)

(* isinstance(x, k) for a searched object (ip ranges are outside the universe) *)
Definition x_is (x : xvalue) (k : pyclass) : bool :=
  match k, x with
  | Cstrings, XAtom (AStr _) | Cstrings, XAtom (ABytes _) => true
  | Cstr, XAtom (AStr _) => true
  | Cbytes, XAtom (ABytes _) => true
  | Cnumbers, XAtom (ABool _) | Cnumbers, XAtom (AInt _) | Cnumbers, XAtom (AHalf _) | Cnumbers, XNum _ _ _ => true
  | CMutableMapping, XDict _ => true
  | Ctuple, XTuple _ | Ctuple, XNamed _ _ => true
  | Cset, XSet _ => true
  | Cfrozenset, XFrozen _ => true
  | CIterable, XList _ | CIterable, XTuple _ | CIterable, XNamed _ _ | CIterable, XDict _
  | CIterable, XSet _ | CIterable, XFrozen _ | CIterable, XAtom (AStr _) | CIterable, XAtom (ABytes _) => true
  | _, _ => false
  end.
Definition x_isinstance (x : xvalue) (ks : list pyclass) : bool := existsb (x_is x) ks.

(* isinstance(item, k) for the normalised item *)
Definition i_is (it : eitem) (k : pyclass) : bool :=
  match it with
  | EAtom a => x_is (XAtom a) k
  | EVal v => x_is (inj v) k
  | ERe _ => match k with CRE => true | _ => false end
  end.
Definition i_isinstance (it : eitem) (ks : list pyclass) : bool := existsb (i_is it) ks.
Definition k_isinstance (k : atom) (ks : list pyclass) : bool := x_isinstance (XAtom k) ks.

(* a value that the code only ever type-tests (`wanted` of __search_str; `item.pattern`): its kind *)
Inductive wkind := WStr | WBytes | WOther.
Definition w_is (w : wkind) (k : pyclass) : bool :=
  match k, w with
  | Cstr, WStr | Cbytes, WBytes | Cstrings, WStr | Cstrings, WBytes => true
  | _, _ => false
  end.
Definition w_isinstance (w : wkind) (ks : list pyclass) : bool := existsb (w_is w) ks.
Definition i_pattern (it : eitem) : wkind :=        (* item.pattern *)
  match it with ERe b => if b then WBytes else WStr | _ => WOther end.
Definition i_kind (it : eitem) : wkind :=           (* the item itself, where only its type is looked at *)
  match it with EAtom (AStr _) => WStr | EAtom (ABytes _) => WBytes | _ => WOther end.
(* isinstance(x, type(w)) *)
Definition x_isinstance_typeof (x : xvalue) (w : wkind) : bool :=
  match w, x with
  | WStr, XAtom (AStr _) | WBytes, XAtom (ABytes _) => true
  | _, _ => false
  end.

Definition is_re (it : eitem) : bool := match it with ERe _ => true | _ => false end.

(* type(item) as far as exclude_types can name it (a compiled pattern's type cannot be named there) *)
Definition i_type (it : eitem) : option xty :=
  match it with EAtom a => Some (TyB (atom_ty a)) | ERe _ => None | EVal v => Some (TyB (type_of v)) end.
Definition x_type (x : xvalue) : option xty := Some (xtype_of x).
(* isinstance(<object of type t>, self.exclude_types_tuple) *)
Definition isinstance_types (t : option xty) (tys : list xty) : bool :=
  match t with Some t => existsb (isinst t) tys | None => false end.

(* item == x  /  x == item *)
Definition py_eq_ix (it : eitem) (x : xvalue) : bool :=
  match it with
  | EVal w => xeqv x w
  | EAtom b => match x with XAtom a => py_eq b a | XNum _ (Some a) _ => py_eq b a | _ => false end
  | ERe _ => false
  end.
Definition py_eq_xi (x : xvalue) (it : eitem) : bool := py_eq_ix it x.
(* item == <a str> *)
Definition i_eq_str (it : eitem) (s : pystr) : bool :=
  match it with EAtom (AStr i) => pystr_eqb i s | _ => false end.
(* item in x  (x a str / bytes) *)
Definition i_in_x (it : eitem) (x : xvalue) : bool :=
  match it, x with
  | EAtom (AStr i), XAtom (AStr s) | EAtom (ABytes i), XAtom (ABytes s) => contains_sub i s
  | _, _ => false
  end.

(* the characters of a str / bytes object *)
Definition x_chars (x : xvalue) : pystr :=
  match x with XAtom (AStr s) | XAtom (ABytes s) => s | _ => [] end.
Definition x_of_str (s : pystr) : xvalue := XAtom (AStr s).

(* d.keys(), d[k] (lookup by Python equality; KeyError has no model: XRef), iteration *)
Definition x_keys (x : xvalue) : list atom := match x with XDict kvs => map fst kvs | _ => [] end.
Definition x_getitem (x : xvalue) (k : atom) : xvalue :=
  match x with
  | XDict kvs => match assoc k kvs with Some v => v | None => XRef end
  | _ => XRef
  end.
Definition x_iter (x : xvalue) : list xvalue :=
  match x with
  | XList xs | XTuple xs => xs
  | XSet xs | XFrozen xs => map XAtom xs
  | _ => []
  end.
(* `parents_ids and id(x) in parents_ids` *)
Definition x_is_ancestor (x : xvalue) : bool := is_ref x.
(* `obj._asdict` does not raise AttributeError *)
Definition x_has_asdict (x : xvalue) : bool := match x with XNamed _ _ => true | _ => false end.

Definition attrs_as_dict (avs : list (pystr * xvalue)) : xvalue :=
  XDict (map (fun av => (AStr (fst av), snd av)) avs).
Definition the_method : xvalue := XObj (s2p "method") [].
Definition methods_as_dict (names : list pystr) : xvalue :=
  XDict (map (fun n => (AStr n, the_method)) names).

(* "%s..%s" % (args)  and  "{}..{}".format(args) on texts *)
Fixpoint pyfmt (f : pystr) (args : list pystr) : pystr :=
  match f with
  | [] => []
  | ch :: r =>
      match r with
      | ch2 :: r2 =>
          if (N.eqb ch 37 && N.eqb ch2 115)%bool
          then match args with a :: args' => (a ++ pyfmt r2 args')%list | [] => ch :: ch2 :: pyfmt r2 [] end
          else ch :: pyfmt r args
      | [] => [ch]
      end
  end.
Fixpoint pyformat (f : pystr) (args : list pystr) : pystr :=
  match f with
  | [] => []
  | ch :: r =>
      match r with
      | ch2 :: r2 =>
          if (N.eqb ch 123 && N.eqb ch2 125)%bool
          then match args with a :: args' => (a ++ pyformat r2 args')%list | [] => ch :: ch2 :: pyformat r2 [] end
          else ch :: pyformat r args
      | [] => [ch]
      end
  end.
Definition str_nat (i : nat) : pystr := p_of_N (N.of_nat i).

(* for k in l: body   /   for i, x in enumerate(l): body   (writers) *)
Definition for_each {A : Type} (l : list A) (body : A -> list top) : list top := flat_map body l.
Fixpoint for_enum_from {A : Type} (i : nat) (l : list A) (body : nat -> A -> list top) : list top :=
  match l with
  | [] => []
  | x :: r => (body i x ++ for_enum_from (S i) r body)%list
  end.
Definition for_enum {A : Type} (l : list A) (body : nat -> A -> list top) : list top := for_enum_from 0 l body.

Section Prims.
  Variable slower : pystr -> pystr.
  Variable brepr : pystr -> pystr.
  Variable re_search : pystr -> bool.
  Variable re_text : pystr.
  Variable str_attrs bytes_attrs : list pystr.

  (* x.lower() *)
  Definition x_lower (x : xvalue) : xvalue :=
    match x with XAtom a => XAtom (lower_atom slower a) | _ => x end.
  (* str(x) *)
  Definition x_text (x : xvalue) : pystr :=
    match x with XAtom a => str_atom brepr a | XNum _ _ tx => tx | _ => [] end.
  Definition k_str (k : atom) : pystr := str_atom brepr k.
  (* str(item) *)
  Definition i_str (it : eitem) : pystr :=
    match it with EAtom a => str_atom brepr a | ERe _ | EVal _ => re_text end.
  (* item.search(text) is a match (oracle of the compiled item) *)
  Definition i_search (it : eitem) (s : pystr) : bool := re_search s.

  (* __search_obj's  obj._asdict()  /  {i: getattr(obj, i) for i in dir(obj) if not dunder}  /
     {i: getattr(obj, i) for i in obj.__slots__};  None = AttributeError out of both attempts *)
  Definition x_attrs_dict (is_namedtuple : bool) (x : xvalue) : option xvalue :=
    match x with
    | XObj _ avs | XNamed _ avs => Some (attrs_as_dict avs)
    | XOpaque _ => None
    | XAtom (AStr _) => Some (methods_as_dict str_attrs)
    | XAtom (ABytes _) => Some (methods_as_dict bytes_attrs)
    | _ => Some (XDict [])
    end.
End Prims.

(* the oracles of SearchModel.v's Section Search, as one record (the generated definitions take it as their
   first argument so that their signatures do not depend on which oracle a method happens to use) *)
Record oracles := mkOracles {
  o_slower : pystr -> pystr;         (* str.lower() *)
  o_brepr : pystr -> pystr;          (* str(bytes) *)
  o_re_search : pystr -> bool;       (* (compiled item).search(text) is a match *)
  o_re_ok : bool;                    (* re.compile(item) raises no re.error *)
  o_excl_re : pystr -> bool;         (* some exclude_regex_paths pattern .search(text) *)
  o_re_text : pystr;                 (* str(item) for a compiled / container item *)
  o_str_attrs : list pystr;          (* [n for n in dir(str) if not dunder] *)
  o_bytes_attrs : list pystr
}.

(* __init__: the raw item (a [value]) *)
Definition v_isinstance (v : value) (ks : list pyclass) : bool := x_isinstance (inj v) ks.
Definition v_lower (slower : pystr -> pystr) (v : value) : value :=
  match v with VAtom a => VAtom (lower_atom slower a) | _ => v end.
Definition v_str (brepr : pystr -> pystr) (v : value) : value :=
  match v with VAtom a => VAtom (AStr (str_atom brepr a)) | _ => v end.
Definition v_to_item (v : value) : eitem := match v with VAtom a => EAtom a | _ => EVal v end.
Inductive compiled := CTypeError | CReError | COk (it : eitem).
(* re.compile(item) *)
Definition re_compile (re_ok : bool) (v : value) : compiled :=
  match v with
  | VAtom (AStr _) => if re_ok then COk (ERe false) else CReError
  | VAtom (ABytes _) => if re_ok then COk (ERe true) else CReError
  | _ => CTypeError
  end.
Inductive gresult := GRaise | GReErr | GOk (ops : list top).

(* the hand model's events as store operations (verbose_level >= 2: d[key] = value; else s.add(key)) *)
Definition rk_values : pystr := s2p "matched_values".
Definition rk_paths : pystr := s2p "matched_paths".
Definition rk_unprocessed : pystr := s2p "unprocessed".
Definition report_op (vl : Z) (rk key : pystr) (v : xvalue) : top :=
  if (vl >=? 2)%Z then TSetItem rk key v else TAdd rk key.
Definition ev_op (brepr : pystr -> pystr) (vl : Z) (e : event) : top :=
  match e with
  | EvValue p v => report_op vl rk_values (render brepr p) v
  | EvPath p v => report_op vl rk_paths (render brepr p) v
  | EvAttr p n => report_op vl rk_paths (render brepr p ++ [46%N] ++ n)%list the_method
  | EvUnproc p => TAppend rk_unprocessed (render brepr p)
  end.

(* the result dictionary entries out of a trace of store operations *)
Definition ops_dict (rk : pystr) (ops : list top) : list (pystr * xvalue) :=
  fold_left (fun d op => match op with
                         | TSetItem r k v => if pystr_eqb r rk then upsert k v d else d
                         | _ => d end) ops [].
Definition set_add (k : pystr) (l : list pystr) : list pystr :=
  if existsb (pystr_eqb k) l then l else (l ++ [k])%list.
Definition ops_set (rk : pystr) (ops : list top) : list pystr :=
  fold_left (fun d op => match op with
                         | TAdd r k => if pystr_eqb r rk then set_add k d else d
                         | _ => d end) ops [].
Definition ops_list (rk : pystr) (ops : list top) : list pystr :=
  flat_map (fun op => match op with TAppend r t => if pystr_eqb r rk then [t] else [] | _ => [] end) ops.

(* nesting depth (fuel for the generated recursion) *)
Fixpoint xdepth (v : xvalue) : nat :=
  match v with
  | XList xs | XTuple xs => S (fold_right (fun x n => Nat.max (xdepth x) n) 0 xs)
  | XDict kvs => S (fold_right (fun kv n => Nat.max (xdepth (snd kv)) n) 0 kvs)
  | XObj _ avs | XNamed _ avs => S (fold_right (fun av n => Nat.max (xdepth (snd av)) n) 0 avs)
  | XSet _ | XFrozen _ => 3
  | XAtom _ => 2      (* a str searched as an object: its bound methods (depth 1) are one level down *)
  | _ => 0
  end.

(** C16 and deepdiff.extract on ATTRIBUTE paths: the Obj block's model of extract
    (Obj/ObjText.v [oextract]: _get_nested_obj with getattr for `.name` elements; proved there:
    [oextract_render]) resolves every reported path of an object made of plain values and class
    instances ([xof v], v : ovalue) to the reported value, provided the keys are tame and the
    attribute names are plain identifiers ([attr_ok]: not starting with "__", not None / True / False:
    path.py drops / evaluates those). *)
From Coq Require Import List ZArith NArith Bool Arith String Lia.
Import ListNotations.
From DD Require Import Base.Sx Base.PyStr Base.Value.
From DD Require Path.PathModel Path.PathProofs.
From DD Require Import Obj.ObjValue Obj.ObjText Obj.ObjPathText.
From DD Require Import Search.SearchModel Search.SearchSpec Search.SearchProofs Search.SearchExtract.

Fixpoint xof (v : ovalue) : xvalue :=
  match v with
  | OAtom a => XAtom a
  | OList xs => XList (map xof xs)
  | OTuple xs => XTuple (map xof xs)
  | ODict kvs => XDict (map (fun kv => (fst kv, xof (snd kv))) kvs)
  | OSet xs => XSet xs
  | OFrozen xs => XFrozen xs
  | OObj cls attrs => XObj cls (map (fun av => (fst av, xof (snd av))) attrs)
  end.

Definition to_okey (s : step) : okey :=
  match s with SKey k => OKey k | SIdx i => OIdx i | SAttr n => OAttr n end.
Definition otame_step (s : step) : bool :=
  match s with SAttr n => attr_ok n | _ => tame_step s end.
Definition otame_path (p : path) : bool := forallb otame_step p.

Lemma render_step_otame : forall brepr s, otame_step s = true ->
  render_step brepr s = orender_key (to_okey s).
Proof.
  intros brepr s H. destruct s as [k|i|n].
  - cbn [otame_step] in H. rewrite (render_step_tame brepr _ H). reflexivity.
  - cbn [otame_step] in H. rewrite (render_step_tame brepr _ H). reflexivity.
  - cbn [otame_step] in H. cbn [render_step to_okey orender_key]. rewrite (stringify_ident n H). reflexivity.
Qed.

Theorem render_otame : forall brepr p, otame_path p = true ->
  render brepr p = orender (map to_okey p).
Proof.
  intros brepr p H. unfold render, orender, PathModel.root_str. f_equal.
  rewrite flat_map_concat_map, map_map. f_equal.
  induction p as [|s r IH]; auto. cbn [otame_path forallb] in H. apply andb_true_iff in H. destruct H as [H1 H2].
  cbn [map]. rewrite (render_step_otame brepr s H1). f_equal. apply IH. exact H2.
Qed.

Lemma otame_path_ok : forall p, otame_path p = true -> opath_ok (map to_okey p) = true.
Proof.
  unfold opath_ok. induction p as [|s r IH]; intro H; auto. cbn [otame_path forallb] in H. apply andb_true_iff in H.
  destruct H as [H1 H2]. cbn [map forallb]. rewrite (IH H2), andb_true_r.
  destruct s as [k|i|n]; cbn [otame_step to_okey okey_ok] in *; auto.
  unfold tame_step in H1. apply andb_true_iff in H1. destruct H1 as [_ H1]. exact H1.
Qed.

Lemma assoc_in_gen : forall (B : Type) (kvs : list (atom * B)) k v,
  nodup_atoms (map fst kvs) = true -> In (k, v) kvs -> assoc k kvs = Some v.
Proof.
  induction kvs as [|[k0 v0] r IH]; intros k v Hnd Hin; [destruct Hin|].
  cbn in Hnd. apply andb_true_iff in Hnd. destruct Hnd as [Hnot Hnd]. cbn [assoc].
  destruct Hin as [Heq|Hin].
  - inversion Heq; subst. rewrite py_eq_refl. reflexivity.
  - destruct (py_eq k0 k) eqn:E.
    + exfalso. apply negb_true_iff in Hnot. unfold mem_atom in Hnot.
      assert (Hex : existsb (py_eq k0) (map fst r) = true).
      { apply existsb_exists. exists k. split; auto. apply (in_map fst _ _ Hin). }
      congruence.
    + apply IH; auto.
Qed.

Lemma seq_index_nat_gen : forall (A : Type) (xs : list A) i x, nth_error xs i = Some x ->
  PathModel.seq_index xs (Z.of_nat i) = Some x.
Proof.
  intros A xs i x H. unfold PathModel.seq_index.
  assert (Hlt : i < List.length xs) by (apply nth_error_Some; congruence).
  destruct (Z.ltb_spec (Z.of_nat i) 0); [lia|].
  destruct (Z.ltb_spec (Z.of_nat i) 0); [lia|].
  destruct (Z.leb_spec (Z.of_nat (List.length xs)) (Z.of_nat i)); [lia|].
  cbn [orb]. rewrite Nat2Z.id. exact H.
Qed.

Lemma find_xof_key : forall (kvs : list (atom * ovalue)) k kv,
  find (fun kv => atom_eqb (fst kv) k) (map (fun kv => (fst kv, xof (snd kv))) kvs) = Some kv ->
  exists v, In (fst kv, v) kvs /\ snd kv = xof v /\ fst kv = k.
Proof.
  induction kvs as [|[k0 v0] r IH]; intros k kv H; cbn [map find fst snd] in H; [discriminate|].
  destruct (atom_eqb k0 k) eqn:E.
  - inversion H; subst. cbn [fst snd]. exists v0. repeat split; auto using atom_eqb_eq. left. reflexivity.
  - destruct (IH k kv H) as [v [H1 [H2 H3]]]. exists v. repeat split; auto. right. exact H1.
Qed.

Lemma find_xof_attr : forall (avs : list (pystr * ovalue)) n av,
  find (fun av => pystr_eqb (fst av) n) (map (fun av => (fst av, xof (snd av))) avs) = Some av ->
  exists v, assoc_attr n avs = Some v /\ snd av = xof v.
Proof.
  induction avs as [|[n0 v0] r IH]; intros n av H; cbn [map find fst snd] in H; [discriminate|].
  cbn [assoc_attr]. destruct (pystr_eqb n0 n) eqn:E.
  - inversion H; subst. cbn [snd]. exists v0. auto.
  - apply IH. exact H.
Qed.

Lemma oget_child : forall obj s ch, xwf (xof obj) = true ->
  match xof obj with XSet _ | XFrozen _ => false | _ => true end = true ->
  child (xof obj) s = Some ch ->
  exists ch', ch = xof ch' /\ oget obj (to_okey s) = Some ch'.
Proof.
  intros obj s ch Hwf Hns Hc.
  destruct obj as [a|xs|xs|kvs|xs|xs|cls attrs], s as [k|i|n]; cbn [xof child] in Hc; try discriminate.
  - apply nth_error_map_some in Hc. destruct Hc as [x [Hn Hx]]. exists x. split; auto.
    cbn. apply seq_index_nat_gen. exact Hn.
  - apply nth_error_map_some in Hc. destruct Hc as [x [Hn Hx]]. exists x. split; auto.
    cbn. apply seq_index_nat_gen. exact Hn.
  - destruct (find _ _) as [kv|] eqn:Hf; [|discriminate]. apply find_xof_key in Hf.
    destruct Hf as [v [Hin [Hv Hk]]]. cbn in Hc. inversion Hc; subst. exists v. split; auto.
    cbn [to_okey oget oget_item]. apply assoc_in_gen; auto.
    cbn [xof xwf] in Hwf. apply andb_true_iff in Hwf. destruct Hwf as [Hnd _].
    rewrite map_map in Hnd. cbn [fst] in Hnd. exact Hnd.
  - destruct (find _ _) as [av|] eqn:Hf; [|discriminate]. apply find_xof_attr in Hf.
    destruct Hf as [v [Ha Hv]]. cbn in Hc. inversion Hc; subst. exists v. split; auto.
Qed.

Theorem oresolve_get_at : forall q obj w, xwf (xof obj) = true -> set_free_along (xof obj) q = true ->
  get_at (xof obj) q = Some w ->
  exists v, w = xof v /\ oresolve obj (map to_okey q) = Some v.
Proof.
  induction q as [|s r IH]; intros obj w Hwf Hsf Hg; cbn [get_at] in Hg.
  - inversion Hg. exists obj. auto.
  - cbn [set_free_along] in Hsf. apply andb_true_iff in Hsf. destruct Hsf as [Hns Hsf].
    destruct (child (xof obj) s) as [ch|] eqn:Hc; [|discriminate].
    destruct (oget_child obj s ch Hwf Hns Hc) as [ch' [Hch Hgi]]. subst ch.
    cbn [map oresolve]. rewrite Hgi. apply IH; auto. eapply child_wf; eauto.
Qed.

(* every reported matched_values / matched_paths path of an object made of plain values and class
   instances is resolved by deepdiff.extract (attribute elements included) to the reported value *)
Theorem sound_extract_obj_partial :
  forall (slower brepr : pystr -> pystr) (re_search excl_re : pystr -> bool) (re_ok : bool) (re_text : pystr)
         (sa ba : list pystr) (c : config) (item : value) (obj : ovalue) (cs : bool)
         (it : eitem) (evs : list event),
    xwf (xof obj) = true ->
    prepare slower brepr re_ok c item = PItem cs it ->
    deep_search slower brepr re_search re_ok excl_re re_text sa ba c item (xof obj) = ROk evs ->
    forall (q : path) (w : xvalue),
      In (EvValue q w) evs \/ In (EvPath q w) evs ->
      otame_path q = true -> set_free_along (xof obj) q = true ->
      exists v : ovalue, w = xof v /\ oextract obj (render brepr q) = Some v.
Proof.
  intros slower brepr re_search excl_re re_ok re_text sa ba c item obj cs it evs Hwf Hp Hr q w Hin Ht Hs.
  assert (Hg : get_at (xof obj) q = Some w).
  { destruct Hin as [Hin|Hin].
    - apply (final_sound _ _ _ _ _ _ _ _ _ _ _ _ _ _ Hwf Hp Hr q w Hin).
    - apply (final_paths_exact _ _ _ _ _ _ _ _ _ _ _ _ _ _ Hwf Hp Hr) in Hin.
      unfold paths_spec in Hin. destruct (item_excl c it); [destruct Hin|]. apply filter_In in Hin.
      destruct Hin as [Hl _]. apply in_locations_root in Hl; auto. }
  destruct (oresolve_get_at q obj w Hwf Hs Hg) as [v [Hw Hres]]. exists v. split; auto.
  rewrite (render_otame brepr q Ht).
  rewrite (oextract_render obj (map to_okey q) (otame_path_ok q Ht)). exact Hres.
Qed.

(* the guard on attribute names is needed: DeepSearch(A(__q=5), 5) reports root.__q, which
   path.py reads as the root itself *)
Local Open Scope string_scope.
Definition priv_obj := OObj (s2p "A") [(s2p "__q", OAtom (AInt 5))].
Theorem sound_extract_obj_refuted :
  exists evs q w,
    xwf (xof priv_obj) = true /\
    deep_search lower id_repr no_re true no_re [] [] [] k16f_cfg (VAtom (AInt 5)) (xof priv_obj) = ROk evs /\
    In (EvValue q w) evs /\ set_free_along (xof priv_obj) q = true /\
    oextract priv_obj (render id_repr q) <> Some (OAtom (AInt 5)).
Proof.
  eexists. exists [SAttr (s2p "__q")], (XAtom (AInt 5)).
  split; [reflexivity|]. split; [vm_compute; reflexivity|]. split; [left; reflexivity|].
  split; [reflexivity|]. vm_compute. discriminate.
Qed.

Example otame_example : otame_path [SIdx 0; SAttr (s2p "a_1"); SKey (AStr (s2p "k")); SAttr (s2p "_p")] = true.
Proof. vm_compute. reflexivity. Qed.

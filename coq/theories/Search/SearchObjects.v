(** C16 - class instances, named tuples and the `unprocessed` list: facts specific to the
    extension of the value universe ([xvalue]), witnesses, and the link back to the shared
    universe (on plain values [xeqv] is Python's == of Base/Value.v). *)
From Coq Require Import List ZArith NArith Bool Arith String Lia.
Import ListNotations.
From DD Require Import Base.Sx Base.PyStr Base.Value Search.SearchModel Search.SearchSpec Search.SearchProofs.

(* on plain values the equality used by the shortcut / by __search_obj is py_eqv *)
Lemma xeqv_inj : forall v w, xeqv (inj v) w = py_eqv v w.
Proof.
  fix IH 1. intros v w. destruct v as [a|xs|xs|kvs|xs|xs], w as [b|ys|ys|kws|ys|ys]; cbn [inj xeqv py_eqv]; try reflexivity.
  - revert ys. induction xs as [|x r IHr]; intros [|y ys]; cbn; try reflexivity. rewrite IH, IHr. reflexivity.
  - revert ys. induction xs as [|x r IHr]; intros [|y ys]; cbn; try reflexivity. rewrite IH, IHr. reflexivity.
  - rewrite map_length. f_equal.
    induction kvs as [|[k x] r IHr]; cbn; [reflexivity|]. rewrite IHr.
    destruct (assoc k kws); [rewrite IH|]; reflexivity.
Qed.

Local Open Scope string_scope.

(* ---- a run over instances, a named tuple, a bound method and an unreadable object ----
   class A: a = ['x', 2]; b = 'x1'; meth()        P = namedtuple('P', 'x y')
   DeepSearch([A(), S(unset slot), {'k': P(1, 'x')}], 'x', verbose_level=2) *)
Definition ex_inst :=
  XObj (s2p "A") [(s2p "a", XList [XAtom (AStr (s2p "x")); XAtom (AInt 2)]);
                  (s2p "b", XAtom (AStr (s2p "x1")));
                  (s2p "xmeth", XObj (s2p "method") [])].
Definition ex_named := XNamed (s2p "P") [(s2p "x", XAtom (AInt 1)); (s2p "y", XAtom (AStr (s2p "x")))].
Definition ex_obj := XList [ex_inst; XOpaque (s2p "S"); XDict [(AStr (s2p "k"), ex_named)]].
Definition ex_cfg := mkConfig false false false true [] [].

Example objects_example :
  xwf ex_obj = true /\
  deep_search lower id_repr no_re no_re [] [] [] ex_cfg (VAtom (AStr (s2p "x"))) ex_obj
  = ROk [EvValue [SIdx 0; SAttr (s2p "a"); SIdx 0] (XAtom (AStr (s2p "x")));
         EvValue [SIdx 0; SAttr (s2p "b")] (XAtom (AStr (s2p "x1")));
         EvPath [SIdx 0; SAttr (s2p "xmeth")] (XObj (s2p "method") []);
         EvUnproc [SIdx 1];
         EvPath [SIdx 2; SKey (AStr (s2p "k")); SAttr (s2p "x")] (XAtom (AInt 1));
         EvValue [SIdx 2; SKey (AStr (s2p "k")); SAttr (s2p "y")] (XAtom (AStr (s2p "x")))]
  /\ render id_repr [SIdx 2; SKey (AStr (s2p "k")); SAttr (s2p "y")] = s2p "root[2]['k'].y".
Proof. repeat split; vm_compute; reflexivity. Qed.

(* a named tuple that equals a tuple item is found as a dictionary value and is searched inside all
   the same (contrast K16h: a tuple / list in that place is not found) ... *)
Definition nt_item := VTuple [VAtom (AInt 1); VAtom (AHalf 4)].
Definition nt_obj := XDict [(AStr (s2p "k"), XNamed (s2p "P") [(s2p "x", XAtom (AHalf 2)); (s2p "y", XAtom (AInt 2))]);
                            (AStr (s2p "t"), XTuple [XAtom (AInt 1); XAtom (AInt 2)])].
Example named_tuple_found_as_dict_value :
  deep_search lower id_repr no_re no_re (s2p "(1, 2.0)") [] [] ex_cfg nt_item nt_obj
  = ROk [EvValue [SKey (AStr (s2p "k"))] (XNamed (s2p "P") [(s2p "x", XAtom (AHalf 2)); (s2p "y", XAtom (AInt 2))])].
Proof. vm_compute. reflexivity. Qed.

(* ... but as an item of a list it is reported by the equality shortcut and NOT searched inside;
   an instance is never equal to an item *)
Example named_tuple_in_list :
  deep_search lower id_repr no_re no_re (s2p "(1, 2.0)") [] [] ex_cfg nt_item
              (XList [XNamed (s2p "P") [(s2p "x", XAtom (AInt 1)); (s2p "y", XAtom (AInt 2))];
                      XObj (s2p "A") [(s2p "x", XAtom (AInt 1)); (s2p "y", XAtom (AInt 2))]])
  = ROk [EvValue [SIdx 0] (XNamed (s2p "P") [(s2p "x", XAtom (AInt 1)); (s2p "y", XAtom (AInt 2))])].
Proof. vm_compute. reflexivity. Qed.

(* K16 with classes: an instance of an excluded class is skipped as an item of a list, but entered as
   a dictionary value / attribute value / root; a named tuple is a tuple for exclude_types *)
Definition k16o_cfg := mkConfig false false false true [] [TyObj (s2p "A"); TyB TTuple].
Definition k16o_inst := XObj (s2p "A") [(s2p "a", XAtom (AInt 7))].
Definition k16o_obj := XList [k16o_inst; XDict [(AStr (s2p "k"), k16o_inst)];
                              XNamed (s2p "P") [(s2p "x", XAtom (AInt 7))]].
Example exclusions_classes_refuted :
  exists evs q v par w,
    xwf k16o_obj = true /\
    deep_search lower id_repr no_re no_re [] [] [] k16o_cfg (VAtom (AInt 7)) k16o_obj = ROk evs /\
    evs = [EvValue q v] /\ q = [SIdx 1; SKey (AStr (s2p "k")); SAttr (s2p "a")] /\
    par = [SIdx 1; SKey (AStr (s2p "k"))] /\ get_at k16o_obj par = Some w /\
    ty_excl k16o_cfg (xtype_of w) = true.
Proof. do 5 eexists. repeat split; vm_compute; reflexivity. Qed.

(** Facts about the statement-level vocabulary (SearchStmt.v) used by the source tie of C16
    (coq/srctie/SearchGenEquiv.v): text of a path extended by one step, dictionary lookup of a key that is
    present, the hand model's loops as flat_map / for_enum, result dictionaries out of store operations. *)
From Coq Require Import List ZArith NArith Bool Arith String Lia.
Import ListNotations.
From DD Require Import Base.PyStr Base.Value Base.ValueFacts Search.SearchModel Search.SearchSpec Search.SearchProofs Search.SearchStmt.

Lemma render_snoc : forall brepr p s, render brepr (p ++ [s]) = (render brepr p ++ render_step brepr s)%list.
Proof.
  intros brepr p s. unfold render. rewrite map_app, concat_app. cbn [map]. change (List.concat [render_step brepr s]) with (render_step brepr s ++ [])%list.
  rewrite app_nil_r, app_assoc. reflexivity.
Qed.

Lemma map_flat_map : forall (A B C : Type) (g : B -> C) (f : A -> list B) l,
  map g (flat_map f l) = flat_map (fun x => map g (f x)) l.
Proof. intros A B C g f l. induction l as [|x r IH]; [reflexivity|]. cbn. rewrite map_app, IH. reflexivity. Qed.

Lemma flat_map_ext_In : forall (A B : Type) (f g : A -> list B) l,
  (forall x, In x l -> f x = g x) -> flat_map f l = flat_map g l.
Proof.
  intros A B f g l H. induction l as [|x r IH]; [reflexivity|]. cbn. rewrite H by (left; reflexivity).
  rewrite IH; [reflexivity|]. intros y Hy. apply H. right. exact Hy.
Qed.

Lemma flat_map_map : forall (A B C : Type) (h : A -> B) (f : B -> list C) l,
  flat_map f (map h l) = flat_map (fun x => f (h x)) l.
Proof. intros A B C h f l. induction l as [|x r IH]; [reflexivity|]. cbn. rewrite IH. reflexivity. Qed.

(* d[k] for a key of d *)
Lemma assoc_nodup : forall (B : Type) (kvs : list (atom * B)) k v,
  nodup_atoms (map fst kvs) = true -> In (k, v) kvs -> assoc k kvs = Some v.
Proof.
  induction kvs as [|[k0 v0] r IH]; intros k v Hnd Hin; [destruct Hin|].
  cbn in Hnd. apply andb_true_iff in Hnd. destruct Hnd as [Hnot Hnd]. cbn [assoc].
  destruct Hin as [Heq|Hin].
  - inversion Heq; subst. rewrite py_eq_refl. reflexivity.
  - destruct (py_eq k0 k) eqn:E.
    + assert (Hm : mem_atom k0 (map fst r) = true).
      { unfold mem_atom. apply existsb_exists. exists k. split; [apply (in_map fst _ _ Hin)|exact E]. }
      rewrite Hm in Hnot. discriminate.
    + apply IH; auto.
Qed.

Lemma x_getitem_in : forall kvs k v,
  nodup_atoms (map fst kvs) = true -> In (k, v) kvs -> x_getitem (XDict kvs) k = v.
Proof. intros kvs k v Hnd Hin. unfold x_getitem. rewrite (assoc_nodup _ _ _ _ Hnd Hin). reflexivity. Qed.

(* `for k in d.keys(): .. d[k] ..` is a loop over the entries *)
Lemma for_each_keys : forall (kvs : list (atom * xvalue)) (F : atom -> list top) (G : atom * xvalue -> list top),
  (forall kv, In kv kvs -> F (fst kv) = G kv) ->
  for_each (x_keys (XDict kvs)) F = flat_map G kvs.
Proof.
  intros kvs F G H. unfold for_each, x_keys. rewrite flat_map_map. apply flat_map_ext_In. exact H.
Qed.

Lemma nodup_strs_atoms : forall (A : Type) (avs : list (pystr * A)),
  nodup_strs (map fst avs) = true -> nodup_atoms (map fst (map (fun av => (AStr (fst av), snd av)) avs)) = true.
Proof.
  induction avs as [|[n v] r IH]; intro H; [reflexivity|].
  cbn in H. apply andb_true_iff in H. destruct H as [H1 H2]. cbn [map fst nodup_atoms].
  rewrite (IH H2), andb_true_r. apply negb_true_iff in H1. apply negb_true_iff.
  rewrite <- H1. unfold mem_atom. clear. induction r as [|[m w] r IH]; [reflexivity|]. cbn. rewrite IH. reflexivity.
Qed.

(* the texts search.py builds for a new path *)
Lemma fmt_sub : forall a b, pyfmt (s2p "%s[%s]") [a; b] = (a ++ [91%N] ++ b ++ [93%N])%list.
Proof. reflexivity. Qed.
Lemma fmt_attr : forall a b, pyfmt (s2p "%s.%s") [a; b] = (a ++ [46%N] ++ b)%list.
Proof. intros a b. cbn. rewrite app_nil_r. reflexivity. Qed.
Lemma fmt_quote : forall a, pyfmt (s2p "'%s'") [a] = ([39%N] ++ a ++ [39%N])%list.
Proof. reflexivity. Qed.
Lemma fmt_one : forall a, pyfmt (s2p "%s") [a] = a.
Proof. intro a. cbn. apply app_nil_r. Qed.
Lemma format_sub : forall a b, pyformat (s2p "{}[{}]") [a; b] = (a ++ [91%N] ++ b ++ [93%N])%list.
Proof. reflexivity. Qed.

Lemma text_key : forall brepr t k,
  pyfmt (s2p "%s[%s]") [t; if k_isinstance k [Cstrings] then pyfmt (s2p "'%s'") [k_str brepr k] else k_str brepr k]
  = (t ++ render_step brepr (SKey k))%list.
Proof.
  intros brepr t k. rewrite fmt_sub. destruct k as [|b|z|h|s|s]; try reflexivity;
    cbn [k_isinstance x_isinstance existsb x_is orb]; rewrite fmt_quote; cbn [render_step k_str str_atom];
    cbn; rewrite <- !app_assoc; reflexivity.
Qed.
Lemma text_attr : forall brepr t n,
  pyfmt (s2p "%s.%s") [t; k_str brepr (AStr n)] = (t ++ render_step brepr (SAttr n))%list.
Proof. intros brepr t n. rewrite fmt_attr. reflexivity. Qed.
Lemma text_idx : forall brepr t i,
  pyformat (s2p "{}[{}]") [t; str_nat i] = (t ++ render_step brepr (SIdx i))%list.
Proof. intros brepr t i. rewrite format_sub. reflexivity. Qed.
Lemma text_idx' : forall brepr t i,
  pyfmt (s2p "%s[%s]") [t; str_nat i] = (t ++ render_step brepr (SIdx i))%list.
Proof. intros brepr t i. rewrite fmt_sub. reflexivity. Qed.

Section Loops.
  Variables (slower brepr : pystr -> pystr) (re_search excl_re : pystr -> bool) (re_text : pystr).
  Variables (sa ba : list pystr) (c : config) (cs : bool) (it : eitem).
  Local Notation search := (search slower brepr re_search excl_re re_text sa ba c cs it).

  Lemma iter_ent_flat_map : forall (A : Type) (mk : A -> step) pre (ents : list (A * xvalue)),
    iter_ent slower brepr re_search excl_re re_text sa ba c cs it mk pre ents
    = flat_map (fun e => if is_ref (snd e) then []
                         else (path_event slower brepr re_search re_text c cs it (pre ++ [mk (fst e)]) (snd e)
                               ++ search (snd e) (pre ++ [mk (fst e)]))%list) ents.
  Proof.
    intros A mk pre ents. induction ents as [|e r IH]; [reflexivity|].
    cbn [iter_ent flat_map]. fold (iter_ent slower brepr re_search excl_re re_text sa ba c cs it mk pre).
    rewrite IH. destruct (is_ref (snd e)); [reflexivity|]. rewrite <- app_assoc. reflexivity.
  Qed.

  Lemma iter_list_for_enum : forall (g : event -> top) pre xs n,
    map g (iter_list slower brepr re_search excl_re re_text sa ba c cs it pre xs n)
    = for_enum_from n xs (fun i x => map g (thing_events slower brepr excl_re c cs it (search x) x (pre ++ [SIdx i]))).
  Proof.
    intros g pre xs. induction xs as [|x r IH]; intro n; [reflexivity|].
    cbn [iter_list for_enum_from]. fold (iter_list slower brepr re_search excl_re re_text sa ba c cs it pre).
    rewrite map_app, IH. reflexivity.
  Qed.

  Lemma iter_atoms_for_enum : forall (g : event -> top) pre xs n,
    map g (iter_atoms slower brepr re_search excl_re re_text sa ba c cs it pre xs n)
    = for_enum_from n (map XAtom xs)
        (fun i x => map g (thing_events slower brepr excl_re c cs it (search x) x (pre ++ [SIdx i]))).
  Proof.
    intros g pre xs. induction xs as [|x r IH]; intro n; [reflexivity|].
    cbn [iter_atoms for_enum_from map]. fold (iter_atoms slower brepr re_search excl_re re_text sa ba c cs it pre).
    rewrite map_app, IH. reflexivity.
  Qed.
End Loops.

Lemma for_enum_from_ext : forall (A : Type) (l : list A) n (f g : nat -> A -> list top),
  (forall i x, In x l -> f i x = g i x) -> for_enum_from n l f = for_enum_from n l g.
Proof.
  intros A l. induction l as [|x r IH]; intros n f g H; [reflexivity|]. cbn [for_enum_from].
  rewrite H by (left; reflexivity). rewrite (IH (S n) f g); [reflexivity|]. intros i y Hy. apply H. right. exact Hy.
Qed.

(* depth bookkeeping *)
Lemma max_fold_le : forall (A : Type) (f : A -> nat) l x, In x l -> f x <= fold_right (fun y n => Nat.max (f y) n) 0 l.
Proof.
  intros A f l x H. induction l as [|y r IH]; [destruct H|]. cbn [fold_right]. destruct H as [->|H]; [lia|].
  specialize (IH H). lia.
Qed.

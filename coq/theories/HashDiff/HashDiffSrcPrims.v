(** HashDiff/HashDiffSrcPrims.v - types and primitive helpers of the STATEMENT-LEVEL model that the
    source tie `hashparams` (harness/translate/hashparams.py -> DDGen.HashDiffGen) is generated into.
    Hand-written, definitions only; imported by the generated file.  Nothing here is derived from
    /repo: it is the vocabulary (Python values of option parameters, str-keyed dicts, the insertion-ordered
    hashtable of _create_hashtable, SetOrdered difference) in which the translator spells the statements of

      diff.py      DEEPHASH_PARAM_KEYS, DeepDiff.__init__ (the filling of self._parameters),
                   DeepDiff._get_deephash_params, DeepDiff._add_hash, DeepDiff._create_hashtable,
                   the first part of DeepDiff._diff_iterable_with_deephash
      deephash.py  DeepHash.__init__ (up to the call of self._hash)
      base.py      Base.get_significant_digits, DEFAULT_SIGNIFICANT_DIGITS_WHEN_IGNORE_NUMERIC_TYPES

    plus the two INTERPRETATION functions that say which Python name each field of the hand model stands for:
    [args_of] (the keyword arguments of the DeepDiff call that the hand model's (F, priv, rep) denotes) and
    [hopts_of_self] (the attributes of the DeepHash object that the fields of Hash.HashModel.hopts denote).
    These two tables are part of the trusted base of the tie (NOTES_srctie.md). *)
From Coq Require Import List NArith Bool String.
Import ListNotations.
From DD Require Import Base.PyStr Base.Value Hash.HashModel Options.OptModel DiffIO.DiffIOModel.
Local Open Scope string_scope.

(* ------------------------------------------------------------------ *)
(** * Python values of option parameters *)

Inductive pv :=
| PNone
| PB (b : bool)
| PN (n : N)                        (* a non-negative int *)
| PS (s : string)
| PL (l : list pv)                  (* list / tuple / set display *)
| PD (d : list (string * pv))       (* dict with str keys, insertion order; also an object's __dict__ *)
| PConst (name : string)            (* the module-level object of deepdiff bound to that name (numbers, strings, ...) *)
| PX (what : string)                (* the value of an expression outside the modelled fragment, named by its source text *)
| PRaise (what : string).           (* an exception propagates *)

Definition pdict := list (string * pv).

(* bool(x).  Opaque values and module-level objects (type tuples, functions) are truthy. *)
Definition truthy (x : pv) : bool :=
  match x with
  | PNone => false
  | PB b => b
  | PN n => negb (N.eqb n 0)
  | PS s => negb (String.eqb s "")
  | PL l => match l with [] => false | _ :: _ => true end
  | PD d => match d with [] => false | _ :: _ => true end
  | PConst _ | PX _ | PRaise _ => true
  end.

(* == : structural (bool and int are kept apart: no parameter of the fragment compares them) *)
Fixpoint p_eqb (a b : pv) {struct a} : bool :=
  match a, b with
  | PNone, PNone => true
  | PB x, PB y => Bool.eqb x y
  | PN x, PN y => N.eqb x y
  | PS x, PS y => String.eqb x y
  | PL xs, PL ys =>
      (fix go (xs ys : list pv) {struct xs} : bool :=
         match xs, ys with
         | [], [] => true
         | x :: xs', y :: ys' => p_eqb x y && go xs' ys'
         | _, _ => false
         end) xs ys
  | PD xs, PD ys =>
      (fix go (xs ys : list (string * pv)) {struct xs} : bool :=
         match xs, ys with
         | [], [] => true
         | (k, x) :: xs', (k', y) :: ys' => String.eqb k k' && p_eqb x y && go xs' ys'
         | _, _ => false
         end) xs ys
  | PConst x, PConst y => String.eqb x y
  | PX x, PX y => String.eqb x y
  | _, _ => false
  end.

Definition p_eq (a b : pv) : pv := PB (p_eqb a b).
Definition p_ne (a b : pv) : pv := PB (negb (p_eqb a b)).
Definition p_is (a b : pv) : pv := PB (p_eqb a b).            (* `is` on None / True / False / module objects *)
Definition p_is_not (a b : pv) : pv := PB (negb (p_eqb a b)).
Definition p_not (a : pv) : pv := PB (negb (truthy a)).
Definition p_or (a b : pv) : pv := if truthy a then a else b.
Definition p_and (a b : pv) : pv := if truthy a then b else a.
(* x in container: lists / tuples / sets by ==, dicts by key; anything else (opaque) -> False *)
Definition p_in (x c : pv) : pv :=
  match c with
  | PL l => PB (existsb (p_eqb x) l)
  | PD d => match x with PS s => PB (existsb (fun kv => String.eqb s (fst kv)) d) | _ => PB false end
  | _ => PB false
  end.
Definition p_not_in (x c : pv) : pv := PB (negb (truthy (p_in x c))).
(* order comparisons: decided on ints, False when an operand is opaque (the tie covers the paths on which
   range checks of unmodelled arguments pass) *)
Definition p_lt (a b : pv) : pv := match a, b with PN x, PN y => PB (N.ltb x y) | _, _ => PB false end.
Definition p_gt (a b : pv) : pv := p_lt b a.
Definition p_le (a b : pv) : pv := match a, b with PN x, PN y => PB (N.leb x y) | _, _ => PB false end.
Definition p_ge (a b : pv) : pv := p_le b a.
Definition p_ifexp (c a b : pv) : pv := if truthy c then a else b.

(* ------------------------------------------------------------------ *)
(** * str-keyed dicts (keyword arguments, __dict__, _parameters, deephash_parameters) *)

Fixpoint pd_find (d : pdict) (k : string) : option pv :=
  match d with
  | [] => None
  | (k', v) :: r => if String.eqb k k' then Some v else pd_find r k
  end.
Definition pd_has (d : pdict) (k : string) : bool := match pd_find d k with Some _ => true | None => false end.
(* d[k] / obj.k : KeyError / AttributeError is a raised value *)
Definition pd_get (d : pdict) (k : string) : pv := match pd_find d k with Some v => v | None => PRaise ("KeyError: " ++ k) end.
(* d[k] = v : in place when present, appended otherwise *)
Fixpoint pd_set (d : pdict) (k : string) (v : pv) : pdict :=
  match d with
  | [] => [(k, v)]
  | (k', v') :: r => if String.eqb k k' then (k', v) :: r else (k', v') :: pd_set r k v
  end.
Definition pd_update (d e : pdict) : pdict := fold_left (fun acc kv => pd_set acc (fst kv) (snd kv)) e d.
Definition pd_without (d : pdict) (ks : list string) : pdict :=
  filter (fun kv => negb (existsb (String.eqb (fst kv)) ks)) d.
(* x[k] on a dict VALUE *)
Definition p_item (x : pv) (k : string) : pv :=
  match x with PD d => pd_get d k | PRaise e => PRaise e | _ => PRaise ("TypeError: subscript " ++ k) end.
Definition p_dict (x : pv) : pdict := match x with PD d => d | _ => [] end.
(* x[k] = v on a dict VALUE held by a local *)
Definition p_setitem (x : pv) (k : string) (v : pv) : pv :=
  match x with PD d => PD (pd_set d k v) | PRaise e => PRaise e | _ => PRaise ("TypeError: item assignment " ++ k) end.
(* x.copy() / dict(x) *)
Definition p_copy (x : pv) : pv := x.
(* {key: f key for key in KEYS} *)
Definition pd_comprehension (keys : list string) (f : string -> pv) : pdict :=
  fold_left (fun acc k => pd_set acc k (f k)) keys [].

(* a call f(k1=v1, ..., **d): a repeated keyword is a TypeError *)
Fixpoint pd_nodup (d : pdict) : bool :=
  match d with
  | [] => true
  | (k, _) :: r => negb (pd_has r k) && pd_nodup r
  end.
Definition pd_call (explicit star : pdict) : pv :=
  let kw := (explicit ++ star)%list in
  if pd_nodup kw then PD kw else PRaise "TypeError: got multiple values for keyword argument".
(* binding of a keyword parameter with a default *)
Definition kwarg (kw : pdict) (name : string) (default : pv) : pv :=
  match pd_find kw name with Some v => v | None => default end.
(* first propagating exception among the values of a dict *)
Fixpoint pd_raised (d : pdict) : option string :=
  match d with
  | [] => None
  | (_, PRaise e) :: _ => Some e
  | _ :: r => pd_raised r
  end.

(* ------------------------------------------------------------------ *)
(** * Interpretation tables (trusted): hand-model names <-> Python names *)

(* the call  DeepDiff(t1, t2, ignore_order=True, report_repetition=rep, ignore_private_variables=priv, **F)
   that HashDiffModel.run_diff_ioF ... c F rep ... stands for (priv = DiffModel.ignore_private c);
   math_epsilon / exclude_types of F are outside [shared F] and not passed *)
Definition args_of (F : opts) (priv rep : bool) : pdict :=
  [("ignore_order", PB true);
   ("report_repetition", PB rep);
   ("ignore_private_variables", PB priv);
   ("ignore_string_case", PB (o_case F));
   ("ignore_string_type_changes", PB (o_strty F));
   ("ignore_numeric_type_changes", PB (o_numty F));
   ("significant_digits", match o_sig F with Some d => PN d | None => PNone end)].

(* the fields of Hash.HashModel.hopts are read off the DeepHash OBJECT at the moment __init__ calls self._hash:
   [HashModel.eff_digits] is self.significant_digits (already passed through get_significant_digits) *)
Definition as_bool (x : pv) : option bool := match x with PB b => Some b | _ => None end.
Definition as_digits (x : pv) : option (option nat) :=
  match x with PNone => Some None | PN n => Some (Some (N.to_nat n)) | _ => None end.
Definition hopts_of_self (self : pv) : option hopts :=
  match self with
  | PD s =>
      match as_bool (pd_get s "ignore_repetition"), as_bool (pd_get s "ignore_iterable_order"),
            as_bool (pd_get s "ignore_private_variables"), as_bool (pd_get s "ignore_string_case"),
            as_bool (pd_get s "ignore_string_type_changes"), as_bool (pd_get s "ignore_numeric_type_changes"),
            as_digits (pd_get s "significant_digits") with
      | Some ir, Some io, Some ip, Some ic, Some ist, Some inum, Some sd => Some (mk_hopts ir io ip ic ist inum sd)
      | _, _, _, _, _, _, _ => None
      end
  | _ => None
  end.

(* an option record with the digits already made effective (what the DeepHash object holds) *)
Definition hopts_eff (o : hopts) : hopts :=
  mk_hopts (ignore_repetition o) (ignore_iterable_order o) (HashModel.ignore_private o) (ignore_string_case o)
           (ignore_string_type_changes o) (ignore_numeric_type_changes o) (eff_digits o).

(* ------------------------------------------------------------------ *)
(** * The hashtable of _create_hashtable: {item_hash: IndexedHash(indexes, item)}, insertion order *)

(* outcome of  DeepHash(item, ...)  followed by  deep_hash[item]  *)
Inductive hres :=
| HOk (h : pystr)
| HUnprocessed                       (* deep_hash[item] is the `unprocessed` marker *)
| HCallExc (name : string)           (* the DeepHash(item, ...) call raises an exception of that class *)
| HItemExc (name : string).          (* deep_hash[item] raises an exception of that class *)

Record indexed_hash := IndexedHash { ih_indexes : list nat; ih_item : value }.
Definition htable := list (pystr * indexed_hash).

Fixpoint ht_find (t : htable) (h : pystr) : option indexed_hash :=
  match t with
  | [] => None
  | (h', e) :: r => if pystr_eqb h h' then Some e else ht_find r h
  end.
Definition ht_has (t : htable) (h : pystr) : bool := match ht_find t h with Some _ => true | None => false end.
Fixpoint ht_set (t : htable) (h : pystr) (e : indexed_hash) : htable :=
  match t with
  | [] => [(h, e)]
  | (h', e') :: r => if pystr_eqb h h' then (h', e) :: r else (h', e') :: ht_set r h e
  end.
(* t[h].indexes.append(i) *)
Fixpoint ht_append_index (t : htable) (h : pystr) (i : nat) : htable :=
  match t with
  | [] => []
  | (h', e) :: r => if pystr_eqb h h' then (h', IndexedHash (ih_indexes e ++ [i]) (ih_item e)) :: r
                    else (h', e) :: ht_append_index r h i
  end.
Definition ht_keys (t : htable) : list pystr := map fst t.
(* {k: v for k, v in t.items() if k in s} *)
Definition ht_restrict (t : htable) (s : list pystr) : htable := filter (fun kv => mem_h (fst kv) s) t.

(* enumerate(obj) *)
Fixpoint enumerate_from {A} (i : nat) (l : list A) : list (nat * A) :=
  match l with
  | [] => []
  | x :: r => (i, x) :: enumerate_from (S i) r
  end.
Definition enumerate {A} (l : list A) : list (nat * A) := enumerate_from 0 l.

(* SetOrdered(keys) of the keys of a dict: the keys, in order (they are pairwise different already);
   a - b on SetOrdered: the members of a not in b, in a's order *)
Definition SetOrdered (l : list pystr) : list pystr := l.
Definition so_sub (a b : list pystr) : list pystr := filter (fun h => negb (mem_h h b)) a.

(* a `for` loop whose body can raise: None = an exception left the loop *)
Definition for_loop {A S} (l : list A) (s0 : S) (body : S -> A -> option S) : option S :=
  fold_left (fun acc x => match acc with Some s => body s x | None => None end) l (Some s0).

(** use_enum_value, self-contained: a member facing a plain value / a member of another class whose value has the
    SAME TYPE as the member's value (not None) is treated by _diff exactly as its value - the comparer "without type
    check" of HashDiffYProofs.y_enum_transfer is the ordinary comparer then ([dispatch_rtc]: report_type_change only
    decides whether _diff_numbers prefixes the type names, which are equal for operands of one type).  Values of
    DIFFERENT types: finding C12-enum-unwrap-skips-type-check (HashDiffYWitness). *)
From Coq Require Import List ZArith NArith Bool Arith Lia String.
Import ListNotations.
From DD Require Import Base.PyStr Hash.HashModel Options.OptDtModel Options.YValue Options.YModel HashDiff.HashDiffYModel HashDiff.HashDiffYProofs.
Local Open Scope list_scope.

Lemma pystr_eqb_app_head (p x y : pystr) : pystr_eqb (p ++ x) (p ++ y) = pystr_eqb x y.
Proof. induction p as [|ch p IH]; [reflexivity|]. cbn. rewrite N.eqb_refl. exact IH. Qed.

Lemma pystr_eqb_true s t : pystr_eqb s t = true -> s = t.
Proof.
  revert t. induction s as [|c s IH]; intros [|d t] E; try discriminate; [reflexivity|].
  cbn in E. apply andb_true_iff in E as [E1 E2]. apply N.eqb_eq in E1. subst d. f_equal. apply IH. exact E2.
Qed.

Section EnSame.
Variable udiff : pystr -> pystr -> pystr.
Variable F : opts.

(* report_type_change only decides whether _diff_numbers prefixes the type names to the two number texts:
   for two operands of ONE type the prefixes are equal, so the flag is immaterial *)
Lemma numD_rtc a b p1 p2 : num_tag F a = num_tag F b -> numD F true a b p1 p2 = numD F false a b p1 p2.
Proof.
  intros T. unfold numD. destruct (o_eps F); [reflexivity|]. destruct (eff_sig F) as [d|]; [|reflexivity].
  destruct (ntxt F d a) as [[x|]|e]; cbn [bind]; try reflexivity.
  destruct (ntxt F d b) as [[y|]|e]; cbn [bind]; try reflexivity.
  rewrite T. cbn [app]. rewrite pystr_eqb_app_head. reflexivity.
Qed.

Lemma num_tag_same_type a b : ty_eqb (atom_ty a) (atom_ty b) = true -> num_tag F a = num_tag F b.
Proof.
  unfold num_tag. destruct (o_numty F); [reflexivity|].
  destruct a, b; cbn [atom_ty ty_eqb ty_name]; try discriminate; try reflexivity.
  intros E. apply pystr_eqb_true in E. exact E.
Qed.

Lemma dispatch_rtc a b p1 p2 : ty_eqb (atom_ty a) (atom_ty b) = true ->
  dispatch udiff F true a b p1 p2 = dispatch udiff F false a b p1 p2.
Proof.
  intros T. destruct a; cbn [dispatch]; try reflexivity; apply numD_rtc, num_tag_same_type; exact T.
Qed.

Hypothesis enum_on : o_enum F = true.

(* a member facing a plain value / a member of another class whose (unwrapped) value has the SAME TYPE as the
   member's value, not None: _diff treats the member exactly as its value *)
Theorem leafR_enum_same_type c n o v b p1 p2 :
  o_excl F = [] -> o_nan F = false -> other_class c b = true ->
  is_none (atom_of_e v) = false -> ty_eqb (atom_ty (atom_of_e v)) (atom_ty (unwrap F b)) = true ->
  leafR udiff F (AEnum c n o v) b p1 p2 = leafR udiff F (atom_of_e v) (unwrap F b) p1 p2.
Proof.
  intros Hx Hn Hc Na T.
  assert (Nb : is_none (unwrap F b) = false).
  { destruct (unwrap F b) eqn:Eb; try reflexivity. destruct v; cbn in T, Na; discriminate. }
  rewrite (leafR_enum_unwrap udiff F enum_on c n o v b p1 p2 Hx Hn Hc Na Nb).
  rewrite <- (dispatch_rtc _ _ p1 p2 T).
  assert (Ex : forall t, excluded F t = false) by (intros t; unfold excluded; rewrite Hx; reflexivity).
  assert (Ub : is_enum (unwrap F b) = false).
  { destruct b; try reflexivity. cbn [unwrap]. rewrite enum_on. apply atom_of_e_not_enum. }
  assert (L : leafR udiff F (atom_of_e v) (unwrap F b) p1 p2 = leaf_core udiff F (atom_of_e v) (unwrap F b) p1 p2).
  { destruct v; reflexivity. }
  rewrite L. unfold leaf_core.
  assert (S : same_obj (atom_of_e v) (unwrap F b) = false) by (destruct v; reflexivity).
  rewrite S, !Ex, T, Hn. cbn [orb andb]. reflexivity.
Qed.

(* hence the property for the pair IS the property for the two values *)
Theorem y_enum_same_type (H : pystr -> pystr) c n o v b p1 p2 :
  o_excl F = [] -> o_nan F = false -> other_class c b = true ->
  is_none (atom_of_e v) = false -> ty_eqb (atom_ty (atom_of_e v)) (atom_ty (unwrap F b)) = true ->
  ((yh_atom H F (AEnum c n o v) = yh_atom H F b <-> leafR udiff F (AEnum c n o v) b p1 p2 = Ok []) <->
   (yh_atom H F (atom_of_e v) = yh_atom H F (unwrap F b) <-> leafR udiff F (atom_of_e v) (unwrap F b) p1 p2 = Ok [])).
Proof.
  intros Hx Hn Hc Na T. rewrite (leafR_enum_same_type c n o v b p1 p2 Hx Hn Hc Na T).
  unfold yh_atom. rewrite (yh_text_unwrap F enum_on).
  assert (E : yh_text F b = yh_text F (unwrap F b)).
  { destruct b; try reflexivity. cbn [unwrap]. rewrite enum_on. apply (yh_text_unwrap F enum_on). }
  rewrite E. tauto.
Qed.
End EnSame.

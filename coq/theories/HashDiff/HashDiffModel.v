(** C12: the two engines side by side, under the options they share.

    HASH ENGINE.  DeepHash(v, ignore_repetition = not rep, **F)[v] is
    [hash_pure H (hoptsF F priv rep) v] of Hash/HashModel.v: the option record of
    the hash model is filled from the shared options [F]; its normalisers are
    the ones of deephash.py (_prep_number, prepare_string_for_hashing, the
    final re-tagging step).

    DIFF ENGINE.  DeepDiff(t1, t2, ignore_order=True, report_repetition=rep, **F):
    [diff_ioF] below = the dispatcher [_diff] with
      - the type-group check, _diff_str, _diff_numbers, _diff_booleans of
        Options/OptModel.v ([diff_atomF]: the DIFF side's own normalisers),
      - _diff_dict with _get_clean_to_keys_mapping (OptModel: [kmap], [ckeys],
        [orig_key], [repr_ckey], [key_reports], [shortcutF]); a failing key
        cleaning is the entry [err_entry] (it was the ValueError of
        number_to_string(key, significant_digits=None), finding K8; since the
        fix d664dbb in /repo OptModel.kmap never fails and the branch is dead),
      - _diff_set through the item hashes,
      - lists and tuples through _diff_iterable_with_deephash exactly as in
        DiffIO/DiffIOModel.v (hashtable of item hashes, hashes_added / removed,
        pairing ORACLE [pairs], both report_repetition branches), the item
        hashes being DeepHash WITH the options DeepDiff forwards to it
        (DEEPHASH_PARAM_KEYS: ignore_string_case, ignore_string_type_changes,
        ignore_numeric_type_changes, significant_digits, ...; ignore_repetition
        = not report_repetition).
    So inside a list the diff engine trusts the hash engine; at the root, under
    a dict key and for paired items it uses its own comparers: C12 says the two
    never disagree.

    Options: [F : OptModel.opts] with o_eps = None and o_excl = [] ([shared]).
    Definitions only. *)
From Coq Require Import List ZArith NArith Bool Arith String.
Import ListNotations.
From DD Require Import Base.PyStr Base.Value Diff.Tree Diff.DiffModel Hash.HashModel
  DiffIO.DiffIOModel Options.OptModel.

(* the options DeepHash and DeepDiff share (math_epsilon is DeepDiff-only;
   exclude_types is forwarded but is not a normalisation option) *)
Definition shared (F : opts) : bool :=
  match o_eps F with None => true | Some _ => false end &&
  match o_excl F with [] => true | _ :: _ => false end.

(* _get_deephash_params: the option record of the DeepHash calls *)
Definition hoptsF (F : opts) (priv rep : bool) : hopts :=
  mk_hopts (negb rep) true priv (o_case F) (o_strty F) (o_numty F)
           (match o_sig F with Some d => Some (N.to_nat d) | None => None end).

(* the ValueError raised by key cleaning, as a distinguished entry: a
   type_changes level without values never occurs otherwise *)
Local Open Scope string_scope.
Definition err_entry (p1 p2 : path) : entry := mkEntry KType p1 p2 None None (Some (s2p "ValueError")).
Definition is_err (e : entry) : bool :=
  match Tree.ekind e, et1 e, et2 e with KType, None, None => true | _, _, _ => false end.
Local Close Scope string_scope.

Notation ires := DiffIOModel.res.

Definition ent (k : rkind) (p1 p2 : path) (a b : option value) : list entry := [mkEntry k p1 p2 a b None].

Section HD.
Variable H : pystr -> pystr.
Variable udiff : pystr -> pystr -> pystr.
Variable c : cfg.
Variable F : opts.
Variable rep : bool.                          (* report_repetition *)
Variable pairs : path -> list (nat * nat).

Definition oF : hopts := hoptsF F (DiffModel.ignore_private c) rep.
Definition hvF (v : value) : pystr := hash_pure H oF v.
Definition hatomF_io (a : atom) : pystr := hash_atom H oF a.

(* ---- _diff_iterable_with_deephash (as DiffIO/DiffIOModel.v, item hashes = hvF) ---- *)
Section Level.
Variable recs : list rec_fn.      (* [_diff] on each item of t1 *)
Variable xs ys : list value.
Variable p1 p2 : path.

Definition g1 : list pystr := map hvF xs.
Definition g2 : list pystr := map hvF ys.
Definition t1h : list pystr := dedup g1.
Definition t2h : list pystr := dedup g2.
Definition addedF : list pystr := filter (fun h => negb (mem_h h t1h)) t2h.
Definition removedF : list pystr := filter (fun h => negb (mem_h h t2h)) t1h.

Definition partnerF (a : pystr) (remaining : list pystr) : option pystr :=
  match find (fun ji => pystr_eqb (nth (fst ji) g2 []) a) (pairs p1) with
  | Some ji =>
      match nth_error g1 (snd ji) with
      | Some r => if mem_h r remaining then Some r else None
      | None => None
      end
  | None => None
  end.

Definition it1 (i : nat) : option value := nth_error xs i.
Definition it2 (j : nat) : option value := nth_error ys j.

(* report_repetition = False *)
Definition added_oneF (a : pystr) (remaining : list pystr) : ires * list pystr :=
  let j := first_of (indexes_of a g2 0) in
  match partnerF a remaining with
  | Some r =>
      let i := first_of (indexes_of r g1 0) in
      (match it2 j with
       | Some y => nth_rec recs i y (snoc p1 (PIdx i)) (snoc p2 (PIdx j))
       | None => ([], [])
       end, remove_h r remaining)
  | None => ((ent KIterAdd (snoc p1 (PIdx j)) (snoc p2 (PIdx j)) None (it2 j), []), remaining)
  end.
Definition removed_oneF (r : pystr) : ires :=
  let i := first_of (indexes_of r g1 0) in
  (ent KIterRem (snoc p1 (PIdx i)) (snoc p2 (PIdx i)) (it1 i) None, []).

(* report_repetition = True *)
Definition added_one_repF (a : pystr) (remaining : list pystr) : ires * list pystr :=
  let js := indexes_of a g2 0 in
  let j0 := first_of js in
  match partnerF a remaining with
  | Some r =>
      let is_ := indexes_of r g1 0 in
      let i0 := first_of is_ in
      (match it2 j0 with
       | Some y =>
           fold_right (fun i acc =>
             app2 (nth_rec recs i0 y (snoc p1 (PIdx i))
                     (snoc p2 (PIdx (if Nat.eqb (List.length js) 1 then j0 else i)))) acc) ([], []) is_
       | None => ([], [])
       end, remove_h r remaining)
  | None =>
      ((flat_map (fun j => ent KIterAdd (snoc p1 (PIdx j)) (snoc p2 (PIdx j)) None (it2 j0)) js, []), remaining)
  end.
Definition removed_one_repF (r : pystr) : ires :=
  let is_ := indexes_of r g1 0 in
  (flat_map (fun i => ent KIterRem (snoc p1 (PIdx i)) (snoc p2 (PIdx i)) (it1 (first_of is_)) None) is_, []).
Definition repetition_oneF (h : pystr) : ires :=
  let is_ := indexes_of h g1 0 in
  let js := indexes_of h g2 0 in
  if Nat.eqb (List.length is_) (List.length js) then ([], [])
  else
    let i0 := first_of is_ in
    let p := snoc p1 (PIdx i0) in
    ([mkEntry KRepetition p (snoc p2 (PIdx i0)) (it1 i0) (it2 (first_of js)) None], [mkRep p is_ js]).

Definition iter_repF : ires :=
  let '(ra, remaining) := added_loop added_one_repF addedF removedF in
  let rr := concat_res (map removed_one_repF remaining) in
  let ri := concat_res (map repetition_oneF (filter (fun h => mem_h h t1h) t2h)) in
  app2 ra (app2 rr ri).
Definition iter_norepF : ires :=
  let '(ra, remaining) := added_loop added_oneF addedF removedF in
  app2 ra (concat_res (map removed_oneF remaining)).
Definition iter_deephashF : ires := if rep then iter_repF else iter_norepF.

End Level.

(* the part of _diff_dict that recurses: keys present in both (after cleaning) *)
Definition common_stepF (rec : value -> path -> path -> ires)
           (km1 km2 : list (atom * atom)) (k2 : list atom) (kvs2 : list (atom * value))
           (p1 p2 : path) (k : atom) : ires :=
  if keep_key c k then
    match repr_ckey F km1 k with
    | Some ck =>
        match find (py_eq ck) k2 with      (* the (clean) key object of t2 is the child parameter *)
        | Some ck' =>
            match assoc (orig_key F km2 ck') kvs2 with
            | Some v2 => rec v2 (snoc p1 (PKey ck')) (snoc p2 (PKey ck'))
            | None => ([], [])
            end
        | None => ([], [])
        end
    | None => ([], [])
    end
  else ([], []).

(* ---- _diff with ignore_order=True and the options F ---- *)
Fixpoint diff_ioF (t1 t2 : value) (p1 p2 : path) {struct t1} : ires :=
  if negb (ty_eqb (type_of t1) (type_of t2)) && negb (same_group F (type_of t1) (type_of t2))
  then (ent KType p1 p2 (Some t1) (Some t2), [])
  else
  match t1, t2 with
  | VAtom a, VAtom b => (diff_atomF udiff F a b p1 p2, [])
  | VDict kvs1, VDict kvs2 =>
      let r1 := keys_of c kvs1 in
      let r2 := keys_of c kvs2 in
      match kmap F r1, kmap F r2 with
      | Ok km1, Ok km2 =>
          let k1 := ckeys F r1 km1 in
          let k2 := ckeys F r2 km2 in
          if shortcutF c k1 k2 then (ent KValue p1 p2 (Some t1) (Some t2), [])
          else
            let added := key_reports F KDictAdd k2 k1 km2 kvs2 p1 p2 in
            let removed := key_reports F KDictRem k1 k2 km1 kvs1 p1 p2 in
            let common :=
              (fix go (l : list (atom * value)) : ires :=
                 match l with
                 | [] => ([], [])
                 | (k, v1) :: r =>
                     app2 (common_stepF (diff_ioF v1) km1 km2 k2 kvs2 p1 p2 k) (go r)
                 end) kvs1 in
            ((added ++ removed ++ fst common)%list, snd common)
      | _, _ => ([err_entry p1 p2], [])
      end
  | VList xs, VList ys | VTuple xs, VTuple ys =>
      iter_deephashF
        ((fix go (l : list value) : list rec_fn :=
            match l with
            | [] => []
            | x :: r => diff_ioF x :: go r
            end) xs) xs ys p1 p2
  | VSet xs, VSet ys | VFrozen xs, VFrozen ys => (diff_set hatomF_io (fun _ => false) xs ys p1 p2, [])
  | _, _ => ([], [])    (* unreachable: containers are in no type group *)
  end.

(* DeepDiff(t1, t2, ignore_order=True, report_repetition=rep, view='tree', **F) *)
Definition run_diff_ioF (t1 t2 : value) : ires :=
  let '(es, rs) := diff_ioF t1 t2 [] [] in
  (if rep then es else mutual es, rs).

(* the observable of C12 on the diff side *)
Inductive dverdict := DEmpty | DNonEmpty | DRaised.
Definition verdictF (t1 t2 : value) : dverdict :=
  let es := fst (run_diff_ioF t1 t2) in
  if existsb is_err es then DRaised else match es with [] => DEmpty | _ :: _ => DNonEmpty end.

(* ... and on the hash side *)
Definition hash_eqF (t1 t2 : value) : bool := pystr_eqb (hvF t1) (hvF t2).

End HD.

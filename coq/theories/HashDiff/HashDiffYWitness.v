(** Witnesses over the extended universe: each finding of C12 that lives there, as a closed
    computation on the two models (every one is replayed on the implementation at every run:
    harness/props/c12.py WITNESSES / the fixed pairs of the extended-universe stream). *)
From Coq Require Import List ZArith NArith Bool Arith String.
Import ListNotations.
From DD Require Import Base.PyStr Hash.HashModel Hash.HexHash Options.OptDtModel Options.YValue Options.YModel
  HashDiff.HashDiffYModel HashDiff.HashDiffYProofs.
Local Open Scope string_scope.
Local Open Scope Z_scope.

Definition yx (s : pystr) : pystr := 104%N :: hexhash s.          (* injective, never the empty token *)
Definition ycfg : cfg := mkCfg false 33 100 true.
Definition no_ud : pystr -> pystr -> pystr := fun _ _ => [].
(*                      case  strty numty sig  eps  excl trunc tz nan  enum note *)
Definition Y0 : opts := mkOpts false false false None None [] None 0 false false false.
Definition Yenum : opts := mkOpts false false false None None [] None 0 false true false.
Definition Yenum_case : opts := mkOpts true false false None None [] None 0 false true false.
Definition Ynumty : opts := mkOpts false false true None None [] None 0 false false false.
Definition Ysig0 : opts := mkOpts false false false (Some 0%N) None [] None 0 false false false.
Definition Ycase_sig3 : opts := mkOpts true false false (Some 3%N) None [] None 0 false false false.
Definition Ytrunc (u : tunit) : opts := mkOpts false false false None None [] (Some u) 0 false false false.
Definition Ytz (m : Z) : opts := mkOpts false false false None None [] None m false false false.

Definition E_A : atom := AEnum (s2p "E") (s2p "A") 0 (EInt 1).
Definition E_B : atom := AEnum (s2p "E") (s2p "B") 1 (EStr (s2p "x")).
Definition E_D : atom := AEnum (s2p "E") (s2p "D") 3 (EStr (s2p "X")).
Definition E4_N : atom := AEnum (s2p "E4") (s2p "N") 0 ENone.
Definition va (a : atom) : value := VAtom a.
Definition d1 (k : atom) (v : value) : value := VDict [(k, v)].
Definition ks : atom := AStr (s2p "k").

(* microseconds of 2024-01-01 10:20:01 / :02 since the epoch, wall clock *)
Definition t_10_20_01 : Z := 1704104401000000.
Definition t_10_20_02 : Z := 1704104402000000.
Definition t_10_20_30 : Z := 1704104430000000.
Definition t_08_20_30 : Z := 1704097230000000.

Definition obs (F : opts) (rep : bool) (t1 t2 : value) : option bool * yverdict :=
  (yhash_eq yx ycfg F rep t1 t2, ydiff_verdict no_ud ycfg F t1 t2).

(* C12-decimal-exponent: Decimal('1.0') / Decimal('1.00') *)
Theorem y_decimal_exponent_refuted :
  obs Y0 false (va (ADec 10 (-1))) (va (ADec 100 (-2))) = (Some false, YEmpty).
Proof. vm_compute. reflexivity. Qed.

(* C12-number-vs-datetime-TypeError *)
Theorem y_number_vs_datetime_refuted :
  obs Ynumty false (va (AInt (-2))) (va (ADt t_10_20_30 None)) = (Some false, YRaised EType).
Proof. vm_compute. reflexivity. Qed.

(* C12-truncate-not-forwarded: set members that differ below the unit - the stand-alone hashes
   truncate, the item hashes inside DeepDiff do not; at a directly compared position the SAME two
   datetimes agree (y_datetime_hash_iff_diff) *)
Theorem y_truncate_not_forwarded_refuted :
  obs (Ytrunc UMinute) false (VSet [ADt t_10_20_01 None]) (VSet [ADt t_10_20_02 None]) = (Some true, YNonEmpty) /\
  obs (Ytrunc UMinute) false (d1 ks (va (ADt t_10_20_01 None))) (d1 ks (va (ADt t_10_20_02 None))) = (Some true, YEmpty).
Proof. vm_compute. split; reflexivity. Qed.

(* C12-datetime-dict-keys: a naive key and the same instant as an aware key, default_timezone +02:00;
   the same pair as VALUES agrees *)
Theorem y_datetime_dict_keys_refuted :
  obs (Ytz 120) false (d1 (ADt t_10_20_30 None) (va (AInt 1))) (d1 (ADt t_08_20_30 (Some 0)) (va (AInt 1))) = (Some true, YNonEmpty) /\
  obs (Ytz 120) false (d1 ks (va (ADt t_10_20_30 None))) (d1 ks (va (ADt t_08_20_30 (Some 0)))) = (Some true, YEmpty).
Proof. vm_compute. split; reflexivity. Qed.

(* C12-enum-dict-keys *)
Theorem y_enum_dict_keys_refuted :
  obs Yenum false (d1 E_A (va (AInt 1))) (d1 (AInt 1) (va (AInt 1))) = (Some true, YNonEmpty).
Proof. vm_compute. reflexivity. Qed.

(* the ways use_enum_value breaks the property at a directly compared position
   (what y_enum_transfer leaves open): *)
(* C12-enum-none-value - a None-valued member facing None - is FIXED in /repo c9e614d: the former witness,
   now on the side of the property (y_enum_none_agrees is the general statement); a None-valued member
   facing a VALUE is still a difference for both engines *)
Theorem y_enum_none_value_fixed :
  obs Yenum false (va E4_N) (va ANone) = (Some true, YEmpty) /\
  obs Yenum false (d1 ks (va E4_N)) (d1 ks (va ANone)) = (Some true, YEmpty) /\
  obs Yenum false (d1 ks (va ANone)) (d1 ks (va E4_N)) = (Some true, YEmpty) /\
  obs Yenum false (d1 ks (va E4_N)) (d1 ks (va E4_N)) = (Some true, YEmpty) /\
  obs Yenum false (d1 ks (va E4_N)) (d1 ks (va (AStr (s2p "x")))) = (Some false, YNonEmpty).
Proof. vm_compute. repeat split; reflexivity. Qed.
(* C12-enum-same-class-members: two members of ONE class are never unwrapped by _diff *)
Theorem y_enum_same_class_refuted :
  obs Yenum_case false (va E_B) (va E_D) = (Some true, YNonEmpty) /\
  other_class (s2p "E") E_D = false.
Proof. vm_compute. split; reflexivity. Qed.
(* C12-enum-unwrap-skips-type-check: the comparer of the first value's type meets a value of another type *)
Theorem y_enum_unwrap_skips_type_check_refuted :
  obs Yenum false (va E_A) (va (AFloat 1 0)) = (Some false, YEmpty) /\
  other_class (s2p "E") (AFloat 1 0) = true.
Proof. vm_compute. split; reflexivity. Qed.

(* C12-timedelta-hash-TypeError *)
Theorem y_timedelta_hash_refuted :
  obs Ysig0 false (va (ATd 5000000)) (va (ATd 5000000)) = (None, YEmpty).
Proof. vm_compute. reflexivity. Qed.
(* C12-truncate-date-timedelta-raises is FIXED in /repo 1c8f0f8 (datetime_normalize truncates only datetime / time
   objects): the former witness, now on the side of the property - equal dates / timedeltas under
   truncate_datetime: equal hashes, nothing reported, nothing raised; different ones differ for both engines;
   a time facing a number under the numeric type group no longer raises *)
Definition Ytrunc_numty (u : tunit) : opts := mkOpts false false true None None [] (Some u) 0 false false false.
Theorem y_truncate_date_timedelta_fixed :
  obs (Ytrunc UHour) false (d1 ks (va (ADate 2024 1 1))) (d1 ks (va (ADate 2024 1 1))) = (Some true, YEmpty) /\
  obs (Ytrunc UHour) false (d1 ks (va (ATd 5000000))) (d1 ks (va (ATd 5000000))) = (Some true, YEmpty) /\
  obs (Ytrunc UDay) false (d1 ks (va (ADate 2024 1 1))) (d1 ks (va (ADate 2024 1 2))) = (Some false, YNonEmpty) /\
  obs (Ytrunc UMinute) true (d1 ks (va (ATd 5000000))) (d1 ks (va (ATd 6000000))) = (Some false, YNonEmpty) /\
  obs (Ytrunc_numty UMinute) false (va (ATime 37230000000)) (va (AInt 9)) = (Some false, YNonEmpty).
Proof. vm_compute. repeat split; reflexivity. Qed.
(* C12-date-key-cleaning-TypeError *)
Theorem y_date_key_cleaning_refuted :
  obs Ycase_sig3 false (d1 (ADate 2024 1 1) (va (AInt 1))) (d1 (ADate 2024 1 1) (va (AInt 1))) = (Some true, YRaised EType).
Proof. vm_compute. reflexivity. Qed.

(* the hypotheses of y_datetime_hash_iff_diff / y_enum_transfer are satisfiable, and the engines
   do agree there on non-trivial pairs: one instant in two zones under truncation to the day
   (both: different - truncation happens in each datetime's own zone), and E.A facing the plain 1 *)
Theorem y_agree_examples :
  obs (Ytrunc UMinute) false (va (ADt t_10_20_01 None)) (va (ADt t_10_20_02 None)) = (Some true, YEmpty) /\
  obs (Ytz 120) false (va (ADt t_10_20_30 None)) (va (ADt t_08_20_30 (Some 0))) = (Some true, YEmpty) /\
  obs Y0 false (va (ADt t_10_20_30 None)) (va (ADt t_08_20_30 (Some 0))) = (Some false, YNonEmpty) /\
  obs Yenum false (d1 ks (va E_A)) (d1 ks (va (AInt 1))) = (Some true, YEmpty) /\
  obs Yenum_case false (va E_B) (va (AStr (s2p "X"))) = (Some true, YEmpty) /\
  other_class (s2p "E") (AInt 1) = true /\ is_none (atom_of_e (EInt 1)) = false.
Proof. vm_compute. repeat split; reflexivity. Qed.

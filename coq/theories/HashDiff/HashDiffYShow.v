(** sx renderings of the C12 model over the extended universe (HashDiffYModel.v) for the
    correspondence check; no theorem depends on this file. *)
From Coq Require Import List ZArith NArith Bool Arith String.
Import ListNotations.
From DD Require Import Base.Sx Base.PyStr HashDiff.HashDiffShow.
From DD Require Import Options.OptDtModel Options.YValue Options.YModel HashDiff.HashDiffYModel.
Local Open Scope string_scope.

Definition sx_errk (e : errk) : sx :=
  SA (match e with EType => "EXC:TypeError" | EValue => "EXC:ValueError" | EAttr => "EXC:AttributeError" end).

(* both engines on one pair of list-free values:
   [DeepHash(a, **F)[a] == DeepHash(b, **F)[b] (or "raised") ; DeepDiff(a, b, ignore_order=True, **F) empty / nonempty / the exception] *)
Definition run_c12y (c : cfg) (F : opts) (rep : bool) (t1 t2 : value) : sx :=
  SL [match yhash_eq xhash c F rep t1 t2 with Some b => sx_bool b | None => SA "raised" end;
      match ydiff_verdict (fun _ _ => []) c F t1 t2 with
      | YEmpty => SA "empty" | YNonEmpty => SA "nonempty" | YRaised e => sx_errk e
      end].

(* equality pattern of the stand-alone hashes over a pool (any values, lists included) *)
Definition run_c12y_classes (F : opts) (rep : bool) (vs : list value) : sx :=
  let hs := map (yhash xhash F true rep) vs in
  SL (map (fun h => sx_nat (first_idx h hs 0)) hs).

(* the text handed to the hasher for a leaf *)
Definition run_c12y_text (F : opts) (a : atom) : sx := sx_str (yh_text F a).

(* booleans as one character each (probes of the harness) *)
Definition run_c12y_flags (l : list bool) : string := run_c12_guards l.
(* does the diff-side model (Options/YModel.v) follow the /repo fix c9e614d - a None-valued Enum member
   facing None under use_enum_value is not reported? *)
Definition probe_none_member_fixed : bool :=
  match ydiff_verdict (fun _ _ => []) (mkCfg false 33 100 true)
          (mkOpts false false false None None [] None 0%Z false true false)
          (VAtom (AEnum (s2p "E4") (s2p "N") 0 ENone)) (VAtom ANone) with
  | YEmpty => true | _ => false end.

(* does the diff-side model follow the /repo fix 1c8f0f8 - truncate_datetime leaves a date alone (no TypeError)? *)
Definition probe_trunc_date_fixed : bool :=
  match ydiff_verdict (fun _ _ => []) (mkCfg false 33 100 true)
          (mkOpts false false false None None [] (Some UHour) 0%Z false false false)
          (VAtom (ADate 2024 1 1)) (VAtom (ADate 2024 1 1)) with
  | YEmpty => true | _ => false end.

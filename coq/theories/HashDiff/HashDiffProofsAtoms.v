(** Atom level of C12.

    [akey F a] is the INDEPENDENT specification: what is left of an atom once the
    aspects the shared options F ignore are forgotten (case folded text, text type
    forgotten, numeric type forgotten, value rounded half-even to the digits in force).
    Two atoms are equivalent under F when their keys are equal ([eqvA]).

    Each engine has its own normalisers (HashModel.ser_atom mirrors deephash.py,
    OptModel.diff_atomF / clean_key mirror diff.py); here each of them is shown to
    decide exactly [eqvA F], inside stated guards; the guards are the places where the
    two engines disagree (K1 tag collisions, K9 bool / number, bytes keys, ...). *)
From Coq Require Import List ZArith NArith Bool Arith Lia String.
Import ListNotations.
From DD Require Import Base.PyStr Base.Value Diff.Tree Diff.DiffModel Hash.HashModel Hash.HashProofsBase
  Options.OptModel Options.OptProofsBase Options.OptProofsAtoms HashDiff.HashDiffModel HashDiff.HashDiffProofsNum.

Local Open Scope string_scope.
Local Open Scope list_scope.

(* ------------------------------------------------------------------ *)
(** * the specification *)

Inductive akeyT :=
| KNone
| KBool (b : bool)
| KNum (ty : option ty) (v : Z)          (* None: numeric type forgotten *)
| KStr (isbytes : option bool) (s : pystr).   (* None: text type forgotten *)

Definition akey (F : opts) (a : atom) : akeyT :=
  match a with
  | ANone => KNone
  | ABool b => KBool b
  | AInt z => match eff_sig F with
              | Some d => KNum (if o_numty F then None else Some TInt) (rhe (z, 0%N) d)
              | None => KNum (Some TInt) (2 * z)
              end
  | AHalf t => match eff_sig F with
               | Some d => KNum (if o_numty F then None else Some TFloat) (rhe (t, 1%N) d)
               | None => KNum (Some TFloat) t
               end
  | AStr s => KStr (if o_strty F then None else Some false) (lowif F s)
  | ABytes s => KStr (if o_strty F then None else Some true) (lowif F s)
  end.

Definition eqvA (F : opts) (a b : atom) : Prop := akey F a = akey F b.

(* ------------------------------------------------------------------ *)
(** * text facts *)

Definition lowc (s : pystr) : Prop := Forall (fun c => (c < 65)%N) s.

Lemma lowc_lower s : lowc s -> lower s = s.
Proof.
  induction 1 as [|c s Hc _ IH]; [reflexivity|]. cbn [lower map]. fold (lower s). rewrite IH. f_equal.
  unfold lower_char. destruct (N.leb_spec 65 c); [lia|reflexivity].
Qed.
Lemma lowc_lowif F s : lowc s -> lowif F s = s.
Proof. intros. unfold lowif. destruct (o_case F); [apply lowc_lower; assumption|reflexivity]. Qed.
Lemma lowc_app s t : lowc s -> lowc t -> lowc (s ++ t).
Proof. apply Forall_app_intro || (intros; apply Forall_app; split; assumption). Qed.
Lemma lowc_digits s : Forall is_digit s -> lowc s.
Proof. apply Forall_impl. unfold is_digit. intros; lia. Qed.
Lemma lowc_zeros n : lowc (HashModel.zeros n).
Proof. unfold lowc, HashModel.zeros. induction n; cbn; constructor; [lia|assumption]. Qed.
Lemma lowc_dec_N n : lowc (dec_N n).
Proof. apply lowc_digits, dec_N_digits. Qed.
Lemma lowc_sign (b : bool) : lowc (if b then [45%N] else []).
Proof. destruct b; repeat constructor. Qed.
Lemma lowc_dec_Z z : lowc (dec_Z z).
Proof. rewrite dec_Z_sign. apply lowc_app; [apply lowc_sign|apply lowc_dec_N]. Qed.
Lemma lowc_half_repr t : lowc (HashModel.half_repr t).
Proof.
  unfold HashModel.half_repr. repeat apply lowc_app; try apply lowc_sign; try apply lowc_dec_N.
  destruct (Z.odd t); repeat constructor.
Qed.
Lemma lowc_fmt_int n z : lowc (fmt_int n z).
Proof. destruct n; [apply lowc_dec_Z|]. cbn [fmt_int]. repeat apply lowc_app; try apply lowc_dec_Z; try apply lowc_zeros. repeat constructor. Qed.
Lemma lowc_fmt_half n t : lowc (fmt_half n t).
Proof. destruct n; [apply lowc_dec_Z|]. rewrite fmt_half_S. apply lowc_app; [apply lowc_half_repr|apply lowc_zeros]. Qed.

Lemma lower_has_colon s : has_char 58%N (lower s) = has_char 58%N s.
Proof.
  unfold has_char, lower. induction s as [|c s IH]; [reflexivity|]. cbn [map existsb]. rewrite IH. f_equal.
  unfold lower_char. destruct (N.leb_spec 65 c); cbn [andb]; [|reflexivity].
  destruct (N.leb_spec c 90); [|reflexivity].
  destruct (N.eqb_spec 58 (c + 32)), (N.eqb_spec 58 c); try reflexivity; lia.
Qed.
Lemma lowif_has_colon F s : has_char 58%N (lowif F s) = has_char 58%N s.
Proof. unfold lowif. destruct (o_case F); [apply lower_has_colon|reflexivity]. Qed.

(* ------------------------------------------------------------------ *)
(** * the hash engine decides eqvA (inside the K1 guard) *)

(* K1 guard under the options: a str (bytes, when the text type is ignored) must not
   spell a serialisation: no ':' and not NONE up to the case folding in force *)
Definition tag_okS (F : opts) (s : pystr) : bool :=
  negb (has_char 58%N s) && negb (pystr_eqb (lowif F s) (lowif F (s2p "NONE"))).
Definition tag_okF (F : opts) (a : atom) : bool :=
  match a with
  | AStr s => tag_okS F s
  | ABytes s => if o_strty F then tag_okS F s else true
  | _ => true
  end.

Section HashSide.
Variable F : opts.
Variables priv rep : bool.
Notation o := (hoptsF F priv rep).

Definition spre : pystr := if o_strty F then [] else s2p "str:".
Definition bpre : pystr := if o_strty F then [] else s2p "bytes:".
Definition ntagH (name : pystr) : pystr := if o_numty F then s2p "number" else name.
Definition ntxt (a : atom) : pystr :=
  match eff_sig F with
  | Some d => ftxt (N.to_nat d) a
  | None => match a with AInt z => dec_Z z | AHalf t => HashModel.half_repr t | _ => [] end
  end.
Definition hbody (a : atom) : pystr :=
  match a with
  | ANone => s2p "NONE"
  | ABool b => if b then s2p "bool:true" else s2p "bool:false"
  | AInt _ => ntagH (s2p "int") ++ [58%N] ++ ntxt a
  | AHalf _ => ntagH (s2p "float") ++ [58%N] ++ ntxt a
  | AStr s | ABytes s => s
  end.
Definition hpre (a : atom) : pystr := match a with ABytes _ => bpre | _ => spre end.

Lemma eff_digits_F : eff_digits o = match eff_sig F with Some d => Some (N.to_nat d) | None => None end.
Proof.
  unfold eff_digits, eff_sig, hoptsF. cbn [significant_digits ignore_numeric_type_changes].
  destruct (o_sig F); [reflexivity|]. destruct (o_numty F); reflexivity.
Qed.

Lemma prep_form tyname s :
  HashModel.prep_string o tyname s = lowif F ((if o_strty F then [] else tyname ++ [58%N]) ++ s).
Proof.
  unfold HashModel.prep_string, lowif, hoptsF. cbn [ignore_string_type_changes ignore_string_case].
  destruct (o_strty F); [reflexivity|]. rewrite <- app_assoc. reflexivity.
Qed.

Lemma ser_form a : ser_atom o a = lowif F (hpre a ++ hbody a).
Proof.
  destruct a as [|b|z|t|s|s]; unfold ser_atom, retag; rewrite prep_form; unfold hpre, spre, bpre;
    cbn [atom_result hbody].
  - reflexivity.
  - destruct b; reflexivity.
  - rewrite eff_digits_F. unfold ntxt, ntagH, num_type. cbn [hoptsF ignore_numeric_type_changes].
    destruct (eff_sig F); reflexivity.
  - rewrite eff_digits_F. unfold ntxt, ntagH, num_type. cbn [hoptsF ignore_numeric_type_changes].
    destruct (eff_sig F); reflexivity.
  - reflexivity.
  - reflexivity.
Qed.

Lemma lowc_ntxt a : lowc (ntxt a).
Proof.
  unfold ntxt. destruct (eff_sig F).
  - destruct a; cbn [ftxt]; try constructor; [apply lowc_fmt_int|apply lowc_fmt_half].
  - destruct a; try constructor; [apply lowc_dec_Z|apply lowc_half_repr].
Qed.

End HashSide.

Lemma KNum_inj t1 v1 t2 v2 : KNum t1 v1 = KNum t2 v2 <-> t1 = t2 /\ v1 = v2.
Proof. split; [intros E; inversion E; auto|intros [-> ->]; reflexivity]. Qed.

Section HashSide2.
Variable F : opts.

Definition nname (a : atom) : pystr := match a with AInt _ => s2p "int" | _ => s2p "float" end.

(* numbers: tag + text decide the key *)
Lemma num_body_key a b : is_num a = true -> is_num b = true ->
  (ntagH F (nname a) ++ [58%N] ++ ntxt F a = ntagH F (nname b) ++ [58%N] ++ ntxt F b <-> akey F a = akey F b).
Proof.
  intros Ha Hb. unfold ntagH, ntxt, akey.
  destruct (eff_sig F) as [d|] eqn:Es.
  - pose proof (ftxt_sem d a b Ha Hb) as S.
    destruct (o_numty F) eqn:En.
    + destruct a as [| |z|t| |], b as [| |z'|t'| |]; try discriminate; cbn [nname dyv] in *;
        rewrite KNum_inj; (split; [intros E; do 2 apply app_inv_head in E; split; [reflexivity|apply S; exact E]
                                  |intros [_ E]; apply S in E; rewrite E; reflexivity]).
    + destruct a as [| |z|t| |], b as [| |z'|t'| |]; try discriminate; cbn [nname dyv] in *; rewrite KNum_inj.
      * split; [intros E; do 2 apply app_inv_head in E; split; [reflexivity|apply S; exact E]|intros [_ E]; apply S in E; rewrite E; reflexivity].
      * split; [intros E; discriminate|intros [E _]; discriminate].
      * split; [intros E; discriminate|intros [E _]; discriminate].
      * split; [intros E; do 2 apply app_inv_head in E; split; [reflexivity|apply S; exact E]|intros [_ E]; apply S in E; rewrite E; reflexivity].
  - assert (o_numty F = false) as En.
    { unfold eff_sig in Es. destruct (o_sig F); [discriminate|]. destruct (o_numty F); [discriminate|reflexivity]. }
    rewrite En.
    destruct a as [| |z|t| |], b as [| |z'|t'| |]; try discriminate; cbn [nname]; rewrite KNum_inj.
    + split; [intros E; do 2 apply app_inv_head in E; apply dec_Z_inj in E; subst; auto|intros [_ E]; assert (z = z') as -> by lia; reflexivity].
    + split; [intros E; discriminate|intros [E _]; discriminate].
    + split; [intros E; discriminate|intros [E _]; discriminate].
    + split; [intros E; do 2 apply app_inv_head in E; apply half_repr_inj in E; subst; auto|intros [_ ->]; reflexivity].
Qed.

Lemma lowif_num_body a : is_num a = true ->
  lowif F (hbody F a) = ntagH F (nname a) ++ [58%N] ++ ntxt F a.
Proof.
  intros Ha. destruct a; try discriminate; cbn [hbody nname]; rewrite !lowif_app, (lowc_lowif F (ntxt F _)) by apply lowc_ntxt;
    unfold ntagH, lowif; destruct (o_numty F), (o_case F); reflexivity.
Qed.

Lemma num_body_colon a : is_num a = true -> has_char 58%N (ntagH F (nname a) ++ [58%N] ++ ntxt F a) = true.
Proof. intros Ha. destruct a; try discriminate; unfold ntagH; destruct (o_numty F); reflexivity. Qed.

End HashSide2.

Section HashSide3.
Variable F : opts.
Variables priv rep : bool.
Notation o := (hoptsF F priv rep).

Definition not_bytes (a : atom) : bool := match a with ABytes _ => false | _ => true end.

Lemma lowif_none_cases : lowif F (s2p "NONE") = s2p "NONE" \/ lowif F (s2p "NONE") = s2p "none".
Proof. unfold lowif. destruct (o_case F); [right|left]; reflexivity. Qed.

Lemma lowif_bool (b : bool) :
  lowif F (if b then s2p "bool:true" else s2p "bool:false") = (if b then s2p "bool:true" else s2p "bool:false").
Proof. unfold lowif. destruct (o_case F), b; reflexivity. Qed.

Lemma pystr_eqb_false_neq s t : pystr_eqb s t = false -> s <> t.
Proof. intros E ->. rewrite OptProofsBase.pystr_eqb_refl in E. discriminate. Qed.

Lemma num_body_shape a : is_num a = true ->
  exists c1 c2 r, ntagH F (nname a) ++ [58%N] ++ ntxt F a = c1 :: c2 :: r /\
                  (c1 = 105%N \/ (c1 = 102%N /\ c2 = 108%N) \/ (c1 = 110%N /\ c2 = 117%N)).
Proof.
  intros Ha. destruct a; try discriminate; unfold ntagH; destruct (o_numty F); cbn [nname s2p app];
    eexists _, _, _; (split; [reflexivity|]); cbn; auto.
Qed.

(* the bodies of two non-bytes atoms *)
Lemma body_key a b : not_bytes a = true -> not_bytes b = true -> tag_okF F a = true -> tag_okF F b = true ->
  (lowif F (hbody F a) = lowif F (hbody F b) <-> akey F a = akey F b).
Proof.
  intros Na Nb Ta Tb.
  (* a str against a structured body *)
  assert (Hstr : forall s x, tag_okS F s = true -> has_char 58%N x = true \/ x = lowif F (s2p "NONE") -> lowif F s <> x).
  { intros s x Hs [Hx|Hx] E; unfold tag_okS in Hs; apply andb_true_iff in Hs as [H1 H2].
    - rewrite <- E, lowif_has_colon in Hx. rewrite Hx in H1. discriminate.
    - subst x. rewrite E, OptProofsBase.pystr_eqb_refl in H2. discriminate. }
  assert (Hnum : forall c, is_num c = true -> has_char 58%N (lowif F (hbody F c)) = true).
  { intros c Hc. rewrite lowif_num_body by exact Hc. apply num_body_colon, Hc. }
  assert (Hkn : forall c, is_num c = true -> exists t v, akey F c = KNum t v).
  { intros c Hc. destruct c; try discriminate; cbn [akey]; destruct (eff_sig F); eexists _, _; reflexivity. }
  destruct a as [|x|z|t|s|s], b as [|y|z'|t'|s'|s']; try discriminate; cbn [tag_okF] in Ta, Tb.
  (* None *)
  - split; reflexivity.
  - cbn [hbody akey]. rewrite lowif_bool. split; [|discriminate].
    destruct lowif_none_cases as [-> | ->]; destruct y; discriminate.
  - split.
    + intros E. rewrite (lowif_num_body F (AInt z')) in E by reflexivity.
      destruct (num_body_shape (AInt z') eq_refl) as (c1 & c2 & r & Esh & Hc). rewrite Esh in E. cbn [hbody] in E.
      destruct lowif_none_cases as [E0 | E0]; rewrite E0 in E; inversion E; destruct Hc as [?|[[? ?]|[? ?]]]; congruence.
    + intros E. destruct (Hkn (AInt z') eq_refl) as (? & ? & E'). rewrite E' in E. discriminate.
  - split.
    + intros E. rewrite (lowif_num_body F (AHalf t')) in E by reflexivity.
      destruct (num_body_shape (AHalf t') eq_refl) as (c1 & c2 & r & Esh & Hc). rewrite Esh in E. cbn [hbody] in E.
      destruct lowif_none_cases as [E0 | E0]; rewrite E0 in E; inversion E; destruct Hc as [?|[[? ?]|[? ?]]]; congruence.
    + intros E. destruct (Hkn (AHalf t') eq_refl) as (? & ? & E'). rewrite E' in E. discriminate.
  - cbn [hbody akey]. split; [|discriminate]. intros E. symmetry in E. exfalso. revert E. apply Hstr; auto.
  (* Bool *)
  - cbn [hbody akey]. rewrite lowif_bool. split; [|discriminate].
    destruct lowif_none_cases as [-> | ->]; destruct x; discriminate.
  - cbn [hbody akey]. rewrite !lowif_bool. destruct x, y; split; intros E; try reflexivity; discriminate.
  - split.
    + intros E. rewrite (lowif_num_body F (AInt z')) in E by reflexivity.
      destruct (num_body_shape (AInt z') eq_refl) as (c1 & c2 & r & Esh & Hc). rewrite Esh in E. cbn [hbody] in E.
      rewrite lowif_bool in E. destruct x; inversion E; destruct Hc as [?|[[? ?]|[? ?]]]; congruence.
    + intros E. destruct (Hkn (AInt z') eq_refl) as (? & ? & E'). rewrite E' in E. discriminate.
  - split.
    + intros E. rewrite (lowif_num_body F (AHalf t')) in E by reflexivity.
      destruct (num_body_shape (AHalf t') eq_refl) as (c1 & c2 & r & Esh & Hc). rewrite Esh in E. cbn [hbody] in E.
      rewrite lowif_bool in E. destruct x; inversion E; destruct Hc as [?|[[? ?]|[? ?]]]; congruence.
    + intros E. destruct (Hkn (AHalf t') eq_refl) as (? & ? & E'). rewrite E' in E. discriminate.
  - cbn [hbody akey]. split; [|discriminate]. intros E. symmetry in E. exfalso. revert E. apply Hstr; auto.
    left. rewrite lowif_bool. destruct x; reflexivity.
  (* Int *)
  - split.
    + intros E. rewrite (lowif_num_body F (AInt z)) in E by reflexivity.
      destruct (num_body_shape (AInt z) eq_refl) as (c1 & c2 & r & Esh & Hc). rewrite Esh in E. cbn [hbody] in E.
      destruct lowif_none_cases as [E0 | E0]; rewrite E0 in E; inversion E; destruct Hc as [?|[[? ?]|[? ?]]]; congruence.
    + intros E. destruct (Hkn (AInt z) eq_refl) as (? & ? & E'). rewrite E' in E. discriminate.
  - split.
    + intros E. rewrite (lowif_num_body F (AInt z)) in E by reflexivity.
      destruct (num_body_shape (AInt z) eq_refl) as (c1 & c2 & r & Esh & Hc). rewrite Esh in E. cbn [hbody] in E.
      rewrite lowif_bool in E. destruct y; inversion E; destruct Hc as [?|[[? ?]|[? ?]]]; congruence.
    + intros E. destruct (Hkn (AInt z) eq_refl) as (? & ? & E'). rewrite E' in E. discriminate.
  - rewrite !lowif_num_body by reflexivity. apply num_body_key; reflexivity.
  - rewrite !lowif_num_body by reflexivity. apply num_body_key; reflexivity.
  - split.
    + intros E. symmetry in E. exfalso. revert E. apply Hstr; auto.
    + intros E. destruct (Hkn (AInt z) eq_refl) as (? & ? & E'). rewrite E' in E. discriminate.
  (* Half *)
  - split.
    + intros E. rewrite (lowif_num_body F (AHalf t)) in E by reflexivity.
      destruct (num_body_shape (AHalf t) eq_refl) as (c1 & c2 & r & Esh & Hc). rewrite Esh in E. cbn [hbody] in E.
      destruct lowif_none_cases as [E0 | E0]; rewrite E0 in E; inversion E; destruct Hc as [?|[[? ?]|[? ?]]]; congruence.
    + intros E. destruct (Hkn (AHalf t) eq_refl) as (? & ? & E'). rewrite E' in E. discriminate.
  - split.
    + intros E. rewrite (lowif_num_body F (AHalf t)) in E by reflexivity.
      destruct (num_body_shape (AHalf t) eq_refl) as (c1 & c2 & r & Esh & Hc). rewrite Esh in E. cbn [hbody] in E.
      rewrite lowif_bool in E. destruct y; inversion E; destruct Hc as [?|[[? ?]|[? ?]]]; congruence.
    + intros E. destruct (Hkn (AHalf t) eq_refl) as (? & ? & E'). rewrite E' in E. discriminate.
  - rewrite !lowif_num_body by reflexivity. apply num_body_key; reflexivity.
  - rewrite !lowif_num_body by reflexivity. apply num_body_key; reflexivity.
  - split.
    + intros E. symmetry in E. exfalso. revert E. apply Hstr; auto.
    + intros E. destruct (Hkn (AHalf t) eq_refl) as (? & ? & E'). rewrite E' in E. discriminate.
  (* Str *)
  - cbn [hbody akey]. split; [|discriminate]. intros E. exfalso. revert E. apply Hstr; auto.
  - cbn [hbody akey]. split; [|discriminate]. intros E. exfalso. revert E. apply Hstr; auto.
    left. rewrite lowif_bool. destruct y; reflexivity.
  - split.
    + intros E. exfalso. revert E. apply Hstr; auto.
    + intros E. destruct (Hkn (AInt z') eq_refl) as (? & ? & E'). rewrite E' in E. discriminate.
  - split.
    + intros E. exfalso. revert E. apply Hstr; auto.
    + intros E. destruct (Hkn (AHalf t') eq_refl) as (? & ? & E'). rewrite E' in E. discriminate.
  - cbn [hbody akey]. split; [intros ->; reflexivity|intros E; inversion E; reflexivity].
Qed.

End HashSide3.

Section HashSide4.
Variable F : opts.
Variables priv rep : bool.
Notation o := (hoptsF F priv rep).

Lemma lowif_pre_inj pre x y : lowif F (pre ++ x) = lowif F (pre ++ y) <-> lowif F x = lowif F y.
Proof. rewrite !lowif_app. split; [apply app_inv_head|intros ->; reflexivity]. Qed.

Lemma bytes_as_str s : o_strty F = true ->
  ser_atom o (ABytes s) = ser_atom o (AStr s) /\ akey F (ABytes s) = akey F (AStr s) /\ tag_okF F (ABytes s) = tag_okF F (AStr s).
Proof.
  intros E. rewrite !ser_form. unfold hpre, spre, bpre. cbn [akey tag_okF hbody]. rewrite E. auto.
Qed.

Lemma akey_bytes_other s b : o_strty F = false -> not_bytes b = true -> akey F (ABytes s) <> akey F b.
Proof.
  intros E Nb. destruct b; try discriminate; cbn [akey]; rewrite ?E; try discriminate; destruct (eff_sig F); discriminate.
Qed.

Lemma ser_bytes_other s b : o_strty F = false -> not_bytes b = true -> ser_atom o (ABytes s) <> ser_atom o b.
Proof.
  intros E Nb. rewrite !ser_form. unfold hpre, spre, bpre. rewrite E.
  destruct b; try discriminate; rewrite !lowif_app; unfold lowif at 1 3; destruct (o_case F); discriminate.
Qed.

Theorem ser_atom_key a b : tag_okF F a = true -> tag_okF F b = true ->
  (ser_atom o a = ser_atom o b <-> eqvA F a b).
Proof.
  unfold eqvA. intros Ta Tb.
  assert (Hnb : forall a b, not_bytes a = true -> not_bytes b = true -> tag_okF F a = true -> tag_okF F b = true ->
                (ser_atom o a = ser_atom o b <-> akey F a = akey F b)).
  { intros x y Nx Ny Tx Ty. rewrite !ser_form.
    replace (hpre F x) with (spre F) by (destruct x; try discriminate; reflexivity).
    replace (hpre F y) with (spre F) by (destruct y; try discriminate; reflexivity).
    rewrite lowif_pre_inj. apply body_key; assumption. }
  destruct (not_bytes a) eqn:Na, (not_bytes b) eqn:Nb.
  - apply Hnb; assumption.
  - destruct b as [| | | | |s]; try discriminate. destruct (o_strty F) eqn:Es.
    + destruct (bytes_as_str s Es) as (-> & -> & Et). rewrite Et in Tb. apply Hnb; auto.
    + split; intros E; exfalso; [eapply ser_bytes_other|eapply akey_bytes_other]; try symmetry; eauto.
  - destruct a as [| | | | |s]; try discriminate. destruct (o_strty F) eqn:Es.
    + destruct (bytes_as_str s Es) as (-> & -> & Et). rewrite Et in Ta. apply Hnb; auto.
    + split; intros E; exfalso; [eapply ser_bytes_other|eapply akey_bytes_other]; eauto.
  - destruct a as [| | | | |s]; try discriminate. destruct b as [| | | | |s']; try discriminate.
    rewrite !ser_form. cbn [hpre hbody akey]. rewrite lowif_pre_inj.
    split; [intros ->; reflexivity|intros E; inversion E; reflexivity].
Qed.

(* for an injective hasher: the hashes of two atoms are equal exactly when the atoms are
   equivalent under the options *)
Corollary hash_atom_key (H : pystr -> pystr) : (forall s t, H s = H t -> s = t) ->
  forall a b, tag_okF F a = true -> tag_okF F b = true ->
  (hash_atom H o a = hash_atom H o b <-> eqvA F a b).
Proof.
  intros Hinj a b Ta Tb. rewrite <- (ser_atom_key a b Ta Tb). unfold hash_atom.
  split; [apply Hinj|intros ->; reflexivity].
Qed.

End HashSide4.

(* ------------------------------------------------------------------ *)
(** * the diff engine decides eqvA (outside K9, ASCII bytes) *)

Definition is_bool (a : atom) : bool := match a with ABool _ => true | _ => false end.
(* K9, EXACTLY: under ignore_numeric_type_changes a bool facing an int / float that the diff
   engine finds equal to it - _diff_booleans (t1 is the bool) compares with !=, _diff_numbers
   (t1 is the number) compares the two number_to_string texts at the digits in force (12 by
   default under this option).  DeepHash never identifies them ('bool:true' / 'number:1...'),
   so such a pair is where the engines disagree; every OTHER bool / number pair is inside the
   guard (both engines: different). *)
Definition k9_digits (F : opts) : N := match o_sig F with Some d => d | None => 12%N end.
Definition k9_clash (F : opts) (a b : atom) : bool :=
  o_numty F &&
  match a, b with
  | ABool _, (AInt _ | AHalf _) => py_eq a b
  | (AInt _ | AHalf _), ABool _ =>
      match dy_of_atom a, dy_of_atom b with
      | Some x, Some y => pystr_eqb (num_str (k9_digits F) x) (num_str (k9_digits F) y)
      | _, _ => false
      end
  | _, _ => false
  end.
Definition k9_ok (F : opts) (a b : atom) : bool := negb (k9_clash F a b).
(* ASCII bytes (non-ASCII bytes: _diff_str decodes as ASCII, DeepHash as UTF-8) *)
Definition ascii_atom (a : atom) : bool := match a with ABytes s => is_ascii s | _ => true end.

Section DiffSide.
Variable udiff : pystr -> pystr -> pystr.
Variable F : opts.
Hypothesis HF : shared F = true.

Lemma shared_eps : o_eps F = None.
Proof. unfold shared in HF. destruct (o_eps F); [discriminate|reflexivity]. Qed.
Lemma shared_excl : o_excl F = [].
Proof. unfold shared in HF. destruct (o_eps F); [discriminate|]. destruct (o_excl F); [reflexivity|discriminate]. Qed.
Lemma excluded_shared t : excluded F t = false.
Proof. unfold excluded. rewrite shared_excl. reflexivity. Qed.
Lemma reportF_shared k p1 p2 a b d : reportF F k p1 p2 a b d = [mkEntry k p1 p2 a b d].
Proof. unfold reportF, excl_opt. destruct a, b; rewrite ?excluded_shared; reflexivity. Qed.

Lemma numty_of_nosig : eff_sig F = None -> o_numty F = false.
Proof. unfold eff_sig. destruct (o_sig F); [discriminate|]. destruct (o_numty F); [discriminate|reflexivity]. Qed.

Lemma pystr_eqb_iff s t : pystr_eqb s t = true <-> s = t.
Proof. split; [apply OptProofsBase.pystr_eqb_eq|intros ->; apply OptProofsBase.pystr_eqb_refl]. Qed.

Lemma negb_eqb_nil s t (x : list entry) : x <> [] ->
  ((if negb (pystr_eqb s t) then x else []) = [] <-> s = t).
Proof.
  intros Hx. destruct (pystr_eqb s t) eqn:E; cbn [negb].
  - apply pystr_eqb_iff in E. tauto.
  - split; [intros; contradiction|intros ->; rewrite OptProofsBase.pystr_eqb_refl in E; discriminate].
Qed.

Theorem diff_atom_key a b p1 p2 : k9_ok F a b = true -> ascii_atom a = true -> ascii_atom b = true ->
  (diff_atomF udiff F a b p1 p2 = [] <-> eqvA F a b).
Proof.
  unfold eqvA, diff_atomF. intros K Aa Ab. rewrite !excluded_shared. cbn [orb].
  destruct (ty_eqb (atom_ty a) (atom_ty b)) eqn:Et; cbn [negb andb].
  - (* same type *)
    destruct a as [|x|z|t|s|s], b as [|y|z'|t'|s'|s']; try discriminate.
    + split; reflexivity.
    + cbn [akey]. unfold py_eq. cbn [num2]. destruct x, y; cbn; rewrite ?reportF_shared; split; intros E; try reflexivity; discriminate.
    + unfold diff_numF. cbn [dy_of_atom atom_ty ty_eqb]. rewrite shared_eps, reportF_shared. cbn [akey].
      destruct (eff_sig F) as [d|] eqn:Es.
      * rewrite negb_eqb_nil by discriminate. rewrite KNum_inj.
        split; [intros E; do 2 apply app_inv_head in E; apply num_str_inj in E; auto|intros [_ E]; apply num_str_inj in E; rewrite E; reflexivity].
      * unfold py_eq. cbn [num2]. rewrite KNum_inj. destruct (Z.eqb_spec (2 * z) (2 * z')); cbn [negb]; split; intros E; try reflexivity; try discriminate; auto.
        destruct E; contradiction.
    + unfold diff_numF. cbn [dy_of_atom atom_ty ty_eqb]. rewrite shared_eps, reportF_shared. cbn [akey].
      destruct (eff_sig F) as [d|] eqn:Es.
      * rewrite negb_eqb_nil by discriminate. rewrite KNum_inj.
        split; [intros E; do 2 apply app_inv_head in E; apply num_str_inj in E; auto|intros [_ E]; apply num_str_inj in E; rewrite E; reflexivity].
      * unfold py_eq. cbn [num2]. rewrite KNum_inj. destruct (Z.eqb_spec t t'); cbn [negb]; split; intros E; try reflexivity; try discriminate; auto.
        destruct E; contradiction.
    + unfold diff_strF. cbn [str_content atom_ty ty_eqb is_bytes orb akey]. rewrite andb_true_r.
      destruct (pystr_eqb (lowif F s) (lowif F s')) eqn:E.
      * apply pystr_eqb_iff in E. rewrite E. split; reflexivity.
      * rewrite reportF_shared. split; [discriminate|]. intros E'. inversion E' as [E'']. rewrite E'', OptProofsBase.pystr_eqb_refl in E. discriminate.
    + unfold diff_strF. cbn [str_content atom_ty ty_eqb is_bytes orb akey]. rewrite andb_true_r.
      destruct (pystr_eqb (lowif F s) (lowif F s')) eqn:E.
      * apply pystr_eqb_iff in E. rewrite E. split; reflexivity.
      * rewrite reportF_shared. split; [discriminate|]. intros E'. inversion E' as [E'']. rewrite E'', OptProofsBase.pystr_eqb_refl in E. discriminate.
  - (* different types *)
    destruct (same_group F (atom_ty a) (atom_ty b)) eqn:Eg; cbn [negb].
    2:{ rewrite reportF_shared. split; [discriminate|]. intros E. exfalso.
        unfold same_group in Eg.
        destruct a as [|x|z|t|s|s], b as [|y|z'|t'|s'|s']; try discriminate; cbn [akey] in E;
          cbn [atom_ty str_like num_like andb orb] in Eg; rewrite ?andb_true_r, ?andb_false_r, ?orb_false_r, ?orb_false_l in Eg;
          try rewrite Eg in E; try discriminate; destruct (eff_sig F); try discriminate; rewrite ?Eg in E; discriminate. }
    unfold same_group in Eg.
    destruct a as [|x|z|t|s|s], b as [|y|z'|t'|s'|s']; try discriminate;
      cbn [atom_ty str_like num_like andb orb] in Eg; rewrite ?andb_true_r, ?andb_false_r, ?orb_false_r, ?orb_false_l in Eg; try discriminate.
    all: unfold k9_ok, k9_clash in K; rewrite ?Eg in K; cbn [andb dy_of_atom] in K; apply negb_true_iff in K.
    (* bool first: _diff_booleans *)
    1,2: rewrite K, reportF_shared; cbn [akey]; destruct (eff_sig F); split; discriminate.
    (* number first, bool second: _diff_numbers on the texts *)
    1,3: unfold diff_numF; cbn [dy_of_atom atom_ty ty_eqb]; rewrite shared_eps, reportF_shared; cbn [akey];
         unfold eff_sig; unfold k9_digits in K; rewrite Eg; destruct (o_sig F) as [d|];
         (rewrite negb_eqb_nil by discriminate);
         (split; [intros E; cbn [app] in E; apply (app_inv_head colon) in E; rewrite E, OptProofsBase.pystr_eqb_refl in K; discriminate|discriminate]).
    + (* int vs half, numty *)
      unfold diff_numF. cbn [dy_of_atom atom_ty ty_eqb]. rewrite shared_eps, reportF_shared. cbn [akey].
      unfold eff_sig. rewrite Eg. destruct (o_sig F) as [d|].
      * rewrite negb_eqb_nil by discriminate. rewrite KNum_inj.
        split; [intros E; cbn [app] in E; apply (app_inv_head colon) in E; apply num_str_inj in E; auto|intros [_ E]; apply num_str_inj in E; rewrite E; reflexivity].
      * rewrite negb_eqb_nil by discriminate. rewrite KNum_inj.
        split; [intros E; cbn [app] in E; apply (app_inv_head colon) in E; apply num_str_inj in E; auto|intros [_ E]; apply num_str_inj in E; rewrite E; reflexivity].
    + unfold diff_numF. cbn [dy_of_atom atom_ty ty_eqb]. rewrite shared_eps, reportF_shared. cbn [akey].
      unfold eff_sig. rewrite Eg. destruct (o_sig F) as [d|].
      * rewrite negb_eqb_nil by discriminate. rewrite KNum_inj.
        split; [intros E; cbn [app] in E; apply (app_inv_head colon) in E; apply num_str_inj in E; auto|intros [_ E]; apply num_str_inj in E; rewrite E; reflexivity].
      * rewrite negb_eqb_nil by discriminate. rewrite KNum_inj.
        split; [intros E; cbn [app] in E; apply (app_inv_head colon) in E; apply num_str_inj in E; auto|intros [_ E]; apply num_str_inj in E; rewrite E; reflexivity].
    + (* str vs bytes, strty *)
      unfold diff_strF. cbn [str_content atom_ty ty_eqb is_bytes orb akey]. rewrite Eg.
      cbn [ascii_atom] in Ab. rewrite OptProofsAtoms.is_ascii_lowif, Ab. cbn [andb]. rewrite andb_true_r.
      destruct (pystr_eqb (lowif F s) (lowif F s')) eqn:E.
      * apply pystr_eqb_iff in E. rewrite E. split; reflexivity.
      * rewrite reportF_shared. split; [discriminate|]. intros E'. inversion E' as [E'']. rewrite E'', OptProofsBase.pystr_eqb_refl in E. discriminate.
    + unfold diff_strF. cbn [str_content atom_ty ty_eqb is_bytes orb akey]. rewrite Eg.
      cbn [ascii_atom] in Aa. rewrite OptProofsAtoms.is_ascii_lowif, Aa. cbn [andb]. rewrite andb_true_r.
      destruct (pystr_eqb (lowif F s) (lowif F s')) eqn:E.
      * apply pystr_eqb_iff in E. rewrite E. split; reflexivity.
      * rewrite reportF_shared. split; [discriminate|]. intros E'. inversion E' as [E'']. rewrite E'', OptProofsBase.pystr_eqb_refl in E. discriminate.
Qed.

End DiffSide.

(* ------------------------------------------------------------------ *)
(** * the two engines on two atoms *)

(* the exact K9 guard is weaker than "no bool meets a number" (the guard of rounds 1-2), strictly:
   True / 2, True / 1.5 at 0 digits, and False / 0.5 in THAT order are inside it; 1 / True, and
   0.5 / False at 0 digits in that order (number first: both render as '0') are not *)
Lemma k9_ok_weaker F a b :
  negb (o_numty F && ((is_bool a && is_num b) || (is_num a && is_bool b))) = true -> k9_ok F a b = true.
Proof.
  unfold k9_ok, k9_clash. destruct (o_numty F); [|reflexivity]. cbn [andb].
  destruct a, b; cbn [is_bool is_num andb orb negb]; try discriminate; reflexivity.
Qed.
Example k9_ok_examples :
  let Fn := mkOpts false false true None None [] in
  let Fn0 := mkOpts false false true (Some 0%N) None [] in
  k9_ok Fn (ABool true) (AInt 2) = true /\ k9_ok Fn (AInt 2) (ABool true) = true /\
  k9_ok Fn0 (ABool true) (AHalf 3) = true /\ k9_ok Fn0 (AHalf 3) (ABool true) = true /\
  k9_ok Fn0 (ABool false) (AHalf 1) = true /\ k9_ok Fn0 (AHalf 1) (ABool false) = false /\
  k9_ok Fn (AInt 1) (ABool true) = false /\ k9_ok Fn (ABool true) (AHalf 2) = false.
Proof. vm_compute. repeat split; reflexivity. Qed.

Definition atom_guard (F : opts) (a b : atom) : bool :=
  tag_okF F a && tag_okF F b && k9_ok F a b && ascii_atom a && ascii_atom b.

Theorem atoms_hash_iff_diff (H : pystr -> pystr) : (forall s t, H s = H t -> s = t) ->
  forall udiff F priv rep a b p1 p2, shared F = true -> atom_guard F a b = true ->
  (hash_atom H (hoptsF F priv rep) a = hash_atom H (hoptsF F priv rep) b <-> diff_atomF udiff F a b p1 p2 = []).
Proof.
  intros Hinj udiff F priv rep a b p1 p2 HF G. unfold atom_guard in G.
  repeat (apply andb_true_iff in G; destruct G as [G ?]).
  rewrite (hash_atom_key F priv rep H Hinj a b) by assumption.
  rewrite (diff_atom_key udiff F HF a b p1 p2) by assumption. tauto.
Qed.

(** sx rendering of the text / zero atom model (no theorem depends on it). *)
From Coq Require Import List NArith Bool Arith String.
Import ListNotations.
From DD Require Import Base.Sx Base.PyStr HashDiff.HashDiffTextModel.
Local Open Scope string_scope.

(* [DeepHash(a)[a] == DeepHash(b)[b] or "raised" ; DeepDiff(a, b, ignore_order=True) empty / nonempty] *)
Definition run_c12t (F : topts) (a b : tatom) : sx :=
  SL [match t_hash_eq F a b with Some h => sx_bool h | None => SA "raised" end;
      SA (if t_reports F a b then "nonempty" else "empty")].
(* the text handed to the hasher (identity hasher on the implementation side), "raised" when DeepHash raises *)
Definition run_c12t_text (F : topts) (a : tatom) : sx :=
  match t_hash F a with Some s => sx_str s | None => SA "raised" end.

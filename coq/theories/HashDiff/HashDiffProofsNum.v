(** Numbers: the two engines format numbers with two different models of
    helper.number_to_string (Hash/HashModel.v: fmt_int / fmt_half on the atoms of the
    universe, through Decimal; Options/OptModel.v: num_str on dyadic rationals, through
    p_of_Z).  Both renderings are injective functions of ONE semantic value, the number
    rounded half-even to the digits in force ([rhe]); that is all C12 needs. *)
From Coq Require Import List ZArith NArith Bool Arith Lia.
Import ListNotations.
From DD Require Import Base.PyStr Base.Value Hash.HashModel Hash.HashProofsBase Options.OptModel.
From DD Require Path.PathModel Path.PathLex.

Local Open Scope Z_scope.

(* ------------------------------------------------------------------ *)
(** * the diff side: dec_str is injective *)

Notation dval := PathLex.dval.

Lemma dval_app acc s t : dval acc (s ++ t) = dval (dval acc s) t.
Proof. unfold PathLex.dval. apply fold_left_app. Qed.

Lemma dval_zeros0 k : dval 0 (OptModel.zeros k) = 0%N.
Proof. induction k as [|k IH]; [reflexivity|]. cbn. exact IH. Qed.

Lemma dval_pad w s : dval 0 (pad0 w s) = dval 0 s.
Proof. unfold pad0. rewrite dval_app, dval_zeros0. reflexivity. Qed.

Lemma pdigit_In s c : forallb PathModel.is_digit s = true -> In c s -> (48 <= c <= 57)%N.
Proof.
  intros Hs Hi. rewrite forallb_forall in Hs. specialize (Hs c Hi).
  unfold PathModel.is_digit in Hs. apply andb_true_iff in Hs as [A B].
  apply N.leb_le in A. apply N.leb_le in B. lia.
Qed.

Lemma p_of_N_free c n : ~ (48 <= c <= 57)%N -> free c (p_of_N n).
Proof. intros Hc Hi. apply Hc. eapply pdigit_In; [apply PathLex.p_of_N_digits|exact Hi]. Qed.

Lemma p_of_N_inj a b : p_of_N a = p_of_N b -> a = b.
Proof. intros E. rewrite <- (PathLex.p_of_N_val a), <- (PathLex.p_of_N_val b), E. reflexivity. Qed.

Lemma p_of_Z_nonneg z : 0 <= z -> p_of_Z z = p_of_N (Z.to_N z).
Proof. intros Hz. rewrite <- (PathLex.p_of_Z_of_N (Z.to_N z)), Z2N.id by exact Hz. reflexivity. Qed.

Lemma p_of_N_hd_digit n : exists c r, p_of_N n = c :: r /\ (48 <= c <= 57)%N.
Proof.
  destruct (p_of_N n) as [|c r] eqn:E; [exfalso; exact (PathLex.p_of_N_nonempty n E)|].
  exists c, r. split; [reflexivity|].
  apply (pdigit_In (p_of_N n)); [apply PathLex.p_of_N_digits|rewrite E; left; reflexivity].
Qed.

Lemma pow10_pos d : 0 < pow10 d.
Proof. unfold pow10. apply Z.pow_pos_nonneg; lia. Qed.

(* the unsigned part of dec_str *)
Definition ubody (a : Z) (d : N) : pystr :=
  (p_of_Z (a / pow10 d) ++ (if N.eqb d 0 then [] else 46%N :: pad0 (N.to_nat d) (p_of_Z (a mod pow10 d))))%list.

Lemma dec_str_body n d : dec_str n d = ((if n <? 0 then [45%N] else []) ++ ubody (Z.abs n) d)%list.
Proof. reflexivity. Qed.

Lemma ubody_inj a b d : 0 <= a -> 0 <= b -> ubody a d = ubody b d -> a = b.
Proof.
  intros Ha Hb E. unfold ubody in E.
  pose proof (pow10_pos d) as Hp.
  assert (Hqa : 0 <= a / pow10 d) by (apply Z.div_pos; lia).
  assert (Hqb : 0 <= b / pow10 d) by (apply Z.div_pos; lia).
  assert (Hra : 0 <= a mod pow10 d) by (apply Z.mod_pos_bound; lia).
  assert (Hrb : 0 <= b mod pow10 d) by (apply Z.mod_pos_bound; lia).
  rewrite !(p_of_Z_nonneg (_ / _)), !(p_of_Z_nonneg (_ mod _)) in E by assumption.
  assert (a / pow10 d = b / pow10 d /\ a mod pow10 d = b mod pow10 d) as [Eq Er].
  { destruct (N.eqb_spec d 0) as [Hd|Hd].
    - rewrite !app_nil_r in E. apply p_of_N_inj in E.
      apply (f_equal Z.of_N) in E. rewrite !Z2N.id in E by assumption. split; [exact E|].
      subst d. change (pow10 0) with 1. rewrite !Z.mod_1_r. reflexivity.
    - apply split_sep in E; [|apply p_of_N_free; lia|apply p_of_N_free; lia].
      destruct E as [E1 E2]. apply p_of_N_inj in E1.
      apply (f_equal (dval 0)) in E2. rewrite !dval_pad, !PathLex.p_of_N_val in E2.
      apply (f_equal Z.of_N) in E1. apply (f_equal Z.of_N) in E2.
      rewrite !Z2N.id in E1, E2 by assumption. split; assumption. }
  rewrite (Z.div_mod a (pow10 d)), (Z.div_mod b (pow10 d)) by lia. rewrite Eq, Er. reflexivity.
Qed.

Lemma ubody_hd a d : 0 <= a -> exists c r, ubody a d = c :: r /\ (48 <= c <= 57)%N.
Proof.
  intros Ha. unfold ubody. pose proof (pow10_pos d).
  rewrite p_of_Z_nonneg by (apply Z.div_pos; lia).
  destruct (p_of_N_hd_digit (Z.to_N (a / pow10 d))) as (c & r & E & Hc).
  rewrite E. eexists c, _. split; [reflexivity|exact Hc].
Qed.

Theorem dec_str_inj n m d : dec_str n d = dec_str m d -> n = m.
Proof.
  rewrite !dec_str_body. intros E.
  destruct (ubody_hd (Z.abs n) d (Z.abs_nonneg n)) as (c1 & r1 & E1 & H1).
  destruct (ubody_hd (Z.abs m) d (Z.abs_nonneg m)) as (c2 & r2 & E2 & H2).
  destruct (Z.ltb_spec n 0), (Z.ltb_spec m 0); cbn [app] in E.
  - inversion E as [E']. apply ubody_inj in E'; lia.
  - rewrite E2 in E. inversion E. lia.
  - rewrite E1 in E. inversion E. lia.
  - apply ubody_inj in E; lia.
Qed.

Corollary num_str_inj d x y : num_str d x = num_str d y <-> rhe x d = rhe y d.
Proof. unfold num_str. split; [apply dec_str_inj|intros ->; reflexivity]. Qed.

(* ------------------------------------------------------------------ *)
(** * rounding of the atoms of the universe *)

Lemma rhe_int z d : rhe (z, 0%N) d = z * pow10 d.
Proof.
  unfold rhe. cbn [fst snd]. change (two_p 0) with 1.
  rewrite Z.div_1_r, Z.mod_1_r. reflexivity.
Qed.

Lemma pow10_pos_split p : pow10 (Npos p) = 10 * pow10 (Pos.pred_N p).
Proof.
  unfold pow10. rewrite <- Z.pow_succ_r by apply N2Z.is_nonneg. f_equal.
  rewrite <- N2Z.inj_succ, N.succ_pos_pred. reflexivity.
Qed.

Lemma rhe_half_pos t p : rhe (t, 1%N) (Npos p) = t * 5 * pow10 (Pos.pred_N p).
Proof.
  unfold rhe. cbn [fst snd]. change (two_p 1) with 2. rewrite pow10_pos_split.
  replace (t * (10 * pow10 (Pos.pred_N p))) with ((t * 5 * pow10 (Pos.pred_N p)) * 2) by ring.
  rewrite Z.div_mul, Z.mod_mul by lia. reflexivity.
Qed.

Lemma rhe_half_0 t : rhe (t, 1%N) 0 = round_half_even t.
Proof.
  unfold rhe, round_half_even. cbn [fst snd]. change (two_p 1) with 2. change (pow10 0) with 1.
  rewrite Z.mul_1_r.
  pose proof (Z.div_mod t 2 ltac:(lia)) as Hdm. pose proof (Z.mod_pos_bound t 2 ltac:(lia)) as Hb.
  rewrite Zmod_even in *.
  destruct (Z.even t) eqn:Ev.
  - reflexivity.
  - replace (2 * 1 <? 2) with false by reflexivity. replace (2 <? 2 * 1) with false by reflexivity.
    replace ((t - 1) / 2) with (t / 2); [reflexivity|].
    replace (t - 1) with (t / 2 * 2) by lia. rewrite Z.div_mul by lia. reflexivity.
Qed.

(* ------------------------------------------------------------------ *)
(** * the hash side: fmt_int / fmt_half as functions of the rounded value *)

Lemma fmt_half_S n t : fmt_half (S n) t = (HashModel.half_repr t ++ HashModel.zeros n)%list.
Proof.
  unfold fmt_half, HashModel.half_repr. rewrite <- !app_assoc. do 2 f_equal.
  destruct (Z.odd t); reflexivity.
Qed.
Lemma fmt_int_S n z : fmt_int (S n) z = (dec_Z z ++ [46%N; 48%N] ++ HashModel.zeros n)%list.
Proof. reflexivity. Qed.

Lemma dec_Z_sign z : dec_Z z = ((if z <? 0 then [45%N] else []) ++ dec_N (Z.to_N (Z.abs z)))%list.
Proof. destruct z; reflexivity. Qed.

Lemma half_repr_double z : HashModel.half_repr (2 * z) = (dec_Z z ++ [46%N; 48%N])%list.
Proof.
  unfold HashModel.half_repr. rewrite dec_Z_sign, <- app_assoc.
  replace (2 * z <? 0) with (z <? 0) by (destruct (Z.ltb_spec z 0), (Z.ltb_spec (2 * z) 0); lia).
  replace (Z.abs (2 * z) / 2) with (Z.abs z) by (rewrite Z.abs_mul, Z.mul_comm, Z.div_mul; lia).
  rewrite Z.odd_mul. reflexivity.
Qed.

(* the number text DeepHash produces for a numeric atom, n digits *)
Definition ftxt (n : nat) (a : atom) : pystr :=
  match a with AInt z => fmt_int n z | AHalf t => fmt_half n t | _ => [] end.
Definition is_num (a : atom) : bool := match a with AInt _ | AHalf _ => true | _ => false end.
Definition dyv (a : atom) : dy := match a with AInt z => (z, 0%N) | AHalf t => (t, 1%N) | _ => (0, 0%N) end.

Lemma pow10_nz d : pow10 d <> 0.
Proof. pose proof (pow10_pos d). lia. Qed.

Theorem ftxt_sem d a b : is_num a = true -> is_num b = true ->
  (ftxt (N.to_nat d) a = ftxt (N.to_nat d) b <-> rhe (dyv a) d = rhe (dyv b) d).
Proof.
  intros Ha Hb.
  assert (Hcross : forall z t,
    (fmt_int (N.to_nat d) z = fmt_half (N.to_nat d) t <-> rhe (z, 0%N) d = rhe (t, 1%N) d)).
  { intros z t. destruct d as [|p].
    - cbn [N.to_nat fmt_int fmt_half]. rewrite rhe_int, rhe_half_0. change (pow10 0) with 1. rewrite Z.mul_1_r.
      split; [apply dec_Z_inj|intros ->; reflexivity].
    - rewrite rhe_int, rhe_half_pos, pow10_pos_split.
      destruct (Pos2Nat.is_succ p) as [n Hn]. cbn [N.to_nat]. rewrite Hn, fmt_int_S, fmt_half_S.
      pose proof (pow10_nz (Pos.pred_N p)) as Hnz. split.
      + intros E. rewrite app_assoc in E. apply app_inv_tail in E. rewrite <- half_repr_double in E.
        apply half_repr_inj in E. subst t. ring.
      + intros E. assert (t = 2 * z) as -> by nia.
        rewrite half_repr_double, <- app_assoc. reflexivity. }
  destruct a as [| |z|t| |], b as [| |z'|t'| |]; try discriminate; cbn [ftxt dyv].
  - rewrite !rhe_int. pose proof (pow10_nz d). split.
    + intros E. destruct (N.to_nat d); [apply dec_Z_inj in E|rewrite !fmt_int_S in E; apply app_inv_tail in E; apply dec_Z_inj in E]; subst; reflexivity.
    + intros E. assert (z = z') as -> by nia. reflexivity.
  - apply Hcross.
  - split; intros E; symmetry; apply Hcross; symmetry; exact E.
  - destruct d as [|p].
    + cbn [N.to_nat fmt_half]. rewrite !rhe_half_0. split; [apply dec_Z_inj|intros ->; reflexivity].
    + rewrite !rhe_half_pos. destruct (Pos2Nat.is_succ p) as [n Hn]. cbn [N.to_nat]. rewrite Hn, !fmt_half_S.
      pose proof (pow10_nz (Pos.pred_N p)) as Hnz. split.
      * intros E. apply app_inv_tail in E. apply half_repr_inj in E. subst. reflexivity.
      * intros E. assert (t = t') as -> by nia. reflexivity.
Qed.

(** C12 at the default options.

    (1) The option-aware ignore-order model of this block, instantiated with no
        option, IS b05's model of DeepDiff(ignore_order=True) (DiffIO/DiffIOModel.v)
        - for all inputs, oracles and paths.
    (2) Hence the property at default options is a corollary of C05 (diff empty
        <-> equal as nested sets / multisets), C06 (equal => same hash) and C07
        (same hash => equal), under the guards of those theorems. *)
From Coq Require Import List ZArith NArith Bool Arith Lia.
Import ListNotations.
From DD Require Import Base.PyStr Base.Value Diff.Tree Diff.DiffModel Hash.HashModel Hash.Equiv
  Hash.HashProofsBase Hash.HashProofsC06 Hash.HashProofsC07
  DiffIO.DiffIOModel DiffIO.DiffIOProofs Options.OptModel Options.OptProofsBase Options.OptProofsTie
  HashDiff.HashDiffModel.

Notation ires := DiffIOModel.res.

(* pointwise equality of the per-item recursive calls *)
Definition peq (f g : rec_fn) : Prop := forall y p q, f y p q = g y p q.

Lemma nth_rec_ext recs recs' : Forall2 peq recs recs' ->
  forall i y p q, nth_rec recs i y p q = nth_rec recs' i y p q.
Proof.
  induction 1 as [|f g r r' Hfg _ IH]; intros i y p q.
  - destruct i; reflexivity.
  - destruct i as [|i]; [apply Hfg|]. apply IH.
Qed.

Lemma added_loop_ext (one one' : pystr -> list pystr -> ires * list pystr) :
  (forall a rem, one a rem = one' a rem) ->
  forall adds rem, added_loop one adds rem = added_loop one' adds rem.
Proof.
  intros E. induction adds as [|a adds IH]; intros rem; [reflexivity|].
  cbn [added_loop]. rewrite E. destruct (one' a rem) as [r1 rem1]. rewrite IH. reflexivity.
Qed.

Lemma fold_app2_ext {A} (f g : A -> ires) (l : list A) :
  (forall x, f x = g x) ->
  fold_right (fun i acc => app2 (f i) acc) ([], []) l = fold_right (fun i acc => app2 (g i) acc) ([], []) l.
Proof. intros E. induction l as [|x l IH]; [reflexivity|]. cbn [fold_right]. rewrite E, IH. reflexivity. Qed.

Section Tie.
Variable H : pystr -> pystr.
Variable udiff : pystr -> pystr -> pystr.
Variable c : cfg.
Variable rep : bool.
Variable pairs : path -> list (nat * nat).

Notation F0 := no_opts.
Notation dF := (diff_ioF H udiff c F0 rep pairs).
Notation d0 := (diff_io H udiff no_skip no_skip c rep pairs).

Lemma hoptsF_none : hoptsF F0 (DiffModel.ignore_private c) rep = io_opts c rep.
Proof. reflexivity. Qed.

(* the level machinery is the same text, up to the per-item calls *)
Lemma iterF_none recs recs' xs ys p1 p2 : Forall2 peq recs recs' ->
  iter_deephashF H c F0 rep pairs recs xs ys p1 p2 = iter_deephash H no_skip c rep pairs recs' xs ys p1 p2.
Proof.
  intros E. pose proof (nth_rec_ext _ _ E) as En.
  unfold iter_deephashF, iter_deephash. destruct rep.
  - unfold iter_repF, iter_rep.
    rewrite (added_loop_ext (added_one_repF H c F0 true pairs recs xs ys p1 p2)
                            (added_one_rep H no_skip c true pairs recs' xs ys p1 p2)); [reflexivity|].
    intros a rem. unfold added_one_repF, added_one_rep.
    change (partnerF H c F0 true pairs xs ys p1 a rem) with (partner H c true pairs xs ys p1 a rem).
    destruct (partner H c true pairs xs ys p1 a rem) as [r|]; [|reflexivity].
    f_equal.
    change (it2 ys (first_of (indexes_of a (g2 H c F0 true ys) 0))) with (item2 ys (first_of (indexes_of a (h2 H c true ys) 0))).
    destruct (item2 ys (first_of (indexes_of a (h2 H c true ys) 0))) as [y|]; [|reflexivity].
    apply fold_app2_ext. intros i. apply En.
  - unfold iter_norepF, iter_norep.
    rewrite (added_loop_ext (added_oneF H c F0 false pairs recs xs ys p1 p2)
                            (added_one H no_skip c false pairs recs' xs ys p1 p2)); [reflexivity|].
    intros a rem. unfold added_oneF, added_one.
    change (partnerF H c F0 false pairs xs ys p1 a rem) with (partner H c false pairs xs ys p1 a rem).
    destruct (partner H c false pairs xs ys p1 a rem) as [r|]; [|reflexivity].
    f_equal.
    change (it2 ys (first_of (indexes_of a (g2 H c F0 false ys) 0))) with (item2 ys (first_of (indexes_of a (h2 H c false ys) 0))).
    destruct (item2 ys (first_of (indexes_of a (h2 H c false ys) 0))) as [y|]; [|reflexivity].
    apply En.
Qed.

Lemma recs_peq (xs : list value) :
  Forall (fun x => forall t2 p1 p2, dF x t2 p1 p2 = d0 x t2 p1 p2) xs ->
  Forall2 peq
    ((fix go (l : list value) : list rec_fn := match l with [] => [] | x :: r => dF x :: go r end) xs)
    ((fix go (l : list value) : list rec_fn := match l with [] => [] | x :: r => d0 x :: go r end) xs).
Proof. induction 1 as [|x xs Hx _ IH]; constructor; [exact Hx|exact IH]. Qed.

Lemma ent_rpt k p1 p2 a b : ent k p1 p2 a b = rpt no_skip k p1 p2 a b None.
Proof. reflexivity. Qed.

Lemma key_add_none k2 k1 kvs p1 p2 :
  key_reports F0 KDictAdd k2 k1 [] kvs p1 p2 =
  flat_map (fun k => if mem_atom k k1 then [] else rpt no_skip KDictAdd (snoc p1 (PKey k)) (snoc p2 (PKey k)) None (assoc k kvs) None) k2.
Proof.
  induction k2 as [|k r IH]; [reflexivity|]. cbn [key_reports flat_map].
  destruct (mem_atom k k1); [exact IH|]. rewrite IH, reportF_none. reflexivity.
Qed.
Lemma key_rem_none k1 k2 kvs p1 p2 :
  key_reports F0 KDictRem k1 k2 [] kvs p1 p2 =
  flat_map (fun k => if mem_atom k k2 then [] else rpt no_skip KDictRem (snoc p1 (PKey k)) (snoc p2 (PKey k)) (assoc k kvs) None None) k1.
Proof.
  induction k1 as [|k r IH]; [reflexivity|]. cbn [key_reports flat_map].
  destruct (mem_atom k k2); [exact IH|]. rewrite IH, reportF_none. reflexivity.
Qed.

Lemma shortcut_none k1 k2 p1 : shortcutF c k1 k2 = dict_shortcut no_skip c k1 k2 p1.
Proof.
  exact (shortcutF_none c k1 k2 p1).
Qed.

(** the model of this block without options = DiffIO.DiffIOModel.diff_io *)
Theorem diff_ioF_no_opts : forall t1 t2 p1 p2, dF t1 t2 p1 p2 = d0 t1 t2 p1 p2.
Proof.
  induction t1 as [a|xs IH|xs IH|kvs IH|xs|xs] using value_ind'; intros t2 p1 p2;
    cbn [diff_ioF diff_io no_skip]; rewrite same_group_none, andb_true_r.
  - destruct t2 as [b|ys|ys|kvs2|ys|ys]; cbn [type_of];
      try (destruct a; reflexivity).
    destruct (ty_eqb (atom_ty a) (atom_ty b)) eqn:Et; cbn [negb]; [|reflexivity].
    rewrite diff_atomF_none. reflexivity.
  - destruct t2 as [b|ys|ys|kvs2|ys|ys]; cbn [type_of ty_eqb negb]; try reflexivity; try (destruct b; reflexivity).
    apply iterF_none, recs_peq, IH.
  - destruct t2 as [b|ys|ys|kvs2|ys|ys]; cbn [type_of ty_eqb negb]; try reflexivity; try (destruct b; reflexivity).
    apply iterF_none, recs_peq, IH.
  - destruct t2 as [b|ys|ys|kvs2|ys|ys]; cbn [type_of ty_eqb negb]; try reflexivity; try (destruct b; reflexivity).
    unfold kmap, ckeys. cbn [cleaning no_opts o_strty o_numty o_case orb].
    rewrite <- (shortcut_none _ _ p1).
    destruct (shortcutF c (keys_of c kvs) (keys_of c kvs2)) eqn:Es; [reflexivity|].
    rewrite key_add_none, key_rem_none.
    match goal with |- (_ ++ _ ++ fst ?A, snd ?A) = (_ ++ _ ++ fst ?B, snd ?B) => assert (A = B) as Hgo end.
    { clear Es. induction kvs as [|[k v1] r IHr]; [reflexivity|].
      inversion IH as [|? ? Hx Hxs]; subst. cbn [snd] in Hx.
      rewrite (IHr Hxs). unfold common_stepF. rewrite (repr_none k).
      destruct (keep_key c k); [|apply app2_nil_l].
      destruct (find (py_eq k) (keys_of c kvs2)) as [k'|]; [|apply app2_nil_l].
      rewrite (orig_none k'). destruct (assoc k' kvs2) as [v2|]; [|apply app2_nil_l].
      rewrite Hx. reflexivity. }
    rewrite Hgo. reflexivity.
  - destruct t2 as [b|ys|ys|kvs2|ys|ys]; cbn [type_of ty_eqb negb]; try reflexivity; try (destruct b; reflexivity).
  - destruct t2 as [b|ys|ys|kvs2|ys|ys]; cbn [type_of ty_eqb negb]; try reflexivity; try (destruct b; reflexivity).
Qed.

Theorem run_diff_ioF_no_opts : forall t1 t2,
  run_diff_ioF H udiff c F0 rep pairs t1 t2 = run_diff_io H udiff no_skip no_skip c rep pairs t1 t2.
Proof. intros. unfold run_diff_ioF, run_diff_io. rewrite diff_ioF_no_opts. reflexivity. Qed.

End Tie.

(** the property at default options, under the guards of C05 / C06 / C07 *)
Theorem default_hash_iff_diff :
  forall (H : pystr -> pystr),
  (forall s, s <> [] -> sepfree (H s)) -> (forall s t, H s = H t -> s = t) ->
  forall udiff excl c rep pairs t1 t2,
  thr_num c <= thr_den c ->
  wf t1 = true -> wf t2 = true -> tag_safe t1 = true -> tag_safe t2 = true -> alias_free2 t1 t2 = true ->
  (hash_pure H (io_opts c rep) t1 = hash_pure H (io_opts c rep) t2 <->
   fst (run_diff_io H udiff no_skip excl c rep pairs t1 t2) = []).
Proof.
  intros H Ht Hi udiff excl c rep pairs t1 t2 Hthr W1 W2 T1 T2 A.
  rewrite (verdict H Ht Hi udiff excl c rep pairs t1 t2 Hthr W1 W2 T1 T2 A).
  split.
  - intros E. apply (hash_inj H Ht Hi (io_opts c rep) (plain_io c rep)); auto.
  - intros E. apply eqv_hash; auto.
Qed.

(* the same statement on the model of this block *)
Corollary default_hash_iff_diffF :
  forall (H : pystr -> pystr),
  (forall s, s <> [] -> sepfree (H s)) -> (forall s t, H s = H t -> s = t) ->
  forall udiff c rep pairs t1 t2,
  thr_num c <= thr_den c ->
  wf t1 = true -> wf t2 = true -> tag_safe t1 = true -> tag_safe t2 = true -> alias_free2 t1 t2 = true ->
  (hvF H c no_opts rep t1 = hvF H c no_opts rep t2 <->
   fst (run_diff_ioF H udiff c no_opts rep pairs t1 t2) = []).
Proof.
  intros. rewrite run_diff_ioF_no_opts. unfold hvF, oF. rewrite hoptsF_none.
  apply default_hash_iff_diff; auto.
Qed.

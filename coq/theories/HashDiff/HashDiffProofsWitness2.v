(** More witnesses over the base universe (round 3): the run-wide `hashes` table (K2) on the
    memo-threading model of the DiffIO block, and the boundary of the exact K9 guard. *)
From Coq Require Import List ZArith NArith Bool Arith String.
Import ListNotations.
From DD Require Import Base.PyStr Base.Value Diff.Tree Diff.DiffModel Hash.HashModel Hash.HexHash
  DiffIO.DiffIOModel DiffIO.DiffIOProofs DiffIO.DiffIOMemo Options.OptModel
  HashDiff.HashDiffModel HashDiff.HashDiffProofsAtoms HashDiff.HashDiffProofsLift HashDiff.HashDiffProofsParts
  HashDiff.HashDiffProofsWitness HashDiff.HashDiffProofsSat.

(* C12-K2-memo-alias: [1] vs [1.0] at default options.  DeepHash on fresh tables tells them apart;
   the diff engine WITH the table shared by all the DeepHash calls of the run (DiffIOMemo.run_diff_io_m:
   1.0 is looked up by == and gets the hash of 1) reports nothing; the same engine without the
   sharing (DiffIOModel.run_diff_io = run_diff_ioF at no options) reports the change. *)
Definition k2_a : value := VList [VAtom (AInt 1)].
Definition k2_b : value := VList [VAtom (AHalf 2)].
Theorem memo_alias_refuted :
  pystr_eqb (hash_pure hexhash (io_opts cfg_def false) k2_a) (hash_pure hexhash (io_opts cfg_def false) k2_b) = false /\
  fst (fst (run_diff_io_m hexhash no_ud no_skip no_skip cfg_def false no_pairs k2_a k2_b)) = [] /\
  fst (run_diff_io hexhash no_ud no_skip no_skip cfg_def false no_pairs k2_a k2_b) <> [] /\
  fst (run_diff_ioF hexhash no_ud cfg_def no_opts false no_pairs k2_a k2_b) <> [] /\
  alias_free2 k2_a k2_b = false.
Proof. vm_compute. repeat split; discriminate. Qed.

(* K2 WITH options, inside ONE DeepHash call: {2: [], 'a': 2} vs {'a': 2, 2.0: []} under ignore_string_case +
   significant_digits=3.  In the second dict the VALUE 2 is hashed first, the KEY 2.0 is looked up by == and gets
   its hash: the two DeepHash results are equal (deephash), although on alias-free tables they differ (hash_pure);
   key cleaning renders the keys 'int:2.000' / 'float:2.000': the diff is not empty. *)
Definition Fcs3 : opts := mkOpts true false false (Some 3%N) None [].
Definition k2o_a : value := VDict [(AInt 2, VList []); (AStr (s2p "a"), VAtom (AInt 2))].
Definition k2o_b : value := VDict [(AStr (s2p "a"), VAtom (AInt 2)); (AHalf 4, VList [])].
Theorem memo_alias_options_refuted :
  pystr_eqb (deephash hexhash (hoptsF Fcs3 true false) k2o_a) (deephash hexhash (hoptsF Fcs3 true false) k2o_b) = true /\
  hash_eqF hexhash cfg_def Fcs3 false k2o_a k2o_b = false /\
  verdictF hexhash no_ud cfg_def Fcs3 false no_pairs k2o_a k2o_b = DNonEmpty /\
  wf k2o_a = true /\ wf k2o_b = true /\ alias_free k2o_b = false.
Proof. vm_compute. repeat split; reflexivity. Qed.

(* the exact K9 guard: True facing 2 is INSIDE the theorem (both engines: different), in both orders
   and through a list; 0.5 facing False at 0 digits is outside only in that order *)
Definition Fn0 : opts := mkOpts false false true (Some 0%N) None [].
Theorem k9_boundary :
  lift_guard cfg_def F_numty false (VAtom (ABool true)) (VAtom (AInt 2)) = true /\
  hash_eqF hexhash cfg_def F_numty false (VAtom (ABool true)) (VAtom (AInt 2)) = false /\
  verdictF hexhash no_ud cfg_def F_numty false no_pairs (VAtom (ABool true)) (VAtom (AInt 2)) = DNonEmpty /\
  lift_guard cfg_def F_numty false (VAtom (AInt 2)) (VAtom (ABool true)) = true /\
  lift_guard cfg_def Fn0 false (VAtom (AHalf 1)) (VAtom (ABool false)) = false /\
  hash_eqF hexhash cfg_def Fn0 false (VAtom (AHalf 1)) (VAtom (ABool false)) = false /\
  verdictF hexhash no_ud cfg_def Fn0 false no_pairs (VAtom (AHalf 1)) (VAtom (ABool false)) = DEmpty /\
  verdictF hexhash no_ud cfg_def Fn0 false no_pairs (VAtom (ABool false)) (VAtom (AHalf 1)) = DNonEmpty.
Proof. vm_compute. repeat split; reflexivity. Qed.

(** C12 on the atoms the two structural universes leave out: text beyond ASCII and the two float zeros.

      TS s    a str, [s] its code points (Latin-1: < 256)
      TB bs   a bytes object, [bs] its bytes (each < 256; lead bytes 0xC4..0xF4 - UTF-8 sequences for
              code points >= 256 - are outside the universe)
      TZ neg  the float 0.0 (neg = false) or -0.0

    HASH ENGINE  [t_hash F a] = the text DeepHash(a, **F) hands to the hasher, or None when it raises:
                 prepare_string_for_hashing decodes bytes as UTF-8 ([dec8]; an invalid sequence is
                 UnicodeDecodeError) and lower-cases the DECODED text (str.lower: Unicode);
                 _prep_number prints a zero with its sign ('-0.0') unless a precision is in force
                 (number_to_string takes abs of a zero).
    DIFF ENGINE  [t_reports F a b] = _diff reports something: type check (str / bytes are one group only
                 under ignore_string_type_changes); _diff_str lower-cases each operand with ITS OWN
                 lower() (bytes.lower touches ASCII letters only), decodes bytes as ASCII (a failing
                 decode leaves the bytes object) and compares; _diff_numbers compares zeros with == /
                 by their number_to_string texts.
    Definitions only. *)
From Coq Require Import List NArith Bool Arith String.
Import ListNotations.
From DD Require Import Base.PyStr.
Local Open Scope N_scope.

Inductive tatom := TS (s : pystr) | TB (bs : list N) | TZ (neg : bool).
Record topts := mkT { t_case : bool; t_strty : bool; t_numty : bool; t_sig : option N }.

Definition t_digits (F : topts) : option N :=
  match t_sig F with Some d => Some d | None => if t_numty F then Some 12 else None end.

(* str.lower() on Latin-1 *)
Definition low1 (c : N) : N :=
  if (65 <=? c) && (c <=? 90) then c + 32
  else if (192 <=? c) && (c <=? 222) && negb (c =? 215) then c + 32 else c.
Definition lowS (F : topts) (s : pystr) : pystr := if t_case F then map low1 s else s.
(* bytes.lower(): ASCII letters only *)
Definition lowB (F : topts) (bs : list N) : list N := if t_case F then lower bs else bs.

(* bytes.decode('utf-8') for sequences of at most two bytes; None = UnicodeDecodeError *)
Fixpoint dec8 (bs : list N) : option pystr :=
  match bs with
  | [] => Some []
  | b :: r =>
      if b <? 128 then option_map (cons b) (dec8 r)
      else if (194 <=? b) && (b <=? 223) then
        match r with
        | c :: r' => if (128 <=? c) && (c <=? 191)
                     then option_map (cons ((b - 192) * 64 + (c - 128))) (dec8 r') else None
        | [] => None
        end
      else None
  end.

Local Open Scope string_scope.
Definition zeros_txt (d : N) : pystr := if N.eqb d 0 then s2p "0" else (s2p "0." ++ repeat 48%N (N.to_nat d))%list.
Definition t_hash (F : topts) (a : tatom) : option pystr :=
  let pre (ty : string) : pystr := if t_strty F then [] else (s2p ty ++ [58%N])%list in
  match a with
  | TS s => Some (lowS F (pre "str" ++ s)%list)
  | TB bs => match dec8 bs with Some s => Some (lowS F (pre "bytes" ++ s)%list) | None => None end
  | TZ neg =>
      let tag := if t_numty F then s2p "number" else s2p "float" in
      let txt := match t_digits F with
                 | Some d => zeros_txt d
                 | None => if neg then s2p "-0.0" else s2p "0.0"
                 end in
      Some (lowS F (pre "str" ++ tag ++ [58%N] ++ txt)%list)
  end.

(* an operand of _diff_str after lower() and the ASCII decoding attempt *)
Definition t_norm (F : topts) (a : tatom) : tatom :=
  match a with
  | TS s => TS (lowS F s)
  | TB bs => let l := lowB F bs in if forallb (fun c => c <? 128)%N l then TS l else TB l
  | TZ _ => a
  end.
Definition tatom_eqb (a b : tatom) : bool :=
  match a, b with
  | TS s, TS t => pystr_eqb s t
  | TB s, TB t => pystr_eqb s t
  | TZ x, TZ y => Bool.eqb x y
  | _, _ => false
  end.
Definition t_kind (a : tatom) : nat := match a with TS _ => 0 | TB _ => 1 | TZ _ => 2 end.
Definition t_reports (F : topts) (a b : tatom) : bool :=
  match a, b with
  | TZ _, TZ _ => false                      (* 0.0 == -0.0; with a precision both print '0.00' *)
  | TZ _, _ | _, TZ _ => true                (* type_changes *)
  | _, _ =>
      if negb (Nat.eqb (t_kind a) (t_kind b)) && negb (t_strty F) then true      (* type_changes *)
      else negb (tatom_eqb (t_norm F a) (t_norm F b))
  end.

(* the property on one pair of atoms: None on the hash side = DeepHash raises *)
Definition t_hash_eq (F : topts) (a b : tatom) : option bool :=
  match t_hash F a, t_hash F b with
  | Some x, Some y => Some (pystr_eqb x y)
  | _, _ => None
  end.
Definition t_agree (F : topts) (a b : tatom) : bool :=
  match t_hash_eq F a b with
  | Some h => Bool.eqb h (negb (t_reports F a b))
  | None => false                            (* the diff engine never raises on these atoms *)
  end.

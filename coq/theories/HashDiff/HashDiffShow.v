(** sx renderings of the C12 model for the correspondence check (no theorem
    depends on this file). *)
From Coq Require Import List ZArith NArith Bool Arith String.
Import ListNotations.
From DD Require Import Base.Sx Base.PyStr Base.Value Diff.Tree Diff.DiffModel Hash.HashModel
  DiffIO.DiffIOModel DiffIO.DiffIOShow DiffIO.DiffIOMemo Options.OptModel HashDiff.HashDiffModel HashDiff.HashDiffProofsAtoms HashDiff.HashDiffProofsLift HashDiff.HashDiffProofsKeys HashDiff.HashDiffProofsParts.
Local Open Scope string_scope.

(* the hasher of the model runs: hex of the UTF-8 bytes behind a letter, so that the
   hash of the empty text (a str/bytes '' under ignore_string_type_changes) is not the
   empty token; injective, lower-case, free of the separators.  The implementation runs
   with SHA-256; only equality of hashes is compared. *)
Definition xhash (s : pystr) : pystr := 104%N :: hexhash s.

Definition sx_dverdict (v : dverdict) : sx :=
  SA (match v with DEmpty => "empty" | DNonEmpty => "nonempty" | DRaised => "raised" end).

(* both engines on one pair: [DeepHash(a)[a] == DeepHash(b)[b] ; verdict of
   DeepDiff(a, b, ignore_order=True)] under the options F, report_repetition=rep,
   with the recorded pairings *)
Definition run_c12 (c : cfg) (F : opts) (rep : bool) (ps : list (path * list (nat * nat))) (t1 t2 : value) : sx :=
  SL [sx_bool (hash_eqF xhash c F rep t1 t2);
      sx_dverdict (verdictF xhash (fun _ _ => []) c F rep (tbl_pairs ps) t1 t2)].

(* the diff side alone *)
Definition run_c12_diff (c : cfg) (F : opts) (rep : bool) (ps : list (path * list (nat * nat))) (t1 t2 : value) : sx :=
  sx_dverdict (verdictF xhash (fun _ _ => []) c F rep (tbl_pairs ps) t1 t2).

(* equality pattern of the hashes over a pool *)
Fixpoint first_idx (x : pystr) (l : list pystr) (i : nat) : nat :=
  match l with
  | [] => i
  | y :: r => if pystr_eqb x y then i else first_idx x r (S i)
  end.
Definition run_c12_classes (F : opts) (rep : bool) (vs : list value) : sx :=
  let hs := map (hash_pure xhash (hoptsF F true rep)) vs in
  SL (map (fun h => sx_nat (first_idx h hs 0)) hs).

(* atom level: the text DeepHash hands to the hasher; the verdict of _diff on two atoms *)
Definition run_c12_ser (F : opts) (a : atom) : sx := sx_str (ser_atom (hoptsF F true false) a).
Definition run_c12_atoms (F : opts) (a b : atom) : sx :=
  SL [sx_bool (pystr_eqb (ser_atom (hoptsF F true false) a) (ser_atom (hoptsF F true false) b));
      sx_bool (match diff_atomF (fun _ _ => []) F a b [] [] with [] => true | _ => false end)].

(* the boolean guard of C12_hash_iff_diff_partial on the generated cases: one character per case *)
Fixpoint guard_chars (l : list bool) : string :=
  match l with
  | [] => EmptyString
  | b :: r => ((if b then "T" else "F") ++ guard_chars r)%string
  end.
Definition run_c12_guards (l : list bool) : string := ("BEGIN" ++ nl ++ guard_chars l ++ nl ++ "END")%string.

(* both guards on one case: [lift_guard ; lift_guardb] as two characters *)
Definition g2 (c : cfg) (F : opts) (rep : bool) (t1 t2 : value) : list bool :=
  [lift_guard c F rep t1 t2; lift_guardb c F rep t1 t2].
Definition run_c12_guards2 (l : list (list bool)) : string := run_c12_guards (List.concat l).

(* EVERY hypothesis of the C12 theorems on one generated case, one character each (the composite
   guards are the conjunctions of these components: HashDiffProofsParts.lift_guard_parts,
   lift_guardb_parts, old_lift_guard by definition - the harness forms them):
   0 lg_tag   1 lg_ascii   2 lg_k9 (exact)   3 the K9 component of rounds 1-2   4 lg_cohk   5 lg_keyb
   6 goodv t1   7 goodv t2   8 wf t1   9 wf t2   10 alias_free t1   11 alias_free t2   12 shared F   13 threshold <= 1 *)
Definition gparts (c : cfg) (F : opts) (rep : bool) (t1 t2 : value) : list bool :=
  [lg_tag F t1 t2; lg_ascii t1 t2; lg_k9 F t1 t2;
   forallb (fun a => forallb (old_k9 F a) (lg_atoms t1 t2)) (lg_atoms t1 t2);
   lg_cohk F t1 t2; lg_keyb F t1 t2; goodv c F rep t1; goodv c F rep t2;
   wf t1; wf t2; alias_free t1; alias_free t2; shared F; Nat.leb (thr_num c) (thr_den c)].

(* default options WITH the `hashes` tables threaded: DeepHash(v)[v] on its own fresh table per value
   (HashModel.deephash: an ==-alias inside ONE value gets the hash of the first), the diff engine with
   the ONE table shared by all the DeepHash calls of the run (DiffIO/DiffIOMemo.v).  Used for the pairs
   with ==-aliasing atoms, which the memo-free models do not describe (finding K2). *)
Definition run_c12_memo (c : cfg) (rep : bool) (ps : list (path * list (nat * nat))) (t1 t2 : value) : sx :=
  SL [sx_bool (pystr_eqb (deephash xhash (io_opts c rep) t1) (deephash xhash (io_opts c rep) t2));
      SA (match fst (fst (run_diff_io_m xhash (fun _ _ => []) (fun _ => false) (fun _ => false) c rep (tbl_pairs ps) t1 t2)) with
          | [] => "empty" | _ :: _ => "nonempty" end)].

(* equality pattern of DeepHash(v, **F)[v] over a pool, each value hashed on its OWN fresh `hashes` table
   (HashModel.deephash: an ==-alias inside one value gets the hash of the first) - WITH the options *)
Definition run_c12_classes_memo (F : opts) (rep : bool) (vs : list value) : sx :=
  let hs := map (deephash xhash (hoptsF F true rep)) vs in
  SL (map (fun h => sx_nat (first_idx h hs 0)) hs).

(* WITH options: the hash side on its own table per value (deephash), the diff side memo-free - for pairs whose
   ==-aliases sit where the diff engine does not consult the shared table (dict keys / values of directly compared
   dicts under key cleaning): K2 inside ONE DeepHash call, under the options *)
Definition run_c12_hmemo (c : cfg) (F : opts) (rep : bool) (ps : list (path * list (nat * nat))) (t1 t2 : value) : sx :=
  SL [sx_bool (pystr_eqb (deephash xhash (hoptsF F (DiffModel.ignore_private c) rep) t1)
                         (deephash xhash (hoptsF F (DiffModel.ignore_private c) rep) t2));
      sx_dverdict (verdictF xhash (fun _ _ => []) c F rep (tbl_pairs ps) t1 t2)].

(** HashDiff/HashDiffSrcShow.v - differencing of GENERATED definitions (passed in as arguments: nothing under
    coq/theories may import DDGen) against the hand model, evaluated by harness/props/c12.py:on_source_tie_break
    when the source tie `hashparams` is broken.  No theorem depends on this file. *)
From Coq Require Import List ZArith NArith Bool Arith String.
Import ListNotations.
From DD Require Import Base.Sx Base.PyStr Base.Value Hash.HashModel Options.OptModel DiffIO.DiffIOModel
  HashDiff.HashDiffModel HashDiff.HashDiffSrcPrims HashDiff.HashDiffSrcSpec.

Definition odigits_eqb (a b : option nat) : bool :=
  match a, b with Some x, Some y => Nat.eqb x y | None, None => true | _, _ => false end.
Definition hopts_eqb (a b : hopts) : bool :=
  Bool.eqb (ignore_repetition a) (ignore_repetition b) && Bool.eqb (ignore_iterable_order a) (ignore_iterable_order b) &&
  Bool.eqb (HashModel.ignore_private a) (HashModel.ignore_private b) && Bool.eqb (ignore_string_case a) (ignore_string_case b) &&
  Bool.eqb (ignore_string_type_changes a) (ignore_string_type_changes b) &&
  Bool.eqb (ignore_numeric_type_changes a) (ignore_numeric_type_changes b) &&
  odigits_eqb (significant_digits a) (significant_digits b).
Definition ohopts_eqb (a b : option hopts) : bool :=
  match a, b with Some x, Some y => hopts_eqb x y | None, None => true | _, _ => false end.

Definition optrec := (opts * bool * bool)%type.      (* F, priv, rep *)
Definition hand_hopts (u : optrec) : hopts := let '(F, priv, rep) := u in hopts_eff (hoptsF F priv rep).
Definition gen_hopts (g : pdict -> option hopts) (u : optrec) : option hopts := let '(F, priv, rep) := u in g (args_of F priv rep).

Fixpoint indices_where {A} (p : A -> bool) (l : list A) (i : nat) : list nat :=
  match l with
  | [] => []
  | x :: r => (if p x then [i] else []) ++ indices_where p r (S i)
  end.

(* 1. the option records on which the generated forwarding is not the hand model's *)
Definition forwarding_diffs (g : pdict -> option hopts) (U : list optrec) : list nat :=
  indices_where (fun u => negb (ohopts_eqb (gen_hopts g u) (Some (hand_hopts u)))) U 0.
(* ... those on which it yields no option record at all (an exception / an option of the wrong kind) *)
Definition forwarding_none (g : pdict -> option hopts) (U : list optrec) : list nat :=
  indices_where (fun u => match gen_hopts g u with None => true | Some _ => false end) U 0.

(* 2. for one option record: the pairs (i, j), i < j, of candidate items whose hashes the generated option record
      identifies / separates differently from the hand model's *)
Definition hexh (s : pystr) : pystr := 104%N :: hexhash s.
Fixpoint pairs_where {A} (p : A -> A -> bool) (l : list A) (i : nat) : list (nat * nat) :=
  match l with
  | [] => []
  | x :: r => map (fun j => (i, j)) (indices_where (p x) r (S i)) ++ pairs_where p r (S i)
  end.
Definition verdict_diffs (g : pdict -> option hopts) (u : optrec) (vals : list value) : list (nat * nat) :=
  match gen_hopts g u with
  | None => []
  | Some og =>
      let oh := hand_hopts u in
      let hg := map (hash_pure hexh og) vals in
      let hh := map (hash_pure hexh oh) vals in
      pairs_where (fun a b => negb (Bool.eqb (pystr_eqb (fst a) (fst b)) (pystr_eqb (snd a) (snd b)))) (combine hg hh) 0
  end.

(* 3. the hashtable: the lists on which the generated loop does not build the table of the hand model *)
Fixpoint nats_eqb (a b : list nat) : bool :=
  match a, b with
  | [], [] => true
  | x :: a', y :: b' => Nat.eqb x y && nats_eqb a' b'
  | _, _ => false
  end.
Fixpoint hashes_eqb (a b : list pystr) : bool :=
  match a, b with
  | [], [] => true
  | x :: a', y :: b' => pystr_eqb x y && hashes_eqb a' b'
  | _, _ => false
  end.
Fixpoint table_eqb (a b : htable) : bool :=
  match a, b with
  | [], [] => true
  | (h, e) :: a', (h', e') :: b' =>
      pystr_eqb h h' && nats_eqb (ih_indexes e) (ih_indexes e') && value_eqb (ih_item e) (ih_item e') && table_eqb a' b'
  | _, _ => false
  end.
Definition otable_eqb (a b : option htable) : bool :=
  match a, b with Some x, Some y => table_eqb x y | None, None => true | _, _ => false end.
Definition table_of (hv : value -> pystr) (xs : list value) : htable :=
  map (fun h => (h, entry_of (map hv xs) xs h)) (dedup (map hv xs)).
Definition hv0 (v : value) : pystr := hash_pure hexh default_opts v.
Definition table_diffs (g : (value -> hres) -> list value -> option htable) (L : list (list value)) : list nat :=
  indices_where (fun xs => negb (otable_eqb (g (fun v => HOk (hv0 v)) xs) (Some (table_of hv0 xs)))) L 0.

(* 4. the part of _diff_iterable_with_deephash before the pairing heuristic *)
Definition prefix_t := (htable * htable * list pystr * list pystr * list pystr * list pystr * htable * htable)%type.
Definition prefix_hand (rep : bool) (xs ys : list value) : prefix_t :=
  let T1 := table_of hv0 xs in
  let T2 := table_of hv0 ys in
  let t1 := dedup (map hv0 xs) in
  let t2 := dedup (map hv0 ys) in
  let added := so_sub t2 t1 in
  let removed := so_sub t1 t2 in
  (T1, T2, t1, t2, added, removed, if rep then T1 else ht_restrict T1 removed, if rep then T2 else ht_restrict T2 added).
Definition prefix_eqb (a b : prefix_t) : bool :=
  let '(a1, a2, a3, a4, a5, a6, a7, a8) := a in
  let '(b1, b2, b3, b4, b5, b6, b7, b8) := b in
  table_eqb a1 b1 && table_eqb a2 b2 && hashes_eqb a3 b3 && hashes_eqb a4 b4 && hashes_eqb a5 b5 && hashes_eqb a6 b6 &&
  table_eqb a7 b7 && table_eqb a8 b8.
Definition prefix_diffs (g : (value -> hres) -> bool -> list value -> list value -> option prefix_t) (rep : bool)
           (L : list (list value)) : list (nat * nat) :=
  let IL := combine (seq 0 (List.length L)) L in
  flat_map (fun ix => flat_map (fun jy =>
    match g (fun v => HOk (hv0 v)) rep (snd ix) (snd jy) with
    | Some r => if prefix_eqb r (prefix_hand rep (snd ix) (snd jy)) then [] else [(fst ix, fst jy)]
    | None => [(fst ix, fst jy)]
    end) IL) IL.

(* printing: one line per hit *)
Local Open Scope string_scope.
Fixpoint show_nats (l : list nat) : string :=
  match l with [] => "" | n :: r => show_nat n ++ nl ++ show_nats r end.
Fixpoint show_nat_pairs (l : list (nat * nat)) : string :=
  match l with [] => "" | (i, j) :: r => show_nat i ++ " " ++ show_nat j ++ nl ++ show_nat_pairs r end.
Definition framed (s : string) : string := "BEGIN" ++ nl ++ s ++ "END".

(** Theorems and witnesses over the text / zero atoms (HashDiffTextModel.v). *)
From Coq Require Import List NArith Bool Arith String.
Import ListNotations.
From DD Require Import Base.PyStr HashDiff.HashDiffTextModel.
Local Open Scope string_scope.

(* ---- the two zeros: EXACT.  The diff engine never tells them apart; the hash engine does exactly
   when no precision is in force: the engines agree on (0.0, -0.0) iff the signs are equal or a
   precision is in force (significant_digits, or ignore_numeric_type_changes with its 12 digits) ---- *)
Lemma pystr_eqb_refl s : pystr_eqb s s = true.
Proof. induction s as [|c s IH]; [reflexivity|]. cbn. rewrite N.eqb_refl. exact IH. Qed.

Theorem zero_exact F n1 n2 :
  t_reports F (TZ n1) (TZ n2) = false /\
  t_agree F (TZ n1) (TZ n2) = (Bool.eqb n1 n2 || match t_digits F with Some _ => true | None => false end).
Proof.
  split; [reflexivity|].
  unfold t_agree, t_hash_eq, t_hash. cbn [t_reports negb].
  destruct (t_digits F) as [d|].
  - rewrite pystr_eqb_refl, orb_true_r. reflexivity.
  - rewrite orb_false_r. destruct n1, n2; cbn [Bool.eqb]; try (rewrite pystr_eqb_refl; reflexivity);
      unfold lowS; destruct (t_case F), (t_strty F), (t_numty F); reflexivity.
Qed.

(* ---- two str objects (any Latin-1 text, ASCII or not): the engines ALWAYS agree, under every option:
   the non-ASCII findings are about bytes only ---- *)
Lemma pystr_eqb_true s t : pystr_eqb s t = true -> s = t.
Proof.
  revert t. induction s as [|c s IH]; intros [|d t] E; try discriminate; [reflexivity|].
  cbn in E. apply andb_true_iff in E as [E1 E2]. apply N.eqb_eq in E1. subst d. f_equal. apply IH. exact E2.
Qed.
Lemma lowS_app F (s t : pystr) : lowS F (s ++ t)%list = (lowS F s ++ lowS F t)%list.
Proof. unfold lowS. destruct (t_case F); [apply map_app|reflexivity]. Qed.

Lemma pystr_eqb_app_head (p x y : pystr) : pystr_eqb (p ++ x)%list (p ++ y)%list = pystr_eqb x y.
Proof. induction p as [|c p IH]; [reflexivity|]. cbn. rewrite N.eqb_refl. exact IH. Qed.

Theorem str_str_agree F s t : t_agree F (TS s) (TS t) = true.
Proof.
  unfold t_agree, t_hash_eq, t_hash, t_reports. cbn [t_kind Nat.eqb negb andb t_norm tatom_eqb].
  rewrite !lowS_app, negb_involutive, pystr_eqb_app_head. apply Bool.eqb_reflx.
Qed.

(* ---- witnesses ---- *)
Definition T0 : topts := mkT false false false None.
Definition Tcase : topts := mkT true false false None.
Definition Tstrty : topts := mkT false true false None.
Definition Tsig2 : topts := mkT false false false (Some 2%N).

(* C12-negative-zero *)
Theorem negative_zero_refuted :
  t_hash_eq T0 (TZ true) (TZ false) = Some false /\ t_reports T0 (TZ true) (TZ false) = false /\
  t_agree Tsig2 (TZ true) (TZ false) = true.
Proof. vm_compute. repeat split; reflexivity. Qed.

(* C12-nonascii-bytes: 'e-acute' vs its UTF-8 bytes under ignore_string_type_changes (DeepHash decodes UTF-8, _diff_str
   ASCII); E-acute / e-acute as BYTES under ignore_string_case (DeepHash lower-cases the decoded text,
   bytes.lower() leaves the non-ASCII bytes alone); as STR the same two agree *)
Theorem nonascii_bytes_refuted :
  t_hash_eq Tstrty (TS [233%N]) (TB [195%N; 169%N]) = Some true /\ t_reports Tstrty (TS [233%N]) (TB [195%N; 169%N]) = true /\
  t_hash_eq Tcase (TB [195%N; 137%N]) (TB [195%N; 169%N]) = Some true /\ t_reports Tcase (TB [195%N; 137%N]) (TB [195%N; 169%N]) = true /\
  t_agree Tcase (TS [201%N]) (TS [233%N]) = true /\ t_agree Tstrty (TS [97%N]) (TB [97%N]) = true.
Proof. vm_compute. repeat split; reflexivity. Qed.

(* C12-undecodable-bytes: b'\xff' against itself at default options: DeepHash raises, the diff is empty *)
Theorem undecodable_bytes_refuted :
  t_hash_eq T0 (TB [255%N]) (TB [255%N]) = None /\ t_reports T0 (TB [255%N]) (TB [255%N]) = false /\
  t_hash_eq Tstrty (TB [255%N]) (TB [254%N]) = None /\ t_reports Tstrty (TB [255%N]) (TB [254%N]) = true.
Proof. vm_compute. repeat split; reflexivity. Qed.

(** The guard [lift_guard] of C12_hash_iff_diff_partial split into its named components, so that
    the harness can observe EACH hypothesis of the theorem on every generated case (which
    component puts a case outside the theorem, and that inside it the two real engines agree).

      lg_tag    K1: no str (bytes when the text type is ignored) spells a serialisation
      lg_ascii  bytes are ASCII
      lg_k9     K9, exact: no bool faces a number the diff engine finds equal to it
      lg_cohk   key cleaning is coherent with the key hashes on the dict keys
      goodv     per value: no clean-key collision inside a dict; with report_repetition no set with
                two members the options merge

    [lift_guard_parts]: the guard IS the conjunction of the components (so observing the
    components is observing the guard).  [old_k9] is the K9 component of rounds 1-2 ("no bool next
    to a number"); [lift_guard_weaker]: the present guard is implied by the old one. *)
From Coq Require Import List ZArith NArith Bool Arith String.
Import ListNotations.
From DD Require Import Base.PyStr Base.Value Diff.Tree Diff.DiffModel Hash.HashModel
  DiffIO.DiffIOModel Options.OptModel HashDiff.HashDiffModel HashDiff.HashDiffProofsAtoms
  HashDiff.HashDiffProofsNum HashDiff.HashDiffProofsLift HashDiff.HashDiffProofsKeys.

Definition lg_atoms (t1 t2 : value) : list atom := (atoms_of t1 ++ atoms_of t2)%list.
Definition lg_keys (t1 t2 : value) : list atom := (dkeys t1 ++ dkeys t2)%list.

Definition lg_tag (F : opts) (t1 t2 : value) : bool := forallb (tag_okF F) (lg_atoms t1 t2).
Definition lg_ascii (t1 t2 : value) : bool := forallb ascii_atom (lg_atoms t1 t2).
Definition lg_k9 (F : opts) (t1 t2 : value) : bool :=
  forallb (fun a => forallb (k9_ok F a) (lg_atoms t1 t2)) (lg_atoms t1 t2).
Definition lg_cohk (F : opts) (t1 t2 : value) : bool :=
  forallb (fun k => forallb (cohk F k) (lg_keys t1 t2)) (lg_keys t1 t2).
Definition lg_keyb (F : opts) (t1 t2 : value) : bool := forallb (key_okb F) (lg_keys t1 t2).

Lemma forallb_andb {A} (f g : A -> bool) l :
  forallb (fun a => f a && g a) l = forallb f l && forallb g l.
Proof.
  induction l as [|a r IH]; [reflexivity|]. cbn [forallb]. rewrite IH.
  destruct (f a), (g a), (forallb f r), (forallb g r); reflexivity.
Qed.

Lemma lift_guard_parts c F rep t1 t2 :
  lift_guard c F rep t1 t2 =
  lg_tag F t1 t2 && lg_ascii t1 t2 && lg_k9 F t1 t2 && lg_cohk F t1 t2 && goodv c F rep t1 && goodv c F rep t2.
Proof. unfold lift_guard, lg_tag, lg_ascii, lg_k9, lg_cohk, lg_atoms, lg_keys. rewrite forallb_andb. reflexivity. Qed.

Lemma lift_guardb_parts c F rep t1 t2 :
  lift_guardb c F rep t1 t2 =
  lg_tag F t1 t2 && lg_ascii t1 t2 && lg_k9 F t1 t2 && lg_keyb F t1 t2 && goodv c F rep t1 && goodv c F rep t2.
Proof. unfold lift_guardb, lg_tag, lg_ascii, lg_k9, lg_keyb, lg_atoms, lg_keys. rewrite forallb_andb. reflexivity. Qed.

(* the K9 component of rounds 1-2 and the guard built on it *)
Definition old_k9 (F : opts) (a b : atom) : bool :=
  negb (o_numty F && ((is_bool a && is_num b) || (is_num a && is_bool b))).
Definition old_lift_guard (c : cfg) (F : opts) (rep : bool) (t1 t2 : value) : bool :=
  lg_tag F t1 t2 && lg_ascii t1 t2 &&
  forallb (fun a => forallb (old_k9 F a) (lg_atoms t1 t2)) (lg_atoms t1 t2) &&
  lg_cohk F t1 t2 && goodv c F rep t1 && goodv c F rep t2.

Lemma forallb_impl {A} (f g : A -> bool) l : (forall a, f a = true -> g a = true) -> forallb f l = true -> forallb g l = true.
Proof. intros Hi. rewrite !forallb_forall. intros Hf a Ha. apply Hi, Hf, Ha. Qed.

Theorem lift_guard_weaker c F rep t1 t2 : old_lift_guard c F rep t1 t2 = true -> lift_guard c F rep t1 t2 = true.
Proof.
  rewrite lift_guard_parts. unfold old_lift_guard. intros G.
  apply andb_true_iff in G as [G G2]. apply andb_true_iff in G as [G G1].
  apply andb_true_iff in G as [G Gc]. apply andb_true_iff in G as [G G9]. apply andb_true_iff in G as [Gt Ga].
  rewrite Gt, Ga, Gc, G1, G2, !andb_true_r. cbn [andb].
  unfold lg_k9. revert G9. apply forallb_impl. intros a. apply forallb_impl. intros b. apply k9_ok_weaker.
Qed.

(* ... strictly: a pair inside the present guard and outside the old one, on which the two
   engines agree that the values differ (True / 2 and a reordering, under
   ignore_numeric_type_changes) *)
Definition wk_a : value := VList [VAtom (ABool true); VAtom (AInt 5)].
Definition wk_b : value := VList [VAtom (AInt 5); VAtom (AInt 2)].
Definition F_numty_ : opts := mkOpts false false true None None [].
Example lift_guard_strictly_weaker :
  lift_guard (mkCfg false 33 100 true) F_numty_ false wk_a wk_b = true /\
  old_lift_guard (mkCfg false 33 100 true) F_numty_ false wk_a wk_b = false.
Proof. vm_compute. split; reflexivity. Qed.

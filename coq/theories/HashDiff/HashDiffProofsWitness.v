(** C12: witnesses.  The unguarded equivalence "same hash <-> empty ignore-order
    diff" is false of the two faithful models; each witness below is replayed on the
    implementation by harness/props/c12.py at every run.  Also: the guards of the
    theorems are satisfiable by non-trivial values. *)
From Coq Require Import List ZArith NArith Bool Arith Lia String.
Import ListNotations.
From DD Require Import Base.PyStr Base.Value Diff.Tree Diff.DiffModel Hash.HashModel Hash.HashProofsBase
  DiffIO.DiffIOModel Options.OptModel HashDiff.HashDiffModel HashDiff.HashDiffProofsNum HashDiff.HashDiffProofsAtoms.
Local Open Scope string_scope.
Local Open Scope list_scope.

Definition cfg_def : cfg := mkCfg false 33 100 true.
Definition F_case : opts := mkOpts true false false None None [].
Definition F_strty : opts := mkOpts false true false None None [].
Definition F_numty : opts := mkOpts false false true None None [].
Definition F_sig (d : N) : opts := mkOpts false false false (Some d) None [].
Definition no_ud (_ _ : pystr) : pystr := [].
Definition no_pairs (_ : path) : list (nat * nat) := [].

Definition vint (z : Z) := VAtom (AInt z).
Definition vstr (s : string) := VAtom (AStr (s2p s)).

(** K9: True vs 1 under ignore_numeric_type_changes.  For EVERY injective hasher the
    hashes differ; the diff is empty (at the root for every oracle; inside a list as
    soon as the pairing heuristic pairs the two items - which it does: their distance is 0) *)
Theorem bool_int_refuted :
  forall (H : pystr -> pystr), (forall s t, H s = H t -> s = t) ->
  forall udiff c rep pairs,
  let a := VAtom (ABool true) in
  let b := vint 1 in
  hvF H c F_numty rep a <> hvF H c F_numty rep b /\
  run_diff_ioF H udiff c F_numty rep pairs a b = ([], []) /\
  verdictF H udiff c F_numty rep pairs a b = DEmpty /\
  tag_okF F_numty (ABool true) = true /\ tag_okF F_numty (AInt 1) = true /\ shared F_numty = true.
Proof.
  intros H Hinj udiff c rep pairs a b. repeat split; try reflexivity.
  - unfold hvF, a, b, vint. cbn [hash_pure]. intros E.
    apply (hash_atom_key F_numty (DiffModel.ignore_private c) rep H Hinj) in E; [|reflexivity|reflexivity].
    discriminate E.
  - destruct rep; reflexivity.
  - unfold verdictF. destruct rep; reflexivity.
Qed.

Theorem bool_int_list_refuted :
  let a := VList [VAtom (ABool true)] in
  let b := VList [vint 1] in
  hash_eqF hexhash cfg_def F_numty false a b = false /\
  verdictF hexhash no_ud cfg_def F_numty false (fun _ => [(0, 0)]%nat) a b = DEmpty /\
  verdictF hexhash no_ud cfg_def F_numty false no_pairs a b = DNonEmpty /\
  hash_eqF hexhash cfg_def F_numty true a b = false /\
  verdictF hexhash no_ud cfg_def F_numty true (fun _ => [(0, 0)]%nat) a b = DEmpty.
Proof. vm_compute. repeat split; reflexivity. Qed.

(** K1: a str that spells a serialisation (for every hasher); under ignore_string_case
    also up to case *)
Theorem tag_refuted :
  forall (H : pystr -> pystr) udiff c rep pairs,
  hvF H c no_opts rep (VAtom ANone) = hvF H c no_opts rep (vstr "NONE") /\
  verdictF H udiff c no_opts rep pairs (VAtom ANone) (vstr "NONE") = DNonEmpty /\
  hvF H c F_case rep (VAtom ANone) = hvF H c F_case rep (vstr "none") /\
  verdictF H udiff c F_case rep pairs (VAtom ANone) (vstr "none") = DNonEmpty /\
  hvF H c F_strty rep (vint 1) = hvF H c F_strty rep (VAtom (ABytes (s2p "int:1"))) /\
  verdictF H udiff c F_strty rep pairs (vint 1) (VAtom (ABytes (s2p "int:1"))) = DNonEmpty.
Proof. intros. repeat split; try reflexivity; unfold verdictF; destruct rep; reflexivity. Qed.

(** a bytes dict key is lower-cased by DeepHash, not by key cleaning (for every hasher) *)
Theorem bytes_key_case_refuted :
  forall (H : pystr -> pystr) udiff rep pairs,
  let a := VDict [(ABytes (s2p "A"), vint 1)] in
  let b := VDict [(ABytes (s2p "a"), vint 1)] in
  hvF H cfg_def F_case rep a = hvF H cfg_def F_case rep b /\
  verdictF H udiff cfg_def F_case rep pairs a b = DNonEmpty.
Proof. intros. split; [reflexivity|]. unfold verdictF. destruct rep; reflexivity. Qed.

(** significant_digits alone: DeepHash rounds numeric dict keys, _diff_dict does not clean keys *)
Theorem sig_keys_refuted :
  forall (H : pystr -> pystr) udiff rep pairs,
  let a := VDict [(AHalf 3, vint 1)] in      (* {1.5: 1} *)
  let b := VDict [(AHalf 5, vint 1)] in      (* {2.5: 1} *)
  hvF H cfg_def (F_sig 0) rep a = hvF H cfg_def (F_sig 0) rep b /\
  verdictF H udiff cfg_def (F_sig 0) rep pairs a b = DNonEmpty.
Proof. intros. split; [reflexivity|]. unfold verdictF. destruct rep; reflexivity. Qed.

(** two keys of one dict with the same clean key: the diff drops the second entry *)
Theorem key_collision_refuted :
  let a := VDict [(AStr (s2p "A"), vint 1); (AStr (s2p "a"), vint 2)] in
  let b := VDict [(AStr (s2p "A"), vint 1); (AStr (s2p "a"), vint 3)] in
  let b' := VDict [(AStr (s2p "a"), vint 2); (AStr (s2p "A"), vint 1)] in
  wf a = true /\ wf b = true /\
  hash_eqF hexhash cfg_def F_case false a b = false /\
  verdictF hexhash no_ud cfg_def F_case false no_pairs a b = DEmpty /\
  (* ... and which one is kept depends on the insertion order *)
  hash_eqF hexhash cfg_def F_case false a b' = true /\
  verdictF hexhash no_ud cfg_def F_case false no_pairs a b' = DNonEmpty.
Proof. vm_compute. repeat split; reflexivity. Qed.

(** report_repetition: DeepHash counts set members an option merges, _diff_set does not *)
Theorem set_member_collision_refuted :
  let a := VSet [AStr (s2p "a"); AStr (s2p "A")] in
  let b := VSet [AStr (s2p "a")] in
  wf a = true /\ wf b = true /\
  hash_eqF hexhash cfg_def F_case true a b = false /\
  verdictF hexhash no_ud cfg_def F_case true no_pairs a b = DEmpty /\
  hash_eqF hexhash cfg_def F_case false a b = true.
Proof. vm_compute. repeat split; reflexivity. Qed.

(** dict keys are matched by Python == (1 and 1.0 are one key) while their hashes differ
    unless ignore_numeric_type_changes merges them *)
Theorem key_alias_refuted :
  let a := VDict [(AInt 1, vstr "x")] in
  let b := VDict [(AHalf 2, vstr "x")] in
  hash_eqF hexhash cfg_def (F_sig 2) false a b = false /\
  verdictF hexhash no_ud cfg_def (F_sig 2) false no_pairs a b = DEmpty /\
  hash_eqF hexhash cfg_def F_numty false a b = true /\
  verdictF hexhash no_ud cfg_def F_numty false no_pairs a b = DEmpty.
Proof. vm_compute. repeat split; reflexivity. Qed.

(** the two engines agree on non-trivial pairs that differ only in the ignored aspect *)
Definition ex_a : value :=
  VList [VDict [(AStr (s2p "Key"), VTuple [vint 1; VAtom (AHalf 5); vstr "Ab"]); (AInt 2, VSet [AStr (s2p "x"); ANone])];
         vstr "B"; vint 3].
Definition ex_b : value :=
  VList [VAtom (AHalf 6); VAtom (ABytes (s2p "b"));
         VDict [(AHalf 4, VSet [ANone; ABytes (s2p "X")]); (ABytes (s2p "kEY"), VTuple [vstr "aB"; VAtom (AHalf 2); VAtom (AHalf 5)])]].
Definition F_all : opts := mkOpts true true true None None [].

Theorem agree_example :
  hash_eqF hexhash cfg_def F_all false ex_a ex_b = true /\
  verdictF hexhash no_ud cfg_def F_all false no_pairs ex_a ex_b = DEmpty /\
  hash_eqF hexhash cfg_def no_opts false ex_a ex_b = false /\
  verdictF hexhash no_ud cfg_def no_opts false no_pairs ex_a ex_b = DNonEmpty.
Proof. vm_compute. repeat split; reflexivity. Qed.

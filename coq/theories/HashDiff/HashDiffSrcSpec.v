(** HashDiff/HashDiffSrcSpec.v - hand-written facts that the source tie `hashparams` (coq/srctie/HashDiffGenEquiv.v)
    needs about the HAND model and about the primitives of HashDiffSrcPrims.v.  Nothing here mentions a generated
    definition.

    1. [forwarded_keys]: the parameters the hand models assume DeepDiff forwards to DeepHash (DEEPHASH_PARAM_KEYS as
       of the /repo tree the models were written against; truncate_datetime is NOT among them - open finding
       C12-truncate-not-forwarded, HashDiffYModel.v relies on it).
    2. [hash_pure_eff]: the hash model reads [significant_digits] only through [eff_digits], so the option record
       with the digits already made effective (what the DeepHash object holds after __init__, and what DeepDiff
       forwards: its own self.significant_digits went through get_significant_digits too) hashes like the record of
       raw arguments [hoptsF] that the hand model uses.
    3. [table_spec]: the hashtable of _create_hashtable in the hand model's terms - keys = [dedup] of the item hashes,
       IndexedHash.indexes = [indexes_of], IndexedHash.item = the first item carrying the hash - and the proof that
       the statement-level loop (add on a new hash, append the index on a known one) builds exactly that. *)
From Coq Require Import List NArith Bool String Arith Lia.
Import ListNotations.
From DD Require Import Base.PyStr Base.Value Base.ValueFacts Hash.HashModel Hash.HashProofsBase Options.OptModel
  DiffIO.DiffIOModel DiffIO.DiffIOProofs HashDiff.HashDiffModel HashDiff.HashDiffSrcPrims.
Local Open Scope string_scope.

(* ------------------------------------------------------------------ *)
(** * 1. the forwarded parameter names *)
Definition forwarded_keys : list string :=
  ["exclude_types"; "exclude_paths"; "include_paths"; "exclude_regex_paths"; "hasher"; "significant_digits";
   "number_format_notation"; "ignore_string_type_changes"; "ignore_numeric_type_changes"; "use_enum_value";
   "ignore_type_in_groups"; "ignore_type_subclasses"; "ignore_string_case"; "exclude_obj_callback";
   "ignore_private_variables"; "encodings"; "ignore_encoding_errors"; "default_timezone"; "custom_operators"].

(* Base.get_significant_digits, by hand, on option values; on the values [args_of] passes it is OptModel.eff_sig *)
Definition digits_pv (d : option N) : pv := match d with Some n => PN n | None => PNone end.
Definition get_significant_digits_spec (sd numty : pv) : pv :=
  if truthy (p_and (p_is_not sd PNone) (p_lt sd (PN 0))) then PRaise "ValueError"
  else if truthy (p_is sd PNone) then (if truthy numty then PN 12 else sd) else sd.

(* the keyword parameters of DeepHash.__init__ *)
Definition deephash_init_params : list string :=
  ["apply_hash"; "custom_operators"; "default_timezone"; "encodings"; "exclude_obj_callback"; "exclude_paths";
   "exclude_regex_paths"; "exclude_types"; "hasher"; "hashes"; "ignore_encoding_errors"; "ignore_iterable_order";
   "ignore_numeric_type_changes"; "ignore_private_variables"; "ignore_repetition"; "ignore_string_case";
   "ignore_string_type_changes"; "ignore_type_in_groups"; "ignore_type_subclasses"; "include_paths";
   "number_format_notation"; "number_to_string_func"; "parent"; "significant_digits"; "truncate_datetime";
   "use_enum_value"].

(* what DeepHash.__init__ makes of its keyword arguments, in the hand model's vocabulary: every modelled option is
   read from the keyword of its own name, with the default of the signature; the digits go through
   get_significant_digits *)
Definition hopts_of_kwargs (KW : pdict) : option hopts :=
  match as_bool (kwarg KW "ignore_repetition" (PB true)), as_bool (kwarg KW "ignore_iterable_order" (PB true)),
        as_bool (kwarg KW "ignore_private_variables" (PB true)), as_bool (kwarg KW "ignore_string_case" (PB false)),
        as_bool (kwarg KW "ignore_string_type_changes" (PB false)), as_bool (kwarg KW "ignore_numeric_type_changes" (PB false)),
        as_digits (get_significant_digits_spec (kwarg KW "significant_digits" PNone) (kwarg KW "ignore_numeric_type_changes" (PB false))) with
  | Some ir, Some io, Some ip, Some ic, Some ist, Some inum, Some sd => Some (mk_hopts ir io ip ic ist inum sd)
  | _, _, _, _, _, _, _ => None
  end.

(* _get_deephash_params, by hand *)
Definition get_deephash_params_spec (self : pdict) : pv :=
  p_setitem (p_setitem (PD (pd_comprehension forwarded_keys (fun k => p_item (pd_get self "_parameters") k)))
                       "ignore_repetition" (p_not (pd_get self "report_repetition")))
            "number_to_string_func" (pd_get self "number_to_string").

Local Close Scope string_scope.
Local Open Scope list_scope.

(* ------------------------------------------------------------------ *)
(** * 2. effective digits *)
Lemma eff_digits_eff o : eff_digits (hopts_eff o) = eff_digits o.
Proof.
  destruct o as [a b c d e f [n|]]; [reflexivity|]. destruct f; reflexivity.
Qed.

Lemma ser_atom_eff o a : ser_atom (hopts_eff o) a = ser_atom o a.
Proof.
  destruct a; unfold ser_atom, retag, prep_string, atom_result, num_type; rewrite ?eff_digits_eff; reflexivity.
Qed.

Lemma hash_atom_eff H o a : hash_atom H (hopts_eff o) a = hash_atom H o a.
Proof. unfold hash_atom. rewrite ser_atom_eff. reflexivity. Qed.

Lemma map_ext_Forall {A B} (f g : A -> B) l : Forall (fun x => f x = g x) l -> map f l = map g l.
Proof. induction 1 as [|x l E _ IH]; cbn; [reflexivity|]. rewrite E, IH. reflexivity. Qed.

Lemma retag_eff o r : retag (hopts_eff o) r = retag o r.
Proof. destruct o; reflexivity. Qed.
Lemma arrange_eff o hs : arrange (hopts_eff o) hs = arrange o hs.
Proof. destruct o; reflexivity. Qed.
Lemma hidden_eff o k : hidden (hopts_eff o) k = hidden o k.
Proof. destruct o; reflexivity. Qed.

Lemma hash_pure_eff H o v : hash_pure H (hopts_eff o) v = hash_pure H o v.
Proof.
  induction v as [a|xs IH|xs IH|kvs IH|xs|xs] using value_ind'; cbn [hash_pure].
  - apply hash_atom_eff.
  - rewrite (map_ext_Forall _ _ _ IH), retag_eff, arrange_eff. reflexivity.
  - rewrite (map_ext_Forall _ _ _ IH), retag_eff, arrange_eff. reflexivity.
  - rewrite retag_eff. do 3 f_equal.
    induction IH as [|[k x] r E _ IHr]; [reflexivity|]. cbn [snd] in E.
    rewrite hidden_eff.
    destruct (hidden o k); [exact IHr|]. rewrite hash_atom_eff, E, IHr. reflexivity.
  - rewrite (map_ext _ _ (hash_atom_eff H o)), retag_eff, arrange_eff. reflexivity.
  - rewrite (map_ext _ _ (hash_atom_eff H o)), retag_eff, arrange_eff. reflexivity.
Qed.

(* ------------------------------------------------------------------ *)
(** * 3. the hashtable *)

Lemma for_loop_ext {A S} (l : list A) (s0 : S) (f g : S -> A -> option S) :
  (forall s x, f s x = g s x) -> for_loop l s0 f = for_loop l s0 g.
Proof.
  intros E. unfold for_loop. generalize (Some s0). induction l as [|x l IH]; intros acc; cbn; [reflexivity|].
  destruct acc as [s|]; [rewrite E|]; apply IH.
Qed.

Lemma for_loop_snoc {A S} (l : list A) (x : A) (s0 : S) (f : S -> A -> option S) :
  for_loop (l ++ [x]) s0 f = match for_loop l s0 f with Some s => f s x | None => None end.
Proof. unfold for_loop. rewrite fold_left_app. reflexivity. Qed.

Lemma enumerate_from_snoc {A} (l : list A) (x : A) i :
  enumerate_from i (l ++ [x]) = enumerate_from i l ++ [(i + List.length l, x)].
Proof.
  revert i; induction l as [|a l IH]; intros i; cbn.
  - rewrite Nat.add_0_r. reflexivity.
  - rewrite IH. replace (S i + List.length l) with (i + S (List.length l)) by lia. reflexivity.
Qed.

(* the statement-level step, by hand: what _add_hash does *)
Definition add_hash_spec (T : htable) (h : pystr) (x : value) (i : nat) : htable :=
  if ht_has T h then ht_append_index T h i else ht_set T h (IndexedHash [i] x).

(* the table in the hand model's terms *)
Definition entry_of (hs : list pystr) (xs : list value) (k : pystr) : indexed_hash :=
  IndexedHash (indexes_of k hs 0) (nth (first_of (indexes_of k hs 0)) xs (VAtom ANone)).
Definition table_spec (hv : value -> pystr) (xs : list value) (T : htable) : Prop :=
  ht_keys T = dedup (map hv xs) /\
  forall k, ht_find T k = if mem_h k (map hv xs) then Some (entry_of (map hv xs) xs k) else None.

Lemma ht_find_set T h e k :
  ht_find (ht_set T h e) k = if pystr_eqb k h then Some e else ht_find T k.
Proof.
  induction T as [|[h' e'] r IH]; cbn.
  - destruct (pystr_eqb k h); reflexivity.
  - destruct (pystr_eqb_spec h h') as [->|N]; cbn.
    + destruct (pystr_eqb k h'); reflexivity.
    + rewrite IH. destruct (pystr_eqb_spec k h') as [->|N']; [|reflexivity].
      destruct (pystr_eqb_spec h' h) as [E|_]; [congruence|reflexivity].
Qed.

Lemma ht_find_append T h i k :
  ht_find (ht_append_index T h i) k =
  if pystr_eqb k h then match ht_find T h with Some e => Some (IndexedHash (ih_indexes e ++ [i]) (ih_item e)) | None => None end
  else ht_find T k.
Proof.
  induction T as [|[h' e'] r IH]; cbn.
  - destruct (pystr_eqb k h); reflexivity.
  - destruct (pystr_eqb_spec h h') as [->|N]; cbn.
    + destruct (pystr_eqb k h'); reflexivity.
    + rewrite IH. destruct (pystr_eqb_spec k h') as [->|N'].
      * destruct (pystr_eqb_spec h' h) as [E|_]; [congruence|reflexivity].
      * reflexivity.
Qed.

Lemma ht_keys_set T h e : ht_keys (ht_set T h e) = if ht_has T h then ht_keys T else (ht_keys T ++ [h])%list.
Proof.
  unfold ht_has, ht_keys. induction T as [|[h' e'] r IH]; cbn; [reflexivity|].
  destruct (pystr_eqb h h'); cbn; [reflexivity|]. rewrite IH. destruct (ht_find r h); reflexivity.
Qed.

Lemma ht_keys_append T h i : ht_keys (ht_append_index T h i) = ht_keys T.
Proof.
  unfold ht_keys. induction T as [|[h' e'] r IH]; cbn; [reflexivity|].
  destruct (pystr_eqb h h'); cbn; [reflexivity|]. rewrite IH. reflexivity.
Qed.

Lemma mem_h_app h a b : mem_h h (a ++ b) = mem_h h a || mem_h h b.
Proof. unfold mem_h. apply existsb_app. Qed.

Lemma dedup_snoc l x : dedup (l ++ [x]) = if mem_h x l then dedup l else (dedup l ++ [x])%list.
Proof.
  induction l as [|a l IH]; cbn [app dedup]; [reflexivity|].
  rewrite IH. unfold mem_h at 2. cbn [existsb]. fold (mem_h x l).
  destruct (mem_h x l) eqn:M.
  - rewrite orb_true_r. reflexivity.
  - rewrite orb_false_r. rewrite filter_app. cbn [filter].
    destruct (pystr_eqb_spec x a) as [->|N].
    + rewrite pystr_eqb_refl. cbn. rewrite app_nil_r. reflexivity.
    + destruct (pystr_eqb_spec a x) as [E|_]; [congruence|]. reflexivity.
Qed.

Lemma indexes_of_snoc k hs h o :
  indexes_of k (hs ++ [h]) o = (indexes_of k hs o ++ (if pystr_eqb k h then [o + List.length hs] else []))%list.
Proof.
  revert o; induction hs as [|a hs IH]; intros o; cbn [app indexes_of List.length].
  - rewrite Nat.add_0_r, app_nil_r. reflexivity.
  - rewrite IH, app_assoc. do 2 f_equal. destruct (pystr_eqb k h); [|reflexivity]. f_equal. lia.
Qed.

Lemma indexes_of_bounds k hs o i : In i (indexes_of k hs o) -> o <= i < o + List.length hs.
Proof.
  revert o; induction hs as [|a hs IH]; intros o; cbn [indexes_of List.length]; [intros []|].
  intros HI. apply in_app_or in HI as [HI|HI].
  - destruct (pystr_eqb k a); [|destruct HI]. destruct HI as [<-|[]]. lia.
  - apply IH in HI. lia.
Qed.

Lemma indexes_of_mem k hs o : mem_h k hs = true -> indexes_of k hs o <> [].
Proof.
  revert o; induction hs as [|a hs IH]; intros o; cbn; [discriminate|].
  destruct (pystr_eqb k a); cbn; [discriminate|]. apply IH.
Qed.

Lemma indexes_of_not_mem k hs o : mem_h k hs = false -> indexes_of k hs o = [].
Proof.
  revert o; induction hs as [|a hs IH]; intros o; cbn; [reflexivity|].
  destruct (pystr_eqb k a); cbn; [discriminate|]. apply IH.
Qed.

(* the entry of a hash already present is unchanged by a new item, except for the appended index *)
Lemma entry_of_snoc_old hs xs h x k :
  List.length hs = List.length xs -> mem_h k hs = true ->
  entry_of (hs ++ [h]) (xs ++ [x]) k =
  IndexedHash (ih_indexes (entry_of hs xs k) ++ (if pystr_eqb k h then [List.length xs] else [])) (ih_item (entry_of hs xs k)).
Proof.
  intros L M. unfold entry_of. cbn [ih_indexes ih_item]. rewrite indexes_of_snoc. cbn [plus]. rewrite L. f_equal.
  pose proof (indexes_of_mem k hs 0 M) as NE.
  destruct (indexes_of k hs 0) as [|i r] eqn:E; [congruence|]. cbn [app first_of hd].
  assert (B : 0 <= i < 0 + List.length hs) by (apply (indexes_of_bounds k hs 0); rewrite E; left; reflexivity).
  apply app_nth1. lia.
Qed.

Lemma entry_of_snoc_new hs xs h x :
  List.length hs = List.length xs -> mem_h h hs = false ->
  entry_of (hs ++ [h]) (xs ++ [x]) h = IndexedHash [List.length xs] x.
Proof.
  intros L M. unfold entry_of. rewrite indexes_of_snoc, (indexes_of_not_mem _ _ _ M), pystr_eqb_refl. cbn [app plus first_of hd].
  rewrite L. f_equal. rewrite app_nth2 by lia. rewrite Nat.sub_diag. reflexivity.
Qed.

Lemma table_spec_nil hv : table_spec hv [] [].
Proof. split; [reflexivity|]. intros k. reflexivity. Qed.

Lemma table_spec_snoc hv xs x T :
  table_spec hv xs T -> table_spec hv (xs ++ [x]) (add_hash_spec T (hv x) x (List.length xs)).
Proof.
  intros [K Fd]. unfold table_spec. rewrite map_app. cbn [map]. set (hs := map hv xs) in *. set (h := hv x).
  assert (L : List.length hs = List.length xs) by (unfold hs; apply map_length).
  assert (HM : ht_has T h = mem_h h hs).
  { unfold ht_has. rewrite Fd. destruct (mem_h h hs); reflexivity. }
  unfold add_hash_spec. rewrite HM. split.
  - rewrite dedup_snoc. destruct (mem_h h hs) eqn:M.
    + rewrite ht_keys_append. exact K.
    + rewrite ht_keys_set, HM, K. reflexivity.
  - intros k. rewrite mem_h_app. change (mem_h k [h]) with (pystr_eqb k h || false). rewrite orb_false_r.
    destruct (mem_h h hs) eqn:M.
    + rewrite ht_find_append, (Fd h), M.
      destruct (pystr_eqb_spec k h) as [->|N].
      * rewrite M. cbn [orb]. rewrite (entry_of_snoc_old hs xs h x h L M), pystr_eqb_refl. reflexivity.
      * rewrite orb_false_r, Fd. destruct (mem_h k hs) eqn:Mk; [|reflexivity].
        rewrite (entry_of_snoc_old hs xs h x k L Mk). destruct (pystr_eqb_spec k h) as [E|_]; [congruence|].
        rewrite app_nil_r. destruct (entry_of hs xs k); reflexivity.
    + rewrite ht_find_set. destruct (pystr_eqb_spec k h) as [->|N].
      * rewrite orb_true_r. rewrite (entry_of_snoc_new hs xs h x L M). reflexivity.
      * rewrite orb_false_r, Fd. destruct (mem_h k hs) eqn:Mk; [|reflexivity].
        rewrite (entry_of_snoc_old hs xs h x k L Mk). destruct (pystr_eqb_spec k h) as [E|_]; [congruence|].
        rewrite app_nil_r. destruct (entry_of hs xs k); reflexivity.
Qed.

(* the statement-level loop with a hasher that always succeeds builds the table of the hand model *)
Definition create_loop (hv : value -> pystr) (xs : list value) : option htable :=
  for_loop (enumerate xs) ([] : htable) (fun T ix => Some (add_hash_spec T (hv (snd ix)) (snd ix) (fst ix))).

(* one round of the loop of _create_hashtable, by hand: the case analysis of the try / except / else structure on the
   outcome of DeepHash(item, ...)[item] *)
Definition create_step_spec (dh : value -> hres) (T : htable) (ix : nat * value) : option htable :=
  match dh (snd ix) with
  | HOk h => Some (add_hash_spec T h (snd ix) (fst ix))
  | HUnprocessed => Some T                                      (* logged, not counted *)
  | HItemExc e => if String.eqb e "KeyError" then Some T else None   (* except KeyError: pass *)
  | HCallExc _ => None                                          (* UnicodeDecodeError / NotImplementedError re-raised, others propagate *)
  end.

Lemma create_step_spec_ok hv xs :
  for_loop (enumerate xs) ([] : htable) (create_step_spec (fun v => HOk (hv v))) = create_loop hv xs.
Proof. unfold create_loop. apply for_loop_ext. intros s [i x]. reflexivity. Qed.

Lemma create_loop_spec hv xs : exists T, create_loop hv xs = Some T /\ table_spec hv xs T.
Proof.
  unfold create_loop, enumerate. induction xs as [|x xs IH] using rev_ind.
  - exists []. split; [reflexivity|apply table_spec_nil].
  - destruct IH as [T [E S]]. rewrite enumerate_from_snoc, for_loop_snoc, E. cbn [fst snd plus].
    eexists. split; [reflexivity|]. apply table_spec_snoc. exact S.
Qed.

(* restriction to a set of hashes keeps exactly the entries of those hashes *)
Lemma ht_keys_restrict T s : ht_keys (ht_restrict T s) = filter (fun h => mem_h h s) (ht_keys T).
Proof.
  unfold ht_keys, ht_restrict. induction T as [|[h e] r IH]; cbn; [reflexivity|].
  destruct (mem_h h s); cbn; rewrite IH; reflexivity.
Qed.

Lemma ht_find_restrict T s k : ht_find (ht_restrict T s) k = if mem_h k s then ht_find T k else None.
Proof.
  unfold ht_restrict. induction T as [|[h e] r IH]; cbn.
  - destruct (mem_h k s); reflexivity.
  - destruct (mem_h h s) eqn:M; cbn.
    + destruct (pystr_eqb_spec k h) as [->|N]; [rewrite M; reflexivity|exact IH].
    + rewrite IH. destruct (pystr_eqb_spec k h) as [->|N]; [rewrite M; reflexivity|reflexivity].
Qed.

Lemma filter_mem_so_sub a b : filter (fun h => mem_h h (so_sub a b)) a = so_sub a b.
Proof.
  unfold so_sub. apply filter_ext_in_iff. intros h Hin.
  destruct (mem_h h b) eqn:M; cbn.
  - apply mem_h_false. intros HI. apply filter_In in HI as [_ HI]. rewrite M in HI. discriminate.
  - apply mem_h_In. apply filter_In. split; [exact Hin|]. rewrite M. reflexivity.
Qed.

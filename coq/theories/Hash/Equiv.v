(** The equivalences DeepHash is supposed to decide, written independently of
    the hash model: nested-set equality (ignore_repetition, ignore_iterable_order
    both True: the default), nested-multiset equality (ignore_repetition=False),
    ordered equality (ignore_iterable_order=False).

    A value is a tree whose dicts / sets are given by their insertion /
    iteration order, so "the same dict" = a permutation of the items and "the
    same set" = a permutation of the members.  Scalars are equivalent only to
    themselves (type and value: 1, 1.0 and True are three different values).
    Dict keys DeepHash is documented to ignore (ignore_private_variables: str
    keys starting with "__") are ignored here as well.

    Definitions only. *)
From Coq Require Import List Bool Permutation.
Import ListNotations.
From DD Require Import Base.PyStr Base.Value Hash.HashModel.

Section Eqv.
Variable o : hopts.

(* items of a list / tuple, for a relation R on the items *)
Inductive seq_rel (R : value -> value -> Prop) : list value -> list value -> Prop :=
| seq_as_set xs ys :
    ignore_repetition o = true -> ignore_iterable_order o = true ->
    (forall x, In x xs -> exists y, In y ys /\ R x y) ->
    (forall y, In y ys -> exists x, In x xs /\ R x y) ->
    seq_rel R xs ys
| seq_as_multiset xs ys ys' :
    ignore_repetition o = false -> ignore_iterable_order o = true ->
    Permutation ys ys' -> Forall2 R xs ys' ->
    seq_rel R xs ys
| seq_ordered xs ys :
    ignore_iterable_order o = false ->
    Forall2 R xs ys ->
    seq_rel R xs ys.

(* items of a dict: the same keys with related values, in any order *)
Inductive items_rel (R : value -> value -> Prop) : list (atom * value) -> list (atom * value) -> Prop :=
| items_perm l1 l2 l2' :
    Permutation l2 l2' ->
    Forall2 (fun p q => fst p = fst q /\ R (snd p) (snd q)) l1 l2' ->
    items_rel R l1 l2.

Inductive eqv : value -> value -> Prop :=
| eqv_atom a : eqv (VAtom a) (VAtom a)
| eqv_list xs ys : seq_rel eqv xs ys -> eqv (VList xs) (VList ys)
| eqv_tuple xs ys : seq_rel eqv xs ys -> eqv (VTuple xs) (VTuple ys)
| eqv_dict kvs kvs' : items_rel eqv (vis o kvs) (vis o kvs') -> eqv (VDict kvs) (VDict kvs')
| eqv_set xs ys : Permutation xs ys -> eqv (VSet xs) (VSet ys)
| eqv_frozen xs ys : Permutation xs ys -> eqv (VFrozen xs) (VFrozen ys).

End Eqv.

(* the three modes of the property *)
Definition std_mode (o : hopts) : bool :=
  ignore_iterable_order o || negb (ignore_repetition o).

(** Model of deepdiff/deephash.py (DeepHash) over the shared universe
    Base/Value.v.  Definitions only.

    [hash_pure H o v]  the string DeepHash(v, hasher=H, **o)[v] returns when the
                       memo table plays no role (no [py_eq]-aliasing inside v);
    [hash_memo H o v m] the exact computation of [_hash], threading the
                       [hashes] table [m] (lookup first, insertion afterwards);
    [ser]              the string handed to the hasher (deephash.py:604-611).

    The hasher [H] is a parameter (SHA-256 in production; hex-of-utf8,
    [hexhash] below, in the correspondence check).

    Followed code (deephash.py): _hash (dispatch order: bool -> BoolObj, memo
    lookup, None, str/bytes, numbers, dict, tuple, other iterables), _prep_dict
    (private keys skipped before the key is hashed, "kh:vh" items, sort, ';'),
    _prep_iterable (defaultdict(int) keyed by item hash = first-occurrence
    order; keys only when ignore_repetition else 'h|count'; sorted only when
    ignore_iterable_order; ','), _prep_number (type name or "number",
    number_to_string only when significant_digits is not None, default 12 with
    ignore_numeric_type_changes), prepare_string_for_hashing (type prefix
    unless ignore_string_type_changes, .lower() if ignore_string_case), the
    final step that re-tags every non-string serialisation as a 'str'. *)
From Coq Require Import List ZArith NArith Bool String Decimal.
Import ListNotations.
From DD Require Import Base.Sx Base.PyStr Base.Value.

(* ------------------------------------------------------------------ *)
(** * Options *)

Record hopts := mk_hopts {
  ignore_repetition : bool;            (* default True *)
  ignore_iterable_order : bool;        (* default True *)
  ignore_private : bool;               (* ignore_private_variables, default True *)
  ignore_string_case : bool;           (* default False *)
  ignore_string_type_changes : bool;   (* default False *)
  ignore_numeric_type_changes : bool;  (* default False *)
  significant_digits : option nat      (* default None *)
}.

Definition default_opts : hopts := mk_hopts true true true false false false None.
(* the three modes of C06/C07 (all other options at their defaults) *)
Definition mode_opts (ir io : bool) : hopts := mk_hopts ir io true false false false None.
Definition set_mode : hopts := mode_opts true true.
Definition multiset_mode : hopts := mode_opts false true.
Definition ordered_mode : hopts := mode_opts false false.

(* options other than the mode and ignore_private are at their defaults *)
Definition plain (o : hopts) : bool :=
  negb (ignore_string_case o) && negb (ignore_string_type_changes o) &&
  negb (ignore_numeric_type_changes o) &&
  match significant_digits o with None => true | Some _ => false end.

(* ------------------------------------------------------------------ *)
(** * Decimal printing (through the standard library's [Decimal], whose
      round-trip lemmas give injectivity) *)

Fixpoint uint_str (u : Decimal.uint) : pystr :=
  match u with
  | Nil => []
  | D0 r => 48%N :: uint_str r | D1 r => 49%N :: uint_str r
  | D2 r => 50%N :: uint_str r | D3 r => 51%N :: uint_str r
  | D4 r => 52%N :: uint_str r | D5 r => 53%N :: uint_str r
  | D6 r => 54%N :: uint_str r | D7 r => 55%N :: uint_str r
  | D8 r => 56%N :: uint_str r | D9 r => 57%N :: uint_str r
  end.
Definition dec_nat (n : nat) : pystr := uint_str (Nat.to_uint n).
Definition dec_N (n : N) : pystr := uint_str (N.to_uint n).
Definition dec_Z (z : Z) : pystr :=
  match Z.to_int z with
  | Decimal.Pos u => uint_str u
  | Decimal.Neg u => 45%N :: uint_str u
  end.

(* repr of the float t/2 (|t/2| < 1e16): "-0.5", "2.0", "1.5" *)
Definition half_repr (t : Z) : pystr :=
  (if Z.ltb t 0 then [45%N] else []) ++ dec_N (Z.to_N (Z.div (Z.abs t) 2)) ++
  (if Z.odd t then s2p ".5" else s2p ".0").

(* "{:.nf}".format(round(x, n)) for x = t/2; n = 0 additionally goes through
   int(), and round() is round-half-even *)
Definition round_half_even (t : Z) : Z :=
  if Z.even t then Z.div t 2
  else let lo := Z.div (t - 1) 2 in if Z.even lo then lo else (lo + 1)%Z.
Definition zeros (n : nat) : pystr := repeat 48%N n.
Definition fmt_half (n : nat) (t : Z) : pystr :=
  match n with
  | O => dec_Z (round_half_even t)
  | S n' => (if Z.ltb t 0 then [45%N] else []) ++ dec_N (Z.to_N (Z.div (Z.abs t) 2)) ++
            [46%N] ++ (if Z.odd t then [53%N] else [48%N]) ++ zeros n'
  end.
Definition fmt_int (n : nat) (z : Z) : pystr :=
  match n with
  | O => dec_Z z
  | S _ => dec_Z z ++ [46%N] ++ zeros n
  end.

(* ------------------------------------------------------------------ *)
(** * Sorting, de-duplication, counting of hash strings *)

Fixpoint insert (x : pystr) (l : list pystr) : list pystr :=
  match l with
  | [] => [x]
  | y :: r => if pystr_leb x y then x :: l else y :: insert x r
  end.
Fixpoint isort (l : list pystr) : list pystr :=
  match l with
  | [] => []
  | x :: r => insert x (isort r)
  end.

(* keys of the defaultdict: first-occurrence order *)
Fixpoint dedup (l : list pystr) : list pystr :=
  match l with
  | [] => []
  | x :: r => x :: filter (fun y => negb (pystr_eqb x y)) (dedup r)
  end.
Definition count (x : pystr) (l : list pystr) : nat :=
  List.length (filter (pystr_eqb x) l).
Definition counts (l : list pystr) : list (pystr * nat) :=
  map (fun h => (h, count h l)) (dedup l).
(* '{}|{}'.format(hash, count) *)
Definition fmt_count (hc : pystr * nat) : pystr := fst hc ++ [124%N] ++ dec_nat (snd hc).

Definition c_comma : pystr := [44%N].
Definition c_semi : pystr := [59%N].
Definition c_colon : pystr := [58%N].

(* _prep_iterable after the item hashes are known *)
Definition arrange (o : hopts) (hs : list pystr) : list pystr :=
  let t := if ignore_repetition o then dedup hs else map fmt_count (counts hs) in
  if ignore_iterable_order o then isort t else t.

(* ------------------------------------------------------------------ *)
(** * Strings handed to the hasher *)

(* prepare_string_for_hashing(obj) for obj of type [tyname] with text [s] *)
Definition prep_string (o : hopts) (tyname s : pystr) : pystr :=
  let s1 := if ignore_string_type_changes o then s else tyname ++ c_colon ++ s in
  if ignore_string_case o then lower s1 else s1.
(* the final step for non-string results: re-tagged as a 'str' *)
Definition retag (o : hopts) (result : pystr) : pystr := prep_string o (s2p "str") result.

Definition eff_digits (o : hopts) : option nat :=
  match significant_digits o with
  | Some n => Some n
  | None => if ignore_numeric_type_changes o then Some 12%nat else None
  end.
Definition num_type (o : hopts) (name : pystr) : pystr :=
  if ignore_numeric_type_changes o then s2p "number" else name.

(* the result of the type dispatch in _hash for a scalar, before the final step *)
Definition atom_result (o : hopts) (a : atom) : pystr :=
  match a with
  | ANone => s2p "NONE"
  | ABool b => if b then s2p "bool:true" else s2p "bool:false"
  | AInt z => num_type o (s2p "int") ++ c_colon ++
              match eff_digits o with None => dec_Z z | Some n => fmt_int n z end
  | AHalf t => num_type o (s2p "float") ++ c_colon ++
               match eff_digits o with None => half_repr t | Some n => fmt_half n t end
  | AStr s => s
  | ABytes s => s          (* utf-8 decoding: identity on ASCII bytes (the modelled range) *)
  end.
(* the string handed to the hasher for a scalar *)
Definition ser_atom (o : hopts) (a : atom) : pystr :=
  match a with
  | AStr s => prep_string o (s2p "str") s
  | ABytes s => prep_string o (s2p "bytes") s
  | _ => retag o (atom_result o a)
  end.

Definition is_private (k : atom) : bool :=
  match k with AStr s => is_prefix (s2p "__") s | _ => false end.
Definition hidden (o : hopts) (k : atom) : bool := ignore_private o && is_private k.
(* the dict items DeepHash looks at *)
Definition vis {B} (o : hopts) (kvs : list (atom * B)) : list (atom * B) :=
  filter (fun kv => negb (hidden o (fst kv))) kvs.

Definition seq_result (name : pystr) (toks : list pystr) : pystr :=
  name ++ c_colon ++ join c_comma toks.
Definition dict_result (items : list pystr) : pystr :=
  s2p "dict:{" ++ join c_semi (isort items) ++ [125%N].
Definition dict_item (kh vh : pystr) : pystr := kh ++ c_colon ++ vh.

Section Hash.
Variable H : pystr -> pystr.

Definition hash_atom (o : hopts) (a : atom) : pystr := H (ser_atom o a).

(** ** The memo-free hash *)
Fixpoint hash_pure (o : hopts) (v : value) {struct v} : pystr :=
  match v with
  | VAtom a => hash_atom o a
  | VList xs => H (retag o (seq_result (s2p "list") (arrange o (map (hash_pure o) xs))))
  | VTuple xs => H (retag o (seq_result (s2p "tuple") (arrange o (map (hash_pure o) xs))))
  | VDict kvs =>
      H (retag o (dict_result
         ((fix go (kvs : list (atom * value)) : list pystr :=
             match kvs with
             | [] => []
             | (k, x) :: r =>
                 if hidden o k then go r
                 else dict_item (hash_atom o k) (hash_pure o x) :: go r
             end) kvs)))
  | VSet xs => H (retag o (seq_result (s2p "set") (arrange o (map (hash_atom o) xs))))
  | VFrozen xs => H (retag o (seq_result (s2p "frozenset") (arrange o (map (hash_atom o) xs))))
  end.

(* the string handed to the hasher at the root (hash_pure = H o ser) *)
Definition ser (o : hopts) (v : value) : pystr :=
  match v with
  | VAtom a => ser_atom o a
  | VList xs => retag o (seq_result (s2p "list") (arrange o (map (hash_pure o) xs)))
  | VTuple xs => retag o (seq_result (s2p "tuple") (arrange o (map (hash_pure o) xs)))
  | VDict kvs =>
      retag o (dict_result (map (fun kv => dict_item (hash_atom o (fst kv)) (hash_pure o (snd kv)))
                                (vis o kvs)))
  | VSet xs => retag o (seq_result (s2p "set") (arrange o (map (hash_atom o) xs)))
  | VFrozen xs => retag o (seq_result (s2p "frozenset") (arrange o (map (hash_atom o) xs)))
  end.

(** ** The [hashes] table *)

(* keys: hashable objects are keyed by themselves (Python ==, bools replaced
   by BoolObj members), unhashable ones by id(): never found again on
   tree-shaped input *)
Inductive mkey := MK (v : value) | MI (v : value).
Definition memo := list (mkey * pystr).

Fixpoint hashable (v : value) : bool :=
  match v with
  | VAtom _ => true
  | VTuple xs => forallb hashable xs
  | VFrozen _ => true
  | VList _ | VDict _ | VSet _ => false
  end.

(* equality of table keys: == except that a bool at top level is a BoolObj
   (equal only to the same BoolObj); inside a tuple True == 1 == 1.0 *)
Definition key_eq (a b : value) : bool :=
  match a, b with
  | VAtom (ABool x), VAtom (ABool y) => Bool.eqb x y
  | VAtom (ABool _), _ => false
  | _, VAtom (ABool _) => false
  | _, _ => py_eqv a b
  end.

Fixpoint mlookup (v : value) (m : memo) : option pystr :=
  match m with
  | [] => None
  | (MK k, h) :: r => if key_eq k v then Some h else mlookup v r
  | (MI _, _) :: r => mlookup v r
  end.
Definition mfind (v : value) (m : memo) : option pystr :=
  if hashable v then mlookup v m else None.
Definition mkey_of (v : value) : mkey := if hashable v then MK v else MI v.
Definition minsert (v : value) (h : pystr) (m : memo) : memo := m ++ [(mkey_of v, h)].

Definition hash_atom_memo (o : hopts) (a : atom) (m : memo) : pystr * memo :=
  match mlookup (VAtom a) m with
  | Some h => (h, m)
  | None => let h := hash_atom o a in (h, minsert (VAtom a) h m)
  end.

Fixpoint atoms_memo (o : hopts) (xs : list atom) (m : memo) : list pystr * memo :=
  match xs with
  | [] => ([], m)
  | a :: r => let '(h, m1) := hash_atom_memo o a m in
              let '(hs, m2) := atoms_memo o r m1 in (h :: hs, m2)
  end.

Fixpoint hash_memo (o : hopts) (v : value) (m : memo) {struct v} : pystr * memo :=
  match mfind v m with
  | Some h => (h, m)
  | None =>
      let items :=
        fix go (xs : list value) (m : memo) : list pystr * memo :=
          match xs with
          | [] => ([], m)
          | x :: r => let '(h, m1) := hash_memo o x m in
                      let '(hs, m2) := go r m1 in (h :: hs, m2)
          end in
      let '(h, m') :=
        match v with
        | VAtom a => (hash_atom o a, m)
        | VList xs => let '(hs, m1) := items xs m in
                      (H (retag o (seq_result (s2p "list") (arrange o hs))), m1)
        | VTuple xs => let '(hs, m1) := items xs m in
                       (H (retag o (seq_result (s2p "tuple") (arrange o hs))), m1)
        | VDict kvs =>
            let '(its, m1) :=
              (fix go (kvs : list (atom * value)) (m : memo) : list pystr * memo :=
                 match kvs with
                 | [] => ([], m)
                 | (k, x) :: r =>
                     if hidden o k then go r m
                     else let '(kh, m1) := hash_atom_memo o k m in
                          let '(vh, m2) := hash_memo o x m1 in
                          let '(its, m3) := go r m2 in
                          (dict_item kh vh :: its, m3)
                 end) kvs m in
            (H (retag o (dict_result its)), m1)
        | VSet xs => let '(hs, m1) := atoms_memo o xs m in
                     (H (retag o (seq_result (s2p "set") (arrange o hs))), m1)
        | VFrozen xs => let '(hs, m1) := atoms_memo o xs m in
                        (H (retag o (seq_result (s2p "frozenset") (arrange o hs))), m1)
        end in
      (h, minsert v h m')
  end.

(* DeepHash(v, **o)[v] on a fresh table, and with a given table *)
Definition deephash (o : hopts) (v : value) : pystr := fst (hash_memo o v []).
Definition deephash_with (o : hopts) (m : memo) (v : value) : pystr := fst (hash_memo o v m).

End Hash.

(* ------------------------------------------------------------------ *)
(** * The hasher of the correspondence check: hex of the UTF-8 encoding *)

Definition hexdigit (n : N) : N := if N.ltb n 10 then (48 + n)%N else (87 + n)%N.
Definition hexbyte (b : N) : pystr := [hexdigit (N.div b 16); hexdigit (N.modulo b 16)].
Definition utf8 (c : N) : list N :=
  if N.ltb c 128 then [c]
  else if N.ltb c 2048 then [(192 + N.div c 64)%N; (128 + N.modulo c 64)%N]
  else if N.ltb c 65536 then
    [(224 + N.div c 4096)%N; (128 + N.modulo (N.div c 64) 64)%N; (128 + N.modulo c 64)%N]
  else [(240 + N.div c 262144)%N; (128 + N.modulo (N.div c 4096) 64)%N;
        (128 + N.modulo (N.div c 64) 64)%N; (128 + N.modulo c 64)%N].
Definition hexhash (s : pystr) : pystr := flat_map (fun c => flat_map hexbyte (utf8 c)) s.

(* ------------------------------------------------------------------ *)
(** * Guards *)

(* all atoms of a value: dict keys, set members, leaves *)
Fixpoint atoms_of (v : value) : list atom :=
  match v with
  | VAtom a => [a]
  | VList xs | VTuple xs => flat_map atoms_of xs
  | VDict kvs => flat_map (fun kv => fst kv :: atoms_of (snd kv)) kvs
  | VSet xs | VFrozen xs => xs
  end.

(* K1 guard: no str equal to NONE or containing ':' (so that no str spells the
   serialisation of a non-string) *)
Definition tag_safe_atom (a : atom) : bool :=
  match a with
  | AStr s => negb (pystr_eqb s (s2p "NONE")) && negb (has_char 58%N s)
  | _ => true
  end.
Definition tag_safe (v : value) : bool := forallb tag_safe_atom (atoms_of v).

(* K2 guard: no two atoms that are == in Python but not identical *)
Definition no_alias (l : list atom) : bool :=
  forallb (fun a => forallb (fun b => implb (py_eq a b) (atom_eqb a b)) l) l.
Definition alias_free (v : value) : bool := no_alias (atoms_of v).
Definition matoms (m : list (mkey * pystr)) : list atom :=
  flat_map (fun e => match fst e with MK k => atoms_of k | MI k => atoms_of k end) m.
Definition alias_free_with (m : list (mkey * pystr)) (v : value) : bool :=
  no_alias (matoms m ++ atoms_of v).

(* K3 guard (ordered modes): sets and frozensets with at most one member *)
Fixpoint small_sets (v : value) : bool :=
  match v with
  | VAtom _ => true
  | VList xs | VTuple xs => forallb small_sets xs
  | VDict kvs => forallb (fun kv => small_sets (snd kv)) kvs
  | VSet xs | VFrozen xs => Nat.leb (List.length xs) 1
  end.

(* modelled range of scalars: floats whose repr is positional, ASCII bytes *)
Definition atom_in_range (a : atom) : bool :=
  match a with
  | AHalf t => Z.ltb (Z.abs t) 20000000000000000
  | ABytes s => forallb (fun c => N.ltb c 128) s
  | _ => true
  end.
Definition in_range (v : value) : bool := forallb atom_in_range (atoms_of v).

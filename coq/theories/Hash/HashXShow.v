(** Correspondence-side renderings for the extended model (no theorem depends on this file). *)
From Coq Require Import List ZArith NArith Bool String.
Import ListNotations.
From DD Require Import Base.Sx Base.PyStr Base.Value Hash.HashModel.
From DD Require Import Hash.HashXModel.
Local Open Scope string_scope.
Local Open Scope list_scope.

Definition sx_entry (e : pystr * nat) : sx := SL [sx_str (fst e); sx_nat (snd e)].
Definition sx_res (r : option (pystr * nat)) : sx :=
  match r with None => SA "None" | Some e => sx_entry e end.

Section Entries.
Variable H : pystr -> pystr.
Variable skip : xpath -> xvalue -> bool.
Variable xo : xopts.

Fixpoint member_entries (p : xpath) (i : nat) (xs : list xatom) : list (pystr * nat) :=
  match xs with
  | [] => []
  | a :: r => (if skip (p ++ [KIdx i]) (XAtom a) || skip (p ++ [KIdx i]) (hview (XAtom a)) then []
               else [(xatom_hash H xo a, 1%nat)]) ++ member_entries p (S i) r
  end.

(* every (hash, count) pair that _hash stores while hashing v at path p *)
Fixpoint xentries (p : xpath) (v : xvalue) {struct v} : list (pystr * nat) :=
  match xhash H skip xo p v with
  | None => []
  | Some e =>
      e ::
      match v with
      | XAtom _ => []
      | XList xs | XTuple xs =>
          (fix go (i : nat) (l : list xvalue) : list (pystr * nat) :=
             match l with
             | [] => []
             | x :: r => (if skip (p ++ [KIdx i]) x then [] else xentries (p ++ [KIdx i]) x) ++ go (S i) r
             end) O xs
      | XSet xs | XFrozen xs => member_entries p O xs
      | XDict kvs =>
          (fix go (l : list (xatom * xvalue)) : list (pystr * nat) :=
             match l with
             | [] => []
             | (k, x) :: r =>
                 (if ignore_private (xbase xo) && xis_private k then []
                  else match xkey_hash H skip xo (p ++ [KKey k]) k with
                       | None => []
                       | Some kh => (kh, 1%nat) :: (if is_empty kh || skip (p ++ [KKey k]) x then [] else xentries (p ++ [KKey k]) x)
                       end) ++ go r
             end) kvs
      | XObj _ _ fs =>
          (fix go (l : list (pystr * xvalue)) : list (pystr * nat) :=
             match l with
             | [] => []
             | (name, x) :: r =>
                 (if ignore_private (xbase xo) && is_prefix (s2p "__") name then []
                  else match xkey_hash H skip xo (p ++ [KAttr name]) (XA (AStr name)) with
                       | None => []
                       | Some kh => (kh, 1%nat) :: (if is_empty kh || skip (p ++ [KAttr name]) x then [] else xentries (p ++ [KAttr name]) x)
                       end) ++ go r
             end) fs
      end
  end.
End Entries.

Fixpoint dedup_entries (l : list (pystr * nat)) : list (pystr * nat) :=
  match l with
  | [] => []
  | e :: r => e :: filter (fun e' => negb (pystr_eqb (fst e) (fst e') && Nat.eqb (snd e) (snd e'))) (dedup_entries r)
  end.

(* DeepHash(v, hasher=hex, ...): [root (hash, count) or None; the set of table values] *)
Definition run_x (xo : xopts) (c : skip_cfg) (v : xvalue) : sx :=
  SL [sx_res (xhash hexhash (skip_this c) xo [] v);
      SL (sx_sort (map sx_entry (dedup_entries (xentries hexhash (skip_this c) xo [] v))))].
Definition run_x_root (xo : xopts) (c : skip_cfg) (v : xvalue) : sx :=
  sx_res (xhash hexhash (skip_this c) xo [] v).
Definition cfg0 : skip_cfg := mk_skip [] [] [] [].

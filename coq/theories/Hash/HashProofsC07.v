(** C07: different content hashes differently.  For a hasher that is injective
    and whose outputs are non-empty and separator-free (Section hypotheses
    standing for SHA-256), equal hashes imply equivalence under the mode, for
    tag-safe well-formed values. *)
From Coq Require Import List ZArith NArith Bool Lia Permutation Arith String.
Import ListNotations.
From DD Require Import Base.PyStr Base.Value Hash.HashModel Hash.Equiv Hash.HashProofsBase Hash.HashProofsC06.

(* ------------------------------------------------------------------ *)
(** * Generic list facts *)

Lemma map_eq_Forall2 : forall (A B C : Type) (f : A -> C) (g : B -> C) xs ys,
  map f xs = map g ys -> Forall2 (fun x y => f x = g y) xs ys.
Proof.
  intros A B C f g xs; induction xs as [|x xs IH]; intros [|y ys] He; cbn in He; try discriminate.
  - constructor.
  - inversion He. constructor; auto.
Qed.

Lemma Forall2_impl_in : forall (A B : Type) (R S : A -> B -> Prop) xs ys,
  Forall2 R xs ys -> (forall x y, In x xs -> In y ys -> R x y -> S x y) -> Forall2 S xs ys.
Proof.
  intros A B R S xs ys HF. induction HF as [|x y xs ys Hxy HF IH]; intros Hi; constructor.
  - apply Hi; auto; left; auto.
  - apply IH. intros; apply Hi; auto; right; auto.
Qed.

(* a map that is injective between the elements of two lists reflects permutations *)
Lemma perm_map_inj : forall (A B : Type) (f : A -> B) l1 l2,
  (forall x y, In x l1 -> In y l2 -> f x = f y -> x = y) ->
  Permutation (map f l1) (map f l2) -> Permutation l1 l2.
Proof.
  intros A B f l1 l2 Hinj Hp.
  apply Permutation_map_inv in Hp. destruct Hp as [l3 [He Hp3]].
  assert (l1 = l3).
  { apply map_eq_Forall2 in He.
    assert (HF : Forall2 eq l1 l3).
    { eapply Forall2_impl_in; [exact He|]. intros x y Hx Hy Hf. apply Hinj; auto.
      eapply Permutation_in; [apply Permutation_sym; exact Hp3|auto]. }
    clear - HF. induction HF; subst; auto. }
  subst. apply Permutation_sym; auto.
Qed.

Lemma filter_all_true : forall (A : Type) (p : A -> bool) l,
  (forall x, In x l -> p x = true) -> filter p l = l.
Proof.
  intros A p l; induction l as [|x l IH]; intro Hp; [reflexivity|]. cbn.
  rewrite (Hp x (or_introl eq_refl)). f_equal. apply IH. intros; apply Hp; right; auto.
Qed.

Lemma Forall_isort : forall (P : pystr -> Prop) l, Forall P l -> Forall P (isort l).
Proof. intros P l F. eapply Permutation_Forall; [apply isort_perm|auto]. Qed.

Lemma Forall_dedup : forall (P : pystr -> Prop) l, Forall P l -> Forall P (dedup l).
Proof.
  intros P l F. rewrite Forall_forall in *. intros x Hi. apply F. apply dedup_In; auto.
Qed.

(* ------------------------------------------------------------------ *)
(** * Tokens *)

Definition sepfree (t : pystr) : Prop :=
  t <> [] /\ free 44%N t /\ free 59%N t /\ free 58%N t /\ free 124%N t /\ free 123%N t /\ free 125%N t.

Lemma fmt_count_inj : forall h1 c1 h2 c2,
  free 124%N h1 -> free 124%N h2 -> fmt_count (h1, c1) = fmt_count (h2, c2) -> h1 = h2 /\ c1 = c2.
Proof.
  intros h1 c1 h2 c2 F1 F2 He. unfold fmt_count in He. cbn [fst snd app] in He.
  destruct (split_sep _ _ _ _ _ F1 F2 He) as [-> Hc]. split; auto. apply dec_nat_inj; auto.
Qed.

Lemma fmt_count_tok : forall h c, sepfree h -> fmt_count (h, c) <> [] /\ free 44%N (fmt_count (h, c)).
Proof.
  intros h c (Hne & F44 & _). unfold fmt_count. cbn [fst snd]. split.
  - destruct h; [congruence|discriminate].
  - rewrite !free_app. repeat split; auto.
    + intros [Hi|[]]. discriminate.
    + apply digits_free; [apply dec_nat_digits|]. unfold is_digit. lia.
Qed.

Lemma arrange_toks : forall o hs, Forall sepfree hs ->
  Forall (fun t => t <> [] /\ free 44%N t) (arrange o hs).
Proof.
  intros o hs F. unfold arrange.
  assert (F1 : Forall (fun t => t <> [] /\ free 44%N t)
                 (if ignore_repetition o then dedup hs else map fmt_count (counts hs))).
  { destruct (ignore_repetition o).
    - apply Forall_dedup. eapply Forall_impl; [|exact F]. intros t (A & B & _). auto.
    - rewrite Forall_forall. intros t Hi. apply in_map_iff in Hi. destruct Hi as [[h c] [<- Hi]].
      apply counts_In in Hi. destruct Hi as [Hi _]. rewrite Forall_forall in F.
      apply fmt_count_tok. auto. }
  destruct (ignore_iterable_order o); auto. apply Forall_isort; auto.
Qed.

(* what equal arrangements say about the token lists, per mode *)
Lemma arrange_set_inv : forall o l1 l2,
  ignore_repetition o = true -> ignore_iterable_order o = true ->
  arrange o l1 = arrange o l2 -> forall x, In x l1 <-> In x l2.
Proof.
  intros o l1 l2 Hir Hio He x. unfold arrange in He. rewrite Hir, Hio in He.
  apply isort_eq_perm in He.
  rewrite <- (dedup_In x l1), <- (dedup_In x l2).
  split; apply Permutation_in; auto using Permutation_sym.
Qed.

Lemma arrange_multiset_inv : forall o l1 l2,
  ignore_repetition o = false -> ignore_iterable_order o = true ->
  Forall sepfree l1 -> Forall sepfree l2 ->
  arrange o l1 = arrange o l2 -> Permutation l1 l2.
Proof.
  intros o l1 l2 Hir Hio F1 F2 He. unfold arrange in He. rewrite Hir, Hio in He.
  apply isort_eq_perm in He. apply counts_perm_inv.
  eapply perm_map_inj; [|exact He].
  intros [h1 c1] [h2 c2] Hi1 Hi2 Hf.
  apply counts_In in Hi1. apply counts_In in Hi2. rewrite Forall_forall in F1, F2.
  destruct (fmt_count_inj h1 c1 h2 c2) as [-> ->]; auto.
  - apply F1; tauto.
  - apply F2; tauto.
Qed.

(* ordered mode: the count table in first-occurrence order; it determines the
   sequence only when no item is repeated *)
Lemma counts_nodup : forall l, NoDup l -> counts l = map (fun h => (h, 1%nat)) l.
Proof.
  unfold counts. induction l as [|x l IH]; intro Hn; [reflexivity|].
  inversion Hn as [|? ? Hx Hn']; subst.
  assert (Hd : forall l, NoDup l -> dedup l = l).
  { clear. induction l as [|y l IH]; intro Hn; [reflexivity|]. inversion Hn as [|? ? Hy Hn']; subst.
    cbn [dedup]. rewrite (IH Hn'). f_equal.
    apply filter_all_true. intros z Hz.
    apply negb_true_iff, pystr_eqb_neq. intro; subst; auto. }
  rewrite (Hd _ Hn). cbn [map]. f_equal.
  - f_equal. rewrite count_cons, pystr_eqb_refl. f_equal.
    unfold count. clear - Hx. induction l as [|y l IH]; [reflexivity|]. cbn.
    destruct (pystr_eqb_spec x y); [subst; exfalso; apply Hx; left; auto|].
    apply IH. intro; apply Hx; right; auto.
  - specialize (IH Hn'). rewrite (Hd _ Hn') in IH. rewrite <- IH.
    apply map_ext_in. intros h Hh. f_equal. rewrite count_cons.
    destruct (pystr_eqb_spec h x); [subst; tauto|reflexivity].
Qed.

Lemma arrange_ordered_inv : forall o l1 l2,
  ignore_repetition o = false -> ignore_iterable_order o = false ->
  Forall sepfree l1 -> Forall sepfree l2 -> NoDup l1 -> NoDup l2 ->
  arrange o l1 = arrange o l2 -> l1 = l2.
Proof.
  intros o l1 l2 Hir Hio F1 F2 N1 N2 He. unfold arrange in He. rewrite Hir, Hio in He.
  rewrite (counts_nodup _ N1), (counts_nodup _ N2), !map_map in He.
  apply map_eq_Forall2 in He.
  assert (HF : Forall2 eq l1 l2).
  { eapply Forall2_impl_in; [exact He|]. cbn beta. intros x y Hx Hy Hf.
    rewrite Forall_forall in F1, F2.
    destruct (fmt_count_inj x 1 y 1) as [-> _]; auto.
    - apply F1; auto.
    - apply F2; auto. }
  clear - HF. induction HF; subst; auto.
Qed.

(* ------------------------------------------------------------------ *)
(** * Guards, decomposed *)

Lemma plain_inv : forall o, plain o = true ->
  exists ir io ip, o = mk_hopts ir io ip false false false None.
Proof.
  intros [ir io ip isc istc intc sd]. unfold plain. cbn.
  destruct isc, istc, intc, sd; cbn; try discriminate. intros _. eauto.
Qed.

Lemma tag_safe_list : forall xs, tag_safe (VList xs) = true -> forall x, In x xs -> tag_safe x = true.
Proof.
  unfold tag_safe. cbn [atoms_of]. intros xs Ht x Hi.
  rewrite forallb_forall in *. intros a Ha. apply Ht. apply in_flat_map. eauto.
Qed.
Lemma tag_safe_tuple : forall xs, tag_safe (VTuple xs) = true -> forall x, In x xs -> tag_safe x = true.
Proof. exact tag_safe_list. Qed.
Lemma tag_safe_dict : forall kvs, tag_safe (VDict kvs) = true ->
  forall kv, In kv kvs -> tag_safe_atom (fst kv) = true /\ tag_safe (snd kv) = true.
Proof.
  unfold tag_safe. cbn [atoms_of]. intros kvs Ht kv Hi.
  rewrite forallb_forall in Ht. split.
  - apply Ht. apply in_flat_map. exists kv. split; auto. left; auto.
  - rewrite forallb_forall. intros a Ha. apply Ht. apply in_flat_map. exists kv. split; auto. right; auto.
Qed.
Lemma tag_safe_set : forall xs, tag_safe (VSet xs) = true -> Forall (fun a => tag_safe_atom a = true) xs.
Proof. unfold tag_safe. cbn [atoms_of]. intros xs Ht. rewrite forallb_forall in Ht. apply Forall_forall; auto. Qed.
Lemma tag_safe_frozen : forall xs, tag_safe (VFrozen xs) = true -> Forall (fun a => tag_safe_atom a = true) xs.
Proof. exact tag_safe_set. Qed.

Lemma pystr_eqb_sym_true : forall a, pystr_eqb a a = true.
Proof. apply pystr_eqb_refl. Qed.

Lemma py_eq_refl : forall a, py_eq a a = true.
Proof.
  intros [| b | z | t | s | s]; try destruct b; cbn; auto using Z.eqb_refl, pystr_eqb_refl.
Qed.

Lemma nodup_atoms_NoDup : forall l, nodup_atoms l = true -> NoDup l.
Proof.
  induction l as [|a l IH]; cbn; intro Hn; constructor; apply andb_true_iff in Hn; destruct Hn as [Hm Hn].
  - intro Hi. apply negb_true_iff in Hm. unfold mem_atom in Hm.
    assert (existsb (py_eq a) l = true) by (apply existsb_exists; exists a; split; auto using py_eq_refl).
    congruence.
  - auto.
Qed.

(* ------------------------------------------------------------------ *)
(** * The injectivity theorem *)

Section Inj.
Variable H : pystr -> pystr.
Hypothesis H_tok : forall s, s <> [] -> sepfree (H s).
Hypothesis H_inj : forall s t, H s = H t -> s = t.

Lemma ser_atom_nonempty : forall o a, plain o = true -> ser_atom o a <> [].
Proof.
  intros o a Hp. destruct (plain_inv o Hp) as (ir & io & ip & ->).
  destruct a as [| b | z | t | s | s]; try destruct b; cbn; discriminate.
Qed.

Lemma ser_nonempty : forall o v, plain o = true -> ser H o v <> [].
Proof.
  intros o v Hp. destruct v; [apply ser_atom_nonempty; auto|..];
    destruct (plain_inv o Hp) as (ir & io & ip & ->); cbn; discriminate.
Qed.

Lemma hash_atom_tok : forall o a, plain o = true -> sepfree (hash_atom H o a).
Proof. intros. apply H_tok, ser_atom_nonempty; auto. Qed.

Lemma hash_pure_tok : forall o v, plain o = true -> sepfree (hash_pure H o v).
Proof. intros. rewrite hash_pure_ser. apply H_tok, ser_nonempty; auto. Qed.

Lemma tag_safe_str : forall s, tag_safe_atom (AStr s) = true ->
  s <> s2p "NONE" /\ has_char 58%N s = false.
Proof.
  intros s Ht. cbn in Ht. apply andb_true_iff in Ht. destruct Ht as [A B].
  apply negb_true_iff in A, B. split; auto. apply pystr_eqb_neq; auto.
Qed.

Ltac colon_contra Hc He :=
  exfalso; rewrite He in Hc; cbn in Hc; discriminate Hc.

Lemma ser_atom_inj : forall o a b, plain o = true ->
  tag_safe_atom a = true -> tag_safe_atom b = true ->
  ser_atom o a = ser_atom o b -> a = b.
Proof.
  intros o a b Hp Ta Tb He. destruct (plain_inv o Hp) as (ir & io & ip & ->).
  destruct a as [| x | z | t | s | s]; destruct b as [| y | z' | t' | s' | s'];
    try (destruct x); try (destruct y); cbn in He; try discriminate He; auto;
    try (apply tag_safe_str in Ta; destruct Ta as [Tn Tc]);
    try (apply tag_safe_str in Tb; destruct Tb as [Tn' Tc']);
    try (inversion He; subst; first [ congruence | colon_contra Tc (eq_refl (A:=pystr)) | idtac ]).
  all: try (exfalso; match goal with Hc : has_char 58%N _ = false |- _ => cbn in Hc; discriminate Hc end).
  all: try (exfalso; match goal with Hn : _ <> s2p "NONE" |- _ => apply Hn; reflexivity end).
  - f_equal. apply dec_Z_inj. inversion He; auto.
  - f_equal. apply half_repr_inj. inversion He; auto.
Qed.

Lemma hash_atom_inj : forall o a b, plain o = true ->
  tag_safe_atom a = true -> tag_safe_atom b = true ->
  hash_atom H o a = hash_atom H o b -> a = b.
Proof. intros o a b Hp Ta Tb He. apply H_inj in He. eapply ser_atom_inj; eauto. Qed.


(* ---- sets ---- *)
Lemma map_hash_atom_inj : forall o xs ys, plain o = true ->
  Forall (fun a => tag_safe_atom a = true) xs -> Forall (fun a => tag_safe_atom a = true) ys ->
  map (hash_atom H o) xs = map (hash_atom H o) ys -> xs = ys.
Proof.
  intros o xs ys Hp Tx Ty He. apply map_eq_Forall2 in He.
  assert (HF : Forall2 eq xs ys).
  { eapply Forall2_impl_in; [exact He|]. cbn beta. intros x y Hx Hy Hf.
    rewrite Forall_forall in Tx, Ty. eapply hash_atom_inj; eauto. }
  clear - HF. induction HF; subst; auto.
Qed.

Lemma NoDup_map_hash_atom : forall o xs, plain o = true ->
  Forall (fun a => tag_safe_atom a = true) xs -> NoDup xs -> NoDup (map (hash_atom H o) xs).
Proof.
  intros o xs Hp Tx Hn. induction Hn as [|x xs Hx Hn IH]; cbn; constructor.
  - intro Hi. apply in_map_iff in Hi. destruct Hi as [y [He Hy]].
    inversion Tx as [|? ? Tx1 Tx2]; subst. rewrite Forall_forall in Tx2.
    assert (y = x) by (eapply hash_atom_inj; eauto). subst. auto.
  - apply IH. inversion Tx; auto.
Qed.

Lemma set_members_inv : forall o xs ys, plain o = true -> std_mode o = true ->
  Forall (fun a => tag_safe_atom a = true) xs -> Forall (fun a => tag_safe_atom a = true) ys ->
  nodup_atoms xs = true -> nodup_atoms ys = true ->
  arrange o (map (hash_atom H o) xs) = arrange o (map (hash_atom H o) ys) -> Permutation xs ys.
Proof.
  intros o xs ys Hp Hm Tx Ty Nx Ny He.
  apply nodup_atoms_NoDup in Nx. apply nodup_atoms_NoDup in Ny.
  assert (Fx : Forall sepfree (map (hash_atom H o) xs)).
  { apply Forall_forall. intros t Hi. apply in_map_iff in Hi. destruct Hi as [a [<- _]]. apply hash_atom_tok; auto. }
  assert (Fy : Forall sepfree (map (hash_atom H o) ys)).
  { apply Forall_forall. intros t Hi. apply in_map_iff in Hi. destruct Hi as [a [<- _]]. apply hash_atom_tok; auto. }
  unfold std_mode in Hm.
  destruct (ignore_iterable_order o) eqn:Hio; destruct (ignore_repetition o) eqn:Hir; cbn in Hm; try discriminate.
  - apply NoDup_Permutation; auto. intro a.
    pose proof (arrange_set_inv o _ _ Hir Hio He (hash_atom H o a)) as Hs.
    rewrite Forall_forall in Tx, Ty. split; intro Hi.
    + assert (Hi' : In (hash_atom H o a) (map (hash_atom H o) ys)) by (apply Hs, in_map; auto).
      apply in_map_iff in Hi'. destruct Hi' as [b [Hb Hbi]].
      assert (b = a) by (eapply hash_atom_inj; eauto). subst; auto.
    + assert (Hi' : In (hash_atom H o a) (map (hash_atom H o) xs)) by (apply Hs, in_map; auto).
      apply in_map_iff in Hi'. destruct Hi' as [b [Hb Hbi]].
      assert (b = a) by (eapply hash_atom_inj; eauto). subst; auto.
  - eapply perm_map_inj; [|eapply arrange_multiset_inv; eauto].
    rewrite Forall_forall in Tx, Ty. intros; eapply hash_atom_inj; eauto.
  - assert (xs = ys); [|subst; apply Permutation_refl].
    eapply map_hash_atom_inj; eauto.
    eapply arrange_ordered_inv; eauto using NoDup_map_hash_atom.
Qed.

(* ---- lists and tuples ---- *)
Lemma seq_items_inv : forall o xs ys, plain o = true -> std_mode o = true ->
  (forall x y, In x xs -> In y ys -> hash_pure H o x = hash_pure H o y -> eqv o x y) ->
  (ignore_iterable_order o = false ->
   NoDup (map (hash_pure H o) xs) /\ NoDup (map (hash_pure H o) ys)) ->
  arrange o (map (hash_pure H o) xs) = arrange o (map (hash_pure H o) ys) ->
  seq_rel o (eqv o) xs ys.
Proof.
  intros o xs ys Hp Hm IH Hnd He.
  assert (Fx : Forall sepfree (map (hash_pure H o) xs)).
  { apply Forall_forall. intros t Hi. apply in_map_iff in Hi. destruct Hi as [a [<- _]]. apply hash_pure_tok; auto. }
  assert (Fy : Forall sepfree (map (hash_pure H o) ys)).
  { apply Forall_forall. intros t Hi. apply in_map_iff in Hi. destruct Hi as [a [<- _]]. apply hash_pure_tok; auto. }
  unfold std_mode in Hm.
  destruct (ignore_iterable_order o) eqn:Hio; destruct (ignore_repetition o) eqn:Hir; cbn in Hm; try discriminate.
  - pose proof (arrange_set_inv o _ _ Hir Hio He) as Hs. apply seq_as_set; auto.
    + intros x Hi. assert (Hi' : In (hash_pure H o x) (map (hash_pure H o) ys)) by (apply Hs, in_map; auto).
      apply in_map_iff in Hi'. destruct Hi' as [y [Hy Hyi]]. exists y. split; auto.
    + intros y Hi. assert (Hi' : In (hash_pure H o y) (map (hash_pure H o) xs)) by (apply Hs, in_map; auto).
      apply in_map_iff in Hi'. destruct Hi' as [x [Hx Hxi]]. exists x. split; auto.
  - assert (Hperm : Permutation (map (hash_pure H o) xs) (map (hash_pure H o) ys))
      by (eapply arrange_multiset_inv; eauto).
    apply Permutation_map_inv in Hperm. destruct Hperm as [l3 [Hmap Hp3]].
    apply (seq_as_multiset o (eqv o) xs ys l3); auto.
    apply map_eq_Forall2 in Hmap. eapply Forall2_impl_in; [exact Hmap|].
    cbn beta. intros x y Hx Hy Hh. apply IH; auto.
    eapply Permutation_in; [apply Permutation_sym; exact Hp3|auto].
  - destruct (Hnd eq_refl) as [N1 N2].
    assert (Hmap : map (hash_pure H o) xs = map (hash_pure H o) ys)
      by (eapply arrange_ordered_inv; eauto).
    apply seq_ordered; auto.
    apply map_eq_Forall2 in Hmap. eapply Forall2_impl_in; [exact Hmap|].
    cbn beta. intros x y Hx Hy Hh. apply IH; auto.
Qed.


(* ---- the guard of ordered mode (K4): no list / tuple holds two items with the same hash ---- *)
Fixpoint nodupb (l : list pystr) : bool :=
  match l with
  | [] => true
  | x :: r => negb (existsb (pystr_eqb x) r) && nodupb r
  end.

Lemma nodupb_NoDup : forall l, nodupb l = true -> NoDup l.
Proof.
  induction l as [|x l IH]; cbn; intro Hn; constructor; apply andb_true_iff in Hn; destruct Hn as [A B]; auto.
  intro Hi. apply negb_true_iff in A.
  assert (existsb (pystr_eqb x) l = true) by (apply existsb_exists; exists x; split; auto using pystr_eqb_refl).
  congruence.
Qed.

Fixpoint distinct_items (o : hopts) (v : value) : bool :=
  match v with
  | VAtom _ => true
  | VList xs | VTuple xs => nodupb (map (hash_pure H o) xs) && forallb (distinct_items o) xs
  | VDict kvs => forallb (fun kv => distinct_items o (snd kv)) kvs
  | VSet _ | VFrozen _ => true
  end.

Definition mode_guard (o : hopts) (v : value) : bool :=
  ignore_iterable_order o || distinct_items o v.

Lemma mode_guard_items : forall o xs, 
  mode_guard o (VList xs) = true ->
  (forall x, In x xs -> mode_guard o x = true) /\
  (ignore_iterable_order o = false -> NoDup (map (hash_pure H o) xs)).
Proof.
  unfold mode_guard. intros o xs Hg. destruct (ignore_iterable_order o); cbn [orb] in *.
  - split; auto. discriminate.
  - cbn [distinct_items] in Hg. apply andb_true_iff in Hg. destruct Hg as [A B]. split.
    + rewrite forallb_forall in B. auto.
    + intros _. apply nodupb_NoDup; auto.
Qed.

Lemma mode_guard_dict : forall o kvs,
  mode_guard o (VDict kvs) = true -> forall kv, In kv kvs -> mode_guard o (snd kv) = true.
Proof.
  unfold mode_guard. intros o kvs Hg kv Hi. destruct (ignore_iterable_order o); cbn [orb] in *; auto.
  cbn [distinct_items] in Hg. rewrite forallb_forall in Hg. auto.
Qed.

Ltac str_contra He T :=
  exfalso; inversion He; subst; unfold tag_safe in T; cbn in T; discriminate T.

Ltac off_diag He Ta Tb :=
  exfalso; cbn in He; first [ discriminate He | str_contra He Ta | str_contra He Tb ].

Lemma seq_join_inv : forall o l1 l2, plain o = true ->
  join c_comma (arrange o (map (hash_pure H o) l1)) = join c_comma (arrange o (map (hash_pure H o) l2)) ->
  arrange o (map (hash_pure H o) l1) = arrange o (map (hash_pure H o) l2).
Proof.
  intros o l1 l2 Hp He. apply (join_inj 44%N); auto; apply arrange_toks;
    apply Forall_forall; intros t Hi; apply in_map_iff in Hi; destruct Hi as [a [<- _]]; apply hash_pure_tok; auto.
Qed.

Lemma set_join_inv : forall o l1 l2, plain o = true ->
  join c_comma (arrange o (map (hash_atom H o) l1)) = join c_comma (arrange o (map (hash_atom H o) l2)) ->
  arrange o (map (hash_atom H o) l1) = arrange o (map (hash_atom H o) l2).
Proof.
  intros o l1 l2 Hp He. apply (join_inj 44%N); auto; apply arrange_toks;
    apply Forall_forall; intros t Hi; apply in_map_iff in Hi; destruct Hi as [a [<- _]]; apply hash_atom_tok; auto.
Qed.

Definition item_of (o : hopts) (kv : atom * value) : pystr :=
  dict_item (hash_atom H o (fst kv)) (hash_pure H o (snd kv)).

Lemma item_tok : forall o kv, plain o = true -> item_of o kv <> [] /\ free 59%N (item_of o kv).
Proof.
  intros o kv Hp. unfold item_of, dict_item.
  destruct (hash_atom_tok o (fst kv) Hp) as (Hne & _ & F59 & _).
  destruct (hash_pure_tok o (snd kv) Hp) as (_ & _ & G59 & _).
  split.
  - destruct (hash_atom H o (fst kv)); [congruence|discriminate].
  - rewrite !free_app. repeat split; auto. unfold c_colon. intros [Hi|[]]. discriminate.
Qed.

Lemma item_inj : forall o p q, plain o = true -> item_of o p = item_of o q ->
  hash_atom H o (fst p) = hash_atom H o (fst q) /\ hash_pure H o (snd p) = hash_pure H o (snd q).
Proof.
  intros o p q Hp He. unfold item_of, dict_item, c_colon in He. cbn [app] in He.
  destruct (hash_atom_tok o (fst p) Hp) as (_ & _ & _ & F1 & _).
  destruct (hash_atom_tok o (fst q) Hp) as (_ & _ & _ & F2 & _).
  apply (split_sep 58%N) in He; auto.
Qed.

Lemma dict_join_inv : forall o l1 l2, plain o = true ->
  join c_semi (isort (map (item_of o) l1)) ++ [125%N] = join c_semi (isort (map (item_of o) l2)) ++ [125%N] ->
  Permutation (map (item_of o) l1) (map (item_of o) l2).
Proof.
  intros o l1 l2 Hp He. apply app_inj_tail in He. destruct He as [He _].
  apply isort_eq_perm. apply (join_inj 59%N); auto; apply Forall_isort;
    apply Forall_forall; intros t Hi; apply in_map_iff in Hi; destruct Hi as [a [<- _]]; apply item_tok; auto.
Qed.

Theorem hash_inj : forall o, plain o = true -> std_mode o = true -> forall a b,
  tag_safe a = true -> tag_safe b = true -> wf a = true -> wf b = true ->
  mode_guard o a = true -> mode_guard o b = true ->
  hash_pure H o a = hash_pure H o b -> eqv o a b.
Proof.
  intros o Hp Hm a.
  induction a as [a|xs IH|xs IH|kvs IH|xs|xs] using value_ind'; intros b Ta Tb Wa Wb Ga Gb He;
    rewrite !hash_pure_ser in He; apply H_inj in He;
    destruct (plain_inv o Hp) as (ir & io & ip & Ho); rewrite Ho in He.
  - (* atom *)
    destruct b as [b|ys|ys|kvs'|ys|ys];
      [|destruct a as [| x | z | t | s | s]; try destruct x; off_diag He Ta Tb ..].
    cbn [ser] in He. rewrite <- Ho in He.
    assert (a = b); [|subst; constructor].
    eapply ser_atom_inj; eauto.
    + unfold tag_safe in Ta. cbn in Ta. apply andb_true_iff in Ta. tauto.
    + unfold tag_safe in Tb. cbn in Tb. apply andb_true_iff in Tb. tauto.
  - (* list *)
    destruct b as [b|ys|ys|kvs'|ys|ys];
      [destruct b as [| x | z | t | s | s]; try destruct x; off_diag He Ta Tb| |off_diag He Ta Tb ..].
    cbn in He. inversion He as [He']. rewrite <- Ho in He'. clear He.
    apply seq_join_inv in He'; auto.
    constructor. destruct (mode_guard_items o xs Ga) as [Gx Nx]. destruct (mode_guard_items o ys Gb) as [Gy Ny].
    cbn [wf] in Wa, Wb. rewrite forallb_forall in Wa, Wb.
    apply seq_items_inv; auto.
    intros x y Hx Hy Hh. rewrite Forall_forall in IH.
    apply IH; auto; [apply (tag_safe_list xs Ta x Hx)|apply (tag_safe_list ys Tb y Hy)].
  - (* tuple *)
    destruct b as [b|ys|ys|kvs'|ys|ys];
      [destruct b as [| x | z | t | s | s]; try destruct x; off_diag He Ta Tb|off_diag He Ta Tb| |off_diag He Ta Tb ..].
    cbn in He. inversion He as [He']. rewrite <- Ho in He'. clear He.
    apply seq_join_inv in He'; auto.
    constructor. destruct (mode_guard_items o xs Ga) as [Gx Nx]. destruct (mode_guard_items o ys Gb) as [Gy Ny].
    cbn [wf] in Wa, Wb. rewrite forallb_forall in Wa, Wb.
    apply seq_items_inv; auto.
    intros x y Hx Hy Hh. rewrite Forall_forall in IH.
    apply IH; auto; [apply (tag_safe_tuple xs Ta x Hx)|apply (tag_safe_tuple ys Tb y Hy)].
  - (* dict *)
    destruct b as [b|ys|ys|kvs'|ys|ys];
      [destruct b as [| x | z | t | s | s]; try destruct x; off_diag He Ta Tb|off_diag He Ta Tb|off_diag He Ta Tb| |off_diag He Ta Tb ..].
    cbn in He. inversion He as [He']. rewrite <- Ho in He'. clear He.
    change (join c_semi (isort (map (item_of o) (vis o kvs))) ++ [125%N] =
            join c_semi (isort (map (item_of o) (vis o kvs'))) ++ [125%N]) in He'.
    apply dict_join_inv in He'; auto.
    apply Permutation_map_inv in He'. destruct He' as [l3 [Hmap Hp3]].
    constructor. apply (items_perm (eqv o) (vis o kvs) (vis o kvs') l3); auto.
    apply map_eq_Forall2 in Hmap. eapply Forall2_impl_in; [exact Hmap|].
    cbn beta. intros p q Hpi Hqi Hit.
    assert (Hp1 : In p kvs) by (unfold vis in Hpi; apply filter_In in Hpi; tauto).
    assert (Hq1 : In q kvs').
    { assert (In q (vis o kvs')) by (eapply Permutation_in; [apply Permutation_sym; exact Hp3|auto]).
      unfold vis in H0. apply filter_In in H0. tauto. }
    destruct (tag_safe_dict _ Ta p Hp1) as [Tk Tv]. destruct (tag_safe_dict _ Tb q Hq1) as [Tk' Tv'].
    destruct (item_inj o p q Hp Hit) as [Hk Hv]. split.
    + eapply hash_atom_inj; eauto.
    + rewrite Forall_forall in IH.
      cbn [wf] in Wa, Wb. apply andb_true_iff in Wa, Wb. destruct Wa as [_ Wa]. destruct Wb as [_ Wb].
      rewrite forallb_forall in Wa, Wb.
      apply (IH p Hp1 (snd q) Tv Tv' (Wa p Hp1) (Wb q Hq1)
               (mode_guard_dict o kvs Ga p Hp1) (mode_guard_dict o kvs' Gb q Hq1) Hv).
  - (* set *)
    destruct b as [b|ys|ys|kvs'|ys|ys];
      [destruct b as [| x | z | t | s | s]; try destruct x; off_diag He Ta Tb|off_diag He Ta Tb|off_diag He Ta Tb|off_diag He Ta Tb| |off_diag He Ta Tb].
    cbn in He. inversion He as [He']. rewrite <- Ho in He'. clear He.
    apply set_join_inv in He'; auto.
    constructor. eapply (set_members_inv o xs ys); eauto using tag_safe_set.
  - (* frozenset *)
    destruct b as [b|ys|ys|kvs'|ys|ys];
      [destruct b as [| x | z | t | s | s]; try destruct x; off_diag He Ta Tb|off_diag He Ta Tb|off_diag He Ta Tb|off_diag He Ta Tb|off_diag He Ta Tb| ].
    cbn in He. inversion He as [He']. rewrite <- Ho in He'. clear He.
    apply set_join_inv in He'; auto.
    constructor. eapply (set_members_inv o xs ys); eauto using tag_safe_frozen.
Qed.

End Inj.

(* ------------------------------------------------------------------ *)
(** * Consequences and refutations *)

Lemma eqv_type : forall o a b, eqv o a b -> type_of a = type_of b.
Proof. intros o a b He. inversion He; reflexivity. Qed.

Section Consequences.
Variable H : pystr -> pystr.
Hypothesis H_tok : forall s, s <> [] -> sepfree (H s).
Hypothesis H_inj : forall s t, H s = H t -> s = t.

(* values of different types (container vs scalar, str vs non-str, list vs tuple ...) never share a hash *)
Corollary types_differ_hash_differ : forall o a b,
  plain o = true -> std_mode o = true ->
  tag_safe a = true -> tag_safe b = true -> wf a = true -> wf b = true ->
  mode_guard H o a = true -> mode_guard H o b = true ->
  type_of a <> type_of b -> hash_pure H o a <> hash_pure H o b.
Proof.
  intros o a b Hp Hm Ta Tb Wa Wb Ga Gb Hty He. apply Hty. eapply eqv_type.
  eapply (hash_inj H H_tok H_inj); eauto.
Qed.

End Consequences.

(* K1: the final re-tagging step makes a str that spells a serialisation collide
   with the value it spells - for every hasher *)
Lemma str_vs_tagged_refuted : forall H : pystr -> pystr,
  hash_pure H default_opts (VAtom (AStr (s2p "NONE"))) = hash_pure H default_opts (VAtom ANone) /\
  hash_pure H default_opts (VAtom (AStr (s2p "int:1"))) = hash_pure H default_opts (VAtom (AInt 1)) /\
  hash_pure H default_opts (VAtom (AStr (s2p "bool:true"))) = hash_pure H default_opts (VAtom (ABool true)) /\
  hash_pure H default_opts (VAtom (AStr (s2p "float:1.5"))) = hash_pure H default_opts (VAtom (AHalf 3)) /\
  hash_pure H default_opts (VAtom (AStr (s2p "list:"))) = hash_pure H default_opts (VList []) /\
  hash_pure H default_opts (VAtom (AStr (s2p "dict:{}"))) = hash_pure H default_opts (VDict []) /\
  (forall o a, ~ eqv o (VAtom (AStr a)) (VAtom ANone)) /\
  (forall o a xs, ~ eqv o (VAtom (AStr a)) (VList xs)).
Proof.
  intro H. repeat split; try reflexivity.
  - intros o a He. inversion He.
  - intros o a xs He. inversion He.
Qed.

(* ... and with a digest inside: 'list:<hash of 1>' collides with [1] *)
Lemma str_vs_list_refuted : forall H : pystr -> pystr,
  hash_pure H default_opts (VAtom (AStr (s2p "list:" ++ hash_pure H default_opts (VAtom (AInt 1))))) =
  hash_pure H default_opts (VList [VAtom (AInt 1)]).
Proof. intro H. reflexivity. Qed.

(* K4: ordered mode keeps a first-occurrence count table, not the sequence *)
Lemma ordered_repetition_refuted :
  hash_pure hexhash ordered_mode (VList [VAtom (AInt 1); VAtom (AInt 2); VAtom (AInt 1)]) =
  hash_pure hexhash ordered_mode (VList [VAtom (AInt 1); VAtom (AInt 1); VAtom (AInt 2)]) /\
  ~ eqv ordered_mode (VList [VAtom (AInt 1); VAtom (AInt 2); VAtom (AInt 1)])
                     (VList [VAtom (AInt 1); VAtom (AInt 1); VAtom (AInt 2)]).
Proof.
  split; [vm_compute; reflexivity|].
  intro He. inversion He; subst.
  match goal with Hs : seq_rel _ _ _ _ |- _ => inversion Hs; subst end; try discriminate.
  repeat match goal with HF : Forall2 _ (_ :: _) (_ :: _) |- _ => inversion HF; subst; clear HF end.
  match goal with Hx : eqv _ (VAtom (AInt 2)) (VAtom (AInt 1)) |- _ => inversion Hx end.
Qed.

(* the guards are satisfiable by non-trivial values *)
Example guards_example :
  let v := VList [VDict [(AStr (s2p "a"), VTuple [VAtom (AInt 1); VAtom (AHalf 2); VAtom (ABool true)]);
                         (AInt 1, VSet [ANone; AStr (s2p "x y")])];
                  VAtom (ABytes (s2p "a")); VList []] in
  tag_safe v = true /\ wf v = true /\ mode_guard hexhash ordered_mode v = true /\
  mode_guard hexhash set_mode (VList [v; v]) = true.
Proof. vm_compute. auto. Qed.

(* the hypotheses on the hasher are consistent: a unary code is injective and separator-free *)
Definition unary_hash (s : pystr) : pystr := flat_map (fun c => repeat 97%N (N.to_nat c) ++ [98%N]) s.

Lemma unary_hash_inj : forall s t, unary_hash s = unary_hash t -> s = t.
Proof.
  unfold unary_hash.
  assert (Hrep : forall n m r1 r2, repeat 97%N n ++ 98%N :: r1 = repeat 97%N m ++ 98%N :: r2 -> n = m /\ r1 = r2).
  { induction n as [|n IH]; intros [|m] r1 r2 He; cbn in He; try discriminate.
    - inversion He; auto.
    - inversion He as [He']. destruct (IH _ _ _ He'); auto. }
  induction s as [|c s IH]; intros [|d t] He; cbn in He; auto.
  - exfalso. destruct (N.to_nat d); cbn in He; discriminate.
  - exfalso. destruct (N.to_nat c); cbn in He; discriminate.
  - rewrite <- !app_assoc in He. cbn [app] in He. apply Hrep in He. destruct He as [Hn Hr].
    apply N2Nat.inj in Hn. subst. f_equal. auto.
Qed.

Lemma unary_hash_tok : forall s, s <> [] -> sepfree (unary_hash s).
Proof.
  intros s Hne.
  assert (Hall : forall s, Forall (fun c => c = 97%N \/ c = 98%N) (unary_hash s)).
  { induction s0 as [|c s0 IH]; cbn; [constructor|]. apply Forall_app. split; auto.
    apply Forall_app. split; [|constructor; [right; reflexivity|constructor]].
    apply Forall_forall. intros x Hx. apply repeat_spec in Hx. auto. }
  assert (Hfree : forall d, d <> 97%N -> d <> 98%N -> free d (unary_hash s)).
  { intros d H1 H2 Hi. specialize (Hall s). rewrite Forall_forall in Hall. destruct (Hall d Hi); congruence. }
  split; [|repeat split; apply Hfree; discriminate].
  destruct s as [|c s]; [congruence|]. unfold unary_hash. cbn.
  destruct (repeat 97%N (N.to_nat c)); discriminate.
Qed.

(* ------------------------------------------------------------------ *)
(** * K3 and K4 for every hasher *)

(* K4 holds for every hasher whatsoever *)
Lemma ordered_repetition_refuted_any : forall H : pystr -> pystr,
  hash_pure H ordered_mode (VList [VAtom (AInt 1); VAtom (AInt 2); VAtom (AInt 1)]) =
  hash_pure H ordered_mode (VList [VAtom (AInt 1); VAtom (AInt 1); VAtom (AInt 2)]).
Proof.
  intro H. cbn [hash_pure map]. do 3 f_equal.
  set (h1 := hash_atom H ordered_mode (AInt 1)). set (h2 := hash_atom H ordered_mode (AInt 2)).
  unfold arrange, counts, count. cbn [ignore_repetition ignore_iterable_order ordered_mode mode_opts dedup filter map].
  rewrite !pystr_eqb_refl. cbn [negb filter].
  destruct (pystr_eqb h1 h2) eqn:E12.
  - apply pystr_eqb_eq in E12. rewrite <- E12. rewrite !pystr_eqb_refl. cbn. reflexivity.
  - assert (E21 : pystr_eqb h2 h1 = false).
    { apply pystr_eqb_neq. apply pystr_eqb_neq in E12. congruence. }
    cbn [negb filter]. rewrite ?E21, ?E12, ?pystr_eqb_refl. cbn [negb filter].
    rewrite ?E21, ?E12, ?pystr_eqb_refl. cbn. rewrite ?E21, ?E12, ?pystr_eqb_refl. reflexivity.
Qed.

(* K3 for every hasher that satisfies the hypotheses of C07 *)
Section K3.
Variable H : pystr -> pystr.
Hypothesis H_tok : forall s, s <> [] -> sepfree (H s).
Hypothesis H_inj : forall s t, H s = H t -> s = t.

Lemma ordered_set_refuted_any :
  hash_pure H ordered_mode (VSet [AInt 0; AInt 8]) <> hash_pure H ordered_mode (VSet [AInt 8; AInt 0]).
Proof.
  intro He. rewrite !hash_pure_ser in He. apply H_inj in He. cbn in He. inversion He as [He']. clear He.
  change (join c_comma (arrange ordered_mode (map (hash_atom H ordered_mode) [AInt 0; AInt 8])) =
          join c_comma (arrange ordered_mode (map (hash_atom H ordered_mode) [AInt 8; AInt 0]))) in He'.
  assert (Hp : plain ordered_mode = true) by reflexivity.
  apply (set_join_inv H H_tok) in He'; auto.
  assert (Hne : hash_atom H ordered_mode (AInt 0) <> hash_atom H ordered_mode (AInt 8)).
  { intro E. apply (hash_atom_inj H H_inj) in E; auto. discriminate E. }
  apply arrange_ordered_inv in He'; try reflexivity.
  - cbn in He'. inversion He' as [[E0 E8]]. apply Hne. exact E0.
  - cbn [map]. repeat constructor; apply hash_atom_tok; auto.
  - cbn [map]. repeat constructor; apply hash_atom_tok; auto.
  - cbn [map]. constructor; [|constructor; [|constructor]]; cbn; intuition.
  - cbn [map]. constructor; [|constructor; [|constructor]]; cbn; intuition.
Qed.
End K3.

(** Correspondence-side renderings for C06/C07 (no theorem depends on this
    file): root hash and the whole [hashes] table as sx, chains of calls
    sharing one table, equality classes over a pool. *)
From Coq Require Import List ZArith NArith Bool String.
Import ListNotations.
From DD Require Import Base.Sx Base.PyStr Base.Value Hash.HashModel.
Local Open Scope string_scope.

Definition sx_mkey (k : mkey) : sx :=
  match k with
  | MK v => SL [SA "K"; sx_value v]
  | MI v => SL [SA "I"; sx_value v]
  end.
Definition sx_memo (m : memo) : sx :=
  SL (map (fun e => SL [sx_mkey (fst e); sx_str (snd e)]) m).

(* DeepHash(v, hasher=hex, **o): [root hash; table] *)
Definition run_one (o : hopts) (v : value) : sx :=
  let r := hash_memo hexhash o v [] in SL [sx_str (fst r); sx_memo (snd r)].

(* successive DeepHash calls sharing one table: root hashes, then the table *)
Fixpoint chain (o : hopts) (vs : list value) (m : memo) : list pystr * memo :=
  match vs with
  | [] => ([], m)
  | v :: r => let '(h, m1) := hash_memo hexhash o v m in
              let '(hs, m2) := chain o r m1 in (h :: hs, m2)
  end.
Definition run_chain (o : hopts) (vs : list value) : sx :=
  let r := chain o vs [] in SL [SL (map sx_str (fst r)); sx_memo (snd r)].
Definition run_chain_roots (o : hopts) (vs : list value) : sx :=
  SL (map sx_str (fst (chain o vs []))).

Definition run_pure (o : hopts) (v : value) : sx := sx_str (hash_pure hexhash o v).

(* equality pattern: for each element the index of the first element with the same hash *)
Fixpoint first_index (x : pystr) (l : list pystr) (i : nat) : nat :=
  match l with
  | [] => i
  | y :: r => if pystr_eqb x y then i else first_index x r (S i)
  end.
Definition classes (hs : list pystr) : sx := SL (map (fun h => sx_nat (first_index h hs 0)) hs).
Definition run_classes (o : hopts) (vs : list value) : sx :=
  classes (map (deephash hexhash o) vs).
Definition run_classes_pure (o : hopts) (vs : list value) : sx :=
  classes (map (hash_pure hexhash o) vs).

(* guards, for the distribution counters and the theorem replays *)
Definition run_guards (v : value) : sx :=
  SL [sx_bool (tag_safe v); sx_bool (alias_free v); sx_bool (small_sets v); sx_bool (wf v); sx_bool (in_range v)].

(** Correspondence-side renderings for the wave-2 theorems (no theorem depends on this file): the blindness of a
    _skip_this configuration, and the partition of a list of leaves by their normal form. *)
From Coq Require Import List ZArith NArith Bool String.
Import ListNotations.
From DD Require Import Base.Sx Base.PyStr Base.Value Hash.HashModel Hash.HashXModel Hash.HashXBlind Hash.HashXLeaves.
Local Open Scope string_scope.

Definition run_cfg_blind (c : skip_cfg) : sx := sx_bool (cfg_blind c).

Definition lnorm_eqb (a b : lnorm) : bool :=
  match a, b with
  | NDate y m d, NDate y' m' d' => Z.eqb y y' && Z.eqb m m' && Z.eqb d d'
  | NInstant u, NInstant u' => Z.eqb u u'
  | NSeconds s, NSeconds s' => Z.eqb s s'
  | NPath s, NPath s' => pystr_eqb s s'
  | NOther s, NOther s' => pystr_eqb s s'
  | _, _ => false
  end.
Fixpoint first_norm (xo : xopts) (x : xleaf) (l : list xleaf) (i : nat) : nat :=
  match l with
  | [] => i
  | y :: r => if lnorm_eqb (leaf_norm xo y) (leaf_norm xo x) then i else first_norm xo x r (S i)
  end.
(* [all leaves inside leaf_ok; for each leaf the index of the first leaf with the same normal form] *)
Definition run_leaf_classes (xo : xopts) (ls : list xleaf) : sx :=
  SL [sx_bool (forallb (leaf_ok xo) ls); SL (map (fun l => sx_nat (first_norm xo l ls 0)) ls)].

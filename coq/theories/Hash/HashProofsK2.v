(** K2 (the [hashes] table is keyed by Python ==) for every hasher. *)
From Coq Require Import List ZArith NArith Bool Lia Permutation Arith String.
Import ListNotations.
From DD Require Import Base.PyStr Base.Value Hash.HashModel Hash.Equiv Hash.HashProofsBase
  Hash.HashProofsC06 Hash.HashProofsC07 Hash.HashProofsMemo.

(* as a collision (C07): [1, 1.0] hashes like [1], whatever the hasher *)
Lemma memo_collision_any : forall H : pystr -> pystr,
  deephash H default_opts (VList [VAtom (AInt 1); VAtom (AHalf 2)]) =
  deephash H default_opts (VList [VAtom (AInt 1)]).
Proof.
  intro H. unfold deephash. cbn. unfold arrange. cbn [ignore_repetition ignore_iterable_order default_opts dedup filter].
  rewrite pystr_eqb_refl. reflexivity.
Qed.

Section K2.
Variable H : pystr -> pystr.
Hypothesis H_tok : forall s, s <> [] -> sepfree (H s).
Hypothesis H_inj : forall s t, H s = H t -> s = t.

Let o := default_opts.
Let ha := hash_atom H o (AStr (s2p "a")).
Let hf0 := hash_atom H o (AHalf 0).
Let hf5 := hash_atom H o (AHalf 1).
Let hi0 := hash_atom H o (AInt 0).

Lemma k2_a : deephash H o (VDict [(AStr (s2p "a"), VAtom (AHalf 0)); (AInt 0, VAtom (AHalf 1))]) =
             H (retag o (dict_result [dict_item ha hf0; dict_item hf0 hf5])).
Proof. reflexivity. Qed.

Lemma k2_b : deephash H o (VDict [(AInt 0, VAtom (AHalf 1)); (AStr (s2p "a"), VAtom (AHalf 0))]) =
             H (retag o (dict_result [dict_item hi0 hf5; dict_item ha hi0])).
Proof. reflexivity. Qed.

Lemma raw_item_tok : forall kh vh, sepfree kh -> sepfree vh ->
  dict_item kh vh <> [] /\ free 59%N (dict_item kh vh).
Proof.
  intros kh vh (Hne & _ & F59 & _) (_ & _ & G59 & _). unfold dict_item. split.
  - destruct kh; [congruence|discriminate].
  - rewrite !free_app. repeat split; auto. unfold c_colon. intros [Hi|[]]. discriminate.
Qed.

(* as order dependence (C06): {'a':0.0, 0:0.5} and the same dict built in the other order *)
Lemma memo_refuted_any :
  deephash H o (VDict [(AStr (s2p "a"), VAtom (AHalf 0)); (AInt 0, VAtom (AHalf 1))]) <>
  deephash H o (VDict [(AInt 0, VAtom (AHalf 1)); (AStr (s2p "a"), VAtom (AHalf 0))]).
Proof.
  rewrite k2_a, k2_b. intro He. apply H_inj in He.
  assert (Hp : plain o = true) by reflexivity.
  assert (Ta : sepfree ha) by (apply hash_atom_tok; auto).
  assert (T0 : sepfree hf0) by (apply hash_atom_tok; auto).
  assert (T5 : sepfree hf5) by (apply hash_atom_tok; auto).
  assert (Ti : sepfree hi0) by (apply hash_atom_tok; auto).
  cbn in He. inversion He as [He']. clear He.
  change (join c_semi (isort [dict_item ha hf0; dict_item hf0 hf5]) ++ [125%N] =
          join c_semi (isort [dict_item hi0 hf5; dict_item ha hi0]) ++ [125%N]) in He'.
  apply app_inj_tail in He'. destruct He' as [He' _].
  apply (join_inj 59%N) in He'.
  2,3: apply Forall_isort; repeat constructor; apply raw_item_tok; auto.
  apply isort_eq_perm in He'.
  assert (Hin : In (dict_item ha hf0) [dict_item hi0 hf5; dict_item ha hi0])
    by (eapply Permutation_in; [exact He'|left; reflexivity]).
  destruct Ta as (_ & _ & _ & Fa & _). destruct Ti as (_ & _ & _ & Fi & _).
  destruct Hin as [E|[E|[]]]; unfold dict_item, c_colon in E; cbn [app] in E;
    apply (split_sep 58%N) in E; auto; destruct E as [E1 E2].
  - (* hi0 = ha *) apply (hash_atom_inj H H_inj) in E1; auto. discriminate E1.
  - (* hi0 = hf0 *) apply (hash_atom_inj H H_inj) in E2; auto. discriminate E2.
Qed.
End K2.

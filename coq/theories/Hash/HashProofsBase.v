(** Lemma library for the DeepHash proofs: order on strings, insertion sort,
    de-duplication, count tables, join injectivity, decimal printing. *)
From Coq Require Import List ZArith NArith Bool Lia Permutation Sorting.Sorted Arith
     Decimal DecimalNat DecimalN DecimalZ.
Import ListNotations.
From DD Require Import Base.PyStr Base.Value Hash.HashModel.

(* ------------------------------------------------------------------ *)
(** * pystr equality and order *)

Lemma pystr_eqb_spec : forall a b, reflect (a = b) (pystr_eqb a b).
Proof.
  unfold pystr_eqb.
  induction a as [|x a IH]; destruct b as [|y b]; try (constructor; congruence).
  destruct (N.eqb_spec x y) as [->|Hn]; cbn [andb].
  - destruct (IH b) as [->|Hn]; constructor; congruence.
  - constructor; congruence.
Qed.

Lemma pystr_eqb_refl : forall a, pystr_eqb a a = true.
Proof. intro a. destruct (pystr_eqb_spec a a); congruence. Qed.

Lemma pystr_eqb_eq : forall a b, pystr_eqb a b = true <-> a = b.
Proof. intros a b. destruct (pystr_eqb_spec a b); split; congruence. Qed.

Lemma pystr_eqb_neq : forall a b, pystr_eqb a b = false <-> a <> b.
Proof. intros a b. destruct (pystr_eqb_spec a b); split; congruence. Qed.

Lemma pystr_eq_dec : forall a b : pystr, {a = b} + {a <> b}.
Proof. intros a b. destruct (pystr_eqb_spec a b); auto. Qed.

Lemma ltb_irrefl : forall a, pystr_ltb a a = false.
Proof.
  induction a as [|x a IH]; cbn; auto.
  rewrite N.ltb_irrefl. exact IH.
Qed.

Lemma ltb_trichotomy : forall a b, pystr_ltb a b = false -> pystr_ltb b a = false -> a = b.
Proof.
  induction a as [|x a IH]; destruct b as [|y b]; cbn; intros H1 H2; try congruence.
  destruct (N.ltb_spec x y); try discriminate.
  destruct (N.ltb_spec y x); try discriminate.
  assert (x = y) by lia. subst. f_equal. auto.
Qed.

Lemma ltb_asym : forall a b, pystr_ltb a b = true -> pystr_ltb b a = false.
Proof.
  induction a as [|x a IH]; destruct b as [|y b]; cbn; intros H1; try congruence.
  destruct (N.ltb_spec x y).
  - destruct (N.ltb_spec y x); auto. lia.
  - destruct (N.ltb_spec y x); try discriminate. auto.
Qed.

(* negative transitivity *)
Lemma ltb_negtrans : forall a b c, pystr_ltb c a = true -> pystr_ltb c b = true \/ pystr_ltb b a = true.
Proof.
  intros a b c; revert a b.
  induction c as [|z c IH]; intros a b H; destruct a as [|x a]; cbn in H; try discriminate;
    destruct b as [|y b]; cbn; auto.
  destruct (N.ltb_spec z x), (N.ltb_spec z y), (N.ltb_spec y x), (N.ltb_spec y z),
    (N.ltb_spec x z), (N.ltb_spec x y); try discriminate; auto; try lia.
Qed.

Definition le (a b : pystr) : Prop := pystr_leb a b = true.

Lemma le_total : forall a b, le a b \/ le b a.
Proof.
  unfold le, pystr_leb. intros a b.
  destruct (pystr_ltb b a) eqn:E; cbn; auto.
  right. rewrite (ltb_asym _ _ E). reflexivity.
Qed.

Lemma le_antisym : forall a b, le a b -> le b a -> a = b.
Proof.
  unfold le, pystr_leb. intros a b H1 H2.
  apply negb_true_iff in H1. apply negb_true_iff in H2.
  apply ltb_trichotomy; auto.
Qed.

Lemma le_trans : forall a b c, le a b -> le b c -> le a c.
Proof.
  unfold le, pystr_leb. intros a b c H1 H2.
  apply negb_true_iff in H1. apply negb_true_iff in H2. apply negb_true_iff.
  destruct (pystr_ltb c a) eqn:E; auto.
  destruct (ltb_negtrans _ b _ E); congruence.
Qed.

Lemma le_refl : forall a, le a a.
Proof. intro a. unfold le, pystr_leb. rewrite ltb_irrefl. reflexivity. Qed.

Lemma not_le : forall a b, pystr_leb a b = false -> le b a.
Proof. intros a b H. destruct (le_total a b); auto. unfold le in *. congruence. Qed.

(* ------------------------------------------------------------------ *)
(** * insertion sort *)

Lemma insert_perm : forall x l, Permutation (x :: l) (insert x l).
Proof.
  induction l as [|y l IH]; cbn; auto.
  destruct (pystr_leb x y); auto.
  eapply perm_trans; [apply perm_swap|]. auto.
Qed.

Lemma isort_perm : forall l, Permutation l (isort l).
Proof.
  induction l as [|x l IH]; cbn; auto.
  eapply perm_trans; [|apply insert_perm]. auto.
Qed.

Lemma insert_sorted : forall x l, StronglySorted le l -> StronglySorted le (insert x l).
Proof.
  induction l as [|y l IH]; intros Hs; cbn.
  - repeat constructor.
  - inversion Hs as [|? ? Hs' Hall]; subst.
    destruct (pystr_leb x y) eqn:E.
    + constructor; auto. constructor; auto.
      eapply Forall_impl; [|exact Hall]. intros z Hz. eapply le_trans; eauto.
    + constructor; auto.
      apply not_le in E.
      assert (Hp : Permutation (x :: l) (insert x l)) by apply insert_perm.
      eapply Permutation_Forall; [exact Hp|]. constructor; auto.
Qed.

Lemma isort_sorted : forall l, StronglySorted le (isort l).
Proof.
  induction l as [|x l IH]; cbn; [constructor|]. apply insert_sorted; auto.
Qed.

Lemma sorted_perm_eq : forall l1 l2,
  StronglySorted le l1 -> StronglySorted le l2 -> Permutation l1 l2 -> l1 = l2.
Proof.
  induction l1 as [|a l1 IH]; intros l2 H1 H2 Hp.
  - apply Permutation_nil in Hp. auto.
  - destruct l2 as [|b l2]; [apply Permutation_sym, Permutation_nil in Hp; discriminate|].
    inversion H1 as [|? ? H1' A1]; subst. inversion H2 as [|? ? H2' A2]; subst.
    assert (a = b).
    { assert (Ia : In a (b :: l2)) by (eapply Permutation_in; [exact Hp|left; auto]).
      assert (Ib : In b (a :: l1)) by (eapply Permutation_in; [apply Permutation_sym; exact Hp|left; auto]).
      destruct Ia as [->|Ia]; auto. destruct Ib as [->|Ib]; auto.
      rewrite Forall_forall in A1, A2. apply le_antisym; auto. }
    subst. f_equal. apply IH; auto. eapply Permutation_cons_inv; eauto.
Qed.

Lemma isort_perm_eq : forall l1 l2, Permutation l1 l2 -> isort l1 = isort l2.
Proof.
  intros l1 l2 Hp. apply sorted_perm_eq; try apply isort_sorted.
  eapply perm_trans; [apply Permutation_sym, isort_perm|].
  eapply perm_trans; [exact Hp|apply isort_perm].
Qed.

Lemma isort_eq_perm : forall l1 l2, isort l1 = isort l2 -> Permutation l1 l2.
Proof.
  intros l1 l2 He. eapply perm_trans; [apply isort_perm|]. rewrite He.
  apply Permutation_sym, isort_perm.
Qed.

Lemma isort_In : forall x l, In x (isort l) <-> In x l.
Proof.
  intros x l; split; intro Hi.
  - eapply Permutation_in; [apply Permutation_sym, isort_perm|auto].
  - eapply Permutation_in; [apply isort_perm|auto].
Qed.

(* ------------------------------------------------------------------ *)
(** * dedup (first-occurrence order) *)

Lemma dedup_In : forall x l, In x (dedup l) <-> In x l.
Proof.
  intros x l; induction l as [|y l IH]; cbn; [tauto|].
  rewrite filter_In, IH.
  destruct (pystr_eqb_spec y x) as [->|Hn]; cbn; intuition congruence.
Qed.

Lemma dedup_NoDup : forall l, NoDup (dedup l).
Proof.
  induction l as [|y l IH]; cbn; constructor.
  - rewrite filter_In. rewrite pystr_eqb_refl. cbn. intuition congruence.
  - apply NoDup_filter. exact IH.
Qed.

Lemma dedup_same_set : forall l1 l2,
  (forall x, In x l1 <-> In x l2) -> Permutation (dedup l1) (dedup l2).
Proof.
  intros l1 l2 Hs. apply NoDup_Permutation; try apply dedup_NoDup.
  intro x. rewrite !dedup_In. apply Hs.
Qed.

(* ------------------------------------------------------------------ *)
(** * counting *)

Lemma count_cons : forall x y l,
  count x (y :: l) = (if pystr_eqb x y then S (count x l) else count x l).
Proof. intros. unfold count. cbn. destruct (pystr_eqb x y); reflexivity. Qed.

Lemma count_perm : forall x l1 l2, Permutation l1 l2 -> count x l1 = count x l2.
Proof.
  intros x l1 l2 Hp. unfold count.
  apply Permutation_length. induction Hp; cbn.
  - constructor.
  - destruct (pystr_eqb x x0); auto.
  - destruct (pystr_eqb x x0), (pystr_eqb x y); auto using perm_swap.
  - eapply perm_trans; eauto.
Qed.

Lemma count_pos : forall x l, In x l -> (1 <= count x l)%nat.
Proof.
  intros x l; induction l as [|y l IH]; [cbn; tauto|].
  rewrite count_cons. intros [<-|Hi].
  - rewrite pystr_eqb_refl. lia.
  - specialize (IH Hi). destruct (pystr_eqb x y); lia.
Qed.

Lemma count_occ_count : forall x l, count_occ pystr_eq_dec l x = count x l.
Proof.
  intros x l; induction l as [|y l IH]; [reflexivity|]. cbn [count_occ].
  rewrite count_cons. destruct (pystr_eq_dec y x) as [->|Hn].
  - rewrite pystr_eqb_refl. congruence.
  - destruct (pystr_eqb_spec x y); [congruence|auto].
Qed.

Lemma count_eq_perm : forall l1 l2, (forall x, count x l1 = count x l2) -> Permutation l1 l2.
Proof.
  intros l1 l2 Hc. apply (Permutation_count_occ pystr_eq_dec).
  intro x. rewrite !count_occ_count. apply Hc.
Qed.

Lemma counts_perm : forall l1 l2, Permutation l1 l2 -> Permutation (counts l1) (counts l2).
Proof.
  intros l1 l2 Hp. unfold counts.
  assert (Hd : Permutation (dedup l1) (dedup l2)).
  { apply dedup_same_set. intro x; split; apply Permutation_in; auto using Permutation_sym. }
  rewrite (map_ext (fun h => (h, count h l1)) (fun h => (h, count h l2))).
  - apply Permutation_map. exact Hd.
  - intro h. f_equal. apply count_perm; auto.
Qed.

Lemma counts_In : forall h c l, In (h, c) (counts l) <-> In h l /\ c = count h l.
Proof.
  intros h c l. unfold counts. rewrite in_map_iff. split.
  - intros [x [He Hi]]. inversion He; subst. rewrite dedup_In in Hi. auto.
  - intros [Hi ->]. exists h. rewrite dedup_In. auto.
Qed.

(* two lists with permuted count tables are permutations of each other *)
Lemma counts_perm_inv : forall l1 l2, Permutation (counts l1) (counts l2) -> Permutation l1 l2.
Proof.
  intros l1 l2 Hp. apply count_eq_perm. intro x.
  destruct (in_dec pystr_eq_dec x l1) as [Hi|Hn].
  - assert (In (x, count x l1) (counts l2)).
    { eapply Permutation_in; [exact Hp|]. apply counts_In; auto. }
    apply counts_In in H. tauto.
  - destruct (in_dec pystr_eq_dec x l2) as [Hi2|Hn2].
    + assert (In (x, count x l2) (counts l1)).
      { eapply Permutation_in; [apply Permutation_sym; exact Hp|]. apply counts_In; auto. }
      apply counts_In in H. tauto.
    + unfold count.
      assert (Z1 : forall l, ~ In x l -> filter (pystr_eqb x) l = []).
      { induction l as [|y l IH]; cbn; auto. intro Hn'.
        destruct (pystr_eqb_spec x y); [subst; tauto|]. apply IH. tauto. }
      rewrite !Z1; auto.
Qed.

(* ------------------------------------------------------------------ *)
(** * separator-free tokens and join *)

Definition free (c : N) (s : pystr) : Prop := ~ In c s.

Lemma free_app : forall c a b, free c (a ++ b) <-> free c a /\ free c b.
Proof. unfold free. intros. rewrite in_app_iff. tauto. Qed.

Lemma has_char_In : forall c s, has_char c s = true <-> In c s.
Proof.
  intros c s. unfold has_char. rewrite existsb_exists. split.
  - intros [x [Hi He]]. apply N.eqb_eq in He. subst; auto.
  - intros Hi. exists c. split; auto. apply N.eqb_refl.
Qed.

(* splitting at the first separator *)
Lemma split_sep : forall c a1 b1 a2 b2,
  free c a1 -> free c a2 -> a1 ++ c :: b1 = a2 ++ c :: b2 -> a1 = a2 /\ b1 = b2.
Proof.
  unfold free. induction a1 as [|x a1 IH]; intros b1 a2 b2 F1 F2 He.
  - destruct a2 as [|y a2]; cbn in He.
    + inversion He; auto.
    + inversion He; subst. exfalso. apply F2. left; auto.
  - destruct a2 as [|y a2]; cbn in He.
    + inversion He; subst. exfalso. apply F1. left; auto.
    + inversion He; subst. destruct (IH b1 a2 b2) as [-> ->]; auto.
      * intro Hi. apply F1. right; auto.
      * intro Hi. apply F2. right; auto.
Qed.

Lemma free_end : forall c a1 a2 b2, free c a1 -> free c a2 -> a1 = a2 ++ c :: b2 -> False.
Proof.
  intros c a1 a2 b2 F1 F2 He. subst. apply F1. rewrite in_app_iff. right. left. auto.
Qed.

Lemma join_cons2 : forall sep x y l, join sep (x :: y :: l) = x ++ sep ++ join sep (y :: l).
Proof. reflexivity. Qed.

(* join with a one-character separator is injective on non-empty, separator-free tokens *)
Lemma join_inj : forall c l1 l2,
  Forall (fun t => t <> [] /\ free c t) l1 ->
  Forall (fun t => t <> [] /\ free c t) l2 ->
  join [c] l1 = join [c] l2 -> l1 = l2.
Proof.
  intros c. induction l1 as [|x l1 IH]; intros l2 F1 F2 He.
  - destruct l2 as [|y l2]; auto.
    inversion F2 as [|? ? [Hy _] F2']; subst.
    destruct l2 as [|z l2]; cbn in He.
    + congruence.
    + destruct y; [congruence|discriminate].
  - inversion F1 as [|? ? [Hx Fx] F1']; subst.
    destruct l2 as [|y l2].
    + destruct l1 as [|z l1]; cbn in He.
      * congruence.
      * destruct x; [congruence|discriminate].
    + inversion F2 as [|? ? [Hy Fy] F2']; subst.
      destruct l1 as [|x' l1]; destruct l2 as [|y' l2].
      * cbn in He. congruence.
      * rewrite join_cons2 in He. cbn [join app] in He.
        exfalso. eapply (free_end c x y); eauto.
      * rewrite join_cons2 in He. cbn [join app] in He.
        exfalso. eapply (free_end c y x); eauto.
      * rewrite !join_cons2 in He. cbn [app] in He.
        destruct (split_sep c x _ y _ Fx Fy He) as [-> Hr].
        f_equal. apply IH; auto.
Qed.

Lemma join_free : forall c d l, c <> d -> Forall (free c) l -> free c (join [d] l).
Proof.
  intros c d l Hn. induction l as [|x l IH]; intro F.
  - cbn. intro Hi; destruct Hi.
  - inversion F as [|? ? Fx F']; subst. destruct l as [|y l].
    + cbn. auto.
    + rewrite join_cons2. rewrite !free_app. repeat split; auto.
      intros [Hi|[]]. congruence.
Qed.

(* ------------------------------------------------------------------ *)
(** * decimal printing *)

Definition is_digit (c : N) : Prop := (48 <= c <= 57)%N.

Lemma uint_str_digits : forall u, Forall is_digit (uint_str u).
Proof. induction u; cbn; constructor; auto; unfold is_digit; lia. Qed.

Lemma uint_str_inj : forall u v, uint_str u = uint_str v -> u = v.
Proof.
  induction u; destruct v; cbn; intro He; try discriminate; auto;
    inversion He; f_equal; auto.
Qed.

Lemma digits_free : forall c s, Forall is_digit s -> ~ is_digit c -> free c s.
Proof.
  intros c s F Hn Hi. rewrite Forall_forall in F. apply Hn. auto.
Qed.

Lemma dec_nat_inj : forall a b, dec_nat a = dec_nat b -> a = b.
Proof.
  intros a b He. apply uint_str_inj in He.
  rewrite <- (DecimalNat.Unsigned.of_to a), <- (DecimalNat.Unsigned.of_to b). congruence.
Qed.

Lemma dec_N_inj : forall a b, dec_N a = dec_N b -> a = b.
Proof.
  intros a b He. apply uint_str_inj in He.
  rewrite <- (DecimalN.Unsigned.of_to a), <- (DecimalN.Unsigned.of_to b). congruence.
Qed.

Lemma dec_Z_inj : forall a b, dec_Z a = dec_Z b -> a = b.
Proof.
  intros a b He. unfold dec_Z in He.
  assert (Z.to_int a = Z.to_int b).
  { destruct (Z.to_int a) as [u|u] eqn:Ea, (Z.to_int b) as [v|v] eqn:Eb.
    - f_equal. apply uint_str_inj; auto.
    - exfalso. destruct u; cbn in He; try discriminate; inversion He.
    - exfalso. destruct v; cbn in He; try discriminate; inversion He.
    - f_equal. inversion He. apply uint_str_inj; auto. }
  rewrite <- (DecimalZ.of_to a), <- (DecimalZ.of_to b). congruence.
Qed.

Lemma dec_nat_digits : forall n, Forall is_digit (dec_nat n).
Proof. intro. apply uint_str_digits. Qed.
Lemma dec_N_digits : forall n, Forall is_digit (dec_N n).
Proof. intro. apply uint_str_digits. Qed.

Lemma dec_nat_nonempty : forall n, dec_nat n <> [].
Proof.
  intros n He. unfold dec_nat in He.
  assert (Hn : Nat.to_uint n <> Nil).
  { intro E. pose proof (DecimalNat.Unsigned.of_to n) as R. rewrite E in R. cbn in R.
    subst n. cbn in E. discriminate. }
  destruct (Nat.to_uint n); cbn in He; congruence.
Qed.

(* the float rendering is injective *)
Lemma app_inj_len : forall (A : Type) (a b c d : list A),
  List.length c = List.length d -> a ++ c = b ++ d -> a = b /\ c = d.
Proof.
  intros A a; induction a as [|x a IH]; intros b c d Hl He.
  - destruct b as [|y b]; cbn in *; auto.
    exfalso. subst c. cbn in Hl. rewrite app_length in Hl. lia.
  - destruct b as [|y b]; cbn in *.
    + exfalso. subst d. cbn in Hl. rewrite app_length in Hl. lia.
    + inversion He; subst. destruct (IH b c d Hl); auto. subst; auto.
Qed.

Lemma half_repr_inj : forall s t, half_repr s = half_repr t -> s = t.
Proof.
  intros s t He. unfold half_repr in He.
  assert (Hd : forall n, ~ In 45%N (dec_N n)).
  { intros n Hi. pose proof (dec_N_digits n) as F. rewrite Forall_forall in F.
    specialize (F _ Hi). unfold is_digit in F. lia. }
  assert (Hne : forall n, dec_N n <> []).
  { intros n E. unfold dec_N in E.
    assert (N.to_uint n <> Nil).
    { intro E'. pose proof (DecimalN.Unsigned.of_to n) as R. rewrite E' in R. cbn in R. subst n. cbn in E'. discriminate. }
    destruct (N.to_uint n); cbn in E; congruence. }
  rewrite !app_assoc in He.
  apply app_inj_len in He.
  2:{ destruct (Z.odd s), (Z.odd t); reflexivity. }
  destruct He as [He1 He2].
  assert (Hodd : Z.odd s = Z.odd t).
  { destruct (Z.odd s), (Z.odd t); auto; cbn in He2; discriminate. }
  assert (Hsign : Z.ltb s 0 = Z.ltb t 0 /\ dec_N (Z.to_N (Z.abs s / 2)) = dec_N (Z.to_N (Z.abs t / 2))).
  { destruct (Z.ltb s 0), (Z.ltb t 0); cbn in He1.
    - inversion He1; auto.
    - exfalso. destruct (dec_N (Z.to_N (Z.abs t / 2))) eqn:E; [eapply Hne; eauto|].
      inversion He1; subst. apply (Hd (Z.to_N (Z.abs t / 2))). rewrite E. left; auto.
    - exfalso. destruct (dec_N (Z.to_N (Z.abs s / 2))) eqn:E; [eapply Hne; eauto|].
      inversion He1; subst. apply (Hd (Z.to_N (Z.abs s / 2))). rewrite E. left; auto.
    - auto. }
  destruct Hsign as [Hs Hq]. apply dec_N_inj in Hq.
  assert (Hq' : (Z.abs s / 2 = Z.abs t / 2)%Z).
  { apply (f_equal Z.of_N) in Hq. rewrite !Z2N.id in Hq; auto; apply Z.div_pos; lia. }
  assert (Ha : forall z, Z.odd (Z.abs z) = Z.odd z).
  { intro z. destruct (Z.abs_spec z) as [[_ ->]|[_ ->]]; auto. apply Z.odd_opp. }
  pose proof (Z.div_mod (Z.abs s) 2) as D1. pose proof (Z.div_mod (Z.abs t) 2) as D2.
  rewrite Zmod_odd, Ha in D1. rewrite Zmod_odd, Ha in D2.
  assert (Z.abs s = Z.abs t) by (rewrite D1, D2 by lia; rewrite Hq', Hodd; reflexivity).
  destruct (Z.ltb_spec s 0), (Z.ltb_spec t 0); try discriminate; lia.
Qed.

(** Extended model of deepdiff/deephash.py: more of [_hash] and more leaf types
    than Hash/HashModel.v, over an extended universe local to the Hash block.
    Definitions only.

    New with respect to HashModel.v
    - leaves: datetime.date, datetime.datetime (naive / fixed UTC offset),
      datetime.time (whole seconds), datetime.timedelta, decimal.Decimal,
      pathlib.PosixPath; objects given by their attribute dict: namedtuples
      ("nt" + class name), Enum members and plain objects ("obj" + class name);
    - the second component of every table entry: the item COUNT of [_hash];
    - [apply_hash=False] (the raw serialisation, nothing handed to the hasher);
    - [_skip_this] inside [_hash], [_prep_iterable] and [_prep_dict] as a
      predicate [skip : path -> value -> bool] (exclude_types, exclude_paths,
      include_paths, exclude_regex_paths, exclude_obj_callback are instances;
      [skip_cfg] is the instance the correspondence runs); a skipped root has
      no hash at all ([None]);
    - [_prep_dict] dropping the item whose key hash is falsy: the key was
      skipped, or its hash is the empty string (a hasher that returns '', or
      apply_hash=False with ignore_string_type_changes and the key '');
    - [number_format_notation='e']; ints beyond 2^53 under number formatting
      (the int is converted to a double first: round-half-even to 53 bits);
    - [truncate_datetime]; [ignore_type_in_groups] (in DeepHash it only renames
      the class of an object that belongs to a group).

    The [hashes] table is not threaded here ([xhash] is the table-free
    function, like [hash_pure]); the table is the subject of HashModel.hash_memo.

    Followed code: deephash.py [_hash] (skip first, then the dispatch order
    None, str/bytes, Path, datetime/time, date, numbers (int, float, Decimal,
    timedelta), dict, tuple (namedtuple when it has _asdict), other iterables,
    bool, objects), [_prep_dict], [_prep_iterable], [_prep_obj],
    [_prep_number], [_prep_datetime], [_prep_date], [_prep_path]; helper.py
    [number_to_string], [datetime_normalize], [time_to_seconds]. *)
From Coq Require Import List ZArith NArith Bool String Decimal.
Import ListNotations.
From DD Require Import Base.Sx Base.PyStr Base.Value Hash.HashModel.

(* ------------------------------------------------------------------ *)
(** * The extended universe *)

Inductive xleaf :=
| LDate (y m d : Z)                          (* datetime.date *)
| LDateTime (us : Z) (off : option Z)        (* wall clock, microseconds since 1970-01-01T00:00 of its own zone; UTC offset in minutes when aware *)
| LTime (sec : Z)                            (* datetime.time with microsecond = 0, seconds since midnight (tzinfo is ignored by the code) *)
| LTimedelta (us : Z)                        (* total microseconds *)
| LDecimal (neg : bool) (coef : N) (exp : Z) (* finite Decimal: (-1)^neg * coef * 10^exp *)
| LPath (s : pystr).                         (* PosixPath: str(p) *)

Inductive xatom := XA (a : atom) | XL (l : xleaf).

Inductive okind := ONamed | OObj.            (* namedtuple ("nt") / any other object ("obj") *)

Inductive xvalue :=
| XAtom (a : xatom)
| XList (xs : list xvalue)
| XTuple (xs : list xvalue)
| XDict (kvs : list (xatom * xvalue))
| XSet (xs : list xatom)
| XFrozen (xs : list xatom)
| XObj (k : okind) (cls : pystr) (fields : list (pystr * xvalue)).   (* attribute dict in its own order *)

Inductive xkey := KKey (a : xatom) | KIdx (i : nat) | KAttr (name : pystr).
Definition xpath := list xkey.               (* from the root *)

Inductive tunit := USecond | UMinute | UHour | UDay.

Record xopts := mk_xopts {
  xbase : hopts;
  apply_hash : bool;                         (* default True *)
  notation_e : bool;                         (* number_format_notation = 'e' (default 'f') *)
  truncate : option tunit;                   (* truncate_datetime, default None *)
  type_groups : list (list pystr)            (* ignore_type_in_groups, by class name; default [] *)
}.
Definition default_xopts : xopts := mk_xopts default_opts true false None [].
Definition xmode (o : hopts) : xopts := mk_xopts o true false None [].

(* ------------------------------------------------------------------ *)
(** * Text of the new leaves *)

Definition pad (w : nat) (s : pystr) : pystr := zeros (w - List.length s) ++ s.
Definition pad2 (n : Z) : pystr := pad 2 (dec_Z n).
Definition pad4 (n : Z) : pystr := pad 4 (dec_Z n).
Definition pad6 (n : Z) : pystr := pad 6 (dec_Z n).

Local Open Scope Z_scope.

(* days since 1970-01-01 -> (year, month, day), proleptic Gregorian *)
Definition civil_from_days (z0 : Z) : Z * Z * Z :=
  let z := z0 + 719468 in
  let era := z / 146097 in
  let doe := z - era * 146097 in
  let yoe := (doe - doe / 1460 + doe / 36524 - doe / 146096) / 365 in
  let y := yoe + era * 400 in
  let doy := doe - (365 * yoe + yoe / 4 - yoe / 100) in
  let mp := (5 * doy + 2) / 153 in
  let d := doy - (153 * mp + 2) / 5 + 1 in
  let m := if Z.ltb mp 10 then mp + 3 else mp - 9 in
  (if Z.leb m 2 then y + 1 else y, m, d).

Definition date_text (y m d : Z) : pystr := pad4 y ++ [45%N] ++ pad2 m ++ [45%N] ++ pad2 d.

Definition unit_us (u : tunit) : Z :=
  match u with USecond => 1000000 | UMinute => 60000000 | UHour => 3600000000 | UDay => 86400000000 end.
Definition trunc_us (t : option tunit) (us : Z) : Z :=
  match t with None => us | Some u => us - us mod unit_us u end.

(* datetime_normalize: truncate in the datetime's own zone, then astimezone(utc) / replace(tzinfo=utc); str() *)
Definition datetime_text (t : option tunit) (us : Z) (off : option Z) : pystr :=
  let utc := trunc_us t us - 60000000 * match off with Some o => o | None => 0 end in
  let days := utc / 86400000000 in
  let r := utc mod 86400000000 in
  let '(y, m, d) := civil_from_days days in
  let micro := r mod 1000000 in
  let s := r / 1000000 in
  date_text y m d ++ [32%N] ++ pad2 (s / 3600) ++ [58%N] ++ pad2 ((s / 60) mod 60) ++ [58%N] ++ pad2 (s mod 60) ++
  (if Z.eqb micro 0 then [] else [46%N] ++ pad6 micro) ++ s2p "+00:00".

(* time_to_seconds of the truncated time *)
Definition time_text (t : option tunit) (s : Z) : pystr :=
  dec_Z (match t with
         | None | Some USecond => s
         | Some UMinute => s - s mod 60
         | Some UHour => s - s mod 3600
         | Some UDay => 0
         end).

(* str(timedelta) *)
Definition timedelta_text (us : Z) : pystr :=
  let days := us / 86400000000 in
  let r := us mod 86400000000 in
  let micro := r mod 1000000 in
  let s := r / 1000000 in
  (if Z.eqb days 0 then []
   else dec_Z days ++ s2p " day" ++ (if Z.eqb (Z.abs days) 1 then [] else s2p "s") ++ s2p ", ") ++
  dec_Z (s / 3600) ++ [58%N] ++ pad2 ((s / 60) mod 60) ++ [58%N] ++ pad2 (s mod 60) ++
  (if Z.eqb micro 0 then [] else [46%N] ++ pad6 micro).

(* str(Decimal): the to-scientific-string of the General Decimal Arithmetic specification *)
Definition decimal_text (neg : bool) (coef : N) (e : Z) : pystr :=
  let ds := dec_N coef in
  let len := Z.of_nat (List.length ds) in
  let adj := e + (len - 1) in
  (if neg then [45%N] else []) ++
  if Z.leb e 0 && Z.leb (-6) adj then
    if Z.eqb e 0 then ds
    else if Z.ltb (- e) len then firstn (Z.to_nat (len + e)) ds ++ [46%N] ++ skipn (Z.to_nat (len + e)) ds
    else s2p "0." ++ zeros (Z.to_nat (- e - len)) ++ ds
  else
    firstn 1 ds ++ (if Z.ltb 1 len then [46%N] ++ skipn 1 ds else []) ++ s2p "E" ++
    (if Z.ltb adj 0 then [45%N] else [43%N]) ++ dec_Z (Z.abs adj).

(* round-half-even division by a positive integer *)
Definition div_half_even (a b : Z) : Z :=
  let q := a / b in
  let r := a mod b in
  if Z.ltb (2 * r) b then q
  else if Z.ltb b (2 * r) then q + 1
  else if Z.even q then q else q + 1.

(* number_to_string for a Decimal, notation 'f': quantize to n decimals (ROUND_HALF_EVEN), -0 -> 0, "{:.nf}" *)
Definition decimal_fmt (n : nat) (neg : bool) (coef : N) (e : Z) : pystr :=
  let k := e + Z.of_nat n in
  let q := if Z.leb 0 k then Z.of_N coef * 10 ^ k else div_half_even (Z.of_N coef) (10 ^ (- k)) in
  let ds := pad (S n) (dec_Z q) in
  let cut := (List.length ds - n)%nat in
  (if neg && negb (Z.eqb q 0) then [45%N] else []) ++ firstn cut ds ++
  match n with O => [] | S _ => [46%N] ++ skipn cut ds end.

(* ------------------------------------------------------------------ *)
(** * Number formatting of ints and (half-integer) floats, both notations *)

(* float(z) for an int: nearest double, ties to even (53 significant bits) *)
Definition round53 (z : Z) : Z :=
  let a := Z.abs z in
  let k := Z.log2 a - 52 in
  if Z.leb k 0 then z
  else Z.sgn z * (div_half_even a (2 ^ k) * 2 ^ k).

(* "{:.nf}".format(round(z, n)) (n = 0: through int()) for an int z *)
Definition xfmt_int (n : nat) (z : Z) : pystr :=
  dec_Z (round53 z) ++ match n with O => [] | S _ => [46%N] ++ zeros n end.

(* "{:.ne}".format(v) for the exact value num/den (den = 1 or 2), then the regexp that strips the padding zero of
   the exponent *)
Fixpoint exp10_search (fuel : nat) (e : Z) (num den : Z) : Z :=
  (* the largest e' >= e (at most fuel steps up) with 10^e' * den <= num, given 10^e * den <= num *)
  match fuel with
  | O => e
  | S f => if Z.leb (10 ^ (e + 1) * den) num then exp10_search f (e + 1) num den else e
  end.
Definition sci_text (n : nat) (neg : bool) (num den : Z) : pystr :=
  let nn := Z.of_nat n in
  if Z.eqb num 0 then
    s2p "0" ++ match n with O => [] | S _ => [46%N] ++ zeros n end ++ s2p "e+0"
  else
    (* exponent: num/den >= 1/2 in all our uses (den is 1 or 2), so the search starts at -1 *)
    let e := exp10_search (Z.to_nat (Z.log2 num) + 2) (-1) num den in
    (* mantissa with n decimals: num / (den * 10^(e-n)) *)
    let m := if Z.leb e nn then div_half_even (num * 10 ^ (nn - e)) den
             else div_half_even num (den * 10 ^ (e - nn)) in
    let '(m, e) := if Z.leb (10 ^ (nn + 1)) m then (m / 10, e + 1) else (m, e) in
    let ds := dec_Z m in
    (if neg then [45%N] else []) ++ firstn 1 ds ++
    match n with O => [] | S _ => [46%N] ++ skipn 1 ds end ++
    s2p "e" ++ (if Z.ltb e 0 then [45%N] else [43%N]) ++ dec_Z (Z.abs e).

Definition xnum_int (xo : xopts) (z : Z) : pystr :=
  match eff_digits (xbase xo) with
  | None => dec_Z z
  | Some n => if notation_e xo then let r := round53 z in sci_text n (Z.ltb r 0) (Z.abs r) 1
              else xfmt_int n z
  end.
Definition xnum_half (xo : xopts) (t : Z) : pystr :=
  match eff_digits (xbase xo) with
  | None => half_repr t
  | Some n =>
      if notation_e xo then
        match n with
        | O => let r := round_half_even t in sci_text 0 (Z.ltb r 0) (Z.abs r) 1
        | S _ => sci_text n (Z.ltb t 0) (Z.abs t) 2
        end
      else fmt_half n t
  end.

(* ------------------------------------------------------------------ *)
(** * Scalars: the result of the type dispatch, before the final step *)

Definition xleaf_result (xo : xopts) (l : xleaf) : pystr :=
  let o := xbase xo in
  match l with
  | LDate y m d => s2p "datetime:" ++ date_text y m d
  | LDateTime us off => s2p "datetime:" ++ datetime_text (truncate xo) us off
  | LTime sec => s2p "datetime:" ++ time_text (truncate xo) sec
  | LTimedelta us => num_type o (s2p "timedelta") ++ c_colon ++ timedelta_text us
  | LDecimal neg coef e =>
      num_type o (s2p "Decimal") ++ c_colon ++
      match eff_digits o with None => decimal_text neg coef e | Some n => decimal_fmt n neg coef e end
  | LPath s => s2p "PosixPath:" ++ s
  end.

Definition xatom_result (xo : xopts) (a : xatom) : pystr :=
  let o := xbase xo in
  match a with
  | XA (AInt z) => num_type o (s2p "int") ++ c_colon ++ xnum_int xo z
  | XA (AHalf t) => num_type o (s2p "float") ++ c_colon ++ xnum_half xo t
  | XA (AStr s) => prep_string o (s2p "str") s
  | XA (ABytes s) => prep_string o (s2p "bytes") s
  | XA b => atom_result o b
  | XL l => xleaf_result xo l
  end.
Definition is_text (a : xatom) : bool :=
  match a with XA (AStr _) | XA (ABytes _) => true | _ => false end.

(* the domain: number_to_string raises TypeError on a timedelta (round() is not defined for it) *)
Definition xatom_in_domain (xo : xopts) (a : xatom) : bool :=
  match a with
  | XL (LTimedelta _) => match eff_digits (xbase xo) with None => true | Some _ => false end
  | XL (LDecimal _ _ _) => negb (notation_e xo)       (* Decimal with notation 'e' is not modelled *)
  | _ => true
  end.

Definition xis_private (k : xatom) : bool :=
  match k with XA a => is_private a | _ => false end.

Definition is_empty (s : pystr) : bool := match s with [] => true | _ => false end.

(* class name of an object as _prep_dict prints it: the names of its group when it belongs to one *)
Definition type_str (xo : xopts) (cls : pystr) : pystr :=
  match find (fun g => existsb (pystr_eqb cls) g) (type_groups xo) with
  | Some g => join c_comma g
  | None => cls
  end.
Definition okind_prefix (k : okind) : pystr := match k with ONamed => s2p "nt" | OObj => s2p "obj" end.

Definition obj_result (head : pystr) (items : list pystr) : pystr :=
  head ++ s2p ":{" ++ join c_semi (isort items) ++ [125%N].

(* what _skip_this is shown by _hash: a bool has become the Enum member BoolObj.TRUE / BoolObj.FALSE *)
Definition boolobj (b : bool) : xvalue :=
  XObj OObj (s2p "BoolObj")
       [(s2p "_value_", XAtom (XA (AInt (if b then 1 else 0)))); (s2p "_name_", XAtom (XA (AStr (if b then s2p "TRUE" else s2p "FALSE"))))].
Definition hview (v : xvalue) : xvalue :=
  match v with XAtom (XA (ABool b)) => boolobj b | _ => v end.
(* str(None): how an item whose hash is None is entered in the parent's serialisation *)
Definition none_token : pystr := s2p "None".

(* ------------------------------------------------------------------ *)
(** * _hash *)

Section XHash.
Variable H : pystr -> pystr.
Variable skip : xpath -> xvalue -> bool.
Variable xo : xopts.

(* the final step: hash (re-tagged as a str unless it is one) or leave raw *)
Definition fin (text : bool) (result : pystr) : pystr :=
  if apply_hash xo then H (if text then result else retag (xbase xo) result) else result.

Definition xatom_hash (a : xatom) : pystr := fin (is_text a) (xatom_result xo a).

(* _hash(key, parent = path of the item): None when the key object is skipped *)
Definition xkey_hash (p : xpath) (k : xatom) : option pystr :=
  if skip p (hview (XAtom k)) then None else Some (xatom_hash k).

(* members of a set / frozenset: item i at path p ++ [i]; _prep_iterable tests the raw item, _hash tests it again
   after bools have become BoolObj members - an item refused only by the second test is counted as the token "None" *)
Fixpoint xmembers (p : xpath) (i : nat) (xs : list xatom) : list pystr * nat :=
  match xs with
  | [] => ([], O)
  | a :: r => let '(hs, c) := xmembers p (S i) r in
              if skip (p ++ [KIdx i]) (XAtom a) then (hs, c)
              else if skip (p ++ [KIdx i]) (hview (XAtom a)) then (none_token :: hs, c)
              else (xatom_hash a :: hs, S c)
  end.

(* (hash or raw serialisation, count); None = skipped: _hash returns (None, 0).  _hash turns a bool into a BoolObj
   member BEFORE it consults _skip_this ([hview]); _prep_iterable and _prep_dict consult it on the raw item first. *)
Fixpoint xhash (p : xpath) (v : xvalue) {struct v} : option (pystr * nat) :=
  if skip p (hview v) then None else
  let o := xbase xo in
  let items :=
    fix items (i : nat) (xs : list xvalue) : list pystr * nat :=
      match xs with
      | [] => ([], O)
      | x :: r => let '(hs, c) := items (S i) r in
                  if skip (p ++ [KIdx i]) x then (hs, c)
                  else match xhash (p ++ [KIdx i]) x with
                       | None => (none_token :: hs, c)
                       | Some (h, n) => (h :: hs, (n + c)%nat)
                       end
      end in
  Some
  match v with
  | XAtom a => (xatom_hash a, 1%nat)
  | XList xs => let '(hs, c) := items O xs in (fin false (seq_result (s2p "list") (arrange o hs)), S c)
  | XTuple xs => let '(hs, c) := items O xs in (fin false (seq_result (s2p "tuple") (arrange o hs)), S c)
  | XSet xs => let '(hs, c) := xmembers p O xs in (fin false (seq_result (s2p "set") (arrange o hs)), S c)
  | XFrozen xs => let '(hs, c) := xmembers p O xs in (fin false (seq_result (s2p "frozenset") (arrange o hs)), S c)
  | XDict kvs =>
      let '(its, c) :=
        (fix go (kvs : list (xatom * xvalue)) : list pystr * nat :=
           match kvs with
           | [] => ([], O)
           | (k, x) :: r =>
               let '(its, c) := go r in
               if ignore_private o && xis_private k then (its, S c)
               else match xkey_hash (p ++ [KKey k]) k with
                    | None => (its, S c)
                    | Some kh =>
                        if is_empty kh || skip (p ++ [KKey k]) x then (its, S c)
                        else match xhash (p ++ [KKey k]) x with
                             | None => (dict_item kh none_token :: its, S c)
                             | Some (vh, n) => (dict_item kh vh :: its, S (n + c))
                             end
                    end
           end) kvs in
      (fin false (obj_result (s2p "dict") its), S c)
  | XObj k cls fields =>
      let '(its, c) :=
        (fix go (fs : list (pystr * xvalue)) : list pystr * nat :=
           match fs with
           | [] => ([], O)
           | (name, x) :: r =>
               let '(its, c) := go r in
               if ignore_private o && is_prefix (s2p "__") name then (its, S c)
               else match xkey_hash (p ++ [KAttr name]) (XA (AStr name)) with
                    | None => (its, S c)
                    | Some kh =>
                        if is_empty kh || skip (p ++ [KAttr name]) x then (its, S c)
                        else match xhash (p ++ [KAttr name]) x with
                             | None => (dict_item kh none_token :: its, S c)
                             | Some (vh, n) => (dict_item kh vh :: its, S (n + c))
                             end
                    end
           end) fields in
      (fin false (okind_prefix k ++ obj_result (type_str xo cls) its), S c)
  end.

(* DeepHash(v, ...)[v] and DeepHash(v, ...).get(v, extract_index=1) *)
Definition xdeephash (v : xvalue) : option pystr := option_map fst (xhash [] v).
Definition xcount (v : xvalue) : option nat := option_map snd (xhash [] v).

End XHash.

(* ------------------------------------------------------------------ *)
(** * _skip_this for a concrete configuration (what the correspondence runs) *)

Inductive xty := XTNone | XTBool | XTInt | XTFloat | XTStr | XTBytes | XTDate | XTDateTime | XTTime | XTTimedelta
               | XTDecimal | XTPath | XTList | XTTuple | XTDict | XTSet | XTFrozen | XTObj (cls : pystr).
Definition xty_eqb (a b : xty) : bool :=
  match a, b with
  | XTNone, XTNone | XTBool, XTBool | XTInt, XTInt | XTFloat, XTFloat | XTStr, XTStr | XTBytes, XTBytes
  | XTDate, XTDate | XTDateTime, XTDateTime | XTTime, XTTime | XTTimedelta, XTTimedelta | XTDecimal, XTDecimal
  | XTPath, XTPath | XTList, XTList | XTTuple, XTTuple | XTDict, XTDict | XTSet, XTSet | XTFrozen, XTFrozen => true
  | XTObj c, XTObj d => pystr_eqb c d
  | _, _ => false
  end.
Definition xtype_of (v : xvalue) : xty :=
  match v with
  | XAtom (XA a) => match a with ANone => XTNone | ABool _ => XTBool | AInt _ => XTInt | AHalf _ => XTFloat
                                | AStr _ => XTStr | ABytes _ => XTBytes end
  | XAtom (XL l) => match l with LDate _ _ _ => XTDate | LDateTime _ _ => XTDateTime | LTime _ => XTTime
                                | LTimedelta _ => XTTimedelta | LDecimal _ _ _ => XTDecimal | LPath _ => XTPath end
  | XList _ => XTList | XTuple _ => XTTuple | XDict _ => XTDict | XSet _ => XTSet | XFrozen _ => XTFrozen
  | XObj _ cls _ => XTObj cls
  end.
(* isinstance(obj, T) for the exact classes of the universe: bool is an int, datetime is a date, a namedtuple is a tuple *)
Definition isinstance (v : xvalue) (t : xty) : bool :=
  xty_eqb (xtype_of v) t ||
  match xtype_of v, t with
  | XTBool, XTInt => true
  | XTDateTime, XTDate => true
  | _, _ => false
  end ||
  match v, t with XObj ONamed _ _, XTTuple => true | _, _ => false end.

Definition xleaf_eqb (a b : xleaf) : bool :=
  match a, b with
  | LDate y m d, LDate y' m' d' => Z.eqb y y' && Z.eqb m m' && Z.eqb d d'
  | LDateTime u o, LDateTime u' o' =>
      Z.eqb u u' && match o, o' with Some x, Some y => Z.eqb x y | None, None => true | _, _ => false end
  | LTime s, LTime s' => Z.eqb s s'
  | LTimedelta u, LTimedelta u' => Z.eqb u u'
  | LDecimal n c e, LDecimal n' c' e' => Bool.eqb n n' && N.eqb c c' && Z.eqb e e'
  | LPath s, LPath s' => pystr_eqb s s'
  | _, _ => false
  end.
Definition xatom_eqb (a b : xatom) : bool :=
  match a, b with
  | XA x, XA y => atom_eqb x y
  | XL x, XL y => xleaf_eqb x y
  | _, _ => false
  end.
(* paths are compared as DeepHash spells them: the int key 1 and the index 1 are both "[1]" *)
Definition xkey_eqb (a b : xkey) : bool :=
  match a, b with
  | KKey (XA (AInt z)), KIdx i | KIdx i, KKey (XA (AInt z)) => Z.eqb z (Z.of_nat i)
  | KKey x, KKey y => xatom_eqb x y
  | KIdx i, KIdx j => Nat.eqb i j
  | KAttr s, KAttr t => pystr_eqb s t
  | _, _ => false
  end.
Fixpoint xpath_eqb (p q : xpath) : bool :=
  match p, q with
  | [], [] => true
  | a :: p', b :: q' => xkey_eqb a b && xpath_eqb p' q'
  | _, _ => false
  end.
Fixpoint xpath_prefix (p q : xpath) : bool :=    (* p is a prefix of q *)
  match p, q with
  | [], _ => true
  | a :: p', b :: q' => xkey_eqb a b && xpath_prefix p' q'
  | _, _ => false
  end.

Record skip_cfg := mk_skip {
  exclude_paths : list xpath;
  include_paths : list xpath;
  exclude_types : list xty;
  exclude_ints : list Z            (* exclude_obj_callback = lambda obj, path: type(obj) is int and obj in [...] *)
}.
(* _skip_this: the if / elif chain as written: with include_paths (and a parent other than root) the later
   criteria are not consulted.  The code matches include paths with str.startswith on the spelled path; the closing
   bracket / quote makes that the structural prefix relation for keys without quotes and brackets (keys with them are
   kept out of the correspondence inputs). *)
Definition skip_this (c : skip_cfg) (p : xpath) (v : xvalue) : bool :=
  let s1 := existsb (xpath_eqb p) (exclude_paths c) in
  match include_paths c, p with
  | _ :: _, _ :: _ =>
      if existsb (xpath_eqb p) (include_paths c) then s1
      else negb (existsb (fun q => xpath_prefix q p) (include_paths c))
  | _, _ =>
      if existsb (isinstance v) (exclude_types c) then true
      else match v with
           | XAtom (XA (AInt z)) => s1 || existsb (Z.eqb z) (exclude_ints c)
           | _ => s1
           end
  end.
Definition no_skip (p : xpath) (v : xvalue) : bool := false.

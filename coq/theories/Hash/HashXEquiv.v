(** Equal content on the extended universe (HashXModel.v), written independently of the hash model: the relation
    [Equiv.eqv] / [HashAlike.eqvi] carried over - scalars (the new leaves included) only equal to themselves, lists /
    tuples per mode, dicts and objects up to the order of their visible items / attributes, sets up to iteration
    order when ignore_iterable_order, in the same iteration order otherwise.  Definitions only. *)
From Coq Require Import List Bool Permutation String.
Import ListNotations.
From DD Require Import Base.PyStr Base.Value Hash.HashModel Hash.HashXModel.

Section XEqv.
Variable o : hopts.

Inductive gseq_rel {A : Type} (R : A -> A -> Prop) : list A -> list A -> Prop :=
| gseq_as_set xs ys :
    ignore_repetition o = true -> ignore_iterable_order o = true ->
    (forall x, In x xs -> exists y, In y ys /\ R x y) ->
    (forall y, In y ys -> exists x, In x xs /\ R x y) ->
    gseq_rel R xs ys
| gseq_as_multiset xs ys ys' :
    ignore_repetition o = false -> ignore_iterable_order o = true ->
    Permutation ys ys' -> Forall2 R xs ys' ->
    gseq_rel R xs ys
| gseq_ordered xs ys :
    ignore_iterable_order o = false ->
    Forall2 R xs ys ->
    gseq_rel R xs ys.

Inductive gitems_rel {K A : Type} (R : A -> A -> Prop) : list (K * A) -> list (K * A) -> Prop :=
| gitems_perm l1 l2 l2' :
    Permutation l2 l2' ->
    Forall2 (fun p q => fst p = fst q /\ R (snd p) (snd q)) l1 l2' ->
    gitems_rel R l1 l2.

Definition xhidden (k : xatom) : bool := ignore_private o && xis_private k.
Definition xvis {B : Type} (kvs : list (xatom * B)) : list (xatom * B) :=
  filter (fun kv => negb (xhidden (fst kv))) kvs.
Definition fhidden (name : pystr) : bool := ignore_private o && is_prefix (s2p "__"%string) name.
Definition fvis {B : Type} (fs : list (pystr * B)) : list (pystr * B) :=
  filter (fun kv => negb (fhidden (fst kv))) fs.
Definition xmembers_rel (xs ys : list xatom) : Prop :=
  if ignore_iterable_order o then Permutation xs ys else xs = ys.

Inductive xeqvi : xvalue -> xvalue -> Prop :=
| xe_atom a : xeqvi (XAtom a) (XAtom a)
| xe_list xs ys : gseq_rel xeqvi xs ys -> xeqvi (XList xs) (XList ys)
| xe_tuple xs ys : gseq_rel xeqvi xs ys -> xeqvi (XTuple xs) (XTuple ys)
| xe_dict kvs kvs' : gitems_rel xeqvi (xvis kvs) (xvis kvs') -> xeqvi (XDict kvs) (XDict kvs')
| xe_set xs ys : xmembers_rel xs ys -> xeqvi (XSet xs) (XSet ys)
| xe_frozen xs ys : xmembers_rel xs ys -> xeqvi (XFrozen xs) (XFrozen ys)
| xe_obj k cls fs fs' : gitems_rel xeqvi (fvis fs) (fvis fs') -> xeqvi (XObj k cls fs) (XObj k cls fs').

(* paths that differ at most in list / set indices *)
Definition ksim (a b : xkey) : Prop := a = b \/ (exists i j, a = KIdx i /\ b = KIdx j).
(* the paths at which two related values may sit: anywhere up to indices when the order of items does not count,
   at the same path otherwise *)
Definition psim (p q : xpath) : Prop :=
  if ignore_iterable_order o then Forall2 ksim p q else p = q.

End XEqv.

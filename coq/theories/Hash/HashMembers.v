(** Reusable pieces for models that share DeepDiff's [hashes] table: what
    [DeepDiff._create_hashtable] does for the members of a set / the items of
    a list (one DeepHash call per item on the shared table, in order, then one
    for the container itself), and what [_diff_set] reports from it.
    Definitions + the lemmas that make the table transparent under the
    alias-free guard. *)
From Coq Require Import List ZArith NArith Bool Lia Permutation Arith String.
Import ListNotations.
From DD Require Import Base.PyStr Base.Value Hash.HashModel Hash.Equiv Hash.HashProofsBase
  Hash.HashProofsC06 Hash.HashProofsC07 Hash.HashProofsMemo.

Section Members.
Variable H : pystr -> pystr.
Variable o : hopts.

(* DeepHash(item, hashes=m)[item] for each member of a set, in iteration order *)
Definition hash_members_memo (m : memo) (xs : list atom) : list pystr * memo := atoms_memo H o xs m.
(* ... for each item of a list / tuple, in order *)
Definition hash_items_memo (m : memo) (xs : list value) : list pystr * memo := items_memo H o xs m.

(* local_hashes of _create_hashtable: item hash -> first item with that hash, in first-occurrence order *)
Fixpoint add_hashes (hs : list pystr) (items : list value) (acc : list (pystr * value)) : list (pystr * value) :=
  match hs, items with
  | h :: hs', x :: items' =>
      add_hashes hs' items' (if existsb (fun e => pystr_eqb (fst e) h) acc then acc else acc ++ [(h, x)])
  | _, _ => acc
  end.

Definition children (v : value) : list value :=
  match v with
  | VList xs | VTuple xs => xs
  | VSet xs | VFrozen xs => map VAtom xs
  | _ => []
  end.

(* _create_hashtable(level, t): per-item calls, then the container itself *)
Definition create_hashtable (m : memo) (v : value) : list (pystr * value) * memo :=
  let '(hs, m1) := hash_items_memo m (children v) in
  (add_hashes hs (children v) [], snd (hash_memo H o v m1)).

(* _diff_set: (set_item_removed, set_item_added, table afterwards) *)
Definition in_table (h : pystr) (t : list (pystr * value)) : bool := existsb (fun e => pystr_eqb (fst e) h) t.
Definition diff_set_memo (m : memo) (t1 t2 : value) : list value * list value * memo :=
  let '(tab1, m1) := create_hashtable m t1 in
  let '(tab2, m2) := create_hashtable m1 t2 in
  (map snd (filter (fun e => negb (in_table (fst e) tab2)) tab1),
   map snd (filter (fun e => negb (in_table (fst e) tab1)) tab2), m2).

(* successive _diff_set calls of one DeepDiff run (e.g. the set pairs at the indexes of two lists) *)
Fixpoint diff_sets_memo (m : memo) (pairs : list (value * value)) : list (list value * list value) * memo :=
  match pairs with
  | [] => ([], m)
  | (a, b) :: r => let '(rem, add, m1) := diff_set_memo m a b in
                   let '(res, m2) := diff_sets_memo m1 r in ((rem, add) :: res, m2)
  end.

(* ---- transparency under the alias-free guard ---- *)

Lemma items_memo_atoms : forall xs m, items_memo H o (map VAtom xs) m = atoms_memo H o xs m.
Proof.
  induction xs as [|a xs IH]; intro m; [reflexivity|].
  cbn [map items_memo atoms_memo]. rewrite <- hash_atom_memo_eq.
  destruct (hash_atom_memo H o a m) as [h m1]. fold (items_memo H o). rewrite IH. reflexivity.
Qed.

Theorem hash_members_memo_pure : forall m xs,
  memo_ok H o m -> no_alias (matoms m ++ xs) = true ->
  fst (hash_members_memo m xs) = map (hash_atom H o) xs /\
  memo_ok H o (snd (hash_members_memo m xs)) /\
  incl (matoms (snd (hash_members_memo m xs))) (matoms m ++ xs).
Proof.
  intros m xs Hok Ha. apply no_alias_NA in Ha. unfold hash_members_memo.
  apply (atoms_sound H o _ Ha xs m Hok).
  - apply incl_appl, incl_refl.
  - apply incl_appr, incl_refl.
Qed.

Theorem hash_items_memo_pure : forall m xs,
  memo_ok H o m ->
  (forall x, In x xs -> wf x = true /\ order_ok o x = true) ->
  no_alias (matoms m ++ flat_map atoms_of xs) = true ->
  fst (hash_items_memo m xs) = map (hash_pure H o) xs /\
  memo_ok H o (snd (hash_items_memo m xs)) /\
  incl (matoms (snd (hash_items_memo m xs))) (matoms m ++ flat_map atoms_of xs).
Proof.
  intros m xs Hok Hx Ha. apply no_alias_NA in Ha. unfold hash_items_memo.
  apply (items_sound H o (matoms m ++ flat_map atoms_of xs) xs).
  - apply Forall_forall. intros x _. apply (memo_sound H o _ Ha).
  - exact Hok.
  - apply incl_appl, incl_refl.
  - intros x Hi. destruct (Hx x Hi) as [W O]. repeat split; auto.
    intros a Hin. apply in_or_app. right. apply in_flat_map. eauto.
Qed.

(* the table _create_hashtable builds holds the memo-free hashes, and the shared table stays consistent *)
Theorem create_hashtable_pure : forall m v,
  memo_ok H o m -> wf v = true -> order_ok o v = true ->
  (forall x, In x (children v) -> wf x = true /\ order_ok o x = true) ->
  incl (flat_map atoms_of (children v)) (atoms_of v) ->
  no_alias (matoms m ++ atoms_of v) = true ->
  fst (create_hashtable m v) = add_hashes (map (hash_pure H o) (children v)) (children v) [] /\
  memo_ok H o (snd (create_hashtable m v)) /\
  incl (matoms (snd (create_hashtable m v))) (matoms m ++ atoms_of v).
Proof.
  intros m v Hok Wv Ov Hx Hinc Ha. apply no_alias_NA in Ha. unfold create_hashtable, hash_items_memo.
  assert (Hs : forall x, sound_at H o (matoms m ++ atoms_of v) x) by (intro x; apply (memo_sound H o _ Ha)).
  destruct (items_sound H o (matoms m ++ atoms_of v) (children v) (proj2 (Forall_forall _ _) (fun x _ => Hs x)) m Hok) as (E & Ok1 & In1).
  - apply incl_appl, incl_refl.
  - intros x Hi. destruct (Hx x Hi) as [W O]. repeat split; auto.
    intros a Hin. apply in_or_app. right. apply Hinc. apply in_flat_map. eauto.
  - destruct (items_memo H o (children v) m) as [hs m1]. cbn [fst snd] in *.
    destruct (Hs v m1 Ok1 In1 Wv Ov) as (_ & Ok2 & In2); [apply incl_appr, incl_refl|].
    subst hs. auto.
Qed.

End Members.
